(** * EvalProofsD: C15 purity - the state-passing transcription [EvalImpl.eval_step] of
    Evaluator.Evaluate (all Evaluator fields, the Attacks object, the package-level tmpScore)
    returns a value that does not depend on the state it starts from
    ([eval_step_indep]) and equals the functional model ([eval_step_evaluate]). *)
From Coq Require Import NArith ZArith List Bool Lia Floats.
From FG Require Import Geom Rules FenSpec EvalImpl EvalProofsA EvalProofsB EvalProofsC.
From FG.gen Require Import Tables_gen.
Import ListNotations.
Open Scope Z_scope.

(** ** the state-passing transcription computes [eval_core_av] and forgets the old state *)
Lemma sum64_add f g : sum64 (fun s => f s + g s) = sum64 f + sum64 g.
Proof. unfold sum64. induction squares64 as [|a l IH]; cbn [fold_right]; [reflexivity|]. rewrite IH. lia. Qed.

Section StepProofs.
Variable cfg : eval_cfg.
Variable p : pos.
Variable gp : Z.
Variable zkey : N.

(* what knightEval / bishopEval / rookEval add to tmpScore for the piece on sq *)
Definition dmid (av : aview) (c pt sq : N) : Z :=
  if (pt =? KNIGHT)%N then b2z (pawn_in_front p c sq) (minor_behind_pawn_bonus cfg)
  else if (pt =? BISHOP)%N then
    b2z (pawn_in_front p c sq) (minor_behind_pawn_bonus cfg) + bishop_center_aim_bonus cfg * center_aim sq
    - b2z (bishop_blocked p c sq) (bishop_blocked_malus cfg)
  else if (pt =? ROOK)%N then
    b2z (queen_on_file p c sq) (rook_on_queen_file_bonus cfg) + b2z (no_own_pawn_on_file p c sq) (rook_on_open_file_bonus cfg)
    - b2z (rook_trapped cfg av p c sq) (rook_trapped_malus cfg)
  else 0.
Definition dend (c pt sq : N) : Z :=
  if (pt =? KNIGHT)%N then 0
  else if (pt =? BISHOP)%N then
    - bishop_pawn_malus cfg * pawns_same_colour p c sq - b2z (bishop_blocked p c sq) (bishop_blocked_malus cfg)
  else if (pt =? ROOK)%N then b2z (queen_on_file p c sq) (rook_on_queen_file_bonus cfg)
  else 0.

Lemma set_tmp_eta s : set_tmp s (t_mid s) (t_end s) = s.
Proof. destruct s. reflexivity. Qed.

Lemma set_tmp_tmp s a b c d : set_tmp (set_tmp s a b) c d = set_tmp s c d.
Proof. reflexivity. Qed.

Lemma st_piece_sq_delta s c pt sq :
  st_piece_sq cfg p s c pt sq = set_tmp s (t_mid s + dmid (a_view s) c pt sq) (t_end s + dend c pt sq).
Proof.
  unfold st_piece_sq, dmid, dend.
  destruct (pt =? KNIGHT)%N; [f_equal; lia|].
  destruct (pt =? BISHOP)%N; [f_equal; lia|].
  destruct (pt =? ROOK)%N; [f_equal; lia|].
  rewrite !Z.add_0_r. symmetry. apply set_tmp_eta.
Qed.

Definition lsum (f : N -> Z) (l : list N) : Z := fold_right (fun s acc => f s + acc) 0 l.

Lemma fold_piece c pt : forall l s1,
  fold_left (fun st sq => if (piece_at p sq =? mk_piece c pt)%N then st_piece_sq cfg p st c pt sq else st) l s1 =
  set_tmp s1 (t_mid s1 + lsum (fun sq => if (piece_at p sq =? mk_piece c pt)%N then dmid (a_view s1) c pt sq else 0) l)
             (t_end s1 + lsum (fun sq => if (piece_at p sq =? mk_piece c pt)%N then dend c pt sq else 0) l).
Proof.
  induction l as [|a l IH]; intros s1; cbn [fold_left lsum fold_right].
  - rewrite !Z.add_0_r. symmetry. apply set_tmp_eta.
  - rewrite IH. destruct (piece_at p a =? mk_piece c pt)%N.
    + rewrite st_piece_sq_delta. unfold set_tmp. cbn [e_gpf e_us e_them e_our_king e_their_king e_ring e_our_pieces e_mid e_end a_zobrist a_view t_mid t_end].
      f_equal; unfold lsum; lia.
    + f_equal; unfold lsum; lia.
Qed.

(* evalPiece(c, pt) in closed form *)
Definition PM (av : aview) (c pt : N) : Z :=
  (if (pt =? BISHOP)%N && (1 <? count_pt p c BISHOP) then bishop_pair_bonus cfg else 0)
  + sum64 (fun sq => if (piece_at p sq =? mk_piece c pt)%N then dmid av c pt sq else 0).
Definition PE (c pt : N) : Z :=
  (if (pt =? BISHOP)%N && (1 <? count_pt p c BISHOP) then bishop_pair_bonus cfg else 0)
  + sum64 (fun sq => if (piece_at p sq =? mk_piece c pt)%N then dend c pt sq else 0).

Lemma st_eval_piece_closed s c pt :
  st_eval_piece cfg p s c pt = set_tmp s (PM (a_view s) c pt) (PE c pt).
Proof.
  unfold st_eval_piece. rewrite fold_piece. unfold PM, PE, sum64, lsum.
  destruct ((pt =? BISHOP)%N && (1 <? count_pt p c BISHOP));
    unfold set_tmp; cbn [e_gpf e_us e_them e_our_king e_their_king e_ring e_our_pieces e_mid e_end a_zobrist a_view t_mid t_end];
    rewrite ?Z.add_0_l; reflexivity.
Qed.

Lemma st_add_piece_closed sgn s c pt :
  st_add_piece cfg p sgn s c pt =
  set_tmp (set_score s (e_mid s + sgn * PM (a_view s) c pt) (e_end s + sgn * PE c pt)) (PM (a_view s) c pt) (PE c pt).
Proof. unfold st_add_piece. rewrite st_eval_piece_closed. reflexivity. Qed.

Lemma st_eval_king_closed s c :
  st_eval_king cfg s c = set_tmp s (fst (king_term cfg (a_view s) (e_ring s) c)) (snd (king_term cfg (a_view s) (e_ring s) c)).
Proof.
  unfold st_eval_king, king_term. destruct (use_attacks cfg); [|reflexivity].
  cbn [e_ring a_view t_mid t_end set_tmp e_gpf e_us e_them e_our_king e_their_king e_our_pieces e_mid e_end a_zobrist].
  destruct (bbnum _ >? bbnum _);
  cbn [e_ring a_view t_mid t_end set_tmp e_gpf e_us e_them e_our_king e_their_king e_our_pieces e_mid e_end a_zobrist];
  destruct (0 <? popcnt _);
  cbn [fst snd b2z e_ring a_view t_mid t_end set_tmp e_gpf e_us e_them e_our_king e_their_king e_our_pieces e_mid e_end a_zobrist];
  rewrite ?set_tmp_tmp; apply (f_equal2 (set_tmp s)); lia.
Qed.

Lemma st_add_king_closed sgn s c :
  st_add_king cfg sgn s c =
  set_tmp (set_score s (e_mid s + sgn * fst (king_term cfg (a_view s) (e_ring s) c))
                       (e_end s + sgn * snd (king_term cfg (a_view s) (e_ring s) c)))
          (fst (king_term cfg (a_view s) (e_ring s) c)) (snd (king_term cfg (a_view s) (e_ring s) c)).
Proof. unfold st_add_king. rewrite st_eval_king_closed. reflexivity. Qed.

(* the four evalPiece calls for one colour add up to adv_mid / adv_end *)
Lemma mk_piece_inj c t1 t2 : (mk_piece c t1 =? mk_piece c t2)%N = (t1 =? t2)%N.
Proof. unfold mk_piece. apply eq_true_iff_eq. rewrite !N.eqb_eq. lia. Qed.

Lemma PM_sum av c :
  PM av c KNIGHT + PM av c BISHOP + PM av c ROOK + PM av c QUEEN = adv_mid cfg av p c.
Proof.
  unfold PM, adv_mid, pair_bonus, b2z. change (KNIGHT =? BISHOP)%N with false. change (ROOK =? BISHOP)%N with false.
  change (QUEEN =? BISHOP)%N with false. change (BISHOP =? BISHOP)%N with true. cbn [andb].
  rewrite bsum_sum64.
  match goal with |- 0 + ?a + (?x + ?b) + (0 + ?c) + (0 + ?d) = ?r + ?x =>
    replace (0 + a + (x + b) + (0 + c) + (0 + d)) with ((a + b + c + d) + x) by lia end.
  f_equal. rewrite <- !sum64_add. apply sum64_ext. intros s Hs. unfold adv_mid_term, dmid.
  set (pc := piece_at p s).
  destruct (pc =? mk_piece c KNIGHT)%N eqn:E1.
  { apply N.eqb_eq in E1. rewrite E1, !mk_piece_inj. cbn. lia. }
  destruct (pc =? mk_piece c BISHOP)%N eqn:E2.
  { apply N.eqb_eq in E2. rewrite E2, !mk_piece_inj. cbn. lia. }
  destruct (pc =? mk_piece c ROOK)%N eqn:E3.
  { apply N.eqb_eq in E3. rewrite E3, !mk_piece_inj. cbn. lia. }
  destruct (pc =? mk_piece c QUEEN)%N; cbn; lia.
Qed.
Lemma PE_sum c : PE c KNIGHT + PE c BISHOP + PE c ROOK + PE c QUEEN = adv_end cfg p c.
Proof.
  unfold PE, adv_end, pair_bonus, b2z. change (KNIGHT =? BISHOP)%N with false. change (ROOK =? BISHOP)%N with false.
  change (QUEEN =? BISHOP)%N with false. change (BISHOP =? BISHOP)%N with true. cbn [andb].
  rewrite bsum_sum64.
  match goal with |- 0 + ?a + (?x + ?b) + (0 + ?c) + (0 + ?d) = ?r + ?x =>
    replace (0 + a + (x + b) + (0 + c) + (0 + d)) with ((a + b + c + d) + x) by lia end.
  f_equal. rewrite <- !sum64_add. apply sum64_ext. intros s Hs. unfold adv_end_term, dend.
  set (pc := piece_at p s).
  destruct (pc =? mk_piece c KNIGHT)%N eqn:E1.
  { apply N.eqb_eq in E1. rewrite E1, !mk_piece_inj. cbn. lia. }
  destruct (pc =? mk_piece c BISHOP)%N eqn:E2.
  { apply N.eqb_eq in E2. rewrite E2, !mk_piece_inj. cbn. lia. }
  destruct (pc =? mk_piece c ROOK)%N eqn:E3.
  { apply N.eqb_eq in E3. rewrite E3, !mk_piece_inj. cbn. lia. }
  destruct (pc =? mk_piece c QUEEN)%N; cbn; lia.
Qed.

(* projections after one "score.Add/Sub(evalPiece)" *)
Lemma add_piece_R sgn s c pt :
  let s' := st_add_piece cfg p sgn s c pt in
  e_gpf s' = e_gpf s /\ e_mid s' = e_mid s + sgn * PM (a_view s) c pt /\ e_end s' = e_end s + sgn * PE c pt /\
  a_view s' = a_view s /\ e_ring s' = e_ring s.
Proof. cbv zeta. rewrite st_add_piece_closed. repeat split; reflexivity. Qed.
Lemma add_king_R sgn s c :
  let s' := st_add_king cfg sgn s c in
  e_gpf s' = e_gpf s /\ e_mid s' = e_mid s + sgn * fst (king_term cfg (a_view s) (e_ring s) c) /\
  e_end s' = e_end s + sgn * snd (king_term cfg (a_view s) (e_ring s) c) /\
  a_view s' = a_view s /\ e_ring s' = e_ring s.
Proof. cbv zeta. rewrite st_add_king_closed. repeat split; reflexivity. Qed.

Definition adv_block (s3 : estate) : estate :=
  let a := st_add_piece cfg p 1 s3 WHITE KNIGHT in let a := st_add_piece cfg p (-1) a BLACK KNIGHT in
  let a := st_add_piece cfg p 1 a WHITE BISHOP in let a := st_add_piece cfg p (-1) a BLACK BISHOP in
  let a := st_add_piece cfg p 1 a WHITE ROOK in let a := st_add_piece cfg p (-1) a BLACK ROOK in
  let a := st_add_piece cfg p 1 a WHITE QUEEN in st_add_piece cfg p (-1) a BLACK QUEEN.

Lemma adv_block_R s :
  e_gpf (adv_block s) = e_gpf s /\
  e_mid (adv_block s) = e_mid s + (adv_mid cfg (a_view s) p WHITE - adv_mid cfg (a_view s) p BLACK) /\
  e_end (adv_block s) = e_end s + (adv_end cfg p WHITE - adv_end cfg p BLACK) /\
  a_view (adv_block s) = a_view s /\ e_ring (adv_block s) = e_ring s.
Proof.
  unfold adv_block. cbv zeta.
  set (a1 := st_add_piece cfg p 1 s WHITE KNIGHT). destruct (add_piece_R 1 s WHITE KNIGHT) as (G1 & M1 & E1 & V1 & R1). fold a1 in G1, M1, E1, V1, R1.
  set (a2 := st_add_piece cfg p (-1) a1 BLACK KNIGHT). destruct (add_piece_R (-1) a1 BLACK KNIGHT) as (G2 & M2 & E2 & V2 & R2). fold a2 in G2, M2, E2, V2, R2.
  set (a3 := st_add_piece cfg p 1 a2 WHITE BISHOP). destruct (add_piece_R 1 a2 WHITE BISHOP) as (G3 & M3 & E3 & V3 & R3). fold a3 in G3, M3, E3, V3, R3.
  set (a4 := st_add_piece cfg p (-1) a3 BLACK BISHOP). destruct (add_piece_R (-1) a3 BLACK BISHOP) as (G4 & M4 & E4 & V4 & R4). fold a4 in G4, M4, E4, V4, R4.
  set (a5 := st_add_piece cfg p 1 a4 WHITE ROOK). destruct (add_piece_R 1 a4 WHITE ROOK) as (G5 & M5 & E5 & V5 & R5). fold a5 in G5, M5, E5, V5, R5.
  set (a6 := st_add_piece cfg p (-1) a5 BLACK ROOK). destruct (add_piece_R (-1) a5 BLACK ROOK) as (G6 & M6 & E6 & V6 & R6). fold a6 in G6, M6, E6, V6, R6.
  set (a7 := st_add_piece cfg p 1 a6 WHITE QUEEN). destruct (add_piece_R 1 a6 WHITE QUEEN) as (G7 & M7 & E7 & V7 & R7). fold a7 in G7, M7, E7, V7, R7.
  set (a8 := st_add_piece cfg p (-1) a7 BLACK QUEEN). destruct (add_piece_R (-1) a7 BLACK QUEEN) as (G8 & M8 & E8 & V8 & R8). fold a8 in G8, M8, E8, V8, R8.
  rewrite V7 in M8. rewrite V6 in M7, M8. rewrite V5 in M6, M7, M8. rewrite V4 in M5, M6, M7, M8.
  rewrite V3 in M4, M5, M6, M7, M8. rewrite V2 in M3, M4, M5, M6, M7, M8. rewrite V1 in M2, M3, M4, M5, M6, M7, M8.
  repeat split.
  - congruence.
  - rewrite <- (PM_sum (a_view s) WHITE), <- (PM_sum (a_view s) BLACK). lia.
  - rewrite <- (PE_sum WHITE), <- (PE_sum BLACK). lia.
  - congruence.
  - congruence.
Qed.

Lemma popcnt_ext' f g : (forall t, f t = g t) -> popcnt f = popcnt g.
Proof. intros H. apply popcnt_ext. intros t _. apply H. Qed.
Lemma bbnum_ext f g : (forall t, f t = g t) -> bbnum f = bbnum g.
Proof. intros H. unfold bbnum. induction squares64 as [|a l IH]; cbn [fold_right]; [reflexivity|]. rewrite IH, H. reflexivity. Qed.

Lemma king_term_ext av rg1 rg2 c :
  (forall t, rg1 c t = rg2 c t) -> (forall t, rg1 (flip c) t = rg2 (flip c) t) ->
  king_term cfg av rg1 c = king_term cfg av rg2 c.
Proof.
  intros H1 H2. unfold king_term. destruct (use_attacks cfg); [|reflexivity]. cbv zeta.
  rewrite (popcnt_ext' (fun t => rg1 c t && av_all av (flip c) t) (fun t => rg2 c t && av_all av (flip c) t)) by (intros t; rewrite H1; reflexivity).
  rewrite (popcnt_ext' (fun t => rg1 c t && av_all av c t) (fun t => rg2 c t && av_all av c t)) by (intros t; rewrite H1; reflexivity).
  rewrite (bbnum_ext (fun t => rg1 c t && av_all av (flip c) t) (fun t => rg2 c t && av_all av (flip c) t)) by (intros t; rewrite H1; reflexivity).
  rewrite (bbnum_ext (fun t => rg1 c t && av_all av c t) (fun t => rg2 c t && av_all av c t)) by (intros t; rewrite H1; reflexivity).
  rewrite (popcnt_ext' (fun t => av_all av c t && rg1 (flip c) t) (fun t => av_all av c t && rg2 (flip c) t)) by (intros t; rewrite H2; reflexivity).
  reflexivity.
Qed.

(* without UseAttacksInEval the content of the Attacks object is irrelevant *)
Lemma eval_core_av_noatt av1 av2 : use_attacks cfg = false ->
  eval_core_av cfg av1 p gp = eval_core_av cfg av2 p gp.
Proof.
  intros H. unfold eval_core_av.
  assert (A : forall c, adv_mid cfg av1 p c = adv_mid cfg av2 p c).
  { intros c. unfold adv_mid. f_equal. rewrite !bsum_sum64. apply sum64_ext. intros s _.
    unfold adv_mid_term, rook_trapped. rewrite H. reflexivity. }
  assert (K : forall c, king_term cfg av1 (ring (brd p)) c = king_term cfg av2 (ring (brd p)) c).
  { intros c. unfold king_term. rewrite H. reflexivity. }
  rewrite !A, !K, H. reflexivity.
Qed.

(* the evaluator after InitEval: the fields evaluate() reads have been written *)
Definition view_after (s : estate) : aview :=
  if use_attacks cfg then (if (zkey =? 0)%N then av_empty else av_of p) else a_view s.

Lemma st_init_fields s : (stm p < 2)%N ->
  let s0 := st_init cfg p gp s in
  e_gpf s0 = gpf gp /\
  (forall c t, (c < 2)%N -> e_ring s0 c t = ring (brd p) c t) /\
  (use_attacks cfg = true -> a_zobrist s0 = 0%N /\ a_view s0 = av_empty) /\
  (use_attacks cfg = false -> a_view s0 = a_view s).
Proof.
  intros Hs. cbv zeta. unfold st_init. destruct (use_attacks cfg);
  cbn [set_att e_gpf e_ring a_zobrist a_view]; (split; [reflexivity|]); (split; [|split; intros; try discriminate; repeat split; reflexivity]);
  intros c t Hc; unfold upd; rewrite ring_unfold;
  (assert (stm p = 0 \/ stm p = 1)%N as [E | E] by lia); (assert (c = 0 \/ c = 1)%N as [-> | ->] by lia);
  rewrite E; reflexivity.
Qed.

Lemma st_evaluate_spec s0 : 
  e_gpf s0 = gpf gp ->
  (forall c t, (c < 2)%N -> e_ring s0 c t = ring (brd p) c t) ->
  (use_attacks cfg = true -> a_zobrist s0 = 0%N /\ a_view s0 = av_empty) ->
  fst (st_evaluate cfg p gp zkey s0) =
  eval_core_av cfg (if use_attacks cfg then (if (zkey =? 0)%N then av_empty else av_of p) else a_view s0) p gp.
Proof.
  intros HG HR HA. unfold st_evaluate, eval_core_av.
  destruct (insufficient_material p); [reflexivity|]. cbv zeta.
  cbn [set_score e_gpf e_mid e_end]. rewrite HG.
  set (dir := if (stm p =? WHITE)%N then 1 else -1).
  set (mat := material p WHITE - material p BLACK).
  set (mid0 := mat + (psq_mid p WHITE - psq_mid p BLACK)). set (end0 := mat + (psq_end p WHITE - psq_end p BLACK)).
  destruct (use_lazy cfg && (Z.abs (interp mid0 end0 (gpf gp)) >? threshold cfg gp)); [reflexivity|].
  cbn [fst].
  set (s2 := set_score (set_score s0 mat mat) mid0 end0).
  set (s3 := if use_attacks cfg then st_compute p zkey s2 else s2).
  set (V := if use_attacks cfg then (if (zkey =? 0)%N then av_empty else av_of p) else a_view s0).
  assert (P3 : e_gpf s3 = gpf gp /\ e_mid s3 = mid0 /\ e_end s3 = end0 /\ a_view s3 = V /\ e_ring s3 = e_ring s0).
  { unfold s3, V, st_compute. destruct (use_attacks cfg).
    - destruct (HA eq_refl) as [Z0 V0]. unfold s2. cbn [set_score a_zobrist a_view]. rewrite Z0.
      destruct (zkey =? 0)%N; cbn [set_att set_score e_gpf e_mid e_end a_view e_ring]; rewrite ?V0; repeat split; try reflexivity; exact HG.
    - unfold s2. cbn [set_score e_gpf e_mid e_end a_view e_ring]. repeat split; try reflexivity; exact HG. }
  clearbody s3. clear s2. destruct P3 as (G3 & M3 & E3 & V3 & R3).
  fold (adv_block s3).
  set (s4 := if use_adv cfg then adv_block s3 else s3).
  assert (P4 : e_gpf s4 = gpf gp /\
               e_mid s4 = (if use_adv cfg then mid0 + (adv_mid cfg V p WHITE - adv_mid cfg V p BLACK) else mid0) /\
               e_end s4 = (if use_adv cfg then end0 + (adv_end cfg p WHITE - adv_end cfg p BLACK) else end0) /\
               a_view s4 = V /\ e_ring s4 = e_ring s0).
  { unfold s4. destruct (use_adv cfg); [|tauto].
    destruct (adv_block_R s3) as (G & M & E & V' & R). rewrite G, M, E, V', R, G3, M3, E3, V3, R3. tauto. }
  clearbody s4. destruct P4 as (G4 & M4 & E4 & V4 & R4).
  set (mid1 := if use_adv cfg then mid0 + (adv_mid cfg V p WHITE - adv_mid cfg V p BLACK) else mid0) in *.
  set (end1 := if use_adv cfg then end0 + (adv_end cfg p WHITE - adv_end cfg p BLACK) else end0) in *.
  set (mob := use_attacks cfg && use_mobility cfg).
  set (s5 := if mob then set_score s4 _ _ else s4).
  set (mid2 := if mob then mid1 + (av_mob V WHITE - av_mob V BLACK) * mobility_bonus cfg else mid1).
  set (end2 := if mob then end1 + mid2 else end1).
  assert (P5 : e_gpf s5 = gpf gp /\ e_mid s5 = mid2 /\ e_end s5 = end2 /\ a_view s5 = V /\ e_ring s5 = e_ring s0).
  { unfold s5, mid2, end2. destruct mob; [|tauto]. cbn [set_score e_gpf e_mid e_end a_view e_ring].
    rewrite G4, M4, E4, V4, R4. tauto. }
  clearbody s5. destruct P5 as (G5 & M5 & E5 & V5 & R5).
  set (kw := king_term cfg V (ring (brd p)) WHITE). set (kb := king_term cfg V (ring (brd p)) BLACK).
  set (s6 := if use_king cfg then _ else s5).
  assert (P6 : e_gpf s6 = gpf gp /\ e_mid s6 = (if use_king cfg then mid2 + fst kw - fst kb else mid2) /\
               e_end s6 = (if use_king cfg then end2 + snd kw - snd kb else end2)).
  { unfold s6. destruct (use_king cfg); [|tauto].
    set (b1 := st_add_king cfg 1 s5 WHITE). destruct (add_king_R 1 s5 WHITE) as (Ga & Ma & Ea & Va & Ra). fold b1 in Ga, Ma, Ea, Va, Ra.
    destruct (add_king_R (-1) b1 BLACK) as (Gb & Mb & Eb & Vb & Rb).
    rewrite Gb, Mb, Eb, Va, Ra, Ga, Ma, Ea, V5, R5, G5, M5, E5.
    assert (KW : king_term cfg V (e_ring s0) WHITE = kw) by (apply king_term_ext; intros t; apply HR; reflexivity).
    assert (KB : king_term cfg V (e_ring s0) BLACK = kb) by (apply king_term_ext; intros t; apply HR; reflexivity).
    rewrite KW, KB. repeat split; lia. }
  clearbody s6. destruct P6 as (G6 & M6 & E6).
  cbn [set_score e_gpf e_mid e_end]. rewrite G6, M6, E6. reflexivity.
Qed.

Lemma pos_ok_stm : pos_ok p = true -> (stm p < 2)%N.
Proof. unfold pos_ok. rewrite !andb_true_iff. intros [_ H]. apply N.ltb_lt, H. Qed.

Theorem eval_step_spec s :
  fst (eval_step cfg p gp zkey s) =
  if negb (pos_ok p) then None
  else if negb ((0 <=? gp) && (gp <=? c_game_phase_max)) then None
  else Some (eval_core_av cfg (view_after s) p gp).
Proof.
  unfold eval_step. destruct (pos_ok p) eqn:Hp; cbn [negb]; [|reflexivity].
  destruct (negb ((0 <=? gp) && (gp <=? c_game_phase_max))); [reflexivity|].
  destruct (st_init_fields s (pos_ok_stm Hp)) as (HG & HR & HA & HN).
  pose proof (st_evaluate_spec (st_init cfg p gp s) HG HR HA) as E.
  destruct (st_evaluate cfg p gp zkey (st_init cfg p gp s)) as [v s']. cbn [fst] in *. rewrite E.
  unfold view_after. destruct (use_attacks cfg) eqn:Hu; [reflexivity|]. rewrite (HN eq_refl). reflexivity.
Qed.
End StepProofs.

(** ** C15, purity: the value does not depend on the state left behind by earlier calls
    (same or other evaluator instance, other settings, the shared tmpScore) *)
Theorem eval_step_indep cfg p gp zkey s1 s2 :
  fst (eval_step cfg p gp zkey s1) = fst (eval_step cfg p gp zkey s2).
Proof.
  rewrite !eval_step_spec. destruct (negb (pos_ok p)); [reflexivity|].
  destruct (negb ((0 <=? gp) && (gp <=? c_game_phase_max))); [reflexivity|]. apply (f_equal Some).
  unfold view_after. destruct (use_attacks cfg) eqn:Hu; [reflexivity|]. apply eval_core_av_noatt, Hu.
Qed.

(* and it is the functional model, unless the position's Zobrist key is 0 *)
Theorem eval_step_evaluate cfg p gp zkey s : zkey <> 0%N ->
  fst (eval_step cfg p gp zkey s) = evaluate cfg p gp.
Proof.
  intros Hz. rewrite eval_step_spec. unfold evaluate. destruct (negb (pos_ok p)); [reflexivity|].
  destruct (negb ((0 <=? gp) && (gp <=? c_game_phase_max))); [reflexivity|]. apply (f_equal Some).
  unfold view_after, eval_core. apply N.eqb_neq in Hz. rewrite Hz.
  destruct (use_attacks cfg) eqn:Hu; [reflexivity|]. apply eval_core_av_noatt, Hu.
Qed.
