(** * PosProofsC: what the proofs need to know about a move ([move_ok]), the state
    invariant [WF], and the chain lemmas ("Good") through sequences of board edits. *)
From Coq Require Import NArith ZArith List Bool Lia ZifyN ZifyBool Btauto.
From FG Require Import Geom Rules FenSpec PosImpl PosProofsA PosProofsB.
Import ListNotations.
Open Scope N_scope.

(** ** decoding the 16-bit move code *)
Lemma decode m : mfrom m < 64 -> mto m < 64 -> mtype m < 4 -> 3 <= mprom m <= 6 ->
  mv_from (code m) = mfrom m /\ mv_to (code m) = mto m /\ mv_type (code m) = mtype m /\ mv_prom (code m) = mprom m.
Proof.
  intros. rewrite mv_from_eq, mv_to_eq, mv_type_eq, mv_prom_eq. unfold code. repeat split; lia.
Qed.

(** ** the en-passant field is sound: the pawn that can be captured is there *)
Definition EpOK (p : ipos) : Prop :=
  i_ep p = 64 \/
  (i_ep p < 64 /\ rank_of (i_ep p) = (if i_stm p =? 0 then 5 else 2) /\
   sq_to (i_ep p) (pawn_dir (cflip (i_stm p))) < 64 /\
   at_ (i_board p) (sq_to (i_ep p) (pawn_dir (cflip (i_stm p)))) = 8 * cflip (i_stm p) + PAWN).

(** ** state invariant (everything except the key, the game phase and the history) *)
Record WF (t : tabs) (p : ipos) : Prop := mkWF {
  w_coh : Coh t p;
  w_stm : i_stm p < 2;
  w_cr : i_cr p < 16;
  w_hmc : (0 <= i_hmc p)%Z;
  w_nhm : (1 <= i_nhm p)%Z /\ (i_nhm p mod 2 = 1 - Z.of_N (i_stm p))%Z;
  w_ep : EpOK p
}.

(* the key is the Zobrist hash of the abstract position *)
Definition KeyOK (t : tabs) (p : ipos) : Prop := kres t p = skey t (i_stm p) (i_cr p) (i_ep p).

Lemma KeyOK_key_of t p : KeyOK t p <-> i_key p = key_of t (abs p).
Proof.
  unfold KeyOK, kres, key_of, abs. cbn [brd stm cr ep]. split; intro H.
  - rewrite <- H. xor_solve.
  - rewrite H. xor_solve.
Qed.

Definition Inv (t : tabs) (p : ipos) : Prop := WF t p /\ KeyOK t p.

Definition room (p : ipos) : Prop := (length (i_hist p) < MaxHistory)%nat.

(** ** facts about a move that the proofs use; all of them follow from pseudo-legality
    (PosProofsD.pseudo_move_ok) *)
Section MoveOk.
Variable p : ipos.
Variable m : mv.
Let b := i_board p.
Let c := i_stm p.
Let f := mfrom m.
Let to := mto m.

Definition tgt_ok : Prop := at_ b to = 0 \/ (at_ b to <> 0 /\ at_ b to / 8 <> c).

Record ok_common : Prop := {
  oc_f : f < 64; oc_t : to < 64; oc_pr : 3 <= mprom m <= 6;
  oc_pc : at_ b f <> 0; oc_col : at_ b f / 8 = c }.

Record ok_normal : Prop := {
  on_ty : mtype m = NORMAL;
  on_tgt : tgt_ok;
  on_cap : at_ b f mod 8 = PAWN -> at_ b to <> 0 -> zabs_diff (rank_of f) (rank_of to) <> 2;
  on_single : at_ b f mod 8 = PAWN -> at_ b to = 0 -> sq_distance f to <> 2 ->
              zabs_diff (rank_of f) (rank_of to) <> 2;
  on_double : at_ b f mod 8 = PAWN -> at_ b to = 0 -> sq_distance f to = 2 ->
              zabs_diff (rank_of f) (rank_of to) = 2 /\
              let e := sq_to to (pawn_dir (cflip c)) in
              e < 64 /\ e = mk_sq (file_of f) ((rank_of f + rank_of to) / 2) /\
              sq_to e (pawn_dir c) = to /\ e <> to /\ e <> f /\
              rank_of e = (if c =? 0 then 2 else 5) }.

Record ok_promotion : Prop := {
  op_ty : mtype m = PROMOTION;
  op_pc : at_ b f = 8 * c + PAWN;
  op_tgt : tgt_ok;
  op_rank : zabs_diff (rank_of f) (rank_of to) <> 2 }.

Record ok_enpassant : Prop := {
  oe_ty : mtype m = ENPASSANT;
  oe_pc : at_ b f = 8 * c + PAWN;
  oe_tgt : at_ b to = 0;
  oe_ep : to = i_ep p;
  oe_cs : let cs := sq_to to (pawn_dir (cflip c)) in
          cs < 64 /\ cs = mk_sq (file_of to) (rank_of f) /\ cs <> f /\ cs <> to;
  oe_cbs : castling_by_square f = 0 /\ castling_by_square to = 0;
  oe_rank : zabs_diff (rank_of f) (rank_of to) <> 2 }.

(* (king from, king to, rook from, rook to, colour) *)
Definition castle_shape (kf kt rf rt cc : N) : Prop :=
  (kf, kt, rf, rt, cc) = (4, 6, 7, 5, 0) \/ (kf, kt, rf, rt, cc) = (4, 2, 0, 3, 0) \/
  (kf, kt, rf, rt, cc) = (60, 62, 63, 61, 1) \/ (kf, kt, rf, rt, cc) = (60, 58, 56, 59, 1).

Record ok_castling : Prop := {
  ok_ty : mtype m = CASTLING;
  ok_shape : exists rf rt, castle_shape f to rf rt c /\
             at_ b f = 8 * c + KING /\ at_ b rf = 8 * c + ROOK /\ at_ b to = 0 /\ at_ b rt = 0 }.

Definition move_ok : Prop := ok_common /\ (ok_normal \/ ok_promotion \/ ok_enpassant \/ ok_castling).
End MoveOk.

Lemma move_ok_basic p m : move_ok p m ->
  mfrom m < 64 /\ mto m < 64 /\ mtype m < 4 /\ 3 <= mprom m <= 6.
Proof.
  intros [Hc H]. destruct Hc. repeat split; try assumption; try lia.
  destruct H as [H|[H|[H|H]]]; destruct H as [-> ]; unfold NORMAL, PROMOTION, ENPASSANT, CASTLING; lia.
Qed.

Lemma tgt_ok_ne p m : ok_common p m -> tgt_ok p m -> mfrom m <> mto m.
Proof.
  intros Hc Ht E. destruct Hc. rewrite E in *. destruct Ht as [Ht|[_ Ht]]; congruence.
Qed.

(** ** "Good": coherence, the key residual and (under a side condition HB) the exact game
    phase, threaded through a sequence of edits *)
Section Good.
Variable t : tabs.
Variable HB : Prop.   (* "the game-phase bound is wanted": chosen by the caller *)

Definition Good (p : ipos) (k : N) : Prop :=
  Coh t p /\ kres t p = k /\ (HB -> phval_nonneg t /\ PhOK t p).

Lemma good_rp p k sq : Good p k -> sq < 64 -> at_ (i_board p) sq <> 0 -> Good (rp t p sq) k.
Proof.
  intros (C & K & P) Hs Hat. pose proof (c_len _ _ C) as Hl. split; [|split].
  - apply rp_coh; auto.
  - rewrite kres_rp; auto.
  - intro hb. destruct (P hb) as [Hnn Hp]. split; [assumption|]. apply rp_phase; auto.
Qed.

Lemma good_mp p k f to : Good p k -> f < 64 -> to < 64 -> f <> to ->
  at_ (i_board p) f <> 0 -> at_ (i_board p) to = 0 -> Good (mp t p f to) k.
Proof.
  intros (C & K & P) Hf Ht Hne Hat He. pose proof (c_len _ _ C) as Hl. split; [|split].
  - apply mp_coh; auto.
  - rewrite kres_mp; auto.
  - intro hb. destruct (P hb) as [Hnn Hp]. split; [assumption|]. apply mp_phase; auto.
Qed.

Lemma good_put p k pc sq : Good p k -> sq < 64 -> at_ (i_board p) sq = 0 -> okpc pc = true -> pc <> 0 ->
  (pc mod 8 = KING -> forall s, at_ (i_board p) s <> pc) ->
  (HB -> clamp t = true -> (psum t (i_board p) + phval t (pc mod 8) <= GamePhaseMax)%Z) ->
  Good (put_raw t p pc sq) k.
Proof.
  intros (C & K & P) Hs He Ho Hnz Hk Hb. pose proof (c_len _ _ C) as Hl. split; [|split].
  - apply put_raw_coh; auto.
  - rewrite put_raw_kres; auto.
  - intro hb. destruct (P hb) as [Hnn [Hp1 Hp2]]. split; [assumption|]. apply put_raw_phase; auto.
Qed.

(* setters that leave board, derived fields and phase alone *)
Lemma good_frame p q k : Good p k ->
  i_board q = i_board p -> i_pbb q = i_pbb p -> i_occ q = i_occ p -> i_mat q = i_mat p ->
  i_matnp q = i_matnp p -> i_psqm q = i_psqm p -> i_psqe q = i_psqe p -> i_ksq q = i_ksq p ->
  i_phase q = i_phase p -> Good q (N.lxor k (N.lxor (i_key p) (i_key q))).
Proof.
  intros (C & K & P) E1 E2 E3 E4 E5 E6 E7 E8 E9. split; [|split].
  - eapply coh_fields; [..|exact C]; congruence.
  - rewrite <- K. unfold kres. rewrite E1. xor_solve.
  - intro hb. destruct (P hb) as [Hnn Hp]. split; [assumption|].
    eapply phok_fields; [..|exact Hp]; congruence.
Qed.

Lemma good_same_key p q k : Good p k ->
  i_key q = i_key p -> i_board q = i_board p -> i_pbb q = i_pbb p -> i_occ q = i_occ p -> i_mat q = i_mat p ->
  i_matnp q = i_matnp p -> i_psqm q = i_psqm p -> i_psqe q = i_psqe p -> i_ksq q = i_ksq p ->
  i_phase q = i_phase p -> Good q k.
Proof.
  intros G E0 E1 E2 E3 E4 E5 E6 E7 E8 E9.
  pose proof (good_frame p q k G E1 E2 E3 E4 E5 E6 E7 E8 E9) as G'. rewrite E0 in G'.
  replace (N.lxor k (N.lxor (i_key p) (i_key p))) with k in G' by xor_solve. exact G'.
Qed.

Lemma good_xor_key p k x : Good p k -> Good (set_key (N.lxor (i_key p) x) p) (N.lxor k x).
Proof.
  intro G. pose proof (good_frame p (set_key (N.lxor (i_key p) x) p) k G) as G'.
  psimpl_in G'. repeat (specialize (G' eq_refl)).
  replace (N.lxor k (N.lxor (i_key p) (N.lxor (i_key p) x))) with (N.lxor k x) in G' by xor_solve. exact G'.
Qed.

Lemma good_set_cr p k v : Good p k -> Good (set_cr v p) k.
Proof. intro G. apply (good_same_key p); auto. Qed.
Lemma good_set_ep p k v : Good p k -> Good (set_ep v p) k.
Proof. intro G. apply (good_same_key p); auto. Qed.
Lemma good_set_hmc p k v : Good p k -> Good (set_hmc v p) k.
Proof. intro G. apply (good_same_key p); auto. Qed.
Lemma good_push_hist p k a b' c' : Good p k -> Good (push_hist p a b' c') k.
Proof. intro G. apply (good_same_key p); auto. Qed.
Lemma good_unturn p k r : Good p k -> Good (unturn r p) k.
Proof. intro G. apply (good_same_key p); auto. Qed.
Lemma good_set_flag p k v : Good p k -> Good (set_check_flag v p) k.
Proof. intro G. apply (good_same_key p); auto. Qed.

Lemma good_turn p k d : Good p k -> Good (turn t d p) (N.lxor k (zn t)).
Proof.
  intro G. pose proof (good_frame p (turn t d p) k G) as G'.
  psimpl_in G'. repeat (specialize (G' eq_refl)).
  replace (N.lxor k (N.lxor (i_key p) (N.lxor (i_key p) (zn t)))) with (N.lxor k (zn t)) in G' by xor_solve. exact G'.
Qed.

Lemma good_clear_ep p k : Good p k -> Good (clear_ep t p) (N.lxor k (epk t (i_ep p))).
Proof. intro G. rewrite clear_ep_nf. apply good_set_ep. apply good_xor_key. exact G. Qed.

Lemma good_drop p k lost : Good p k ->
  Good (drop_castling t p lost) (N.lxor (N.lxor k (zc t (i_cr p))) (zc t (N.ldiff (i_cr p) lost))).
Proof.
  intro G. rewrite drop_castling_nf. apply good_set_cr.
  rewrite N.lxor_assoc. rewrite (N.lxor_assoc k). apply good_xor_key. exact G.
Qed.

Lemma good_touch p k f to : Good p k ->
  Good (touch_castling t p f to) (N.lxor (N.lxor k (zc t (i_cr p))) (zc t (N.ldiff (i_cr p) (lost_by f to)))).
Proof. intro G. rewrite touch_castling_nf. apply good_drop. exact G. Qed.

(* restoring from history overwrites the key *)
Lemma good_restore p k h : Good p k -> Good (restore h p) (N.lxor (h_key h) (piece_key t (i_board p))).
Proof.
  intro G. pose proof (good_frame p (restore h p) k G) as G'.
  psimpl_in G'. repeat (specialize (G' eq_refl)).
  destruct G as (_ & K & _). rewrite <- K in G'. unfold kres in G'.
  replace (N.lxor (N.lxor (i_key p) (piece_key t (i_board p))) (N.lxor (i_key p) (h_key h)))
    with (N.lxor (h_key h) (piece_key t (i_board p))) in G' by xor_solve.
  exact G'.
Qed.

End Good.

(** ** abstraction of a finished move *)
Lemma fmn_step nhm stm : stm < 2 -> (1 <= nhm)%Z -> (nhm mod 2 = 1 - Z.of_N stm)%Z ->
  Z.to_N (Z.quot (nhm + 1 + 1) 2) =
  (if stm =? BLACK then Z.to_N (Z.quot (nhm + 1) 2) + 1 else Z.to_N (Z.quot (nhm + 1) 2)).
Proof.
  intros Hs H1 Hp. rewrite !Z.quot_div_nonneg by lia. unfold BLACK.
  destruct (N.eqb_spec stm 1); lia.
Qed.

Lemma abs_turn t X p : WF t p -> i_stm X = i_stm p -> i_nhm X = i_nhm p ->
  abs (turn t 1 X) =
  mkpos (i_board X) (flip (i_stm p)) (i_cr X) (i_ep X) (Z.to_N (i_hmc X))
        (if i_stm p =? BLACK then fmn (abs p) + 1 else fmn (abs p)).
Proof.
  intros W Es En. unfold abs. psimpl. cbn [fmn]. rewrite Es, En.
  destruct (w_nhm _ _ W) as [H1 H2]. pose proof (w_stm _ _ W) as Hs.
  f_equal.
  - unfold flip. assert (i_stm p = 0 \/ i_stm p = 1) as [-> | ->] by lia; reflexivity.
  - apply fmn_step; assumption.
Qed.

(* WF of a finished move from the pieces *)
Lemma wf_turn t X p : WF t p -> Coh t X -> i_stm X = i_stm p -> i_nhm X = i_nhm p ->
  i_cr X <= i_cr p -> (0 <= i_hmc X)%Z ->
  (i_ep X = 64 \/ (i_ep X < 64 /\ rank_of (i_ep X) = (if i_stm p =? 0 then 2 else 5) /\
                   sq_to (i_ep X) (pawn_dir (i_stm p)) < 64 /\
                   at_ (i_board X) (sq_to (i_ep X) (pawn_dir (i_stm p))) = 8 * i_stm p + PAWN)) ->
  WF t (turn t 1 X).
Proof.
  intros W C Es En Hcr Hh He. pose proof (w_stm _ _ W) as Hs. destruct (w_nhm _ _ W) as [H1 H2].
  constructor; psimpl.
  - apply coh_turn. exact C.
  - rewrite Es. apply cflip_lt. exact Hs.
  - pose proof (w_cr _ _ W). lia.
  - exact Hh.
  - rewrite Es, En. fold (cflip (i_stm p)). rewrite cflip_val by assumption. split; lia.
  - unfold EpOK. psimpl. rewrite Es. fold (cflip (i_stm p)). rewrite cflip_cflip.
    destruct He as [He|(H1' & H2' & H3')]; [left; exact He|right]. split; [exact H1'|]. split; [|exact H3'].
    rewrite H2'. assert (i_stm p = 0 \/ i_stm p = 1) as [-> | ->] by lia; reflexivity.
Qed.

Lemma ldiff_le a b' : N.ldiff a b' <= a.
Proof.
  apply N.ldiff_le. apply N.bits_inj. intro n. rewrite !N.ldiff_spec, N.bits_0. btauto.
Qed.
