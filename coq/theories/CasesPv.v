(** * CasesPv: evaluation helper for the C05 correspondence run (harness command c05-cases).

    A case is a REAL depth-D search of the engine in its minimal configuration (see the comment
    of [PvBuffers.Replay]): the game tree the search walked (moves in the delivery order of the
    on-demand generator), the decisions of a reference alpha-beta written in Go that mirrors the
    control flow of rootSearch/search (one number per delivered move, see [dec_of]), and what the
    real search reported: Result.Pv, the PV of every SendIterationEndInfo, the best move.
    [pv_case_ok] replays the case through the model ([Replay.run_case], i.e. [PvBuffers.run] with
    an oracle built from the tables) and compares; [pv_mismatches] lists the failing indices.

    Move codes are Move.MoveOf() numbers; [PvBuffers.move] is [N], so they are binary literals
    (no unary numeral above the number of moves of a node is ever parsed). *)
From Coq Require Import List NArith Bool Arith.
From FG Require Import PvBuffers.
Import ListNotations.

(** ** compact constructors for the dumped tree (arguments of type [N]: literals are read in N_scope) *)
Definition X (m : N) : move * option gt := (m, None).                       (* delivered, !WasLegalMove *)
Definition L (m : N) : move * option gt := (m, Some (GNode false [])).      (* legal, horizon node, no check *)
Definition C (m : N) : move * option gt := (m, Some (GNode true [])).       (* legal, horizon node, in check *)
Definition Nd (m : N) (chk : bool) (kids : list (move * option gt)) : move * option gt :=
  (m, Some (GNode chk kids)).

(** ** one number per delivered move:
    1 = checkDrawRepAnd50, 2 = null-window search done, 4 = re-search done,
    8 = value > bestNodeValue, 16 = value > alpha, 32 = value >= beta *)
Definition dec_of (n : nat) : Replay.dec6 :=
  (Nat.testbit n 0, Nat.testbit n 1, Nat.testbit n 2, Nat.testbit n 3, Nat.testbit n 4, Nat.testbit n 5).

Definition mk_tbl (l : list (list nat * list nat)) : list (list nat * list Replay.dec6) :=
  map (fun kv => (fst kv, map dec_of (snd kv))) l.

Definition mk_rt (l : list (nat * (list nat * list nat))) : list (nat * (list nat * list Replay.dec6)) :=
  map (fun x => (fst x, (fst (snd x), map dec_of (snd (snd x))))) l.

Record case := mkCase {
  c_tree : gt;                                   (* game tree to depth [c_depth] *)
  c_tbl : list (list nat * list nat);            (* visits of [search]: key, decisions *)
  c_rt : list (nat * (list nat * list nat));     (* per iteration: root move order, decisions *)
  c_depth : nat;
  c_pv : list N;                                 (* observed Result.Pv *)
  c_iters : list (list N);                       (* observed SendIterationEndInfo PVs, in order *)
  c_best : N                                     (* observed best move (SendResult) *)
}.

Fixpoint pv_eqb (a b : list N) : bool :=
  match a, b with
  | [], [] => true
  | x :: a', y :: b' => N.eqb x y && pv_eqb a' b'
  | _, _ => false
  end.

Fixpoint pvs_eqb (a b : list (list N)) : bool :=
  match a, b with
  | [], [] => true
  | x :: a', y :: b' => pv_eqb x y && pvs_eqb a' b'
  | _, _ => false
  end.

(** what the model says for the case (for diagnosis: [Eval vm_compute in (pv_replay c)]) *)
Definition pv_replay (c : case) :=
  Replay.run_case (c_tree c) (mk_tbl (c_tbl c)) (mk_rt (c_rt c)) (c_depth c).

Definition pv_case_ok (c : case) : bool :=
  let '(pv, reps, e, o, b) := pv_replay c in
  pv_eqb pv (c_pv c) && pvs_eqb reps (c_iters c) && negb e && negb o &&
  match b with Some m => N.eqb m (c_best c) | None => false end &&
  playable_b (c_pv c) (c_tree c) && forallb (fun l => playable_b l (c_tree c)) (c_iters c).

Fixpoint pv_mismatches_from (i : nat) (cases : list case) : list nat :=
  match cases with
  | [] => []
  | c :: r => (if pv_case_ok c then [] else [i]) ++ pv_mismatches_from (S i) r
  end.
Definition pv_mismatches := pv_mismatches_from 0.
