(** * EvalProofs: property C15 - the static evaluation is a pure, colour-symmetric function
    of the position (and the game phase), 0 on insufficient material.

    Model: EvalImpl.v.  Lemmas: EvalProofsA (floats, re-indexing, tables, inputs), EvalProofsB
    (geometry / attacks under the mirror), EvalProofsC (kings, evalKing closed form),
    EvalProofsD (state-passing transcription).

    Main results
    - [eval_mirror]       : legal_pos p -> evaluate cfg (mirror p) gp = evaluate cfg p gp, for EVERY
                            settings record cfg (all 32 switch combinations, arbitrary constants);
    - [eval_mirror_gp]    : the same with the recomputed game phase on both sides;
    - [eval_dead]         : insufficient_material p -> evaluate cfg p gp = Some 0;
    - [eval_pure]         : one call of Evaluate from ANY previous state of the evaluator, of its
                            Attacks object and of the shared tmpScore returns [evaluate cfg p gp]
                            (provided the Zobrist key of the position is not 0, see below);
    - [eval_step_indep]   (EvalProofsD) the returned value never depends on the previous state.
    Axioms: only Coq's primitive integers / floats and the two standard specification axioms
    FloatAxioms.mul_spec, FloatAxioms.opp_spec (see Print Assumptions at the end). *)
From Coq Require Import NArith ZArith List Bool Lia Floats.
From FG Require Import Geom Rules FenSpec EvalImpl EvalProofsA EvalProofsB EvalProofsC EvalProofsD.
From FG.gen Require Import Tables_gen.
Import ListNotations.
Open Scope Z_scope.

Definition combine (cfg : eval_cfg) (gp : Z) (ins w : bool)
  (mw mb pmw pmb pew peb amw amb aew aeb mobw mobb : Z) (kw kb : Z * Z) : Z :=
  if ins then 0 else
  let dir := if w then 1 else -1 in
  let g := gpf gp in
  let mat := mw - mb in
  let mid0 := mat + (pmw - pmb) in
  let end0 := mat + (pew - peb) in
  let v0 := interp mid0 end0 g in
  if use_lazy cfg && (Z.abs v0 >? threshold cfg gp) then v0 * dir else
  let mid1 := if use_adv cfg then mid0 + (amw - amb) else mid0 in
  let end1 := if use_adv cfg then end0 + (aew - aeb) else end0 in
  let mob := use_attacks cfg && use_mobility cfg in
  let mid2 := if mob then mid1 + (mobw - mobb) * mobility_bonus cfg else mid1 in
  let end2 := if mob then end1 + mid2 else end1 in
  let mid3 := if use_king cfg then mid2 + fst kw - fst kb else mid2 in
  let end3 := if use_king cfg then end2 + snd kw - snd kb else end2 in
  let mid4 := mid3 + tempo cfg * dir in
  interp mid4 end3 g * dir.

Lemma eval_core_av_combine cfg av p gp :
  eval_core_av cfg av p gp =
  combine cfg gp (insufficient_material p) (stm p =? WHITE)%N
    (material p WHITE) (material p BLACK) (psq_mid p WHITE) (psq_mid p BLACK) (psq_end p WHITE) (psq_end p BLACK)
    (adv_mid cfg av p WHITE) (adv_mid cfg av p BLACK) (adv_end cfg p WHITE) (adv_end cfg p BLACK)
    (av_mob av WHITE) (av_mob av BLACK) (king_term cfg av (ring (brd p)) WHITE) (king_term cfg av (ring (brd p)) BLACK).
Proof. unfold eval_core_av, combine. reflexivity. Qed.

Lemma combine_swap cfg gp ins w mw mb pmw pmb pew peb amw amb aew aeb mobw mobb kw kb :
  combine cfg gp ins (negb w) mb mw pmb pmw peb pew amb amw aeb aew mobb mobw kb kw =
  combine cfg gp ins w mw mb pmw pmb pew peb amw amb aew aeb mobw mobb kw kb.
Proof.
  unfold combine. destruct ins; [reflexivity|]. cbv zeta.
  set (dir := if w then 1 else -1).
  replace (if negb w then 1 else -1) with (- dir) by (unfold dir; destruct w; reflexivity).
  set (g := gpf gp).
  set (mid0 := mw - mb + (pmw - pmb)). set (end0 := mw - mb + (pew - peb)).
  replace (mb - mw + (pmb - pmw)) with (- mid0) by (unfold mid0; lia).
  replace (mb - mw + (peb - pew)) with (- end0) by (unfold end0; lia).
  rewrite interp_odd, Z.abs_opp.
  destruct (use_lazy cfg && (Z.abs (interp mid0 end0 g) >? threshold cfg gp)); [lia|].
  set (mid1 := if use_adv cfg then mid0 + (amw - amb) else mid0).
  replace (if use_adv cfg then - mid0 + (amb - amw) else - mid0) with (- mid1) by (unfold mid1; destruct (use_adv cfg); lia).
  set (end1 := if use_adv cfg then end0 + (aew - aeb) else end0).
  replace (if use_adv cfg then - end0 + (aeb - aew) else - end0) with (- end1) by (unfold end1; destruct (use_adv cfg); lia).
  set (mob := use_attacks cfg && use_mobility cfg).
  set (mid2 := if mob then mid1 + (mobw - mobb) * mobility_bonus cfg else mid1).
  replace (if mob then - mid1 + (mobb - mobw) * mobility_bonus cfg else - mid1) with (- mid2) by (unfold mid2; destruct mob; lia).
  set (end2 := if mob then end1 + mid2 else end1).
  replace (if mob then - end1 + - mid2 else - end1) with (- end2) by (unfold end2; destruct mob; lia).
  set (mid3 := if use_king cfg then mid2 + fst kw - fst kb else mid2).
  replace (if use_king cfg then - mid2 + fst kb - fst kw else - mid2) with (- mid3) by (unfold mid3; destruct (use_king cfg); lia).
  set (end3 := if use_king cfg then end2 + snd kw - snd kb else end2).
  replace (if use_king cfg then - end2 + snd kb - snd kw else - end2) with (- end3) by (unfold end3; destruct (use_king cfg); lia).
  replace (- mid3 + tempo cfg * - dir) with (- (mid3 + tempo cfg * dir)) by lia.
  rewrite interp_odd. lia.
Qed.

(** ** C15, colour symmetry.  Minimal guard: valid piece codes, 64 squares, side 0/1, exactly
    one king per side (everything else in [legal_pos] is irrelevant for the evaluation). *)
Theorem eval_core_mirror_wf cfg p gp :
  pos_ok p = true -> one_king (brd p) WHITE -> one_king (brd p) BLACK ->
  eval_core cfg (mirror p) gp = eval_core cfg p gp.
Proof.
  intros Hp KW KB.
  assert (H0 : (0 < 2)%N) by reflexivity. assert (H1 : (1 < 2)%N) by reflexivity.
  unfold eval_core. rewrite !eval_core_av_combine.
  rewrite (insufficient_mirror p Hp).
  rewrite (material_mirror p Hp WHITE H0), (material_mirror p Hp BLACK H1).
  rewrite (psq_mid_mirror p Hp WHITE H0), (psq_mid_mirror p Hp BLACK H1).
  rewrite (psq_end_mirror p Hp WHITE H0), (psq_end_mirror p Hp BLACK H1).
  rewrite (adv_mid_mirror p Hp cfg WHITE H0 KB), (adv_mid_mirror p Hp cfg BLACK H1 KW).
  rewrite (adv_end_mirror p Hp cfg WHITE H0), (adv_end_mirror p Hp cfg BLACK H1).
  rewrite (av_mob_mirror p Hp WHITE H0), (av_mob_mirror p Hp BLACK H1).
  rewrite (king_term_mirror cfg p WHITE Hp H0 KW KB), (king_term_mirror cfg p BLACK Hp H1 KW KB).
  change (flip WHITE) with BLACK. change (flip BLACK) with WHITE.
  replace (stm (mirror p) =? WHITE)%N with (negb (stm p =? WHITE)%N).
  - apply combine_swap.
  - unfold mirror. cbn [stm]. unfold pos_ok in Hp. rewrite !andb_true_iff in Hp. destruct Hp as [_ Hs].
    apply N.ltb_lt in Hs. assert (stm p = 0 \/ stm p = 1)%N as [-> | ->] by lia; reflexivity.
Qed.

Theorem eval_mirror_wf cfg p gp :
  pos_ok p = true -> one_king (brd p) WHITE -> one_king (brd p) BLACK ->
  evaluate cfg (mirror p) gp = evaluate cfg p gp.
Proof.
  intros Hp KW KB. unfold evaluate.
  rewrite Hp, (pos_ok_mirror p Hp). cbn [negb].
  destruct (negb ((0 <=? gp) && (gp <=? c_game_phase_max))); [reflexivity|].
  rewrite (eval_core_mirror_wf cfg p gp Hp KW KB). reflexivity.
Qed.

Theorem eval_core_mirror cfg p gp : legal_pos p = true ->
  eval_core cfg (mirror p) gp = eval_core cfg p gp.
Proof.
  intros HL. apply eval_core_mirror_wf; [apply legal_pos_ok, HL | |]; apply legal_one_king; (exact HL || reflexivity).
Qed.

Theorem eval_mirror cfg p gp : legal_pos p = true ->
  evaluate cfg (mirror p) gp = evaluate cfg p gp.
Proof.
  intros HL. apply eval_mirror_wf; [apply legal_pos_ok, HL | |]; apply legal_one_king; (exact HL || reflexivity).
Qed.

Theorem eval_mirror_gp cfg p : legal_pos p = true ->
  evaluate cfg (mirror p) (game_phase (mirror p)) = evaluate cfg p (game_phase p).
Proof.
  intros HL. rewrite (game_phase_mirror p (legal_pos_ok p HL)). apply eval_mirror, HL.
Qed.

(** ** C15, dead positions *)
Theorem eval_core_dead cfg p gp : insufficient_material p = true -> eval_core cfg p gp = 0.
Proof. intros H. unfold eval_core, eval_core_av. rewrite H. reflexivity. Qed.

Theorem eval_dead cfg p gp : pos_ok p = true -> 0 <= gp <= c_game_phase_max ->
  insufficient_material p = true -> evaluate cfg p gp = Some 0.
Proof.
  intros Hp [G1 G2] H. unfold evaluate. rewrite Hp. cbn [negb].
  replace ((0 <=? gp) && (gp <=? c_game_phase_max)) with true
    by (symmetry; apply andb_true_iff; split; apply Z.leb_le; assumption).
  cbn [negb]. rewrite eval_core_dead by exact H. reflexivity.
Qed.

(* the value is None only outside the domain of the Go code (array index out of range) *)
Theorem evaluate_total cfg p gp : legal_pos p = true -> 0 <= gp <= c_game_phase_max ->
  evaluate cfg p gp = Some (eval_core cfg p gp).
Proof.
  intros HL [G1 G2]. unfold evaluate. rewrite (legal_pos_ok p HL). cbn [negb].
  replace ((0 <=? gp) && (gp <=? c_game_phase_max)) with true
    by (symmetry; apply andb_true_iff; split; apply Z.leb_le; assumption).
  reflexivity.
Qed.

(** ** C15, purity.  [evaluate] is a Gallina function of (cfg, p, gp), so "pure" is built in;
    the content is that the imperative evaluator, started in an arbitrary state (a reused
    instance, another instance that shared tmpScore, other settings before), returns it. *)
Theorem eval_pure cfg p gp zkey s1 s2 : zkey <> 0%N ->
  fst (eval_step cfg p gp zkey s1) = evaluate cfg p gp /\
  fst (eval_step cfg p gp zkey s2) = evaluate cfg p gp.
Proof. intros Hz. split; apply eval_step_evaluate, Hz. Qed.

(** ** Non-vacuity and concrete checks (vm_compute on concrete positions) *)
Definition of_fen (s : str) : pos := match parse s with Some p => p | None => start_pos end.
(* r3k2r/p1ppqpb1/bn2pnp1/3PN3/1p2P3/2N2Q1p/PPPBBPPP/R3K2R w KQkq - 0 1 *)
Definition kiwi : pos := Eval vm_compute in of_fen
  [114;51;107;50;114;47;112;49;112;112;113;112;98;49;47;98;110;50;112;110;112;49;47;51;80;78;51;47;49;112;50;80;51;47;50;78;50;81;49;112;47;80;80;80;66;66;80;80;80;47;82;51;75;50;82;32;119;32;75;81;107;113;32;45;32;48;32;49]%N.
(* 8/8/8/4k3/8/8/8/4KB2 b - - 0 1 *)
Definition kbk : pos := Eval vm_compute in of_fen
  [56;47;56;47;56;47;52;107;51;47;56;47;56;47;56;47;52;75;66;50;32;98;32;45;32;45;32;48;32;49]%N.
(* 5rk1/5ppp/8/8/8/8/5PPP/1R3K1R w - - 0 1  (white rook h1 trapped by its king) *)
Definition trapped : pos := Eval vm_compute in of_fen
  [53;114;107;49;47;53;112;112;112;47;56;47;56;47;56;47;56;47;53;80;80;80;47;49;82;51;75;49;82;32;119;32;45;32;45;32;48;32;49]%N.

Definition all_on : eval_cfg := cfg_switches default_cfg false true true true true.

Example eval_mirror_nonvacuous :
  legal_pos kiwi = true /\ game_phase kiwi = 24 /\
  evaluate all_on kiwi 24 = Some 149 /\ evaluate all_on (mirror kiwi) 24 = Some 149 /\
  evaluate default_cfg kiwi 24 = Some 169 /\ evaluate default_cfg (mirror kiwi) 24 = Some 169 /\
  legal_pos trapped = true /\
  evaluate all_on trapped 6 = evaluate all_on (mirror trapped) 6 /\
  evaluate all_on trapped 6 <> evaluate (cfg_switches default_cfg false true false true true) trapped 6.
Proof. vm_compute. repeat split; try reflexivity. discriminate. Qed.

Example eval_dead_nonvacuous :
  legal_pos kbk = true /\ insufficient_material kbk = true /\ evaluate all_on kbk 1 = Some 0 /\
  insufficient_material kiwi = false.
Proof. vm_compute. repeat split; reflexivity. Qed.

Example eval_pure_nonvacuous :
  fst (eval_step all_on kiwi 24 12345%N dirty_state) = Some 149 /\
  fst (eval_step (uci_cfg true true) kiwi 24 12345%N dirty_state) = evaluate (uci_cfg true true) kiwi 24.
Proof. vm_compute. split; reflexivity. Qed.

(* The hypothesis zkey <> 0 of [eval_pure] is needed (model level): InitEval's Clear() sets
   attacks.Zobrist := 0 and Compute() returns early when the key of the position equals it
   (attacks.go:103-106), so a position whose Zobrist key is 0 is evaluated with EMPTY attack
   data.  Only with UseAttacksInEval (off by default, not a UCI option); still a function of
   the position; needs a position with key 0 (not constructible on the real engine). *)
Example eval_step_zero_key :
  fst (eval_step all_on trapped 6 0%N dirty_state) <> evaluate all_on trapped 6.
Proof. vm_compute. discriminate. Qed.

Print Assumptions interp_odd.
Print Assumptions eval_mirror.
Print Assumptions eval_mirror_gp.
Print Assumptions eval_dead.
Print Assumptions king_term_closed.
Print Assumptions eval_step_indep.
Print Assumptions eval_pure.
