(** * CasesUci: evaluation helper for the C16 / C12 correspondence run of the UCI dispatcher model.
    A case = the lines given to a fresh UciHandler, config.Settings before, and what the real engine
    showed afterwards: the FEN of its position, config.Settings, the number of readyok lines and the
    number of go lines that were accepted (no "UCI command go ..." complaint). *)
From Coq Require Import NArith ZArith List Bool.
From FG Require Import Geom Rules FenSpec FenImpl NotationImpl UciModel.
Import ListNotations.

Definition all_fields : list field :=
  [UseTT; TTSize; UseBook; UsePonder; UseQuiescence; UseQSTT; UseSEE; UsePromNonQuiet;
   UsePVS; UseAspiration; UseMTDf; UseIID; UseKiller; UseHistoryCounter; UseCounterMoves;
   UseRFP; UseNullMove; UseMDP; UseFP; UseLmr; UseLmp;
   UseExt; UseExtAddDepth; UseCheckExt; UseThreatExt;
   EvalUseLazyEval; EvalUseMobility; EvalUseAdvancedPieceEval].

Fixpoint cfg_of_list (fs : list field) (vs : list Z) : cfg :=
  match fs, vs with
  | f :: fr, v :: vr => cfg_set (cfg_of_list fr vr) f v
  | _, _ => fun _ => 0%Z
  end.

Fixpoint zlist_eqb (a b : list Z) : bool :=
  match a, b with
  | [], [] => true
  | x :: r, y :: s => Z.eqb x y && zlist_eqb r s
  | _, _ => false
  end.

Definition is_ready (o : out_line) : bool := match o with OReadyOk => true | _ => false end.
Definition is_search (o : out_line) : bool := match o with OSearch _ => true | _ => false end.
Definition count (f : out_line -> bool) (l : list out_line) : N := N.of_nat (length (filter f l)).

Definition uci_case (c : list (list N) * list Z * (list N * list Z * N * N)) : bool :=
  let '(lines, cfg0, (fen, cfg1, readyoks, searches)) := c in
  match init_state (cfg_of_list all_fields cfg0) with
  | Some st =>
      match run NotationImpl.from_uci st lines with
      | Done st' out _ =>
          str_eqb (fen_of (u_pos st')) fen && zlist_eqb (map (u_cfg st') all_fields) cfg1
          && N.eqb (count is_ready out) readyoks && N.eqb (count is_search out) searches
      | UPanic => false
      end
  | None => false
  end.

Fixpoint mismu (i : nat) (l : list (list (list N) * list Z * (list N * list Z * N * N))) : list nat :=
  match l with [] => [] | c :: r => (if uci_case c then [] else [i]) ++ mismu (S i) r end.
Definition uci_mismatches := mismu 0.
