(** * PosProofsE: DoMove, all move types together: totality + abstraction (C02),
    preservation of [WF], of the key invariant and of the exact game phase (C04). *)
From Coq Require Import NArith ZArith List Bool Lia ZifyN ZifyBool Btauto.
From FG Require Import Geom Rules FenSpec PosImpl PosProofsA PosProofsB PosProofsC PosProofsD.
Import ListNotations.
Open Scope N_scope.

Section DoThms.
Variable t : tabs.

Ltac all_branches :=
  unfold do_move_raw, do_normal_raw, do_promotion_raw, do_enpassant_raw, do_castling_raw;
  repeat match goal with
  | |- context [if ?c then _ else _] => destruct c
  | |- context [match castle_info ?x with _ => _ end] => destruct (castle_info x) as [[[? ?] ?]|]
  end; fr.

Lemma do_move_raw_stm p c : i_stm (do_move_raw t p c) = N.lxor (i_stm p) 1.
Proof. all_branches; reflexivity. Qed.
Lemma do_move_raw_nhm p c : i_nhm (do_move_raw t p c) = (i_nhm p + 1)%Z.
Proof. all_branches; reflexivity. Qed.
Lemma do_move_raw_flag p c : i_flag (do_move_raw t p c) = 0%Z.
Proof. all_branches; reflexivity. Qed.
Lemma do_move_raw_hist p c : i_hist (do_move_raw t p c) =
  mkh (i_key p) c (at_ (i_board p) (mv_from c)) (at_ (i_board p) (mv_to c)) (i_cr p) (i_ep p) (i_hmc p) (i_flag p) :: i_hist p.
Proof. all_branches; reflexivity. Qed.
Lemma do_move_raw_cr p c : i_cr (do_move_raw t p c) <= i_cr p.
Proof. all_branches; try apply ldiff_le; lia. Qed.
Lemma do_move_raw_hmc p c : (0 <= i_hmc p)%Z -> (0 <= i_hmc (do_move_raw t p c))%Z.
Proof. intro H. all_branches; lia. Qed.

Lemma stm_flip_lxor c : c < 2 -> N.lxor c 1 = cflip c.
Proof. reflexivity. Qed.

Lemma good_of_coh (HB : Prop) p : Coh t p -> (HB -> phval_nonneg t /\ PhOK t p) -> Good t HB p (kres t p).
Proof. intros C H. split; [exact C|split; [reflexivity|exact H]]. Qed.

(* one statement for the four move types *)
Lemma do_good (HB : Prop) p m k :
  WF t p -> Good t HB p k -> move_ok p m ->
  let p' := do_move_raw t p (code m) in
  (HB -> clamp t = true -> (psum t (i_board p') <= GamePhaseMax)%Z) ->
  Good t HB p' (kafter t k (i_cr p) (i_cr p') (i_ep p) (i_ep p')).
Proof.
  intros W G [Hc [H|[H|[H|H]]]] p' Hb.
  - apply do_normal_good; assumption.
  - apply do_promotion_good; assumption.
  - apply do_enpassant_good; assumption.
  - apply do_castling_good; assumption.
Qed.

Lemma do_ep_ok p m : WF t p -> move_ok p m -> EpOK (do_move_raw t p (code m)).
Proof.
  intros W [Hc H]. pose proof (w_coh _ _ W) as C. pose proof (c_len _ _ C) as Hl.
  pose proof (w_stm _ _ W) as Hstm.
  pose proof (move_ok_basic p m (conj Hc H)) as (Bf & Bt & Bty & Bpr).
  destruct (decode m) as (E1 & E2 & E3 & E4); try assumption.
  destruct Hc as [Hf Ht Hpr Hpc Hcol].
  destruct H as [H|[H|[H|H]]].
  - destruct H as [Hty Htgt Hcap Hsingle Hdouble].
    assert (Hne : mfrom m <> mto m) by (apply (tgt_ok_ne p m); [constructor; assumption|assumption]).
    unfold EpOK. rewrite do_move_raw_stm.
    unfold do_move_raw. rewrite E1, E2, E3, Hty. cbn [N.eqb NORMAL].
    unfold do_normal_raw. rewrite Hcol.
    destruct (N.eqb_spec (at_ (i_board p) (mto m)) 0) as [Etp|Etp]; cbn [negb]; [|left; fr; reflexivity].
    destruct (N.eqb_spec (at_ (i_board p) (mfrom m) mod 8) PAWN) as [Epw|Epw]; [|left; fr; reflexivity].
    destruct (N.eqb_spec (sq_distance (mfrom m) (mto m)) 2) as [Ed|Ed]; [|left; fr; reflexivity].
    destruct (Hdouble Epw Etp Ed) as (Hr & He & Hemk & Hback & Hne1 & Hne2 & Hrk).
    right. fr. fold (cflip (i_stm p)). rewrite cflip_cflip. rewrite Hback.
    split; [exact He|]. split; [|split; [exact Ht|]].
    + rewrite Hrk. assert (i_stm p = 0 \/ i_stm p = 1) as [-> | ->] by lia; reflexivity.
    + atp. eqbs. pose proof (c_ok _ _ C (mfrom m)) as Ho. apply okpc_cases in Ho as [?|Ho]; [contradiction|].
      unfold PAWN in *. lia.
  - left. destruct H as [Hty _ _ _]. unfold do_move_raw. rewrite E3, Hty. cbn [N.eqb PROMOTION Pos.eqb].
    unfold do_promotion_raw. destruct (negb _); fr; reflexivity.
  - left. destruct H as [Hty _ _ _ _ _]. unfold do_move_raw. rewrite E3, Hty. cbn [N.eqb ENPASSANT Pos.eqb].
    unfold do_enpassant_raw. fr. reflexivity.
  - left. destruct H as [Hty (rf & rt & Hsh & _)].
    destruct (castle_info_shape _ _ _ _ _ Hsh) as (Eci & _).
    unfold do_move_raw. rewrite E2, E3, Hty, Eci. cbn [N.eqb CASTLING Pos.eqb].
    unfold do_castling_raw. fr. reflexivity.
Qed.

Theorem do_wf p m : WF t p -> move_ok p m -> WF t (do_move_raw t p (code m)).
Proof.
  intros W Hm. pose proof (w_stm _ _ W) as Hstm. destruct (w_nhm _ _ W) as [Hn1 Hn2].
  pose proof (do_good False p m (kres t p) W (good_of_coh False p (w_coh _ _ W) ltac:(tauto)) Hm ltac:(tauto)) as (C' & _ & _).
  constructor.
  - exact C'.
  - rewrite do_move_raw_stm. apply cflip_lt. exact Hstm.
  - pose proof (do_move_raw_cr p (code m)). pose proof (w_cr _ _ W). lia.
  - apply do_move_raw_hmc. apply (w_hmc _ _ W).
  - rewrite do_move_raw_stm, do_move_raw_nhm. fold (cflip (i_stm p)). rewrite cflip_val by assumption. split; lia.
  - apply do_ep_ok; assumption.
Qed.

Lemma keyok_after p p' : i_stm p < 2 -> KeyOK t p -> i_stm p' = N.lxor (i_stm p) 1 ->
  kres t p' = kafter t (kres t p) (i_cr p) (i_cr p') (i_ep p) (i_ep p') -> KeyOK t p'.
Proof.
  intros Hs K Es Ek. unfold KeyOK in *. rewrite Ek, K, Es. unfold kafter, skey.
  assert (i_stm p = 0 \/ i_stm p = 1) as [-> | ->] by lia; cbn [N.lxor N.eqb Pos.eqb]; xor_solve.
Qed.

Theorem do_keyok p m : WF t p -> KeyOK t p -> move_ok p m -> KeyOK t (do_move_raw t p (code m)).
Proof.
  intros W K Hm.
  pose proof (do_good False p m (kres t p) W (good_of_coh False p (w_coh _ _ W) ltac:(tauto)) Hm ltac:(tauto)) as (_ & K' & _).
  apply (keyok_after p); auto. - apply (w_stm _ _ W). - apply do_move_raw_stm.
Qed.

Theorem do_phase p m : phval_nonneg t -> WF t p -> PhOK t p -> move_ok p m ->
  (clamp t = true -> (psum t (i_board (do_move_raw t p (code m))) <= GamePhaseMax)%Z) ->
  PhOK t (do_move_raw t p (code m)).
Proof.
  intros Hnn W P Hm Hb.
  pose proof (do_good True p m (kres t p) W (good_of_coh True p (w_coh _ _ W) ltac:(tauto)) Hm ltac:(auto)) as (_ & _ & P').
  apply P'. exact I.
Qed.

Theorem do_move_refines p m : WF t p -> move_ok p m -> room p ->
  do_move t p (code m) = Some (do_move_raw t p (code m)) /\
  abs (do_move_raw t p (code m)) = make (abs p) m.
Proof.
  intros W Hm Hroom. pose proof (w_coh _ _ W) as C.
  pose proof (move_ok_basic p m Hm) as (Bf & Bt & Bty & Bpr).
  destruct (decode m) as (E1 & E2 & E3 & E4); try assumption.
  destruct Hm as [Hc H]. split.
  - apply do_move_total; [apply (coh_board_ok t); exact C|exact Hroom|..].
    + intro Ety. rewrite E1, E2. destruct Hc as [_ _ _ _ Hcol]. rewrite Hcol.
      destruct H as [H|[H|[H|H]]]; try (destruct H as [Hty]; rewrite E3, Hty in Ety; discriminate).
      destruct H as [_ _ _ _ (Hcs & _) _ _]. exact Hcs.
    + intro Ety. rewrite E2.
      destruct H as [H|[H|[H|H]]]; try (destruct H as [Hty]; rewrite E3, Hty in Ety; discriminate).
      destruct H as [_ (rf & rt & Hsh & _)].
      destruct (castle_info_shape _ _ _ _ _ Hsh) as (Eci & _). rewrite Eci. discriminate.
  - destruct H as [H|[H|[H|H]]].
    + apply do_normal_refines; assumption.
    + apply do_promotion_refines; assumption.
    + apply do_enpassant_refines; assumption.
    + apply do_castling_refines; assumption.
Qed.
End DoThms.
