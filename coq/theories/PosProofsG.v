(** * PosProofsG: UndoMove after DoMove (all move types), null moves, and the excursion
    theorem (C03): a properly nested do / undo / null-do / null-undo sequence, as a depth-first
    search performs it, restores the position. *)
From Coq Require Import NArith ZArith List Bool Lia ZifyN ZifyBool Btauto.
From FG Require Import Geom Rules FenSpec PosImpl PosProofsA PosProofsB PosProofsC PosProofsD PosProofsE PosProofsF.
Import ListNotations.
Open Scope N_scope.

Section UndoAll.
Variable t : tabs.

Ltac undo_branches :=
  unfold undo_move_raw, put_if_raw;
  repeat match goal with
  | |- context [if ?c then _ else _] => destruct c
  end; fr.

Lemma undo_raw_key p h r : i_key (undo_move_raw t p h r) = h_key h. Proof. reflexivity. Qed.
Lemma undo_raw_cr p h r : i_cr (undo_move_raw t p h r) = h_cr h. Proof. reflexivity. Qed.
Lemma undo_raw_ep p h r : i_ep (undo_move_raw t p h r) = h_ep h. Proof. reflexivity. Qed.
Lemma undo_raw_hmc p h r : i_hmc (undo_move_raw t p h r) = h_hmc h. Proof. reflexivity. Qed.
Lemma undo_raw_flag p h r : i_flag (undo_move_raw t p h r) = h_flag h. Proof. reflexivity. Qed.
Lemma undo_raw_stm p h r : i_stm (undo_move_raw t p h r) = cflip (i_stm p). Proof. undo_branches; reflexivity. Qed.
Lemma undo_raw_nhm p h r : i_nhm (undo_move_raw t p h r) = (i_nhm p - 1)%Z. Proof. undo_branches; reflexivity. Qed.
Lemma undo_raw_hist p h r : i_hist (undo_move_raw t p h r) = r. Proof. undo_branches; reflexivity. Qed.

Theorem undo_do p m p2 :
  WF t p -> move_ok p m -> room p -> eqpf p2 (do_move_raw t p (code m)) ->
  exists p'', undo_move t p2 = Some p'' /\ set_phase (i_phase p) p'' = p /\
              (phval_nonneg t -> PhOK t p -> PhOK t p2 -> i_phase p'' = i_phase p).
Proof.
  intros W Hm Hroom Heq. pose proof (w_coh _ _ W) as C. pose proof (w_stm _ _ W) as Hstm.
  set (p' := do_move_raw t p (code m)) in *.
  pose proof (do_wf t p m W Hm) as W'. fold p' in W'.
  assert (W2 : WF t p2) by (apply (wf_eqpf t p' p2); [apply eqpf_sym; exact Heq|exact W']).
  destruct (eqpf_fields _ _ Heq) as (Fk & Fb & Fcr & Fep & Fhmc & Fstm & Fksq & Fnhm & Fpbb & Focc & Fhist & Fmat & Fmnp & Fpm & Fpe).
  pose proof (move_ok_basic p m Hm) as (Bf & Bt & Bty & Bpr).
  destruct (decode m) as (E1 & E2 & E3 & E4); try assumption.
  set (h := top_entry p (code m)).
  assert (Hh : i_hist p2 = h :: i_hist p) by (rewrite Fhist; unfold p'; apply do_move_raw_hist).
  assert (Est : i_stm p2 = cflip (i_stm p)) by (rewrite Fstm; unfold p'; apply do_move_raw_stm).
  exists (undo_move_raw t p2 h (i_hist p)).
  assert (Hres : let p'' := undo_move_raw t p2 h (i_hist p) in
     Coh t p'' /\ (HBu t p p2 -> PhOK t p'') /\ i_board p'' = i_board p /\ i_ksq p'' = i_ksq p).
  { destruct Hm as [Hc [H|[H|[H|H]]]].
    - apply undo_normal; assumption.
    - apply undo_promotion; assumption.
    - apply undo_enpassant; assumption.
    - apply undo_castling; assumption. }
  cbv zeta in Hres. destruct Hres as (C'' & P'' & Eb'' & Ek'').
  split; [|split].
  - apply undo_move_total; try assumption.
    + apply (coh_board_ok t). apply (w_coh _ _ W2).
    + apply (w_stm _ _ W2).
    + unfold h, top_entry. cbn [h_cap]. apply (c_ok _ _ C).
    + unfold h, top_entry. cbn [h_move]. rewrite E2, E3, Est. intro Ety.
      destruct Hm as [Hc [H|[H|[H|H]]]]; try (destruct H as [Hty]; rewrite Hty in Ety; discriminate).
      destruct H as [_ _ _ _ (Hcs & _) _ _]. exact Hcs.
    + unfold h, top_entry. cbn [h_move]. rewrite E2, E3. intro Ety.
      destruct Hm as [Hc [H|[H|[H|H]]]]; try (destruct H as [Hty]; rewrite Hty in Ety; discriminate).
      destruct H as [_ (rf & rt & Hsh & _)].
      destruct (castle_info_shape _ _ _ _ _ Hsh) as (Eci & _). rewrite Eci. discriminate.
  - destruct (coh_same_board t _ _ C'' C Eb'') as (Q1 & Q2 & Q3 & Q4 & Q5 & Q6).
    apply ipos_ext_nophase; try assumption; try reflexivity.
    + rewrite undo_raw_stm, Est. apply cflip_cflip.
    + rewrite undo_raw_nhm, Fnhm. unfold p'. rewrite do_move_raw_nhm. lia.
    + apply undo_raw_hist.
  - intros Hnn P P2. destruct (P'' (conj Hnn (conj P P2))) as [Hph _]. destruct P as [Hp _].
    rewrite Hph, Hp, Eb''. reflexivity.
Qed.

(** ** null moves *)
Definition do_null_raw (p : ipos) : ipos := turn t 1 (clear_ep t (push_hist p 0 0 0)).

Lemma do_null_total p : room p -> do_null t p = Some (do_null_raw p).
Proof.
  intro H. unfold do_null, do_null_raw, room in *.
  destruct (Nat.leb_spec MaxHistory (length (i_hist p))); [lia|reflexivity].
Qed.

Definition null_entry (p : ipos) : hstate := mkh (i_key p) 0 0 0 (i_cr p) (i_ep p) (i_hmc p) (i_flag p).

Lemma do_null_raw_fields p :
  let p' := do_null_raw p in
  i_board p' = i_board p /\ i_cr p' = i_cr p /\ i_ep p' = 64 /\ i_hmc p' = i_hmc p /\
  i_stm p' = N.lxor (i_stm p) 1 /\ i_ksq p' = i_ksq p /\ i_nhm p' = (i_nhm p + 1)%Z /\
  i_pbb p' = i_pbb p /\ i_occ p' = i_occ p /\ i_hist p' = null_entry p :: i_hist p /\
  i_mat p' = i_mat p /\ i_matnp p' = i_matnp p /\ i_psqm p' = i_psqm p /\ i_psqe p' = i_psqe p /\
  i_phase p' = i_phase p /\ i_flag p' = 0%Z /\ i_key p' = N.lxor (N.lxor (i_key p) (epk t (i_ep p))) (zn t).
Proof. unfold do_null_raw. rewrite clear_ep_nf. repeat split. Qed.

Theorem null_wf p : WF t p -> WF t (do_null_raw p).
Proof.
  intro W. destruct (do_null_raw_fields p) as (Fb & Fcr & Fep & Fhmc & Fstm & Fksq & Fnhm & Fpbb & Focc & Fh & Fmat & Fmnp & Fpm & Fpe & Fph & Ffl & Fk).
  pose proof (w_stm _ _ W) as Hs. destruct (w_nhm _ _ W) as [H1 H2].
  constructor.
  - eapply coh_fields; [..|apply (w_coh _ _ W)]; congruence.
  - rewrite Fstm. apply cflip_lt. exact Hs.
  - rewrite Fcr. apply (w_cr _ _ W).
  - rewrite Fhmc. apply (w_hmc _ _ W).
  - rewrite Fstm, Fnhm. fold (cflip (i_stm p)). rewrite cflip_val by assumption. split; lia.
  - left. exact Fep.
Qed.

Theorem null_keyok p : WF t p -> KeyOK t p -> KeyOK t (do_null_raw p).
Proof.
  intros W K. destruct (do_null_raw_fields p) as (Fb & Fcr & Fep & Fhmc & Fstm & Fksq & Fnhm & Fpbb & Focc & Fh & Fmat & Fmnp & Fpm & Fpe & Fph & Ffl & Fk).
  apply (keyok_after t p); auto. { apply (w_stm _ _ W). }
  unfold kres, kafter. rewrite Fk, Fb, Fcr, Fep. rewrite epk_64. xor_solve.
Qed.

Theorem null_phase p : PhOK t p -> PhOK t (do_null_raw p).
Proof.
  intro P. destruct (do_null_raw_fields p) as (Fb & _ & _ & _ & _ & _ & _ & _ & _ & _ & _ & _ & _ & _ & Fph & _).
  eapply phok_fields; [..|exact P]; congruence.
Qed.

Theorem undo_null_do_null p p2 : eqpf p2 (do_null_raw p) ->
  exists p'', undo_null p2 = Some p'' /\ set_phase (i_phase p) p'' = p /\ i_phase p'' = i_phase p2.
Proof.
  intro Heq.
  destruct (eqpf_fields _ _ Heq) as (Fk & Fb & Fcr & Fep & Fhmc & Fstm & Fksq & Fnhm & Fpbb & Focc & Fhist & Fmat & Fmnp & Fpm & Fpe).
  destruct (do_null_raw_fields p) as (Gb & Gcr & Gep & Ghmc & Gstm & Gksq & Gnhm & Gpbb & Gocc & Gh & Gmat & Gmnp & Gpm & Gpe & Gph & Gfl & Gk).
  unfold undo_null. rewrite Fhist, Gh.
  eexists. split; [reflexivity|]. split; [|reflexivity].
  apply ipos_ext_nophase; unfold null_entry; psimpl; try congruence.
  - rewrite Fstm, Gstm. fold (cflip (i_stm p)). apply cflip_cflip.
  - rewrite Fnhm, Gnhm. lia.
Qed.

(** ** C03: excursions of a depth-first search *)
Inductive excursion :=
| Done
| Move (m : N) (inner : list excursion)
| Null (inner : list excursion)
| Flag (v : Z).     (* HasCheck() was called here and cached v *)

Fixpoint run_exc (e : excursion) (p : ipos) : option ipos :=
  match e with
  | Done => Some p
  | Flag v => Some (set_check_flag v p)
  | Move m inner =>
      p1 <- do_move t p m ;;
      p2 <- (fix run_l (l : list excursion) (q : ipos) : option ipos :=
               match l with [] => Some q | e' :: r => q' <- run_exc e' q ;; run_l r q' end) inner p1 ;;
      undo_move t p2
  | Null inner =>
      p1 <- do_null t p ;;
      p2 <- (fix run_l (l : list excursion) (q : ipos) : option ipos :=
               match l with [] => Some q | e' :: r => q' <- run_exc e' q ;; run_l r q' end) inner p1 ;;
      undo_null p2
  end.

Fixpoint run_list (l : list excursion) (q : ipos) : option ipos :=
  match l with [] => Some q | e' :: r => q' <- run_exc e' q ;; run_list r q' end.

Lemma run_l_eq l : forall q,
  (fix run_l (l : list excursion) (q : ipos) : option ipos :=
     match l with [] => Some q | e' :: r => q' <- run_exc e' q ;; run_l r q' end) l q = run_list l q.
Proof.
  induction l as [|e r IH]; intro q; [reflexivity|]. cbn [run_list].
  destruct (run_exc e q); [cbn [bind]; apply IH|reflexivity].
Qed.
Lemma run_exc_move m inner p :
  run_exc (Move m inner) p = (p1 <- do_move t p m ;; p2 <- run_list inner p1 ;; undo_move t p2).
Proof.
  cbn [run_exc]. destruct (do_move t p m) as [p1|]; [|reflexivity]. cbn [bind]. now rewrite run_l_eq.
Qed.
Lemma run_exc_null inner p :
  run_exc (Null inner) p = (p1 <- do_null t p ;; p2 <- run_list inner p1 ;; undo_null p2).
Proof.
  cbn [run_exc]. destruct (do_null t p) as [p1|]; [|reflexivity]. cbn [bind]. now rewrite run_l_eq.
Qed.

(* an excursion is admissible at p: every move is made where it satisfies [move_ok] (e.g. is
   pseudo-legal), the history has room; HB selects whether the game-phase bound is demanded too *)
Section Ok.
Variable HB : Prop.
Fixpoint exc_ok (e : excursion) (p : ipos) : Prop :=
  match e with
  | Done | Flag _ => True
  | Move c inner =>
      (exists m, c = code m /\ move_ok p m) /\ room p /\
      forall p1, do_move t p c = Some p1 ->
        (HB -> clamp t = true -> (psum t (i_board p1) <= GamePhaseMax)%Z) /\
        (fix ok_l (l : list excursion) (q : ipos) : Prop :=
           match l with [] => True
           | e' :: r => exc_ok e' q /\ forall q', run_exc e' q = Some q' -> ok_l r q' end) inner p1
  | Null inner =>
      room p /\
      forall p1, do_null t p = Some p1 ->
        (fix ok_l (l : list excursion) (q : ipos) : Prop :=
           match l with [] => True
           | e' :: r => exc_ok e' q /\ forall q', run_exc e' q = Some q' -> ok_l r q' end) inner p1
  end.
Fixpoint list_ok (l : list excursion) (q : ipos) : Prop :=
  match l with [] => True
  | e' :: r => exc_ok e' q /\ forall q', run_exc e' q = Some q' -> list_ok r q' end.

Lemma ok_l_list_ok l : forall q,
  (fix ok_l (l : list excursion) (q : ipos) : Prop :=
           match l with [] => True
           | e' :: r => exc_ok e' q /\ forall q', run_exc e' q = Some q' -> ok_l r q' end) l q <-> list_ok l q.
Proof.
  induction l as [|e r IH]; intro q; [cbn; tauto|]. cbn [list_ok].
  split; intros [H1 H2]; (split; [exact H1|]); intros q' Hq; apply IH; apply H2; exact Hq.
Qed.

Definition exc_flag (e : excursion) (f : Z) : Z := match e with Flag v => v | _ => f end.

Definition restores (e : excursion) : Prop :=
  forall p, WF t p -> exc_ok e p -> (HB -> phval_nonneg t /\ PhOK t p) ->
  exists p', run_exc e p = Some p' /\ eqpf p' p /\ i_flag p' = exc_flag e (i_flag p) /\
             (HB -> i_phase p' = i_phase p).

Lemma phok_eqpf p q : eqpf q p -> i_phase q = i_phase p -> PhOK t p -> PhOK t q.
Proof.
  intros E Eph P. destruct (eqpf_fields _ _ E) as (_ & Fb & _).
  eapply phok_fields; [..|exact P]; congruence.
Qed.

Lemma restores_list l : Forall restores l ->
  forall p, WF t p -> list_ok l p -> (HB -> phval_nonneg t /\ PhOK t p) ->
  exists p', run_list l p = Some p' /\ eqpf p' p /\ (HB -> i_phase p' = i_phase p).
Proof.
  induction 1 as [|e r He Hr IH]; intros p W Hok Hph.
  - exists p. split; [reflexivity|]. split; [apply eqpf_refl|auto].
  - destruct Hok as [Hok1 Hok2].
    destruct (He p W Hok1 Hph) as (p1 & R1 & E1 & _ & P1).
    assert (W1 : WF t p1) by (apply (wf_eqpf t p p1); [apply eqpf_sym; exact E1|exact W]).
    assert (Hph1 : HB -> phval_nonneg t /\ PhOK t p1).
    { intro hb. destruct (Hph hb) as [Hnn Hp]. split; [exact Hnn|]. apply (phok_eqpf p); auto. }
    destruct (IH p1 W1 (Hok2 p1 R1) Hph1) as (p2 & R2 & E2 & P2).
    exists p2. cbn [run_list]. rewrite R1. cbn [bind]. split; [exact R2|]. split.
    + eapply eqpf_trans; eassumption.
    + intro hb. rewrite (P2 hb). apply (P1 hb).
Qed.

Lemma eqpf_of_set_phase p q g : set_phase g p = q -> eqpf p q /\ i_flag p = i_flag q.
Proof. intros <-. split; [|reflexivity]. unfold eqpf. destruct p; reflexivity. Qed.

Lemma excursion_ind' (P : excursion -> Prop) :
  P Done -> (forall v, P (Flag v)) ->
  (forall m inner, Forall P inner -> P (Move m inner)) ->
  (forall inner, Forall P inner -> P (Null inner)) -> forall e, P e.
Proof.
  intros HD HF HM HN. fix IH 1. intros [|m inner|inner|v].
  - exact HD.
  - apply HM. induction inner as [|e r IHr]; constructor; [apply IH|exact IHr].
  - apply HN. induction inner as [|e r IHr]; constructor; [apply IH|exact IHr].
  - apply HF.
Qed.

Theorem excursion_restores e : restores e.
Proof.
  induction e as [| |m inner IH|inner IH] using excursion_ind'; intros p W Hok Hph.
  - exists p. repeat split; try reflexivity. 
  - exists (set_check_flag v p). split; [reflexivity|]. split; [|split; [reflexivity|reflexivity]].
    unfold eqpf. destruct p; reflexivity.
  - destruct Hok as ((mv & -> & Hm) & Hroom & Hin).
    destruct (do_move_refines t p mv W Hm Hroom) as [Hdo _].
    specialize (Hin _ Hdo) as [Hbound Hin]. apply ok_l_list_ok in Hin.
    set (p1 := do_move_raw t p (code mv)) in *.
    pose proof (do_wf t p mv W Hm) as W1. fold p1 in W1.
    assert (Hph1 : HB -> phval_nonneg t /\ PhOK t p1).
    { intro hb. destruct (Hph hb) as [Hnn Hp]. split; [exact Hnn|]. apply do_phase; auto. }
    destruct (restores_list inner IH p1 W1 Hin Hph1) as (p2 & R2 & E2 & P2).
    destruct (undo_do p mv p2 W Hm Hroom E2) as (p3 & R3 & E3 & P3).
    exists p3. rewrite run_exc_move, Hdo. cbn [bind]. rewrite R2. cbn [bind].
    split; [exact R3|]. destruct (eqpf_of_set_phase _ _ _ E3) as [E3' F3]. split; [exact E3'|]. split; [exact F3|].
    intro hb. destruct (Hph hb) as [Hnn Hp]. apply P3; auto.
    apply (phok_eqpf p1); auto. apply (Hph1 hb).
  - destruct Hok as (Hroom & Hin).
    pose proof (do_null_total p Hroom) as Hdo.
    specialize (Hin _ Hdo). apply ok_l_list_ok in Hin.
    set (p1 := do_null_raw p) in *.
    pose proof (null_wf p W) as W1. fold p1 in W1.
    assert (Hph1 : HB -> phval_nonneg t /\ PhOK t p1).
    { intro hb. destruct (Hph hb) as [Hnn Hp]. split; [exact Hnn|]. apply null_phase; auto. }
    destruct (restores_list inner IH p1 W1 Hin Hph1) as (p2 & R2 & E2 & P2).
    destruct (undo_null_do_null p p2 E2) as (p3 & R3 & E3 & P3).
    exists p3. rewrite run_exc_null, Hdo. cbn [bind]. rewrite R2. cbn [bind].
    split; [exact R3|]. destruct (eqpf_of_set_phase _ _ _ E3) as [E3' F3]. split; [exact E3'|]. split; [exact F3|].
    intro hb. rewrite P3, (P2 hb). unfold p1. destruct (do_null_raw_fields p) as (_ & _ & _ & _ & _ & _ & _ & _ & _ & _ & _ & _ & _ & _ & Fph & _).
    exact Fph.
Qed.
End Ok.
End UndoAll.
