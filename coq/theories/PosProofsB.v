(** * PosProofsB: panic-free ("raw") forms of DoMove / UndoMove, the facts about a
    pseudo-legal move that the proofs use ([move_ok]), and their derivation from
    [Rules.pseudo]. *)
From Coq Require Import NArith ZArith List Bool Lia ZifyN ZifyBool Btauto.
From FG Require Import Geom Rules FenSpec PosImpl PosProofsA.
Import ListNotations.
Open Scope N_scope.

(** ** normal forms of the three conditional key / state updates *)
Lemma ipos_eta p :
  p = mkipos (i_key p) (i_board p) (i_cr p) (i_ep p) (i_hmc p) (i_stm p) (i_ksq p) (i_nhm p) (i_pbb p)
             (i_occ p) (i_hist p) (i_mat p) (i_matnp p) (i_psqm p) (i_psqe p) (i_phase p) (i_flag p).
Proof. destruct p; reflexivity. Qed.

Lemma clear_ep_nf t p :
  clear_ep t p = set_ep 64 (set_key (N.lxor (i_key p) (epk t (i_ep p))) p).
Proof.
  unfold clear_ep, epk. destruct (N.eqb_spec (i_ep p) 64) as [E|E]; [|reflexivity].
  rewrite N.lxor_0_r. unfold set_ep, set_key. cbn. rewrite <- E. apply ipos_eta.
Qed.

Definition lost_by (f to : N) : N := N.lor (castling_by_square f) (castling_by_square to).

Lemma drop_castling_nf t p lost :
  drop_castling t p lost =
  set_cr (N.ldiff (i_cr p) lost) (set_key (N.lxor (N.lxor (i_key p) (zc t (i_cr p))) (zc t (N.ldiff (i_cr p) lost))) p).
Proof. reflexivity. Qed.

Lemma touch_castling_nf t p f to :
  touch_castling t p f to = drop_castling t p (lost_by f to).
Proof.
  unfold touch_castling. fold (lost_by f to). rewrite drop_castling_nf.
  destruct (N.eqb_spec (i_cr p) 0) as [E|E].
  - rewrite E. rewrite N.ldiff_0_l. unfold set_cr, set_key. cbn.
    replace (N.lxor (N.lxor (i_key p) (zc t 0)) (zc t 0)) with (i_key p) by xor_solve.
    rewrite <- E. apply ipos_eta.
  - destruct (N.eqb_spec (lost_by f to) 0) as [E'|E']; [|reflexivity].
    rewrite E'. rewrite N.ldiff_0_r. unfold set_cr, set_key. cbn.
    replace (N.lxor (N.lxor (i_key p) (zc t (i_cr p))) (zc t (i_cr p))) with (i_key p) by xor_solve.
    apply ipos_eta.
Qed.

(** ** raw (total) versions: the same code with "remove what is there" *)
Definition rp (t : tabs) (p : ipos) (sq : N) : ipos := rem_raw t p (at_ (i_board p) sq) sq.
Definition mp (t : tabs) (p : ipos) (f to : N) : ipos := put_raw t (rp t p f) (at_ (i_board p) f) to.

Definition do_normal_raw (t : tabs) (p : ipos) (fromSq toSq targetPc fromPc myColor : N) : ipos :=
  let p2 := clear_ep t (touch_castling t p fromSq toSq) in
  if negb (targetPc =? 0) then mp t (set_hmc 0 (rp t p2 toSq)) fromSq toSq
  else if fromPc mod 8 =? PAWN then
    let p3 := set_hmc 0 p2 in
    let p4 := if sq_distance fromSq toSq =? 2 then
                let e := sq_to toSq (pawn_dir (cflip myColor)) in
                set_ep e (set_key (N.lxor (i_key p3) (ze t (file_of e))) p3)
              else p3 in
    mp t p4 fromSq toSq
  else mp t (set_hmc (i_hmc p2 + 1) p2) fromSq toSq.

Definition castle_info (toSq : N) : option (N * N * N) :=
  if toSq =? 6 then Some (7, 5, 3) else if toSq =? 2 then Some (0, 3, 3)
  else if toSq =? 62 then Some (63, 61, 12) else if toSq =? 58 then Some (56, 59, 12) else None.

Definition do_castling_raw (t : tabs) (p : ipos) (toSq fromSq rf rt lost : N) : ipos :=
  let p4 := clear_ep t (drop_castling t (mp t (mp t p fromSq toSq) rf rt) lost) in
  set_hmc (i_hmc p4 + 1) p4.

Definition do_enpassant_raw (t : tabs) (p : ipos) (toSq myColor fromSq : N) : ipos :=
  set_hmc 0 (clear_ep t (mp t (rp t p (sq_to toSq (pawn_dir (cflip myColor)))) fromSq toSq)).

Definition do_promotion_raw (t : tabs) (p : ipos) (m myColor toSq targetPc fromSq : N) : ipos :=
  let p1 := if negb (targetPc =? 0) then rp t p toSq else p in
  let p2 := touch_castling t p1 fromSq toSq in
  set_hmc 0 (clear_ep t (put_raw t (rp t p2 fromSq) (8 * myColor + mv_prom m) toSq)).

Definition do_move_raw (t : tabs) (p : ipos) (m : N) : ipos :=
  let fromSq := mv_from m in let toSq := mv_to m in
  let fromPc := at_ (i_board p) fromSq in let targetPc := at_ (i_board p) toSq in
  let myColor := fromPc / 8 in
  let p0 := push_hist p m fromPc targetPc in
  let ty := mv_type m in
  turn t 1 (if ty =? 0 then do_normal_raw t p0 fromSq toSq targetPc fromPc myColor
            else if ty =? 1 then do_promotion_raw t p0 m myColor toSq targetPc fromSq
            else if ty =? 2 then do_enpassant_raw t p0 toSq myColor fromSq
            else match castle_info toSq with
                 | Some (rf, rt, lost) => do_castling_raw t p0 toSq fromSq rf rt lost
                 | None => p0 end).

Definition put_if_raw (t : tabs) (p : ipos) (pc sq : N) : ipos :=
  if negb (pc =? 0) then put_raw t p pc sq else p.

Definition undo_move_raw (t : tabs) (p : ipos) (h : hstate) (rest : list hstate) : ipos :=
  let p0 := unturn rest p in
  let move := h_move h in
  let fromSq := mv_from move in let toSq := mv_to move in
  let ty := mv_type move in
  restore h
    (if ty =? 0 then put_if_raw t (mp t p0 toSq fromSq) (h_cap h) toSq
     else if ty =? 1 then put_if_raw t (put_raw t (rp t p0 toSq) (8 * i_stm p0 + PAWN) fromSq) (h_cap h) toSq
     else if ty =? 2 then put_raw t (mp t p0 toSq fromSq) (8 * cflip (i_stm p0) + PAWN)
                                  (sq_to toSq (pawn_dir (cflip (i_stm p0))))
     else let q := mp t p0 toSq fromSq in
          if toSq =? 6 then mp t q 5 7 else if toSq =? 2 then mp t q 3 0
          else if toSq =? 62 then mp t q 61 63 else mp t q 59 56).

(** ** when the Go code does not panic *)
Definition board_ok (b : list N) : Prop := length b = 64%nat /\ forall s, okpc (at_ b s) = true.

Lemma board_ok_put b sq pc : board_ok b -> sq < 64 -> okpc pc = true -> board_ok (put b sq pc).
Proof.
  intros [Hl Ho] Hs Hp. split; [now rewrite put_length|]. intro s. rewrite at_put by assumption.
  destruct (s =? sq); auto.
Qed.

Lemma remove_piece_rp t p sq : board_ok (i_board p) -> sq < 64 ->
  remove_piece t p sq = Some (rp t p sq, at_ (i_board p) sq).
Proof.
  intros [Hl Ho] Hs. unfold remove_piece. rewrite nth_error_board by assumption.
  rewrite okpc_valid by apply Ho. reflexivity.
Qed.

Lemma put_piece_raw t p pc sq : sq < 64 -> okpc pc = true -> put_piece t p pc sq = Some (put_raw t p pc sq).
Proof.
  intros Hs Ho. unfold put_piece. rewrite (okpc_valid _ Ho).
  destruct (N.ltb_spec sq 64); [reflexivity|lia].
Qed.

Lemma move_piece_mp t p f to : board_ok (i_board p) -> f < 64 -> to < 64 ->
  move_piece t p f to = Some (mp t p f to).
Proof.
  intros Hb Hf Ht. unfold move_piece. rewrite remove_piece_rp by assumption. cbn [bind fst snd].
  apply put_piece_raw; [assumption|apply Hb].
Qed.

Lemma board_rp t p sq : i_board (rp t p sq) = put (i_board p) sq 0.
Proof. reflexivity. Qed.
Lemma board_mp t p f to : i_board (mp t p f to) = put (put (i_board p) f 0) to (at_ (i_board p) f).
Proof. reflexivity. Qed.

Lemma board_ok_rp t p sq : board_ok (i_board p) -> sq < 64 -> board_ok (i_board (rp t p sq)).
Proof. intros. rewrite board_rp. apply board_ok_put; auto. Qed.
Lemma board_ok_mp t p f to : board_ok (i_board p) -> f < 64 -> to < 64 -> board_ok (i_board (mp t p f to)).
Proof. intros H ? ?. rewrite board_mp. apply board_ok_put; auto; [apply board_ok_put; auto|apply H]. Qed.

Lemma board_clear_ep t p : i_board (clear_ep t p) = i_board p.
Proof. now rewrite clear_ep_nf. Qed.
Lemma board_touch t p f to : i_board (touch_castling t p f to) = i_board p.
Proof. now rewrite touch_castling_nf. Qed.
Lemma board_drop t p l : i_board (drop_castling t p l) = i_board p.
Proof. reflexivity. Qed.

Lemma sq_to_lt s d : sq_to s d <= 64.
Proof.
  unfold sq_to, step. destruct (delta d) as [df dr]. unfold offset.
  destruct (on_board _ _) eqn:E; [|lia]. unfold on_board in E. lia.
Qed.

Lemma castle_info_cases to r : castle_info to = Some r ->
  (to = 6 /\ r = (7, 5, 3)) \/ (to = 2 /\ r = (0, 3, 3)) \/ (to = 62 /\ r = (63, 61, 12)) \/ (to = 58 /\ r = (56, 59, 12)).
Proof.
  unfold castle_info.
  destruct (N.eqb_spec to 6); [intro H; injection H; auto|].
  destruct (N.eqb_spec to 2); [intro H; injection H; auto|].
  destruct (N.eqb_spec to 62); [intro H; injection H; auto 6|].
  destruct (N.eqb_spec to 58); [intro H; injection H; auto 6|]. discriminate.
Qed.

Lemma mv_to_lt m : mv_to m < 64.
Proof. unfold mv_to. change 63 with (N.ones 6). rewrite N.land_ones. apply N.mod_lt. discriminate. Qed.

Lemma shiftr_land_mask m k s : N.shiftr (N.land m (N.shiftl k s)) s = N.land (N.shiftr m s) k.
Proof. rewrite N.shiftr_land. rewrite N.shiftr_shiftl_l by lia. now rewrite N.sub_diag, N.shiftl_0_r. Qed.

Lemma mv_from_eq m : mv_from m = (m / 64) mod 64.
Proof.
  unfold mv_from. change 4032 with (N.shiftl 63 6). rewrite shiftr_land_mask.
  change 63 with (N.ones 6). rewrite N.land_ones, N.shiftr_div_pow2. reflexivity.
Qed.
Lemma mv_prom_eq m : mv_prom m = (m / 4096) mod 4 + 3.
Proof.
  unfold mv_prom. change 12288 with (N.shiftl 3 12). rewrite shiftr_land_mask.
  change 3 with (N.ones 2) at 1. rewrite N.land_ones, N.shiftr_div_pow2. reflexivity.
Qed.
Lemma mv_type_eq m : mv_type m = (m / 16384) mod 4.
Proof.
  unfold mv_type. change 49152 with (N.shiftl 3 14). rewrite shiftr_land_mask.
  change 3 with (N.ones 2) at 1. rewrite N.land_ones, N.shiftr_div_pow2. reflexivity.
Qed.
Lemma mv_to_eq m : mv_to m = m mod 64.
Proof. unfold mv_to. change 63 with (N.ones 6). now rewrite N.land_ones. Qed.

Lemma mv_from_lt m : mv_from m < 64.
Proof. rewrite mv_from_eq. apply N.mod_lt. discriminate. Qed.
Lemma mv_prom_range m : 3 <= mv_prom m <= 6.
Proof. rewrite mv_prom_eq. pose proof (N.mod_lt (m / 4096) 4). lia. Qed.
Lemma mv_type_lt m : mv_type m < 4.
Proof. rewrite mv_type_eq. apply N.mod_lt. discriminate. Qed.

(* DoMove does not panic and equals its raw form, provided the history has room, an
   en-passant move has its capture square on the board and a castling move goes to
   one of g1, c1, g8, c8 *)
Theorem do_move_total t p m :
  board_ok (i_board p) -> (length (i_hist p) < MaxHistory)%nat ->
  (mv_type m = 2 -> sq_to (mv_to m) (pawn_dir (cflip (at_ (i_board p) (mv_from m) / 8))) < 64) ->
  (mv_type m = 3 -> castle_info (mv_to m) <> None) ->
  do_move t p m = Some (do_move_raw t p m).
Proof.
  intros Hb Hroom Hep Hcs. pose proof Hb as [Hl Ho].
  unfold do_move, do_move_raw.
  pose proof (mv_from_lt m) as Hf. pose proof (mv_to_lt m) as Ht.
  rewrite !nth_error_board by assumption. cbn [bind].
  destruct (Nat.leb_spec MaxHistory (length (i_hist p))); [lia|].
  set (f := mv_from m) in *. set (to := mv_to m) in *.
  set (pc := at_ (i_board p) f) in *. set (tp := at_ (i_board p) to).
  set (p0 := push_hist p m pc tp).
  assert (Hb0 : board_ok (i_board p0)) by exact Hb.
  pose proof (mv_type_lt m) as Hty.
  destruct (N.eqb_spec (mv_type m) 0) as [E0|E0].
  { (* normal *)
    unfold do_normal, do_normal_raw.
    set (p2 := clear_ep t (touch_castling t p0 f to)).
    assert (Hb2 : board_ok (i_board p2)) by (unfold p2; rewrite board_clear_ep, board_touch; exact Hb0).
    destruct (negb (tp =? 0)).
    - rewrite remove_piece_rp by assumption. cbn [bind fst snd].
      rewrite move_piece_mp; [reflexivity| |assumption|assumption].
      apply (board_ok_rp t p2 to Hb2 Ht).
    - destruct (pc mod 8 =? PAWN).
      + rewrite move_piece_mp; [reflexivity| |assumption|assumption].
        destruct (sq_distance f to =? 2); exact Hb2.
      + rewrite move_piece_mp; [reflexivity| |assumption|assumption]. exact Hb2. }
  destruct (N.eqb_spec (mv_type m) 1) as [E1|E1].
  { (* promotion *)
    unfold do_promotion, do_promotion_raw.
    assert (Hpr : okpc (8 * (pc / 8) + mv_prom m) = true).
    { pose proof (mv_prom_range m). pose proof (Ho f) as Hpc. fold pc in Hpc.
      apply okpc_cases in Hpc. apply okpc_mk; lia. }
    destruct (negb (tp =? 0)).
    - rewrite remove_piece_rp by assumption. cbn [bind fst snd].
      set (p2 := touch_castling t (rp t p0 to) f to).
      assert (Hb2 : board_ok (i_board p2)) by (unfold p2; rewrite board_touch; apply board_ok_rp; assumption).
      rewrite remove_piece_rp by assumption. cbn [bind fst snd].
      rewrite put_piece_raw by assumption. reflexivity.
    - cbn [bind].
      set (p2 := touch_castling t p0 f to).
      assert (Hb2 : board_ok (i_board p2)) by (unfold p2; rewrite board_touch; assumption).
      rewrite remove_piece_rp by assumption. cbn [bind fst snd].
      rewrite put_piece_raw by assumption. reflexivity. }
  destruct (N.eqb_spec (mv_type m) 2) as [E2|E2].
  { (* en passant *)
    unfold do_enpassant, do_enpassant_raw. specialize (Hep E2). fold f to pc in Hep.
    rewrite remove_piece_rp by assumption. cbn [bind fst snd].
    rewrite move_piece_mp; [reflexivity| |assumption|assumption].
    apply board_ok_rp; assumption. }
  (* castling *)
  assert (E3 : mv_type m = 3) by lia. specialize (Hcs E3). fold to in Hcs.
  unfold do_castling, do_castling_raw. fold (castle_info to).
  destruct (castle_info to) as [[[rf rt] lost]|] eqn:Eci; [|congruence]. cbn [bind].
  assert (rf < 64 /\ rt < 64) as [Hrf Hrt].
  { apply castle_info_cases in Eci as [[_ E]|[[_ E]|[[_ E]|[_ E]]]]; injection E as -> -> ->; lia. }
  rewrite move_piece_mp by assumption. cbn [bind].
  rewrite move_piece_mp; [reflexivity| |assumption|assumption].
  apply board_ok_mp; assumption.
Qed.

(* UndoMove does not panic and equals its raw form when the top history entry is sane *)
Theorem undo_move_total t p h rest :
  board_ok (i_board p) -> i_hist p = h :: rest -> i_stm p < 2 -> okpc (h_cap h) = true ->
  (mv_type (h_move h) = 2 -> sq_to (mv_to (h_move h)) (pawn_dir (i_stm p)) < 64) ->
  (mv_type (h_move h) = 3 -> castle_info (mv_to (h_move h)) <> None) ->
  undo_move t p = Some (undo_move_raw t p h rest).
Proof.
  intros Hb Hh Hstm Hcap Hep Hcs. unfold undo_move, undo_move_raw. rewrite Hh.
  set (p0 := unturn rest p). set (mv := h_move h) in *.
  pose proof (mv_from_lt mv) as Hf. pose proof (mv_to_lt mv) as Ht.
  set (f := mv_from mv) in *. set (to := mv_to mv) in *.
  assert (Hb0 : board_ok (i_board p0)) by exact Hb.
  assert (Hs0 : i_stm p0 = cflip (i_stm p)) by reflexivity.
  pose proof (cflip_lt _ Hstm) as Hcf.
  pose proof (mv_type_lt mv) as Hty.
  assert (Hputif : forall q, put_if t q (h_cap h) to = Some (put_if_raw t q (h_cap h) to)).
  { intro q. unfold put_if, put_if_raw. destruct (negb (h_cap h =? 0)); [|reflexivity].
    apply put_piece_raw; assumption. }
  destruct (N.eqb_spec (mv_type mv) 0) as [E0|E0].
  { rewrite move_piece_mp by assumption. cbn [bind]. rewrite Hputif. reflexivity. }
  destruct (N.eqb_spec (mv_type mv) 1) as [E1|E1].
  { rewrite remove_piece_rp by assumption. cbn [bind fst snd].
    rewrite put_piece_raw; [|assumption|apply okpc_mk; unfold PAWN; lia]. cbn [bind].
    rewrite Hputif. reflexivity. }
  destruct (N.eqb_spec (mv_type mv) 2) as [E2|E2].
  { rewrite move_piece_mp by assumption. cbn [bind]. specialize (Hep E2).
    rewrite put_piece_raw; [reflexivity| |].
    - rewrite Hs0, cflip_cflip. exact Hep.
    - apply okpc_mk; [apply cflip_lt; lia|unfold PAWN; lia..]. }
  assert (E3 : mv_type mv = 3) by lia. specialize (Hcs E3). fold to in Hcs.
  rewrite move_piece_mp by assumption. cbn [bind].
  assert (Hbq : board_ok (i_board (mp t p0 to f))) by (apply board_ok_mp; assumption).
  unfold castle_info in Hcs.
  destruct (to =? 6); [rewrite move_piece_mp by (try assumption; lia); reflexivity|].
  destruct (to =? 2); [rewrite move_piece_mp by (try assumption; lia); reflexivity|].
  destruct (to =? 62); [rewrite move_piece_mp by (try assumption; lia); reflexivity|].
  destruct (to =? 58); [rewrite move_piece_mp by (try assumption; lia); reflexivity|congruence].
Qed.

(** ** simplification tactics *)
Ltac psimpl :=
  cbn [i_key i_board i_cr i_ep i_hmc i_stm i_ksq i_nhm i_pbb i_occ i_hist i_mat i_matnp i_psqm i_psqe
       i_phase i_flag set_key set_cr set_ep set_hmc set_hist set_phase set_check_flag turn restore unturn
       push_hist put_raw rem_raw rp mp drop_castling h_key h_move h_from h_cap h_cr h_ep h_hmc h_flag fst snd].
Ltac psimpl_in H :=
  cbn [i_key i_board i_cr i_ep i_hmc i_stm i_ksq i_nhm i_pbb i_occ i_hist i_mat i_matnp i_psqm i_psqe
       i_phase i_flag set_key set_cr set_ep set_hmc set_hist set_phase set_check_flag turn restore unturn
       push_hist put_raw rem_raw rp mp drop_castling h_key h_move h_from h_cap h_cr h_ep h_hmc h_flag fst snd] in H.
Ltac nf := rewrite ?clear_ep_nf, ?touch_castling_nf; psimpl.
Ltac nf_in H := rewrite ?clear_ep_nf, ?touch_castling_nf in H; psimpl_in H.

(* at_ (put ..) *)
Ltac atp := repeat rewrite at_put by (rewrite ?put_length; (assumption || lia)).
Ltac atp_in H := repeat rewrite at_put in H by (rewrite ?put_length; (assumption || lia)).
Ltac eqbs :=
  repeat match goal with
  | |- context [?x =? ?x] => rewrite (N.eqb_refl x)
  | |- context [?x =? ?y] => rewrite (proj2 (N.eqb_neq x y)) by lia
  end.


(** ** projection (frame) lemmas, used by rewriting instead of conversion: unfolding the nested
    edits by cbn makes [Qed] re-check exponentially large conversions *)
Lemma fr_set_key_cr v p : i_cr (set_key v p) = i_cr p. Proof. reflexivity. Qed.
Lemma fr_set_key_ep v p : i_ep (set_key v p) = i_ep p. Proof. reflexivity. Qed.
Lemma fr_set_key_hmc v p : i_hmc (set_key v p) = i_hmc p. Proof. reflexivity. Qed.
Lemma fr_set_key_stm v p : i_stm (set_key v p) = i_stm p. Proof. reflexivity. Qed.
Lemma fr_set_key_nhm v p : i_nhm (set_key v p) = i_nhm p. Proof. reflexivity. Qed.
Lemma fr_set_key_hist v p : i_hist (set_key v p) = i_hist p. Proof. reflexivity. Qed.
Lemma fr_set_key_flag v p : i_flag (set_key v p) = i_flag p. Proof. reflexivity. Qed.
Lemma fr_set_key_board v p : i_board (set_key v p) = i_board p. Proof. reflexivity. Qed.
Lemma fr_set_key_ksq v p : i_ksq (set_key v p) = i_ksq p. Proof. reflexivity. Qed.
Lemma fr_set_cr_cr v p : i_cr (set_cr v p) = v. Proof. reflexivity. Qed.
Lemma fr_set_cr_ep v p : i_ep (set_cr v p) = i_ep p. Proof. reflexivity. Qed.
Lemma fr_set_cr_hmc v p : i_hmc (set_cr v p) = i_hmc p. Proof. reflexivity. Qed.
Lemma fr_set_cr_stm v p : i_stm (set_cr v p) = i_stm p. Proof. reflexivity. Qed.
Lemma fr_set_cr_nhm v p : i_nhm (set_cr v p) = i_nhm p. Proof. reflexivity. Qed.
Lemma fr_set_cr_hist v p : i_hist (set_cr v p) = i_hist p. Proof. reflexivity. Qed.
Lemma fr_set_cr_flag v p : i_flag (set_cr v p) = i_flag p. Proof. reflexivity. Qed.
Lemma fr_set_cr_board v p : i_board (set_cr v p) = i_board p. Proof. reflexivity. Qed.
Lemma fr_set_cr_ksq v p : i_ksq (set_cr v p) = i_ksq p. Proof. reflexivity. Qed.
Lemma fr_set_ep_cr v p : i_cr (set_ep v p) = i_cr p. Proof. reflexivity. Qed.
Lemma fr_set_ep_ep v p : i_ep (set_ep v p) = v. Proof. reflexivity. Qed.
Lemma fr_set_ep_hmc v p : i_hmc (set_ep v p) = i_hmc p. Proof. reflexivity. Qed.
Lemma fr_set_ep_stm v p : i_stm (set_ep v p) = i_stm p. Proof. reflexivity. Qed.
Lemma fr_set_ep_nhm v p : i_nhm (set_ep v p) = i_nhm p. Proof. reflexivity. Qed.
Lemma fr_set_ep_hist v p : i_hist (set_ep v p) = i_hist p. Proof. reflexivity. Qed.
Lemma fr_set_ep_flag v p : i_flag (set_ep v p) = i_flag p. Proof. reflexivity. Qed.
Lemma fr_set_ep_board v p : i_board (set_ep v p) = i_board p. Proof. reflexivity. Qed.
Lemma fr_set_ep_ksq v p : i_ksq (set_ep v p) = i_ksq p. Proof. reflexivity. Qed.
Lemma fr_set_hmc_cr v p : i_cr (set_hmc v p) = i_cr p. Proof. reflexivity. Qed.
Lemma fr_set_hmc_ep v p : i_ep (set_hmc v p) = i_ep p. Proof. reflexivity. Qed.
Lemma fr_set_hmc_hmc v p : i_hmc (set_hmc v p) = v. Proof. reflexivity. Qed.
Lemma fr_set_hmc_stm v p : i_stm (set_hmc v p) = i_stm p. Proof. reflexivity. Qed.
Lemma fr_set_hmc_nhm v p : i_nhm (set_hmc v p) = i_nhm p. Proof. reflexivity. Qed.
Lemma fr_set_hmc_hist v p : i_hist (set_hmc v p) = i_hist p. Proof. reflexivity. Qed.
Lemma fr_set_hmc_flag v p : i_flag (set_hmc v p) = i_flag p. Proof. reflexivity. Qed.
Lemma fr_set_hmc_board v p : i_board (set_hmc v p) = i_board p. Proof. reflexivity. Qed.
Lemma fr_set_hmc_ksq v p : i_ksq (set_hmc v p) = i_ksq p. Proof. reflexivity. Qed.
Lemma fr_set_hist_cr v p : i_cr (set_hist v p) = i_cr p. Proof. reflexivity. Qed.
Lemma fr_set_hist_ep v p : i_ep (set_hist v p) = i_ep p. Proof. reflexivity. Qed.
Lemma fr_set_hist_hmc v p : i_hmc (set_hist v p) = i_hmc p. Proof. reflexivity. Qed.
Lemma fr_set_hist_stm v p : i_stm (set_hist v p) = i_stm p. Proof. reflexivity. Qed.
Lemma fr_set_hist_nhm v p : i_nhm (set_hist v p) = i_nhm p. Proof. reflexivity. Qed.
Lemma fr_set_hist_hist v p : i_hist (set_hist v p) = v. Proof. reflexivity. Qed.
Lemma fr_set_hist_flag v p : i_flag (set_hist v p) = i_flag p. Proof. reflexivity. Qed.
Lemma fr_set_hist_board v p : i_board (set_hist v p) = i_board p. Proof. reflexivity. Qed.
Lemma fr_set_hist_ksq v p : i_ksq (set_hist v p) = i_ksq p. Proof. reflexivity. Qed.
Lemma fr_set_phase_cr v p : i_cr (set_phase v p) = i_cr p. Proof. reflexivity. Qed.
Lemma fr_set_phase_ep v p : i_ep (set_phase v p) = i_ep p. Proof. reflexivity. Qed.
Lemma fr_set_phase_hmc v p : i_hmc (set_phase v p) = i_hmc p. Proof. reflexivity. Qed.
Lemma fr_set_phase_stm v p : i_stm (set_phase v p) = i_stm p. Proof. reflexivity. Qed.
Lemma fr_set_phase_nhm v p : i_nhm (set_phase v p) = i_nhm p. Proof. reflexivity. Qed.
Lemma fr_set_phase_hist v p : i_hist (set_phase v p) = i_hist p. Proof. reflexivity. Qed.
Lemma fr_set_phase_flag v p : i_flag (set_phase v p) = i_flag p. Proof. reflexivity. Qed.
Lemma fr_set_phase_board v p : i_board (set_phase v p) = i_board p. Proof. reflexivity. Qed.
Lemma fr_set_phase_ksq v p : i_ksq (set_phase v p) = i_ksq p. Proof. reflexivity. Qed.
Lemma fr_set_check_flag_cr v p : i_cr (set_check_flag v p) = i_cr p. Proof. reflexivity. Qed.
Lemma fr_set_check_flag_ep v p : i_ep (set_check_flag v p) = i_ep p. Proof. reflexivity. Qed.
Lemma fr_set_check_flag_hmc v p : i_hmc (set_check_flag v p) = i_hmc p. Proof. reflexivity. Qed.
Lemma fr_set_check_flag_stm v p : i_stm (set_check_flag v p) = i_stm p. Proof. reflexivity. Qed.
Lemma fr_set_check_flag_nhm v p : i_nhm (set_check_flag v p) = i_nhm p. Proof. reflexivity. Qed.
Lemma fr_set_check_flag_hist v p : i_hist (set_check_flag v p) = i_hist p. Proof. reflexivity. Qed.
Lemma fr_set_check_flag_flag v p : i_flag (set_check_flag v p) = v. Proof. reflexivity. Qed.
Lemma fr_set_check_flag_board v p : i_board (set_check_flag v p) = i_board p. Proof. reflexivity. Qed.
Lemma fr_set_check_flag_ksq v p : i_ksq (set_check_flag v p) = i_ksq p. Proof. reflexivity. Qed.
Lemma fr_turn_cr t d p : i_cr (turn t d p) = i_cr p. Proof. reflexivity. Qed.
Lemma fr_turn_ep t d p : i_ep (turn t d p) = i_ep p. Proof. reflexivity. Qed.
Lemma fr_turn_hmc t d p : i_hmc (turn t d p) = i_hmc p. Proof. reflexivity. Qed.
Lemma fr_turn_stm t d p : i_stm (turn t d p) = N.lxor (i_stm p) 1. Proof. reflexivity. Qed.
Lemma fr_turn_nhm t d p : i_nhm (turn t d p) = (i_nhm p + d)%Z. Proof. reflexivity. Qed.
Lemma fr_turn_hist t d p : i_hist (turn t d p) = i_hist p. Proof. reflexivity. Qed.
Lemma fr_turn_flag t d p : i_flag (turn t d p) = 0%Z. Proof. reflexivity. Qed.
Lemma fr_turn_board t d p : i_board (turn t d p) = i_board p. Proof. reflexivity. Qed.
Lemma fr_turn_ksq t d p : i_ksq (turn t d p) = i_ksq p. Proof. reflexivity. Qed.
Lemma fr_push_hist_cr p a b c : i_cr (push_hist p a b c) = i_cr p. Proof. reflexivity. Qed.
Lemma fr_push_hist_ep p a b c : i_ep (push_hist p a b c) = i_ep p. Proof. reflexivity. Qed.
Lemma fr_push_hist_hmc p a b c : i_hmc (push_hist p a b c) = i_hmc p. Proof. reflexivity. Qed.
Lemma fr_push_hist_stm p a b c : i_stm (push_hist p a b c) = i_stm p. Proof. reflexivity. Qed.
Lemma fr_push_hist_nhm p a b c : i_nhm (push_hist p a b c) = i_nhm p. Proof. reflexivity. Qed.
Lemma fr_push_hist_hist p a b c : i_hist (push_hist p a b c) = mkh (i_key p) a b c (i_cr p) (i_ep p) (i_hmc p) (i_flag p) :: i_hist p. Proof. reflexivity. Qed.
Lemma fr_push_hist_flag p a b c : i_flag (push_hist p a b c) = i_flag p. Proof. reflexivity. Qed.
Lemma fr_push_hist_board p a b c : i_board (push_hist p a b c) = i_board p. Proof. reflexivity. Qed.
Lemma fr_push_hist_ksq p a b c : i_ksq (push_hist p a b c) = i_ksq p. Proof. reflexivity. Qed.
Lemma fr_unturn_cr r p : i_cr (unturn r p) = i_cr p. Proof. reflexivity. Qed.
Lemma fr_unturn_ep r p : i_ep (unturn r p) = i_ep p. Proof. reflexivity. Qed.
Lemma fr_unturn_hmc r p : i_hmc (unturn r p) = i_hmc p. Proof. reflexivity. Qed.
Lemma fr_unturn_stm r p : i_stm (unturn r p) = cflip (i_stm p). Proof. reflexivity. Qed.
Lemma fr_unturn_nhm r p : i_nhm (unturn r p) = (i_nhm p - 1)%Z. Proof. reflexivity. Qed.
Lemma fr_unturn_hist r p : i_hist (unturn r p) = r. Proof. reflexivity. Qed.
Lemma fr_unturn_flag r p : i_flag (unturn r p) = i_flag p. Proof. reflexivity. Qed.
Lemma fr_unturn_board r p : i_board (unturn r p) = i_board p. Proof. reflexivity. Qed.
Lemma fr_unturn_ksq r p : i_ksq (unturn r p) = i_ksq p. Proof. reflexivity. Qed.
Lemma fr_restore_cr h p : i_cr (restore h p) = h_cr h. Proof. reflexivity. Qed.
Lemma fr_restore_ep h p : i_ep (restore h p) = h_ep h. Proof. reflexivity. Qed.
Lemma fr_restore_hmc h p : i_hmc (restore h p) = h_hmc h. Proof. reflexivity. Qed.
Lemma fr_restore_stm h p : i_stm (restore h p) = i_stm p. Proof. reflexivity. Qed.
Lemma fr_restore_nhm h p : i_nhm (restore h p) = i_nhm p. Proof. reflexivity. Qed.
Lemma fr_restore_hist h p : i_hist (restore h p) = i_hist p. Proof. reflexivity. Qed.
Lemma fr_restore_flag h p : i_flag (restore h p) = h_flag h. Proof. reflexivity. Qed.
Lemma fr_restore_board h p : i_board (restore h p) = i_board p. Proof. reflexivity. Qed.
Lemma fr_restore_ksq h p : i_ksq (restore h p) = i_ksq p. Proof. reflexivity. Qed.
Lemma fr_clear_ep_cr t p : i_cr (clear_ep t p) = i_cr p. Proof. rewrite clear_ep_nf; reflexivity. Qed.
Lemma fr_clear_ep_ep t p : i_ep (clear_ep t p) = 64. Proof. rewrite clear_ep_nf; reflexivity. Qed.
Lemma fr_clear_ep_hmc t p : i_hmc (clear_ep t p) = i_hmc p. Proof. rewrite clear_ep_nf; reflexivity. Qed.
Lemma fr_clear_ep_stm t p : i_stm (clear_ep t p) = i_stm p. Proof. rewrite clear_ep_nf; reflexivity. Qed.
Lemma fr_clear_ep_nhm t p : i_nhm (clear_ep t p) = i_nhm p. Proof. rewrite clear_ep_nf; reflexivity. Qed.
Lemma fr_clear_ep_hist t p : i_hist (clear_ep t p) = i_hist p. Proof. rewrite clear_ep_nf; reflexivity. Qed.
Lemma fr_clear_ep_flag t p : i_flag (clear_ep t p) = i_flag p. Proof. rewrite clear_ep_nf; reflexivity. Qed.
Lemma fr_clear_ep_board t p : i_board (clear_ep t p) = i_board p. Proof. rewrite clear_ep_nf; reflexivity. Qed.
Lemma fr_clear_ep_ksq t p : i_ksq (clear_ep t p) = i_ksq p. Proof. rewrite clear_ep_nf; reflexivity. Qed.
Lemma fr_touch_castling_cr t p f to : i_cr (touch_castling t p f to) = N.ldiff (i_cr p) (lost_by f to). Proof. rewrite touch_castling_nf; reflexivity. Qed.
Lemma fr_touch_castling_ep t p f to : i_ep (touch_castling t p f to) = i_ep p. Proof. rewrite touch_castling_nf; reflexivity. Qed.
Lemma fr_touch_castling_hmc t p f to : i_hmc (touch_castling t p f to) = i_hmc p. Proof. rewrite touch_castling_nf; reflexivity. Qed.
Lemma fr_touch_castling_stm t p f to : i_stm (touch_castling t p f to) = i_stm p. Proof. rewrite touch_castling_nf; reflexivity. Qed.
Lemma fr_touch_castling_nhm t p f to : i_nhm (touch_castling t p f to) = i_nhm p. Proof. rewrite touch_castling_nf; reflexivity. Qed.
Lemma fr_touch_castling_hist t p f to : i_hist (touch_castling t p f to) = i_hist p. Proof. rewrite touch_castling_nf; reflexivity. Qed.
Lemma fr_touch_castling_flag t p f to : i_flag (touch_castling t p f to) = i_flag p. Proof. rewrite touch_castling_nf; reflexivity. Qed.
Lemma fr_touch_castling_board t p f to : i_board (touch_castling t p f to) = i_board p. Proof. rewrite touch_castling_nf; reflexivity. Qed.
Lemma fr_touch_castling_ksq t p f to : i_ksq (touch_castling t p f to) = i_ksq p. Proof. rewrite touch_castling_nf; reflexivity. Qed.
Lemma fr_drop_castling_cr t p l : i_cr (drop_castling t p l) = N.ldiff (i_cr p) l. Proof. reflexivity. Qed.
Lemma fr_drop_castling_ep t p l : i_ep (drop_castling t p l) = i_ep p. Proof. reflexivity. Qed.
Lemma fr_drop_castling_hmc t p l : i_hmc (drop_castling t p l) = i_hmc p. Proof. reflexivity. Qed.
Lemma fr_drop_castling_stm t p l : i_stm (drop_castling t p l) = i_stm p. Proof. reflexivity. Qed.
Lemma fr_drop_castling_nhm t p l : i_nhm (drop_castling t p l) = i_nhm p. Proof. reflexivity. Qed.
Lemma fr_drop_castling_hist t p l : i_hist (drop_castling t p l) = i_hist p. Proof. reflexivity. Qed.
Lemma fr_drop_castling_flag t p l : i_flag (drop_castling t p l) = i_flag p. Proof. reflexivity. Qed.
Lemma fr_drop_castling_board t p l : i_board (drop_castling t p l) = i_board p. Proof. reflexivity. Qed.
Lemma fr_drop_castling_ksq t p l : i_ksq (drop_castling t p l) = i_ksq p. Proof. reflexivity. Qed.
Lemma fr_rp_cr t p sq : i_cr (rp t p sq) = i_cr p. Proof. reflexivity. Qed.
Lemma fr_rp_ep t p sq : i_ep (rp t p sq) = i_ep p. Proof. reflexivity. Qed.
Lemma fr_rp_hmc t p sq : i_hmc (rp t p sq) = i_hmc p. Proof. reflexivity. Qed.
Lemma fr_rp_stm t p sq : i_stm (rp t p sq) = i_stm p. Proof. reflexivity. Qed.
Lemma fr_rp_nhm t p sq : i_nhm (rp t p sq) = i_nhm p. Proof. reflexivity. Qed.
Lemma fr_rp_hist t p sq : i_hist (rp t p sq) = i_hist p. Proof. reflexivity. Qed.
Lemma fr_rp_flag t p sq : i_flag (rp t p sq) = i_flag p. Proof. reflexivity. Qed.
Lemma fr_rp_board t p sq : i_board (rp t p sq) = put (i_board p) sq 0. Proof. reflexivity. Qed.
Lemma fr_rp_ksq t p sq : i_ksq (rp t p sq) = i_ksq p. Proof. reflexivity. Qed.
Lemma fr_mp_cr t p f to : i_cr (mp t p f to) = i_cr p. Proof. reflexivity. Qed.
Lemma fr_mp_ep t p f to : i_ep (mp t p f to) = i_ep p. Proof. reflexivity. Qed.
Lemma fr_mp_hmc t p f to : i_hmc (mp t p f to) = i_hmc p. Proof. reflexivity. Qed.
Lemma fr_mp_stm t p f to : i_stm (mp t p f to) = i_stm p. Proof. reflexivity. Qed.
Lemma fr_mp_nhm t p f to : i_nhm (mp t p f to) = i_nhm p. Proof. reflexivity. Qed.
Lemma fr_mp_hist t p f to : i_hist (mp t p f to) = i_hist p. Proof. reflexivity. Qed.
Lemma fr_mp_flag t p f to : i_flag (mp t p f to) = i_flag p. Proof. reflexivity. Qed.
Lemma fr_mp_board t p f to : i_board (mp t p f to) = put (put (i_board p) f 0) to (at_ (i_board p) f). Proof. reflexivity. Qed.
Lemma fr_mp_ksq t p f to : i_ksq (mp t p f to) = if at_ (i_board p) f mod 8 =? KING then upd (at_ (i_board p) f / 8) to (i_ksq p) else i_ksq p. Proof. reflexivity. Qed.
Lemma fr_put_raw_cr t p pc sq : i_cr (put_raw t p pc sq) = i_cr p. Proof. reflexivity. Qed.
Lemma fr_put_raw_ep t p pc sq : i_ep (put_raw t p pc sq) = i_ep p. Proof. reflexivity. Qed.
Lemma fr_put_raw_hmc t p pc sq : i_hmc (put_raw t p pc sq) = i_hmc p. Proof. reflexivity. Qed.
Lemma fr_put_raw_stm t p pc sq : i_stm (put_raw t p pc sq) = i_stm p. Proof. reflexivity. Qed.
Lemma fr_put_raw_nhm t p pc sq : i_nhm (put_raw t p pc sq) = i_nhm p. Proof. reflexivity. Qed.
Lemma fr_put_raw_hist t p pc sq : i_hist (put_raw t p pc sq) = i_hist p. Proof. reflexivity. Qed.
Lemma fr_put_raw_flag t p pc sq : i_flag (put_raw t p pc sq) = i_flag p. Proof. reflexivity. Qed.
Lemma fr_put_raw_board t p pc sq : i_board (put_raw t p pc sq) = put (i_board p) sq pc. Proof. reflexivity. Qed.
Lemma fr_put_raw_ksq t p pc sq : i_ksq (put_raw t p pc sq) = if pc mod 8 =? KING then upd (pc / 8) sq (i_ksq p) else i_ksq p. Proof. reflexivity. Qed.
Lemma fr_rem_raw_cr t p pc sq : i_cr (rem_raw t p pc sq) = i_cr p. Proof. reflexivity. Qed.
Lemma fr_rem_raw_ep t p pc sq : i_ep (rem_raw t p pc sq) = i_ep p. Proof. reflexivity. Qed.
Lemma fr_rem_raw_hmc t p pc sq : i_hmc (rem_raw t p pc sq) = i_hmc p. Proof. reflexivity. Qed.
Lemma fr_rem_raw_stm t p pc sq : i_stm (rem_raw t p pc sq) = i_stm p. Proof. reflexivity. Qed.
Lemma fr_rem_raw_nhm t p pc sq : i_nhm (rem_raw t p pc sq) = i_nhm p. Proof. reflexivity. Qed.
Lemma fr_rem_raw_hist t p pc sq : i_hist (rem_raw t p pc sq) = i_hist p. Proof. reflexivity. Qed.
Lemma fr_rem_raw_flag t p pc sq : i_flag (rem_raw t p pc sq) = i_flag p. Proof. reflexivity. Qed.
Lemma fr_rem_raw_board t p pc sq : i_board (rem_raw t p pc sq) = put (i_board p) sq 0. Proof. reflexivity. Qed.
Lemma fr_rem_raw_ksq t p pc sq : i_ksq (rem_raw t p pc sq) = i_ksq p. Proof. reflexivity. Qed.
#[export] Hint Rewrite fr_set_key_cr fr_set_key_ep fr_set_key_hmc fr_set_key_stm fr_set_key_nhm fr_set_key_hist fr_set_key_flag fr_set_key_board fr_set_key_ksq fr_set_cr_cr fr_set_cr_ep fr_set_cr_hmc fr_set_cr_stm fr_set_cr_nhm fr_set_cr_hist fr_set_cr_flag fr_set_cr_board fr_set_cr_ksq fr_set_ep_cr fr_set_ep_ep fr_set_ep_hmc fr_set_ep_stm fr_set_ep_nhm fr_set_ep_hist fr_set_ep_flag fr_set_ep_board fr_set_ep_ksq fr_set_hmc_cr fr_set_hmc_ep fr_set_hmc_hmc fr_set_hmc_stm fr_set_hmc_nhm fr_set_hmc_hist fr_set_hmc_flag fr_set_hmc_board fr_set_hmc_ksq fr_set_hist_cr fr_set_hist_ep fr_set_hist_hmc fr_set_hist_stm fr_set_hist_nhm fr_set_hist_hist fr_set_hist_flag fr_set_hist_board fr_set_hist_ksq fr_set_phase_cr fr_set_phase_ep fr_set_phase_hmc fr_set_phase_stm fr_set_phase_nhm fr_set_phase_hist fr_set_phase_flag fr_set_phase_board fr_set_phase_ksq fr_set_check_flag_cr fr_set_check_flag_ep fr_set_check_flag_hmc fr_set_check_flag_stm fr_set_check_flag_nhm fr_set_check_flag_hist fr_set_check_flag_flag fr_set_check_flag_board fr_set_check_flag_ksq fr_turn_cr fr_turn_ep fr_turn_hmc fr_turn_stm fr_turn_nhm fr_turn_hist fr_turn_flag fr_turn_board fr_turn_ksq fr_push_hist_cr fr_push_hist_ep fr_push_hist_hmc fr_push_hist_stm fr_push_hist_nhm fr_push_hist_hist fr_push_hist_flag fr_push_hist_board fr_push_hist_ksq fr_unturn_cr fr_unturn_ep fr_unturn_hmc fr_unturn_stm fr_unturn_nhm fr_unturn_hist fr_unturn_flag fr_unturn_board fr_unturn_ksq fr_restore_cr fr_restore_ep fr_restore_hmc fr_restore_stm fr_restore_nhm fr_restore_hist fr_restore_flag fr_restore_board fr_restore_ksq fr_clear_ep_cr fr_clear_ep_ep fr_clear_ep_hmc fr_clear_ep_stm fr_clear_ep_nhm fr_clear_ep_hist fr_clear_ep_flag fr_clear_ep_board fr_clear_ep_ksq fr_touch_castling_cr fr_touch_castling_ep fr_touch_castling_hmc fr_touch_castling_stm fr_touch_castling_nhm fr_touch_castling_hist fr_touch_castling_flag fr_touch_castling_board fr_touch_castling_ksq fr_drop_castling_cr fr_drop_castling_ep fr_drop_castling_hmc fr_drop_castling_stm fr_drop_castling_nhm fr_drop_castling_hist fr_drop_castling_flag fr_drop_castling_board fr_drop_castling_ksq fr_rp_cr fr_rp_ep fr_rp_hmc fr_rp_stm fr_rp_nhm fr_rp_hist fr_rp_flag fr_rp_board fr_rp_ksq fr_mp_cr fr_mp_ep fr_mp_hmc fr_mp_stm fr_mp_nhm fr_mp_hist fr_mp_flag fr_mp_board fr_mp_ksq fr_put_raw_cr fr_put_raw_ep fr_put_raw_hmc fr_put_raw_stm fr_put_raw_nhm fr_put_raw_hist fr_put_raw_flag fr_put_raw_board fr_put_raw_ksq fr_rem_raw_cr fr_rem_raw_ep fr_rem_raw_hmc fr_rem_raw_stm fr_rem_raw_nhm fr_rem_raw_hist fr_rem_raw_flag fr_rem_raw_board fr_rem_raw_ksq : fr.
Lemma fr_key_rp t p sq : i_key (rp t p sq) = N.lxor (i_key p) (zp t (at_ (i_board p) sq) sq). Proof. reflexivity. Qed.
Ltac fr := autorewrite with fr.
Ltac fr_in H := autorewrite with fr in H.

(** ** coherence only looks at the board and the board-derived fields *)
Lemma coh_fields t p q :
  i_board p = i_board q -> i_pbb p = i_pbb q -> i_occ p = i_occ q -> i_mat p = i_mat q ->
  i_matnp p = i_matnp q -> i_psqm p = i_psqm q -> i_psqe p = i_psqe q -> i_ksq p = i_ksq q ->
  Coh t p -> Coh t q.
Proof.
  intros E1 E2 E3 E4 E5 E6 E7 E8 C. destruct C.
  constructor; rewrite <- ?E1, <- ?E2, <- ?E3, <- ?E4, <- ?E5, <- ?E6, <- ?E7, <- ?E8; assumption.
Qed.

Ltac coh_triv := intro; eapply coh_fields; [..|eassumption]; nf; reflexivity.

Lemma coh_set_key t v p : Coh t p -> Coh t (set_key v p). Proof. coh_triv. Qed.
Lemma coh_set_cr t v p : Coh t p -> Coh t (set_cr v p). Proof. coh_triv. Qed.
Lemma coh_set_ep t v p : Coh t p -> Coh t (set_ep v p). Proof. coh_triv. Qed.
Lemma coh_set_hmc t v p : Coh t p -> Coh t (set_hmc v p). Proof. coh_triv. Qed.
Lemma coh_set_hist t v p : Coh t p -> Coh t (set_hist v p). Proof. coh_triv. Qed.
Lemma coh_set_flag t v p : Coh t p -> Coh t (set_check_flag v p). Proof. coh_triv. Qed.
Lemma coh_push_hist t p a b c : Coh t p -> Coh t (push_hist p a b c). Proof. coh_triv. Qed.
Lemma coh_turn t d p : Coh t p -> Coh t (turn t d p). Proof. coh_triv. Qed.
Lemma coh_unturn t r p : Coh t p -> Coh t (unturn r p). Proof. coh_triv. Qed.
Lemma coh_restore t h p : Coh t p -> Coh t (restore h p). Proof. coh_triv. Qed.
Lemma coh_clear_ep t p : Coh t p -> Coh t (clear_ep t p). Proof. coh_triv. Qed.
Lemma coh_touch t p f to : Coh t p -> Coh t (touch_castling t p f to). Proof. coh_triv. Qed.
Lemma coh_drop t p l : Coh t p -> Coh t (drop_castling t p l). Proof. coh_triv. Qed.

Lemma coh_phase_indep t g p : Coh t p -> Coh t (set_phase g p). Proof. coh_triv. Qed.

#[export] Hint Resolve coh_set_key coh_set_cr coh_set_ep coh_set_hmc coh_set_hist coh_set_flag coh_push_hist
  coh_turn coh_unturn coh_restore coh_clear_ep coh_touch coh_drop : coh.

Lemma coh_board_ok t p : Coh t p -> board_ok (i_board p).
Proof. intro C. split; [apply (c_len _ _ C)|apply (c_ok _ _ C)]. Qed.

(* at most one king per colour *)
Lemma king_unique t p s s' : Coh t p -> at_ (i_board p) s = at_ (i_board p) s' ->
  at_ (i_board p) s <> 0 -> at_ (i_board p) s mod 8 = KING -> s = s'.
Proof.
  intros C E Hnz Hk. pose proof (c_ok _ _ C s) as Ho. apply okpc_cases in Ho as [?|Ho]; [congruence|].
  assert (Hpc : at_ (i_board p) s = 8 * (at_ (i_board p) s / 8) + KING) by (unfold KING in *; lia).
  pose proof (c_ksq _ _ C (at_ (i_board p) s / 8) s ltac:(lia) Hpc) as H1.
  rewrite E in Hpc at 1.
  pose proof (c_ksq _ _ C (at_ (i_board p) s / 8) s' ltac:(lia) Hpc) as H2. congruence.
Qed.

Lemma rp_coh t p sq : Coh t p -> sq < 64 -> at_ (i_board p) sq <> 0 -> Coh t (rp t p sq).
Proof. intros. unfold rp. apply rem_raw_coh; auto. Qed.

Lemma mp_coh t p f to : Coh t p -> f < 64 -> to < 64 -> f <> to ->
  at_ (i_board p) f <> 0 -> at_ (i_board p) to = 0 -> Coh t (mp t p f to).
Proof.
  intros C Hf Ht Hne Hpc He. unfold mp.
  pose proof (c_len _ _ C) as Hl.
  apply put_raw_coh; auto.
  - apply rp_coh; auto.
  - rewrite board_rp. atp. eqbs. assumption.
  - apply (c_ok _ _ C).
  - intros Hk s. rewrite board_rp. atp.
    destruct (N.eqb_spec s f) as [->|Hsf]; [auto|].
    intro E. apply Hsf. apply (king_unique t p s f C); congruence.
Qed.

Lemma kres_rp t p sq : length (i_board p) = 64%nat -> sq < 64 -> at_ (i_board p) sq <> 0 ->
  kres t (rp t p sq) = kres t p.
Proof. intros. unfold rp. apply rem_raw_kres; auto. Qed.

Lemma kres_mp t p f to : length (i_board p) = 64%nat -> f < 64 -> to < 64 -> f <> to ->
  at_ (i_board p) f <> 0 -> at_ (i_board p) to = 0 -> kres t (mp t p f to) = kres t p.
Proof.
  intros Hl Hf Ht Hne Hpc He. unfold mp. rewrite put_raw_kres; auto.
  - apply kres_rp; auto.
  - rewrite board_rp, put_length. assumption.
  - rewrite board_rp. atp. eqbs. assumption.
Qed.

(* kres and the non-board key updates *)
Lemma kres_key_indep t p q : i_board p = i_board q -> N.lxor (kres t p) (i_key p) = N.lxor (kres t q) (i_key q).
Proof. intro E. unfold kres. rewrite E. xor_solve. Qed.

Lemma rp_phase t p sq : phval_nonneg t -> length (i_board p) = 64%nat -> sq < 64 ->
  at_ (i_board p) sq <> 0 -> PhOK t p -> PhOK t (rp t p sq).
Proof. intros. unfold rp. apply rem_raw_phase; auto. Qed.

Lemma phok_fields t p q : i_board p = i_board q -> i_phase p = i_phase q -> PhOK t p -> PhOK t q.
Proof. intros E1 E2 [H1 H2]. split; rewrite <- ?E1, <- ?E2; assumption. Qed.

Lemma mp_phase t p f to : phval_nonneg t -> length (i_board p) = 64%nat -> f < 64 -> to < 64 -> f <> to ->
  at_ (i_board p) f <> 0 -> at_ (i_board p) to = 0 -> PhOK t p -> PhOK t (mp t p f to).
Proof.
  intros Hnn Hl Hf Ht Hne Hpc He Hph. unfold mp.
  pose proof (rp_phase t p f Hnn Hl Hf Hpc Hph) as [H1 H2].
  apply put_raw_phase; auto.
  - rewrite board_rp, put_length. assumption.
  - rewrite board_rp. atp. eqbs. assumption.
  - intro Hc. rewrite board_rp. rewrite (psum_rem t p (at_ (i_board p) f) f) by auto.
    destruct Hph as [_ Hb]. specialize (Hb Hc). lia.
Qed.

Lemma upd_upd {A} c (v w : A) pr : upd c v (upd c w pr) = upd c v pr.
Proof. unfold upd. destruct (c =? 0); reflexivity. Qed.
Lemma upd_id {A} c (v : A) pr : sel c pr = v -> upd c v pr = pr.
Proof. intros <-. apply upd_sel. Qed.
Lemma upd_comm {A} c c' (v w : A) pr : c < 2 -> c' < 2 -> c <> c' -> upd c v (upd c' w pr) = upd c' w (upd c v pr).
Proof.
  intros H H' Hne. assert (c = 0 \/ c = 1) as [-> | ->] by lia;
  assert (c' = 0 \/ c' = 1) as [-> | ->] by lia; try lia; reflexivity.
Qed.

(** everything but the game phase *)
Lemma ipos_ext_nophase p q :
  i_key p = i_key q -> i_board p = i_board q -> i_cr p = i_cr q -> i_ep p = i_ep q -> i_hmc p = i_hmc q ->
  i_stm p = i_stm q -> i_ksq p = i_ksq q -> i_nhm p = i_nhm q -> i_pbb p = i_pbb q -> i_occ p = i_occ q ->
  i_hist p = i_hist q -> i_mat p = i_mat q -> i_matnp p = i_matnp q -> i_psqm p = i_psqm q ->
  i_psqe p = i_psqe q -> i_flag p = i_flag q -> set_phase (i_phase q) p = q.
Proof. destruct p, q; cbn; intros; subst; reflexivity. Qed.
