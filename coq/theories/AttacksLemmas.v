(** * AttacksLemmas: bit-level and geometric facts shared by the C09 proofs.

    - membership in [bb_of] / [bb_filter] words, non-empty intersections ([meets]);
    - the words of [view_of_spec]: piece words, occupancy;
    - ray walks: [Geom.walk] over the occupancy word = [Rules.walkb] over the board,
      fuel 7 always suffices, and the symmetric characterisation
      "t is hit from s along d  iff  s is hit from t along opp d";
    - symmetry of the leaper tables (finite checks). *)
From Coq Require Import NArith ZArith List Bool Lia ZifyN ZifyBool Btauto.
From FG Require Import Word64 Geom Tables TablesCorrect ShiftCorrect Rules BitView AttacksImpl.
Import ListNotations.
Open Scope N_scope.

(** ** booleans and lists *)
Lemma bool_eq_iff (a b : bool) : (a = true <-> b = true) -> a = b.
Proof. destruct a, b; intros [H1 H2]; try reflexivity; [symmetry; now apply H1|now apply H2]. Qed.

Lemma existsb_concat_map {A B} (P : B -> bool) (f : A -> list B) l :
  existsb P (concat (map f l)) = existsb (fun x => existsb P (f x)) l.
Proof.
  induction l as [|x l IH]; cbn [map concat existsb]; [reflexivity|].
  now rewrite existsb_app, IH.
Qed.

Lemma existsb_orb {A} (f g : A -> bool) l :
  existsb (fun x => f x || g x) l = existsb f l || existsb g l.
Proof.
  induction l as [|x l IH]; cbn [existsb]; [reflexivity|]. rewrite IH. btauto.
Qed.

Lemma existsb_ext_in {A} (f g : A -> bool) l :
  (forall x, In x l -> f x = g x) -> existsb f l = existsb g l.
Proof.
  induction l as [|x l IH]; intros H; cbn [existsb]; [reflexivity|].
  rewrite (H x (or_introl eq_refl)), IH; [reflexivity|]. intros y Hy. apply H. now right.
Qed.

Lemma existsb_eqb_In (t : N) l : existsb (N.eqb t) l = true <-> In t l.
Proof.
  rewrite existsb_exists. split.
  - intros [x [Hx E]]. apply N.eqb_eq in E. now subst.
  - intros H. exists t. split; [exact H|apply N.eqb_refl].
Qed.

Lemma existsb_In_pred {A} (P : A -> bool) l : existsb P l = true <-> exists x, In x l /\ P x = true.
Proof. apply existsb_exists. Qed.

(** ** bits of [bb_of], [bb_filter] *)
Lemma bb_of_testbit l t : N.testbit (bb_of l) t = existsb (N.eqb t) l.
Proof.
  induction l as [|x l IH]; cbn [bb_of fold_right existsb]; [apply N.bits_0|].
  fold (bb_of l). now rewrite N.lor_spec, shiftl1_testbit, IH.
Qed.

Lemma bb_filter_testbit P t : N.testbit (bb_filter P) t = (t <? 64) && P t.
Proof.
  unfold bb_filter. rewrite bb_of_testbit. apply bool_eq_iff.
  rewrite existsb_eqb_In, filter_In, in_squares64, andb_true_iff, N.ltb_lt. reflexivity.
Qed.

Lemma bb_of_lt l : (forall t, In t l -> t < 64) -> bb_of l < W64.
Proof.
  intros H. rewrite W64_pow. apply lt_pow2_of_bits. intros i Hi.
  rewrite bb_of_testbit. destruct (existsb (N.eqb i) l) eqn:E; [|reflexivity].
  apply existsb_eqb_In in E. specialize (H i E). lia.
Qed.

Lemma bb_filter_lt P : bb_filter P < W64.
Proof.
  apply bb_of_lt. intros t Ht. apply filter_In in Ht as [Ht _]. now apply in_squares64.
Qed.

Lemma meets_iff x y : meets x y = true <-> exists t, N.testbit x t = true /\ N.testbit y t = true.
Proof.
  unfold meets. rewrite negb_true_iff, N.eqb_neq. split.
  - intros H. exists (N.log2 (N.land x y)). rewrite <- andb_true_iff, <- N.land_spec.
    now apply N.bit_log2.
  - intros [t [H1 H2]] E. assert (Hb : N.testbit (N.land x y) t = true) by (rewrite N.land_spec, H1, H2; reflexivity).
    rewrite E, N.bits_0 in Hb. discriminate.
Qed.

Lemma meets_bb_of_filter l P : (forall t, In t l -> t < 64) ->
  meets (bb_of l) (bb_filter P) = existsb P l.
Proof.
  intros H. apply bool_eq_iff. rewrite meets_iff, existsb_exists. split.
  - intros [t [H1 H2]]. rewrite bb_of_testbit in H1. apply existsb_eqb_In in H1.
    rewrite bb_filter_testbit in H2. apply andb_true_iff in H2 as [_ H2]. now exists t.
  - intros [t [H1 H2]]. exists t. rewrite bb_of_testbit, bb_filter_testbit. split.
    + now apply existsb_eqb_In.
    + rewrite H2, andb_true_r. apply N.ltb_lt. now apply H.
Qed.

(** ** geometry: targets stay on the board *)
Lemma offset_lt s df dr t : offset s df dr = Some t -> t < 64.
Proof.
  unfold offset. destruct (on_board _ _) eqn:E; [|discriminate]. intros H.
  pose proof (f_equal (fun o => match o with Some x => x | None => 0 end) H) as H'.
  cbv beta iota in H'. subst t. clear H. unfold on_board in E. lia.
Qed.

Lemma In_somes {A} (l : list (option A)) x : In x (somes l) <-> In (Some x) l.
Proof.
  unfold somes. rewrite in_flat_map. split.
  - intros [[y|] [Hy Hx]]; [|destruct Hx]. destruct Hx as [<-|[]]. exact Hy.
  - intros H. exists (Some x). split; [exact H|now left].
Qed.

Lemma knight_targets_lt s t : In t (knight_targets s) -> t < 64.
Proof.
  unfold knight_targets. rewrite In_somes, in_map_iff. intros [[df dr] [E _]]. now apply offset_lt in E.
Qed.

Lemma king_targets_lt s t : In t (king_targets s) -> t < 64.
Proof.
  unfold king_targets. rewrite In_somes, in_map_iff. intros [d [E _]]. now apply step_lt in E.
Qed.

Lemma pawn_targets_lt c s t : In t (pawn_attack_targets c s) -> t < 64.
Proof.
  unfold pawn_attack_targets. destruct (c =? 0); rewrite In_somes; cbn [In];
    intros [E|[E|[]]]; now apply step_lt in E.
Qed.

Lemma walk_lt k d occ : forall s t, In t (walk k d s occ) -> t < 64.
Proof.
  induction k as [|k IH]; intros s t; cbn [walk]; [intros []|].
  destruct (step d s) as [u|] eqn:E; [|intros []]. intros [<-|H]; [now apply step_lt in E|].
  destruct (N.testbit occ u); [destruct H|]. now apply IH in H.
Qed.

(** ** the words of [view_of_spec] *)
Definition occ_of (b : list N) : N := bb_filter (fun s => negb (at_ b s =? 0)).

Definition codes_ok (b : list N) : Prop := forall s, at_ b s < 16.

Lemma occ_of_testbit b t : N.testbit (occ_of b) t = (t <? 64) && negb (at_ b t =? 0).
Proof. apply bb_filter_testbit. Qed.

Lemma occ_all_view p : codes_ok (brd p) -> occ_all (view_of_spec p) = occ_of (brd p).
Proof.
  intros Hc. apply N.bits_inj. intros t. unfold occ_all, view_of_spec. cbn [occw occb].
  unfold occ_word, occ_of. rewrite N.lor_spec, !bb_filter_testbit.
  specialize (Hc t). unfold colour_of, WHITE, BLACK.
  destruct (t <? 64); cbn [andb orb]; [|reflexivity].
  destruct (N.eqb_spec (at_ (brd p) t) 0) as [E|E]; cbn [negb andb orb]; [reflexivity|].
  assert (H : at_ (brd p) t / 8 = 0 \/ at_ (brd p) t / 8 = 1).
  { assert (at_ (brd p) t / 8 < 2) by (apply N.div_lt_upper_bound; lia). lia. }
  destruct H as [-> | ->]; reflexivity.
Qed.

Lemma pbb_view p c pt : c < 2 -> pt < 7 -> pbb (view_of_spec p) c pt = Some (piece_word (brd p) c pt).
Proof.
  intros Hc Hp. unfold pbb.
  replace (c <? 2) with true by (symmetry; now apply N.ltb_lt).
  replace (pt <? 7) with true by (symmetry; now apply N.ltb_lt). cbn [andb].
  assert (Hc' : c = 0 \/ c = 1) by lia.
  assert (Hp' : pt = 0 \/ pt = 1 \/ pt = 2 \/ pt = 3 \/ pt = 4 \/ pt = 5 \/ pt = 6) by lia.
  destruct Hc' as [-> | ->]; decompose [or] Hp'; subst pt; reflexivity.
Qed.

Lemma piece_word_testbit b c pt t : pt <> 0 ->
  N.testbit (piece_word b c pt) t = (t <? 64) && (at_ b t =? mk_piece c pt).
Proof.
  intros H. unfold piece_word. apply N.eqb_neq in H. rewrite H.
  exact (bb_filter_testbit (fun s => at_ b s =? mk_piece c pt) t).
Qed.

Lemma meets_piece_word l b c pt : pt <> 0 -> (forall t, In t l -> t < 64) ->
  meets (bb_of l) (piece_word b c pt) = existsb (fun t => is_piece b t c pt) l.
Proof.
  intros H Hl. unfold piece_word. apply N.eqb_neq in H. rewrite H.
  exact (meets_bb_of_filter l (fun s => at_ b s =? mk_piece c pt) Hl).
Qed.

Lemma board_at_view p s : length (brd p) = 64%nat -> s < 64 ->
  board_at (view_of_spec p) s = Some (at_ (brd p) s).
Proof.
  intros Hl Hs. unfold board_at, nthN, at_. cbn [vboard view_of_spec].
  destruct (nth_error (brd p) (N.to_nat s)) as [x|] eqn:E.
  - now rewrite (nth_error_nth _ _ 0 E).
  - apply nth_error_None in E. lia.
Qed.

(** ** ray walks *)
Lemma walk_walkb b d : forall k s, walk k d s (occ_of b) = walkb k b d s.
Proof.
  induction k as [|k IH]; intros s; cbn [walk walkb]; [reflexivity|].
  destruct (step d s) as [t|] eqn:E; [|reflexivity]. f_equal.
  rewrite occ_of_testbit. apply step_lt in E.
  replace (t <? 64) with true by (symmetry; now apply N.ltb_lt). cbn [andb].
  destruct (at_ b t =? 0); cbn [negb]; [apply IH|reflexivity].
Qed.

(* a path of n steps from s to t whose inner squares are free *)
Inductive cpath (occ : N) (d : dir) : nat -> N -> N -> Prop :=
| cp_one s t : step d s = Some t -> cpath occ d 1 s t
| cp_cons n s u t : step d s = Some u -> N.testbit occ u = false -> cpath occ d n u t ->
                    cpath occ d (S n) s t.

Lemma walk_cpath occ d : forall k s t,
  In t (walk k d s occ) <-> exists n, (n <= k)%nat /\ cpath occ d n s t.
Proof.
  induction k as [|k IH]; intros s t; cbn [walk].
  - split; [intros []|]. intros [n [Hn Hp]]. destruct Hp; lia.
  - split.
    + destruct (step d s) as [u|] eqn:E; [|intros []]. intros [<-|H].
      * exists 1%nat. split; [lia|now constructor].
      * destruct (N.testbit occ u) eqn:Eo; [destruct H|].
        apply IH in H as [n [Hn Hp]]. exists (S n). split; [lia|]. now apply cp_cons with u.
    + intros [n [Hn Hp]]. destruct Hp as [s t E|n s u t E Eo Hp].
      * rewrite E. now left.
      * rewrite E, Eo. right. apply IH. exists n. split; [lia|exact Hp].
Qed.

Lemma cpath_snoc occ d n s u t : cpath occ d n s u -> N.testbit occ u = false -> step d u = Some t ->
  cpath occ d (S n) s t.
Proof.
  intros Hp. induction Hp as [s u E|n s v u E Eo Hp IH]; intros Hu Et.
  - apply cp_cons with u; [exact E|exact Hu|now constructor].
  - apply cp_cons with v; [exact E|exact Eo|now apply IH].
Qed.

Lemma cpath_lt occ d n s t : cpath occ d n s t -> t < 64.
Proof. induction 1 as [s t E|]; [now apply step_lt in E|assumption]. Qed.

Lemma cpath_rev occ d n s t : s < 64 -> cpath occ d n s t -> cpath occ (opp d) n t s.
Proof.
  intros Hs Hp. induction Hp as [s t E|n s u t E Eo Hp IH].
  - constructor. assert (Ht : t < 64) by now apply step_lt in E.
    now apply (proj1 (step_opp d s t Hs Ht)).
  - assert (Hu : u < 64) by now apply step_lt in E.
    apply cpath_snoc with u; [now apply IH|exact Eo|].
    now apply (proj1 (step_opp d s u Hs Hu)).
Qed.

(* number of steps to the edge *)
Definition dist_edge (d : dir) (s : N) : nat := length (walk 7 d s 0).

Lemma dist_edge_step_check :
  forallb (fun d => forallb (fun s => match step d s with
                                      | Some t => Nat.eqb (dist_edge d s) (S (dist_edge d t))
                                      | None => true end) squares64) all_dirs = true.
Proof. vm_compute. reflexivity. Qed.

Lemma in_all_dirs d : In d all_dirs.
Proof. destruct d; cbn; tauto. Qed.

Lemma dist_edge_step d s t : s < 64 -> step d s = Some t -> dist_edge d s = S (dist_edge d t).
Proof.
  intros Hs E. pose proof dist_edge_step_check as H. rewrite forallb_forall in H.
  specialize (H d (in_all_dirs d)). pose proof (forall_squares _ H s Hs) as H'. cbv beta in H'.
  rewrite E in H'. now apply Nat.eqb_eq in H'.
Qed.

Lemma walk_length k d occ : forall s, (length (walk k d s occ) <= k)%nat.
Proof.
  induction k as [|k IH]; intros s; cbn [walk]; [cbn; lia|].
  destruct (step d s) as [u|]; [|cbn; lia]. cbn [length].
  destruct (N.testbit occ u); [cbn; lia|]. specialize (IH u). lia.
Qed.

Lemma cpath_len occ d n s t : s < 64 -> cpath occ d n s t -> (n <= dist_edge d s)%nat.
Proof.
  intros Hs Hp. induction Hp as [s t E|n s u t E Eo Hp IH].
  - rewrite (dist_edge_step d s t Hs E). lia.
  - rewrite (dist_edge_step d s u Hs E). assert (u < 64) by now apply step_lt in E.
    specialize (IH H). lia.
Qed.

Lemma cpath_le7 occ d n s t : s < 64 -> cpath occ d n s t -> (n <= 7)%nat.
Proof.
  intros Hs Hp. pose proof (cpath_len _ _ _ _ _ Hs Hp). pose proof (walk_length 7 d 0 s).
  unfold dist_edge in *. lia.
Qed.

(* t is reached from s along d (first occupied square included) *)
Definition ray_in (occ : N) (d : dir) (s t : N) : bool := existsb (N.eqb t) (walk 7 d s occ).

Lemma ray_in_cpath occ d s t : s < 64 ->
  (ray_in occ d s t = true <-> exists n, cpath occ d n s t).
Proof.
  intros Hs. unfold ray_in. rewrite existsb_eqb_In, walk_cpath. split.
  - intros [n [_ H]]. now exists n.
  - intros [n H]. exists n. split; [now apply cpath_le7 in H|exact H].
Qed.

Theorem ray_in_sym occ d s t : s < 64 -> t < 64 -> ray_in occ d s t = ray_in occ (opp d) t s.
Proof.
  intros Hs Ht. apply bool_eq_iff. rewrite !ray_in_cpath by assumption. split; intros [n H]; exists n.
  - now apply cpath_rev.
  - apply cpath_rev in H; [|exact Ht]. now destruct d.
Qed.

(* monotonicity: fewer blockers (except possibly on t itself) keep t reachable *)
Lemma walk_mono occ occ' d t : (forall u, u <> t -> N.testbit occ u = true -> N.testbit occ' u = true) ->
  forall k s, In t (walk k d s occ') -> In t (walk k d s occ).
Proof.
  intros H. induction k as [|k IH]; intros s; cbn [walk]; [intros []|].
  destruct (step d s) as [u|]; [|intros []]. intros [<-|Hin]; [now left|].
  destruct (N.eq_dec u t) as [->|Hut]; [now left|]. right.
  destruct (N.testbit occ' u) eqn:Eo'; [destruct Hin|].
  destruct (N.testbit occ u) eqn:Eo; [|now apply IH].
  rewrite (H u Hut Eo) in Eo'. discriminate.
Qed.

Lemma ray_in_mono occ occ' d s t :
  (forall u, u <> t -> N.testbit occ u = true -> N.testbit occ' u = true) ->
  ray_in occ' d s t = true -> ray_in occ d s t = true.
Proof. unfold ray_in. rewrite !existsb_eqb_In. intros H. now apply walk_mono. Qed.

(* membership in a slide word *)
Definition slide_in (occ : N) (dirs : list dir) (s t : N) : bool :=
  existsb (fun d => ray_in occ d s t) dirs.

Lemma slide_testbit dirs s occ t : N.testbit (slide dirs s occ) t = slide_in occ dirs s t.
Proof.
  unfold slide, slide_in, ray_in. now rewrite bb_of_testbit, existsb_concat_map.
Qed.

Lemma slide_lt dirs s occ : slide dirs s occ < W64.
Proof.
  unfold slide. apply bb_of_lt. intros t Ht. apply in_concat in Ht as [l [Hl Ht]].
  apply in_map_iff in Hl as [d [<- _]]. now apply walk_lt in Ht.
Qed.

Definition opp_closed (dirs : list dir) : Prop := forall d, In d dirs -> In (opp d) dirs.
Lemma rook_dirs_closed : opp_closed rook_dirs.
Proof. intros d; cbn; intuition (subst; cbn; tauto). Qed.
Lemma bishop_dirs_closed : opp_closed bishop_dirs.
Proof. intros d; cbn; intuition (subst; cbn; tauto). Qed.
Lemma all_dirs_closed : opp_closed all_dirs.
Proof. intros d _. apply in_all_dirs. Qed.
Lemma queen_dirs_closed : opp_closed (bishop_dirs ++ rook_dirs).
Proof. intros d; cbn; intuition (subst; cbn; tauto). Qed.

Lemma opp_opp d : opp (opp d) = d. Proof. now destruct d. Qed.

Theorem slide_in_sym occ dirs s t : opp_closed dirs -> s < 64 -> t < 64 ->
  slide_in occ dirs s t = slide_in occ dirs t s.
Proof.
  intros Hc Hs Ht. apply bool_eq_iff. unfold slide_in. rewrite !existsb_exists.
  split; intros [d [Hd H]]; exists (opp d); (split; [now apply Hc|]).
  - now rewrite <- ray_in_sym.
  - now rewrite <- ray_in_sym.
Qed.

(* a non-empty piece is found on a ray exactly when it is the ray's last square *)
Lemma walkb_last_hit b d pc : pc <> 0 -> forall k s,
  existsb (fun t => at_ b t =? pc) (walkb k b d s) =
  (let e := last (walkb k b d s) 64 in (e <? 64) && (at_ b e =? pc)).
Proof.
  intros Hpc. induction k as [|k IH]; intros s; cbn [walkb]; [reflexivity|].
  destruct (step d s) as [t|] eqn:E; [|reflexivity].
  assert (Ht : t < 64) by now apply step_lt in E.
  destruct (N.eqb_spec (at_ b t) 0) as [E0|E0].
  - cbn [existsb]. rewrite E0. replace (0 =? pc) with false by (symmetry; apply N.eqb_neq; congruence).
    cbn [orb]. rewrite IH. cbv zeta.
    destruct (walkb k b d t) as [|x l] eqn:Ew.
    + cbn [last]. replace (t <? 64) with true by (symmetry; now apply N.ltb_lt).
      rewrite E0. replace (0 =? pc) with false by (symmetry; apply N.eqb_neq; congruence).
      reflexivity.
    + reflexivity.
  - cbn [existsb last orb]. replace (t <? 64) with true by (symmetry; now apply N.ltb_lt).
    now rewrite orb_false_r.
Qed.

(** ** symmetry of the leaper tables (finite checks) *)
Lemma knight_sym_check :
  forallb (fun s => forallb (fun t => Bool.eqb (existsb (N.eqb t) (knight_targets s))
                                               (existsb (N.eqb s) (knight_targets t))) squares64) squares64 = true.
Proof. vm_compute. reflexivity. Qed.

Lemma king_sym_check :
  forallb (fun s => forallb (fun t => Bool.eqb (existsb (N.eqb t) (king_targets s))
                                               (existsb (N.eqb s) (king_targets t))) squares64) squares64 = true.
Proof. vm_compute. reflexivity. Qed.

Lemma pawn_sym_check :
  forallb (fun c => forallb (fun s => forallb (fun t =>
     Bool.eqb (existsb (N.eqb t) (pawn_attack_targets (flip c) s))
              (existsb (N.eqb s) (pawn_attack_targets c t))) squares64) squares64) [0; 1] = true.
Proof. vm_compute. reflexivity. Qed.

Lemma knight_sym s t : s < 64 -> t < 64 ->
  existsb (N.eqb t) (knight_targets s) = existsb (N.eqb s) (knight_targets t).
Proof.
  intros Hs Ht. pose proof (forall_squares _ (forall_squares _ knight_sym_check s Hs) t Ht) as H.
  now apply Bool.eqb_prop in H.
Qed.

Lemma king_sym s t : s < 64 -> t < 64 ->
  existsb (N.eqb t) (king_targets s) = existsb (N.eqb s) (king_targets t).
Proof.
  intros Hs Ht. pose proof (forall_squares _ (forall_squares _ king_sym_check s Hs) t Ht) as H.
  now apply Bool.eqb_prop in H.
Qed.

Lemma pawn_sym c s t : c < 2 -> s < 64 -> t < 64 ->
  existsb (N.eqb t) (pawn_attack_targets (flip c) s) = existsb (N.eqb s) (pawn_attack_targets c t).
Proof.
  intros Hc Hs Ht. pose proof pawn_sym_check as H. rewrite forallb_forall in H.
  assert (Hin : In c [0; 1]) by (cbn; lia). specialize (H c Hin).
  pose proof (forall_squares _ (forall_squares _ H s Hs) t Ht) as H'.
  now apply Bool.eqb_prop in H'.
Qed.

(** ** neighbour squares (finite checks) *)
Lemma flipc_flip c : c < 2 -> flipc c = flip c.
Proof. intros H. assert (c = 0 \/ c = 1) as [-> | ->] by lia; reflexivity. Qed.

Lemma dir_idx_eq d : dir_idx d = dir_index d. Proof. now destruct d. Qed.

Lemma sq_to_exact s d : s < 64 -> sq_to s d = Some (opt64 (step d s)).
Proof.
  intros Hs. unfold sq_to. replace (s <? 64) with true by (symmetry; now apply N.ltb_lt).
  rewrite dir_idx_eq. now apply sqto_exact.
Qed.

Lemma step_we_check :
  forallb (fun s => (opt64 (step DW s) =? (if 0 <? file_of s then s - 1 else 64)) &&
                    (opt64 (step DE s) =? (if file_of s <? 7 then s + 1 else 64))) squares64 = true.
Proof. vm_compute. reflexivity. Qed.

Lemma step_west s : s < 64 -> opt64 (step DW s) = if 0 <? file_of s then s - 1 else 64.
Proof.
  intros Hs. pose proof (forall_squares _ step_we_check s Hs) as H. cbv beta in H.
  apply andb_true_iff in H as [H _]. now apply N.eqb_eq in H.
Qed.
Lemma step_east s : s < 64 -> opt64 (step DE s) = if file_of s <? 7 then s + 1 else 64.
Proof.
  intros Hs. pose proof (forall_squares _ step_we_check s Hs) as H. cbv beta in H.
  apply andb_true_iff in H as [_ H]. now apply N.eqb_eq in H.
Qed.

Lemma step_ns_check :
  forallb (fun s => (opt64 (step DN s) =? (if s <? 56 then s + 8 else 64)) &&
                    (opt64 (step DS s) =? (if 8 <=? s then s - 8 else 64))) squares64 = true.
Proof. vm_compute. reflexivity. Qed.

Lemma step_north s : s < 64 -> opt64 (step DN s) = if s <? 56 then s + 8 else 64.
Proof.
  intros Hs. pose proof (forall_squares _ step_ns_check s Hs) as H. cbv beta in H.
  apply andb_true_iff in H as [H _]. now apply N.eqb_eq in H.
Qed.
Lemma step_south s : s < 64 -> opt64 (step DS s) = if 8 <=? s then s - 8 else 64.
Proof.
  intros Hs. pose proof (forall_squares _ step_ns_check s Hs) as H. cbv beta in H.
  apply andb_true_iff in H as [_ H]. now apply N.eqb_eq in H.
Qed.

(** ** rays as "aligned and nothing in between" *)
Definition btw (d : dir) (s t : N) : list N := removelast (walk 7 d s (N.shiftl 1 t)).
Definition free (occ u : N) : bool := negb (N.testbit occ u).

Lemma walk_nil_indep k d s occ occ2 : walk k d s occ = [] -> walk k d s occ2 = [].
Proof. destruct k; cbn [walk]; [reflexivity|]. destruct (step d s); [discriminate|reflexivity]. Qed.

Lemma walk_char occ d t : forall k s,
  existsb (N.eqb t) (walk k d s occ) =
  existsb (N.eqb t) (walk k d s 0) && forallb (free occ) (removelast (walk k d s (N.shiftl 1 t))).
Proof.
  induction k as [|k IH]; intros s; cbn [walk]; [reflexivity|].
  destruct (step d s) as [u|]; [|reflexivity].
  rewrite N.bits_0, shiftl1_testbit. cbn [existsb].
  destruct (N.eqb_spec u t) as [->|Hut].
  - rewrite N.eqb_refl. reflexivity.
  - replace (t =? u) with false by (symmetry; apply N.eqb_neq; congruence). cbn [orb].
    destruct (walk k d u (N.shiftl 1 t)) as [|x w] eqn:Ew.
    + rewrite (walk_nil_indep _ _ _ _ 0 Ew). rewrite (walk_nil_indep _ _ _ _ occ Ew).
      now destruct (N.testbit occ u).
    + change (removelast (u :: x :: w)) with (u :: removelast (x :: w)). cbn [forallb].
      specialize (IH u). rewrite Ew in IH. unfold free at 1.
      destruct (N.testbit occ u); cbn [negb andb]; [now rewrite andb_false_r|exact IH].
Qed.

Theorem ray_in_char occ d s t :
  ray_in occ d s t = ray_in 0 d s t && forallb (free occ) (btw d s t).
Proof. apply walk_char. Qed.
