(** * CasesTime: evaluation helper for the C13 correspondence run. *)
From Coq Require Import ZArith NArith List Bool.
From FG Require Import TimeCtl.
Import ListNotations.
Open Scope Z_scope.

Definition time_case (c : Z*Z*Z*Z*Z*Z*Z*N*Z) : bool :=
  let '(mt, wt, bt, wi, bi, mtg, ph, stm, obs) := c in time_case_ok mt wt bt wi bi mtg ph stm obs.

Fixpoint time_mismatches_from (i : nat) (cases : list (Z*Z*Z*Z*Z*Z*Z*N*Z)) : list nat :=
  match cases with
  | [] => []
  | c :: r => (if time_case c then [] else [i]) ++ time_mismatches_from (S i) r
  end.
Definition time_mismatches := time_mismatches_from 0.
