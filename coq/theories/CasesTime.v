(** * CasesTime: evaluation helper for the C13 correspondence run. *)
From Coq Require Import ZArith NArith List Bool.
From FG Require Import TimeCtl.
Import ListNotations.
Open Scope Z_scope.

Definition time_case (c : Z*Z*Z*Z*Z*Z*Z*N*Z) : bool :=
  let '(mt, wt, bt, wi, bi, mtg, ph, stm, obs) := c in time_case_ok mt wt bt wi bi mtg ph stm obs.

Fixpoint time_mismatches_from (i : nat) (cases : list (Z*Z*Z*Z*Z*Z*Z*N*Z)) : list nat :=
  match cases with
  | [] => []
  | c :: r => (if time_case c then [] else [i]) ++ time_mismatches_from (S i) r
  end.
Definition time_mismatches := time_mismatches_from 0.

(** Extended case of [c13-grid]: the grid point and, second component, what the engine did about
    extra time: (had_book, search_limit, search_extra, hook_limit, hook_extra), see
    [TimeCtl.extra_case_ok]. *)
Definition time_case_x (c : (Z*Z*Z*Z*Z*Z*Z*N*Z) * (bool*Z*Z*Z*Z)) : bool :=
  let '((mt, wt, bt, wi, bi, mtg, ph, stm, obs), (hb, sl, se, hl, he)) := c in
  time_case_ok mt wt bt wi bi mtg ph stm obs && extra_case_ok mt wt bt stm obs hb sl se hl he.

Fixpoint time_mismatches_x_from (i : nat) (cases : list ((Z*Z*Z*Z*Z*Z*Z*N*Z) * (bool*Z*Z*Z*Z))) : list nat :=
  match cases with
  | [] => []
  | c :: r => (if time_case_x c then [] else [i]) ++ time_mismatches_x_from (S i) r
  end.
Definition time_mismatches_x := time_mismatches_x_from 0.
