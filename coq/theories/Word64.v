(** * Word64: 64-bit machine words as [N] with explicit wrap-around. *)
From Coq Require Import NArith ZArith List Bool Lia Uint63.
Import ListNotations.
Open Scope N_scope.

Definition W64 : N := 18446744073709551616. (* 2^64 *)
Definition mask64 : N := 18446744073709551615.
Definition wrap (x : N) : N := N.land x mask64.
Definition wmul (a b : N) : N := wrap (a * b).
Definition wshl (a n : N) : N := wrap (N.shiftl a n).
Definition wnot (a : N) : N := N.lxor a mask64.

(* primitive-int pair (high 32 bits, low 32 bits) -> N ; used only under vm_compute *)
Definition n_of_int (i : int) : N := Z.to_N (Uint63.to_Z i).
Definition n_of_pair (p : int * int) : N :=
  N.lor (N.shiftl (n_of_int (fst p)) 32) (n_of_int (snd p)).

Lemma W64_pow : W64 = 2 ^ 64. Proof. reflexivity. Qed.
Lemma mask64_ones : mask64 = N.ones 64. Proof. reflexivity. Qed.

Lemma wrap_spec x : wrap x = x mod 2 ^ 64.
Proof. unfold wrap. rewrite mask64_ones. apply N.land_ones. Qed.

Lemma wrap_lt x : wrap x < W64.
Proof. rewrite wrap_spec, W64_pow. apply N.mod_lt. discriminate. Qed.

Lemma wrap_testbit x i : N.testbit (wrap x) i = (i <? 64) && N.testbit x i.
Proof.
  unfold wrap. rewrite N.land_spec, mask64_ones.
  destruct (N.ltb_spec i 64) as [H|H].
  - rewrite N.ones_spec_low by exact H. now rewrite andb_true_r.
  - rewrite N.ones_spec_high by exact H. now rewrite andb_false_r.
Qed.

Lemma testbit_lt_pow2 a n i : a < 2 ^ n -> N.testbit a i = true -> i < n.
Proof.
  intros Ha Hb. destruct (N.lt_ge_cases i n) as [H|H]; [exact H|].
  exfalso. destruct (N.eq_dec a 0) as [->|Hz]; [now rewrite N.bits_0 in Hb|].
  assert (N.log2 a < n) by (apply N.log2_lt_pow2; lia).
  rewrite N.bits_above_log2 in Hb by lia. discriminate.
Qed.

Lemma wrap_small x : x < W64 -> wrap x = x.
Proof. intros H. rewrite wrap_spec. apply N.mod_small. now rewrite <- W64_pow. Qed.
