(** * MovegenProofsODChess: the on demand generator on a chess position (C08, non-evasion).

    PROVED
    - [pseudo_code_nz]      no pseudo-legal move has the code 0 (MoveNone);
    - [od_batch_chess]      the stage lists of the on demand generator (od1 pawns, od2 officers,
                            od3 king | od5 pawns, od6 castling, od7 officers, od8 king) are, as a
                            multiset, the list of GeneratePseudoLegalMoves of the same mode;
    - [od_chess_noevasion]  for every legal position, every mode 1 / 2 / 3, every sort (any
                            permutation, e.g. every PV / killer / history / counter-move state),
                            every start state covered by [od_start_ok] (after ResetOnDemand, or
                            any state left over from a different position key):
                            the phased generator hands out exactly the moves of the batch
                            generator, each once; a set PV move that is selected for the mode
                            (movegen.go:656-675) comes first; if it belongs to the batch list it
                            is not handed out a second time; if it does not (alien PV move) it is
                            handed out nevertheless, in front of the batch list. *)
From Coq Require Import NArith ZArith List Bool Lia ZifyN ZifyBool Permutation.
From FG Require Import Word64 Geom Tables TablesCorrect ShiftCorrect Rules BitView
                       AttacksImpl AttacksLemmas MoveEnc SqListFacts MovegenImpl MovegenLemmas MovegenSpec
                       MovegenProofsOD MovegenProofsPieces MovegenProofsPawns MovegenProofsMain.
Import ListNotations.
Open Scope N_scope.

(** ** MoveNone is not a move *)
Lemma rays_in_empty b dirs s t : In t (rays_from b dirs s) -> In t (concat (map (fun d => walk 7 d s 0) dirs)).
Proof.
  unfold rays_from. intros H. apply in_concat in H as [l [Hl Ht]]. apply in_map_iff in Hl as [d [<- Hd]].
  apply in_concat. exists (walk 7 d s 0). split; [apply in_map_iff; now exists d|].
  rewrite <- walk_walkb in Ht. destruct (walk_prefix (occ_of b) d 7 s) as [r Hr]. rewrite Hr. apply in_or_app. now left.
Qed.

Lemma targets_not_self b ty s : s < 64 -> ~ In s (spec_targets b ty s).
Proof.
  intros Hs H.
  assert (G : forallb (fun s => negb (existsb (N.eqb s) (knight_targets s)) && negb (existsb (N.eqb s) (king_targets s)) &&
                                negb (existsb (N.eqb s) (concat (map (fun d => walk 7 d s 0) all_dirs)))) squares64 = true)
    by (vm_compute; reflexivity).
  pose proof (forall_squares _ G s Hs) as G'. cbv beta in G'.
  repeat (apply andb_true_iff in G' as [G' ?]).
  assert (Hall : forall dirs, (forall d, In d dirs -> In d all_dirs) -> ~ In s (rays_from b dirs s)).
  { intros dirs Hd Hin. apply rays_in_empty in Hin. apply in_concat in Hin as [l [Hl Ht]].
    apply in_map_iff in Hl as [d [<- Hdd]].
    assert (X : In s (concat (map (fun d => walk 7 d s 0) all_dirs))).
    { apply in_concat. exists (walk 7 d s 0). split; [apply in_map_iff; exists d; split; [reflexivity|now apply Hd]|exact Ht]. }
    apply existsb_eqb_In in X. now rewrite X in H0. }
  unfold spec_targets in H.
  destruct (ty =? KNIGHT); [apply existsb_eqb_In in H; now rewrite H in G'|].
  destruct (ty =? KING); [apply existsb_eqb_In in H; now rewrite H in H1|].
  destruct (ty =? ROOK); [revert H; apply Hall; intros d _; apply in_all_dirs|].
  destruct (ty =? BISHOP); [revert H; apply Hall; intros d _; apply in_all_dirs|].
  destruct (ty =? QUEEN); [revert H; apply Hall; intros d _; apply in_all_dirs|destruct H].
Qed.

Lemma pseudo_from_ne_to p m : wfp p -> In m (pseudo p) -> mfrom m <> mto m.
Proof.
  intros Hw Hm. pose proof (wf_stm p Hw) as Hc. apply (pseudo_shape p m Hw) in Hm.
  destruct Hm as [s t ty Hs Hty E Ht Hf|s m Hs E Hm|m Hm].
  - cbn [mfrom mto]. intros X. subst t. now apply (targets_not_self (brd p) ty s Hs).
  - apply (proj1 (pawn_moves_pmove false p s m)) in Hm. destruct Hm as [k Hk].
    destruct Hk as [t E1 E0 Hr|t pr E1 E0 Hr Hpr|t u E1 E0 Es E2 Eu|t Ht Een Hr|t pr Ht Een Hr Hpr|t Ht Een Ee E0];
      cbn [mfrom mto]; intros X; subst.
    + now destruct (push_geom _ _ _ Hc Hs E1) as (_ & G & _).
    + now destruct (push_geom _ _ _ Hc Hs E1) as (_ & G & _).
    + destruct (double_geom _ _ _ _ Hc Hs E1 E2) as (_ & _ & G). unfold zabs_diff in G.
      destruct (rank_of u <=? rank_of u); lia.
    + now apply (capture_geom _ _ _ Hc Hs) in Ht.
    + now apply (capture_geom _ _ _ Hc Hs) in Ht.
    + now apply (capture_geom _ _ _ Hc Hs) in Ht.
  - apply castle_moves_in in Hm as (kf & kt & rf & bit & em & Hin & _ & ->). apply castles_in in Hin. cbn [mfrom mto].
    decompose [or] Hin; match goal with X : (_, _, _, _, _) = _ |- _ => injection X as -> -> -> -> -> end; discriminate.
Qed.

Lemma pseudo_code_nz p m : wfp p -> In m (pseudo p) -> code m <> 0.
Proof.
  intros Hw Hm E. pose proof (pseudo_valid p m Hw Hm) as Hv. destruct (code_fields m Hv) as (A & B & _).
  rewrite E in A, B. apply (pseudo_from_ne_to p m Hw Hm). rewrite <- A, <- B. reflexivity.
Qed.

(* the engine's own sort (generator values, updateSortValues without history data, stable
   insertion sort) is one of the sort oracles the theorems quantify over *)
Lemma chess_sort_perm prom_nq v gp st l : Permutation (chess_sort prom_nq v gp st l) l.
Proof. unfold chess_sort. apply go_sort_perm. Qed.
Lemma simple_sort_perm st l : Permutation (simple_sort st l) l.
Proof. unfold simple_sort. apply go_sort_perm. Qed.

(** ** the stage lists *)
Section ODChess.
Variable prom_nq : bool.
Variable p : pos.
Hypothesis Hlegal : legal_pos p = true.
Variable key : N.
Variable srt : odstate -> list N -> list N.
Hypothesis srt_perm : forall st l, Permutation (srt st l) l.

Let v := view_of_spec p.
Let env := chess_env prom_nq v key srt.

(* the seven generator calls *)
Lemma stage_lists : exists P1 M1 K1 P2 C2 M2 K2,
  gen_pawn_moves prom_nq v 1 false 0 = Some P1 /\ gen_moves v 1 false 0 = Some M1 /\ gen_king_moves v 1 false = Some K1 /\
  gen_pawn_moves prom_nq v 2 false 0 = Some P2 /\ gen_castling v 2 = Some C2 /\
  gen_moves v 2 false 0 = Some M2 /\ gen_king_moves v 2 false = Some K2.
Proof.
  destruct (gen_pawn_nonquiet_exact prom_nq p Hlegal) as (P1 & H1 & _).
  destruct (gen_pawn_quiet_lists prom_nq p Hlegal) as (P2 & H2 & _).
  destruct (gen_moves_exact prom_nq p Hlegal) as [(M1 & H3 & _) (M2 & H4 & _)].
  destruct (gen_king_moves_exact prom_nq p Hlegal) as [(K1 & H5 & _) (K2 & H6 & _)].
  destruct (gen_castling_exact prom_nq p Hlegal) as (C2 & H7 & _).
  exists P1, M1, K1, P2, C2, M2, K2. auto 10.
Qed.

Lemma gen_pseudo_shape mode P1 M1 K1 P2 C2 M2 K2 :
  gen_pawn_moves prom_nq v 1 false 0 = Some P1 -> gen_moves v 1 false 0 = Some M1 -> gen_king_moves v 1 false = Some K1 ->
  gen_pawn_moves prom_nq v 2 false 0 = Some P2 -> gen_castling v 2 = Some C2 ->
  gen_moves v 2 false 0 = Some M2 -> gen_king_moves v 2 false = Some K2 ->
  gen_pseudo prom_nq v mode false =
  Some ((if has_nq mode then P1 ++ K1 ++ M1 else []) ++ (if has_q mode then P2 ++ C2 ++ K2 ++ M2 else [])) /\
  od_batch env mode false false =
  (if has_nq mode then P1 ++ M1 ++ K1 else []) ++ (if has_q mode then P2 ++ C2 ++ M2 ++ K2 else []).
Proof.
  intros H1 H2 H3 H4 H5 H6 H7. split.
  - unfold gen_pseudo. cbn [bind]. rewrite H1, H2, H3, H4, H5, H6, H7. cbn [bind].
    destruct (has_nq mode), (has_q mode); reflexivity.
  - unfold od_batch, path, tailq, stage_gen, EVT, env, chess_env, chess_stage. cbn [e_gen].
    destruct (has_nq mode), (has_q mode);
      cbn [map concat N.leb N.compare Pos.compare Pos.compare_cont N.eqb Pos.eqb orb OD_NEW OD_PV OD_1 OD_2 OD_3 OD_4 OD_5 OD_6 OD_7 OD_8 app];
      fold v; rewrite ?H1, ?H2, ?H3, ?H4, ?H5, ?H6, ?H7; cbn [unwrap app]; rewrite ?app_nil_r, <- ?app_assoc; reflexivity.
Qed.

Theorem od_batch_chess mode : exists l,
  gen_pseudo prom_nq v mode false = Some l /\ Permutation (od_batch env mode false false) l.
Proof.
  destruct stage_lists as (P1 & M1 & K1 & P2 & C2 & M2 & K2 & H1 & H2 & H3 & H4 & H5 & H6 & H7).
  destruct (gen_pseudo_shape mode _ _ _ _ _ _ _ H1 H2 H3 H4 H5 H6 H7) as [G1 G2].
  eexists. split; [exact G1|]. rewrite G2. apply Permutation_app.
  - destruct (has_nq mode); [|reflexivity]. apply Permutation_app_head. apply Permutation_app_comm.
  - destruct (has_q mode); [|reflexivity]. do 2 apply Permutation_app_head. apply Permutation_app_comm.
Qed.

(* every move of a mode list is a move of the GenAll list *)
Lemma mode_incl mode l : gen_pseudo prom_nq v mode false = Some l ->
  forall x, In x l -> exists m, In m (pseudo p) /\ code m = x.
Proof.
  intros Hl x Hx.
  destruct stage_lists as (P1 & M1 & K1 & P2 & C2 & M2 & K2 & H1 & H2 & H3 & H4 & H5 & H6 & H7).
  destruct (gen_pseudo_shape mode _ _ _ _ _ _ _ H1 H2 H3 H4 H5 H6 H7) as [G1 _].
  destruct (gen_pseudo_shape 3 _ _ _ _ _ _ _ H1 H2 H3 H4 H5 H6 H7) as [G3 _].
  destruct (pseudo_exact prom_nq p Hlegal) as (l3 & E3 & P3 & _). fold v in E3.
  rewrite G3 in E3. injection E3 as <-. rewrite G1 in Hl. injection Hl as <-.
  assert (Hin : In x ((P1 ++ K1 ++ M1) ++ P2 ++ C2 ++ K2 ++ M2)).
  { replace (has_nq 3) with true in P3 by reflexivity. replace (has_q 3) with true in P3 by reflexivity.
    apply in_app_or in Hx as [Hx|Hx]; apply in_or_app.
    - destruct (has_nq mode); [now left|destruct Hx].
    - destruct (has_q mode); [now right|destruct Hx]. }
  replace (has_nq 3) with true in P3 by reflexivity. replace (has_q 3) with true in P3 by reflexivity.
  apply (Permutation_in _ P3) in Hin. apply in_map_iff in Hin as [m [E Hm]]. now exists m.
Qed.

Lemma chess_gen_nz k : ~ In 0 (e_gen env k false 0).
Proof.
  destruct stage_lists as (P1 & M1 & K1 & P2 & C2 & M2 & K2 & H1 & H2 & H3 & H4 & H5 & H6 & H7).
  destruct (gen_pseudo_shape 3 _ _ _ _ _ _ _ H1 H2 H3 H4 H5 H6 H7) as [G3 _].
  replace (has_nq 3) with true in G3 by reflexivity. replace (has_q 3) with true in G3 by reflexivity.
  intros H0.
  assert (Hin : In 0 ((P1 ++ K1 ++ M1) ++ P2 ++ C2 ++ K2 ++ M2)).
  { unfold env, chess_env in H0. cbn [e_gen] in H0. unfold chess_stage in H0. fold v in H0.
    rewrite !in_app_iff.
    destruct (k =? OD_1); [rewrite H1 in H0; cbn [unwrap] in H0; tauto|].
    destruct (k =? OD_2); [rewrite H2 in H0; cbn [unwrap] in H0; tauto|].
    destruct (k =? OD_3); [rewrite H3 in H0; cbn [unwrap] in H0; tauto|].
    destruct (k =? OD_5); [rewrite H4 in H0; cbn [unwrap] in H0; tauto|].
    destruct (k =? OD_6); [rewrite H5 in H0; cbn [unwrap] in H0; tauto|].
    destruct (k =? OD_7); [rewrite H6 in H0; cbn [unwrap] in H0; tauto|].
    destruct (k =? OD_8); [rewrite H7 in H0; cbn [unwrap] in H0; tauto|].
    cbn [unwrap] in H0. destruct H0. }
  destruct (mode_incl 3 _ G3 0 Hin) as [m [Hm E]].
  apply (pseudo_code_nz p m (legal_wfp p Hlegal) Hm). exact E.
Qed.

Theorem od_chess_noevasion mode st : od_start_ok env st ->
  exists l st' out,
    gen_pseudo prom_nq v mode false = Some l /\
    od_drain (S (length out)) env mode false st = Some (st', out) /\
    (if pv_sel env mode (od_pv st)
     then exists out', out = od_pv st :: out' /\ Permutation out' (remove1 (od_pv st) l)
     else Permutation out l) /\
    (pv_sel env mode (od_pv st) = true -> In (od_pv st) l -> Permutation out l /\ hd 0 out = od_pv st) /\
    ((pv_sel env mode (od_pv st) = true -> In (od_pv st) l) -> NoDup out).
Proof.
  intros Hs. destruct (od_batch_chess mode) as (l & Hl & Pl).
  destruct (od_sequence_noevasion env mode srt_perm chess_gen_nz st Hs) as (st' & out & Hd & Ho & Hpv & Hnd).
  exists l, st', out. split; [exact Hl|]. split; [exact Hd|].
  assert (Hndl : NoDup l).
  { destruct (mode_lists_spec prom_nq p Hlegal) as (nq & q & E1 & E2 & _ & _ & N1 & N2).
    destruct (pseudo_exact prom_nq p Hlegal) as (l3 & E3 & _ & N3). fold v in E1, E2, E3.
    destruct stage_lists as (P1 & M1 & K1 & P2 & C2 & M2 & K2 & H1 & H2 & H3 & H4 & H5 & H6 & H7).
    destruct (gen_pseudo_shape mode _ _ _ _ _ _ _ H1 H2 H3 H4 H5 H6 H7) as [G _].
    destruct (gen_pseudo_shape 1 _ _ _ _ _ _ _ H1 H2 H3 H4 H5 H6 H7) as [G1 _].
    destruct (gen_pseudo_shape 2 _ _ _ _ _ _ _ H1 H2 H3 H4 H5 H6 H7) as [G2 _].
    destruct (gen_pseudo_shape 3 _ _ _ _ _ _ _ H1 H2 H3 H4 H5 H6 H7) as [G3 _].
    rewrite G in Hl. injection Hl as <-.
    rewrite G1 in E1. rewrite G2 in E2. rewrite G3 in E3.
    replace (has_nq 1) with true in E1 by reflexivity. replace (has_q 1) with false in E1 by reflexivity.
    replace (has_nq 2) with false in E2 by reflexivity. replace (has_q 2) with true in E2 by reflexivity.
    replace (has_nq 3) with true in E3 by reflexivity. replace (has_q 3) with true in E3 by reflexivity.
    injection E1 as <-. injection E2 as <-. injection E3 as <-. rewrite app_nil_r in N1. cbn [app] in N2.
    destruct (has_nq mode), (has_q mode); cbn [app]; rewrite ?app_nil_r; try assumption. constructor. }
  split; [|split].
  - destruct (pv_sel env mode (od_pv st)).
    + destruct Ho as (out' & E & Po). exists out'. split; [exact E|]. rewrite Po. now apply remove1_perm.
    + now rewrite Ho.
  - intros Hsel Hin. destruct (Hpv Hsel) as [A B]; [now apply (Permutation_in _ (Permutation_sym Pl))|].
    split; [now rewrite A|exact B].
  - intros Himp. apply Hnd.
    + now apply (Permutation_NoDup (Permutation_sym Pl)).
    + intros Hsel. apply (Permutation_in _ (Permutation_sym Pl)). now apply Himp.
Qed.

End ODChess.

Print Assumptions od_chess_noevasion.
