(** * CasesLib: evaluation helpers for the correspondence checks.
    The Go harness writes [cases_Cxx.v] files holding inputs together with what the real
    engine answered; these functions re-run the model on the inputs and return the list
    of disagreements (empty = model and implementation agree on every case). *)
From Coq Require Import NArith ZArith List Bool.
From FG Require Import Word64 Geom Tables.
Import ListNotations.
Open Scope N_scope.

Definition opt_eqb (o : option N) (v : N) : bool :=
  match o with Some x => x =? v | None => false end.

Definition nth_dir (i : N) : dir := nth (N.to_nat i) all_dirs DN.

(* (pt, sq, occ, observed): pt 0 = rook, 1 = bishop, 2 = queen *)
Definition c18_slider_ok (c : N * N * N * N) : bool :=
  let '(pt, sq, occ, got) := c in
  opt_eqb (if pt =? 0 then rook_attacks_impl sq occ
           else if pt =? 1 then bishop_attacks_impl sq occ
           else queen_attacks_impl sq occ) got.

Definition c18_shift_ok (c : N * N * N) : bool :=
  let '(d, b, got) := c in shift_impl b (nth_dir d) =? got.

Definition c18_mismatches (sl : list (N * N * N * N)) (sh : list (N * N * N)) :=
  (filter (fun c => negb (c18_slider_ok c)) sl, filter (fun c => negb (c18_shift_ok c)) sh).

(** strings: the harness writes FENs as Coq [string] literals (fast to parse); the models use
    byte lists *)
From Coq Require Import String Ascii.
Fixpoint str_of_string (s : string) : list N :=
  match s with
  | EmptyString => []
  | String a r => N_of_ascii a :: str_of_string r
  end.
