(** * BookLegal: the opening-book theorems (C19) closed with the real move parsers (C17).

    BookModel abstracts chess away: [resolve : key -> token -> option (move * next key)] is a
    parameter, positions are identified with their zobrist keys, and BookProofs.book_moves_legal_once
    carries the Section hypothesis [resolve_legal] ("the resolver returns only legal moves and the
    key of the successor").  Here the resolver is built from the notation models
    NotationImpl.from_uci / from_san (GetMoveFromUci / GetMoveFromSan) exactly as
    processSingleMove (openingbook.go:558-578) routes a token, [resolve_legal] is PROVED for it
    ([resolve_notation_legal], from NotationProofs.from_uci_sound / from_san_sound), and the
    theorem is re-exported without hypothesis: [book_moves_legal_once_notation].
    ([book_moves_legal_once] is the only BookProofs theorem that carried [resolve_legal];
    [book_edges_sound_notation] strengthens clause (1) of BookProofs.book_edges_sound the same way.)

    SHAPES.  BookModel's resolver is indexed by KEYS; the goroutine of the Go code holds a
    POSITION (its own position.Position, openingbook.go:345 / 525) and hands the keys before and
    after DoMove to addToBook.  BookModel.v is not edited; the adapter is
      [resolve_notation key posof]   with  [key : pos -> N]  (ZobristKey) and
                                           [posof : N -> option pos]  (which position a key stands for),
    and the theorems hold for EVERY [key] and [posof] (no hypothesis on them).  What the Go code
    really does is the position-threaded [walk_pos]; the two coincide ([walk_threaded],
    [threaded_is_resolve]) iff [posof] names, for every visited key, the visited position up to
    the clocks - possible exactly when no two visited positions that differ in placement / side /
    rights / en-passant square share a zobrist key ([NoColl]).  That is the content of BookModel's
    phrase "positions are identified with their keys".  Independent of any such assumption:
    [book_edges_legal_threaded] (every stored edge is a legal move of a position reached from
    the start position by legal moves, stored under that position's key, leading to the key of
    the successor position) for the position-threaded goroutines under every interleaving.
    [walk_ipos_eq] ties the keys to the position model: threading PosImpl.do_move and reading
    i_key gives the same steps as threading Rules.make and hashing with PosProofsA.key_of. *)
From Coq Require Import NArith ZArith List Bool Arith Lia ZifyN ZifyBool Permutation.
From FG Require Import Geom Rules FenSpec NotationImpl NotationProofs.
From FG Require BitView PosImpl PosTabs PosProofsA PosProofsB PosProofsC PosProofsE PosProofsH PosProofsJ PosProofs.
From stdpp Require Import base option fin_maps nmap.
From FG Require Import BookModel BookProofs.
Import ListNotations.
Local Open Scope N_scope.

(** ** processSingleMove (openingbook.go:558-578): routing of one token
      if regexUciMove.MatchString(s)      { move = mg.GetMoveFromUci(pos, s) }     :561-562
      else if regexSanMove.MatchString(s) { move = mg.GetMoveFromSan(pos, s) }     :563-565
      if !move.IsValid() { return error }                                          :567-569
    regexUciMove of openingbook.go:553 is NOT anchored: [BookModel.uci_pattern_in].  The second
    test uses the unanchored twin of the pattern that GetMoveFromSan itself matches anchored
    (movegen.go:497): whenever the anchored pattern matches the whole token the unanchored one
    matches too, and when the anchored one does not match GetMoveFromSan returns MoveNone anyway
    (NotationImpl.from_san: [san_find s = None -> None]); so the guard can only replace a MoveNone
    by a MoveNone and is omitted.  MoveNone / invalid = [None]. *)
Definition parse_token (p : pos) (s : BookModel.str) : option mv :=
  if uci_pattern_in s then from_uci p s else from_san p s.

Lemma parse_token_sound p s m : parse_token p s = Some m -> In m (legal p).
Proof.
  unfold parse_token. destruct (uci_pattern_in s); intros H.
  - now apply from_uci_sound in H.
  - now apply from_san_sound in H.
Qed.

(** ** move codes of legal moves are injective (any position) *)
Lemma pseudo_bounds p m : In m (pseudo p) ->
  mfrom m < 64 /\ mto m < 64 /\ mtype m < 4 /\ 3 <= mprom m <= 6.
Proof.
  intros H. destruct (pseudo_class p m H) as (Hf & Ht & _ & C). split; [exact Hf|]. split; [exact Ht|].
  unfold cls_castle, cls_simple, cls_pawn, promo_kind in C. cbv zeta in C.
  destruct C as [(A & B & _)|[(A & B & _)|(_ & [([(A & B & _)|(A & B & _)] & _)|[(A & B & _)|[([(A & B & _)|(A & B & _)] & _)|(A & B & _)]]])]];
    rewrite A; lia.
Qed.

Lemma legal_code_inj p m1 m2 : In m1 (legal p) -> In m2 (legal p) -> code m1 = code m2 -> m1 = m2.
Proof.
  intros H1 H2 E. apply legal_in_pseudo in H1, H2.
  destruct (pseudo_bounds p m1 H1) as (A1 & A2 & A3 & A4). destruct (pseudo_bounds p m2 H2) as (B1 & B2 & B3 & B4).
  unfold code in E. apply mv_eq; lia.
Qed.

Lemma find_unique {A} (f : A -> bool) (l : list A) x :
  In x l -> f x = true -> (forall y, In y l -> f y = true -> y = x) -> find f l = Some x.
Proof.
  induction l as [|a l IH]; intros Hin Hfx Hu; [destruct Hin|]. cbn [find].
  destruct (f a) eqn:Ea.
  - f_equal. apply Hu; [now left|exact Ea].
  - destruct Hin as [->|Hin]; [congruence|]. apply IH; [exact Hin|exact Hfx|].
    intros y Hy. apply Hu. now right.
Qed.

(* the legal move with a given code *)
Definition move_of (p : pos) (c : N) : option mv := find (fun m => code m =? c) (legal p).

Lemma move_of_code p m : In m (legal p) -> move_of p (code m) = Some m.
Proof.
  intros H. apply find_unique; [exact H|apply N.eqb_refl|].
  intros y Hy E. apply N.eqb_eq in E. now apply (legal_code_inj p).
Qed.

(** ** the adapter: BookModel's key-indexed resolver from the notation parsers *)
Definition resolve_notation (key : pos -> N) (posof : N -> option pos) (k : N) (t : BookModel.str)
  : option (N * N) :=
  match posof k with
  | Some p => match parse_token p t with
              | Some m => Some (code m, key (make p m))     (* uint32(move), key after DoMove: :571-575 *)
              | None => None
              end
  | None => None
  end.

(* "mv is (the code of) a legal move of the position that key k stands for" *)
Definition legal_at (posof : N -> option pos) (k mv : N) : Prop :=
  exists p m, posof k = Some p /\ In m (legal p) /\ mv = code m.
(* "the key after making it" *)
Definition succ_at (key : pos -> N) (posof : N -> option pos) (k mv : N) : N :=
  match posof k with
  | Some p => match move_of p mv with Some m => key (make p m) | None => 0 end
  | None => 0
  end.

(** the Section hypothesis of BookProofs.Legal, proved *)
Theorem resolve_notation_legal key posof : forall k t mv nk,
  resolve_notation key posof k t = Some (mv, nk) -> legal_at posof k mv /\ nk = succ_at key posof k mv.
Proof.
  intros k t mv nk. unfold resolve_notation, succ_at. destruct (posof k) as [p|] eqn:Ep; [|discriminate].
  destruct (parse_token p t) as [m|] eqn:Em; [|discriminate]. intros H. injection H as <- <-.
  pose proof (parse_token_sound p t m Em) as Hm. split.
  - exists p, m. rewrite Ep. auto.
  - now rewrite move_of_code.
Qed.

(** ** C19 legality, closed *)
Theorem book_moves_legal_once_notation key posof root (games : list (option (list BookModel.str))) sched b :
  Interleave (map (game_steps (resolve_notation key posof) root) games) sched ->
  run root sched (init_book root) = Some b ->
  forall k e, b !! k = Some e ->
    (forall mv nk, In (mv, nk) (succs e) ->
       legal_at posof k mv /\ nk = succ_at key posof k mv /\ is_Some (b !! nk)) /\
    (forall i j mv n1 n2, nth_error (succs e) i = Some (mv, n1) ->
                          nth_error (succs e) j = Some (mv, n2) -> i = j).
Proof.
  exact (book_moves_legal_once (resolve_notation key posof) (legal_at posof) (succ_at key posof)
           (resolve_notation_legal key posof) root games sched b).
Qed.

(* clause (1) of book_edges_sound with the chess content spelled out *)
Theorem book_edges_sound_notation key posof root (games : list (option (list BookModel.str))) sched b :
  Interleave (map (game_steps (resolve_notation key posof) root) games) sched ->
  run root sched (init_book root) = Some b ->
  forall k e mv nk, b !! k = Some e -> In (mv, nk) (succs e) ->
    (exists g t p m, In g games /\ In (SAdd k nk mv) (game_steps (resolve_notation key posof) root g) /\
        posof k = Some p /\ parse_token p t = Some m /\ In m (legal p) /\
        mv = code m /\ nk = key (make p m)) /\
    is_Some (b !! nk) /\ nk <> root.
Proof.
  intros Hil Hrun k e mv nk Hk Hin.
  destruct (book_edges_sound _ root games sched b Hil Hrun) as (Hsrc & _).
  destruct (Hsrc k e mv nk Hk Hin) as ((g & t & Hg & Hs & Hr) & Hb & Hne). split; [|auto].
  exists g, t. unfold resolve_notation in Hr. destruct (posof k) as [p|]; [|discriminate].
  destruct (parse_token p t) as [m|] eqn:Em; [|discriminate]. injection Hr as <- <-.
  exists p, m. repeat split; auto. now apply (parse_token_sound p t).
Qed.

(** ** what the goroutine really does: the position is threaded, the keys are read off it *)
Fixpoint walk_pos (key : pos -> N) (p : pos) (toks : list BookModel.str) : list BookModel.step :=
  match toks with
  | [] => []
  | t :: ts => match parse_token p t with
               | Some m => SAdd (key p) (key (make p m)) (code m) :: walk_pos key (make p m) ts
               | None => []                                  (* openingbook.go:364-369 / 543-549: break *)
               end
  end.

Definition game_steps_pos (key : pos -> N) (start : pos) (g : option (list BookModel.str)) : list BookModel.step :=
  match g with
  | None => []
  | Some toks => SRoot :: walk_pos key start toks
  end.

(* positions reached from [start] by legal moves *)
Inductive on_path (start : pos) : pos -> Prop :=
| op_start : on_path start start
| op_step p m : on_path start p -> In m (legal p) -> on_path start (make p m).

Lemma walk_pos_in key start c n mv toks : forall p, on_path start p ->
  In (SAdd c n mv) (walk_pos key p toks) ->
  exists q m t, on_path start q /\ c = key q /\ parse_token q t = Some m /\ In m (legal q) /\
                mv = code m /\ n = key (make q m).
Proof.
  induction toks as [|t ts IH]; intros p Hp Hin; cbn [walk_pos] in Hin; [destruct Hin|].
  destruct (parse_token p t) as [m|] eqn:Em; [|destruct Hin].
  pose proof (parse_token_sound p t m Em) as Hm.
  destruct Hin as [E|Hin].
  - injection E as <- <- <-. exists p, m, t. auto 10.
  - apply (IH (make p m)); [now apply op_step|exact Hin].
Qed.

(** C19 legality for the position-threaded goroutines, under EVERY interleaving, with no
    assumption about zobrist collisions: each stored edge is a legal move of a position that is
    reachable from the start position by legal moves, is stored under that position's key and
    links to the key of the successor position; the linked entry exists *)
Theorem book_edges_legal_threaded key start (games : list (option (list BookModel.str))) sched b :
  Interleave (map (game_steps_pos key start) games) sched ->
  run (key start) sched (init_book (key start)) = Some b ->
  forall k e mv nk, b !! k = Some e -> In (mv, nk) (succs e) ->
    (exists q m t, on_path start q /\ k = key q /\ parse_token q t = Some m /\ In m (legal q) /\
                   mv = code m /\ nk = key (make q m)) /\
    is_Some (b !! nk) /\ nk <> key start.
Proof.
  intros Hil Hrun k e mv nk Hk Hin.
  pose proof (edge_run (key start) sched [] _ _ (EdgeInv_init (key start)) Hrun) as [_ Hsrc _ _].
  cbn [app] in Hsrc. destruct (Hsrc k e mv nk Hk Hin) as (Hs & Hb & Hne). split; [|auto].
  apply (Permutation_in _ (interleave_perm _ _ Hil)) in Hs.
  apply in_concat in Hs as (l & Hl & Hs). apply in_map_iff in Hl as (g & <- & Hg).
  destruct g as [toks|]; cbn [game_steps_pos] in Hs; [|destruct Hs].
  destruct Hs as [Hs|Hs]; [discriminate|].
  exact (walk_pos_in key start k nk mv toks start (op_start start) Hs).
Qed.

(** ** the adapter is the threaded behaviour when keys identify positions up to the clocks *)
(* the part of a position the zobrist key, the legal moves and the parsers depend on *)
Definition core (p : pos) : pos := mkpos (brd p) (stm p) (cr p) (ep p) 0 0.

Lemma parse_token_core p s : parse_token (core p) s = parse_token p s.
Proof. reflexivity. Qed.
Lemma make_core p m : core (make (core p) m) = core (make p m).
Proof. reflexivity. Qed.
Lemma legal_core p : legal (core p) = legal p.
Proof. reflexivity. Qed.

(* a key function that ignores the clocks (true of the zobrist key: [key_of_core]) *)
Definition key_ignores_clocks (key : pos -> N) : Prop := forall q, key (core q) = key q.

Lemma key_of_core t : key_ignores_clocks (PosProofsA.key_of t).
Proof. intros q. reflexivity. Qed.

(* [posof] names the visited positions along the line *)
Fixpoint coherent (key : pos -> N) (posof : N -> option pos) (p : pos) (toks : list BookModel.str) : Prop :=
  match toks with
  | [] => True
  | t :: ts => posof (key p) = Some (core p) /\
               match parse_token p t with
               | Some m => coherent key posof (make p m) ts
               | None => True
               end
  end.

Lemma walk_threaded key posof : key_ignores_clocks key -> forall toks p,
  coherent key posof p toks -> BookModel.walk (resolve_notation key posof) (key p) toks = walk_pos key p toks.
Proof.
  intros Hkey. induction toks as [|t ts IH]; intros p Hc; [reflexivity|].
  destruct Hc as [Hp Hc]. cbn [BookModel.walk walk_pos]. unfold resolve_notation at 1. rewrite Hp, parse_token_core.
  destruct (parse_token p t) as [m|]; [|reflexivity].
  assert (E : key (make (core p) m) = key (make p m))
    by (rewrite <- (Hkey (make (core p) m)), make_core; apply Hkey).
  rewrite E. f_equal. now apply IH.
Qed.

(* the canonical [posof]: look the key up among the visited positions *)
Definition posof_of (key : pos -> N) (ps : list pos) (k : N) : option pos :=
  match find (fun p => key p =? k) ps with Some p => Some (core p) | None => None end.

(* no zobrist collision among the positions [ps] *)
Definition NoColl (key : pos -> N) (ps : list pos) : Prop :=
  forall p q, In p ps -> In q ps -> key p = key q -> core p = core q.

Lemma posof_of_coherent key ps p : NoColl key ps -> In p ps -> posof_of key ps (key p) = Some (core p).
Proof.
  intros Hn Hp. unfold posof_of. destruct (find (fun q => key q =? key p) ps) as [q|] eqn:E.
  - apply find_some in E as [Hq Ek]. apply N.eqb_eq in Ek. f_equal. now apply Hn.
  - pose proof (find_none _ _ E p Hp) as H. cbv beta in H. rewrite N.eqb_refl in H. discriminate.
Qed.

(* the positions a line visits (the last one included) *)
Fixpoint path_pos (p : pos) (toks : list BookModel.str) : list pos :=
  p :: match toks with
       | [] => []
       | t :: ts => match parse_token p t with Some m => path_pos (make p m) ts | None => [] end
       end.
Definition visited (start : pos) (games : list (option (list BookModel.str))) : list pos :=
  flat_map (fun g => match g with Some toks => path_pos start toks | None => [] end) games.

Lemma path_pos_head p toks : In p (path_pos p toks).
Proof. destruct toks; now left. Qed.

Lemma coherent_of_nocoll key ps : NoColl key ps -> forall toks p,
  (forall q, In q (path_pos p toks) -> In q ps) -> coherent key (posof_of key ps) p toks.
Proof.
  intros Hn. induction toks as [|t ts IH]; intros p Hsub; [exact I|]. cbn [coherent]. split.
  - apply posof_of_coherent; [exact Hn|]. apply Hsub, path_pos_head.
  - destruct (parse_token p t) as [m|] eqn:Em; [|exact I]. apply IH. intros q Hq. apply Hsub.
    cbn [path_pos]. rewrite Em. now right.
Qed.

Theorem threaded_is_resolve key start games :
  key_ignores_clocks key -> NoColl key (visited start games) ->
  map (game_steps (resolve_notation key (posof_of key (visited start games))) (key start)) games
  = map (game_steps_pos key start) games.
Proof.
  intros Hkey Hn. apply map_ext_in. intros [toks|] Hg; [|reflexivity].
  cbn [game_steps game_steps_pos]. f_equal. apply walk_threaded; [exact Hkey|].
  apply coherent_of_nocoll; [exact Hn|]. intros q Hq. unfold visited. apply in_flat_map.
  exists (Some toks). split; [exact Hg|exact Hq].
Qed.

(* hence, for the position-threaded goroutines: the full statement of book_moves_legal_once,
   including "offered only once", when no visited positions collide *)
Corollary book_moves_legal_once_threaded key start games sched b :
  key_ignores_clocks key -> NoColl key (visited start games) ->
  let posof := posof_of key (visited start games) in
  Interleave (map (game_steps_pos key start) games) sched ->
  run (key start) sched (init_book (key start)) = Some b ->
  forall k e, b !! k = Some e ->
    (forall mv nk, In (mv, nk) (succs e) ->
       legal_at posof k mv /\ nk = succ_at key posof k mv /\ is_Some (b !! nk)) /\
    (forall i j mv n1 n2, nth_error (succs e) i = Some (mv, n1) ->
                          nth_error (succs e) j = Some (mv, n2) -> i = j).
Proof.
  intros Hkey Hn posof Hil Hrun. rewrite <- (threaded_is_resolve key start games Hkey Hn) in Hil.
  exact (book_moves_legal_once_notation key posof (key start) games sched b Hil Hrun).
Qed.

(* a checkable form of NoColl *)
Definition core_eqb (p q : pos) : bool :=
  BitView.listN_eqb (brd p) (brd q) && (stm p =? stm q) && (cr p =? cr q) && (ep p =? ep q).
Definition nocollb (key : pos -> N) (ps : list pos) : bool :=
  forallb (fun p => forallb (fun q => negb (key p =? key q) || core_eqb p q) ps) ps.

Lemma core_eqb_sound p q : core_eqb p q = true -> core p = core q.
Proof.
  unfold core_eqb, core. rewrite !andb_true_iff. intros (((H1 & H2) & H3) & H4).
  apply BitView.listN_eqb_eq in H1. apply N.eqb_eq in H2, H3, H4. now rewrite H1, H2, H3, H4.
Qed.

Lemma nocollb_sound key ps : nocollb key ps = true -> NoColl key ps.
Proof.
  unfold nocollb. intros H p q Hp Hq E. rewrite forallb_forall in H. specialize (H p Hp). cbv beta in H.
  rewrite forallb_forall in H. specialize (H q Hq). cbv beta in H. rewrite E, N.eqb_refl in H.
  now apply core_eqb_sound.
Qed.

(** ** the keys are the position model's zobristKey: threading PosImpl.do_move and reading
    i_key (what posPtr.DoMove / posPtr.ZobristKey() do, openingbook.go:571-573) yields the same
    steps as threading Rules.make and hashing with key_of (C02 + C04) *)
Fixpoint walk_ipos (t : PosImpl.tabs) (ip : PosImpl.ipos) (toks : list BookModel.str) : list BookModel.step :=
  match toks with
  | [] => []
  | tk :: ts =>
    match parse_token (PosImpl.abs ip) tk with
    | Some m => match PosImpl.do_move t ip (code m) with
                | Some ip' => SAdd (PosImpl.i_key ip) (PosImpl.i_key ip') (code m) :: walk_ipos t ip' ts
                | None => []           (* DoMove panics: excluded by [walk_ipos_eq] *)
                end
    | None => []
    end
  end.

Theorem walk_ipos_eq t : forall toks ip, PosProofs.Reach t ip ->
  (length (PosImpl.i_hist ip) + length toks <= 512)%nat ->
  walk_ipos t ip toks = walk_pos (PosProofsA.key_of t) (PosImpl.abs ip) toks.
Proof.
  induction toks as [|tk ts IH]; intros ip R Hlen; [reflexivity|]. cbn [walk_ipos walk_pos].
  destruct (parse_token (PosImpl.abs ip) tk) as [m|] eqn:Em; [|reflexivity].
  pose proof (parse_token_sound _ _ _ Em) as Hm.
  destruct (PosProofs.reach_inv t ip R) as [W K].
  assert (Hroom : PosProofsC.room ip) by (unfold PosProofsC.room, PosImpl.MaxHistory; cbn [length] in Hlen; lia).
  pose proof (PosProofsH.pseudo_move_ok t ip W m (PosProofsJ.legal_pseudo _ _ Hm)) as Hmo.
  destruct (PosProofsE.do_move_refines t ip m W Hmo Hroom) as [Hdo Habs].
  rewrite Hdo.
  assert (R' : PosProofs.Reach t (PosProofsB.do_move_raw t ip (code m))) by (apply PosProofs.R_do; assumption).
  destruct (PosProofs.reach_inv t _ R') as [_ K'].
  apply PosProofsC.KeyOK_key_of in K, K'. rewrite K, K', Habs. f_equal.
  rewrite <- Habs. apply IH; [exact R'|].
  rewrite PosProofsE.do_move_raw_hist. cbn [length] in *. lia.
Qed.

(** ** Non-vacuity (real zobrist tables, start position, by computation) *)
Definition tok_e2e4 : BookModel.str := [101;50;101;52].
Definition tok_e7e5 : BookModel.str := [101;55;101;53].
Definition tok_e2e3 : BookModel.str := [101;50;101;51].
Definition tok_e7e6 : BookModel.str := [101;55;101;54].
Definition tok_e3 : BookModel.str := [101;51].
Definition tok_e6 : BookModel.str := [101;54].
Definition tok_g1f3 : BookModel.str := [103;49;102;51].
Definition tok_e4 : BookModel.str := [101;52].
Definition tok_e5 : BookModel.str := [101;53].
Definition tok_Nf3 : BookModel.str := [78;102;51].
Definition tok_Ng1f3 : BookModel.str := [78;103;49;102;51].

(* routing: coordinate tokens go to GetMoveFromUci, the others to GetMoveFromSan; a fully
   disambiguated SAN move contains a coordinate pair, goes to the UCI parser and is unreadable *)
Example parse_token_examples :
  parse_token start_pos tok_e2e4 = Some (mkmv 12 28 NORMAL 3) /\
  parse_token start_pos tok_e4 = Some (mkmv 12 28 NORMAL 3) /\
  parse_token start_pos tok_Nf3 = Some (mkmv 6 21 NORMAL 3) /\
  parse_token start_pos tok_Ng1f3 = None /\
  parse_token start_pos tok_e5 = None.
Proof. vm_compute. repeat split; reflexivity. Qed.

Definition rkey : pos -> N := PosProofsA.key_of PosTabs.real_tabs.
(* 1.e3 e6 2.Nf3 in coordinates, and the transposition 1.Nf3 e6 2.e3 in SAN: the two final
   positions differ in the half-move clock only and share their key (with double pushes they
   would not: the en-passant square, which DoMove sets on every double push, is hashed) *)
Definition ex_lines : list (option (list BookModel.str)) :=
  [Some [tok_e2e3; tok_e7e6; tok_g1f3]; Some [tok_Nf3; tok_e6; tok_e3]; None].

Example ex_lines_nocoll :
  nocollb rkey (visited start_pos ex_lines) = true /\ length (visited start_pos ex_lines) = 8%nat /\
  match map (fun g => List.last (match g with Some toks => path_pos start_pos toks | None => [] end) start_pos) ex_lines with
  | [p1; p2; _] => (rkey p1 =? rkey p2) && negb (hmc p1 =? hmc p2) && core_eqb p1 p2
  | _ => false end = true.
Proof. vm_compute. repeat split; reflexivity. Qed.

Example ex_lines_steps :
  map (fun g => length (game_steps_pos rkey start_pos g)) ex_lines = [4; 4; 0]%nat.
Proof. vm_compute. reflexivity. Qed.

(* the sequential build of this book exists, its root offers e2e3 (788) and g1f3 (405), and
   the closed theorems apply to it *)
Example book_legal_ex :
  let sched := concat (map (game_steps_pos rkey start_pos) ex_lines) in
  let posof := posof_of rkey (visited start_pos ex_lines) in
  exists b e, run (rkey start_pos) sched (init_book (rkey start_pos)) = Some b /\
    b !! (rkey start_pos) = Some e /\ map fst (succs e) = [788; 405] /\
    (forall k e' mv nk, b !! k = Some e' -> In (mv, nk) (succs e') ->
       legal_at posof k mv /\ nk = succ_at rkey posof k mv /\ is_Some (b !! nk)) /\
    legal_at posof (rkey start_pos) 788.
Proof.
  intros sched posof.
  assert (Hn : NoColl rkey (visited start_pos ex_lines)) by (apply nocollb_sound; vm_compute; reflexivity).
  assert (Hil : Interleave (map (game_steps_pos rkey start_pos) ex_lines) sched) by apply interleave_concat.
  destruct (run (rkey start_pos) sched (init_book (rkey start_pos))) as [b|] eqn:Hrun;
    [|exfalso; vm_compute in Hrun; discriminate Hrun].
  assert (Hroot : option_map (fun b0 : Nmap entry => option_map (fun e0 => map fst (succs e0)) (b0 !! rkey start_pos))
                    (run (rkey start_pos) sched (init_book (rkey start_pos))) = Some (Some [788; 405]))
    by (vm_compute; reflexivity).
  rewrite Hrun in Hroot. cbn [option_map] in Hroot.
  destruct (b !! rkey start_pos) as [e|] eqn:He; [|discriminate Hroot]. cbn [option_map] in Hroot.
  exists b, e. split; [reflexivity|]. split; [exact He|]. split; [congruence|].
  pose proof (book_moves_legal_once_threaded rkey start_pos ex_lines sched b (key_of_core _) Hn Hil Hrun) as H.
  cbv zeta in H. fold posof in H. split.
  - intros k e' mv nk Hk Hin. exact (proj1 (H k e' Hk) mv nk Hin).
  - apply (proj1 (H _ e He) 788 (snd (hd (0, 0) (succs e)))).
    destruct (succs e) as [|[m1 n1] r]; [discriminate Hroot|]. cbn in Hroot. left. cbn. congruence.
Qed.

(* the position model's zobristKey along a line: the same steps *)
Example walk_ipos_ex :
  walk_ipos PosTabs.real_tabs (PosImpl.setup_of_spec PosTabs.real_tabs start_pos) [tok_e4; tok_e5; tok_Nf3]
  = walk_pos rkey start_pos [tok_e4; tok_e5; tok_Nf3] /\
  length (walk_pos rkey start_pos [tok_e4; tok_e5; tok_Nf3]) = 3%nat.
Proof. vm_compute. split; reflexivity. Qed.

(** ** Executable checker for the correspondence run.
    [book_notation_case_ok f lines root observed]
    - [f], [lines] : the book file (format, its lines as byte lists; Pgn: all lines of the file);
    - [root]       : Book.rootEntry of the real book after Initialize;
    - [observed]   : the real book, one ((key, Counter), [(Move, NextEntry); ...]) per map entry,
                     any order (the argument convention of BookModel.book_case_ok).
    The games are NOT taken from the engine: they are computed by the model - the readers of
    BookModel (tokens), [parse_token] (GetMoveFromUci / GetMoveFromSan over Rules.legal), Rules.make
    and the zobrist hash of the dumped tables - and BookModel.book_case_ok compares the real book
    with the specification of those games (keys, counters, edges).
    Validated against the engine (San file of 16 lines: plain and decorated SAN, coordinate tokens
    inside a SAN file, a fully disambiguated SAN token, castling, promotion, en passant, glued
    junk, a line without move number: 99 entries, all equal). *)
Definition to_ostep (s : BookModel.step) : list ostep :=
  match s with SAdd c n m => [(c, n, m)] | SRoot => [] end.
Definition model_games_of (f : format) (lines : list BookModel.str) : list (list ostep) :=
  flat_map (fun g => match g with
                     | Some toks => [flat_map to_ostep (walk_pos rkey start_pos toks)]
                     | None => [] end) (file_games f lines).
Definition book_notation_case_ok (f : format) (lines : list BookModel.str) (root : N) (observed : list oentry) : bool :=
  (rkey start_pos =? root) && book_case_ok root (model_games_of f lines) observed.

(** ** Collision freedom, checked per tested book (design/12, item 11).
    [NoColl] is a hypothesis of [threaded_is_resolve] / [book_moves_legal_once_threaded]; it cannot
    be proved for all books (two positions may share a 64-bit key) but it is decidable for a given
    one.  The correspondence run (verifh c19-cases) writes, for every generated collection,
      [toks]  : the coordinate tokens of every game as the Simple book file carries them (an
                illegal tail included),
      [fens]  : the positions the ENGINE visited while replaying the games (start position
                included, game by game), as FENs,
    next to the [games] (keys before / after DoMove and the move, from the engine) and the real
    book.  [book_visited_case_ok] walks the tokens with the MODEL (parse_token, Rules.make, the
    zobrist key of the dumped tables) and checks
      - no two visited positions that differ in placement / side / rights / en-passant square
        share a key                                                        ([nocollb], the hypothesis),
      - the model's steps are the engine's steps (same keys, same move codes, same line ends),
      - the model's visited positions are the engine's, clocks included.
    One pass: [walk_both] returns the visited positions with their keys and the steps. *)
Fixpoint walk_both (key : pos -> N) (p : pos) (kp : N) (toks : list BookModel.str)
  : list (pos * N) * list BookModel.step :=
  match toks with
  | [] => ([(p, kp)], [])
  | t :: ts =>
      match parse_token p t with
      | Some m =>
          let q := make p m in let kq := key q in
          let r := walk_both key q kq ts in
          ((p, kp) :: fst r, SAdd kp kq (code m) :: snd r)
      | None => ([(p, kp)], [])
      end
  end.

Lemma walk_both_spec key : forall toks p,
  walk_both key p (key p) toks = (map (fun q => (q, key q)) (path_pos p toks), walk_pos key p toks).
Proof.
  induction toks as [|t ts IH]; intros p; cbn [walk_both path_pos walk_pos map]; [reflexivity|].
  destruct (parse_token p t) as [m|]; [|reflexivity]. cbv zeta. rewrite IH. reflexivity.
Qed.

Definition nocollb_keyed (l : list (pos * N)) : bool :=
  forallb (fun a => forallb (fun b => negb (snd a =? snd b) || core_eqb (fst a) (fst b)) l) l.

Lemma forallb_map {A B} (f : B -> bool) (g : A -> B) l : forallb f (map g l) = forallb (fun x => f (g x)) l.
Proof. induction l as [|a l IH]; [reflexivity|]. cbn [map forallb]. now rewrite IH. Qed.

Lemma forallb_ext' {A} (f g : A -> bool) l : (forall x, f x = g x) -> forallb f l = forallb g l.
Proof. intros H. induction l as [|a l IH]; [reflexivity|]. cbn [forallb]. now rewrite H, IH. Qed.

Lemma nocollb_keyed_spec key ps : nocollb_keyed (map (fun q => (q, key q)) ps) = nocollb key ps.
Proof.
  unfold nocollb_keyed, nocollb. rewrite forallb_map. apply forallb_ext'. intros p. cbn [fst snd].
  rewrite forallb_map. reflexivity.
Qed.

(* full equality of positions, clocks included *)
Definition pos_eqb (p q : pos) : bool := core_eqb p q && (hmc p =? hmc q) && (fmn p =? fmn q).
Lemma pos_eqb_sound p q : pos_eqb p q = true -> p = q.
Proof.
  unfold pos_eqb, core_eqb. rewrite !andb_true_iff. intros (((((H1 & H2) & H3) & H4) & H5) & H6).
  apply BitView.listN_eqb_eq in H1. apply N.eqb_eq in H2, H3, H4, H5, H6.
  destruct p, q. cbn in *. now subst.
Qed.

Fixpoint all2b {A B} (f : A -> B -> bool) (l : list A) (r : list B) : bool :=
  match l, r with
  | [], [] => true
  | a :: l', b :: r' => f a b && all2b f l' r'
  | _, _ => false
  end.
Lemma all2b_sound {A B} (f : A -> B -> bool) (g : B -> option A) :
  (forall a b, f a b = true -> g b = Some a) ->
  forall l r, all2b f l r = true -> map g r = map Some l.
Proof.
  intros H. induction l as [|a l IH]; intros [|b r] E; cbn [all2b] in E; try discriminate; [reflexivity|].
  apply andb_true_iff in E as [E1 E2]. cbn [map]. now rewrite (H _ _ E1), (IH _ E2).
Qed.

Definition ostep_eqb (a b : ostep) : bool :=
  let '(c1, n1, m1) := a in let '(c2, n2, m2) := b in (c1 =? c2) && (n1 =? n2) && (m1 =? m2).
Lemma ostep_eqb_sound a b : ostep_eqb a b = true -> b = a.
Proof.
  destruct a as [[c1 n1] m1], b as [[c2 n2] m2]. unfold ostep_eqb. rewrite !andb_true_iff.
  intros [[H1 H2] H3]. apply N.eqb_eq in H1, H2, H3. now subst.
Qed.
Lemma all2b_eq {A} (f : A -> A -> bool) : (forall a b, f a b = true -> b = a) ->
  forall l r, all2b f l r = true -> r = l.
Proof.
  intros H. induction l as [|a l IH]; intros [|b r] E; cbn [all2b] in E; try discriminate; [reflexivity|].
  apply andb_true_iff in E as [E1 E2]. now rewrite (H _ _ E1), (IH _ E2).
Qed.

Definition fen_is (p : pos) (fen : FenSpec.str) : bool :=
  match FenSpec.parse fen with Some q => pos_eqb p q | None => false end.

Definition book_visited_case_ok (games : list (list ostep)) (toks : list (list BookModel.str))
                                (fens : list FenSpec.str) : bool :=
  let k0 := rkey start_pos in
  let both := map (walk_both rkey start_pos k0) toks in
  let vis := flat_map fst both in
  nocollb_keyed vis
  && all2b (all2b ostep_eqb) (map (fun r => flat_map to_ostep (snd r)) both) games
  && all2b fen_is (map fst vis) fens.

Lemma visited_some start toks :
  visited start (map Some toks) = flat_map (path_pos start) toks.
Proof. unfold visited. induction toks as [|t ts IH]; [reflexivity|]. cbn [map flat_map]. now rewrite IH. Qed.

Lemma both_vis toks :
  flat_map fst (map (walk_both rkey start_pos (rkey start_pos)) toks)
  = map (fun q => (q, rkey q)) (visited start_pos (map Some toks)).
Proof.
  rewrite visited_some. induction toks as [|t ts IH]; [reflexivity|].
  cbn [map flat_map]. rewrite IH, walk_both_spec, map_app. reflexivity.
Qed.

(* what a passed check means: the hypothesis of the threaded theorems holds for these games, the
   model's steps are the recorded steps of the engine, and the visited positions are the
   engine's positions *)
Theorem book_visited_case_ok_sound games toks fens :
  book_visited_case_ok games toks fens = true ->
  NoColl rkey (visited start_pos (map Some toks)) /\
  map (fun t => flat_map to_ostep (walk_pos rkey start_pos t)) toks = games /\
  map FenSpec.parse fens = map Some (visited start_pos (map Some toks)).
Proof.
  unfold book_visited_case_ok. cbv zeta. rewrite both_vis, !andb_true_iff. intros [[H1 H2] H3]. repeat split.
  - apply nocollb_sound. now rewrite <- nocollb_keyed_spec.
  - apply (all2b_eq (all2b ostep_eqb)) in H2; [|apply all2b_eq, ostep_eqb_sound]. rewrite H2.
    rewrite map_map. apply map_ext. intros t. now rewrite walk_both_spec.
  - rewrite map_map, map_id in H3. revert H3. apply all2b_sound. intros p fen. unfold fen_is.
    destruct (FenSpec.parse fen) as [q|]; [|discriminate]. intros E. apply pos_eqb_sound in E. now subst.
Qed.

(* the closed statement for a checked collection: legality, successor and "offered once" for the
   position-threaded build under every interleaving - no collision hypothesis left *)
Corollary book_moves_legal_once_checked games toks fens sched b :
  book_visited_case_ok games toks fens = true ->
  let gs := map Some toks in
  let posof := posof_of rkey (visited start_pos gs) in
  Interleave (map (game_steps_pos rkey start_pos) gs) sched ->
  run (rkey start_pos) sched (init_book (rkey start_pos)) = Some b ->
  forall k e, b !! k = Some e ->
    (forall mv nk, In (mv, nk) (succs e) ->
       legal_at posof k mv /\ nk = succ_at rkey posof k mv /\ is_Some (b !! nk)) /\
    (forall i j mv n1 n2, nth_error (succs e) i = Some (mv, n1) ->
                          nth_error (succs e) j = Some (mv, n2) -> i = j).
Proof.
  intros H gs posof. destruct (book_visited_case_ok_sound _ _ _ H) as (Hn & _ & _).
  exact (book_moves_legal_once_threaded rkey start_pos gs sched b (key_of_core _) Hn).
Qed.

(* the check of one collection of the correspondence run: BookModel.book_case_ok (real book =
   specification of the recorded games) and the above *)
Definition book_case_full_ok (root : N) (games : list (list ostep)) (observed : list oentry)
                             (toks : list (list BookModel.str)) (fens : list FenSpec.str) : bool :=
  (rkey start_pos =? root) && book_case_ok root games observed && book_visited_case_ok games toks fens.

(* non-vacuity: the example lines pass, a wrong step or a wrong position does not *)
Example book_visited_case_ok_ex :
  let toks := [[tok_e2e3; tok_e7e6; tok_g1f3]; [tok_Nf3; tok_e6; tok_e3]] in
  let games := map (fun t => flat_map to_ostep (walk_pos rkey start_pos t)) toks in
  let fens := map (fun p => FenSpec.print p) (visited start_pos (map Some toks)) in
  book_visited_case_ok games toks fens = true /\
  book_visited_case_ok (map (fun g => tl g) games) toks fens = false /\
  book_visited_case_ok games toks (tl fens) = false.
Proof. vm_compute. repeat split; reflexivity. Qed.

(* ... and the collision test itself: with a key that forgets the castling rights the start position
   and the same placement without rights collide (real key: they do not); with the real key the
   example lines are collision free, with a constant key they are not *)
Example nocollb_keyed_bites :
  let q := mkpos (brd start_pos) WHITE 0 64 0 1 in
  nocollb_keyed [(start_pos, rkey q); (q, rkey q)] = false /\
  nocollb_keyed [(start_pos, rkey start_pos); (q, rkey q)] = true /\
  nocollb_keyed (map (fun p => (p, rkey p)) (visited start_pos ex_lines)) = true /\
  nocollb_keyed (map (fun p => (p, 0)) (visited start_pos ex_lines)) = false.
Proof. vm_compute. repeat split; reflexivity. Qed.

(** ** Assumptions *)
Print Assumptions parse_token_sound.
Print Assumptions legal_code_inj.
Print Assumptions resolve_notation_legal.
Print Assumptions book_moves_legal_once_notation.
Print Assumptions book_edges_sound_notation.
Print Assumptions book_edges_legal_threaded.
Print Assumptions walk_threaded.
Print Assumptions threaded_is_resolve.
Print Assumptions book_moves_legal_once_threaded.
Print Assumptions nocollb_sound.
Print Assumptions walk_ipos_eq.
Print Assumptions book_legal_ex.
Print Assumptions book_visited_case_ok_sound.
Print Assumptions book_moves_legal_once_checked.
