(** * PosImpl: executable model of internal/position/position.go (C02, C03, C04, C10).

    Definitions only.  Every clause carries the Go line (position.go unless said
    otherwise) it transcribes.  The model is parameterised by a record [tabs] of the
    engine's tables (Zobrist randoms, piece values, piece-square tables), so that
    it extracts with ExtrOcamlBasic alone (no primitive integers) and every theorem of
    PosProofs*.v holds for ANY tables; the real ones are [PosTabs.real_tabs].

    Go types and their model:
      Key uint64, Bitboard uint64  -> N (only xor / or / and-not of values below 2^64
                                         occur, so no wrap-around is needed)
      Square uint8 (64 = SqNone), Piece int8, Color, CastlingRights uint8, Move uint32 -> N
      int, Value int16             -> Z   (Value arithmetic is modelled WITHOUT int16
                                         wrap-around: |material| <= 64*2000 needs more than
                                         16 bits only for positions with more than 16 kings)
      [64]Piece                    -> list N of length 64 (invariant [WFc])
      [2]X                         -> X * X          ([sel] / [upd])
      [2][7]Bitboard               -> list N of length 14, index 7*colour + piece type
      history [512]historyState + historyCounter -> list hstate, most recent entry first;
                                         historyCounter = length.  Entries above the counter
                                         are never read by the Go code, so dropping them on
                                         undo is unobservable.
    Where the Go code would index out of range (board[64], history[512], history[-1],
    piecesBb[c][7], "Invalid castle move!") the model returns [None] ("Panic").          *)
From Coq Require Import NArith ZArith List Bool.
From FG Require Import Geom Rules FenSpec.
Import ListNotations.
Open Scope N_scope.

(** ** Tables *)
Record tabs := mktabs {
  zp : N -> N -> N;        (* zobristBase.pieces[piece][square]        zobrist.go:36 *)
  zc : N -> N;             (* zobristBase.castlingRights[cr]           zobrist.go:37 *)
  ze : N -> N;             (* zobristBase.enPassantFile[file]          zobrist.go:38 *)
  zn : N;                  (* zobristBase.nextPlayer                   zobrist.go:39 *)
  pval : N -> Z;           (* pieceTypeValue[pt]                       types/piecetype.go *)
  phval : N -> Z;          (* gamePhaseValue[pt]                       types/piecetype.go *)
  psqm : N -> N -> Z;      (* posMidValue[piece][square]               types/posValues.go:39 *)
  psqe : N -> N -> Z;      (* posEndValue[piece][square]               types/posValues.go:48 *)
  clamp : bool             (* model switch: true = the real code, which clamps the game
                              phase in putPiece (861-863) and removePiece (887-889);
                              false = the same code with the two clamps deleted *)
}.

(* types.go:72  GamePhaseMax = 24 (PosTabs.game_phase_max_is_24 checks the dumped constant) *)
Definition GamePhaseMax : Z := 24%Z.
(* types.go:57  MaxMoves = 512 = maxHistory (position.go:142) *)
Definition MaxHistory : nat := 512.

(** ** historyState (131-140) *)
Record hstate := mkh {
  h_key : N; h_move : N; h_from : N; h_cap : N; h_cr : N; h_ep : N; h_hmc : Z; h_flag : Z
}.

(** ** Position (77-129) *)
Record ipos := mkipos {
  i_key : N;                 (* zobristKey *)
  i_board : list N;          (* board *)
  i_cr : N;                  (* castlingRights *)
  i_ep : N;                  (* enPassantSquare *)
  i_hmc : Z;                 (* halfMoveClock *)
  i_stm : N;                 (* nextPlayer *)
  i_ksq : N * N;             (* kingSquare *)
  i_nhm : Z;                 (* nextHalfMoveNumber *)
  i_pbb : list N;            (* piecesBb, index 7*c+pt *)
  i_occ : N * N;             (* occupiedBb *)
  i_hist : list hstate;      (* history[0..historyCounter), newest first *)
  i_mat : Z * Z;             (* material *)
  i_matnp : Z * Z;           (* materialNonPawn *)
  i_psqm : Z * Z;            (* psqMidValue *)
  i_psqe : Z * Z;            (* psqEndValue *)
  i_phase : Z;               (* gamePhase *)
  i_flag : Z                 (* hasCheckFlag: 0 TBD, 1 false, 2 true (146-148) *)
}.

(** single-field updates *)
Definition set_key (v : N) (p : ipos) : ipos :=
  mkipos v (i_board p) (i_cr p) (i_ep p) (i_hmc p) (i_stm p) (i_ksq p) (i_nhm p) (i_pbb p) (i_occ p)
         (i_hist p) (i_mat p) (i_matnp p) (i_psqm p) (i_psqe p) (i_phase p) (i_flag p).
Definition set_cr (v : N) (p : ipos) : ipos :=
  mkipos (i_key p) (i_board p) v (i_ep p) (i_hmc p) (i_stm p) (i_ksq p) (i_nhm p) (i_pbb p) (i_occ p)
         (i_hist p) (i_mat p) (i_matnp p) (i_psqm p) (i_psqe p) (i_phase p) (i_flag p).
Definition set_ep (v : N) (p : ipos) : ipos :=
  mkipos (i_key p) (i_board p) (i_cr p) v (i_hmc p) (i_stm p) (i_ksq p) (i_nhm p) (i_pbb p) (i_occ p)
         (i_hist p) (i_mat p) (i_matnp p) (i_psqm p) (i_psqe p) (i_phase p) (i_flag p).
Definition set_hmc (v : Z) (p : ipos) : ipos :=
  mkipos (i_key p) (i_board p) (i_cr p) (i_ep p) v (i_stm p) (i_ksq p) (i_nhm p) (i_pbb p) (i_occ p)
         (i_hist p) (i_mat p) (i_matnp p) (i_psqm p) (i_psqe p) (i_phase p) (i_flag p).
Definition set_hist (v : list hstate) (p : ipos) : ipos :=
  mkipos (i_key p) (i_board p) (i_cr p) (i_ep p) (i_hmc p) (i_stm p) (i_ksq p) (i_nhm p) (i_pbb p) (i_occ p)
         v (i_mat p) (i_matnp p) (i_psqm p) (i_psqe p) (i_phase p) (i_flag p).
Definition set_phase (v : Z) (p : ipos) : ipos :=
  mkipos (i_key p) (i_board p) (i_cr p) (i_ep p) (i_hmc p) (i_stm p) (i_ksq p) (i_nhm p) (i_pbb p) (i_occ p)
         (i_hist p) (i_mat p) (i_matnp p) (i_psqm p) (i_psqe p) v (i_flag p).
(* the effect of HasCheck() (517-528) on the struct: the cache is filled with
   flagFalse / flagTrue.  IsAttacked itself is modelled elsewhere. *)
Definition set_check_flag (v : Z) (p : ipos) : ipos :=
  mkipos (i_key p) (i_board p) (i_cr p) (i_ep p) (i_hmc p) (i_stm p) (i_ksq p) (i_nhm p) (i_pbb p) (i_occ p)
         (i_hist p) (i_mat p) (i_matnp p) (i_psqm p) (i_psqe p) (i_phase p) v.
(* flag := TBD, nextHalfMoveNumber += d, nextPlayer flipped, key ^= nextPlayer random *)
Definition turn (t : tabs) (d : Z) (p : ipos) : ipos :=
  mkipos (N.lxor (i_key p) (zn t)) (i_board p) (i_cr p) (i_ep p) (i_hmc p) (N.lxor (i_stm p) 1) (i_ksq p)
         (i_nhm p + d)%Z (i_pbb p) (i_occ p)
         (i_hist p) (i_mat p) (i_matnp p) (i_psqm p) (i_psqe p) (i_phase p) 0%Z.

(** ** small helpers *)
Definition sel {A} (c : N) (pr : A * A) : A := if c =? 0 then fst pr else snd pr.
Definition upd {A} (c : N) (v : A) (pr : A * A) : A * A := if c =? 0 then (v, snd pr) else (fst pr, v).
Definition bit (s : N) : N := N.shiftl 1 s.                 (* sqBb[s], TablesCorrect.sqbb_exact *)
Definition pidx (c ty : N) : nat := N.to_nat (7 * c + ty).
Definition bb_get (l : list N) (c ty : N) : N := nth (pidx c ty) l 0.
(* Piece int8: indices used with a piece are in range iff piece < 16 (zobristBase.pieces
   [16][64], posMidValue [16][64]) and its type < 7 (piecesBb [2][7], gamePhaseValue [7]) *)
Definition valid_pc (pc : N) : bool := (pc <? 16) && (pc mod 8 <? 7).
(* Square.To(d) (types/square.go), for sq < 64 : TablesCorrect.sqto_exact *)
Definition sq_to (s : N) (d : dir) : N := match step d s with Some t => t | None => 64 end.
(* Color.MoveDirection (types/color.go): pawnDir = {North, South} *)
Definition pawn_dir (c : N) : dir := if c =? 0 then DN else DS.
(* Color.Flip: c ^ 1 *)
Definition cflip (c : N) : N := N.lxor c 1.

Definition bind {A B} (o : option A) (f : A -> option B) : option B :=
  match o with Some x => f x | None => None end.
Notation "x <- e ;; k" := (bind e (fun x => k)) (at level 61, e at next level, right associativity).

(** ** Move decoding (types/move.go:88-107; layout constants checked in PosTabs.move_layout) *)
Definition mv_to (m : N) : N := N.land m 63.                         (* m & toMask *)
Definition mv_from (m : N) : N := N.shiftr (N.land m 4032) 6.        (* (m & fromMask) >> fromShift *)
Definition mv_prom (m : N) : N := N.shiftr (N.land m 12288) 12 + 3.  (* ((m&promTypeMask)>>promTypeShift) + Knight *)
Definition mv_type (m : N) : N := N.shiftr (N.land m 49152) 14.      (* (m & moveTypeMask) >> typeShift *)

(** ** putPiece (846-872) *)
Definition put_raw (t : tabs) (p : ipos) (pc sq : N) : ipos :=
  let c := pc / 8 in            (* 847 piece.ColorOf() = p >> 3 *)
  let ty := pc mod 8 in         (* 848 piece.TypeOf() = p & 7 *)
  mkipos
    (N.lxor (i_key p) (zp t pc sq))                                   (* 858 *)
    (put (i_board p) sq pc)                                           (* 850 *)
    (i_cr p) (i_ep p) (i_hmc p) (i_stm p)
    (if ty =? KING then upd c sq (i_ksq p) else i_ksq p)              (* 851-853 *)
    (i_nhm p)
    (set_nth (i_pbb p) (pidx c ty) (N.lor (bb_get (i_pbb p) c ty) (bit sq)))  (* 855 *)
    (upd c (N.lor (sel c (i_occ p)) (bit sq)) (i_occ p))              (* 856 *)
    (i_hist p)
    (upd c (sel c (i_mat p) + pval t ty)%Z (i_mat p))                 (* 865 *)
    (if PAWN <? ty then upd c (sel c (i_matnp p) + pval t ty)%Z (i_matnp p) else i_matnp p) (* 866-868 *)
    (upd c (sel c (i_psqm p) + psqm t pc sq)%Z (i_psqm p))            (* 870 *)
    (upd c (sel c (i_psqe p) + psqe t pc sq)%Z (i_psqe p))            (* 871 *)
    (let g := (i_phase p + phval t ty)%Z in                           (* 860 *)
     if clamp t && (GamePhaseMax <? g)%Z then GamePhaseMax else g)    (* 861-863 *)
    (i_flag p).

Definition put_piece (t : tabs) (p : ipos) (pc sq : N) : option ipos :=
  if (sq <? 64) && valid_pc pc then Some (put_raw t p pc sq) else None.   (* board[square], [piece] in range *)

(** ** removePiece (874-899) *)
Definition rem_raw (t : tabs) (p : ipos) (removed sq : N) : ipos :=
  let c := removed / 8 in       (* 876 *)
  let ty := removed mod 8 in    (* 877 *)
  mkipos
    (N.lxor (i_key p) (zp t removed sq))                              (* 884 *)
    (put (i_board p) sq 0)                                            (* 879 *)
    (i_cr p) (i_ep p) (i_hmc p) (i_stm p) (i_ksq p) (i_nhm p)
    (set_nth (i_pbb p) (pidx c ty) (N.ldiff (bb_get (i_pbb p) c ty) (bit sq)))  (* 881 *)
    (upd c (N.ldiff (sel c (i_occ p)) (bit sq)) (i_occ p))            (* 882 *)
    (i_hist p)
    (upd c (sel c (i_mat p) - pval t ty)%Z (i_mat p))                 (* 891 *)
    (if PAWN <? ty then upd c (sel c (i_matnp p) - pval t ty)%Z (i_matnp p) else i_matnp p) (* 892-894 *)
    (upd c (sel c (i_psqm p) - psqm t removed sq)%Z (i_psqm p))       (* 896 *)
    (upd c (sel c (i_psqe p) - psqe t removed sq)%Z (i_psqe p))       (* 897 *)
    (let g := (i_phase p - phval t ty)%Z in                           (* 886 *)
     if clamp t && (g <? 0)%Z then 0%Z else g)                        (* 887-889 *)
    (i_flag p).

Definition remove_piece (t : tabs) (p : ipos) (sq : N) : option (ipos * N) :=
  match nth_error (i_board p) (N.to_nat sq) with                      (* 875 removed := p.board[square] *)
  | None => None
  | Some removed => if valid_pc removed then Some (rem_raw t p removed sq, removed) else None
  end.

(** ** movePiece (842-844) *)
Definition move_piece (t : tabs) (p : ipos) (fromSq toSq : N) : option ipos :=
  r <- remove_piece t p fromSq ;; put_piece t (fst r) (snd r) toSq.

(** ** clearEnPassant (901-906) *)
Definition clear_ep (t : tabs) (p : ipos) : ipos :=
  if i_ep p =? 64 then p
  else set_ep 64 (set_key (N.lxor (i_key p) (ze t (file_of (i_ep p)))) p).

(* 758-765 and 828-835: castling rights lost by touching from / to
   (GetCastlingRights(sq) = castlingRights[sq] = castling_by_square sq, TablesCorrect.castling_by_square_exact) *)
Definition touch_castling (t : tabs) (p : ipos) (fromSq toSq : N) : ipos :=
  if i_cr p =? 0 then p else
  let lost := N.lor (castling_by_square fromSq) (castling_by_square toSq) in
  if lost =? 0 then p else
  let cr' := N.ldiff (i_cr p) lost in                                  (* Remove: cr &^ rhs *)
  set_cr cr' (set_key (N.lxor (N.lxor (i_key p) (zc t (i_cr p))) (zc t cr')) p).

(* 788-790 etc.: the castling-right update inside doCastlingMove *)
Definition drop_castling (t : tabs) (p : ipos) (lost : N) : ipos :=
  let cr' := N.ldiff (i_cr p) lost in
  set_cr cr' (set_key (N.lxor (N.lxor (i_key p) (zc t (i_cr p))) (zc t cr')) p).

(** ** doNormalMove (755-781) *)
Definition do_normal (t : tabs) (p : ipos) (fromSq toSq targetPc fromPc myColor : N) : option ipos :=
  let p1 := touch_castling t p fromSq toSq in                          (* 758-765 *)
  let p2 := clear_ep t p1 in                                           (* 766 *)
  if negb (targetPc =? 0) then                                         (* 767 capture *)
    r <- remove_piece t p2 toSq ;;                                     (* 768 *)
    move_piece t (set_hmc 0 (fst r)) fromSq toSq                       (* 769, 780 *)
  else if fromPc mod 8 =? PAWN then                                    (* 770 *)
    let p3 := set_hmc 0 p2 in                                          (* 771 *)
    let p4 := if sq_distance fromSq toSq =? 2 then                     (* 772 SquareDistance: TablesCorrect.square_distance_exact *)
                let e := sq_to toSq (pawn_dir (cflip myColor)) in      (* 774 *)
                set_ep e (set_key (N.lxor (i_key p3) (ze t (file_of e))) p3)   (* 774-775 *)
              else p3 in
    move_piece t p4 fromSq toSq                                        (* 780 *)
  else move_piece t (set_hmc (i_hmc p2 + 1) p2) fromSq toSq.           (* 778, 780 *)

(** ** doCastlingMove (783-814) *)
Definition do_castling (t : tabs) (p : ipos) (toSq fromSq : N) : option ipos :=
  r <- (if toSq =? 6 then Some (7, 5, 3)            (* 785 SqG1: rook h1->f1, CastlingWhite *)
        else if toSq =? 2 then Some (0, 3, 3)       (* 791 SqC1: rook a1->d1 *)
        else if toSq =? 62 then Some (63, 61, 12)   (* 797 SqG8: rook h8->f8, CastlingBlack *)
        else if toSq =? 58 then Some (56, 59, 12)   (* 803 SqC8: rook a8->d8 *)
        else None) ;;                               (* 810 panic("Invalid castle move!") *)
  let '(rf, rt, lost) := r in
  p1 <- move_piece t p fromSq toSq ;;               (* King *)
  p2 <- move_piece t p1 rf rt ;;                    (* Rook *)
  let p3 := drop_castling t p2 lost in
  let p4 := clear_ep t p3 in                        (* 812 *)
  Some (set_hmc (i_hmc p4 + 1) p4).                 (* 813 *)

(** ** doEnPassantMove (816-822) *)
Definition do_enpassant (t : tabs) (p : ipos) (toSq myColor fromSq : N) : option ipos :=
  r <- remove_piece t p (sq_to toSq (pawn_dir (cflip myColor))) ;;     (* 817 *)
  p1 <- move_piece t (fst r) fromSq toSq ;;                            (* 818 *)
  Some (set_hmc 0 (clear_ep t p1)).                                    (* 819-821 *)

(** ** doPromotionMove (824-840) *)
Definition do_promotion (t : tabs) (p : ipos) (m myColor toSq targetPc fromSq : N) : option ipos :=
  p1 <- (if negb (targetPc =? 0) then r <- remove_piece t p toSq ;; Some (fst r) else Some p) ;;  (* 825-827 *)
  let p2 := touch_castling t p1 fromSq toSq in                         (* 828-835 *)
  r <- remove_piece t p2 fromSq ;;                                     (* 836 *)
  p3 <- put_piece t (fst r) (8 * myColor + mv_prom m) toSq ;;          (* 837 MakePiece(myColor, m.PromotionType()) *)
  Some (set_hmc 0 (clear_ep t p3)).                                    (* 838-839 *)

(** ** DoMove (187-247) *)
Definition push_hist (p : ipos) (m fromPc targetPc : N) : ipos :=
  set_hist (mkh (i_key p) m fromPc targetPc (i_cr p) (i_ep p) (i_hmc p) (i_flag p) :: i_hist p) p.

Definition do_move (t : tabs) (p : ipos) (m : N) : option ipos :=
  let fromSq := mv_from m in                                           (* 188 *)
  fromPc <- nth_error (i_board p) (N.to_nat fromSq) ;;                 (* 189 *)
  let myColor := fromPc / 8 in                                         (* 190 *)
  let toSq := mv_to m in                                               (* 191 *)
  targetPc <- nth_error (i_board p) (N.to_nat toSq) ;;                 (* 192 *)
  if (MaxHistory <=? length (i_hist p))%nat then None else             (* 219 history[512]: index out of range *)
  let p0 := push_hist p m fromPc targetPc in                           (* 217-228 *)
  let ty := mv_type m in                                               (* 231 *)
  p1 <- (if ty =? 0 then do_normal t p0 fromSq toSq targetPc fromPc myColor       (* 233 *)
         else if ty =? 1 then do_promotion t p0 m myColor toSq targetPc fromSq    (* 235 *)
         else if ty =? 2 then do_enpassant t p0 toSq myColor fromSq               (* 237 *)
         else do_castling t p0 toSq fromSq) ;;                                    (* 239 *)
  Some (turn t 1 p1).                                                  (* 243-246 *)

(** ** UndoMove (250-305) *)
Definition restore (h : hstate) (p : ipos) : ipos :=                   (* 300-304 / 351-355 *)
  mkipos (h_key h) (i_board p) (h_cr h) (h_ep h) (h_hmc h) (i_stm p) (i_ksq p) (i_nhm p) (i_pbb p) (i_occ p)
         (i_hist p) (i_mat p) (i_matnp p) (i_psqm p) (i_psqe p) (i_phase p) (h_flag h).

(* 256-258 / 345-347: counter--, nextHalfMoveNumber--, nextPlayer flipped; nothing else *)
Definition unturn (rest : list hstate) (p : ipos) : ipos :=
  mkipos (i_key p) (i_board p) (i_cr p) (i_ep p) (i_hmc p) (cflip (i_stm p)) (i_ksq p)
         (i_nhm p - 1)%Z (i_pbb p) (i_occ p)
         rest (i_mat p) (i_matnp p) (i_psqm p) (i_psqe p) (i_phase p) (i_flag p).

Definition put_if (t : tabs) (p : ipos) (pc sq : N) : option ipos :=
  if negb (pc =? 0) then put_piece t p pc sq else Some p.             (* 268-270 / 274-276 *)

Definition undo_move (t : tabs) (p : ipos) : option ipos :=
  match i_hist p with
  | [] => None                                                         (* 262 history[-1] *)
  | h :: rest =>
    let p0 := unturn rest p in                                         (* 256-258 *)
    let move := h_move h in                                            (* 262 *)
    let fromSq := mv_from move in let toSq := mv_to move in
    let ty := mv_type move in
    p1 <- (if ty =? 0 then                                             (* 266 Normal *)
             q <- move_piece t p0 toSq fromSq ;; put_if t q (h_cap h) toSq        (* 267-270 *)
           else if ty =? 1 then                                        (* 271 Promotion *)
             r <- remove_piece t p0 toSq ;;                            (* 272 *)
             q <- put_piece t (fst r) (8 * i_stm p0 + PAWN) fromSq ;;  (* 273 *)
             put_if t q (h_cap h) toSq                                 (* 274-276 *)
           else if ty =? 2 then                                        (* 277 EnPassant *)
             q <- move_piece t p0 toSq fromSq ;;                       (* 279 *)
             put_piece t q (8 * cflip (i_stm p0) + PAWN)
                       (sq_to toSq (pawn_dir (cflip (i_stm p0))))      (* 280 *)
           else                                                        (* 281 Castling *)
             q <- move_piece t p0 toSq fromSq ;;                       (* 284 King *)
             if toSq =? 6 then move_piece t q 5 7                      (* 286-287 *)
             else if toSq =? 2 then move_piece t q 3 0                 (* 288-289 *)
             else if toSq =? 62 then move_piece t q 61 63              (* 290-291 *)
             else if toSq =? 58 then move_piece t q 59 56              (* 292-293 *)
             else None) ;;                                             (* 295 panic *)
    Some (restore h p1)                                                (* 300-304 *)
  end.

(** ** DoNullMove (313-334), UndoNullMove (343-356) *)
Definition do_null (t : tabs) (p : ipos) : option ipos :=
  if (MaxHistory <=? length (i_hist p))%nat then None else             (* 318 history[512] *)
  let p0 := push_hist p 0 0 0 in                                       (* 316-327 MoveNone, PieceNone *)
  Some (turn t 1 (clear_ep t p0)).                                     (* 329-333 *)

Definition undo_null (p : ipos) : option ipos :=
  match i_hist p with
  | [] => None                                                         (* 351 history[-1] *)
  | h :: rest => Some (restore h (unturn rest p))                      (* 345-355 *)
  end.

(** ** setupBoard (966-1142) for the FEN of a specification position.  setupBoard also
    validates the FEN (rank lengths, exactly one king each, en-passant square consistent, side
    not to move not in check: 994-1026, 1086-1100, 1107, 1121, 1135) and returns an error
    otherwise; for an accepted FEN it builds exactly this. *)
Definition empty_pos : ipos :=                                         (* 175 p := &Position{} *)
  mkipos 0 (repeat 0 64) 0 0 0%Z 0 (0, 0) 0%Z (repeat 0 14) (0, 0) [] (0, 0)%Z (0, 0)%Z (0, 0)%Z (0, 0)%Z 0%Z 0%Z.

(* squares in FEN order: a8..h8, a7..h7, ..., a1..h1 (988-1018) *)
Definition fen_order : list N :=
  flat_map (fun r => map (fun f => mk_sq f r) [0;1;2;3;4;5;6;7]) [7;6;5;4;3;2;1;0].

Definition place (t : tabs) (b : list N) (p : ipos) (s : N) : ipos :=
  let pc := at_ b s in
  if pc =? 0 then p                                                    (* digits only advance currentSquare *)
  else match put_piece t p pc s with Some p' => p' | None => p end.    (* 1015; FEN letters are always valid pieces *)

Definition setup_of_spec (t : tabs) (q : pos) : ipos :=
  let p := fold_left (place t (brd q)) fen_order empty_pos in
  let blk := negb (stm q =? 0) in
  let k1 := if blk then N.lxor (i_key p) (zn t) else i_key p in        (* 1047 *)
  let k2 := N.lxor k1 (zc t (cr q)) in                                 (* 1076 (always) *)
  let k3 := if ep q =? 64 then k2 else N.lxor k2 (ze t (file_of (ep q))) in   (* 1085-1091 *)
  let mn := if fmn q =? 0 then 1 else fmn q in                         (* 1125-1127 *)
  mkipos k3 (i_board p) (cr q) (ep q)                                  (* 1065-1071, 1030/1090 *)
         (Z.of_N (hmc q))                                              (* 1111 *)
         (stm q)                                                       (* 1043/1046 *)
         (i_ksq p)
         (2 * Z.of_N mn - (1 - Z.of_N (stm q)))%Z                      (* 1128 *)
         (i_pbb p) (i_occ p) [] (i_mat p) (i_matnp p) (i_psqm p) (i_psqe p) (i_phase p) 0%Z.

(** ** Abstraction to the rules specification, FEN (908-949) *)
Definition abs (p : ipos) : pos :=
  mkpos (i_board p) (i_stm p) (i_cr p) (i_ep p) (Z.to_N (i_hmc p))
        (Z.to_N (Z.quot (i_nhm p + 1) 2)).                             (* 946 (nextHalfMoveNumber+1)/2 *)
Definition fen_of (p : ipos) : str := print (abs p).

(** ** Getters (1148-1261) *)
Definition ZobristKey (p : ipos) : N := i_key p.                       (* 1149 *)
Definition NextPlayer (p : ipos) : N := i_stm p.                       (* 1154 *)
Definition GetPiece (p : ipos) (sq : N) : option N := nth_error (i_board p) (N.to_nat sq).  (* 1160 *)
Definition PiecesBb (p : ipos) (c pt : N) : option N :=
  if (c <? 2) && (pt <? 7) then Some (bb_get (i_pbb p) c pt) else None.        (* 1165 *)
Definition OccupiedBb (p : ipos) (c : N) : N := sel c (i_occ p).       (* 1175 *)
Definition OccupiedAll (p : ipos) : N := N.lor (fst (i_occ p)) (snd (i_occ p)).  (* 1170 *)
Definition GamePhase (p : ipos) : Z := i_phase p.                      (* 1182 *)
(* 1188 GamePhaseFactor = float64(gamePhase)/24 : numerator and denominator *)
Definition GamePhaseFactor (p : ipos) : Z * Z := (i_phase p, GamePhaseMax).
Definition GetEnPassantSquare (p : ipos) : N := i_ep p.                (* 1193 *)
Definition CastlingRights (p : ipos) : N := i_cr p.                    (* 1198 *)
Definition KingSquare (p : ipos) (c : N) : N := sel c (i_ksq p).       (* 1203 *)
Definition HalfMoveClock (p : ipos) : Z := i_hmc p.                    (* 1208 *)
Definition Material (p : ipos) (c : N) : Z := sel c (i_mat p).         (* 1214 *)
Definition MaterialNonPawn (p : ipos) (c : N) : Z := sel c (i_matnp p).  (* 1220 *)
Definition PsqMidValue (p : ipos) (c : N) : Z := sel c (i_psqm p).     (* 1227 *)
Definition PsqEndValue (p : ipos) (c : N) : Z := sel c (i_psqe p).     (* 1234 *)
Definition LastMove (p : ipos) : N :=                                  (* 1240-1245 *)
  match i_hist p with [] => 0 | h :: _ => h_move h end.
Definition LastCapturedPiece (p : ipos) : N :=                         (* 1250-1255 *)
  match i_hist p with [] => 0 | h :: _ => h_cap h end.
Definition WasCapturingMove (p : ipos) : bool := negb (LastCapturedPiece p =? 0).  (* 1259 *)
Definition IsCapturingMove (p : ipos) (m : N) : bool :=                (* 532-534 *)
  N.testbit (sel (cflip (i_stm p)) (i_occ p)) (mv_to m) || (mv_type m =? 2).

(** ** CheckRepetitions (548-580).  The Go loop visits history[counter-2], [counter-4], ...
    i.e. every second entry of the stack starting with the second one. *)
Fixpoint rep_scan (key : N) (l : list hstate) (visit : bool) (last counter reps : Z) : bool :=
  match l with
  | [] => false                                                        (* 563 i < 0 ; 579 *)
  | h :: r =>
    if visit then
      if (last <=? h_hmc h)%Z then false                               (* 566-567 break *)
      else                                                             (* 569 lastHalfMove = history[i].halfMoveClock *)
        let counter' := if key =? h_key h then (counter + 1)%Z else counter in   (* 571-573 *)
        if (reps <=? counter')%Z then true                             (* 574-576 *)
        else rep_scan key r false (h_hmc h) counter' reps              (* 577 i -= 2 *)
    else rep_scan key r true last counter reps
  end.
Definition check_repetitions (p : ipos) (reps : Z) : bool :=
  rep_scan (i_key p) (i_hist p) false (i_hmc p) 0%Z reps.              (* 560-562 *)

(** ** HasInsufficientMaterial (585-629) *)
Definition insufficient_material (t : tabs) (p : ipos) : bool :=
  let mw := fst (i_matnp p) in let mb := snd (i_matnp p) in
  let vN := pval t KNIGHT in let vB := pval t BISHOP in
  if (fst (i_mat p) + snd (i_mat p) =? 0)%Z then true else             (* 593-595 *)
  if (bb_get (i_pbb p) 0 PAWN =? 0) && (bb_get (i_pbb p) 1 PAWN =? 0) then   (* 598 PopCount() == 0 *)
    if ((mw <? 400) && (mb <? 400))%Z then true else                   (* 601-603 *)
    if (((mw =? 2 * vN) && (mb <=? vB)) || ((mb =? 2 * vN) && (mw <=? vB)))%Z then true else  (* 605-608 *)
    if (((mw =? 2 * vB) && (mb =? vB)) || ((mb =? 2 * vB) && (mw =? vB)))%Z then true else    (* 610-613 *)
    if ((mw =? 2 * vB) || (mb =? 2 * vB))%Z then false else            (* 615-617 *)
    let two v := ((2 * vN <=? v) && (v <? 2 * vB))%Z in                (* 621 *)
    let one v := ((0 <? v) && (v <=? vB))%Z in                         (* 622 *)
    if (two mw && one mb) || (one mw && two mb) then true else false   (* 623-626 *)
  else false.                                                          (* 628 *)

(** ** Observation vector and the operation interpreter compared with the real engine *)
Inductive op := ODo (code : N) | OUndo | ODoNull | OUndoNull
              | OSetFlag (v : Z).   (* HasCheck() was called and cached v (1 or 2) *)

Definition b2z (b : bool) : Z := if b then 1%Z else 0%Z.

Definition observe (t : tabs) (p : ipos) : list Z :=
  [Z.of_N (i_key p)] ++ map Z.of_N (i_board p)
  ++ [Z.of_N (i_cr p); Z.of_N (i_ep p); i_hmc p; Z.of_N (i_stm p);
      Z.of_N (fst (i_ksq p)); Z.of_N (snd (i_ksq p)); i_nhm p]
  ++ map Z.of_N (i_pbb p)
  ++ [Z.of_N (fst (i_occ p)); Z.of_N (snd (i_occ p)); Z.of_nat (length (i_hist p));
      fst (i_mat p); snd (i_mat p); fst (i_matnp p); snd (i_matnp p);
      fst (i_psqm p); snd (i_psqm p); fst (i_psqe p); snd (i_psqe p);
      GamePhase p; i_flag p; Z.of_N (LastMove p); Z.of_N (LastCapturedPiece p);
      b2z (check_repetitions p 1); b2z (check_repetitions p 2); b2z (check_repetitions p 3);
      b2z (insufficient_material t p)].

Definition apply_op (t : tabs) (p : ipos) (o : op) : option ipos :=
  match o with
  | ODo c => do_move t p c
  | OUndo => undo_move t p
  | ODoNull => do_null t p
  | OUndoNull => undo_null p
  | OSetFlag v => Some (set_check_flag v p)
  end.

(* a Go panic is reported as the observation [-1]; the position is dead afterwards *)
Definition observe_opt (t : tabs) (o : option ipos) : list Z :=
  match o with Some p => observe t p | None => [(-1)%Z] end.

Fixpoint run_from (t : tabs) (s : option ipos) (ops : list op) : list (list Z) :=
  match ops with
  | [] => []
  | o :: r => let s' := bind s (fun p => apply_op t p o) in observe_opt t s' :: run_from t s' r
  end.

Definition run_ops (t : tabs) (q : pos) (ops : list op) : list (list Z) :=
  let p := setup_of_spec t q in observe t p :: run_from t (Some p) ops.
