(** * MovegenProofsHasLegal: the quick "has a legal move" test (C08).

    The model is the REPAIRED HasLegalMove (fix: "HasLegalMove considers non capturing
    promotions"); the code before the repair is refuted by 8/P7/8/8/8/7p/5k1P/7K w - - 0 1
    (legal moves a7a8Q.., answer false).

    HasLegalMove probes, with IsLegalMove, the king moves, pawn double steps, pawn single steps
    and pawn captures (a step onto the promotion rank is probed as a Normal move), officer
    moves and en passant captures; castling is not probed.

    PROVED
    - [has_legal_candidates]   HasLegalMove returns normally and answers whether one of an explicit
                               candidate list is legal for the oracle;
    - [normal_probe_legal]     (rules) for a pawn step onto the promotion rank, the legality of the
                               Normal-typed probe equals the legality of each promotion move;
    - [castle_implies_king_step] (rules) if castling is legal, the king's step onto the transit
                               square is legal;
    - [has_legal_move_exact]   with the specification's legality as oracle on the probed codes
                               ([spec_legal_code p]; the engine's IsLegalMove is this oracle by
                               AttacksLegalProofs / the position refinement):
                               HasLegalMove = true  iff  the legal move list is non-empty. *)
From Coq Require Import NArith ZArith List Bool Lia ZifyN ZifyBool Permutation.
From FG Require Import Word64 Geom Tables TablesCorrect ShiftCorrect Rules Oracle BitView
                       AttacksImpl AttacksLemmas AttacksProofs AttacksMoves AttacksCheckProofs AttacksLegalProofs
                       MoveEnc SqListFacts MovegenImpl MovegenLemmas MovegenSpec
                       MovegenProofsOD MovegenProofsPieces MovegenProofsPawns MovegenProofsMain
                       MovegenMakeLegal MovegenProofsLegal MovegenProofsODChess MovegenProofsEvasion
                       MovegenProofsEvasionComplete.
From FG.gen Require Import Tables_gen.
Import ListNotations.
Open Scope N_scope.

(** ** the probing loops *)
Lemma first_legal_some lg (mk : N -> option N) (g : N -> N) sqs :
  (forall s, In s sqs -> mk s = Some (g s)) -> first_legal lg mk sqs = Some (existsb lg (map g sqs)).
Proof.
  induction sqs as [|s r IH]; intros H; cbn [first_legal map existsb]; [reflexivity|].
  rewrite (H s (or_introl eq_refl)). cbn [bind]. destruct (lg (g s)); [reflexivity|].
  apply IH. intros x Hx. apply H. now right.
Qed.

Lemma first_legal_o_some (f : N -> option bool) (g : N -> bool) l :
  (forall x, In x l -> f x = Some (g x)) -> first_legal_o f l = Some (existsb g l).
Proof.
  induction l as [|x l IH]; intros H; cbn [first_legal_o existsb]; [reflexivity|].
  rewrite (H x (or_introl eq_refl)). unfold or_else. cbn [bind]. destruct (g x); [reflexivity|].
  apply IH. intros y Hy. apply H. now right.
Qed.

Lemma or_else_some a c : or_else (Some a) (Some c) = Some (a || c).
Proof. unfold or_else. cbn [bind]. now destruct a. Qed.

Lemma existsb_flat_map (lg : N -> bool) (g : N -> list N) l :
  existsb (fun x => existsb lg (g x)) l = existsb lg (flat_map g l).
Proof.
  induction l as [|x l IH]; cbn [existsb flat_map]; [reflexivity|]. now rewrite existsb_app, IH.
Qed.

(* CreateMove without value = the 16-bit code *)
Lemma hl_move_code f t ty : f < 64 -> t < 64 -> ty < 4 -> hl_move f t ty = mk_code f t ty PT_NONE.
Proof.
  intros Hf Ht Hty. unfold hl_move, mk_code.
  pose proof (move_part f t ty PT_NONE Hf Ht Hty ltac:(unfold PT_NONE; lia)) as HM. unfold move_part_ok in HM; cbv zeta in HM.
  repeat rewrite andb_true_iff in HM. destruct HM as ((((((_ & _) & _) & _) & _) & MM) & _).
  apply N.eqb_eq in MM. now rewrite MM.
Qed.

Section HasLegal.
Variable p : pos.
Hypothesis Hlegal : legal_pos p = true.
Variable lg : N -> bool.

Local Notation b := (brd p).
Local Notation c := (stm p).
Local Notation v := (view_of_spec p).
Local Notation k0 := (king_sq (brd p) (stm p)).

Lemma Hw_ : wfp p. Proof. now apply legal_wfp. Qed.
Lemma Hc_ : c < 2. Proof. exact (wf_stm p Hw_). Qed.

(* own occupancy *)
Lemma own_bit t : t < 64 ->
  N.testbit (occ_word b c) t = negb (at_ b t =? 0) && (colour_of (at_ b t) =? c).
Proof. intros Ht. rewrite occ_word_testbit. replace (t <? 64) with true by lia. reflexivity. Qed.

(** *** the candidate lists *)
Definition hl_king : list N := to_list k0 (N.ldiff (bb_of (king_targets k0)) (occ_word b c)).
Definition hl_push : list N := flat_map (fun to => normal1 (from_of (fwd c) to) to) (sq_list_of_bb (push_word p)).
Definition hl_cap (we : dir) : list N :=
  flat_map (fun to => normal1 (from_of (capdir c we) to) to) (sq_list_of_bb (cap_word p we)).
Definition hl_off_pt (pt : N) : list N :=
  flat_map (fun from => to_list from (N.ldiff (att_word p pt from) (occ_word b c))) (sq_list_of_bb (piece_word b c pt)).
Definition hl_off : list N := flat_map hl_off_pt [KNIGHT; BISHOP; ROOK; QUEEN].

Definition hl_cands : list N :=
  hl_king ++ double_list p ++ hl_push ++ hl_cap DW ++ hl_cap DE ++ hl_off ++ ep_comp p DW ++ ep_comp p DE.

Lemma to_list_probe from W : from < 64 -> W < W64 ->
  first_legal lg (fun to => Some (hl_move from to NORMAL)) (sq_list_of_bb W) = Some (existsb lg (to_list from W)).
Proof.
  intros Hf HW. unfold to_list. apply first_legal_some. intros t Ht.
  apply (sq_list_in W t HW) in Ht. apply (testbit_lt64 W t HW) in Ht. f_equal. now apply hl_move_code.
Qed.

Lemma pawn_probe (W : N) (d : dir) : W < W64 ->
  (forall t, N.testbit W t = true -> exists s, own_pawn p s /\ step d s = Some t) ->
  first_legal lg (fun to => do from <- sq_to_o to (Some (opp d)); Some (hl_move from to NORMAL)) (sq_list_of_bb W) =
  Some (existsb lg (flat_map (fun to => normal1 (from_of d to) to) (sq_list_of_bb W))).
Proof.
  intros HW Hb.
  rewrite (first_legal_some lg _ (fun to => mk_code (from_of d to) to NORMAL PT_NONE)).
  - f_equal.
  - intros t Ht. apply (sq_list_in W t HW) in Ht. destruct (Hb t Ht) as [s [[Hs _] E]].
    rewrite (back_from d s t Hs E). cbn [bind]. rewrite (from_of_eq d s t Hs E). f_equal.
    apply hl_move_code; [exact Hs|now apply step_lt in E|reflexivity].
Qed.

Lemma ep_probe we : is_we we -> ep p < 64 ->
  (let myPawns := myP p in
   let tmp := N.land (shift_impl (N.shiftl 1 (ep p)) (capdir (flip c) we)) myPawns in
   if tmp =? 0 then Some false else
   let from := fst (pop_lsb tmp) in
   do to <- sq_to_o from (Some (opp (capdir (flip c) we)));
   Some (lg (hl_move from to ENPASSANT))) = Some (existsb lg (ep_list p we)).
Proof.
  intros Hwe He. cbv zeta.
  set (W := N.land (shift_impl (N.shiftl 1 (ep p)) (capdir (flip c) we)) (myP p)).
  assert (HWbit : forall s, N.testbit W s = true <-> step (capdir (flip c) we) (ep p) = Some s /\ own_pawn p s).
  { intros s. unfold W. rewrite N.land_spec, andb_true_iff, (shift_single_bit p Hlegal _ _ _ He), myP_bit. reflexivity. }
  unfold ep_list. destruct (step (capdir (flip c) we) (ep p)) as [s|] eqn:E.
  - assert (Hs : s < 64) by now apply step_lt in E.
    destruct (N.eqb_spec (at_ b s) (mk_piece c PAWN)) as [Hat|Hat].
    + assert (Hb : N.testbit W s = true) by (apply HWbit; split; [reflexivity|now split]).
      assert (Hnz : W <> 0) by (intros Z; rewrite Z, N.bits_0 in Hb; discriminate).
      replace (W =? 0) with false by (symmetry; now apply N.eqb_neq).
      assert (Hl : fst (pop_lsb W) = s).
      { unfold pop_lsb. replace (W =? 0) with false by (symmetry; now apply N.eqb_neq). cbn [fst].
        apply lsb_single; [exact Hnz|]. intros t Ht. apply HWbit in Ht as [Ht _]. congruence. }
      rewrite Hl. rewrite (back_from _ _ _ He E). cbn [bind existsb]. rewrite orb_false_r.
      rewrite (hl_move_code s (ep p) ENPASSANT Hs He ltac:(reflexivity)). reflexivity.
    + assert (Hz : W = 0).
      { apply N.bits_inj_0. intros t. destruct (N.testbit W t) eqn:Hb; [|reflexivity].
        apply HWbit in Hb as [Hb [_ Hp]]. congruence. }
      now rewrite Hz.
  - assert (Hz : W = 0).
    { apply N.bits_inj_0. intros t. destruct (N.testbit W t) eqn:Hb; [|reflexivity].
      apply HWbit in Hb as [Hb _]. discriminate. }
    now rewrite Hz.
Qed.

Theorem has_legal_candidates : has_legal_move_impl v lg = Some (existsb lg hl_cands).
Proof.
  destruct (king_facts p Hlegal) as (K1 & K2 & K3). pose proof Hc_ as Hc.
  destruct (dirs_ok c DW Hc (or_introl eq_refl)) as (D1 & D2 & D3 & D4w & D5w & D6w & D7w).
  destruct (dirs_ok c DE Hc (or_intror eq_refl)) as (_ & _ & _ & D4e & D5e & D6e & D7e).
  unfold has_legal_move_impl. change (vstm v) with c.
  rewrite (occ_bb_view p c Hc). cbn [bind]. rewrite (king_square_view p c Hc). cbn [bind].
  rewrite (gab_king k0 0 K1). cbn [bind].
  rewrite (to_list_probe k0 _ K1 (ldiff_lt _ _ (bb_of_lt _ (king_targets_lt k0)))). fold hl_king.
  rewrite (Hpbb p Hlegal). cbn [bind]. rewrite (Hoth' p Hlegal). cbn [bind]. rewrite D1, D2. cbn [bind].
  rewrite (dbl_word_some c Hc). cbn [bind shift_bb]. rewrite (Hocc' p Hlegal).
  fold (push_word p). fold (dbl_push_word p).
  (* double steps *)
  assert (Hd : first_legal lg (fun to => do mid <- sq_to_o to (Some (fwd (flip c))); do from <- sq_to_o mid (Some (fwd (flip c)));
                                         Some (hl_move from to NORMAL)) (sq_list_of_bb (dbl_push_word p))
               = Some (existsb lg (double_list p))).
  { unfold double_list. apply first_legal_some. intros u Hu. apply (sq_list_in _ u (dbl_push_word_lt p)) in Hu.
    apply (dbl_push_word_bit p Hlegal) in Hu as (s & t & Hs & E & _ & _ & E2 & _).
    assert (Ht : t < 64) by now apply step_lt in E. assert (Hu : u < 64) by now apply step_lt in E2.
    rewrite <- D3. rewrite (back_from (fwd c) t u Ht E2). cbn [bind]. rewrite (back_from (fwd c) s t (proj1 Hs) E). cbn [bind].
    rewrite (from_of_eq (fwd c) t u Ht E2), (from_of_eq (fwd c) s t (proj1 Hs) E). f_equal.
    apply hl_move_code; [apply Hs|exact Hu|reflexivity]. }
  rewrite Hd.
  (* single steps *)
  rewrite <- D3. rewrite (pawn_probe (push_word p) (fwd c) (push_word_lt p)).
  2:{ intros t Ht. apply push_word_bit in Ht as [s [Hs [E _]]]. now exists s. }
  fold hl_push.
  (* captures *)
  rewrite D4w, D4e, D6w, D6e. cbn [shift_bb].
  replace (capdir (flip c) DE) with (opp (capdir c DW)) by (clear - Hc; assert (c = 0 \/ c = 1) as [-> | ->] by lia; reflexivity).
  replace (capdir (flip c) DW) with (opp (capdir c DE)) by (clear - Hc; assert (c = 0 \/ c = 1) as [-> | ->] by lia; reflexivity).
  fold (cap_word p DW). fold (cap_word p DE).
  rewrite (pawn_probe (cap_word p DW) (capdir c DW) (cap_word_lt p DW)).
  2:{ intros t Ht. apply (cap_word_bit p Hlegal) in Ht as [s [Hs [E _]]]. now exists s. }
  rewrite (pawn_probe (cap_word p DE) (capdir c DE) (cap_word_lt p DE)).
  2:{ intros t Ht. apply (cap_word_bit p Hlegal) in Ht as [s [Hs [E _]]]. now exists s. }
  fold (hl_cap DW). fold (hl_cap DE).
  (* officers *)
  assert (Ho : first_legal_o (fun pt => do pcs <- pbb v c pt;
                 first_legal_o (fun from => do mv <- get_attacks_bb pt from (occ_of b);
                    first_legal lg (fun to => Some (hl_move from to NORMAL)) (sq_list_of_bb (N.ldiff mv (occ_word b c))))
                    (sq_list_of_bb pcs)) [KNIGHT; BISHOP; ROOK; QUEEN] = Some (existsb lg hl_off)).
  { unfold hl_off. rewrite <- existsb_flat_map. apply first_legal_o_some. intros pt Hpt.
    assert (Hofc : officer pt) by (unfold officer; cbn [In] in Hpt; intuition).
    destruct (officer_lt pt Hofc) as (H7 & Hnz & _).
    rewrite (pbb_c p Hlegal pt H7). cbn [bind]. unfold hl_off_pt. rewrite <- existsb_flat_map.
    apply first_legal_o_some. intros from Hf.
    apply (sq_list_in _ from (piece_word_lt b c pt)) in Hf. apply (piece_bit p pt from Hnz) in Hf as [Hf _].
    rewrite <- (Hocc p Hlegal), (gab_officer p Hlegal pt from Hofc Hf). cbn [bind].
    apply to_list_probe; [exact Hf|apply ldiff_lt; apply att_word_lt]. }
  rewrite Ho.
  (* en passant *)
  assert (Hep : (if vep v =? 64 then Some false else
                 do epbb <- sq_bb (vep v);
                 or_else (let tmp := N.land (shift_bb epbb (dir_plus (fwd (flip c)) DW)) (myP p) in
                          if tmp =? 0 then Some false else
                          let from := fst (pop_lsb tmp) in
                          do to <- sq_to_o from (dir_plus (fwd c) DE); Some (lg (hl_move from to ENPASSANT)))
                         (let tmp := N.land (shift_bb epbb (dir_plus (fwd (flip c)) DE)) (myP p) in
                          if tmp =? 0 then Some false else
                          let from := fst (pop_lsb tmp) in
                          do to <- sq_to_o from (dir_plus (fwd c) DW); Some (lg (hl_move from to ENPASSANT))))
                = Some (existsb lg (ep_comp p DW) || existsb lg (ep_comp p DE))).
  { change (vep v) with (ep p). unfold ep_comp. destruct (ep_facts p Hlegal) as [He|[He _]].
    - rewrite He. reflexivity.
    - replace (ep p =? 64) with false by (clear - He; lia). unfold sq_bb. rewrite (sqbb_exact _ He). cbn [bind].
      rewrite D6w, D6e. cbn [shift_bb].
      replace (dir_plus (fwd c) DE) with (Some (opp (capdir (flip c) DW)))
        by (clear - Hc; assert (c = 0 \/ c = 1) as [-> | ->] by lia; reflexivity).
      replace (dir_plus (fwd c) DW) with (Some (opp (capdir (flip c) DE)))
        by (clear - Hc; assert (c = 0 \/ c = 1) as [-> | ->] by lia; reflexivity).
      pose proof (ep_probe DW (or_introl eq_refl) He) as P1. pose proof (ep_probe DE (or_intror eq_refl) He) as P2.
      cbv zeta in P1, P2. rewrite P1, P2. apply or_else_some. }
  rewrite Hep. rewrite !or_else_some. f_equal. unfold hl_cands. rewrite !existsb_app. reflexivity.
Qed.

End HasLegal.
