(** * MovegenProofsHasLegal: the quick "has a legal move" test (C08).

    The model is the REPAIRED HasLegalMove (fix: "HasLegalMove considers non capturing
    promotions"); the code before the repair is refuted by 8/P7/8/8/8/7p/5k1P/7K w - - 0 1
    (legal moves a7a8Q.., answer false).

    HasLegalMove probes, with IsLegalMove, the king moves, pawn double steps, pawn single steps
    and pawn captures (a step onto the promotion rank is probed as a Normal move), officer
    moves and en passant captures; castling is not probed.

    PROVED
    - [has_legal_candidates]   HasLegalMove returns normally and answers whether one of an explicit
                               candidate list is legal for the oracle;
    - [normal_probe_legal]     (rules) for a pawn step onto the promotion rank, the legality of the
                               Normal-typed probe equals the legality of each promotion move;
    - [castle_implies_king_step] (rules) if castling is legal, the king's step onto the transit
                               square is legal;
    - [has_legal_move_exact]   with the specification's legality as oracle on the probed codes
                               ([spec_legal_code p]; the engine's IsLegalMove is this oracle by
                               AttacksLegalProofs / the position refinement):
                               HasLegalMove = true  iff  the legal move list is non-empty. *)
From Coq Require Import NArith ZArith List Bool Lia ZifyN ZifyBool Permutation.
From FG Require Import Word64 Geom Tables TablesCorrect ShiftCorrect Rules Oracle BitView
                       AttacksImpl AttacksLemmas AttacksProofs AttacksMoves AttacksCheckProofs AttacksLegalProofs
                       MoveEnc SqListFacts MovegenImpl MovegenLemmas MovegenSpec
                       MovegenProofsOD MovegenProofsPieces MovegenProofsPawns MovegenProofsMain
                       MovegenMakeLegal MovegenProofsLegal MovegenProofsODChess MovegenProofsEvasion
                       MovegenProofsEvasionComplete.
From FG.gen Require Import Tables_gen.
Import ListNotations.
Open Scope N_scope.

(** ** the probing loops *)
Lemma first_legal_some lg (mk : N -> option N) (g : N -> N) sqs :
  (forall s, In s sqs -> mk s = Some (g s)) -> first_legal lg mk sqs = Some (existsb lg (map g sqs)).
Proof.
  induction sqs as [|s r IH]; intros H; cbn [first_legal map existsb]; [reflexivity|].
  rewrite (H s (or_introl eq_refl)). cbn [bind]. destruct (lg (g s)); [reflexivity|].
  apply IH. intros x Hx. apply H. now right.
Qed.

Lemma first_legal_o_some (f : N -> option bool) (g : N -> bool) l :
  (forall x, In x l -> f x = Some (g x)) -> first_legal_o f l = Some (existsb g l).
Proof.
  induction l as [|x l IH]; intros H; cbn [first_legal_o existsb]; [reflexivity|].
  rewrite (H x (or_introl eq_refl)). unfold or_else. cbn [bind]. destruct (g x); [reflexivity|].
  apply IH. intros y Hy. apply H. now right.
Qed.

Lemma or_else_some a c : or_else (Some a) (Some c) = Some (a || c).
Proof. unfold or_else. cbn [bind]. now destruct a. Qed.

Lemma existsb_flat_map (lg : N -> bool) (g : N -> list N) l :
  existsb (fun x => existsb lg (g x)) l = existsb lg (flat_map g l).
Proof.
  induction l as [|x l IH]; cbn [existsb flat_map]; [reflexivity|]. now rewrite existsb_app, IH.
Qed.

(* CreateMove without value = the 16-bit code *)
Lemma hl_move_code f t ty : f < 64 -> t < 64 -> ty < 4 -> hl_move f t ty = mk_code f t ty PT_NONE.
Proof.
  intros Hf Ht Hty. unfold hl_move, mk_code.
  pose proof (move_part f t ty PT_NONE Hf Ht Hty ltac:(unfold PT_NONE; lia)) as HM. unfold move_part_ok in HM; cbv zeta in HM.
  repeat rewrite andb_true_iff in HM. destruct HM as ((((((_ & _) & _) & _) & _) & MM) & _).
  apply N.eqb_eq in MM. now rewrite MM.
Qed.

Section HasLegal.
Variable p : pos.
Hypothesis Hlegal : legal_pos p = true.
Variable lg : N -> bool.

Local Notation b := (brd p).
Local Notation c := (stm p).
Local Notation v := (view_of_spec p).
Local Notation k0 := (king_sq (brd p) (stm p)).

Lemma Hw_ : wfp p. Proof. now apply legal_wfp. Qed.
Lemma Hc_ : c < 2. Proof. exact (wf_stm p Hw_). Qed.

(* own occupancy *)
Lemma own_bit t : t < 64 ->
  N.testbit (occ_word b c) t = negb (at_ b t =? 0) && (colour_of (at_ b t) =? c).
Proof. intros Ht. rewrite occ_word_testbit. replace (t <? 64) with true by lia. reflexivity. Qed.

(** *** the candidate lists *)
Definition hl_king : list N := to_list k0 (N.ldiff (bb_of (king_targets k0)) (occ_word b c)).
Definition hl_push : list N := flat_map (fun to => normal1 (from_of (fwd c) to) to) (sq_list_of_bb (push_word p)).
Definition hl_cap (we : dir) : list N :=
  flat_map (fun to => normal1 (from_of (capdir c we) to) to) (sq_list_of_bb (cap_word p we)).
Definition hl_off_pt (pt : N) : list N :=
  flat_map (fun from => to_list from (N.ldiff (att_word p pt from) (occ_word b c))) (sq_list_of_bb (piece_word b c pt)).
Definition hl_off : list N := flat_map hl_off_pt [KNIGHT; BISHOP; ROOK; QUEEN].

Definition hl_cands : list N :=
  hl_king ++ double_list p ++ hl_push ++ hl_cap DW ++ hl_cap DE ++ hl_off ++ ep_comp p DW ++ ep_comp p DE.

Lemma to_list_probe from W : from < 64 -> W < W64 ->
  first_legal lg (fun to => Some (hl_move from to NORMAL)) (sq_list_of_bb W) = Some (existsb lg (to_list from W)).
Proof.
  intros Hf HW. unfold to_list. apply first_legal_some. intros t Ht.
  apply (sq_list_in W t HW) in Ht. apply (testbit_lt64 W t HW) in Ht. f_equal. now apply hl_move_code.
Qed.

Lemma pawn_probe (W : N) (d : dir) : W < W64 ->
  (forall t, N.testbit W t = true -> exists s, own_pawn p s /\ step d s = Some t) ->
  first_legal lg (fun to => do from <- sq_to_o to (Some (opp d)); Some (hl_move from to NORMAL)) (sq_list_of_bb W) =
  Some (existsb lg (flat_map (fun to => normal1 (from_of d to) to) (sq_list_of_bb W))).
Proof.
  intros HW Hb.
  rewrite (first_legal_some lg _ (fun to => mk_code (from_of d to) to NORMAL PT_NONE)).
  - f_equal.
  - intros t Ht. apply (sq_list_in W t HW) in Ht. destruct (Hb t Ht) as [s [[Hs _] E]].
    rewrite (back_from d s t Hs E). cbn [bind]. rewrite (from_of_eq d s t Hs E). f_equal.
    apply hl_move_code; [exact Hs|now apply step_lt in E|reflexivity].
Qed.

Lemma ep_probe we : is_we we -> ep p < 64 ->
  (let myPawns := myP p in
   let tmp := N.land (shift_impl (N.shiftl 1 (ep p)) (capdir (flip c) we)) myPawns in
   if tmp =? 0 then Some false else
   let from := fst (pop_lsb tmp) in
   do to <- sq_to_o from (Some (opp (capdir (flip c) we)));
   Some (lg (hl_move from to ENPASSANT))) = Some (existsb lg (ep_list p we)).
Proof.
  intros Hwe He. cbv zeta.
  set (W := N.land (shift_impl (N.shiftl 1 (ep p)) (capdir (flip c) we)) (myP p)).
  assert (HWbit : forall s, N.testbit W s = true <-> step (capdir (flip c) we) (ep p) = Some s /\ own_pawn p s).
  { intros s. unfold W. rewrite N.land_spec, andb_true_iff, (shift_single_bit p Hlegal _ _ _ He), myP_bit. reflexivity. }
  unfold ep_list. destruct (step (capdir (flip c) we) (ep p)) as [s|] eqn:E.
  - assert (Hs : s < 64) by now apply step_lt in E.
    destruct (N.eqb_spec (at_ b s) (mk_piece c PAWN)) as [Hat|Hat].
    + assert (Hb : N.testbit W s = true) by (apply HWbit; split; [reflexivity|now split]).
      assert (Hnz : W <> 0) by (intros Z; rewrite Z, N.bits_0 in Hb; discriminate).
      replace (W =? 0) with false by (symmetry; now apply N.eqb_neq).
      assert (Hl : fst (pop_lsb W) = s).
      { unfold pop_lsb. replace (W =? 0) with false by (symmetry; now apply N.eqb_neq). cbn [fst].
        apply lsb_single; [exact Hnz|]. intros t Ht. apply HWbit in Ht as [Ht _]. congruence. }
      rewrite Hl. rewrite (back_from _ _ _ He E). cbn [bind existsb]. rewrite orb_false_r.
      rewrite (hl_move_code s (ep p) ENPASSANT Hs He ltac:(reflexivity)). reflexivity.
    + assert (Hz : W = 0).
      { apply N.bits_inj_0. intros t. destruct (N.testbit W t) eqn:Hb; [|reflexivity].
        apply HWbit in Hb as [Hb [_ Hp]]. congruence. }
      now rewrite Hz.
  - assert (Hz : W = 0).
    { apply N.bits_inj_0. intros t. destruct (N.testbit W t) eqn:Hb; [|reflexivity].
      apply HWbit in Hb as [Hb _]. discriminate. }
    now rewrite Hz.
Qed.

Theorem has_legal_candidates : has_legal_move_impl v lg = Some (existsb lg hl_cands).
Proof.
  destruct (king_facts p Hlegal) as (K1 & K2 & K3). pose proof Hc_ as Hc.
  destruct (dirs_ok c DW Hc (or_introl eq_refl)) as (D1 & D2 & D3 & D4w & D5w & D6w & D7w).
  destruct (dirs_ok c DE Hc (or_intror eq_refl)) as (_ & _ & _ & D4e & D5e & D6e & D7e).
  unfold has_legal_move_impl. change (vstm v) with c.
  rewrite (occ_bb_view p c Hc). cbn [bind]. rewrite (king_square_view p c Hc). cbn [bind].
  rewrite (gab_king k0 0 K1). cbn [bind].
  rewrite (to_list_probe k0 _ K1 (ldiff_lt _ _ (bb_of_lt _ (king_targets_lt k0)))).
  rewrite (Hpbb p Hlegal). cbn [bind]. rewrite (Hoth' p Hlegal). cbn [bind]. rewrite D1, D2. cbn [bind].
  rewrite (dbl_word_some c Hc). cbn [bind shift_bb]. rewrite (Hocc' p Hlegal).
  fold (push_word p). fold (dbl_push_word p).
  (* en passant *)
  assert (Hep : (if vep v =? 64 then Some false else
                 do epbb <- sq_bb (vep v);
                 or_else (let tmp := N.land (shift_bb epbb (dir_plus (fwd (flip c)) DW)) (myP p) in
                          if tmp =? 0 then Some false else
                          let from := fst (pop_lsb tmp) in
                          do to <- sq_to_o from (dir_plus (fwd c) DE); Some (lg (hl_move from to ENPASSANT)))
                         (let tmp := N.land (shift_bb epbb (dir_plus (fwd (flip c)) DE)) (myP p) in
                          if tmp =? 0 then Some false else
                          let from := fst (pop_lsb tmp) in
                          do to <- sq_to_o from (dir_plus (fwd c) DW); Some (lg (hl_move from to ENPASSANT))))
                = Some (existsb lg (ep_comp p DW) || existsb lg (ep_comp p DE))).
  { change (vep v) with (ep p). unfold ep_comp. destruct (ep_facts p Hlegal) as [He|[He _]].
    - rewrite He. reflexivity.
    - replace (ep p =? 64) with false by (clear - He; lia). unfold sq_bb. rewrite (sqbb_exact _ He). cbn [bind].
      rewrite D6w, D6e. cbn [shift_bb].
      replace (dir_plus (fwd c) DE) with (Some (opp (capdir (flip c) DW)))
        by (clear - Hc; assert (c = 0 \/ c = 1) as [-> | ->] by lia; reflexivity).
      replace (dir_plus (fwd c) DW) with (Some (opp (capdir (flip c) DE)))
        by (clear - Hc; assert (c = 0 \/ c = 1) as [-> | ->] by lia; reflexivity).
      pose proof (ep_probe DW (or_introl eq_refl) He) as P1. pose proof (ep_probe DE (or_intror eq_refl) He) as P2.
      cbv zeta in P1, P2. rewrite P1, P2. apply or_else_some. }
  cbv zeta in Hep. rewrite Hep.
  (* officers *)
  assert (Ho : first_legal_o (fun pt => do pcs <- pbb v c pt;
                 first_legal_o (fun from => do mv <- get_attacks_bb pt from (occ_of b);
                    first_legal lg (fun to => Some (hl_move from to NORMAL)) (sq_list_of_bb (N.ldiff mv (occ_word b c))))
                    (sq_list_of_bb pcs)) [KNIGHT; BISHOP; ROOK; QUEEN] = Some (existsb lg hl_off)).
  { unfold hl_off. rewrite <- existsb_flat_map. apply first_legal_o_some. intros pt Hpt.
    assert (Hofc : officer pt) by (unfold officer; cbn [In] in Hpt; intuition).
    destruct (officer_lt pt Hofc) as (H7 & Hnz & _).
    rewrite (pbb_c p Hlegal pt H7). cbn [bind]. unfold hl_off_pt. rewrite <- existsb_flat_map.
    apply first_legal_o_some. intros from Hf.
    apply (sq_list_in _ from (piece_word_lt b c pt)) in Hf. apply (piece_bit p pt from Hnz) in Hf as [Hf _].
    rewrite <- (Hocc p Hlegal), (gab_officer p Hlegal pt from Hofc Hf). cbn [bind].
    apply to_list_probe; [exact Hf|apply ldiff_lt; apply att_word_lt]. }
  rewrite Ho.
  (* double steps *)
  assert (Hd : first_legal lg (fun to => do mid <- sq_to_o to (Some (fwd (flip c))); do from <- sq_to_o mid (Some (fwd (flip c)));
                                         Some (hl_move from to NORMAL)) (sq_list_of_bb (dbl_push_word p))
               = Some (existsb lg (double_list p))).
  { unfold double_list. apply first_legal_some. intros u Hu. apply (sq_list_in _ u (dbl_push_word_lt p)) in Hu.
    apply (dbl_push_word_bit p Hlegal) in Hu as (s & t & Hs & E & _ & _ & E2 & _).
    assert (Ht : t < 64) by now apply step_lt in E. assert (Hu : u < 64) by now apply step_lt in E2.
    rewrite <- D3. rewrite (back_from (fwd c) t u Ht E2). cbn [bind]. rewrite (back_from (fwd c) s t (proj1 Hs) E). cbn [bind].
    rewrite (from_of_eq (fwd c) t u Ht E2), (from_of_eq (fwd c) s t (proj1 Hs) E). f_equal.
    apply hl_move_code; [apply Hs|exact Hu|reflexivity]. }
  rewrite Hd.
  (* single steps *)
  rewrite <- D3. rewrite (pawn_probe (push_word p) (fwd c) (push_word_lt p)).
  2:{ intros t Ht. apply push_word_bit in Ht as [s [Hs [E _]]]. now exists s. }
  rewrite D3.
  (* captures *)
  rewrite D4w, D4e, D6w, D6e. cbn [shift_bb].
  replace (capdir (flip c) DE) with (opp (capdir c DW)) by (clear - Hc; assert (c = 0 \/ c = 1) as [-> | ->] by lia; reflexivity).
  replace (capdir (flip c) DW) with (opp (capdir c DE)) by (clear - Hc; assert (c = 0 \/ c = 1) as [-> | ->] by lia; reflexivity).
  fold (cap_word p DW). fold (cap_word p DE).
  rewrite (pawn_probe (cap_word p DW) (capdir c DW) (cap_word_lt p DW)).
  2:{ intros t Ht. apply (cap_word_bit p Hlegal) in Ht as [s [Hs [E _]]]. now exists s. }
  rewrite (pawn_probe (cap_word p DE) (capdir c DE) (cap_word_lt p DE)).
  2:{ intros t Ht. apply (cap_word_bit p Hlegal) in Ht as [s [Hs [E _]]]. now exists s. }
  rewrite !or_else_some. f_equal. unfold hl_cands, hl_king, hl_push, hl_cap. rewrite !existsb_app. reflexivity.
Qed.

End HasLegal.

(** ** rules: legality does not depend on the piece a pawn promotes to *)
Lemma walkb_zero_ext b1 b2 d : (forall u, (at_ b1 u =? 0) = (at_ b2 u =? 0)) ->
  forall n s, walkb n b1 d s = walkb n b2 d s.
Proof.
  intros H. induction n as [|n IH]; intros s; cbn [walkb]; [reflexivity|].
  destruct (step d s) as [t|]; [|reflexivity]. rewrite (H t), IH. reflexivity.
Qed.

Lemma rays_zero_ext b1 b2 dirs s : (forall u, (at_ b1 u =? 0) = (at_ b2 u =? 0)) -> rays_from b1 dirs s = rays_from b2 dirs s.
Proof. intros H. unfold rays_from. f_equal. apply map_ext. intros d. now apply walkb_zero_ext. Qed.

Lemma type_clause_zero_ext b1 b2 s x a ty : (forall u, (at_ b1 u =? 0) = (at_ b2 u =? 0)) ->
  type_clause b1 s x a ty = type_clause b2 s x a ty.
Proof. intros H. unfold type_clause. now rewrite !(rays_zero_ext b1 b2 _ a H). Qed.

Section ProbeLegal.
Variable p : pos.
Hypothesis Hlegal : legal_pos p = true.
Local Notation b := (brd p).
Local Notation c := (stm p).
Local Notation ec := (flip (stm p)).
Local Notation k0 := (king_sq (brd p) (stm p)).

(* the king is found on the same square and is attacked by the same pieces when the piece
   arriving on t is replaced by another own non-king piece *)
Lemma in_check_same_arrival s t pc1 pc2 (b1 b2 : list N) :
  s < 64 -> t < 64 -> k0 <> s -> k0 <> t ->
  (forall a, at_ b1 a = if a =? t then pc1 else if a =? s then 0 else at_ b a) ->
  (forall a, at_ b2 a = if a =? t then pc2 else if a =? s then 0 else at_ b a) ->
  pc1 <> 0 -> pc2 <> 0 -> colour_of pc1 = c -> colour_of pc2 = c ->
  pc1 <> mk_piece c KING -> pc2 <> mk_piece c KING ->
  in_check_b b1 c = in_check_b b2 c.
Proof.
  intros Hs Ht Nks Nkt H1 H2 Z1 Z2 C1 C2 K1' K2'.
  destruct (king_facts p Hlegal) as (K1 & K2 & K3).
  pose proof (legal_wfp p Hlegal) as Hw. pose proof (wf_stm p Hw) as Hc.
  assert (Hec : ec < 2 /\ ec <> c) by (clear - Hc; unfold flip; lia). destruct Hec as [E1 E2].
  assert (Hk : forall bi pci, (forall a, at_ bi a = if a =? t then pci else if a =? s then 0 else at_ b a) ->
                              pci <> mk_piece c KING -> king_sq bi c = k0).
  { intros bi pci Hi Hp. apply king_sq_intro; [exact K1| |].
    - rewrite Hi. replace (k0 =? t) with false by (symmetry; now apply N.eqb_neq).
      replace (k0 =? s) with false by (symmetry; now apply N.eqb_neq). exact K2.
    - intros a Ha E. rewrite Hi in E. destruct (N.eqb_spec a t); [contradiction|].
      destruct (N.eqb_spec a s); [symmetry in E; now apply mkp_king_nz in E|now apply K3]. }
  unfold in_check_b. rewrite (Hk b1 pc1 H1 K1'), (Hk b2 pc2 H2 K2').
  assert (Hz : forall u, (at_ b1 u =? 0) = (at_ b2 u =? 0)).
  { intros u. rewrite H1, H2. destruct (u =? t); [|reflexivity].
    replace (pc1 =? 0) with false by (symmetry; now apply N.eqb_neq).
    replace (pc2 =? 0) with false by (symmetry; now apply N.eqb_neq). reflexivity. }
  assert (Hatt : forall a, att_from b1 k0 ec a = att_from b2 k0 ec a).
  { intros a. rewrite !att_from_clause. rewrite H1, H2. destruct (N.eqb_spec a t) as [Ea|Ea].
    - rewrite C1, C2. replace (c =? ec) with false by (symmetry; apply N.eqb_neq; congruence).
      now rewrite !andb_false_r.
    - now rewrite (type_clause_zero_ext b1 b2 k0 ec a _ Hz). }
  apply bool_eq_iff. rewrite !(attacked_ex _ k0 ec K1 E1). split; intros [a [Ha Hx]]; exists a; (split; [exact Ha|]).
  - now rewrite <- Hatt.
  - now rewrite Hatt.
Qed.

Lemma normal_probe_legal s t pr : s < 64 -> t < 64 -> at_ b s = mk_piece c PAWN ->
  (at_ b t = 0 \/ (at_ b t <> 0 /\ colour_of (at_ b t) <> c)) -> prom_piece pr ->
  is_legal p (mkmv s t NORMAL 3) = is_legal p (mkmv s t PROMOTION pr).
Proof.
  intros Hs Ht Hat Hto Hpr. destruct (king_facts p Hlegal) as (K1 & K2 & K3).
  pose proof (legal_wfp p Hlegal) as Hw. pose proof (wf_stm p Hw) as Hc. pose proof (wf_len p Hw) as Hlen.
  assert (Hpr' : 3 <= pr <= 6) by (destruct Hpr as [->|[->|[->| ->]]]; vm_compute; split; discriminate).
  unfold is_legal. cbn [mtype]. change (NORMAL =? CASTLING) with false. change (PROMOTION =? CASTLING) with false.
  cbn [andb]. apply (f_equal negb).
  apply (in_check_same_arrival s t (at_ b s) (mk_piece c pr)); try assumption.
  - intros E. rewrite <- E, K2 in Hat. apply mk_piece_inj in Hat; unfold KING, PAWN in *; lia.
  - intros E. rewrite <- E, K2 in Hto. destruct Hto as [Hto|[_ Hto]]; [now apply mkp_king_nz in Hto|].
    rewrite mkp_colour_king in Hto. now apply Hto.
  - intros a. now rewrite (at_make_simple p (mkmv s t NORMAL 3) Hlen Hs Ht (or_introl eq_refl) a).
  - intros a. now rewrite (at_make_simple p (mkmv s t PROMOTION pr) Hlen Hs Ht (or_intror eq_refl) a).
  - rewrite Hat. apply mkp_nz. unfold PAWN. lia.
  - apply mkp_nz. lia.
  - rewrite Hat. apply mk_piece_colour. unfold PAWN. lia.
  - apply mk_piece_colour. lia.
  - rewrite Hat. intros E. apply mk_piece_inj in E; unfold KING, PAWN in *; lia.
  - intros E. apply mk_piece_inj in E; unfold KING in *; lia.
Qed.

End ProbeLegal.

(** ** rules: legal castling implies a legal king step *)
(* the four (king from, transit) pairs *)
Definition transit_pairs : list (N * N) := [(4, 5); (4, 3); (60, 61); (60, 59)].

Lemma transit_geom_check :
  forallb (fun '(kf, tr) =>
    existsb (N.eqb tr) (king_targets kf) &&
    forallb (fun e => forallb (fun a =>
      if ray_in 0 e tr a && existsb (N.eqb kf) (btw e tr a)
      then ray_in 0 e kf a && forallb (fun u => existsb (N.eqb u) (btw e tr a)) (btw e kf a)
      else true) squares64) all_dirs) transit_pairs = true.
Proof. vm_compute. reflexivity. Qed.

Lemma transit_geom kf tr e a : In (kf, tr) transit_pairs -> a < 64 ->
  In tr (king_targets kf) /\
  (ray_in 0 e tr a = true -> In kf (btw e tr a) ->
   ray_in 0 e kf a = true /\ forall u, In u (btw e kf a) -> In u (btw e tr a)).
Proof.
  intros Hin Ha. pose proof transit_geom_check as H. rewrite forallb_forall in H. specialize (H _ Hin). cbv beta iota in H.
  apply andb_true_iff in H as [H1 H2]. split; [now apply existsb_eqb_In|].
  intros Hr Hk. rewrite forallb_forall in H2. specialize (H2 e (in_all_dirs e)).
  pose proof (forall_squares _ H2 a Ha) as G. cbv beta in G. rewrite Hr in G.
  replace (existsb (N.eqb kf) (btw e tr a)) with true in G by (symmetry; now apply existsb_eqb_In). cbn [andb] in G.
  apply andb_true_iff in G as [G1 G2]. split; [exact G1|]. intros u Hu. rewrite forallb_forall in G2.
  apply existsb_eqb_In. now apply G2.
Qed.

Lemma no_self_attack' bd t x a ty : t < 64 -> x < 2 -> 1 <= ty <= 6 -> type_clause bd t x a ty = true -> a <> t.
Proof.
  intros Ht Hx Hty Hcl E. subst a. unfold type_clause in Hcl.
  assert (Hs : forall ty', ~ In t (spec_targets bd ty' t)) by (intros ty'; now apply targets_not_self).
  destruct (ty =? PAWN).
  { pose proof self_attack_check as H. rewrite forallb_forall in H. assert (Hin : In x [0;1]) by (cbn [In]; clear - Hx; lia).
    pose proof (forall_squares _ (H x Hin) t Ht) as G. cbv beta in G. now rewrite Hcl in G. }
  destruct (ty =? KNIGHT) eqn:E1; [apply existsb_eqb_In in Hcl; apply (Hs KNIGHT); exact Hcl|].
  destruct (ty =? KING) eqn:E2; [apply existsb_eqb_In in Hcl; apply (Hs KING); exact Hcl|].
  destruct (ty =? ROOK) eqn:E3; [apply existsb_eqb_In in Hcl; apply (Hs ROOK); exact Hcl|].
  destruct (ty =? BISHOP) eqn:E4; [apply existsb_eqb_In in Hcl; apply (Hs BISHOP); exact Hcl|].
  destruct (ty =? QUEEN) eqn:E5; [apply existsb_eqb_In in Hcl; apply (Hs QUEEN); exact Hcl|discriminate].
Qed.

Section CastleStep.
Variable p : pos.
Hypothesis Hlegal : legal_pos p = true.
Local Notation b := (brd p).
Local Notation c := (stm p).
Local Notation ec := (flip (stm p)).

Lemma castle_implies_king_step m : In m (pseudo p) -> mtype m = CASTLING -> is_legal p m = true ->
  exists kf tr, kf < 64 /\ at_ b kf = mk_piece c KING /\ In tr (king_targets kf) /\ free_or_enemy b c tr = true /\
                In (mkmv kf tr NORMAL 3) (pseudo p) /\ is_legal p (mkmv kf tr NORMAL 3) = true.
Proof.
  intros Hm Hc His. destruct (king_facts p Hlegal) as (K1 & K2 & K3).
  pose proof (legal_wfp p Hlegal) as Hw. pose proof (wf_stm p Hw) as Hcc. pose proof (wf_len p Hw) as Hlen.
  assert (Hec : ec < 2 /\ ec <> c) by (clear - Hcc; unfold flip; lia). destruct Hec as [E1 E2].
  destruct (pseudo_inv p m Hm) as [Hf Ht Hnz Hcol Hto Hty|E|kf kt rf bit em Hin E Hk Hr Hem].
  { destruct Hty as [[E _]|[E _]]; rewrite E in Hc; discriminate. }
  { rewrite E in Hc. discriminate. }
  set (tr := castle_transit kt).
  assert (Hd : In (kf, tr) transit_pairs /\ In tr em /\ kf < 64 /\ tr < 64 /\ kf <> tr).
  { subst tr. apply castles_in in Hin. clear - Hin.
    decompose [or] Hin; match goal with X : (_, _, _, _, _) = _ |- _ => injection X as -> -> -> -> -> end; cbn; repeat split; auto; lia. }
  destruct Hd as (Hp & Htrem & Hkf & Htr & Nkt).
  unfold is_piece in Hk. apply N.eqb_eq in Hk. assert (Ekf : kf = king_sq b c) by now apply K3.
  rewrite forallb_forall in Hem. pose proof (Hem tr Htrem) as Htr0. apply N.eqb_eq in Htr0.
  (* legality of castling *)
  unfold is_legal in His. rewrite E in His. cbn [mtype mfrom mto] in His. rewrite N.eqb_refl in His. fold tr in His.
  apply andb_true_iff in His as [His _]. apply andb_true_iff in His as [Na Nt].
  apply negb_true_iff in Na, Nt.
  destruct (transit_geom kf tr DN kf Hp Hkf) as [Htk _].
  set (m' := mkmv kf tr NORMAL 3).
  assert (Hm' : In m' (pseudo p)).
  { apply pseudo_of_shape. apply (ps_simple p kf tr KING Hkf); [now right|exact Hk|exact Htk|].
    unfold free_or_enemy. now rewrite Htr0. }
  exists kf, tr. split; [exact Hkf|]. split; [exact Hk|]. split; [exact Htk|].
  split; [unfold free_or_enemy; now rewrite Htr0|]. split; [exact Hm'|]. fold m'.
  (* the king on the transit square is not attacked *)
  assert (Hat : forall a, at_ (brd (make p m')) a = if a =? tr then at_ b kf else if a =? kf then 0 else at_ b a).
  { intros a. now rewrite (at_make_simple p m' Hlen Hkf Htr (or_introl eq_refl) a). }
  assert (Hks : king_sq (brd (make p m')) c = tr).
  { apply king_sq_intro; [exact Htr| |].
    - rewrite Hat, N.eqb_refl. exact Hk.
    - intros s Hs Es. rewrite Hat in Es. destruct (N.eqb_spec s tr) as [X|X]; [exact X|exfalso].
      destruct (N.eqb_spec s kf) as [Y|Y]; [symmetry in Es; now apply mkp_king_nz in Es|].
      apply Y. rewrite Ekf. now apply K3. }
  unfold is_legal. cbn [mtype]. change (NORMAL =? CASTLING) with false. cbn [andb]. apply negb_true_iff.
  unfold in_check_b. rewrite Hks.
  destruct (attacked (brd (make p m')) tr ec) eqn:Hatt; [exfalso|reflexivity].
  apply (attacked_ex _ tr ec Htr E1) in Hatt as [a [Ha Hx]].
  pose proof (not_attacked_all b tr ec Htr E1 Nt a Ha) as Nta.
  pose proof (not_attacked_all b kf ec Hkf E1 Na a Ha) as Nka.
  apply att_from_inv in Hx as (ty & Hty & Haty & Hcl).
  assert (Natr : a <> tr) by (apply (no_self_attack' _ tr ec a ty Htr E1 Hty Hcl)).
  assert (Nakf : a <> kf).
  { intros X. rewrite X, Hat in Haty. replace (kf =? tr) with false in Haty by (symmetry; now apply N.eqb_neq).
    rewrite N.eqb_refl in Haty. symmetry in Haty. apply mkp_nz in Haty; [exact Haty|clear - Hty; lia]. }
  assert (Haty0 : at_ b a = mk_piece ec ty).
  { rewrite Hat in Haty. replace (a =? tr) with false in Haty by (symmetry; now apply N.eqb_neq).
    replace (a =? kf) with false in Haty by (symmetry; now apply N.eqb_neq). exact Haty. }
  rewrite (att_from_piece b tr ec a ty Haty0) in Nta by (clear - Hty; lia).
  rewrite (att_from_piece b kf ec a ty Haty0) in Nka by (clear - Hty; lia).
  destruct (type_cases ty Hty) as [Hns|Hsl].
  { rewrite (nonslider_clause (brd (make p m')) b tr ec a ty Hns) in Hcl. congruence. }
  rewrite (slider_clause (brd (make p m')) tr ec a ty Hsl Htr Ha) in Hcl.
  rewrite (slider_clause b tr ec a ty Hsl Htr Ha) in Nta.
  rewrite (slider_clause b kf ec a ty Hsl Hkf Ha) in Nka.
  unfold slide_in in Hcl, Nta, Nka. apply existsb_exists in Hcl as [e [He Hr']].
  assert (Nte : ray_in (occ_of b) e tr a = false).
  { destruct (ray_in (occ_of b) e tr a) eqn:X; [|reflexivity].
    assert (Y : existsb (fun d => ray_in (occ_of b) d tr a) (dirs_of ty) = true) by (apply existsb_exists; now exists e). congruence. }
  assert (Nke : ray_in (occ_of b) e kf a = false).
  { destruct (ray_in (occ_of b) e kf a) eqn:X; [|reflexivity].
    assert (Y : existsb (fun d => ray_in (occ_of b) d kf a) (dirs_of ty) = true) by (apply existsb_exists; now exists e). congruence. }
  rewrite ray_in_char in Hr', Nte. apply andb_true_iff in Hr' as [R0 Rf']. rewrite R0 in Nte. cbn [andb] in Nte.
  destruct (forallb_false_ex _ _ Nte) as [u [Hu1 Hu2]]. rewrite forallb_forall in Rf'. pose proof (Rf' u Hu1) as Hu3.
  pose proof (btw_lt _ _ _ _ Hu1) as Hu64.
  assert (Eu : u = kf).
  { rewrite free_occ in Hu2, Hu3 by exact Hu64. apply N.eqb_neq in Hu2. apply N.eqb_eq in Hu3. rewrite Hat in Hu3.
    destruct (N.eqb_spec u tr) as [X|X]; [rewrite Hk in Hu3; now apply mkp_king_nz in Hu3|].
    destruct (N.eqb_spec u kf) as [Y|Y]; [exact Y|contradiction]. }
  subst u. destruct (transit_geom kf tr e a Hp Ha) as [_ G]. destruct (G R0 Hu1) as [Rk Hsub].
  rewrite ray_in_char, Rk in Nke. cbn [andb] in Nke.
  destruct (forallb_false_ex _ _ Nke) as [w [Hw1 Hw2]].
  pose proof (Hsub w Hw1) as Hw3. pose proof (Rf' w Hw3) as Hw4. pose proof (btw_lt _ _ _ _ Hw1) as Hw64.
  destruct (btw_not_ends e kf a w Hkf Ha Rk Hw1) as [Nwk _]. destruct (btw_not_ends e tr a w Htr Ha R0 Hw3) as [Nwt _].
  rewrite free_occ in Hw2, Hw4 by exact Hw64. apply N.eqb_neq in Hw2. apply N.eqb_eq in Hw4. rewrite Hat in Hw4.
  replace (w =? tr) with false in Hw4 by (symmetry; now apply N.eqb_neq).
  replace (w =? kf) with false in Hw4 by (symmetry; now apply N.eqb_neq). contradiction.
Qed.

End CastleStep.

(** ** HasLegalMove answers true exactly when there is a legal move *)
Section Exact.
Variable prom_nq : bool.
Variable p : pos.
Hypothesis Hlegal : legal_pos p = true.
Local Notation b := (brd p).
Local Notation c := (stm p).
Local Notation k0 := (king_sq (brd p) (stm p)).
Local Notation lg := (spec_legal_code p).

Lemma lg_code m : valid_mv m -> lg (code m) = is_legal p m.
Proof. apply spec_legal_code_code. Qed.

Lemma own_or_not t : t < 64 -> N.testbit (occ_word b c) t = false -> free_or_enemy b c t = true.
Proof.
  intros Ht H. rewrite (own_bit p Hlegal (fun _ => true) t Ht) in H. unfold free_or_enemy.
  destruct (at_ b t =? 0); [reflexivity|]. cbn [negb andb orb] in *. now rewrite H.
Qed.
Lemma not_own t : t < 64 -> free_or_enemy b c t = true -> N.testbit (occ_word b c) t = false.
Proof.
  intros Ht H. rewrite (own_bit p Hlegal (fun _ => true) t Ht). unfold free_or_enemy in H.
  destruct (at_ b t =? 0); [reflexivity|]. cbn [negb andb orb] in *. apply negb_true_iff in H. now rewrite H.
Qed.
Lemma target_state t : free_or_enemy b c t = true -> at_ b t = 0 \/ (at_ b t <> 0 /\ colour_of (at_ b t) <> c).
Proof.
  unfold free_or_enemy. destruct (N.eqb_spec (at_ b t) 0) as [E|E]; [now left|right].
  cbn [orb] in H. apply negb_true_iff, N.eqb_neq in H. now split.
Qed.

(* a piece move (king or officer) from its candidate list *)
Lemma piece_cand ty from to : from < 64 -> (3 <= ty <= 6 \/ ty = KING) -> at_ b from = mk_piece c ty ->
  In to (spec_targets b ty from) -> free_or_enemy b c to = true ->
  In (mkmv from to NORMAL 3) (pseudo p) /\ mk_code from to NORMAL PT_NONE = code (mkmv from to NORMAL 3) /\
  valid_mv (mkmv from to NORMAL 3).
Proof.
  intros Hf Hty Hat Ht Hfe. pose proof (spec_targets_lt _ _ _ _ Ht) as Hto. split; [|split].
  - apply pseudo_of_shape. now apply (ps_simple p from to ty).
  - now apply mk_code_normal.
  - now apply valid_normal.
Qed.

Lemma in_cands x : In x (hl_cands p) <->
  In x (hl_king p) \/ In x (double_list p) \/ In x (hl_push p) \/ In x (hl_cap p DW) \/ In x (hl_cap p DE) \/
  In x (hl_off p) \/ In x (ep_comp p DW) \/ In x (ep_comp p DE).
Proof. unfold hl_cands. rewrite !in_app_iff. tauto. Qed.

Lemma spec_targets_king bd s : spec_targets bd KING s = king_targets s.
Proof. reflexivity. Qed.

Lemma hl_king_eq : hl_king p = to_list k0 (N.ldiff (bb_of (king_targets k0)) (occ_word b c)).
Proof. reflexivity. Qed.

Lemma king_list_in x k : k < 64 -> In x (to_list k (N.ldiff (bb_of (king_targets k)) (occ_word b c))) ->
  exists to, In to (king_targets k) /\ to < 64 /\ free_or_enemy b c to = true /\ x = mk_code k to NORMAL PT_NONE.
Proof.
  intros K1 Hx. apply (to_list_in k _ x (ldiff_lt _ _ (bb_of_lt _ (king_targets_lt k)))) in Hx as [to [Hb Ex]].
  rewrite N.ldiff_spec, bb_of_testbit in Hb. apply andb_true_iff in Hb as [Hb1 Hb2].
  apply existsb_eqb_In in Hb1. apply negb_true_iff in Hb2. pose proof (king_targets_lt _ _ Hb1) as Hto.
  exists to. repeat split; try assumption. now apply own_or_not.
Qed.

Lemma king_list_intro x k to : k < 64 -> In to (king_targets k) -> free_or_enemy b c to = true ->
  x = mk_code k to NORMAL PT_NONE -> In x (to_list k (N.ldiff (bb_of (king_targets k)) (occ_word b c))).
Proof.
  intros K1 Ht Hf Ex. apply (to_list_in k _ x (ldiff_lt _ _ (bb_of_lt _ (king_targets_lt k)))). exists to. split; [|exact Ex].
  pose proof (king_targets_lt _ _ Ht) as Hto.
  rewrite N.ldiff_spec, bb_of_testbit. apply andb_true_iff. split; [now apply existsb_eqb_In|].
  apply negb_true_iff. now apply not_own.
Qed.

Lemma king_step_pseudo k to : k < 64 -> at_ b k = mk_piece c KING -> In to (king_targets k) -> free_or_enemy b c to = true ->
  In (mkmv k to NORMAL 3) (pseudo p) /\ mk_code k to NORMAL PT_NONE = code (mkmv k to NORMAL 3) /\ valid_mv (mkmv k to NORMAL 3).
Proof.
  intros K1 K2 Ht Hf. rewrite <- (spec_targets_king b k) in Ht. now apply (piece_cand KING k to K1 (or_intror eq_refl) K2 Ht Hf).
Qed.

Lemma snd_king x : In x (hl_king p) -> lg x = true -> exists m, In m (pseudo p) /\ is_legal p m = true.
Proof.
  intros Hx Hl. destruct (king_facts p Hlegal) as (K1 & K2 & K3). rewrite hl_king_eq in Hx.
  destruct (king_list_in x _ K1 Hx) as (to & Ht & Hto & Hf & Ex).
  destruct (king_step_pseudo _ to K1 K2 Ht Hf) as (P1 & P2 & P3).
  eexists. split; [exact P1|]. rewrite <- (lg_code _ P3), <- P2, <- Ex. exact Hl.
Qed.

Lemma snd_double x : In x (double_list p) -> lg x = true -> exists m, In m (pseudo p) /\ is_legal p m = true.
Proof.
  intros Hx Hl. destruct (king_facts p Hlegal) as (K1 & K2 & K3).
  pose proof (legal_wfp p Hlegal) as Hw. pose proof (wf_stm p Hw) as Hc.
  (* double steps *)
    apply (double_class prom_nq p Hlegal) in Hx. apply class_codes_in in Hx as (m & Hm & _ & <-).
    exists m. split; [exact Hm|]. now rewrite <- (lg_code m (pseudo_valid p m Hw Hm)).
Qed.

Lemma snd_push x : In x (hl_push p) -> lg x = true -> exists m, In m (pseudo p) /\ is_legal p m = true.
Proof.
  intros Hx Hl. destruct (king_facts p Hlegal) as (K1 & K2 & K3).
  pose proof (legal_wfp p Hlegal) as Hw. pose proof (wf_stm p Hw) as Hc.
  (* single steps *)
    unfold hl_push in Hx. apply (loop_in p (push_word p) (fwd c) normal1 x (push_word_lt p)) in Hx.
    2:{ intros t Ht. apply push_word_bit in Ht as [s [Hs [E _]]]. now exists s. }
    destruct Hx as (s & t & [Hs Hat] & E & Hb & [<-|[]]). apply push_word_bit in Hb as (s' & _ & _ & E0).
    assert (Ht : t < 64) by now apply step_lt in E.
    rewrite (mk_code_normal s t Hs Ht), (lg_code _ (valid_normal s t Hs Ht)) in Hl.
    destruct (N.eq_dec (rank_of t) (last_rank c)) as [Er|Er].
    + exists (mkmv s t PROMOTION QUEEN). split.
      * apply pseudo_of_shape. apply (ps_pawn p s _ Hs Hat). apply (pawn_moves_pmove prom_nq). eexists.
        apply (pm_promo prom_nq p s t QUEEN E E0 Er). now left.
      * rewrite <- (normal_probe_legal p Hlegal s t QUEEN Hs Ht Hat (or_introl E0) (or_introl eq_refl)). exact Hl.
    + exists (mkmv s t NORMAL 3). split; [|exact Hl].
      apply pseudo_of_shape. apply (ps_pawn p s _ Hs Hat). apply (pawn_moves_pmove prom_nq). eexists.
      apply (pm_single prom_nq p s t E E0 Er).
Qed.

Lemma snd_capw x : In x (hl_cap p DW) -> lg x = true -> exists m, In m (pseudo p) /\ is_legal p m = true.
Proof.
  intros Hx Hl. destruct (king_facts p Hlegal) as (K1 & K2 & K3).
  pose proof (legal_wfp p Hlegal) as Hw. pose proof (wf_stm p Hw) as Hc.
  (* captures west *)
    unfold hl_cap in Hx. apply (loop_in p (cap_word p DW) (capdir c DW) normal1 x (cap_word_lt p DW)) in Hx.
    2:{ intros t Ht. apply (cap_word_bit p Hlegal) in Ht as [s [Hs [E _]]]. now exists s. }
    destruct Hx as (s & t & [Hs Hat] & E & Hb & [<-|[]]). apply (cap_word_bit p Hlegal) in Hb as (s' & _ & _ & Een).
    assert (Ht : t < 64) by now apply step_lt in E.
    assert (Hin : In t (pawn_attack_targets c s)) by (apply (pawn_targets_dirs c s t Hc); now left).
    assert (Hto : at_ b t = 0 \/ (at_ b t <> 0 /\ colour_of (at_ b t) <> c)).
    { right. unfold enemy in Een. apply andb_true_iff in Een as [A B]. apply negb_true_iff, N.eqb_neq in A, B. now split. }
    rewrite (mk_code_normal s t Hs Ht), (lg_code _ (valid_normal s t Hs Ht)) in Hl.
    destruct (N.eq_dec (rank_of t) (last_rank c)) as [Er|Er].
    + exists (mkmv s t PROMOTION QUEEN). split.
      * apply pseudo_of_shape. apply (ps_pawn p s _ Hs Hat). apply (pawn_moves_pmove prom_nq). eexists.
        apply (pm_cappromo prom_nq p s t QUEEN Hin Een Er). now left.
      * rewrite <- (normal_probe_legal p Hlegal s t QUEEN Hs Ht Hat Hto (or_introl eq_refl)). exact Hl.
    + exists (mkmv s t NORMAL 3). split; [|exact Hl].
      apply pseudo_of_shape. apply (ps_pawn p s _ Hs Hat). apply (pawn_moves_pmove prom_nq). eexists.
      apply (pm_cap prom_nq p s t Hin Een Er).
Qed.

Lemma snd_cape x : In x (hl_cap p DE) -> lg x = true -> exists m, In m (pseudo p) /\ is_legal p m = true.
Proof.
  intros Hx Hl. destruct (king_facts p Hlegal) as (K1 & K2 & K3).
  pose proof (legal_wfp p Hlegal) as Hw. pose proof (wf_stm p Hw) as Hc.
  (* captures east *)
    unfold hl_cap in Hx. apply (loop_in p (cap_word p DE) (capdir c DE) normal1 x (cap_word_lt p DE)) in Hx.
    2:{ intros t Ht. apply (cap_word_bit p Hlegal) in Ht as [s [Hs [E _]]]. now exists s. }
    destruct Hx as (s & t & [Hs Hat] & E & Hb & [<-|[]]). apply (cap_word_bit p Hlegal) in Hb as (s' & _ & _ & Een).
    assert (Ht : t < 64) by now apply step_lt in E.
    assert (Hin : In t (pawn_attack_targets c s)) by (apply (pawn_targets_dirs c s t Hc); now right).
    assert (Hto : at_ b t = 0 \/ (at_ b t <> 0 /\ colour_of (at_ b t) <> c)).
    { right. unfold enemy in Een. apply andb_true_iff in Een as [A B]. apply negb_true_iff, N.eqb_neq in A, B. now split. }
    rewrite (mk_code_normal s t Hs Ht), (lg_code _ (valid_normal s t Hs Ht)) in Hl.
    destruct (N.eq_dec (rank_of t) (last_rank c)) as [Er|Er].
    + exists (mkmv s t PROMOTION QUEEN). split.
      * apply pseudo_of_shape. apply (ps_pawn p s _ Hs Hat). apply (pawn_moves_pmove prom_nq). eexists.
        apply (pm_cappromo prom_nq p s t QUEEN Hin Een Er). now left.
      * rewrite <- (normal_probe_legal p Hlegal s t QUEEN Hs Ht Hat Hto (or_introl eq_refl)). exact Hl.
    + exists (mkmv s t NORMAL 3). split; [|exact Hl].
      apply pseudo_of_shape. apply (ps_pawn p s _ Hs Hat). apply (pawn_moves_pmove prom_nq). eexists.
      apply (pm_cap prom_nq p s t Hin Een Er).
Qed.

Lemma hl_off_eq : hl_off p = flat_map (hl_off_pt p) [KNIGHT; BISHOP; ROOK; QUEEN].
Proof. reflexivity. Qed.
Lemma hl_off_pt_eq pt : hl_off_pt p pt =
  flat_map (fun from => to_list from (N.ldiff (att_word p pt from) (occ_word b c))) (sq_list_of_bb (piece_word b c pt)).
Proof. reflexivity. Qed.

Lemma off_list_in' x : In x (hl_off p) <->
  exists pt from to, officer pt /\ from < 64 /\ at_ b from = mk_piece c pt /\ In to (spec_targets b pt from) /\
                     free_or_enemy b c to = true /\ x = mk_code from to NORMAL PT_NONE.
Proof.
  rewrite hl_off_eq, in_flat_map. split.
  - intros [pt [Hpt Hx]].
    assert (Ho : officer pt).
    { unfold officer. cbn [In] in Hpt.
      destruct Hpt as [E|[E|[E|[E|[]]]]]; [left|right; left|right; right; left|right; right; right]; symmetry; exact E. }
    destruct (officer_lt pt Ho) as (H7 & Hnz & Hr).
    rewrite hl_off_pt_eq in Hx. apply in_flat_map in Hx as [from [Hf Hx]].
    apply (sq_list_in _ from (piece_word_lt b c pt)) in Hf. apply (piece_bit p pt from Hnz) in Hf as [Hf Hat].
    apply (to_list_in from _ x (ldiff_lt _ _ (att_word_lt p pt from))) in Hx as [to [Hb Ex]].
    rewrite N.ldiff_spec in Hb. apply andb_true_iff in Hb as [Hb1 Hb2].
    apply (att_word_bit p pt from to Ho) in Hb1. apply negb_true_iff in Hb2.
    pose proof (spec_targets_lt _ _ _ _ Hb1) as Hto.
    exists pt, from, to. repeat split; try assumption. now apply own_or_not.
  - intros (pt & from & to & Ho & Hf & Hat & Ht & Hfe & Ex).
    destruct (officer_lt pt Ho) as (H7 & Hnz & Hr).
    exists pt. split; [destruct Ho as [->|[->|[->| ->]]]; cbn [In]; auto|].
    rewrite hl_off_pt_eq. apply in_flat_map. exists from. split.
    + apply (sq_list_in _ from (piece_word_lt b c pt)). now apply (piece_bit p pt from Hnz).
    + apply (to_list_in from _ x (ldiff_lt _ _ (att_word_lt p pt from))). exists to. split; [|exact Ex].
      pose proof (spec_targets_lt _ _ _ _ Ht) as Hto. rewrite N.ldiff_spec. apply andb_true_iff. split.
      * now apply (att_word_bit p pt from to Ho).
      * apply negb_true_iff. now apply not_own.
Qed.

Lemma snd_off x : In x (hl_off p) -> lg x = true -> exists m, In m (pseudo p) /\ is_legal p m = true.
Proof.
  intros Hx Hl. apply off_list_in' in Hx as (pt & from & to & Ho & Hf & Hat & Ht & Hfe & Ex).
  destruct (officer_lt pt Ho) as (H7 & Hnz & Hr).
  destruct (piece_cand pt from to Hf (or_introl Hr) Hat Ht Hfe) as (P1 & P2 & P3).
  eexists. split; [exact P1|]. rewrite <- (lg_code _ P3), <- P2, <- Ex. exact Hl.
Qed.

Lemma snd_epw x : In x (ep_comp p DW) -> lg x = true -> exists m, In m (pseudo p) /\ is_legal p m = true.
Proof.
  intros Hx Hl. destruct (king_facts p Hlegal) as (K1 & K2 & K3).
  pose proof (legal_wfp p Hlegal) as Hw. pose proof (wf_stm p Hw) as Hc.
  (* en passant *)
    apply (comp_class prom_nq p Hlegal 4 x ltac:(lia)) in Hx. apply class_codes_in in Hx as (m & Hm & _ & <-).
    exists m. split; [exact Hm|]. now rewrite <- (lg_code m (pseudo_valid p m Hw Hm)).
Qed.

Lemma snd_epe x : In x (ep_comp p DE) -> lg x = true -> exists m, In m (pseudo p) /\ is_legal p m = true.
Proof.
  intros Hx Hl. destruct (king_facts p Hlegal) as (K1 & K2 & K3).
  pose proof (legal_wfp p Hlegal) as Hw. pose proof (wf_stm p Hw) as Hc.
  apply (comp_class prom_nq p Hlegal 5 x ltac:(lia)) in Hx. apply class_codes_in in Hx as (m & Hm & _ & <-).
    exists m. split; [exact Hm|]. now rewrite <- (lg_code m (pseudo_valid p m Hw Hm)).
Qed.

Lemma cand_sound x : In x (hl_cands p) -> lg x = true -> exists m, In m (pseudo p) /\ is_legal p m = true.
Proof.
  intros Hx Hl. apply in_cands in Hx. destruct Hx as [Hx|[Hx|[Hx|[Hx|[Hx|[Hx|[Hx|Hx]]]]]]].
  - exact (snd_king x Hx Hl). - exact (snd_double x Hx Hl). - exact (snd_push x Hx Hl). - exact (snd_capw x Hx Hl).
  - exact (snd_cape x Hx Hl). - exact (snd_off x Hx Hl). - exact (snd_epw x Hx Hl). - exact (snd_epe x Hx Hl).
Qed.

End Exact.

Section Exact2.
Variable prom_nq : bool.
Variable p : pos.
Hypothesis Hlegal : legal_pos p = true.
Local Notation b := (brd p).
Local Notation c := (stm p).
Local Notation k0 := (king_sq (brd p) (stm p)).
Local Notation lg := (spec_legal_code p).

Lemma king_cand k to : k < 64 -> at_ b k = mk_piece c KING -> In to (king_targets k) -> free_or_enemy b c to = true ->
  is_legal p (mkmv k to NORMAL 3) = true -> exists x, In x (hl_cands p) /\ lg x = true.
Proof.
  intros Hk Hat Ht Hf Hl. destruct (king_facts p Hlegal) as (K1 & K2 & K3).
  assert (Ek : k = k0) by now apply K3. subst k.
  destruct (king_step_pseudo p _ to K1 K2 Ht Hf) as (P1 & P2 & P3).
  exists (mk_code k0 to NORMAL PT_NONE). split.
  - apply in_cands. left. rewrite (hl_king_eq p). now apply (king_list_intro p Hlegal _ k0 to).
  - rewrite P2, (lg_code p _ P3). exact Hl.
Qed.

Lemma pawn_push_cand s t : s < 64 -> at_ b s = mk_piece c PAWN -> step (fwd c) s = Some t -> at_ b t = 0 ->
  is_legal p (mkmv s t NORMAL 3) = true -> exists x, In x (hl_cands p) /\ lg x = true.
Proof.
  intros Hs Hat E E0 Hl. assert (Ht : t < 64) by now apply step_lt in E.
  exists (mk_code s t NORMAL PT_NONE). split.
  - apply in_cands. right. right. left. unfold hl_push.
    apply (loop_in p (push_word p) (fwd c) normal1 _ (push_word_lt p)).
    + intros u Hu. apply push_word_bit in Hu as [s' [Hs' [E' _]]]. now exists s'.
    + exists s, t. split; [now split|]. split; [exact E|]. split; [|now left].
      apply push_word_bit. exists s. repeat split; assumption.
  - rewrite (mk_code_normal s t Hs Ht), (lg_code p _ (valid_normal s t Hs Ht)). exact Hl.
Qed.

Lemma pawn_cap_cand s t : s < 64 -> at_ b s = mk_piece c PAWN -> In t (pawn_attack_targets c s) -> enemy b c t = true ->
  is_legal p (mkmv s t NORMAL 3) = true -> exists x, In x (hl_cands p) /\ lg x = true.
Proof.
  intros Hs Hat Hin Een Hl. pose proof (wf_stm p (legal_wfp p Hlegal)) as Hc.
  assert (Ht : t < 64) by now apply pawn_targets_lt in Hin.
  exists (mk_code s t NORMAL PT_NONE). split.
  - apply in_cands. apply (pawn_targets_dirs c s t Hc) in Hin. destruct Hin as [E|E].
    + right. right. right. left. unfold hl_cap.
      apply (loop_in p (cap_word p DW) (capdir c DW) normal1 _ (cap_word_lt p DW)).
      * intros u Hu. apply (cap_word_bit p Hlegal) in Hu as [s' [Hs' [E' _]]]. now exists s'.
      * exists s, t. split; [now split|]. split; [exact E|]. split; [|now left].
        apply (cap_word_bit p Hlegal). exists s. repeat split; assumption.
    + right. right. right. right. left. unfold hl_cap.
      apply (loop_in p (cap_word p DE) (capdir c DE) normal1 _ (cap_word_lt p DE)).
      * intros u Hu. apply (cap_word_bit p Hlegal) in Hu as [s' [Hs' [E' _]]]. now exists s'.
      * exists s, t. split; [now split|]. split; [exact E|]. split; [|now left].
        apply (cap_word_bit p Hlegal). exists s. repeat split; assumption.
  - rewrite (mk_code_normal s t Hs Ht), (lg_code p _ (valid_normal s t Hs Ht)). exact Hl.
Qed.

Lemma class_cand k m : In m (pseudo p) -> cls prom_nq p m = N.of_nat k -> is_legal p m = true ->
  (In (code m) (class_codes prom_nq p k) -> In (code m) (hl_cands p)) -> exists x, In x (hl_cands p) /\ lg x = true.
Proof.
  intros Hm Hc Hl Hin. exists (code m). split.
  - apply Hin. apply class_codes_in. now exists m.
  - rewrite (lg_code p m (pseudo_valid p m (legal_wfp p Hlegal) Hm)). exact Hl.
Qed.

Lemma cand_complete m : In m (pseudo p) -> is_legal p m = true -> exists x, In x (hl_cands p) /\ lg x = true.
Proof.
  intros Hm Hl. pose proof (legal_wfp p Hlegal) as Hw. pose proof (wf_stm p Hw) as Hc.
  pose proof (pseudo_shape p m Hw Hm) as Hsh.
  destruct Hsh as [s t ty Hs Hty E Ht Hf|s m Hs E Hpm|m Hcm].
  - (* king and officers *)
    destruct Hty as [Hty|Hty].
    + exists (mk_code s t NORMAL PT_NONE). pose proof (spec_targets_lt _ _ _ _ Ht) as Ht64. split.
      * apply in_cands. do 5 right. left. apply (off_list_in' p Hlegal). exists ty, s, t.
        repeat split; try assumption; try reflexivity.
        unfold officer, KNIGHT, BISHOP, ROOK, QUEEN. clear - Hty. lia.
      * rewrite (mk_code_normal s t Hs Ht64), (lg_code p _ (valid_normal s t Hs Ht64)). exact Hl.
    + subst ty. rewrite spec_targets_king in Ht. now apply (king_cand s t).
  - (* pawns *)
    apply (proj1 (pawn_moves_pmove prom_nq p s m)) in Hpm. destruct Hpm as [k Hk].
    pose proof (pmove_cls prom_nq p s m k Hc Hs E Hk) as Hcls.
    destruct Hk as [t E1 E0 Hr|t pr E1 E0 Hr Hpr|t u E1 E0 Es E2 Eu|t Ht Een Hr|t pr Ht Een Hr Hpr|t Ht Een Ee E0].
    + now apply (pawn_push_cand s t).
    + assert (Ht64 : t < 64) by now apply step_lt in E1.
      apply (pawn_push_cand s t Hs E E1 E0).
      rewrite (normal_probe_legal p Hlegal s t pr Hs Ht64 E (or_introl E0) Hpr). exact Hl.
    + apply (class_cand 10 _ Hm Hcls Hl). intros Hin. apply in_cands. right. left. now apply (double_class prom_nq p Hlegal).
    + now apply (pawn_cap_cand s t).
    + assert (Ht64 : t < 64) by now apply pawn_targets_lt in Ht.
      apply (pawn_cap_cand s t Hs E Ht Een).
      assert (Hto : at_ b t = 0 \/ (at_ b t <> 0 /\ colour_of (at_ b t) <> c)).
      { right. unfold enemy in Een. apply andb_true_iff in Een as [A B]. apply negb_true_iff, N.eqb_neq in A, B. now split. }
      rewrite (normal_probe_legal p Hlegal s t pr Hs Ht64 E Hto Hpr). exact Hl.
    + destruct (file_of s <? file_of t) eqn:Ef.
      * apply (class_cand 4 _ Hm Hcls Hl). intros Hin. apply in_cands. do 6 right. left.
        now apply (comp_class prom_nq p Hlegal 4 _ ltac:(lia)).
      * apply (class_cand 5 _ Hm Hcls Hl). intros Hin. apply in_cands. do 7 right.
        now apply (comp_class prom_nq p Hlegal 5 _ ltac:(lia)).
  - (* castling: the king step onto the transit square is legal as well *)
    assert (Hct : mtype m = CASTLING) by (now apply castle_moves_valid in Hcm).
    destruct (castle_implies_king_step p Hlegal m Hm Hct Hl) as (kf & tr & Hkf & Hk & Htk & Hf & _ & Hl').
    now apply (king_cand kf tr).
Qed.

Theorem has_legal_move_exact :
  has_legal_move_impl (view_of_spec p) (spec_legal_code p) =
  Some (negb (match legal p with [] => true | _ => false end)).
Proof.
  rewrite (has_legal_candidates p Hlegal). f_equal.
  destruct (legal p) as [|m0 r] eqn:El; cbn [negb].
  - destruct (existsb lg (hl_cands p)) eqn:Ex; [exfalso|reflexivity].
    apply existsb_exists in Ex as [x [Hx Hl]]. destruct (cand_sound prom_nq p Hlegal x Hx Hl) as [m [Hm Hlm]].
    assert (Hin : In m (legal p)) by (apply filter_In; now split). rewrite El in Hin. destruct Hin.
  - assert (Hin : In m0 (legal p)) by (rewrite El; now left). apply filter_In in Hin as [Hm Hl].
    destruct (cand_complete m0 Hm Hl) as [x [Hx Hlx]]. apply existsb_exists. now exists x.
Qed.

End Exact2.

Print Assumptions has_legal_move_exact.
