(** * CasesLifecycle: three-valued trace acceptance for the C12 / C14 correspondence run.
    [Lifecycle.accepts] answers [false] both when the model cannot produce the trace and when its
    breadth-first search over schedules runs out of fuel.  Here the two are told apart: a trace the
    model REJECTS is a disagreement between model and engine; a trace on which the search is EXHAUSTED
    is inconclusive (long traces with several competing timers) and is only counted. *)
From Coq Require Import List Bool Arith FSets.FSetPositive.
From FG Require Import Lifecycle.
Import ListNotations.

Inductive verdict3 := Accept | Reject | Exhausted.

Fixpoint accepts3_from (fuel : nat) (front : list state) (tr : list event) : verdict3 :=
  match tr with
  | [] => match front with [] => Reject | _ => Accept end
  | e :: r => match closure (Some e) fuel front PositiveSet.empty [] with
              | None => Exhausted
              | Some [] => Reject
              | Some hits => accepts3_from fuel hits r
              end
  end.

Definition accepts3 (cs : list call) (tr : list event) : verdict3 :=
  accepts3_from (300 * 1000) [norm 64 (init true false false cs)] tr.

(* (indices of rejected traces, indices of inconclusive traces) *)
Fixpoint lc3_from (i : nat) (cases : list (list call * list event)) : list nat * list nat :=
  match cases with
  | [] => ([], [])
  | (cs, tr) :: r =>
      let '(rej, exh) := lc3_from (S i) r in
      match accepts3 cs tr with
      | Accept => (rej, exh)
      | Reject => (i :: rej, exh)
      | Exhausted => (rej, i :: exh)
      end
  end.
Definition lc_mismatches3 := lc3_from 0.

(* agreement with the two-valued checker *)
Lemma accepts3_from_accepts fuel front tr :
  accepts_from fuel front tr = match accepts3_from fuel front tr with Accept => true | _ => false end.
Proof.
  revert front; induction tr as [|e r IH]; intros front; cbn [accepts_from accepts3_from].
  - destruct front; reflexivity.
  - destruct (closure (Some e) fuel front PositiveSet.empty []) as [[|h hits]|]; try reflexivity. apply IH.
Qed.
