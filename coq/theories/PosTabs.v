(** * PosTabs: the engine's real tables as a [PosImpl.tabs] record, and finite facts
    about them (checked by computation on the tables dumped from the running engine,
    gen/Tables_gen.v, which is regenerated on every run).

    The tables are converted ONCE ([Eval vm_compute]) from primitive-integer pairs to
    plain [N] / [Z] lists, so [real_tabs] itself mentions no primitive integer and
    extracts with ExtrOcamlBasic. *)
From Coq Require Import NArith ZArith List Bool Lia Uint63.
From FG Require Import Geom Word64 Rules PosImpl.
From FG.gen Require Import Tables_gen.
Import ListNotations.
Open Scope N_scope.

Definition zp_list : list N := Eval vm_compute in map n_of_pair z_pieces.
Definition zc_list : list N := Eval vm_compute in map n_of_pair z_castling.
Definition ze_list : list N := Eval vm_compute in map n_of_pair z_ep.
Definition zn_val : N := Eval vm_compute in nth 0 (map n_of_pair z_next) 0.
Definition psqm_list : list Z := Eval vm_compute in concat c_psq_mid.
Definition psqe_list : list Z := Eval vm_compute in concat c_psq_end.
Definition pval_list : list Z := Eval vm_compute in c_piece_type_value.
Definition phval_list : list Z := Eval vm_compute in c_game_phase_value.

Definition nthN {A} (l : list A) (i : N) (d : A) : A := nth (N.to_nat i) l d.

Definition real_tabs : tabs :=
  mktabs (fun pc sq => nthN zp_list (64 * pc + sq) 0)
         (fun c => nthN zc_list c 0)
         (fun f => nthN ze_list f 0)
         zn_val
         (fun ty => nthN pval_list ty 0%Z)
         (fun ty => nthN phval_list ty 0%Z)
         (fun pc sq => nthN psqm_list (64 * pc + sq) 0%Z)
         (fun pc sq => nthN psqe_list (64 * pc + sq) 0%Z)
         true.

(* the same engine with the two game-phase clamps deleted *)
Definition real_tabs_noclamp : tabs :=
  mktabs (zp real_tabs) (zc real_tabs) (ze real_tabs) (zn real_tabs) (pval real_tabs) (phval real_tabs)
         (psqm real_tabs) (psqe real_tabs) false.

(** ** shapes *)
Lemma table_shapes :
  length zp_list = 1024%nat /\ length zc_list = 16%nat /\ length ze_list = 8%nat /\
  length psqm_list = 1024%nat /\ length psqe_list = 1024%nat /\
  length pval_list = 7%nat /\ length phval_list = 7%nat /\
  forallb (fun r => Nat.eqb (length r) 64) c_psq_mid = true /\
  forallb (fun r => Nat.eqb (length r) 64) c_psq_end = true.
Proof. repeat split; vm_compute; reflexivity. Qed.

(** ** constants used literally in PosImpl *)
Lemma move_layout :
  c_square_mask = 63 /\ c_from_mask = 4032 /\ c_from_shift = 6 /\
  c_prom_type_mask = 12288 /\ c_prom_type_shift = 12 /\
  c_move_type_mask = 49152 /\ c_type_shift = 14.
Proof. repeat split; reflexivity. Qed.

Lemma game_phase_max_is_24 : c_game_phase_max = GamePhaseMax.
Proof. reflexivity. Qed.

Lemma max_moves_is_512 : c_max_moves = Z.of_nat MaxHistory.
Proof. reflexivity. Qed.

(** ** piece values (used by material_exact) and game-phase values *)
Lemma real_pvals :
  pval real_tabs 0 = 0%Z /\ pval real_tabs KING = 2000%Z /\ pval real_tabs PAWN = 100%Z /\
  pval real_tabs KNIGHT = 320%Z /\ pval real_tabs BISHOP = 330%Z /\
  pval real_tabs ROOK = 500%Z /\ pval real_tabs QUEEN = 900%Z.
Proof. repeat split; reflexivity. Qed.

Lemma real_phvals :
  phval real_tabs 0 = 0%Z /\ phval real_tabs KING = 0%Z /\ phval real_tabs PAWN = 0%Z /\
  phval real_tabs KNIGHT = 1%Z /\ phval real_tabs BISHOP = 1%Z /\
  phval real_tabs ROOK = 2%Z /\ phval real_tabs QUEEN = 4%Z.
Proof. repeat split; reflexivity. Qed.

Lemma real_phval_nonneg ty : (0 <= phval real_tabs ty)%Z.
Proof.
  unfold real_tabs, phval, nthN.
  destruct (N.to_nat ty) as [|[|[|[|[|[|[|[|n]]]]]]]]; cbn; lia.
Qed.

(** ** the 1049 Zobrist randoms: all below 2^64, non-zero and pairwise distinct *)
Definition all_randoms : list N := zp_list ++ zc_list ++ ze_list ++ [zn_val].

Fixpoint insert_sorted (x : N) (l : list N) : list N :=
  match l with
  | [] => [x]
  | y :: r => if x <=? y then x :: l else y :: insert_sorted x r
  end.
Definition nsort (l : list N) : list N := fold_right insert_sorted [] l.

Fixpoint distinctb (l : list N) : bool :=
  match l with
  | [] => true
  | x :: r => negb (existsb (N.eqb x) r) && distinctb r
  end.

Lemma distinctb_NoDup l : distinctb l = true -> NoDup l.
Proof.
  induction l as [|x r IH]; intro H; [constructor|].
  cbn in H. apply andb_true_iff in H as [Hx Hr]. constructor; [|auto].
  intro Hin. apply negb_true_iff in Hx.
  assert (existsb (N.eqb x) r = true) by (apply existsb_exists; exists x; split; [exact Hin|apply N.eqb_refl]).
  congruence.
Qed.

Lemma randoms_count : length all_randoms = 1049%nat.
Proof. reflexivity. Qed.

Lemma randoms_distinct : NoDup all_randoms.
Proof. apply distinctb_NoDup. vm_cast_no_check (eq_refl true). Qed.

Lemma randoms_nonzero : forall x, In x all_randoms -> x <> 0.
Proof.
  assert (H : forallb (fun x => negb (x =? 0)) all_randoms = true) by (vm_cast_no_check (eq_refl true)).
  rewrite forallb_forall in H. intros x Hx. specialize (H x Hx).
  apply negb_true_iff, N.eqb_neq in H. exact H.
Qed.

Lemma randoms_64bit : forall x, In x all_randoms -> x < W64.
Proof.
  assert (H : forallb (fun x => x <? W64) all_randoms = true) by (vm_cast_no_check (eq_refl true)).
  rewrite forallb_forall in H. intros x Hx. apply N.ltb_lt. exact (H x Hx).
Qed.
