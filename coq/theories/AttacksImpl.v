(** * AttacksImpl: executable model of the engine's attack / check / legality predicates (C09).

    Transcription of
      internal/position/position.go : IsAttacked, HasCheck, GivesCheck, IsLegalMove, WasLegalMove
      internal/attacks/attacks.go   : AttacksTo
      internal/types/bitboard.go    : GetAttacksBb, GetPawnAttacks, Has, PushSquare, PopSquare
      internal/types/square.go      : To
    over a [BitView.bview].  Every array access of the Go code is a partial lookup here
    ([None] = the Go code would index out of range or panic), so a result [Some x] is the
    statement "the Go function returns x without failing".  Go's [||] and [&&] are
    short-circuit operators: the model evaluates (and may fail in) the right operand only
    when Go does.

    The lookup tables are the ones of [FG.gen.Tables_gen], dumped from the running engine. *)
From Coq Require Import NArith ZArith List Bool.
From FG Require Import Word64 Geom Tables Rules FenSpec BitView.
From FG.gen Require Import Tables_gen.
Import ListNotations.
Open Scope N_scope.

Definition bind {A B} (o : option A) (f : A -> option B) : option B :=
  match o with Some x => f x | None => None end.
Notation "'do' x <- e ; f" := (bind e (fun x => f))
  (at level 200, x name, e at level 100, f at level 200, right associativity).

(** ** internal/types *)
(* color.go:42   func (c Color) Flip() Color { return c ^ 1 } *)
Definition flipc (c : N) : N := N.lxor c 1.

(* color.go:72   var pawnDir = [2]Direction{North, South};  MoveDirection() = pawnDir[c] *)
Definition move_direction (c : N) : option dir :=
  if c =? 0 then Some DN else if c =? 1 then Some DS else None.

(* direction.go:46  Directions = {North, East, South, West, Northeast, Southeast, Southwest, Northwest}
   = second index of sqTo *)
Definition dir_idx (d : dir) : N :=
  match d with DN => 0 | DE => 1 | DS => 2 | DW => 3 | DNE => 4 | DSE => 5 | DSW => 6 | DNW => 7 end.

(* square.go:156  func (sq Square) To(d Direction) Square { switch d { case North: return sqTo[sq][0] ...
   sqTo is [SqLength][8]Square: sq = SqNone (64) is out of range; the result is SqNone (64)
   when there is no such square *)
Definition sq_to (s : N) (d : dir) : option N :=
  if s <? 64 then looki t_sq_to (8 * s + dir_idx d) else None.

(* bitboard.go:42   func (sq Square) Bb() Bitboard { return sqBb[sq] }      sqBb [SqLength]Bitboard *)
Definition sq_bb (s : N) : option N := look t_sqbb s.

(* bitboard.go:52   PushSquare: b |= s.Bb() *)
Definition push_square (b s : N) : option N := do m <- sq_bb s; Some (N.lor b m).
(* bitboard.go:63   PopSquare: b = b &^ s.Bb() *)
Definition pop_square (b s : N) : option N := do m <- sq_bb s; Some (N.ldiff b m).
(* bitboard.go:69   Has: b&sqBb[s] != 0 *)
Definition has (b s : N) : option bool := do m <- sq_bb s; Some (negb (N.land b m =? 0)).

(* bitboard.go:379  GetPawnAttacks(c, sq) = pawnAttacks[c][sq]     pawnAttacks [2][SqLength]Bitboard *)
Definition get_pawn_attacks (c s : N) : option N :=
  if c =? 0 then look t_pawn_attacks_w s else if c =? 1 then look t_pawn_attacks_b s else None.

(* bitboard.go:354  GetAttacksBb(pt, sq, occupied):
     Bishop: bishopMagics[sq].Attacks[bishopMagics[sq].index(occupied)]
     Rook:   rookMagics[sq].Attacks[...]          Queen: bishop | rook
     Knight, King: pseudoAttacks[pt][sq]          default: panic *)
Definition get_attacks_bb (pt s occ : N) : option N :=
  if pt =? BISHOP then bishop_attacks_impl s occ
  else if pt =? ROOK then rook_attacks_impl s occ
  else if pt =? QUEEN then queen_attacks_impl s occ
  else if pt =? KNIGHT then look t_pseudo_knight s
  else if pt =? KING then look t_pseudo_king s
  else None.

(* bitboard.go:414  NeighbourFilesMask = neighbourFilesMask[sq] *)
Definition neighbour_files_mask (s : N) : option N := look t_neighbour_files s.
(* square.go:119    RankOf = Rank(sq >> 3);  rank.go:53  Bb = rankBb[r]   (rankBb [8]Bitboard);
   bitboard.go:813  rankBb[i] = Rank1_Bb << (8 * i),  Rank1_Bb = 0xFF *)
Definition rank_bb (r : N) : option N := if r <? 8 then Some (wshl 255 (8 * r)) else None.

(** ** reading the position *)
(* p.piecesBb[c][pt]      [ColorLength][PtLength]Bitboard = [2][7] *)
Definition pbb (v : bview) (c pt : N) : option N :=
  if (c <? 2) && (pt <? 7) then nthN (pieces v) (7 * c + pt) else None.
(* position.go:1129 OccupiedAll = occupiedBb[White] | occupiedBb[Black] *)
Definition occ_all (v : bview) : N := N.lor (occw v) (occb v).
(* p.board[sq]            [SqLength]Piece *)
Definition board_at (v : bview) (s : N) : option N := nthN (vboard v) s.
(* p.kingSquare[c]        [ColorLength]Square *)
Definition king_square (v : bview) (c : N) : option N :=
  if c =? 0 then Some (fst (vking v)) else if c =? 1 then Some (snd (vking v)) else None.

(* x & y != 0  /  x & y > 0  on uint64 *)
Definition meets (x y : N) : bool := negb (N.land x y =? 0).

(** ** position.go:360  IsAttacked(sq, by) *)

(* position.go:393-399 / 407-413
     square := sq.To(West); if square != SqNone && p.board[square] == pawn { return true }
     square = sq.To(East);  return square != SqNone && p.board[square] == pawn *)
Definition ep_neighbours (v : bview) (sq pawn : N) : option bool :=
  do l <- sq_to sq DW;
  do lhit <- (if l =? 64 then Some false else do x <- board_at v l; Some (x =? pawn));
  if lhit then Some true else
  do r <- sq_to sq DE;
  if r =? 64 then Some false else do x <- board_at v r; Some (x =? pawn).

(* position.go:385-417: the en-passant clause of IsAttacked *)
Definition is_attacked_ep (v : bview) (sq by_ : N) : option bool :=
  (* 385: if p.enPassantSquare != SqNone { switch by { *)
  if vep v =? 64 then Some false else
  if by_ =? WHITE then
    (* 389: if p.board[p.enPassantSquare.To(South)] == BlackPawn && p.enPassantSquare.To(South) == sq *)
    do t <- sq_to (vep v) DS;
    do pc <- board_at v t;
    if (pc =? mk_piece BLACK PAWN) && (t =? sq) then ep_neighbours v sq (mk_piece WHITE PAWN)
    else Some false
  else if by_ =? BLACK then
    (* 403: if p.board[p.enPassantSquare.To(North)] == WhitePawn && p.enPassantSquare.To(North) == sq *)
    do t <- sq_to (vep v) DN;
    do pc <- board_at v t;
    if (pc =? mk_piece WHITE PAWN) && (t =? sq) then ep_neighbours v sq (mk_piece BLACK PAWN)
    else Some false
  else Some false.

Definition is_attacked_impl (v : bview) (sq by_ : N) : option bool :=
  (* 365: occupiedAll := p.OccupiedAll() *)
  let occ := occ_all v in
  (* 368: GetPawnAttacks(by.Flip(), sq) & p.piecesBb[by][Pawn] != 0 || *)
  do pa <- get_pawn_attacks (flipc by_) sq;
  do pw <- pbb v by_ PAWN;
  if meets pa pw then Some true else
  (* 369: GetAttacksBb(Knight, sq, BbZero) & p.piecesBb[by][Knight] != 0 || *)
  do na <- get_attacks_bb KNIGHT sq 0;
  do nw <- pbb v by_ KNIGHT;
  if meets na nw then Some true else
  (* 370: GetAttacksBb(King, sq, BbZero) & p.piecesBb[by][King] != 0  { return true } *)
  do ka <- get_attacks_bb KING sq 0;
  do kw <- pbb v by_ KING;
  if meets ka kw then Some true else
  (* 378: GetAttacksBb(Bishop, sq, occupiedAll) & p.piecesBb[by][Bishop] > 0 || *)
  do ba <- get_attacks_bb BISHOP sq occ;
  do bw <- pbb v by_ BISHOP;
  if meets ba bw then Some true else
  (* 379: GetAttacksBb(Rook, sq, occupiedAll) & p.piecesBb[by][Rook] > 0 || *)
  do ra <- get_attacks_bb ROOK sq occ;
  do rw <- pbb v by_ ROOK;
  if meets ra rw then Some true else
  (* 380: GetAttacksBb(Queen, sq, occupiedAll) & p.piecesBb[by][Queen] > 0 { return true } *)
  do qa <- get_attacks_bb QUEEN sq occ;
  do qw <- pbb v by_ QUEEN;
  if meets qa qw then Some true else
  (* 385-417 *)
  is_attacked_ep v sq by_.

(** ** position.go:517  HasCheck (the value computed when the cache flag is TBD)
       check := p.IsAttacked(p.kingSquare[p.nextPlayer], p.nextPlayer.Flip()) *)
Definition has_check_impl (v : bview) : option bool :=
  do k <- king_square v (vstm v);
  is_attacked_impl v k (flipc (vstm v)).

(** ** attacks.go:159  AttacksTo(p, square, color) *)
(* attacks.go:161-169  the en-passant clause of AttacksTo *)
Definition attacks_to_ep (v : bview) (square color : N) : option N :=
  (* 163: if enPassantSquare != SqNone && enPassantSquare == square *)
  if negb (vep v =? 64) && (vep v =? square) then
    (* 164: pawnSquare := enPassantSquare.To(color.Flip().MoveDirection()) *)
    do d <- move_direction (flipc color);
    do ps <- sq_to (vep v) d;
    (* 165: epAttacker := pawnSquare.NeighbourFilesMask() & pawnSquare.RankOf().Bb() & p.PiecesBb(color, Pawn) *)
    do nf <- neighbour_files_mask ps;
    do rb <- rank_bb (N.shiftr ps 3);
    do pw <- pbb v color PAWN;
    (* 166: if epAttacker != BbZero { epAttacks |= pawnSquare.Bb() } *)
    if meets (N.land nf rb) pw then do m <- sq_bb ps; Some (N.lor 0 m) else Some 0
  else Some 0.

Definition attacks_to_impl (v : bview) (square color : N) : option N :=
  (* 161-169: epAttacks *)
  do epAttacks <- attacks_to_ep v square color;
  (* 171 *)
  let occ := occ_all v in
  (* 178: GetPawnAttacks(color.Flip(), square) & p.PiecesBb(color, Pawn) *)
  do pa <- get_pawn_attacks (flipc color) square;  do pw <- pbb v color PAWN;
  (* 180: GetAttacksBb(Knight, square, occupiedAll) & p.PiecesBb(color, Knight) *)
  do na <- get_attacks_bb KNIGHT square occ;       do nw <- pbb v color KNIGHT;
  (* 182: GetAttacksBb(King, square, occupiedAll) & p.PiecesBb(color, King) *)
  do ka <- get_attacks_bb KING square occ;         do kw <- pbb v color KING;
  (* 184: GetAttacksBb(Rook, square, occupiedAll) & (p.PiecesBb(color, Rook) | p.PiecesBb(color, Queen)) *)
  do ra <- get_attacks_bb ROOK square occ;         do rw <- pbb v color ROOK;  do qw <- pbb v color QUEEN;
  (* 186: GetAttacksBb(Bishop, square, occupiedAll) & (p.PiecesBb(color, Bishop) | p.PiecesBb(color, Queen)) *)
  do ba <- get_attacks_bb BISHOP square occ;       do bw <- pbb v color BISHOP; do qw2 <- pbb v color QUEEN;
  Some (N.lor (N.lor (N.lor (N.lor (N.lor (N.land pa pw) (N.land na nw)) (N.land ka kw))
                            (N.land ra (N.lor rw qw))) (N.land ba (N.lor bw qw2))) epAttacks).

(** ** move.go: decoding the 16-bit move *)
Definition mv_type (m : N) : N := N.shiftr (N.land m c_move_type_mask) c_type_shift.      (* move.go:89 *)
Definition mv_prom (m : N) : N := N.shiftr (N.land m c_prom_type_mask) c_prom_type_shift + KNIGHT. (* :96 *)
Definition mv_to (m : N) : N := N.land m c_square_mask.                                    (* :101 *)
Definition mv_from (m : N) : N := N.shiftr (N.land m c_from_mask) c_from_shift.            (* :106 *)

(* the rook's destination for a castling move, as in the switch of GivesCheck (658-667) and
   the transit square in the switches of IsLegalMove (435-454) / WasLegalMove (488-507);
   any other destination falls through *)
Definition castle_rook_to (t : N) : N :=
  if t =? 6 then 5 else if t =? 2 then 3 else if t =? 62 then 61 else if t =? 58 then 59 else t.
Definition castle_transit_impl (t : N) : option N :=
  if t =? 6 then Some 5 else if t =? 2 then Some 3 else if t =? 62 then Some 61 else if t =? 58 then Some 59 else None.

(** ** position.go:633  GivesCheck(move) *)
Definition gives_check_impl (v : bview) (move : N) : option bool :=
  (* 635-639 *)
  let us := vstm v in
  let them := flipc us in
  do kingSq <- king_square v them;
  (* 642-647 *)
  let fromSq := mv_from move in
  let toSq0 := mv_to move in
  do fromPc <- board_at v fromSq;
  let fromPt0 := N.land fromPc 7 in              (* piece.go:102 TypeOf = p & 7 *)
  let moveType := mv_type move in
  (* 649-671: switch moveType *)
  let fromPt := if moveType =? PROMOTION then mv_prom move
                else if moveType =? CASTLING then ROOK else fromPt0 in
  let toSq := if moveType =? CASTLING then castle_rook_to toSq0 else toSq0 in
  do epTargetSq <- (if moveType =? ENPASSANT
                    then do d <- move_direction them; sq_to toSq d   (* 670 *)
                    else Some 64);
  (* 674-681 *)
  do b1 <- pop_square (occ_all v) fromSq;
  do b2 <- push_square b1 toSq;
  do boardAfterMove <- (if moveType =? ENPASSANT then pop_square b2 epTargetSq else Some b2);
  (* 684-695: direct checks *)
  do direct <-
    (if fromPt =? PAWN then do pa <- get_pawn_attacks us toSq; has pa kingSq
     else if fromPt =? KING then Some false
     else do a <- get_attacks_bb fromPt toSq boardAfterMove; has a kingSq);
  if direct then Some true else
  (* 701-708: revealed checks *)
  do ba <- get_attacks_bb BISHOP kingSq boardAfterMove; do bw <- pbb v us BISHOP;
  if meets ba bw then Some true else
  do ra <- get_attacks_bb ROOK kingSq boardAfterMove;   do rw <- pbb v us ROOK;
  if meets ra rw then Some true else
  do qa <- get_attacks_bb QUEEN kingSq boardAfterMove;  do qw <- pbb v us QUEEN;
  if meets qa qw then Some true else
  Some false.

(** ** position.go:423  IsLegalMove(move)
    [v] is the position before the move, [v_after] the view after [p.DoMove(move)]
    (the do/undo model of the position refinement supplies it). *)
Definition castle_checks (v : bview) (move by_ : N) : option bool :=
  (* 431 / 484: if p.IsAttacked(move.From(), by) { return false } *)
  do a <- is_attacked_impl v (mv_from move) by_;
  if a then Some true else
  (* 435-454 / 488-507: switch move.To() { case SqG1: if p.IsAttacked(SqF1, by) {return false} ... default: break } *)
  match castle_transit_impl (mv_to move) with
  | Some t => is_attacked_impl v t by_
  | None => Some false
  end.

Definition is_legal_impl (v v_after : bview) (move : N) : option bool :=
  (* 425-455 *)
  do bad <- (if mv_type move =? CASTLING then castle_checks v move (flipc (vstm v)) else Some false);
  if bad then Some false else
  (* 458-461: p.DoMove(move); legal := !p.IsAttacked(p.kingSquare[p.nextPlayer.Flip()], p.nextPlayer) *)
  do k <- king_square v_after (flipc (vstm v_after));
  do a <- is_attacked_impl v_after k (vstm v_after);
  Some (negb a).

(** ** position.go:470  WasLegalMove()   on the position after the move; [last] is
    p.history[p.historyCounter-1].move (historyCounter > 0) *)
Definition was_legal_impl (v_after : bview) (last : N) : option bool :=
  (* 472: if p.IsAttacked(p.kingSquare[p.nextPlayer.Flip()], p.nextPlayer) { return false } *)
  do k <- king_square v_after (flipc (vstm v_after));
  do a <- is_attacked_impl v_after k (vstm v_after);
  if a then Some false else
  (* 476-509 *)
  if mv_type last =? CASTLING then
    do bad <- castle_checks v_after last (vstm v_after);
    Some (negb bad)
  else Some true.

(** ** executable correspondence checks: feed real observations through the model *)
Definition opt_bool_eqb (o : option bool) (b : bool) : bool :=
  match o with Some x => Bool.eqb x b | None => false end.
Definition opt_N_eqb (o : option N) (n : N) : bool :=
  match o with Some x => x =? n | None => false end.

Definition is_attacked_case (fen : str) (s c : N) (observed : bool) : bool :=
  match parse fen with
  | Some p => opt_bool_eqb (is_attacked_impl (view_of_spec p) s c) observed
  | None => false end.

Definition attacks_to_case (fen : str) (s c observed : N) : bool :=
  match parse fen with
  | Some p => opt_N_eqb (attacks_to_impl (view_of_spec p) s c) observed
  | None => false end.

Definition has_check_case (fen : str) (observed : bool) : bool :=
  match parse fen with
  | Some p => opt_bool_eqb (has_check_impl (view_of_spec p)) observed
  | None => false end.

Definition gives_check_case (fen : str) (code : N) (observed : bool) : bool :=
  match parse fen with
  | Some p => opt_bool_eqb (gives_check_impl (view_of_spec p) code) observed
  | None => false end.

(* (pre, post): IsLegalMove on the position, WasLegalMove after DoMove; the successor view is
   the view of the FEN the engine printed after DoMove *)
Definition legal_case (fen fen_after : str) (code : N) (obs_pre obs_post : bool) : bool :=
  match parse fen, parse fen_after with
  | Some p, Some q =>
      opt_bool_eqb (is_legal_impl (view_of_spec p) (view_of_spec q) code) obs_pre &&
      opt_bool_eqb (was_legal_impl (view_of_spec q) code) obs_post
  | _, _ => false end.

(* whole 64-square attack map of one colour, as the harness observes it *)
Definition is_attacked_map_case (fen : str) (c : N) (observed : list bool) : bool :=
  match parse fen with
  | Some p => let v := view_of_spec p in
              (length observed =? 64)%nat &&
              forallb (fun '(s, o) => opt_bool_eqb (is_attacked_impl v s c) o) (combine squares64 observed)
  | None => false end.

Definition att_case_ok (fen : str) (attw attb : list bool) (atts : list (N * N * N))
           (check : bool) (gcs : list (N * bool)) : bool :=
  is_attacked_map_case fen WHITE attw && is_attacked_map_case fen BLACK attb &&
  forallb (fun '(s, c, o) => attacks_to_case fen s c o) atts &&
  has_check_case fen check &&
  forallb (fun '(m, o) => gives_check_case fen m o) gcs.
