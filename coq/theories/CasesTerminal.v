(** * CasesTerminal: evaluation helper for the C07 correspondence run.
    A case = one node of a real search as seen through the move-loop hook of the engine
    (search.VerifLoopHook): per delivered move one event code
      1 futility-pruned   2 skipped (search: late move pruning; qsearch: not a good capture)
      3 illegal (undone)  4 legal, counted   5 legal, counted, stop observed (function returns)
      6 legal, counted, beta cut (loop left)
    together with what the engine had when the loop was over (movesSearched, movesPruned) and how it
    classified the node (0 nothing, 1 checkmate, 2 stalemate).  The model's loop is run with the
    oracle answers read off the events; its counters and its verdict must be the engine's. *)
From Coq Require Import List ZArith Bool Arith.
From FG Require Import Terminal.
Import ListNotations.

Definition sdec_of (e : nat) : ldec :=
  match e with
  | 1 => mkLdec true true false false false
  | 2 => mkLdec true false true false false
  | 5 => mkLdec false false false true false
  | 6 => mkLdec false false false false true
  | _ => mkLdec false false false false false
  end.
Definition qdec_of (e : nat) : qdec :=
  match e with
  | 1 => mkQdec true true true false false
  | 2 => mkQdec false false false false false
  | 5 => mkQdec false false true true false
  | 6 => mkQdec false false true false true
  | _ => mkQdec false false true false false
  end.
Definition flag_of (e : nat) : bool := negb (Nat.eqb e 3).
Definition vcode (v : verdict) : nat := match v with VNone => 0 | VMate => 1 | VStalemate => 2 end.

(* (is_qsearch, in_check, has_legal_move, lmp threshold, events, (returned, movesSearched, movesPruned, verdict)) *)
Definition term_case := (bool * bool * bool * nat * list nat * (bool * nat * nat * nat))%type.

Definition term_case_ok (c : term_case) : bool :=
  let '(isq, in_check, hl, thr, evs, (ret, ms, mp, vd)) := c in
  let dec_s := fun i => sdec_of (nth i evs 0) in
  let dec_q := fun i => qdec_of (nth i evs 0) in
  let flags := map flag_of evs in
  if isq then
    let r := qloop in_check dec_q flags 0 0 in
    Bool.eqb (r_returned r) ret &&
    (ret || (Nat.eqb (r_searched r) ms &&
             Nat.eqb (vcode (qsearch_verdict in_check dec_q false flags (seq 0 (length flags)))) vd))
  else
    let r := sloop in_check thr dec_s flags 0 0 0 in
    Bool.eqb (r_returned r) ret &&
    (ret || (Nat.eqb (r_searched r) ms && Nat.eqb (r_pruned r) mp &&
             Nat.eqb (vcode (classify true in_check hl false r)) vd)).

Fixpoint mismt (i : nat) (l : list term_case) : list nat :=
  match l with [] => [] | c :: r => (if term_case_ok c then [] else [i]) ++ mismt (S i) r end.
Definition term_mismatches := mismt 0.
