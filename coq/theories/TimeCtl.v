(* ====================================================================== *)
(* TimeCtl.v  --  executable MODEL for property C13 (search limits).       *)
(*                                                                        *)
(* Transcribes (current, repaired code):                                  *)
(*   /repo/internal/search/search.go   setupTimeControl   (649-693)       *)
(*                                     addExtraTime       (702-709)       *)
(*                                     startTimer         (714-735)       *)
(*                                     stopConditions     (598-606)       *)
(*                                     iterativeDeepening (408-554)       *)
(*   /repo/internal/search/alphabeta.go rootSearch/search/qsearch          *)
(*                                     (only the node counter / stop flow) *)
(*   /repo/internal/uci/uci.go         readSearchLimits   (435-606)       *)
(*                                                                        *)
(* Units: all durations are Go time.Duration = int64 NANOSECONDS.         *)
(* Floating point: Coq primitive binary64 floats (PrimFloat), i.e. the    *)
(* same IEEE-754 round-to-nearest-even operations the Go compiler emits   *)
(* on amd64 (no FMA contraction on amd64; for the 25 game-phase cases a    *)
(* fused 15+25*f gives the same integer anyway).                           *)
(* Proofs are in TimeCtlProofs.v.                                          *)
(* ====================================================================== *)
From Coq Require Import ZArith NArith List Bool Floats Uint63.
Import ListNotations.
Local Open Scope Z_scope.

(* ---------------------------------------------------------------------- *)
(** * Machine integers and float <-> int64 conversions                     *)
(* ---------------------------------------------------------------------- *)

(** two's complement int64 wrap-around (Go int64 arithmetic).              *)
Definition wrap64 (z : Z) : Z := (z + 2^63) mod 2^64 - 2^63.

Definition ms : Z := 1000000.          (* time.Millisecond in ns           *)

(** Go [int64(f)] for a float64 [f] given by its SpecFloat view: truncation
    toward zero.  [None] for NaN/infinity (Go: implementation defined; never
    reached from int64 inputs, see [trunc_mul_some] in the proofs).         *)
Definition sf_trunc (f : spec_float) : option Z :=
  match f with
  | S754_zero _ => Some 0
  | S754_finite s m e =>
      let a := match e with
               | Z0 => Zpos m
               | Zpos p => Zpos m * 2 ^ Zpos p
               | Zneg p => Zpos m / 2 ^ Zpos p
               end in
      Some (if s then - a else a)
  | S754_infinity _ => None
  | S754_nan => None
  end.

(** Go [float64(x)] for an int64 [0 <= x < 2^63] (round to nearest even;
    exact below 2^53).                                                      *)
Definition f64_of_nonneg (x : Z) : float := PrimFloat.of_uint63 (Uint63.of_Z x).

(** the float64 constants of the Go source, as exact hex literals          *)
Definition c08 : float := 0x1.999999999999ap-1%float.   (* 0.8 *)
Definition c09 : float := 0x1.ccccccccccccdp-1%float.   (* 0.9 *)
Definition c10 : float := 1%float.                      (* 2.0 - 1.0 *)

(** Go [int64(c * float64(x))] for an int64 [x].  float64 conversion,
    multiplication and truncation are all sign-symmetric, so a negative [x]
    is computed through [|x|].  [None] only for [x = -2^63].                *)
Definition trunc_mul (c : float) (x : Z) : option Z :=
  if Z.abs x <? 2^63 then
    match sf_trunc (Prim2SF (PrimFloat.mul c (f64_of_nonneg (Z.abs x)))) with
    | Some a => Some (if x <? 0 then - a else a)
    | None => None
    end
  else None.

(* ---------------------------------------------------------------------- *)
(** * setupTimeControl  (search.go:649-693)                                *)
(* ---------------------------------------------------------------------- *)

(** search.go:664  [int64(15 + (25 * p.GamePhaseFactor()))] with
    position.go:1166 [GamePhaseFactor = float64(gamePhase) / 24]; the game
    phase is clamped to 0..24 by position.go:860-889.                       *)
(** types.go: GamePhaseMax = 24 (compared with the engine's value in ConstTie.v) *)
Definition GamePhaseMax : Z := 24.

Definition moves_left_float (phase : Z) : option Z :=
  if (0 <=? phase) && (phase <? 2^63) then
    sf_trunc (Prim2SF (15 + 25 * (f64_of_nonneg phase / f64_of_nonneg GamePhaseMax))%float)
  else None.

(** the integer characterisation (proved equal for phase 0..24)            *)
Definition moves_left_int (phase : Z) : Z := 15 + (25 * phase) / GamePhaseMax.

(** search.go:660-665 *)
Definition moves_left (movestogo phase : Z) : option Z :=
  if movestogo =? 0 then moves_left_float phase else Some movestogo.

(** search.go:667-675: clock and increment of the side to move.
    stm: 0 = White, 1 = Black (types/color.go:36-37); the Go switch has no
    default, so any other value leaves both at 0.                           *)
Definition clock_inc (wtime btime winc binc : Z) (stm : N) : Z * Z :=
  match stm with
  | 0%N => (wtime, winc)
  | 1%N => (btime, binc)
  | _ => (0, 0)
  end.

(** search.go:676-682: [timeLeft / movesLeft] (Go: truncated division =
    Z.quot) capped by the clock.                                            *)
Definition raw_limit (clock inc movesLeft : Z) : Z :=
  let timeLeft := wrap64 (clock + wrap64 (movesLeft * inc)) in   (* :671/:674 *)
  let timeLimit := wrap64 (Z.quot timeLeft movesLeft) in          (* :677 *)
  if timeLimit >? clock then clock else timeLimit.                (* :680-682 *)

(** search.go:684-690: the safety margin *)
Definition margin (timeLimit : Z) : option Z :=
  if Z.quot timeLimit ms <? 100                 (* :684 Duration.Milliseconds *)
  then trunc_mul c08 timeLimit                  (* :686 *)
  else trunc_mul c09 timeLimit.                 (* :689 *)

Definition setup_time_control_opt
  (movetime wtime btime winc binc : Z) (movestogo : Z) (phase : Z) (stm : N)
  : option Z :=
  if 0 <? movetime then                                        (* :650 *)
    let duration := movetime - 20 * ms in                      (* :652 *)
    if duration <? 0 then Some movetime                        (* :653-656 *)
    else Some duration                                         (* :657 *)
  else
    match moves_left movestogo phase with                      (* :660-665 *)
    | None => None
    | Some movesLeft =>
        let '(clock, inc) := clock_inc wtime btime winc binc stm in
        margin (raw_limit clock inc movesLeft)
    end.

(** The requested signature.  [None] cannot occur for int64 inputs other than
    the (unreachable) -2^63 / NaN cases; the placeholder is the amd64
    "integer indefinite" value that CVTTSD2SQ would deliver.               *)
Definition setup_time_control
  (movetime wtime btime winc binc : Z) (movestogo : Z) (phase : Z) (stm : N) : Z :=
  match setup_time_control_opt movetime wtime btime winc binc movestogo phase stm with
  | Some z => z
  | None => - 2^63
  end.

(** Alternative exact-rational margin ((x*8)/10, (x*9)/10) and the model
    built on it; the proofs bound the distance to the float model.         *)
Definition margin_q (timeLimit : Z) : Z :=
  if Z.quot timeLimit ms <? 100 then Z.quot (timeLimit * 8) 10
  else Z.quot (timeLimit * 9) 10.

Definition setup_time_control_q
  (movetime wtime btime winc binc : Z) (movestogo : Z) (phase : Z) (stm : N) : Z :=
  if 0 <? movetime then
    let duration := movetime - 20 * ms in
    if duration <? 0 then movetime else duration
  else
    let movesLeft := if movestogo =? 0 then moves_left_int phase else movestogo in
    let '(clock, inc) := clock_inc wtime btime winc binc stm in
    margin_q (raw_limit clock inc movesLeft).

(* ---------------------------------------------------------------------- *)
(** * readSearchLimits (uci.go:435-606): what reaches setupTimeControl     *)
(* ---------------------------------------------------------------------- *)

(** uci.go:512/524/536/548/559: milliseconds -> ns by [* 1_000_000]         *)
Definition ms_to_ns (v : Z) : Z := wrap64 (v * 1000000).

(** uci.go:513/525/537: TimeControl is set by movetime, wtime or btime
    tokens (NOT by winc/binc/movestogo).                                    *)
Definition uci_time_control (has_movetime has_wtime has_btime : bool) : bool :=
  has_movetime || has_wtime || has_btime.

(** uci.go:592-604: a clock-time "go" is rejected iff the mover's time is
    exactly 0 (a NEGATIVE time is accepted).                                *)
Definition uci_rejects (time_control : bool) (movetime wtime btime : Z) (stm : N) : bool :=
  time_control && (movetime =? 0) &&
  match stm with
  | 0%N => wtime =? 0
  | 1%N => btime =? 0
  | _ => false
  end.

(* ---------------------------------------------------------------------- *)
(** * addExtraTime (search.go:702-709) and the timer (714-735)             *)
(* ---------------------------------------------------------------------- *)

(** search.go:706-709: the clock addExtraTime caps with: WhiteTime unless the
    side to move of s.currentPosition (set by StartSearch, search.go:154, the
    same position run() searches) is Black.                                   *)
Definition extra_clock (wtime btime : Z) (stm : N) : Z :=
  match stm with 1%N => btime | _ => wtime end.

(** addExtraTime (search.go:702-717, repaired).  [fm1] is the float64 value
    [f - 1.0] (for the only call site, search.go:469 [addExtraTime(2.0)],
    that is exactly 1.0 = [c10]); [clock] = [extra_clock ...].
    Returns the new extraTime.                                              *)
Definition add_extra_time (fm1 : float) (time_control : bool)
  (movetime limit extra clock : Z) : option Z :=
  if time_control && (movetime =? 0) then                       (* :703 *)
    match trunc_mul fm1 limit with                              (* :704 *)
    | Some d =>
        let d' := if limit + extra + d >? clock                 (* :710 *)
                  then clock - limit - extra                    (* :711 *)
                  else d in
        Some (extra + d')                                       (* :713 *)
    | None => None
    end
  else Some extra.

(** search.go:466-471 in iterativeDeepening: the first searched (non book)
    move after a book move gets addExtraTime(2.0).  run() (search.go:288,
    :622) resets extraTime to 0 before, so the deadline used by the timer
    (startTimer [timeLimit + extraTime]) is:                                *)
Definition deadline (had_book_move time_control : bool) (movetime limit clock : Z) : option Z :=
  if had_book_move && time_control && (movetime =? 0) then      (* :466 *)
    match add_extra_time c10 time_control movetime limit 0 clock with
    | Some e => Some (limit + e)
    | None => None
    end
  else Some limit.

(** startTimer (search.go:723-733): relaxed busy wait, polling every
    [period] (5 ms) starting at elapsed time 0: the stop flag is set at the
    first poll instant k*period with k*period >= deadline (plus scheduler
    jitter, which is outside the model).                                    *)
Definition timer_fire (deadline period : Z) : Z :=
  if deadline <=? 0 then 0 else ((deadline + period - 1) / period) * period.

Definition poll_period : Z := 5 * ms.

(* ---------------------------------------------------------------------- *)
(** * Depth loop of iterativeDeepening (search.go:473-518)                 *)
(* ---------------------------------------------------------------------- *)

Definition MaxDepth : nat := 128.            (* types.go:54 *)

(** search.go:474-477 *)
Definition max_depth (depth_limit : nat) : nat :=
  match depth_limit with O => MaxDepth | _ => depth_limit end.

(** [stopped_after k]: value of stopConditions() at search.go:508 after
    iteration k has been searched.  Returns the number of iterations run
    (= Result.SearchDepth, search.go:530).  Fuel = remaining iterations:
    the Go loop [for iterationDepth := 0; iterationDepth < maxDepth;]
    with [iterationDepth++] as first statement of the body.                 *)
Fixpoint id_loop (fuel : nat) (done : nat) (nroot : nat) (stopped_after : nat -> bool) : nat :=
  match fuel with
  | O => done                                              (* :486 condition false *)
  | S fuel' =>
      let it := S done in                                  (* :487 *)
      if negb (stopped_after it) && (1 <? nroot)%nat        (* :508 *)
      then id_loop fuel' it nroot stopped_after
      else it                                              (* :516 break *)
  end.

(** search.go:426-441: with no legal root move iterativeDeepening returns
    before the loop (0 iterations).                                         *)
Definition iterations (depth_limit nroot : nat) (stopped_after : nat -> bool) : nat :=
  match nroot with
  | O => O
  | _ => id_loop (max_depth depth_limit) 0 nroot stopped_after
  end.

(* ---------------------------------------------------------------------- *)
(** * searchmoves filter (search.go:443-461)                               *)
(* ---------------------------------------------------------------------- *)

(** types/move.go:110,206: MoveOf strips the sort value (upper 16 bits)     *)
Definition move_of (m : N) : N := N.land m 0xFFFF.

(** search.go:446-453 *)
Definition listed (lst : list N) (m : N) : bool :=
  existsb (fun lm => N.eqb (move_of lm) (move_of m)) lst.

(** search.go:445-461.  [root] = generated legal root moves.               *)
Definition filter_root (root lst : list N) : list N :=
  match lst with
  | [] => root                                               (* :445 Len() > 0 *)
  | _ =>
      if existsb (listed lst) root                           (* :454-457 anyListed *)
      then filter (listed lst) root                          (* :459 *)
      else root                                              (* filter skipped *)
  end.

(* ---------------------------------------------------------------------- *)
(** * Node limit: abstract model of the recursion                          *)
(* ---------------------------------------------------------------------- *)

(** Only the flow of [nodesVisited] and of the calls of stopConditions() is
    modelled; everything else of the search (values, pruning decisions, TT
    cuts, move ordering, beta cuts) is abstracted into the SHAPE of the call
    tree: the children list of a frame is the sequence of child calls the
    frame makes as long as stopConditions() stays false (a value dependent
    early exit such as a beta cut is simply a shorter list).  The theorems
    quantify over ALL trees, so they hold whatever the values are.  The only
    value dependent step that happens AFTER a stop (rootSearch at depth 1) is
    modelled explicitly, see [rrun].

    stopConditions (search.go:598-606) with a node limit L > 0 and no other
    stop source: returns true iff nodesVisited >= L (the flag is sticky, and
    nodesVisited never decreases, so "flag set" = "n >= L at some earlier
    call" implies n >= L now).  nodesVisited is incremented at exactly five
    places: search.go:490 (per iteration), alphabeta.go:80 (root move),
    :332 (null move), :595 (search move), :935 (qsearch move).                *)
Definition stop_cond (L n : Z) : bool := L <=? n.

(** qsearch call tree (alphabeta.go:763-1019): the children are the moves
    that reach DoMove+legal (:926-935) in move-loop order.  There is NO
    stopConditions() at the entry of qsearch; it is evaluated only after a
    child returned (:956).                                                   *)
Inductive qtree := QNode (children : list qtree).

(** search call tree (alphabeta.go:174-753).
    - [SLeaf q]: the frame hands over to qsearch (:190-192 depth==0 /
      ply>=MaxDepth, or razoring :273-279) -- after the entry check :185.
    - [SCut]: the frame returns without any child (MDP :200, TT cut :250,
      RFP :292, no legal move :727).
    - [SNode cs]: the sequence of child searches in program order; the bool
      says whether nodesVisited++ precedes the call: true for a move
      (:595) and the null move (:332), false for the IID search (:389) and
      for the PVS/LMR re-searches (:629/:632).  After every child there is a
      stopConditions() check that returns when true (:337, :393, :646; the
      re-search guard :625 is the same check placed before the call, which
      is equivalent because a stopped child returns at :185 unchanged).
      A repetition/50-move draw child (:600) is a [(true, SCut)].           *)
Inductive stree :=
| SLeaf (q : qtree)
| SCut
| SNode (children : list (bool * stree)).

(** the move loop of a qsearch frame; [rec] runs a child frame *)
Definition qloop (rec : qtree -> Z -> Z) (L : Z) : list qtree -> Z -> Z :=
  fix loop (cs : list qtree) (n : Z) : Z :=
    match cs with
    | [] => n
    | c :: cs' =>
        let n1 := rec c (n + 1) in            (* :935 ++ , :946 recurse *)
        if stop_cond L n1 then n1              (* :956 *)
        else loop cs' n1
    end.

Fixpoint qrun (L : Z) (t : qtree) (n : Z) : Z :=
  match t with
  | QNode cs => qloop (qrun L) L cs n
  end.

(** the sequence of child searches of a search frame *)
Definition sloop (rec : stree -> Z -> Z) (L : Z) : list (bool * stree) -> Z -> Z :=
  fix loop (cs : list (bool * stree)) (n : Z) : Z :=
    match cs with
    | [] => n
    | c :: cs' =>
        let n0 := if fst c then n + 1 else n in   (* :332 / :595 *)
        let n1 := rec (snd c) n0 in
        if stop_cond L n1 then n1                  (* :337 :393 :646 *)
        else loop cs' n1
    end.

Fixpoint srun (L : Z) (t : stree) (n : Z) : Z :=
  if stop_cond L n then n                            (* :185 *)
  else
    match t with
    | SLeaf q => qrun L q n                          (* :191 / :278 *)
    | SCut => n
    | SNode cs => sloop (srun L) L cs n
    end.

(** rootSearch (alphabeta.go:53-167) at iteration depth [d]: every root move
    increments (:80); its subtree [ss] is the list of searches called for it:
    [] for a repetition/50-move draw (:86-88, no search), one search
    (:94/:97), or two with the PVS re-search (:102, guarded by :100).
    After the move: [if stopConditions() && depth > 1 return] (:114) -- at
    depth 1 the loop is NOT left by this test.  But at depth 1 a stopped
    search call has returned ValueNA = -15001 (:186 / :647 / :957), so
    value = -ValueNA = 15001 > bestNodeValue and >= beta = ValueMax = 10000
    (search.go:481-482, no aspiration) and the loop is left through the
    "beta cut" [return value] (:131-133) -- after savePV (:128) has made the
    aborted move pv[0][0].  Only a draw move (no search call, value =
    ValueDraw) lets the depth-1 loop continue while stopped.                  *)
Definition is_draw_move (ss : list stree) : bool :=
  match ss with [] => true | _ => false end.

Fixpoint rrun (L : Z) (d : nat) (moves : list (list stree)) (n : Z) : Z :=
  match moves with
  | [] => n
  | ss :: moves' =>
      let n1 := fold_left (fun a s => srun L s a) ss (n + 1) in   (* :80, :94-102 *)
      if stop_cond L n1 && ((1 <? d)%nat || negb (is_draw_move ss)) (* :114 / :131 *)
      then n1
      else rrun L d moves' n1
  end.

(** number of draw root moves *)
Definition ndraw (moves : list (list stree)) : Z :=
  Z.of_nat (length (filter is_draw_move moves)).

(** iterativeDeepening loop (search.go:486-518): [its] = per iteration the
    root call trees (iteration k is the k-th element, depth k).
    nodesVisited++ per iteration (:490); break when stopped or when there is
    a single root move (:508-517).                                           *)
Fixpoint irun (L : Z) (d : nat) (its : list (list (list stree))) (n : Z) : Z :=
  match its with
  | [] => n
  | moves :: its' =>
      let n1 := rrun L d moves (n + 1) in                          (* :490, :500 *)
      if negb (stop_cond L n1) && (1 <? length moves)%nat           (* :508 *)
      then irun L (S d) its' n1
      else n1
  end.

(** final nodesVisited of a node limited search (run() resets to 0, :289)   *)
Definition nodes_final (L : Z) (its : list (list (list stree))) : Z := irun L 1 its 0.

(** maximal nesting of qsearch frames below a frame *)
Fixpoint qheight (t : qtree) : Z :=
  match t with
  | QNode cs => fold_right (fun c a => Z.max (1 + qheight c) a) 0 cs
  end.

Fixpoint sheight (t : stree) : Z :=
  match t with
  | SLeaf q => qheight q
  | SCut => 0
  | SNode cs => fold_right (fun c a => Z.max (sheight (snd c)) a) 0 cs
  end.

Definition ssheight (ss : list stree) : Z := fold_right (fun s a => Z.max (sheight s) a) 0 ss.
Definition rheight (moves : list (list stree)) : Z :=
  fold_right (fun ss a => Z.max (ssheight ss) a) 0 moves.
Definition iheight (its : list (list (list stree))) : Z :=
  fold_right (fun m a => Z.max (rheight m) a) 0 its.

(* ---------------------------------------------------------------------- *)
(** * Executable checkers for the correspondence run                       *)
(* ---------------------------------------------------------------------- *)

(** [time_case_ok movetime wtime btime winc binc movestogo phase stm observed]
    Arguments: the five durations in NANOSECONDS exactly as stored in
    search.Limits (MoveTime, WhiteTime, BlackTime, WhiteInc, BlackInc),
    Limits.MovesToGo, position.GamePhase() (0..24), side to move (0 = White,
    1 = Black), and [observed] = int64 nanoseconds returned by
    VerifSetupTimeControl.  True iff the model computes exactly [observed]
    AND the C13 budget facts hold for this case when the inputs are in the
    theorem's domain (mover's clock > 0, increments >= 0, movestogo >= 0).  *)
Definition time_case_ok
  (movetime wtime btime winc binc movestogo phase : Z) (stm : N) (observed : Z) : bool :=
  match setup_time_control_opt movetime wtime btime winc binc movestogo phase stm with
  | None => false
  | Some limit =>
      (limit =? observed) &&
      (if 0 <? movetime then
         (limit <=? movetime) &&
         (if 20 * ms <=? movetime then limit =? movetime - 20 * ms else limit =? movetime)
       else
         let '(clock, inc) := clock_inc wtime btime winc binc stm in
         match moves_left movestogo phase with
         | None => false
         | Some n =>
             if (0 <? clock) && (0 <=? inc) && (0 <=? movestogo) && (N.ltb stm 2)
             then (0 <=? limit) && (limit <=? clock) && (n * limit <=? clock + n * inc)
                  && ((0 <? movestogo) || (15 <=? n))
             else true
         end)
  end.

(** [extra_case_ok movetime wtime btime stm limit had_book s_limit s_extra h_limit h_extra]
    Extra time after a book move for the grid point whose budget [limit] (ns, as returned by
    VerifSetupTimeControl) [time_case_ok] has compared.  All observations are int64 nanoseconds read
    from the engine:
    - [had_book] = Search.hadBookMove before a REAL depth-1 search of the grid point (StartSearch ->
      run -> setupSearchLimits -> iterativeDeepening), on a Search object that still holds the time
      limit and extra time of the previous case; [s_limit], [s_extra] = timeLimit / extraTime as the
      timer reads them, taken after that search;
    - [h_limit], [h_extra] = the same two after VerifAddExtraTime(p, limits, 2.0)
      (setupSearchLimits, then addExtraTime(2.0) once).
    True iff both time limits are the budget, the search's deadline is [deadline had_book ...], the
    hook's extra time is [add_extra_time c10 ... 0 clock], and (the C13 fact, whenever the budget
    itself is within the clock) the deadline is between the budget and the mover's clock.          *)
Definition extra_case_ok
  (movetime wtime btime : Z) (stm : N) (limit : Z)
  (had_book : bool) (s_limit s_extra h_limit h_extra : Z) : bool :=
  let clock := extra_clock wtime btime stm in
  (s_limit =? limit) && (h_limit =? limit) &&
  match deadline had_book true movetime limit clock with
  | Some d => (d =? s_limit + s_extra) &&
              (if (0 <=? limit) && (limit <=? clock) then (limit <=? d) && (d <=? clock) else true)
  | None => false
  end &&
  match add_extra_time c10 true movetime limit 0 clock with
  | Some e => e =? h_extra
  | None => false
  end.

(** node limit checker: [limit] = Limits.Nodes > 0, [observed] = final
    Search.NodesVisited(), [ndraws] = number of root moves that lead to a
    repetition/50-move draw (the number of root moves is a safe
    over-approximation), [maxq] = a bound on the nesting of qsearch frames
    (Result.ExtraDepth, the maximal ply reached, is one; MaxDepth = 128
    always is).                                                              *)
Definition node_case_ok (limit observed ndraws maxq : Z) : bool :=
  observed <=? limit + Z.max maxq (ndraws + 1).

(** depth checker: [depth] = Limits.Depth > 0, [nroot] = number of root
    moves after the searchmoves filter, [observed] = Result.SearchDepth of an
    otherwise unlimited, unstopped search.                                   *)
Definition depth_case_ok (depth nroot observed : nat) : bool :=
  Nat.eqb observed (iterations depth nroot (fun _ => false)).

(** searchmoves checker: [root] = legal root moves, [lst] = Limits.Moves,
    [best] = reported best move (all as uint32 move encodings).             *)
Definition searchmoves_case_ok (root lst : list N) (best : N) : bool :=
  existsb (fun m => N.eqb (move_of m) (move_of best)) (filter_root root lst).
