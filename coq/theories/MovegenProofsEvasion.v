(** * MovegenProofsEvasion: evasion-mode generation (C08).

    In evasion mode every generator masks its target squares with the evasion targets, the king
    generator keeps the squares on which AttacksTo finds no attacker, castling is skipped and
    en passant is generated unconditionally.  Hence the evasion list is the non-evasion list
    of the same mode filtered by a predicate on the move code.

    PROVED (every [legal_pos p], every mode, both UsePromNonQuiet settings; no assumption that
    the side to move is in check is needed for these)
    - [evasion_targets_some]  getEvasionTargets returns normally: the attackers of the own king
                          (as computed by AttacksTo, proved exact in AttacksProofs) plus, for a
                          single sliding attacker, the squares between it and the king;
    - [gen_pseudo_evasion_filter]  gen_pseudo v mode true = Some (filter (ev_keep ...) l) where
                          gen_pseudo v mode false = Some l and [ev_keep] is an explicit
                          predicate on codes (target in the evasion targets / en passant /
                          king target not attacked / not castling);
    - [evasion_sound]     every code of the evasion list is in the non-evasion list;
    - [evasion_nodup]     the evasion list has no duplicates. *)
From Coq Require Import NArith ZArith List Bool Lia ZifyN ZifyBool Permutation.
From FG Require Import Word64 Geom Tables TablesCorrect ShiftCorrect Rules Oracle BitView
                       AttacksImpl AttacksLemmas AttacksProofs AttacksMoves AttacksCheckProofs
                       MoveEnc SqListFacts MovegenImpl MovegenLemmas MovegenSpec
                       MovegenProofsOD MovegenProofsPieces MovegenProofsPawns MovegenProofsMain.
From FG.gen Require Import Tables_gen.
Import ListNotations.
Open Scope N_scope.

(** ** lists over masked words *)
Definition tmask (E : N) (l : list N) : list N := filter (fun c => N.testbit E (To c)) l.

Lemma filter_filter {A} (f g : A -> bool) l : filter g (filter f l) = filter (fun x => f x && g x) l.
Proof.
  induction l as [|x l IH]; cbn [filter]; [reflexivity|].
  destruct (f x); cbn [filter andb]; [destruct (g x); now rewrite IH|exact IH].
Qed.

Lemma sq_list_land W E : W < W64 -> sq_list_of_bb (N.land W E) = filter (N.testbit E) (sq_list_of_bb W).
Proof.
  intros HW. rewrite (sq_list_of_bb_filter _ (land_lt _ E HW)), (sq_list_of_bb_filter _ HW), filter_filter.
  apply filter_ext. intros t. apply N.land_spec.
Qed.

Lemma flat_map_filter_key {A} (key : N -> A) (P : A -> bool) (g : A -> list N) (l : list A) :
  (forall x y, In x l -> In y (g x) -> key y = x) ->
  flat_map g (filter P l) = filter (fun y => P (key y)) (flat_map g l).
Proof.
  induction l as [|x l IH]; intros Hk; cbn [filter flat_map]; [reflexivity|].
  assert (IH' : flat_map g (filter P l) = filter (fun y => P (key y)) (flat_map g l))
    by (apply IH; intros a y Ha Hy; apply Hk; [now right|exact Hy]).
  assert (Hgx : filter (fun y => P (key y)) (g x) = if P x then g x else []).
  { assert (G : forall y, In y (g x) -> P (key y) = P x) by (intros y Hy; now rewrite (Hk x y (or_introl eq_refl) Hy)).
    clear - G. induction (g x) as [|y r IHr]; cbn [filter]; [now destruct (P x)|].
    rewrite (G y (or_introl eq_refl)), IHr by (intros z Hz; apply G; now right). now destruct (P x). }
  rewrite filter_app, Hgx, <- IH'. destruct (P x); reflexivity.
Qed.

Lemma tmask_app E a b : tmask E (a ++ b) = tmask E a ++ tmask E b.
Proof. apply filter_app. Qed.

Section Evasion.
Variable prom_nq : bool.
Variable p : pos.
Hypothesis Hlegal : legal_pos p = true.
Variable evt : N.

Local Notation b := (brd p).
Local Notation c := (stm p).
Local Notation v := (view_of_spec p).

Lemma Ew : wfp p. Proof. now apply legal_wfp. Qed.
Lemma Ec : c < 2. Proof. exact (wf_stm p Ew). Qed.

(** ** pawn loops *)
Lemma loop_from_masked (W : N) (d : dir) (g : N -> N -> list N) : W < W64 ->
  (forall t, N.testbit W t = true -> exists s, own_pawn p s /\ step d s = Some t) ->
  (forall s t y, s < 64 -> t < 64 -> In y (g s t) -> To y = t) ->
  flat_map_o (fun to => do from <- sq_to_o to (Some (opp d)); Some (g from to)) (sq_list_of_bb (N.land W evt)) =
  Some (tmask evt (flat_map (fun to => g (from_of d to) to) (sq_list_of_bb W))).
Proof.
  intros HW Hb Hg.
  rewrite (loop_from p (N.land W evt) d g (land_lt _ _ HW)).
  - f_equal. rewrite (sq_list_land W evt HW). unfold tmask.
    apply (flat_map_filter_key To (N.testbit evt)).
    intros t y Ht Hy. apply (sq_list_in W t HW) in Ht. destruct (Hb t Ht) as [s [[Hs _] E]].
    rewrite (from_of_eq d s t Hs E) in Hy. apply (Hg s t y Hs); [now apply step_lt in E|exact Hy].
  - intros t Ht. rewrite N.land_spec in Ht. apply andb_true_iff in Ht as [Ht _]. now apply Hb.
Qed.

Lemma land_swap a e x : N.land (N.land a e) x = N.land (N.land a x) e.
Proof. rewrite <- !N.land_assoc. f_equal. apply N.land_comm. Qed.

Lemma all4_to s t y : s < 64 -> t < 64 -> In y (promo_codes [QUEEN; KNIGHT; ROOK; BISHOP] s t) -> To y = t.
Proof. intros Hs Ht. apply promo_ok; try assumption; apply all4. Qed.

Lemma normal1_to s t y : s < 64 -> t < 64 -> In y (normal1 s t) -> To y = t.
Proof. intros Hs Ht. now apply normal1_ok. Qed.

Lemma ev_captures we : is_we we ->
  gen_pawn_captures_dir v true evt we = Some (tmask evt (cap_promo_list p we) ++ tmask evt (cap_norm_list p we)).
Proof.
  intros Hwe. destruct (dirs_ok c we Ec Hwe) as (D1 & D2 & D3 & D4 & D5 & _).
  unfold gen_pawn_captures_dir. change (vstm v) with c.
  rewrite (Hpbb p Hlegal), (Hoth' p Hlegal), D1, D2, (prom_word_some c Ec). cbn [bind]. rewrite D4, D5. cbn [shift_bb].
  fold (cap_word p we). rewrite !land_swap. fold (cap_promo_word p we). fold (cap_norm_word p we).
  rewrite (loop_from_masked (cap_promo_word p we) (capdir c we) (fun from to => promo_qn from to ++ promo_rb from to)).
  - cbn [bind].
    rewrite (loop_from_masked (cap_norm_word p we) (capdir c we) (fun from to => [mk_code from to NORMAL PT_NONE])).
    + reflexivity.
    + apply land_lt. apply cap_word_lt.
    + apply (cap_norm_from p Hlegal).
    + exact normal1_to.
  - apply land_lt. apply cap_word_lt.
  - apply (cap_promo_from p Hlegal).
  - exact all4_to.
Qed.

Lemma prs_to prs s t y : (forall pr, In pr prs -> prom_piece pr) -> NoDup prs -> s < 64 -> t < 64 ->
  In y (promo_codes prs s t) -> To y = t.
Proof. intros H1 H2 Hs Ht. now apply promo_ok. Qed.

Lemma ev_promnq :
  (if prom_nq then gen_pawn_promnq v true evt else Some []) = Some (tmask evt (promo_push_list p (nq_prs prom_nq))).
Proof.
  unfold nq_prs. destruct prom_nq.
  - destruct (dirs_ok c DW Ec (or_introl eq_refl)) as (D1 & D2 & D3 & _).
    unfold gen_pawn_promnq. change (vstm v) with c.
    rewrite (Hpbb p Hlegal), D1, D2, (prom_word_some c Ec), (Hocc' p Hlegal). cbn [bind shift_bb].
    fold (push_word p). fold (promo_push_word p). rewrite <- D3.
    rewrite (loop_from_masked (promo_push_word p) (fwd c) (fun from to => promo_qn from to)).
    + reflexivity.
    + apply land_lt. apply push_word_lt.
    + apply push_from_promo.
    + intros s t y Hs Ht. apply (prs_to [QUEEN; KNIGHT]); try assumption; apply qn2.
  - unfold promo_push_list, tmask. f_equal.
    induction (sq_list_of_bb (promo_push_word p)) as [|x l IH]; cbn [flat_map]; [reflexivity|exact IH].
Qed.

Lemma ev_quiet :
  gen_pawn_quiet prom_nq v true evt =
  Some (tmask evt (promo_push_list p (quiet_prs prom_nq)) ++ tmask evt (double_list p) ++ tmask evt (single_list p)).
Proof.
  destruct (dirs_ok c DW Ec (or_introl eq_refl)) as (D1 & D2 & D3 & _).
  unfold gen_pawn_quiet. change (vstm v) with c.
  rewrite (Hpbb p Hlegal), D1, D2, (prom_word_some c Ec), (dbl_word_some c Ec), (Hocc' p Hlegal). cbn [bind shift_bb].
  fold (push_word p). fold (dbl_push_word p). rewrite !land_swap. fold (promo_push_word p). fold (single_push_word p).
  rewrite <- D3.
  rewrite (loop_from_masked (promo_push_word p) (fwd c)
             (fun from to => (if prom_nq then [] else promo_qn from to) ++ promo_rb from to)).
  2:{ apply land_lt. apply push_word_lt. }
  2:{ apply push_from_promo. }
  2:{ intros s t y Hs Ht Hy. apply (prs_to (quiet_prs prom_nq) s t y); try assumption; try apply quiet_prs_ok.
      unfold quiet_prs, promo_codes. rewrite map_app. destruct prom_nq; exact Hy. }
  cbn [bind].
  assert (Hd : flat_map_o (fun to => do mid <- sq_to_o to (Some (opp (fwd c)));
                                     do from <- sq_to_o mid (Some (opp (fwd c)));
                                     Some [mk_code from to NORMAL PT_NONE]) (sq_list_of_bb (N.land (dbl_push_word p) evt))
               = Some (tmask evt (double_list p))).
  { rewrite (sq_list_land _ evt (dbl_push_word_lt p)). unfold double_list, tmask.
    rewrite (flat_map_o_some _ (fun to => [mk_code (from_of (fwd c) (from_of (fwd c) to)) to NORMAL PT_NONE])).
    - f_equal.
      assert (G : forall u, In u (sq_list_of_bb (dbl_push_word p)) ->
                  To (mk_code (from_of (fwd c) (from_of (fwd c) u)) u NORMAL PT_NONE) = u).
      { intros u Hu. apply (sq_list_in _ u (dbl_push_word_lt p)) in Hu.
        apply (dbl_push_word_bit p Hlegal) in Hu as (s & t & Hs & E1 & _ & _ & E2 & _).
        assert (Ht : t < 64) by now apply step_lt in E1. assert (Hu : u < 64) by now apply step_lt in E2.
        rewrite (from_of_eq p (fwd c) t u Ht E2), (from_of_eq p (fwd c) s t (proj1 Hs) E1).
        rewrite mk_code_normal by (try apply Hs; assumption). apply code_to. apply valid_normal; [apply Hs|exact Hu]. }
      induction (sq_list_of_bb (dbl_push_word p)) as [|x l IH]; cbn [filter flat_map map]; [reflexivity|].
      rewrite (G x (or_introl eq_refl)).
      destruct (N.testbit evt x); cbn [flat_map map filter app]; rewrite IH by (intros u Hu; apply G; now right); reflexivity.
    - intros u Hu. apply filter_In in Hu as [Hu _]. apply (sq_list_in _ u (dbl_push_word_lt p)) in Hu.
      apply (dbl_push_word_bit p Hlegal) in Hu as (s & t & Hs & E1 & _ & _ & E2 & _).
      assert (Ht : t < 64) by now apply step_lt in E1.
      rewrite (back_from p (fwd c) t u Ht E2). cbn [bind]. rewrite (back_from p (fwd c) s t (proj1 Hs) E1). cbn [bind].
      now rewrite (from_of_eq p (fwd c) t u Ht E2), (from_of_eq p (fwd c) s t (proj1 Hs) E1). }
  rewrite Hd. cbn [bind].
  rewrite (loop_from_masked (single_push_word p) (fwd c) (fun from to => [mk_code from to NORMAL PT_NONE])).
  2:{ apply land_lt. apply push_word_lt. }
  2:{ apply push_from_single. }
  2:{ exact normal1_to. }
  cbn [bind]. f_equal. f_equal.
  unfold promo_push_list, quiet_prs. f_equal. apply flat_map_ext. intros to.
  unfold promo_codes. rewrite map_app. destruct prom_nq; reflexivity.
Qed.

(** ** officers *)
Lemma to_list_masked from W : from < 64 -> W < W64 ->
  map (fun to => mk_code from to NORMAL PT_NONE) (sq_list_of_bb (N.land W evt)) = tmask evt (to_list from W).
Proof.
  intros Hf HW. rewrite (sq_list_land W evt HW). unfold to_list, tmask.
  assert (G : forall t, In t (sq_list_of_bb W) -> To (mk_code from t NORMAL PT_NONE) = t).
  { intros t Ht. apply (sq_list_in W t HW) in Ht. apply (testbit_lt64 W t HW) in Ht. now apply mk_code_fields. }
  induction (sq_list_of_bb W) as [|x l IH]; cbn [filter map]; [reflexivity|].
  rewrite (G x (or_introl eq_refl)).
  destruct (N.testbit evt x); cbn [map]; rewrite IH by (intros u Hu; apply G; now right); reflexivity.
Qed.

Lemma ev_moves_from cap pt from : officer pt -> from < 64 ->
  gen_moves_from v (mode_of cap) true evt pt from = Some (tmask evt (to_list from (off_word p cap pt from))).
Proof.
  intros Hpt Hf. unfold gen_moves_from. rewrite (gab_officer p Hlegal pt from Hpt Hf). cbn [bind].
  change (vstm v) with c. rewrite (Hoth p Hlegal). unfold mode_of, off_word. destruct cap.
  - replace (has_nq 1) with true by reflexivity. replace (has_q 1) with false by reflexivity.
    cbn [bind]. rewrite app_nil_r. f_equal. apply to_list_masked; [exact Hf|apply land_lt; apply att_word_lt].
  - replace (has_nq 2) with false by reflexivity. replace (has_q 2) with true by reflexivity.
    cbn [bind app]. rewrite (Hocc p Hlegal). f_equal. apply to_list_masked; [exact Hf|apply ldiff_lt; apply att_word_lt].
Qed.

Lemma ev_moves cap : gen_moves v (mode_of cap) true evt = Some (tmask evt (off_list p cap)).
Proof.
  unfold gen_moves, off_list.
  rewrite (flat_map_o_some _ (fun pt => tmask evt (off_pt_list p cap pt))).
  - f_equal. cbn [flat_map]. rewrite !app_nil_r, !tmask_app. reflexivity.
  - intros pt Hpt.
    assert (Ho : officer pt) by (unfold officer; cbn [In] in Hpt; intuition).
    destruct (officer_lt pt Ho) as (H7 & Hnz & _).
    unfold gen_moves_pt. change (vstm v) with c. rewrite (pbb_c p Hlegal pt H7). cbn [bind]. unfold off_pt_list.
    rewrite (flat_map_o_some _ (fun from => tmask evt (to_list from (off_word p cap pt from)))).
    + f_equal. induction (sq_list_of_bb (piece_word b c pt)) as [|x l IH]; cbn [flat_map]; [reflexivity|].
      now rewrite tmask_app, IH.
    + intros from Hfr. apply (sq_list_in _ from (piece_word_lt b c pt)) in Hfr.
      apply (piece_bit p Hlegal pt from Hnz) in Hfr as [Hfr _]. now apply ev_moves_from.
Qed.

End Evasion.
