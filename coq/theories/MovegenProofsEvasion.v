(** * MovegenProofsEvasion: evasion-mode generation (C08).

    In evasion mode every generator masks its target squares with the evasion targets, the king
    generator keeps the squares on which AttacksTo finds no attacker, castling is skipped and
    en passant is generated unconditionally.  Hence the evasion list is the non-evasion list
    of the same mode filtered by a predicate on the move code.

    PROVED (every [legal_pos p], every mode, both UsePromNonQuiet settings; no assumption that
    the side to move is in check is needed for these)
    - [evasion_targets_some]  getEvasionTargets returns normally: the attackers of the own king
                          (as computed by AttacksTo, proved exact in AttacksProofs) plus, for a
                          single sliding attacker, the squares between it and the king;
    - [gen_pseudo_evasion_filter]  gen_pseudo v mode true = Some (filter (ev_keep ...) l) where
                          gen_pseudo v mode false = Some l and [ev_keep] is an explicit
                          predicate on codes (target in the evasion targets / en passant /
                          king target not attacked / not castling);
    - [evasion_sound]     every code of the evasion list is in the non-evasion list;
    - [evasion_nodup]     the evasion list has no duplicates. *)
From Coq Require Import NArith ZArith List Bool Lia ZifyN ZifyBool Permutation.
From FG Require Import Word64 Geom Tables TablesCorrect ShiftCorrect Rules Oracle BitView
                       AttacksImpl AttacksLemmas AttacksProofs AttacksMoves AttacksCheckProofs
                       MoveEnc SqListFacts MovegenImpl MovegenLemmas MovegenSpec
                       MovegenProofsOD MovegenProofsPieces MovegenProofsPawns MovegenProofsMain.
From FG.gen Require Import Tables_gen.
Import ListNotations.
Open Scope N_scope.

Lemma some_inj {A} (a a' : A) : Some a = Some a' -> a = a'.
Proof. intros H. now injection H. Qed.

(** ** lists over masked words *)
Definition tmask (E : N) (l : list N) : list N := filter (fun c => N.testbit E (To c)) l.

Lemma filter_filter {A} (f g : A -> bool) l : filter g (filter f l) = filter (fun x => f x && g x) l.
Proof.
  induction l as [|x l IH]; cbn [filter]; [reflexivity|].
  destruct (f x); cbn [filter andb]; [destruct (g x); now rewrite IH|exact IH].
Qed.

Lemma sq_list_land W E : W < W64 -> sq_list_of_bb (N.land W E) = filter (N.testbit E) (sq_list_of_bb W).
Proof.
  intros HW. rewrite (sq_list_of_bb_filter _ (land_lt _ E HW)), (sq_list_of_bb_filter _ HW), filter_filter.
  apply filter_ext. intros t. apply N.land_spec.
Qed.

Lemma flat_map_filter_key {A} (key : N -> A) (P : A -> bool) (g : A -> list N) (l : list A) :
  (forall x y, In x l -> In y (g x) -> key y = x) ->
  flat_map g (filter P l) = filter (fun y => P (key y)) (flat_map g l).
Proof.
  induction l as [|x l IH]; intros Hk; cbn [filter flat_map]; [reflexivity|].
  assert (IH' : flat_map g (filter P l) = filter (fun y => P (key y)) (flat_map g l))
    by (apply IH; intros a y Ha Hy; apply Hk; [now right|exact Hy]).
  assert (Hgx : filter (fun y => P (key y)) (g x) = if P x then g x else []).
  { assert (G : forall y, In y (g x) -> P (key y) = P x) by (intros y Hy; now rewrite (Hk x y (or_introl eq_refl) Hy)).
    clear - G. induction (g x) as [|y r IHr]; cbn [filter]; [now destruct (P x)|].
    rewrite (G y (or_introl eq_refl)), IHr by (intros z Hz; apply G; now right). now destruct (P x). }
  rewrite filter_app, Hgx, <- IH'. destruct (P x); reflexivity.
Qed.

Lemma tmask_app E a b : tmask E (a ++ b) = tmask E a ++ tmask E b.
Proof. apply filter_app. Qed.

Section Evasion.
Variable prom_nq : bool.
Variable p : pos.
Hypothesis Hlegal : legal_pos p = true.
Variable evt : N.

Local Notation b := (brd p).
Local Notation c := (stm p).
Local Notation v := (view_of_spec p).

Lemma Ew : wfp p. Proof. now apply legal_wfp. Qed.
Lemma Ec : c < 2. Proof. exact (wf_stm p Ew). Qed.

(** ** pawn loops *)
Lemma loop_from_masked (W : N) (d : dir) (g : N -> N -> list N) : W < W64 ->
  (forall t, N.testbit W t = true -> exists s, own_pawn p s /\ step d s = Some t) ->
  (forall s t y, s < 64 -> t < 64 -> In y (g s t) -> To y = t) ->
  flat_map_o (fun to => do from <- sq_to_o to (Some (opp d)); Some (g from to)) (sq_list_of_bb (N.land W evt)) =
  Some (tmask evt (flat_map (fun to => g (from_of d to) to) (sq_list_of_bb W))).
Proof.
  intros HW Hb Hg.
  rewrite (loop_from p (N.land W evt) d g (land_lt _ _ HW)).
  - f_equal. rewrite (sq_list_land W evt HW). unfold tmask.
    apply (flat_map_filter_key To (N.testbit evt)).
    intros t y Ht Hy. apply (sq_list_in W t HW) in Ht. destruct (Hb t Ht) as [s [[Hs _] E]].
    rewrite (from_of_eq d s t Hs E) in Hy. apply (Hg s t y Hs); [now apply step_lt in E|exact Hy].
  - intros t Ht. rewrite N.land_spec in Ht. apply andb_true_iff in Ht as [Ht _]. now apply Hb.
Qed.

Lemma land_swap a e x : N.land (N.land a e) x = N.land (N.land a x) e.
Proof. rewrite <- !N.land_assoc. f_equal. apply N.land_comm. Qed.

Lemma all4_to s t y : s < 64 -> t < 64 -> In y (promo_codes [QUEEN; KNIGHT; ROOK; BISHOP] s t) -> To y = t.
Proof. intros Hs Ht. apply promo_ok; try assumption; apply all4. Qed.

Lemma normal1_to s t y : s < 64 -> t < 64 -> In y (normal1 s t) -> To y = t.
Proof. intros Hs Ht. now apply normal1_ok. Qed.

Lemma ev_captures we : is_we we ->
  gen_pawn_captures_dir v true evt we = Some (tmask evt (cap_promo_list p we) ++ tmask evt (cap_norm_list p we)).
Proof.
  intros Hwe. destruct (dirs_ok c we Ec Hwe) as (D1 & D2 & D3 & D4 & D5 & _).
  unfold gen_pawn_captures_dir. change (vstm v) with c.
  rewrite (Hpbb p Hlegal), (Hoth' p Hlegal), D1, D2, (prom_word_some c Ec). cbn [bind]. rewrite D4, D5. cbn [shift_bb].
  fold (cap_word p we).
  rewrite (land_swap (cap_word p we) evt (prom_word c)), (land_swap (cap_word p we) evt (bnot (prom_word c))).
  fold (cap_promo_word p we). fold (cap_norm_word p we).
  rewrite (loop_from_masked (cap_promo_word p we) (capdir c we) (fun from to => promo_qn from to ++ promo_rb from to)).
  - cbn [bind].
    rewrite (loop_from_masked (cap_norm_word p we) (capdir c we) (fun from to => [mk_code from to NORMAL PT_NONE])).
    + reflexivity.
    + apply land_lt. apply cap_word_lt.
    + apply (cap_norm_from p Hlegal).
    + exact normal1_to.
  - apply land_lt. apply cap_word_lt.
  - apply (cap_promo_from p Hlegal).
  - exact all4_to.
Qed.

Lemma prs_to prs s t y : (forall pr, In pr prs -> prom_piece pr) -> NoDup prs -> s < 64 -> t < 64 ->
  In y (promo_codes prs s t) -> To y = t.
Proof. intros H1 H2 Hs Ht. now apply promo_ok. Qed.

Lemma ev_promnq :
  (if prom_nq then gen_pawn_promnq v true evt else Some []) = Some (tmask evt (promo_push_list p (nq_prs prom_nq))).
Proof.
  unfold nq_prs. destruct prom_nq.
  - destruct (dirs_ok c DW Ec (or_introl eq_refl)) as (D1 & D2 & D3 & _).
    unfold gen_pawn_promnq. change (vstm v) with c.
    rewrite (Hpbb p Hlegal), D1, D2, (prom_word_some c Ec), (Hocc' p Hlegal). cbn [bind shift_bb].
    fold (push_word p). fold (promo_push_word p). rewrite <- D3.
    rewrite (loop_from_masked (promo_push_word p) (fwd c) (fun from to => promo_qn from to)).
    + reflexivity.
    + apply land_lt. apply push_word_lt.
    + apply push_from_promo.
    + intros s t y Hs Ht. apply (prs_to [QUEEN; KNIGHT]); try assumption; apply qn2.
  - unfold promo_push_list, tmask. f_equal.
    induction (sq_list_of_bb (promo_push_word p)) as [|x l IH]; cbn [flat_map]; [reflexivity|exact IH].
Qed.

Lemma ev_quiet :
  gen_pawn_quiet prom_nq v true evt =
  Some (tmask evt (promo_push_list p (quiet_prs prom_nq)) ++ tmask evt (double_list p) ++ tmask evt (single_list p)).
Proof.
  destruct (dirs_ok c DW Ec (or_introl eq_refl)) as (D1 & D2 & D3 & _).
  unfold gen_pawn_quiet. change (vstm v) with c.
  rewrite (Hpbb p Hlegal), D1, D2, (prom_word_some c Ec), (dbl_word_some c Ec), (Hocc' p Hlegal). cbn [bind shift_bb].
  fold (push_word p). fold (dbl_push_word p).
  rewrite (land_swap (push_word p) evt (prom_word c)), (land_swap (push_word p) evt (bnot (prom_word c))).
  fold (promo_push_word p). fold (single_push_word p).
  rewrite <- D3.
  rewrite (loop_from_masked (promo_push_word p) (fwd c)
             (fun from to => (if prom_nq then [] else promo_qn from to) ++ promo_rb from to)).
  2:{ apply land_lt. apply push_word_lt. }
  2:{ apply push_from_promo. }
  2:{ intros s t y Hs Ht Hy. apply (prs_to (quiet_prs prom_nq) s t y); try assumption; try apply quiet_prs_ok.
      unfold quiet_prs, promo_codes. rewrite map_app. destruct prom_nq; exact Hy. }
  cbn [bind].
  assert (Hd : flat_map_o (fun to => do mid <- sq_to_o to (Some (opp (fwd c)));
                                     do from <- sq_to_o mid (Some (opp (fwd c)));
                                     Some [mk_code from to NORMAL PT_NONE]) (sq_list_of_bb (N.land (dbl_push_word p) evt))
               = Some (tmask evt (double_list p))).
  { rewrite (sq_list_land _ evt (dbl_push_word_lt p)). unfold double_list, tmask.
    rewrite (flat_map_o_some _ (fun to => [mk_code (from_of (fwd c) (from_of (fwd c) to)) to NORMAL PT_NONE])).
    - f_equal.
      assert (G : forall u, In u (sq_list_of_bb (dbl_push_word p)) ->
                  To (mk_code (from_of (fwd c) (from_of (fwd c) u)) u NORMAL PT_NONE) = u).
      { intros u Hu. apply (sq_list_in _ u (dbl_push_word_lt p)) in Hu.
        apply (dbl_push_word_bit p Hlegal) in Hu as (s & t & Hs & E1 & _ & _ & E2 & _).
        assert (Ht : t < 64) by now apply step_lt in E1. assert (Hu : u < 64) by now apply step_lt in E2.
        rewrite (from_of_eq (fwd c) t u Ht E2), (from_of_eq (fwd c) s t (proj1 Hs) E1).
        rewrite mk_code_normal by (try apply Hs; assumption). apply code_to. apply valid_normal; [apply Hs|exact Hu]. }
      induction (sq_list_of_bb (dbl_push_word p)) as [|x l IH]; cbn [filter flat_map map]; [reflexivity|].
      rewrite (G x (or_introl eq_refl)).
      destruct (N.testbit evt x); cbn [flat_map map filter app]; rewrite IH by (intros u Hu; apply G; now right); reflexivity.
    - intros u Hu. apply filter_In in Hu as [Hu _]. apply (sq_list_in _ u (dbl_push_word_lt p)) in Hu.
      apply (dbl_push_word_bit p Hlegal) in Hu as (s & t & Hs & E1 & _ & _ & E2 & _).
      assert (Ht : t < 64) by now apply step_lt in E1.
      rewrite (back_from (fwd c) t u Ht E2). cbn [bind]. rewrite (back_from (fwd c) s t (proj1 Hs) E1). cbn [bind].
      now rewrite (from_of_eq (fwd c) t u Ht E2), (from_of_eq (fwd c) s t (proj1 Hs) E1). }
  rewrite Hd. cbn [bind].
  rewrite (loop_from_masked (single_push_word p) (fwd c) (fun from to => [mk_code from to NORMAL PT_NONE])).
  2:{ apply land_lt. apply push_word_lt. }
  2:{ apply push_from_single. }
  2:{ exact normal1_to. }
  cbn [bind]. f_equal. f_equal.
  unfold promo_push_list, quiet_prs. f_equal. apply flat_map_ext. intros to.
  unfold promo_codes. rewrite map_app. destruct prom_nq; reflexivity.
Qed.

(** ** officers *)
Lemma to_list_masked from W : from < 64 -> W < W64 ->
  map (fun to => mk_code from to NORMAL PT_NONE) (sq_list_of_bb (N.land W evt)) = tmask evt (to_list from W).
Proof.
  intros Hf HW. rewrite (sq_list_land W evt HW). unfold to_list, tmask.
  assert (G : forall t, In t (sq_list_of_bb W) -> To (mk_code from t NORMAL PT_NONE) = t).
  { intros t Ht. apply (sq_list_in W t HW) in Ht. apply (testbit_lt64 W t HW) in Ht. now apply mk_code_fields. }
  induction (sq_list_of_bb W) as [|x l IH]; cbn [filter map]; [reflexivity|].
  rewrite (G x (or_introl eq_refl)).
  destruct (N.testbit evt x); cbn [map]; rewrite IH by (intros u Hu; apply G; now right); reflexivity.
Qed.

Lemma ev_moves_from cap pt from : officer pt -> from < 64 ->
  gen_moves_from v (mode_of cap) true evt pt from = Some (tmask evt (to_list from (off_word p cap pt from))).
Proof.
  intros Hpt Hf. unfold gen_moves_from. rewrite (gab_officer p Hlegal pt from Hpt Hf). cbn [bind].
  change (vstm v) with c. rewrite (Hoth p Hlegal). unfold mode_of, off_word. destruct cap.
  - replace (has_nq 1) with true by reflexivity. replace (has_q 1) with false by reflexivity.
    cbn [bind]. rewrite app_nil_r. f_equal. apply to_list_masked; [exact Hf|apply land_lt; apply att_word_lt].
  - replace (has_nq 2) with false by reflexivity. replace (has_q 2) with true by reflexivity.
    cbn [bind app]. rewrite (Hocc p Hlegal). f_equal. apply to_list_masked; [exact Hf|apply ldiff_lt; apply att_word_lt].
Qed.

Lemma ev_moves cap : gen_moves v (mode_of cap) true evt = Some (tmask evt (off_list p cap)).
Proof.
  unfold gen_moves, off_list.
  rewrite (flat_map_o_some _ (fun pt => tmask evt (off_pt_list p cap pt))).
  - f_equal. cbn [flat_map]. rewrite !app_nil_r, !tmask_app. reflexivity.
  - intros pt Hpt.
    assert (Ho : officer pt) by (unfold officer; cbn [In] in Hpt; intuition).
    destruct (officer_lt pt Ho) as (H7 & Hnz & _).
    unfold gen_moves_pt. change (vstm v) with c. rewrite (pbb_c p Hlegal pt H7). cbn [bind]. unfold off_pt_list.
    rewrite (flat_map_o_some _ (fun from => tmask evt (to_list from (off_word p cap pt from)))).
    + f_equal. induction (sq_list_of_bb (piece_word b c pt)) as [|x l IH]; cbn [flat_map]; [reflexivity|].
      now rewrite tmask_app, IH.
    + intros from Hfr. apply (sq_list_in _ from (piece_word_lt b c pt)) in Hfr.
      apply (piece_bit p pt from Hnz) in Hfr as [Hfr _]. now apply ev_moves_from.
Qed.

(** ** king *)
(* movegen.go:1012 / 1026: attacks.AttacksTo(p, toSquare, them).PopCount() == 0 *)
Definition king_keep (y : N) : bool := (popcount (attacks_to_spec p (To y) (flip c)) =? 0)%nat.

Lemma Eflip : flipc c = flip c /\ flip c < 2.
Proof. destruct (flipc_lt c Ec) as (A & B & _). now split. Qed.

Lemma ev_king cap k : k < 64 -> at_ b k = mk_piece c KING ->
  (forall s, s < 64 -> at_ b s = mk_piece c KING -> s = k) ->
  gen_king_moves v (mode_of cap) true = Some (filter king_keep (to_list k (king_word p cap k))).
Proof.
  intros Hk Hat Hun. destruct (king_from p k Hk Hat Hun) as [_ Hfrom]. destruct Eflip as [Ef Hfc].
  assert (Hloop : forall W, W < W64 ->
    flat_map_o (fun to => do atk <- attacks_to_impl v to (flipc c);
                          Some (if (popcount atk =? 0)%nat then [mk_code k to NORMAL PT_NONE] else []))
               (sq_list_of_bb W) = Some (filter king_keep (to_list k W))).
  { intros W HW. unfold to_list.
    rewrite (flat_map_o_some _ (fun to => if (popcount (attacks_to_spec p to (flip c)) =? 0)%nat
                                          then [mk_code k to NORMAL PT_NONE] else [])).
    - f_equal.
      assert (G : forall t, In t (sq_list_of_bb W) -> To (mk_code k t NORMAL PT_NONE) = t).
      { intros t Ht. apply (sq_list_in W t HW) in Ht. apply (testbit_lt64 W t HW) in Ht. now apply mk_code_fields. }
      induction (sq_list_of_bb W) as [|x l IH]; cbn [flat_map map filter]; [reflexivity|].
      unfold king_keep at 1. rewrite (G x (or_introl eq_refl)).
      destruct (popcount (attacks_to_spec p x (flip c)) =? 0)%nat; cbn [app]; rewrite IH by (intros u Hu; apply G; now right); reflexivity.
    - intros t Ht. apply (sq_list_in W t HW) in Ht. apply (testbit_lt64 W t HW) in Ht.
      rewrite Ef, (attacks_to_exact p t (flip c) Hlegal Ht Hfc). reflexivity. }
  unfold gen_king_moves. change (vstm v) with c. rewrite (pbb_c p Hlegal KING) by reflexivity. cbn [bind].
  rewrite Hfrom. rewrite (gab_king k 0 Hk). cbn [bind]. rewrite (Hoth p Hlegal).
  unfold mode_of, king_word. destruct cap.
  - replace (has_nq 1) with true by reflexivity. replace (has_q 1) with false by reflexivity.
    cbn [bind]. rewrite Hloop by (apply land_lt; apply bb_of_lt; apply king_targets_lt). cbn [bind]. now rewrite app_nil_r.
  - replace (has_nq 2) with false by reflexivity. replace (has_q 2) with true by reflexivity.
    cbn [bind]. rewrite (Hocc p Hlegal). rewrite Hloop by (apply ldiff_lt; apply bb_of_lt; apply king_targets_lt). reflexivity.
Qed.

End Evasion.

(** ** getEvasionTargets *)
Section Targets.
Variable p : pos.
Hypothesis Hlegal : legal_pos p = true.
Local Notation b := (brd p).
Local Notation c := (stm p).
Local Notation v := (view_of_spec p).

Definition king_attackers : N := attacks_to_spec p (king_sq b c) (flip c).

(* movegen.go:793-808 *)
Definition evasion_targets_spec : N :=
  let atk := king_attackers in
  if (popcount atk =? 1)%nat then
    if KNIGHT <? type_of (at_ b (lsb atk)) then N.lor atk (between (lsb atk) (king_sq b c)) else atk
  else atk.

Lemma lor_lt a x : a < W64 -> x < W64 -> N.lor a x < W64.
Proof.
  intros Ha Hx. rewrite W64_pow. apply lt_pow2_of_bits. intros i Hi.
  now rewrite N.lor_spec, (bits_high_false a i Ha Hi), (bits_high_false x i Hx Hi).
Qed.

Lemma attacks_to_spec_lt s x : attacks_to_spec p s x < W64.
Proof.
  unfold attacks_to_spec. rewrite attackers_word. apply lor_lt; [apply bb_filter_lt|].
  apply bb_of_lt. intros t Ht. unfold ep_conv2 in Ht. destruct (_ || _); [destruct Ht|].
  destruct (_ && _) eqn:E; [|destruct Ht]. destruct Ht as [<-|[]]. lia.
Qed.

Theorem evasion_targets_some : evasion_targets v = Some evasion_targets_spec.
Proof.
  pose proof (legal_wfp p Hlegal) as Hw. pose proof (wf_stm p Hw) as Hc.
  destruct (flipc_lt c Hc) as (Ef & Hfc & _).
  pose proof (legal_pos_facts p Hlegal) as L. destruct (lf_own_king p _ L) as [Hk _].
  unfold evasion_targets. change (vstm v) with c. rewrite (king_square_view p c Hc). cbn [bind].
  rewrite Ef, (attacks_to_exact p _ (flip c) Hlegal Hk Hfc). cbn [bind].
  unfold evasion_targets_spec, king_attackers. cbv zeta.
  set (atk := attacks_to_spec p (king_sq b c) (flip c)).
  assert (Hlt : atk < W64) by apply attacks_to_spec_lt.
  clearbody atk.
  destruct (popcount atk =? 1)%nat eqn:Ep; [|reflexivity].
  assert (Hnz : atk <> 0).
  { intros Z. rewrite Z in Ep. discriminate. }
  assert (Hl : lsb atk < 64).
  { destruct (lsb_spec _ Hnz) as [Hb _]. apply (testbit_lt64 _ _ Hlt Hb). }
  rewrite (board_at_view p _ (wf_len p Hw) Hl). cbn [bind]. rewrite land7.
  destruct (KNIGHT <? type_of (at_ b (lsb atk))); [|reflexivity].
  unfold intermediate_bb. replace (lsb atk <? 64) with true by lia.
  replace (king_sq b c <? 64) with true by lia. cbn [andb].
  now rewrite (intermediate_exact _ _ Hl Hk).
Qed.

End Targets.

(** ** the evasion list is a filter of the non-evasion list *)
Section Assembly.
Variable prom_nq : bool.
Variable p : pos.
Hypothesis Hlegal : legal_pos p = true.
Local Notation b := (brd p).
Local Notation c := (stm p).
Local Notation v := (view_of_spec p).
Local Notation k0 := (king_sq (brd p) (stm p)).
Local Notation evt := (evasion_targets_spec p).

Definition ep_comp (we : dir) : list N := if ep p =? 64 then [] else ep_list p we.

(* the fifteen component lists of GeneratePseudoLegalMoves, in generation order *)
Definition comp (k : nat) : list N :=
  match k with
  | 0 => cap_promo_list p DW | 1 => cap_norm_list p DW | 2 => cap_promo_list p DE | 3 => cap_norm_list p DE
  | 4 => ep_comp DW | 5 => ep_comp DE | 6 => promo_push_list p (nq_prs prom_nq)
  | 7 => to_list k0 (king_word p true k0) | 8 => off_list p true
  | 9 => promo_push_list p (quiet_prs prom_nq) | 10 => double_list p | 11 => single_list p
  | 12 => castle_list p | 13 => to_list k0 (king_word p false k0) | 14 => off_list p false
  | _ => []
  end%nat.

Definition ks (mode : N) : list nat :=
  (if has_nq mode then seq 0 9 else []) ++ (if has_q mode then seq 9 6 else []).

(* what evasion mode keeps of each component *)
Definition comp_keep (k : nat) : N -> bool :=
  match k with
  | 4 | 5 => fun _ => true
  | 7 | 13 => king_keep p
  | 12 => fun _ => false
  | _ => fun c => N.testbit evt (To c)
  end%nat.

Lemma king_facts : k0 < 64 /\ at_ b k0 = mk_piece c KING /\ (forall s, s < 64 -> at_ b s = mk_piece c KING -> s = k0).
Proof.
  pose proof (legal_pos_facts p Hlegal) as L. destruct (lf_own_king p _ L) as [A B]. repeat split; try assumption.
  exact (lf_own_uniq p _ L).
Qed.

Lemma comp_class k x : (k < 15)%nat -> (In x (comp k) <-> In x (class_codes prom_nq p k)).
Proof.
  intros Hk. destruct king_facts as (K1 & K2 & K3).
  assert (Hep : forall we, is_we we -> (In x (ep_comp we) <-> In x (class_codes prom_nq p (ep_cls we)))).
  { intros we Hwe. unfold ep_comp. destruct (ep_facts p Hlegal) as [He|[He He0]].
    - rewrite He. cbn [N.eqb Pos.eqb]. split; [intros []|intros H; exfalso].
      apply (no_ep_class prom_nq p Hlegal (ep_cls we) x He); [destruct Hwe as [-> | ->]; cbn; auto|exact H].
    - replace (ep p =? 64) with false by lia. now apply ep_class. }
  assert (Hcases : (k = 0 \/ k = 1 \/ k = 2 \/ k = 3 \/ k = 4 \/ k = 5 \/ k = 6 \/ k = 7 \/ k = 8 \/ k = 9 \/
                    k = 10 \/ k = 11 \/ k = 12 \/ k = 13 \/ k = 14)%nat) by lia.
  destruct Hcases as [->|[->|[->|[->|[->|[->|[->|[->|[->|[->|[->|[->|[->|[->| ->]]]]]]]]]]]]]]; cbn [comp].
  - apply (cap_promo_class prom_nq p Hlegal DW x). now left.
  - apply (cap_norm_class prom_nq p Hlegal DW x). now left.
  - apply (cap_promo_class prom_nq p Hlegal DE x). now right.
  - apply (cap_norm_class prom_nq p Hlegal DE x). now right.
  - apply (Hep DW). now left.
  - apply (Hep DE). now right.
  - apply (promo_push_class prom_nq p Hlegal); [apply nq_prs_ok|apply nq_prs_cls|now left].
  - now apply (king_class prom_nq p Hlegal true).
  - apply (off_class prom_nq p Hlegal true).
  - apply (promo_push_class prom_nq p Hlegal); [apply quiet_prs_ok|apply quiet_prs_cls|now right].
  - apply double_class; exact Hlegal.
  - apply single_class; exact Hlegal.
  - apply castle_class; exact Hlegal.
  - now apply (king_class prom_nq p Hlegal false).
  - apply (off_class prom_nq p Hlegal false).
Qed.

Lemma ep_part :
  (if vep v =? 64 then Some [] else do a <- gen_ep_dir v DW; do e <- gen_ep_dir v DE; Some (a ++ e)) =
  Some (ep_comp DW ++ ep_comp DE).
Proof.
  change (vep v) with (ep p). unfold ep_comp. destruct (ep_facts p Hlegal) as [He|[He _]].
  - rewrite He. reflexivity.
  - replace (ep p =? 64) with false by lia.
    rewrite (gen_ep_eq p Hlegal DW (or_introl eq_refl) He), (gen_ep_eq p Hlegal DE (or_intror eq_refl) He). reflexivity.
Qed.

Lemma nonev_list mode : gen_pseudo prom_nq v mode false = Some (concat (map comp (ks mode))).
Proof.
  destruct king_facts as (K1 & K2 & K3).
  unfold gen_pseudo, ks. cbn [bind].
  assert (Hnq : (do a <- gen_pawn_moves prom_nq v 1 false 0; do k <- gen_king_moves v 1 false; do m <- gen_moves v 1 false 0;
                 Some (a ++ k ++ m)) = Some (concat (map comp (seq 0 9)))).
  { unfold gen_pawn_moves. replace (has_nq 1) with true by reflexivity. replace (has_q 1) with false by reflexivity.
    unfold gen_pawn_nonquiet.
    rewrite (gen_captures_eq p Hlegal DW (or_introl eq_refl)), (gen_captures_eq p Hlegal DE (or_intror eq_refl)). cbn [bind].
    rewrite ep_part. cbn [bind]. rewrite (gen_pawn_promnq_eq prom_nq p Hlegal). cbn [bind].
    pose proof (gen_king_eq p Hlegal true k0 K1 K2 K3) as Hkg. change (mode_of true) with 1 in Hkg. rewrite Hkg. cbn [bind].
    pose proof (gen_moves_eq p Hlegal true) as Hmg. change (mode_of true) with 1 in Hmg. rewrite Hmg.
    cbn [bind seq map concat comp]. rewrite !app_nil_r, <- !app_assoc. reflexivity. }
  assert (Hq : (do a <- gen_pawn_moves prom_nq v 2 false 0; do cs <- gen_castling v 2; do k <- gen_king_moves v 2 false;
                do m <- gen_moves v 2 false 0; Some (a ++ cs ++ k ++ m)) = Some (concat (map comp (seq 9 6)))).
  { unfold gen_pawn_moves. replace (has_nq 2) with false by reflexivity. replace (has_q 2) with true by reflexivity.
    cbn [bind]. rewrite (gen_pawn_quiet_eq prom_nq p Hlegal). cbn [bind].
    rewrite (gen_castling_eq p Hlegal). cbn [bind].
    pose proof (gen_king_eq p Hlegal false k0 K1 K2 K3) as Hkg. change (mode_of false) with 2 in Hkg. rewrite Hkg. cbn [bind].
    pose proof (gen_moves_eq p Hlegal false) as Hmg. change (mode_of false) with 2 in Hmg. rewrite Hmg.
    cbn [bind seq map concat comp app]. rewrite !app_nil_r, <- !app_assoc. reflexivity. }
  destruct (has_nq mode), (has_q mode); rewrite ?Hnq, ?Hq; cbn [bind app]; rewrite ?map_app, ?concat_app, ?app_nil_r; reflexivity.
Qed.

Lemma filter_true_id (l : list N) : filter (fun _ => true) l = l.
Proof. induction l as [|x l IH]; cbn [filter]; [reflexivity|now rewrite IH]. Qed.
Lemma filter_false_nil (l : list N) : filter (fun _ => false) l = [].
Proof. induction l as [|x l IH]; cbn [filter]; [reflexivity|exact IH]. Qed.

(* the component table, entry by entry (kept as separate small lemmas: the kernel checks
   each in isolation) *)
Lemma comp_0 : comp 0 = cap_promo_list p DW. Proof. reflexivity. Qed.
Lemma comp_1 : comp 1 = cap_norm_list p DW. Proof. reflexivity. Qed.
Lemma comp_2 : comp 2 = cap_promo_list p DE. Proof. reflexivity. Qed.
Lemma comp_3 : comp 3 = cap_norm_list p DE. Proof. reflexivity. Qed.
Lemma comp_4 : comp 4 = ep_comp DW. Proof. reflexivity. Qed.
Lemma comp_5 : comp 5 = ep_comp DE. Proof. reflexivity. Qed.
Lemma comp_6 : comp 6 = promo_push_list p (nq_prs prom_nq). Proof. reflexivity. Qed.
Lemma comp_7 : comp 7 = to_list k0 (king_word p true k0). Proof. reflexivity. Qed.
Lemma comp_8 : comp 8 = off_list p true. Proof. reflexivity. Qed.
Lemma comp_9 : comp 9 = promo_push_list p (quiet_prs prom_nq). Proof. reflexivity. Qed.
Lemma comp_10 : comp 10 = double_list p. Proof. reflexivity. Qed.
Lemma comp_11 : comp 11 = single_list p. Proof. reflexivity. Qed.
Lemma comp_12 : comp 12 = castle_list p. Proof. reflexivity. Qed.
Lemma comp_13 : comp 13 = to_list k0 (king_word p false k0). Proof. reflexivity. Qed.
Lemma comp_14 : comp 14 = off_list p false. Proof. reflexivity. Qed.

Lemma keep_mask k : (k = 0 \/ k = 1 \/ k = 2 \/ k = 3 \/ k = 6 \/ k = 8 \/ k = 9 \/ k = 10 \/ k = 11 \/ k = 14)%nat ->
  forall l, filter (comp_keep k) l = tmask evt l.
Proof. intros H l. decompose [or] H; subst k; reflexivity. Qed.
Lemma keep_ep k : (k = 4 \/ k = 5)%nat -> forall l, filter (comp_keep k) l = l.
Proof. intros [-> | ->] l; apply filter_true_id. Qed.
Lemma keep_king k : (k = 7 \/ k = 13)%nat -> forall l, filter (comp_keep k) l = filter (king_keep p) l.
Proof. intros [-> | ->] l; reflexivity. Qed.
Lemma keep_castle l : filter (comp_keep 12) l = [].
Proof. apply filter_false_nil. Qed.

Lemma seq_nq : seq 0 9 = [0; 1; 2; 3; 4; 5; 6; 7; 8]%nat. Proof. reflexivity. Qed.
Lemma seq_q : seq 9 6 = [9; 10; 11; 12; 13; 14]%nat. Proof. reflexivity. Qed.

Lemma ev_comp_nq : concat (map (fun k => filter (comp_keep k) (comp k)) (seq 0 9)) =
  (tmask evt (cap_promo_list p DW) ++ tmask evt (cap_norm_list p DW)) ++
  (tmask evt (cap_promo_list p DE) ++ tmask evt (cap_norm_list p DE)) ++
  (ep_comp DW ++ ep_comp DE) ++ tmask evt (promo_push_list p (nq_prs prom_nq)) ++
  filter (king_keep p) (to_list k0 (king_word p true k0)) ++ tmask evt (off_list p true).
Proof.
  rewrite seq_nq. cbn [map concat].
  rewrite (keep_mask 0), (keep_mask 1), (keep_mask 2), (keep_mask 3), (keep_ep 4), (keep_ep 5), (keep_mask 6),
          (keep_king 7), (keep_mask 8) by tauto.
  rewrite comp_0, comp_1, comp_2, comp_3, comp_4, comp_5, comp_6, comp_7, comp_8.
  rewrite app_nil_r, <- !app_assoc. reflexivity.
Qed.

Lemma ev_comp_q : concat (map (fun k => filter (comp_keep k) (comp k)) (seq 9 6)) =
  (tmask evt (promo_push_list p (quiet_prs prom_nq)) ++ tmask evt (double_list p) ++ tmask evt (single_list p)) ++
  filter (king_keep p) (to_list k0 (king_word p false k0)) ++ tmask evt (off_list p false).
Proof.
  rewrite seq_q. cbn [map concat].
  rewrite (keep_mask 9), (keep_mask 10), (keep_mask 11), keep_castle, (keep_king 13), (keep_mask 14) by tauto.
  rewrite comp_9, comp_10, comp_11, comp_13, comp_14.
  rewrite app_nil_l, app_nil_r, <- !app_assoc. reflexivity.
Qed.

Lemma ev_nq_half :
  (do a <- gen_pawn_moves prom_nq v 1 true evt; do k <- gen_king_moves v 1 true; do m <- gen_moves v 1 true evt;
   Some (a ++ k ++ m)) = Some (concat (map (fun k => filter (comp_keep k) (comp k)) (seq 0 9))).
Proof.
  destruct king_facts as (K1 & K2 & K3). rewrite ev_comp_nq.
  unfold gen_pawn_moves. replace (has_nq 1) with true by reflexivity. replace (has_q 1) with false by reflexivity.
  unfold gen_pawn_nonquiet.
  rewrite (ev_captures p Hlegal evt DW (or_introl eq_refl)), (ev_captures p Hlegal evt DE (or_intror eq_refl)). cbn [bind].
  rewrite ep_part. cbn [bind]. rewrite (ev_promnq prom_nq p Hlegal evt). cbn [bind].
  pose proof (ev_king p Hlegal true k0 K1 K2 K3) as Hkg. change (mode_of true) with 1 in Hkg. rewrite Hkg. cbn [bind].
  pose proof (ev_moves p Hlegal evt true) as Hmg. change (mode_of true) with 1 in Hmg. rewrite Hmg. cbn [bind].
  rewrite !app_nil_r, <- !app_assoc. reflexivity.
Qed.

Lemma ev_q_half :
  (do a <- gen_pawn_moves prom_nq v 2 true evt; do k <- gen_king_moves v 2 true; do m <- gen_moves v 2 true evt;
   Some (a ++ k ++ m)) = Some (concat (map (fun k => filter (comp_keep k) (comp k)) (seq 9 6))).
Proof.
  destruct king_facts as (K1 & K2 & K3). rewrite ev_comp_q.
  unfold gen_pawn_moves. replace (has_nq 2) with false by reflexivity. replace (has_q 2) with true by reflexivity.
  cbn [bind]. rewrite (ev_quiet prom_nq p Hlegal evt). cbn [bind].
  pose proof (ev_king p Hlegal false k0 K1 K2 K3) as Hkg. change (mode_of false) with 2 in Hkg. rewrite Hkg. cbn [bind].
  pose proof (ev_moves p Hlegal evt false) as Hmg. change (mode_of false) with 2 in Hmg. rewrite Hmg. cbn [bind app].
  rewrite <- !app_assoc. reflexivity.
Qed.

Lemma ev_list mode : gen_pseudo prom_nq v mode true =
  Some (concat (map (fun k => filter (comp_keep k) (comp k)) (ks mode))).
Proof.
  unfold gen_pseudo, ks. rewrite (evasion_targets_some p Hlegal). cbn [bind].
  pose proof ev_nq_half as Hnq. pose proof ev_q_half as Hq.
  destruct (has_nq mode), (has_q mode); cbn [bind app]; rewrite ?Hnq; cbn [bind app]; rewrite ?Hq; cbn [bind app];
    rewrite ?map_app, ?concat_app, ?app_nil_r; reflexivity.
Qed.

(** the kept moves as a predicate on specification moves / on codes *)
Definition king_safe (t : N) : bool := (popcount (attacks_to_spec p t (flip c)) =? 0)%nat.

Definition ev_keep_m (m : mv) : bool :=
  if mtype m =? CASTLING then false
  else if mtype m =? ENPASSANT then true
  else if mover p m =? KING then king_safe (mto m)
  else N.testbit evt (mto m).

Definition decode_mv (y : N) : mv := mkmv (From y) (To y) (MoveType y) (PromotionType y).
Definition ev_keep (y : N) : bool := ev_keep_m (decode_mv y).

Lemma decode_mv_code m : valid_mv m -> decode_mv (code m) = m.
Proof.
  intros H. destruct (code_fields m H) as (A & B & C & D). unfold decode_mv. rewrite A, B, C, D. now destruct m.
Qed.

Lemma cls_tests m : valid_mv m ->
  let k := cls prom_nq p m in
  ev_keep_m m =
  if k =? 12 then false else if (k =? 4) || (k =? 5) then true
  else if (k =? 7) || (k =? 13) then king_safe (mto m) else N.testbit evt (mto m).
Proof.
  intros Hv. unfold ev_keep_m, cls. cbv zeta.
  destruct (mtype m =? CASTLING); [reflexivity|].
  destruct (mtype m =? ENPASSANT); [destruct (file_of (mfrom m) <? file_of (mto m)); reflexivity|].
  destruct (N.eqb_spec (mover p m) PAWN) as [Ep|Ep].
  - rewrite Ep. change (PAWN =? KING) with false. cbv iota.
    destruct (file_of (mfrom m) =? file_of (mto m));
      [|destruct (file_of (mto m) <? file_of (mfrom m)); destruct (mtype m =? PROMOTION); cbn [N.eqb Pos.eqb orb]; reflexivity].
    destruct (mtype m =? PROMOTION);
      [destruct (prom_nq && ((mprom m =? QUEEN) || (mprom m =? KNIGHT))); cbn [N.eqb Pos.eqb orb]; reflexivity|].
    destruct (zabs_diff (rank_of (mfrom m)) (rank_of (mto m)) =? 2); cbn [N.eqb Pos.eqb orb]; reflexivity.
  - destruct (mover p m =? KING); destruct (piece_at p (mto m) =? 0); cbn [N.eqb Pos.eqb orb]; reflexivity.
Qed.

Lemma keep_agree k y : (k < 15)%nat -> In y (comp k) -> comp_keep k y = ev_keep y.
Proof.
  intros Hk Hy. apply (comp_class k y Hk) in Hy. apply class_codes_in in Hy as (m & Hm & Hc & <-).
  pose proof (pseudo_valid p m (legal_wfp p Hlegal) Hm) as Hv.
  unfold ev_keep. rewrite (decode_mv_code m Hv), (cls_tests m Hv). cbv zeta. rewrite Hc.
  unfold king_safe.
  assert (Hcases : (k = 0 \/ k = 1 \/ k = 2 \/ k = 3 \/ k = 4 \/ k = 5 \/ k = 6 \/ k = 7 \/ k = 8 \/ k = 9 \/
                    k = 10 \/ k = 11 \/ k = 12 \/ k = 13 \/ k = 14)%nat) by lia.
  destruct Hcases as [->|[->|[->|[->|[->|[->|[->|[->|[->|[->|[->|[->|[->|[->| ->]]]]]]]]]]]]]];
    cbn [comp_keep N.eqb Pos.eqb orb N.of_nat Pos.of_succ_nat Pos.succ]; unfold king_keep; rewrite ?(code_to m Hv); reflexivity.
Qed.

Theorem gen_pseudo_evasion_filter mode : exists l,
  gen_pseudo prom_nq v mode false = Some l /\ gen_pseudo prom_nq v mode true = Some (filter ev_keep l).
Proof.
  exists (concat (map comp (ks mode))). split; [apply nonev_list|]. rewrite ev_list. f_equal.
  assert (Hks : forall k, In k (ks mode) -> (k < 15)%nat).
  { intros k Hk. unfold ks in Hk. apply in_app_or in Hk as [Hk|Hk].
    - destruct (has_nq mode); [apply in_seq in Hk; lia|destruct Hk].
    - destruct (has_q mode); [apply in_seq in Hk; lia|destruct Hk]. }
  induction (ks mode) as [|k l IH]; cbn [map concat filter]; [reflexivity|].
  rewrite filter_app, IH by (intros x Hx; apply Hks; now right). f_equal.
  apply filter_ext_in. intros y Hy. apply keep_agree; [apply Hks; now left|exact Hy].
Qed.

Theorem evasion_sound mode : exists le l,
  gen_pseudo prom_nq v mode true = Some le /\ gen_pseudo prom_nq v mode false = Some l /\
  (forall x, In x le -> In x l).
Proof.
  destruct (gen_pseudo_evasion_filter mode) as (l & H1 & H2). exists (filter ev_keep l), l.
  repeat split; try assumption. intros x Hx. now apply filter_In in Hx.
Qed.

Lemma nonev_nodup mode l : gen_pseudo prom_nq v mode false = Some l -> NoDup l.
Proof.
  intros Hl. rewrite nonev_list in Hl. apply some_inj in Hl. rewrite <- Hl. clear Hl l.
  assert (N3 : NoDup (concat (map comp (seq 0 9)) ++ concat (map comp (seq 9 6)))).
  { destruct (pseudo_exact prom_nq p Hlegal) as (l3 & E3 & _ & N3). rewrite nonev_list in E3. apply some_inj in E3.
    rewrite <- E3 in N3. unfold ks in N3. replace (has_nq 3) with true in N3 by reflexivity.
    replace (has_q 3) with true in N3 by reflexivity. now rewrite map_app, concat_app in N3. }
  pose proof (nodup_app_inv _ _ N3) as (Nn & Nq & _).
  unfold ks. destruct (has_nq mode), (has_q mode); cbn [app]; rewrite ?map_app, ?concat_app, ?app_nil_r; try assumption.
  constructor.
Qed.

Theorem evasion_nodup mode le : gen_pseudo prom_nq v mode true = Some le -> NoDup le.
Proof.
  intros Hle. destruct (gen_pseudo_evasion_filter mode) as (l & H1 & H2). rewrite H2 in Hle. apply some_inj in Hle. rewrite <- Hle.
  apply NoDup_filter. now apply (nonev_nodup mode).
Qed.

End Assembly.

Print Assumptions evasion_sound.
Print Assumptions evasion_nodup.
