(** * FenImpl: executable model of the engine's FEN reader and writer (C16, first half)
      position.setupBoard   /repo/internal/position/position.go:966-1142
      position.fen          /repo/internal/position/position.go:908-949
      types.PieceFromChar (piece.go:115), types.MakeSquare (square.go:125), types.SquareOf
      (square.go:148), CastlingRights.String (castlingrights.go:73), Square.String
      (square.go:139), Color.String (color.go:52), and the Go library functions they use:
      strings.TrimSpace, strings.Split, strconv.Atoi, strconv.Itoa, regexp.MatchString.

    Definitions only (proofs: FenProofs.v).  Strings are [FenSpec.str] = lists of BYTE codes.

    What is modelled of the Position struct: the fields that FEN input determines and FEN
    output shows: board, nextPlayer, castlingRights, enPassantSquare, halfMoveClock,
    nextHalfMoveNumber.  The other fields written by putPiece (bitboards, king squares,
    material, piece-square sums, game phase, Zobrist key) are functions of these (PosImpl /
    PosProofs) and cannot fail for piece codes 1..6, 9..14 and squares below 64.

    Go [int] is 64 bit: the two clocks are [Z] kept in the int64 range; the only arithmetic
    that can leave the range is wrapped explicitly ([wrap64]) at position.go:1111 and :946.

    Non-ASCII bytes.  Go ranges over the board field by RUNE (position.go:991).  A byte
    >= 128 starts either a multi-byte rune or an invalid sequence (U+FFFD); in both cases
    [string(c)] is not one ASCII character, so Atoi fails, it is not "/", and PieceFromChar
    returns PieceNone (len(s) != 1): the loop returns the error "invalid piece character" at
    that byte.  All bytes before it are ASCII and are treated alike by rune and by byte
    iteration.  So the byte-wise loop below gives the same result (same error site).
    The regular expressions only contain ASCII classes and therefore never match a byte
    >= 128.  strings.TrimSpace removes Unicode white space: that IS modelled ([strip1]). *)
From Coq Require Import NArith ZArith List Bool.
From FG Require Import Geom Rules FenSpec Oracle.
Import ListNotations.
Open Scope N_scope.

(** ** What setupBoard builds *)
Record fpos := mkfpos {
  f_board : list N;   (* board [64]Piece: 0 none, 1 K 2 P 3 N 4 B 5 R 6 Q, +8 black; a1 = 0 *)
  f_side  : N;        (* nextPlayer: 0 White, 1 Black *)
  f_cr    : N;        (* castlingRights: bit0 K, bit1 Q, bit2 k, bit3 q *)
  f_ep    : N;        (* enPassantSquare, 64 = SqNone *)
  f_hmc   : Z;        (* halfMoveClock (int) *)
  f_nhm   : Z         (* nextHalfMoveNumber (int) *)
}.

Inductive result := Ok (p : fpos) | Err (e : N) | Panic.

(** error sites of setupBoard (the [e] of [Err e]; line numbers of position.go at the modelled
    revision "fix: FEN setup rejects negative clocks and absurd move numbers"):
    1  :981  "fen position contains invalid characters"
    2  :995  "too many squares in a rank" (digit)        3  :1000 "rank ... not complete or too many ranks"
    4  :1008 "invalid piece character"                    5  :1012 "too many squares in a rank" (piece)
    6  :1020 "not reached last square (h1)"               7  :1024 "needs exactly one king of each color"
    8  :1038 next player                                  9  :1057 castling rights
    10 :1082 en passant (regex)                           11 :1087 en passant not on rank 3 or 6
    15 :1098 "en passant square does not fit the position"
    12 :1112 half move clock (Atoi error)                 16 :1108 "half move clock must not be negative"
    13 :1130 move number (Atoi error)                     17 :1122 "move number is out of range"
    14 :1136 "the side not to move is in check" *)

(** ** Go int (64 bit two's complement) *)
Definition two63 : Z := 9223372036854775808%Z.
Definition two64 : Z := 18446744073709551616%Z.
Definition wrap64 (z : Z) : Z := ((z + two63) mod two64 - two63)%Z.
Definition in_int64 (z : Z) : bool := ((- two63 <=? z) && (z <? two63))%Z.

(** ** strings.TrimSpace (Go strings/strings.go).
    White space = unicode.IsSpace: the ASCII characters \t \n \v \f \r ' ' and U+0085,
    U+00A0, U+1680, U+2000..U+200A, U+2028, U+2029, U+202F, U+205F, U+3000 in their (only
    valid) UTF-8 encodings.  TrimLeftFunc decodes runes from the left (an invalid byte is
    U+FFFD, not a space) and TrimRightFunc decodes the last rune; a suffix is a space iff it
    is one of these encodings (their lead byte is the first non-continuation byte seen when
    scanning backwards). *)
Definition is_ascii_space (c : N) : bool :=
  (c =? 9) || (c =? 10) || (c =? 11) || (c =? 12) || (c =? 13) || (c =? 32).

(* third byte of E2 80 xx that encodes a space: U+2000..U+200A, U+2028, U+2029, U+202F *)
Definition e280_space (b : N) : bool :=
  ((128 <=? b) && (b <=? 138)) || (b =? 168) || (b =? 169) || (b =? 175).

(* remove one white space rune from the front *)
Definition strip1 (s : str) : option str :=
  match s with
  | [] => None
  | c :: r =>
      if is_ascii_space c then Some r else
      match r with
      | [] => None
      | b :: r2 =>
          if (c =? 194) && ((b =? 133) || (b =? 160)) then Some r2 else     (* C2 85, C2 A0 *)
          match r2 with
          | [] => None
          | d :: r3 =>
              if (c =? 225) && (b =? 154) && (d =? 128) then Some r3          (* E1 9A 80 *)
              else if (c =? 226) && (b =? 128) && e280_space d then Some r3   (* E2 80 xx *)
              else if (c =? 226) && (b =? 129) && (d =? 159) then Some r3     (* E2 81 9F *)
              else if (c =? 227) && (b =? 128) && (d =? 128) then Some r3     (* E3 80 80 *)
              else None
          end
      end
  end.

(* the same on the REVERSED string: remove one white space rune from the end *)
Definition strip1r (s : str) : option str :=
  match s with
  | [] => None
  | c :: r =>
      if is_ascii_space c then Some r else
      match r with
      | [] => None
      | b :: r2 =>
          if (b =? 194) && ((c =? 133) || (c =? 160)) then Some r2 else
          match r2 with
          | [] => None
          | d :: r3 =>
              if (d =? 225) && (b =? 154) && (c =? 128) then Some r3
              else if (d =? 226) && (b =? 128) && e280_space c then Some r3
              else if (d =? 226) && (b =? 129) && (c =? 159) then Some r3
              else if (d =? 227) && (b =? 128) && (c =? 128) then Some r3
              else None
          end
      end
  end.

Fixpoint strip_all (f : str -> option str) (fuel : nat) (s : str) : str :=
  match fuel with
  | O => s
  | S k => match f s with Some r => strip_all f k r | None => s end
  end.

Definition trim_space (s : str) : str :=
  let l := strip_all strip1 (length s) s in
  rev (strip_all strip1r (length l) (rev l)).

(** ** strings.Split(s, " "): never the empty list; consecutive blanks give empty fields *)
Fixpoint split_sp (s : str) (cur : str) : list str :=
  match s with
  | [] => [rev cur]
  | c :: r => if c =? 32 then rev cur :: split_sp r [] else split_sp r (c :: cur)
  end.

(** ** strconv.Atoi (base 10, bit size 64): optional sign, at least one digit, digits only
    (no underscores in base 10), value in the int64 range; any number of leading zeros. *)
Definition digit (c : N) : bool := (48 <=? c) && (c <=? 57).
Definition digits_val (ds : str) : N := fold_left (fun acc c => 10 * acc + (c - 48)) ds 0.
Definition atoi (s : str) : option Z :=
  let '(neg, ds) := match s with
                    | [] => (false, [])
                    | c :: r => if c =? 43 then (false, r) else if c =? 45 then (true, r) else (false, s)
                    end in
  match ds with
  | [] => None                                              (* ErrSyntax *)
  | _ :: _ =>
      if forallb digit ds then
        let v := Z.of_N (digits_val ds) in
        let z := if neg then (- v)%Z else v in
        if in_int64 z then Some z else None                 (* ErrRange *)
      else None                                             (* ErrSyntax *)
  end.

(** ** strconv.Itoa on an int64 value.  19 decimal digits suffice below 2^63. *)
Fixpoint udec (fuel : nat) (n : N) (acc : str) : str :=
  match fuel with
  | O => acc
  | S k => let acc' := (48 + n mod 10) :: acc in
           if n / 10 =? 0 then acc' else udec k (n / 10) acc'
  end.
Definition itoa (z : Z) : str :=
  if (z <? 0)%Z then 45 :: udec 20 (Z.to_N (- z)) [] else udec 20 (Z.to_N z) [].

(** ** types.PieceFromChar (piece.go:115-124): index in " KPNBRQ- kpnbrq-"; "-" and a
    missing character give PieceNone; index 0 (the blank) IS PieceNone. *)
Definition piece_chars : list N := [32;75;80;78;66;82;81;45; 32;107;112;110;98;114;113;45].
Definition piece_from_char (c : N) : option N :=
  if c =? 75 then Some 1 else if c =? 80 then Some 2 else if c =? 78 then Some 3
  else if c =? 66 then Some 4 else if c =? 82 then Some 5 else if c =? 81 then Some 6
  else if c =? 107 then Some 9 else if c =? 112 then Some 10 else if c =? 110 then Some 11
  else if c =? 98 then Some 12 else if c =? 114 then Some 13 else if c =? 113 then Some 14
  else None.
(* Piece.String (piece.go:78): pieceToString[p]; out of range = panic = None *)
Definition piece_to_char (pc : N) : option N := nth_error piece_chars (N.to_nat pc).

(** ** types.SquareOf (square.go:148): SqNone (64) unless file < 8 and rank < 8 *)
Definition square_of (file rank : N) : N :=
  if (file <? 8) && (rank <? 8) then 8 * rank + file else 64.

(** board[square] = piece (position.go:850): an index outside the array panics *)
Fixpoint put_opt (b : list N) (n : nat) (v : N) : option (list N) :=
  match b, n with
  | [], _ => None
  | _ :: t, O => Some (v :: t)
  | h :: t, S k => match put_opt t k v with Some t' => Some (h :: t') | None => None end
  end.

(** ** the board loop, position.go:991-1018 *)
Inductive lres := LDone (file rank : N) (b : list N) | LErr (e : N) | LPanic.

Fixpoint board_loop (cs : str) (file rank : N) (b : list N) : lres :=
  match cs with
  | [] => LDone file rank b
  | c :: r =>
      if 128 <=? c then LErr 4                                      (* non-ASCII rune: :1006-1009 *)
      else if digit c then                                          (* :992 Atoi(string(c)) succeeds *)
        let number := c - 48 in
        let file' := file + number in                               (* :993 *)
        if (number =? 0) || (8 <? file') then LErr 2                (* :994-997 *)
        else board_loop r file' rank b
      else if c =? 47 then                                          (* :998 "/" *)
        if negb (file =? 8) || (rank =? 0) then LErr 3              (* :999-1002 *)
        else board_loop r 0 (rank - 1) b                            (* :1003-1004 *)
      else
        match piece_from_char c with                                (* :1006 *)
        | None => LErr 4                                            (* :1007-1010 *)
        | Some pc =>
            if 7 <? file then LErr 5                                (* :1011-1014 *)
            else match put_opt b (N.to_nat (square_of file rank)) pc with   (* :1015 putPiece *)
                 | None => LPanic                                   (* board[64] *)
                 | Some b' => board_loop r (file + 1) rank b'       (* :1016 *)
                 end
        end
  end.

(** regexFenPos = "[0-8pPnNbBrRqQkK/]+" UNANCHORED (:952, :979): some character of the class *)
Definition fenpos_char (c : N) : bool :=
  ((48 <=? c) && (c <=? 56)) || (c =? 47) ||
  (c =? 112) || (c =? 80) || (c =? 110) || (c =? 78) || (c =? 98) || (c =? 66) ||
  (c =? 114) || (c =? 82) || (c =? 113) || (c =? 81) || (c =? 107) || (c =? 75).

(* Bitboard.PopCount of piecesBb[c][King]: every putPiece of the loop writes a fresh square
   (file grows inside a rank, rank only decreases), so the number of set bits is the number
   of board cells holding that king *)
Definition count_code (b : list N) (pc : N) : nat := length (filter (N.eqb pc) b).

(** ** the optional fields *)
(* :1035-1051  regexWorB = "^[w|b]$" : the class contains '|' ; "|" leaves nextPlayer = White *)
Definition side_field (o : option str) : option N :=
  match o with
  | None => Some 0
  | Some [c] => if c =? 119 then Some 0 else if c =? 124 then Some 0 else if c =? 98 then Some 1 else None
  | Some _ => None
  end.

(* :1054-1075  regexCastlingRights = "^(K?Q?k?q?|-)$" ; the empty field matches *)
Definition eat (c : N) (s : str) : str :=
  match s with x :: r => if x =? c then r else s | [] => s end.
Definition cr_regex (s : str) : bool :=
  (match s with [c] => c =? 45 | _ => false end)
  || match eat 113 (eat 107 (eat 81 (eat 75 s))) with [] => true | _ => false end.
Definition cr_bit (c : N) : N :=
  if c =? 75 then 1 else if c =? 81 then 2 else if c =? 107 then 4 else if c =? 113 then 8 else 0.
Definition cr_field (o : option str) : option N :=
  match o with
  | None => Some 0
  | Some s => if cr_regex s then Some (fold_left (fun acc c => N.lor acc (cr_bit c)) s 0) else None
  end.

(* :1079-1102  regexEnPassant = "^([a-h][1-8]|-)$", MakeSquare, rank 3 / 6 test, and the test
   that the square fits the position: it is on rank 6 when White is to move (rank 3 for
   Black), it is empty, and the square behind it (seen from the side to move) holds a pawn
   of the side which has just moved.  Go's || evaluates left to right and stops early. *)
Inductive eres := EOk (sq : N) | EErr (e : N) | EPanic.
(* Square.To(South) / Square.To(North) (square.go:156): SqNone when leaving the board *)
Definition to_south (s : N) : N := if (8 <=? s) && (s <? 64) then s - 8 else 64.
Definition to_north (s : N) : N := if s <? 56 then s + 8 else 64.
(* regex + MakeSquare + rank 3/6 test (:1080-1090): inl = error site, inr = square *)
Definition ep_square (s : str) : N + N :=
  match s with
  | [c] => if c =? 45 then inr 64 else inl 10
  | [f; r] =>
      if (97 <=? f) && (f <=? 104) && (49 <=? r) && (r <=? 56) then
        let sq := square_of (f - 97) (r - 49) in                    (* MakeSquare, square.go:125 *)
        let rk := N.shiftr sq 3 in                                  (* RankOf *)
        if (rk =? 2) || (rk =? 5) then inr sq else inl 11           (* :1086-1089 *)
      else inl 10
  | _ => inl 10
  end.
(* :1093-1102 *)
Definition ep_fit (sq side : N) (b : list N) : eres :=
  (* Black.MoveDirection = South, White.MoveDirection = North (color.go:72) *)
  let pawn_sq := if side =? 0 then to_south sq else to_north sq in
  if negb (N.shiftr sq 3 =? (if side =? 0 then 5 else 2)) then EErr 15      (* :1097 *)
  else match nth_error b (N.to_nat sq) with                         (* :1098 p.board[ep] *)
       | None => EPanic
       | Some x =>
           if negb (x =? 0) then EErr 15 else
           match nth_error b (N.to_nat pawn_sq) with                (* :1099 p.board[pawnSquare] *)
           | None => EPanic
           | Some y => if negb (y =? 8 * (1 - side) + 2) then EErr 15   (* MakePiece(flip, Pawn) *)
                       else EOk sq
           end
       end.
Definition ep_field (o : option str) (side : N) (b : list N) : eres :=
  match o with
  | None => EOk 64
  | Some s => match ep_square s with
              | inl e => EErr e
              | inr sq => if sq =? 64 then EOk 64 else ep_fit sq side b    (* :1085 fenParts[3] != "-" *)
              end
  end.

(* half move clock, :1104-1115: Atoi error (12), negative (16) *)
Definition hmc_field (o : option str) : N + Z :=
  match o with
  | None => inr 0%Z
  | Some s => match atoi s with
              | None => inl 12
              | Some v => if (v <? 0)%Z then inl 16 else inr v
              end
  end.

(* move number, :1117-1132 ; [nhm0] is the value set at :1029 / :1048.  With 1 <= m' <= 10^6
   the expression 2*m' - (1 - nextPlayer) cannot leave the int range: no wrap-around *)
Definition max_move_number : Z := 1000000%Z.
Definition mn_field (o : option str) (side : N) (nhm0 : Z) : N + Z :=
  match o with
  | None => inr nhm0
  | Some s => match atoi s with
              | None => inl 13
              | Some m =>
                  if (m <? 0)%Z || (max_move_number <? m)%Z then inl 17       (* :1121-1124 *)
                  else let m' := if (m =? 0)%Z then 1%Z else m in           (* :1125-1127 *)
                       inr (2 * m' - (1 - Z.of_N side))%Z                   (* :1128 *)
              end
  end.

Definition setup_rest (b : list N) (parts : list str) : result :=
  match side_field (nth_error parts 1) with
  | None => Err 8
  | Some side =>
      let nhm0 := if side =? 1 then 2%Z else 1%Z in                 (* :1029, :1048 *)
      match cr_field (nth_error parts 2) with
      | None => Err 9
      | Some cr =>
          match ep_field (nth_error parts 3) side b with
          | EPanic => Panic
          | EErr e => Err e
          | EOk ep =>
              match hmc_field (nth_error parts 4) with
              | inl e => Err e
              | inr hmc =>
                  match mn_field (nth_error parts 5) side nhm0 with
                  | inl e => Err e
                  | inr nhm =>
                      (* :1134-1138 IsAttacked(kingSquare[them], us).  kingSquare[c] is the square
                         of the (only) king of colour c; IsAttacked = Oracle.is_attacked_spec
                         (AttacksProofs.is_attacked_exact_wf) *)
                      if is_attacked_spec (mkpos b side cr ep 0 0) (king_sq b (1 - side)) side
                      then Err 14
                      else Ok (mkfpos b side cr ep hmc nhm)
                  end
              end
          end
      end
  end.

Definition empty_board : list N := repeat 0 64.                     (* p := &Position{} *)

Definition setup_parts (parts : list str) : result :=
  match parts with
  | [] => Err 0                                                     (* :973 (unreachable: Split never returns an empty slice) *)
  | p0 :: _ =>
      if negb (existsb fenpos_char p0) then Err 1 else              (* :979-983 *)
      match board_loop p0 0 7 empty_board with                      (* :988-1018 *)
      | LPanic => Panic
      | LErr e => Err e
      | LDone file rank b =>
          if negb (rank =? 0) || negb (file =? 8) then Err 6        (* :1019-1022 *)
          else if negb (Nat.eqb (count_code b 1) 1) || negb (Nat.eqb (count_code b 9) 1) then Err 7  (* :1023-1026 *)
          else setup_rest b parts
      end
  end.

(** setupBoard on a fresh Position (= NewPositionFen) *)
Definition setup (s : str) : result := setup_parts (split_sp (trim_space s) []).   (* :970-971 *)

(** ** fen() (:908-949).  [None] = a Go panic (piece code >= 16, colour >= 2, short board). *)
Fixpoint rank_out (pcs : list N) (empties : N) : option str :=      (* :913-927 for one rank *)
  match pcs with
  | [] => Some (if empties =? 0 then [] else [48 + empties])       (* :925-927, Itoa of 1..8 *)
  | pc :: r =>
      if pc =? 0 then rank_out r (empties + 1)                      (* :915-916 *)
      else match piece_to_char pc, rank_out r 0 with                (* :918-922 *)
           | Some ch, Some rest => Some ((if empties =? 0 then [] else [48 + empties]) ++ ch :: rest)
           | _, _ => None
           end
  end.

Definition files8 : list N := [0;1;2;3;4;5;6;7].
(* the eight cells of a rank: board[SquareOf(f, Rank8 - r)] (:914) *)
Definition rank_cells (b : list N) (rank : N) : option (list N) :=
  all_some (map (fun f => nth_error b (N.to_nat (square_of f rank))) files8).
Definition rank_line (b : list N) (rank : N) : option str :=
  match rank_cells b rank with
  | Some pcs => match rank_out pcs 0 with
                | Some s => Some (s ++ (if rank =? 0 then [] else [47]))    (* :928-930 *)
                | None => None end
  | None => None
  end.
Definition board_out (b : list N) : option str :=
  match all_some (map (rank_line b) [7;6;5;4;3;2;1;0]) with
  | Some ls => Some (concat ls)
  | None => None
  end.

Definition side_out (c : N) : option str :=                         (* color.go:52 *)
  if c =? 0 then Some [119] else if c =? 1 then Some [98] else None.
Definition cr_out (c : N) : str :=                                  (* castlingrights.go:73 (uint8) *)
  if c =? 0 then [45] else
  (if N.testbit c 0 then [75] else []) ++ (if N.testbit c 1 then [81] else []) ++
  (if N.testbit c 2 then [107] else []) ++ (if N.testbit c 3 then [113] else []).
Definition sq_out (s : N) : str :=                                  (* square.go:139 *)
  if s <? 64 then [97 + N.land s 7; 49 + N.shiftr s 3] else [45].
(* :946 (p.nextHalfMoveNumber + 1) / 2 : Go's / truncates towards zero *)
Definition move_number (nhm : Z) : Z := Z.quot (wrap64 (nhm + 1)) 2.

Definition fen_of_opt (p : fpos) : option str :=
  match board_out (f_board p), side_out (f_side p) with
  | Some bs, Some ss =>
      Some (bs ++ [32] ++ ss ++ [32] ++ cr_out (f_cr p) ++ [32] ++ sq_out (f_ep p) ++ [32]
            ++ itoa (f_hmc p) ++ [32] ++ itoa (move_number (f_nhm p)))
  | _, _ => None
  end.
(* total version; equal to the Go output whenever fen() does not panic (FenProofs.fen_of_total) *)
Definition fen_of (p : fpos) : str := match fen_of_opt p with Some s => s | None => [] end.

(** ** abstraction to the rules specification *)
Definition abs (p : fpos) : pos :=
  mkpos (f_board p) (f_side p) (f_cr p) (f_ep p) (Z.to_N (f_hmc p)) (Z.to_N (move_number (f_nhm p))).
(* the engine position of a specification position (what setupBoard builds from its FEN) *)
Definition rep (q : pos) : fpos :=
  mkfpos (brd q) (stm q) (cr q) (ep q) (Z.of_N (hmc q)) (2 * Z.of_N (fmn q) - (1 - Z.of_N (stm q)))%Z.

(** ** well-formedness guaranteed by setupBoard (FenProofs.fen_wellformed) *)
Definition valid_code (pc : N) : bool := ((1 <=? pc) && (pc <=? 6)) || ((9 <=? pc) && (pc <=? 14)).
Definition cell_ok (pc : N) : bool := (pc =? 0) || valid_code pc.
Definition ep_wf (p : fpos) : bool :=
  let e := f_ep p in let b := f_board p in
  (e =? 64) ||
  ((e <? 64) && (N.shiftr e 3 =? (if f_side p =? 0 then 5 else 2))
   && (at_ b e =? 0)
   && (at_ b (if f_side p =? 0 then e - 8 else e + 8) =? 8 * (1 - f_side p) + 2)).
Definition not_in_check (p : fpos) : bool :=
  negb (is_attacked_spec (mkpos (f_board p) (f_side p) (f_cr p) (f_ep p) 0 0)
                         (king_sq (f_board p) (1 - f_side p)) (f_side p)).
(* the part of well-formedness that does not concern the two clocks *)
Definition fstruct (p : fpos) : bool :=
  Nat.eqb (length (f_board p)) 64
  && forallb cell_ok (f_board p)
  && Nat.eqb (count_code (f_board p) 1) 1 && Nat.eqb (count_code (f_board p) 9) 1
  && (f_side p <? 2) && (f_cr p <? 16)
  && ep_wf p && not_in_check p.

(* what setupBoard makes of the output of fen() for a position with [fstruct] (FenProofs.
   setup_fen_of_gen): only the clocks can make it fail or differ *)
Definition reparse (p : fpos) : result :=
  if (f_hmc p <? 0)%Z then Err 16 else
  let m := move_number (f_nhm p) in
  if (m <? 0)%Z || (max_move_number <? m)%Z then Err 17 else
  Ok (mkfpos (f_board p) (f_side p) (f_cr p) (f_ep p) (f_hmc p)
             (2 * (if (m =? 0)%Z then 1 else m) - (1 - Z.of_N (f_side p)))%Z).

Definition fpos_wf (p : fpos) : bool :=
  Nat.eqb (length (f_board p)) 64
  && forallb cell_ok (f_board p)
  && Nat.eqb (count_code (f_board p) 1) 1 && Nat.eqb (count_code (f_board p) 9) 1
  && (f_side p <? 2) && (f_cr p <? 16)
  && ep_wf p
  && (0 <=? f_hmc p)%Z && (f_hmc p <? two63)%Z
  && (1 <=? f_nhm p)%Z && (f_nhm p <=? 2 * max_move_number)%Z
  && ((f_nhm p + Z.of_N (f_side p)) mod 2 =? 1)%Z     (* White: odd ply number, Black: even *)
  && not_in_check p.

(** ** executable checkers for the correspondence run *)
Definition fpos_eqb (a b : fpos) : bool :=
  str_eqb (f_board a) (f_board b) && (f_side a =? f_side b) && (f_cr a =? f_cr b) && (f_ep a =? f_ep b)
  && (f_hmc a =? f_hmc b)%Z && (f_nhm a =? f_nhm b)%Z.

(* [s]: the bytes given to NewPositionFen; [observed]: 0 = an error was returned, 1 = a
   position was returned; [observed_fen]: its StringFen() (ignored when observed = 0) *)
Definition fen_case_ok (s : str) (observed : N) (observed_fen : str) : bool :=
  match setup s with
  | Ok p => (observed =? 1) && str_eqb (fen_of p) observed_fen
  | Err _ => observed =? 0
  | Panic => false
  end.

(* finer observation used for validating the model: (error site; 0 = ok; the Go error text does
   not distinguish 12/13, 2/5, 9/10: they are reported as 12, 2, 9), fen(), nextHalfMoveNumber *)
Definition fen_obs (s : str) : N * str * Z :=
  match setup s with
  | Ok p => (0, fen_of p, f_nhm p)
  | Err e => (if e =? 13 then 12 else if e =? 5 then 2 else if e =? 10 then 9 else e, [], 0%Z)
  | Panic => (99, [], 0%Z)
  end.
