(** * PosProofsI: setupBoard establishes the invariant ([setup_inv]); a position agrees with a
    fresh one built from its FEN ([fresh_equal]); the key is a function of the abstract
    position ([key_function]) (C04). *)
From Coq Require Import NArith ZArith List Bool Lia ZifyN ZifyBool Btauto.
From FG Require Import Geom Rules FenSpec PosImpl PosProofsA PosProofsB PosProofsC PosProofsD PosProofsE PosProofsF PosProofsG PosProofsH.
Import ListNotations.
Open Scope N_scope.

Section Setup.
Variable t : tabs.

(** ** what setupBoard builds *)
Definition kings_unique (b : list N) : Prop :=
  forall c s s', c < 2 -> at_ b s = 8 * c + KING -> at_ b s' = 8 * c + KING -> s = s'.

Record spec_ok (q : pos) : Prop := {
  so_len : length (brd q) = 64%nat;
  so_ok : forall s, okpc (at_ (brd q) s) = true;
  so_kings : kings_unique (brd q);
  so_stm : stm q < 2;
  so_cr : cr q < 16;
  so_fmn : 1 <= fmn q;
  so_ep : ep q = 64 \/
          (ep q < 64 /\ rank_of (ep q) = (if stm q =? 0 then 5 else 2) /\
           sq_to (ep q) (pawn_dir (cflip (stm q))) < 64 /\
           at_ (brd q) (sq_to (ep q) (pawn_dir (cflip (stm q)))) = 8 * cflip (stm q) + PAWN)
}.

Lemma at_repeat n s : at_ (repeat 0 n) s = 0.
Proof.
  unfold at_. destruct (Nat.lt_ge_cases (N.to_nat s) n) as [H|H].
  - apply nth_repeat.
  - apply nth_overflow. rewrite repeat_length. exact H.
Qed.

Lemma zsum_repeat0 f n : (forall s, f 0 s = 0%Z) -> forall s, zsum f (repeat 0 n) s = 0%Z.
Proof. intros Hf. induction n as [|n IH]; intro s; cbn; [reflexivity|]. rewrite Hf, IH. reflexivity. Qed.
Lemma xsum_repeat0 f n : (forall s, f 0 s = 0) -> forall s, xsum f (repeat 0 n) s = 0.
Proof. intros Hf. induction n as [|n IH]; intro s; cbn; [reflexivity|]. rewrite Hf, IH. reflexivity. Qed.

Lemma bb_get_repeat c ty : bb_get (repeat 0 14) c ty = 0.
Proof.
  unfold bb_get. destruct (Nat.lt_ge_cases (pidx c ty) 14) as [H|H].
  - apply nth_repeat.
  - apply nth_overflow. rewrite repeat_length. exact H.
Qed.

Lemma empty_coh : Coh t empty_pos.
Proof.
  constructor; cbn [empty_pos i_board i_pbb i_occ i_mat i_matnp i_psqm i_psqe i_ksq].
  - apply repeat_length.
  - intro s. rewrite at_repeat. reflexivity.
  - apply repeat_length.
  - intros c ty i _ _. rewrite bb_get_repeat, at_repeat. apply N.bits_0.
  - intros c i Hc. rewrite at_repeat. assert (c = 0 \/ c = 1) as [-> | ->] by lia; apply N.bits_0.
  - intros c Hc. unfold mat_of. rewrite zsum_repeat0 by reflexivity. assert (c = 0 \/ c = 1) as [-> | ->] by lia; reflexivity.
  - intros c Hc. unfold matnp_of. rewrite zsum_repeat0 by reflexivity. assert (c = 0 \/ c = 1) as [-> | ->] by lia; reflexivity.
  - intros c Hc. unfold psqm_of. rewrite zsum_repeat0 by reflexivity. assert (c = 0 \/ c = 1) as [-> | ->] by lia; reflexivity.
  - intros c Hc. unfold psqe_of. rewrite zsum_repeat0 by reflexivity. assert (c = 0 \/ c = 1) as [-> | ->] by lia; reflexivity.
  - intros c s Hc. rewrite at_repeat. unfold KING. lia.
Qed.

Lemma empty_kres : kres t empty_pos = 0.
Proof. unfold kres, piece_key. cbn [empty_pos i_key i_board]. rewrite xsum_repeat0 by reflexivity. reflexivity. Qed.

Lemma empty_psum : psum t (i_board empty_pos) = 0%Z.
Proof. unfold psum. cbn [empty_pos i_board]. apply zsum_repeat0. reflexivity. Qed.

(* the game phase a fresh position reports: the clamped sum *)
Definition phase_of (t : tabs) (b : list N) : Z :=
  if clamp t then Z.min GamePhaseMax (psum t b) else psum t b.

Definition mem (s : N) (l : list N) : bool := existsb (N.eqb s) l.

(* invariant of the placement loop: the squares in [done] carry their pieces *)
Record placed (b : list N) (done : list N) (p : ipos) : Prop := {
  pl_coh : Coh t p;
  pl_kres : kres t p = 0;
  pl_board : forall s, at_ (i_board p) s = if mem s done then at_ b s else 0;
  pl_phase : phval_nonneg t -> i_phase p = phase_of t (i_board p)
}.

Lemma place_step b done p s :
  length b = 64%nat -> (forall x, okpc (at_ b x) = true) -> kings_unique b ->
  s < 64 -> mem s done = false -> placed b done p -> placed b (s :: done) (place t b p s).
Proof.
  intros Hl Hok Hk Hs Hnd [C K B P]. unfold place.
  pose proof (c_len _ _ C) as Hlp.
  assert (Hmem : forall x, mem x (s :: done) = (x =? s) || mem x done) by reflexivity.
  destruct (N.eqb_spec (at_ b s) 0) as [E0|E0].
  - constructor; auto. intro x. rewrite B, Hmem. destruct (N.eqb_spec x s) as [->|]; [|reflexivity].
    rewrite Hnd. cbn [orb]. symmetry. exact E0.
  - rewrite put_piece_raw by auto.
    assert (Hemp : at_ (i_board p) s = 0) by (rewrite B, Hnd; reflexivity).
    constructor.
    + apply put_raw_coh; auto.
      intros Hkg x. rewrite B. destruct (mem x done) eqn:Ex; [|auto].
      intro E. pose proof (Hok s) as Ho. apply okpc_cases in Ho as [?|Ho]; [contradiction|].
      assert (x = s).
      { apply (Hk (at_ b s / 8)); [lia| |]; unfold KING in *; lia. }
      subst x. congruence.
    + rewrite put_raw_kres; auto.
    + intro x. rewrite (proj2 (proj2 (proj2 (proj2 (proj2 (proj2 (proj2 (put_raw_frame t p (at_ b s) s)))))))).
      rewrite at_put by assumption. rewrite Hmem. destruct (N.eqb_spec x s) as [->|]; [reflexivity|]. apply B.
    + intro Hnn. specialize (P Hnn). unfold phase_of in *. cbn [i_phase put_raw].
      rewrite (proj2 (proj2 (proj2 (proj2 (proj2 (proj2 (proj2 (put_raw_frame t p (at_ b s) s)))))))).
      rewrite psum_put by auto. rewrite P. specialize (Hnn (at_ b s mod 8)).
      unfold GamePhaseMax in *.
      destruct (clamp t); cbn [andb]; [|reflexivity].
      destruct (Z.ltb_spec 24 (Z.min 24 (psum t (i_board p)) + phval t (at_ b s mod 8))); lia.
Qed.

Lemma place_fold b : length b = 64%nat -> (forall x, okpc (at_ b x) = true) -> kings_unique b ->
  forall l done p, NoDup l -> (forall s, In s l -> s < 64 /\ mem s done = false) ->
  placed b done p -> placed b (rev l ++ done) (fold_left (place t b) l p).
Proof.
  intros Hl Hok Hk. induction l as [|s l IH]; intros done p Hnd Hin Hp; [exact Hp|].
  cbn [fold_left rev]. rewrite <- app_assoc. cbn [app]. inversion Hnd; subst.
  apply IH; auto.
  - intros x Hx. destruct (Hin x (or_intror Hx)) as [Hx1 Hx2]. split; [exact Hx1|].
    cbn [mem existsb]. fold (mem x done). rewrite Hx2, orb_false_r. apply N.eqb_neq. intro; subst. contradiction.
  - apply place_step; auto; apply (Hin s (or_introl eq_refl)).
Qed.

Lemma fen_order_ok : NoDup fen_order /\ (forall s, In s fen_order -> s < 64) /\ (forall s, s < 64 -> mem s (rev fen_order) = true).
Proof.
  split; [|split].
  - assert (H : (fix nd (l : list N) := match l with [] => true | x :: r => negb (existsb (N.eqb x) r) && nd r end) fen_order = true)
      by (vm_compute; reflexivity).
    revert H. generalize fen_order. induction l as [|x r IH]; intro H; constructor.
    + apply andb_true_iff in H as [H _]. apply negb_true_iff in H. intro Hin.
      assert (existsb (N.eqb x) r = true) by (apply existsb_exists; exists x; split; [auto|apply N.eqb_refl]). congruence.
    + apply IH. apply andb_true_iff in H as [_ H]. exact H.
  - assert (H : forallb (fun s => s <? 64) fen_order = true) by (vm_compute; reflexivity).
    rewrite forallb_forall in H. intros s Hs. apply N.ltb_lt. auto.
  - assert (H : forallb (fun s => mem s (rev fen_order)) squares64 = true) by (vm_compute; reflexivity).
    intros s Hs. apply (forall_squares _ H s Hs).
Qed.

Lemma placed_all b : length b = 64%nat -> (forall x, okpc (at_ b x) = true) -> kings_unique b ->
  let p := fold_left (place t b) fen_order empty_pos in
  Coh t p /\ kres t p = 0 /\ i_board p = b /\ (phval_nonneg t -> i_phase p = phase_of t b).
Proof.
  intros Hl Hok Hk p. destruct fen_order_ok as (Hnd & Hlt & Hall).
  assert (P0 : placed b [] empty_pos).
  { constructor; [apply empty_coh|apply empty_kres| |].
    - intro s. cbn [mem existsb empty_pos i_board]. apply at_repeat.
    - intros _. unfold phase_of. rewrite empty_psum. cbn [empty_pos i_phase]. unfold GamePhaseMax. destruct (clamp t); reflexivity. }
  pose proof (place_fold b Hl Hok Hk fen_order [] empty_pos Hnd ltac:(intros s Hs; split; [auto|reflexivity]) P0) as [C K B P].
  rewrite app_nil_r in B. fold p in C, K, B, P.
  assert (Eb : i_board p = b).
  { apply board_ext; [rewrite (c_len _ _ C); auto|]. intros s Hs. rewrite (c_len _ _ C) in Hs.
    rewrite B, Hall by lia. reflexivity. }
  split; [exact C|]. split; [exact K|]. split; [exact Eb|]. intro Hnn. rewrite <- Eb. apply P. exact Hnn.
Qed.

Theorem setup_inv q : spec_ok q ->
  Inv t (setup_of_spec t q) /\ abs (setup_of_spec t q) = q /\
  i_hist (setup_of_spec t q) = [] /\ i_flag (setup_of_spec t q) = 0%Z /\
  (phval_nonneg t -> i_phase (setup_of_spec t q) = phase_of t (brd q)).
Proof.
  intros [Hl Hok Hk Hs Hc Hf He].
  destruct (placed_all (brd q) Hl Hok Hk) as (C & K & Eb & P). cbv zeta in *.
  assert (Hmn : (if fmn q =? 0 then 1 else fmn q) = fmn q) by (destruct (N.eqb_spec (fmn q) 0); lia).
  unfold setup_of_spec. rewrite Hmn.
  generalize dependent (fold_left (place t (brd q)) fen_order empty_pos). intros p C K Eb P.
  cbv zeta.
  split; [split|split; [|split; [|split]]].
  - constructor; cbn [i_stm i_cr i_hmc i_nhm i_ep i_board].
    + apply (coh_fields t p); [reflexivity..|exact C].
    + exact Hs.
    + exact Hc.
    + lia.
    + split; lia.
    + unfold EpOK. cbn [i_ep i_stm i_board]. rewrite Eb. exact He.
  - unfold KeyOK, kres. cbn [i_key i_board i_stm i_cr i_ep].
    unfold kres in K. unfold skey, epk.
    assert (Ek : i_key p = piece_key t (i_board p)).
    { apply N.lxor_eq. exact K. }
    rewrite Ek.
    destruct (N.eqb_spec (stm q) 0); cbn [negb]; destruct (ep q =? 64); xor_solve.
  - unfold abs. cbn [i_board i_stm i_cr i_ep i_hmc i_nhm]. rewrite Eb.
    destruct q as [b s c e h f]. cbn [brd stm cr ep hmc fmn] in *. f_equal; [lia|].
    rewrite Z.quot_div_nonneg by lia. lia.
  - reflexivity.
  - reflexivity.
  - intro Hnn. cbn [i_phase]. apply P. exact Hnn.
Qed.

Lemma spec_ok_abs p : WF t p -> spec_ok (abs p).
Proof.
  intro W. pose proof (w_coh _ _ W) as C. destruct (w_nhm _ _ W) as [Hn1 Hn2].
  constructor; cbn [abs brd stm cr ep hmc fmn].
  - apply (c_len _ _ C).
  - apply (c_ok _ _ C).
  - intros c s s' Hc H1 H2. rewrite <- (c_ksq _ _ C c s Hc H1). apply (c_ksq _ _ C c s' Hc H2).
  - apply (w_stm _ _ W).
  - apply (w_cr _ _ W).
  - rewrite Z.quot_div_nonneg by lia. lia.
  - apply (w_ep _ _ W).
Qed.

(* C04: everything a position maintains incrementally equals what a fresh position built from
   its FEN reports -- all fields except history / check-flag cache (fresh: empty / TBD), and the
   game phase, for which the fresh value is the clamped sum [phase_of] *)
Theorem fresh_equal p : Inv t p ->
  let f := setup_of_spec t (abs p) in
  i_key f = i_key p /\ i_board f = i_board p /\ i_cr f = i_cr p /\ i_ep f = i_ep p /\ i_hmc f = i_hmc p /\
  i_stm f = i_stm p /\ i_nhm f = i_nhm p /\ i_pbb f = i_pbb p /\ i_occ f = i_occ p /\
  i_mat f = i_mat p /\ i_matnp f = i_matnp p /\ i_psqm f = i_psqm p /\ i_psqe f = i_psqe p /\
  (forall c s, c < 2 -> at_ (i_board p) s = 8 * c + KING -> sel c (i_ksq f) = sel c (i_ksq p)) /\
  (phval_nonneg t -> i_phase f = phase_of t (i_board p)).
Proof.
  intros [W K] f.
  destruct (setup_inv (abs p) (spec_ok_abs p W)) as ([Wf Kf] & Ea & _ & _ & Pf). fold f in Wf, Kf, Ea, Pf. clearbody f.
  cbn [abs] in Ea.
  unfold abs in Ea. injection Ea as Eb Es Ec Ee Eh0 En0.
  assert (Eh : i_hmc f = i_hmc p).
  { pose proof (w_hmc _ _ W). pose proof (w_hmc _ _ Wf). lia. }
  assert (En : i_nhm f = i_nhm p).
  { rename En0 into Ea. destruct (w_nhm _ _ W) as [A1 A2]. destruct (w_nhm _ _ Wf) as [B1 B2].
    rewrite Es in B2. rewrite !Z.quot_div_nonneg in Ea by lia. lia. }
  destruct (coh_same_board t f p (w_coh _ _ Wf) (w_coh _ _ W) Eb) as (Q1 & Q2 & Q3 & Q4 & Q5 & Q6).
  repeat split; try assumption.
  - apply KeyOK_key_of in K, Kf. rewrite K, Kf. unfold key_of, abs. cbn [brd stm cr ep]. rewrite Eb, Es, Ec, Ee. reflexivity.
  - intros c s Hc Hat. rewrite (c_ksq _ _ (w_coh _ _ W) c s Hc Hat). apply (c_ksq _ _ (w_coh _ _ Wf) c s Hc). rewrite Eb. exact Hat.
Qed.

(* C04: the key is a function of placement, side, rights and en-passant square only *)
Theorem key_function p q : Inv t p -> Inv t q ->
  brd (abs p) = brd (abs q) -> stm (abs p) = stm (abs q) -> cr (abs p) = cr (abs q) -> ep (abs p) = ep (abs q) ->
  i_key p = i_key q.
Proof.
  intros [_ Kp] [_ Kq] E1 E2 E3 E4. apply KeyOK_key_of in Kp, Kq. rewrite Kp, Kq.
  unfold key_of. rewrite E1, E2, E3, E4. reflexivity.
Qed.
End Setup.
