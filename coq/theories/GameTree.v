(** * GameTree: the depth-d game tree of a FrankyGo search and its minimax value (property C06)

    The tree is an explicit record of what the engine's search visits when all
    unsound prunings are off: which node is a leaf (static evaluation), which
    child is a draw by repetition / 50-move rule (scored 0 by the parent node),
    which node is a quiescence node with a stand-pat evaluation, and which
    moves are searched at every node.  The Go harness dumps real engine trees
    in exactly this concrete syntax. *)

From Coq Require Import ZArith List Bool Lia Permutation.
Import ListNotations.
Open Scope Z_scope.

Inductive tree :=
| Draw                                   (* repetition / 50-move: scored 0 by the parent without a recursive call *)
| Leaf (v : Z)                           (* static evaluation: depth 0 with quiescence off, or ply >= MaxDepth *)
| Node (check : bool) (stand : option Z) (kids : list tree).
   (* interior node: [check] = side to move is in check; [stand] = Some eval for a
      quiescence node not in check (stand-pat), None for a normal search node or a
      quiescence node in check; kids = the moves searched there. *)

(** types/value.go: ValueCheckMate = ValueMax = 10000, ValueNA = -ValueInf-1 = -15001,
    types.go: MaxDepth = 128 *)
Definition MATE : Z := 10000.
Definition NA : Z := -15001.
Definition MAXPLY : Z := 128.

(** ** Structural induction with the list of kids *)

Lemma tree_ind' (P : tree -> Prop) :
  P Draw ->
  (forall v, P (Leaf v)) ->
  (forall chk st kids, (forall k, In k kids -> P k) -> P (Node chk st kids)) ->
  forall t, P t.
Proof.
  intros HD HL HN.
  fix IH 1. intros [ | v | chk st kids].
  - exact HD.
  - apply HL.
  - apply HN. induction kids as [ | k kids IHk]; intros k' Hin.
    + destruct Hin.
    + destruct Hin as [<- | Hin]; [apply IH | apply IHk, Hin].
Qed.

(** ** Maximum of an optional start value and [f k] over a list *)

Section Lmax.
  Variable A : Type.
  Variable f : A -> Z.

  Definition omax (acc : option Z) (v : Z) : option Z :=
    Some (match acc with Some x => Z.max x v | None => v end).

  Fixpoint lmax (acc : option Z) (l : list A) : option Z :=
    match l with
    | [] => acc
    | k :: l' => lmax (omax acc (f k)) l'
    end.

  Lemma lmax_some l : forall x, lmax (Some x) l <> None.
  Proof.
    induction l as [ | k l IHl]; intros x; cbn [lmax]; [discriminate | apply IHl].
  Qed.

  Lemma lmax_none acc l : lmax acc l = None -> acc = None /\ l = [].
  Proof.
    destruct l as [ | k l]; cbn [lmax]; intros H; [now split | ].
    exfalso. unfold omax in H. now apply lmax_some in H.
  Qed.

  (** upper bound *)
  Lemma lmax_le acc l m r :
    lmax acc l = Some m ->
    (forall e, acc = Some e -> e <= r) ->
    (forall k, In k l -> f k <= r) ->
    m <= r.
  Proof.
    revert acc. induction l as [ | k l IHl]; intros acc Hm Hacc Hl; cbn [lmax] in Hm.
    - apply Hacc, Hm.
    - apply (IHl _ Hm).
      + intros e He. unfold omax in He. injection He as <-.
        assert (Hk : f k <= r) by (apply Hl; now left).
        destruct acc as [x | ]; [specialize (Hacc x eq_refl); lia | lia].
      + intros k' Hin. apply Hl. now right.
  Qed.

  (** lower bound *)
  Lemma lmax_ge acc l m r :
    lmax acc l = Some m ->
    (exists e, acc = Some e /\ r <= e) \/ (exists k, In k l /\ r <= f k) ->
    r <= m.
  Proof.
    revert acc. induction l as [ | k l IHl]; intros acc Hm Hex; cbn [lmax] in Hm.
    - destruct Hex as [(e & He & Hle) | (k & [] & _)]. congruence.
    - apply (IHl _ Hm).
      destruct Hex as [(e & He & Hle) | (k' & [<- | Hin] & Hle)].
      + left. subst acc. eexists. split; [reflexivity | lia].
      + left. eexists. split; [reflexivity | ]. destruct acc; lia.
      + right. now exists k'.
  Qed.

  Lemma lmax_perm l l' : Permutation l l' -> forall acc, lmax acc l = lmax acc l'.
  Proof.
    induction 1 as [ | x l l' _ IH | x y l | l l' l'' _ IH1 _ IH2]; intros acc; cbn [lmax].
    - reflexivity.
    - apply IH.
    - f_equal. unfold omax. f_equal. destruct acc; lia.
    - now rewrite IH1.
  Qed.
End Lmax.
Arguments omax : clear implicits.
Arguments lmax {A} f acc l.

(** ** Textbook negamax under the engine's terminal scores

    Draw -> 0; Leaf v -> v; a node without kids is worth its stand-pat value if it
    has one, otherwise -MATE+ply when in check (mated in [ply] plies) and 0 otherwise
    (stalemate); a node with kids is worth the maximum of the stand-pat value (if
    any) and [- minimax (ply+1) k] over its kids. *)

Definition terminal (chk : bool) (ply : Z) : Z := if chk then - MATE + ply else 0.

Fixpoint minimax (ply : Z) (t : tree) : Z :=
  match t with
  | Draw => 0
  | Leaf v => v
  | Node chk st kids =>
      match lmax (fun k => - minimax (ply + 1) k) st kids with
      | Some v => v
      | None => terminal chk ply
      end
  end.

(** value of kid [k] of a node at [ply], as seen by that node
    ([0] for a Draw kid, since [- minimax _ Draw = 0]) *)
Definition sc (ply : Z) (k : tree) : Z := - minimax (ply + 1) k.

Lemma sc_Draw ply : sc ply Draw = 0.
Proof. reflexivity. Qed.

Lemma minimax_Node ply chk st kids :
  minimax ply (Node chk st kids) =
  match lmax (sc ply) st kids with Some v => v | None => terminal chk ply end.
Proof. reflexivity. Qed.

Lemma minimax_nokids ply chk st :
  minimax ply (Node chk st []) =
  match st with Some e => e | None => if chk then - MATE + ply else 0 end.
Proof. reflexivity. Qed.

(** minimax does not depend on the order of the kids *)
Lemma minimax_perm ply chk st kids kids' :
  Permutation kids kids' ->
  minimax ply (Node chk st kids) = minimax ply (Node chk st kids').
Proof.
  intros HP. rewrite !minimax_Node. now rewrite (lmax_perm _ _ _ _ HP).
Qed.

(** ** Height and the boundedness predicate *)

Fixpoint height (t : tree) : Z :=
  match t with
  | Draw | Leaf _ => 0
  | Node _ _ kids => 1 + fold_right (fun k acc => Z.max (height k) acc) 0 kids
  end.

Lemma height_nonneg t : 0 <= height t.
Proof.
  destruct t as [ | v | chk st kids]; cbn [height]; try lia.
  induction kids as [ | k kids IH]; cbn [fold_right]; lia.
Qed.

Lemma height_kid chk st kids k :
  In k kids -> height k + 1 <= height (Node chk st kids).
Proof.
  cbn [height]. induction kids as [ | k' kids IH]; intros Hin; [destruct Hin | ].
  cbn [fold_right]. destruct Hin as [<- | Hin]; [lia | specialize (IH Hin); lia].
Qed.

(** non-mate evaluation range: -MATE+130 < v < MATE-130 *)
Definition eval_okb (v : Z) : bool := (- MATE + 130 <? v) && (v <? MATE - 130).

(** every Leaf / stand-pat value is a non-mate evaluation, and a node that carries a
    stand-pat value is not in check (qsearch: [if !hasCheck { staticEval = ... }]) *)
Fixpoint evals_okb (t : tree) : bool :=
  match t with
  | Draw => true
  | Leaf v => eval_okb v
  | Node chk st kids =>
      match st with Some e => eval_okb e && negb chk | None => true end
      && forallb evals_okb kids
  end.

Definition boundedb (t : tree) : bool := evals_okb t && (height t <=? MAXPLY).
Definition bounded (t : tree) : Prop := boundedb t = true.

Lemma bounded_evals t : bounded t -> evals_okb t = true.
Proof. unfold bounded, boundedb. now intros [H _]%andb_true_iff. Qed.

Lemma bounded_height t : bounded t -> height t <= MAXPLY.
Proof. unfold bounded, boundedb. intros [_ H]%andb_true_iff. lia. Qed.

Lemma eval_okb_range v : eval_okb v = true -> - MATE + 130 < v < MATE - 130.
Proof. unfold eval_okb. intros [H1 H2]%andb_true_iff. lia. Qed.

Lemma evals_ok_kid chk st kids k :
  evals_okb (Node chk st kids) = true -> In k kids -> evals_okb k = true.
Proof.
  cbn [evals_okb]. intros [_ H]%andb_true_iff Hin.
  rewrite forallb_forall in H. now apply H.
Qed.

Lemma evals_ok_stand chk e kids :
  evals_okb (Node chk (Some e) kids) = true -> - MATE + 130 < e < MATE - 130 /\ chk = false.
Proof.
  cbn [evals_okb]. intros [[H1 H2]%andb_true_iff _]%andb_true_iff.
  split; [now apply eval_okb_range | now destruct chk].
Qed.

(** ** The minimax value of a bounded tree at [ply] lies in [-MATE+ply, MATE-ply-1] *)

Lemma minimax_range t : forall ply,
  evals_okb t = true -> 0 <= ply -> ply + height t <= MAXPLY ->
  - MATE + ply <= minimax ply t <= MATE - ply - 1.
Proof.
  induction t as [ | v | chk st kids IH] using tree_ind'; intros ply Hok Hply Hh.
  - cbn [minimax height] in *. unfold MATE, MAXPLY in *. lia.
  - cbn [minimax height evals_okb] in *. apply eval_okb_range in Hok.
    unfold MATE, MAXPLY in *. lia.
  - rewrite minimax_Node.
    assert (Hkids : forall k, In k kids ->
              - MATE + ply <= sc ply k <= MATE - ply - 1).
    { intros k Hin. unfold sc.
      pose proof (height_kid chk st kids k Hin) as Hk.
      pose proof (height_nonneg k) as Hk0.
      specialize (IH k Hin (ply + 1) (evals_ok_kid _ _ _ _ Hok Hin)).
      unfold MATE, MAXPLY in *. lia. }
    assert (Hst : forall e, st = Some e -> - MATE + ply <= e <= MATE - ply - 1).
    { intros e ->. apply evals_ok_stand in Hok as [Hok _].
      pose proof (height_nonneg (Node chk (Some e) kids)).
      unfold MATE, MAXPLY in *. lia. }
    destruct (lmax (sc ply) st kids) as [m | ] eqn:Hm.
    + split.
      * apply (lmax_ge _ _ _ _ _ _ Hm).
        destruct st as [e | ].
        -- left. exists e. split; [reflexivity | apply (Hst e eq_refl)].
        -- right. destruct kids as [ | k kids]; [discriminate Hm | ].
           exists k. split; [now left | apply Hkids; now left].
      * apply (lmax_le _ _ _ _ _ _ Hm).
        -- intros e He. now apply Hst.
        -- intros k Hin. now apply Hkids.
    + pose proof (height_nonneg (Node chk st kids)).
      unfold terminal. destruct chk; unfold MATE, MAXPLY in *; lia.
Qed.

(** ** Kids paired with their index in the move list *)

Definition index_from (s : nat) (l : list tree) : list (nat * tree) :=
  combine (seq s (length l)) l.
Definition index (l : list tree) : list (nat * tree) := index_from 0 l.

Lemma map_snd_index_from l : forall s, map snd (index_from s l) = l.
Proof.
  unfold index_from. induction l as [ | k l IH]; intros s; cbn; [reflexivity | ].
  f_equal. apply IH.
Qed.

Lemma In_index_from l : forall s i k,
  In (i, k) (index_from s l) -> exists j, i = (s + j)%nat /\ nth_error l j = Some k.
Proof.
  unfold index_from. induction l as [ | k' l IH]; intros s i k Hin; cbn in Hin.
  - destruct Hin.
  - destruct Hin as [Heq | Hin].
    + injection Heq as <- <-. exists 0%nat. split; [lia | reflexivity].
    + destruct (IH _ _ _ Hin) as (j & -> & Hj). exists (S j). split; [lia | exact Hj].
Qed.

Lemma In_index l i k : In (i, k) (index l) -> nth_error l i = Some k.
Proof. intros H. apply In_index_from in H as (j & -> & Hj). exact Hj. Qed.

Lemma In_index_snd l ik : In ik (index l) -> In (snd ik) l.
Proof.
  intros H. rewrite <- (map_snd_index_from l 0%nat). now apply in_map.
Qed.

Lemma In_kid_index l k : In k l -> exists ik, In ik (index l) /\ snd ik = k.
Proof.
  intros H. rewrite <- (map_snd_index_from l 0%nat) in H.
  apply in_map_iff in H as (ik & Hs & Hin). now exists ik.
Qed.
