(** * MovegenProofsPieces: the officer, king and castling generators produce exactly the
      corresponding classes of [Rules.pseudo] (C01).

    PROVED (for every [legal_pos p], non-evasion generation; [class_codes prom_nq p k] is
    [map code] of the k-th class of [Rules.pseudo p], see MovegenSpec.cls):
    - [gen_moves_exact]       generateMoves GenNonQuiet = class 8 (officer captures),
                              generateMoves GenQuiet    = class 14 (officer non captures);
    - [gen_king_moves_exact]  generateKingMoves GenNonQuiet = class 7, GenQuiet = class 13;
    - [gen_castling_exact]    generateCastling = class 12;
    each: the Go function returns normally with a list that is a permutation of the class and
    has no duplicates. *)
From Coq Require Import NArith ZArith List Bool Lia ZifyN ZifyBool Permutation.
From FG Require Import Word64 Geom Tables TablesCorrect ShiftCorrect Rules BitView
                       AttacksImpl AttacksLemmas MoveEnc SqListFacts MovegenImpl MovegenLemmas MovegenSpec.
From FG.gen Require Import Tables_gen.
Import ListNotations.
Open Scope N_scope.

(** ** move codes of normal moves *)
Lemma mk_code_fields from to : from < 64 -> to < 64 ->
  From (mk_code from to NORMAL PT_NONE) = from /\ To (mk_code from to NORMAL PT_NONE) = to.
Proof.
  intros Hf Ht. rewrite mk_code_normal by assumption.
  destruct (code_fields (mkmv from to NORMAL 3)) as (A & B & _); [unfold valid_mv, NORMAL; cbn; lia|].
  now rewrite A, B.
Qed.

(* the list  for to in W { push (from, to) }  *)
Definition to_list (from W : N) : list N :=
  map (fun to => mk_code from to NORMAL PT_NONE) (sq_list_of_bb W).

Lemma to_list_nodup from W : from < 64 -> W < W64 -> NoDup (to_list from W).
Proof.
  intros Hf HW. unfold to_list. apply nodup_map_inj; [|apply sq_list_of_bb_NoDup_any].
  intros x y Hx Hy E. apply (sq_list_in W x HW) in Hx. apply (sq_list_in W y HW) in Hy.
  apply (testbit_lt64 W x HW) in Hx. apply (testbit_lt64 W y HW) in Hy.
  destruct (mk_code_fields from x Hf Hx) as [_ A]. destruct (mk_code_fields from y Hf Hy) as [_ B]. congruence.
Qed.

Lemma to_list_in from W x : W < W64 ->
  (In x (to_list from W) <-> exists to, N.testbit W to = true /\ x = mk_code from to NORMAL PT_NONE).
Proof.
  intros HW. unfold to_list. rewrite in_map_iff. split; intros [to [H1 H2]]; exists to.
  - split; [now apply (sq_list_in W to HW)|now symmetry].
  - split; [now symmetry|now apply (sq_list_in W to HW)].
Qed.

Lemma filter_single {A} (f : A -> bool) l : length (filter f l) = 1%nat ->
  exists k, In k l /\ f k = true /\ forall s, In s l -> f s = true -> s = k.
Proof.
  intros H. destruct (filter f l) as [|k [|k2 r]] eqn:E; try discriminate.
  assert (Hin : forall s, In s [k] <-> In s l /\ f s = true) by (intros s; rewrite <- E; apply filter_In).
  exists k. destruct (proj1 (Hin k) (or_introl eq_refl)) as [H1 H2]. repeat split; try assumption.
  intros s Hs Hf. assert (Hk : In s [k]) by (apply Hin; now split). destruct Hk as [Hk|[]]. now symmetry.
Qed.

Lemma count_single b pc : count_piece b pc = 1%nat ->
  exists k, k < 64 /\ at_ b k = pc /\ (forall s, s < 64 -> at_ b s = pc -> s = k).
Proof.
  unfold count_piece. intros Hk.
  destruct (filter_single _ _ Hk) as (k & H1 & H2 & H3).
  exists k. split; [now apply in_squares64|]. split; [now apply N.eqb_eq|].
  intros s Hs Hat. apply H3; [now apply in_squares64|now apply N.eqb_eq].
Qed.

Section Pieces.
Variable prom_nq : bool.
Variable p : pos.
Hypothesis Hlegal : legal_pos p = true.

Let b := brd p.
Let c := stm p.
Let v := view_of_spec p.

Lemma Hw : wfp p. Proof. now apply legal_wfp. Qed.
Lemma Hc : c < 2. Proof. exact (wf_stm p Hw). Qed.
Lemma Hlen : length b = 64%nat. Proof. exact (wf_len p Hw). Qed.
Lemma Hocc : occ_all v = occ_of b. Proof. apply occ_all_view. apply wfp_codes_ok. exact Hw. Qed.
Lemma Hflip : flipc c = flip c. Proof. apply flipc_lt. exact Hc. Qed.
Lemma Hoth : occ_bb v (flipc c) = Some (occ_word b (flip c)).
Proof. rewrite Hflip. apply occ_bb_view. apply flipc_lt. exact Hc. Qed.

(* bits of the two target masks *)
Lemma enemy_bit t : t < 64 -> N.testbit (occ_word b (flip c)) t = enemy b c t.
Proof.
  intros Ht. rewrite occ_word_testbit. replace (t <? 64) with true by lia. cbn [andb].
  unfold b, c. now rewrite (enemy_iff p t Hw).
Qed.
Lemma empty_bit t : t < 64 -> negb (N.testbit (occ_of b) t) = (at_ b t =? 0).
Proof.
  intros Ht. rewrite occ_of_testbit. replace (t <? 64) with true by lia. cbn [andb]. now rewrite negb_involutive.
Qed.

(** ** officers *)
(* GetAttacksBb(pt, from, occupied) *)
Definition att_word (pt from : N) : N :=
  if pt =? KNIGHT then bb_of (knight_targets from)
  else if pt =? BISHOP then slide bishop_dirs from (occ_of b)
  else if pt =? ROOK then slide rook_dirs from (occ_of b)
  else slide (bishop_dirs ++ rook_dirs) from (occ_of b).

Definition officer (pt : N) : Prop := pt = KNIGHT \/ pt = BISHOP \/ pt = ROOK \/ pt = QUEEN.

Lemma gab_officer pt from : officer pt -> from < 64 -> get_attacks_bb pt from (occ_all v) = Some (att_word pt from).
Proof.
  intros Hpt Hf. rewrite Hocc. unfold att_word.
  destruct Hpt as [->|[->|[->| ->]]]; cbn [N.eqb Pos.eqb KNIGHT BISHOP ROOK QUEEN];
    [apply gab_knight|apply gab_bishop|apply gab_rook|apply gab_queen]; exact Hf.
Qed.

Lemma att_word_lt pt from : att_word pt from < W64.
Proof.
  unfold att_word. destruct (pt =? KNIGHT); [apply bb_of_lt; apply knight_targets_lt|].
  destruct (pt =? BISHOP); [apply slide_lt|]. destruct (pt =? ROOK); apply slide_lt.
Qed.

Lemma att_word_bit pt from to : officer pt ->
  (N.testbit (att_word pt from) to = true <-> In to (spec_targets b pt from)).
Proof.
  intros Hpt. unfold att_word, spec_targets.
  destruct Hpt as [->|[->|[->| ->]]]; cbn [N.eqb Pos.eqb KNIGHT BISHOP ROOK QUEEN KING].
  - rewrite bb_of_testbit. apply existsb_eqb_In.
  - rewrite slide_rays. apply existsb_eqb_In.
  - rewrite slide_rays. apply existsb_eqb_In.
  - rewrite slide_rays, existsb_eqb_In. apply queen_rays_in.
Qed.

(* the target mask of one officer: captures / non captures *)
Definition off_word (cap : bool) (pt from : N) : N :=
  if cap then N.land (att_word pt from) (occ_word b (flip c)) else N.ldiff (att_word pt from) (occ_of b).

Lemma off_word_lt cap pt from : off_word cap pt from < W64.
Proof. unfold off_word. destruct cap; [apply land_lt|apply ldiff_lt]; apply att_word_lt. Qed.

Definition off_pt_list (cap : bool) (pt : N) : list N :=
  flat_map (fun from => to_list from (off_word cap pt from)) (sq_list_of_bb (piece_word b c pt)).
Definition off_list (cap : bool) : list N := flat_map (off_pt_list cap) [KNIGHT; BISHOP; ROOK; QUEEN].

Definition mode_of (cap : bool) : N := if cap then 1 else 2.

Lemma pbb_c pt : pt < 7 -> pbb v c pt = Some (piece_word b c pt).
Proof. intros H. apply pbb_view; [exact Hc|exact H]. Qed.

Lemma piece_bit pt s : pt <> 0 -> (N.testbit (piece_word b c pt) s = true <-> s < 64 /\ at_ b s = mk_piece c pt).
Proof.
  intros H. rewrite piece_word_testbit by exact H. rewrite andb_true_iff, N.ltb_lt, N.eqb_eq. reflexivity.
Qed.

Lemma officer_lt pt : officer pt -> pt < 7 /\ pt <> 0 /\ 3 <= pt <= 6.
Proof. intros [->|[->|[->| ->]]]; vm_compute; repeat split; congruence. Qed.

Lemma gen_moves_from_eq cap pt from : officer pt -> from < 64 ->
  gen_moves_from v (mode_of cap) false 0 pt from = Some (to_list from (off_word cap pt from)).
Proof.
  intros Hpt Hf. unfold gen_moves_from. rewrite (gab_officer pt from Hpt Hf). cbn [bind].
  change (vstm v) with c. rewrite Hoth. unfold mode_of, off_word, to_list. destruct cap.
  - replace (has_nq 1) with true by reflexivity. replace (has_q 1) with false by reflexivity.
    cbn [bind]. now rewrite app_nil_r.
  - replace (has_nq 2) with false by reflexivity. replace (has_q 2) with true by reflexivity.
    cbn [bind app]. now rewrite Hocc.
Qed.

Lemma gen_moves_eq cap : gen_moves v (mode_of cap) false 0 = Some (off_list cap).
Proof.
  unfold gen_moves, off_list. apply flat_map_o_some. intros pt Hpt.
  assert (Ho : officer pt) by (unfold officer; cbn [In] in Hpt; intuition).
  destruct (officer_lt pt Ho) as (H7 & Hnz & _).
  unfold gen_moves_pt. change (vstm v) with c. rewrite (pbb_c pt H7). cbn [bind]. unfold off_pt_list.
  apply flat_map_o_some. intros from Hf.
  apply (sq_list_in _ from (piece_word_lt b c pt)) in Hf. apply (piece_bit pt from Hnz) in Hf as [Hf _].
  now apply gen_moves_from_eq.
Qed.

Lemma off_list_in cap x :
  In x (off_list cap) <->
  exists pt from to, officer pt /\ from < 64 /\ at_ b from = mk_piece c pt /\
    In to (spec_targets b pt from) /\ (if cap then enemy b c to = true else at_ b to = 0) /\
    x = mk_code from to NORMAL PT_NONE.
Proof.
  unfold off_list, off_pt_list. rewrite in_flat_map. split.
  - intros [pt [Hpt H]]. assert (Ho : officer pt) by (unfold officer; cbn [In] in Hpt; intuition).
    destruct (officer_lt pt Ho) as (H7 & Hnz & _).
    apply in_flat_map in H as [from [Hf H]].
    apply (sq_list_in _ from (piece_word_lt b c pt)) in Hf. apply (piece_bit pt from Hnz) in Hf as [Hf Hat].
    apply (to_list_in from _ x (off_word_lt cap pt from)) in H as [to [Hb ->]].
    exists pt, from, to. repeat split; try assumption.
    + unfold off_word in Hb. destruct cap.
      * rewrite N.land_spec in Hb. apply andb_true_iff in Hb as [Hb _]. now apply att_word_bit in Hb.
      * rewrite N.ldiff_spec in Hb. apply andb_true_iff in Hb as [Hb _]. now apply att_word_bit in Hb.
    + unfold off_word in Hb. destruct cap.
      * rewrite N.land_spec in Hb. apply andb_true_iff in Hb as [Hb1 Hb2].
        apply att_word_bit in Hb1; [|exact Ho]. apply spec_targets_lt in Hb1. now rewrite enemy_bit in Hb2.
      * rewrite N.ldiff_spec in Hb. apply andb_true_iff in Hb as [Hb1 Hb2].
        apply att_word_bit in Hb1; [|exact Ho]. apply spec_targets_lt in Hb1. rewrite empty_bit in Hb2 by exact Hb1.
        now apply N.eqb_eq in Hb2.
  - intros (pt & from & to & Ho & Hf & Hat & Ht & Hcap & ->).
    destruct (officer_lt pt Ho) as (H7 & Hnz & _).
    exists pt. split; [destruct Ho as [->|[->|[->| ->]]]; cbn [In]; auto|].
    apply in_flat_map. exists from. split.
    + apply (sq_list_in _ from (piece_word_lt b c pt)). now apply (piece_bit pt from Hnz).
    + apply (to_list_in from _ _ (off_word_lt cap pt from)). exists to. split; [|reflexivity].
      pose proof (spec_targets_lt _ _ _ _ Ht) as Hto. unfold off_word. destruct cap.
      * rewrite N.land_spec, enemy_bit by exact Hto. rewrite Hcap, andb_true_r. now apply att_word_bit.
      * rewrite N.ldiff_spec, empty_bit by exact Hto. rewrite Hcap, N.eqb_refl, andb_true_r. now apply att_word_bit.
Qed.

Lemma off_list_nodup cap : NoDup (off_list cap).
Proof.
  unfold off_list.
  apply (nodup_flat_map_key (fun x => type_of (at_ b (From x)))).
  - repeat constructor; cbn [In]; unfold KNIGHT, BISHOP, ROOK, QUEEN; intuition discriminate.
  - intros pt Hpt. assert (Ho : officer pt) by (unfold officer; cbn [In] in Hpt; intuition).
    destruct (officer_lt pt Ho) as (H7 & Hnz & _). unfold off_pt_list.
    apply (nodup_flat_map_key From).
    + apply sq_list_of_bb_NoDup_any.
    + intros from Hf. apply (sq_list_in _ from (piece_word_lt b c pt)) in Hf.
      apply (piece_bit pt from Hnz) in Hf as [Hf _]. apply to_list_nodup; [exact Hf|apply off_word_lt].
    + intros from y Hf Hy. apply (sq_list_in _ from (piece_word_lt b c pt)) in Hf.
      apply (piece_bit pt from Hnz) in Hf as [Hf _].
      apply (to_list_in from _ y (off_word_lt cap pt from)) in Hy as [to [Hb ->]].
      apply (testbit_lt64 _ _ (off_word_lt cap pt from)) in Hb. now apply mk_code_fields.
  - intros pt y Hpt Hy. assert (Ho : officer pt) by (unfold officer; cbn [In] in Hpt; intuition).
    destruct (officer_lt pt Ho) as (H7 & Hnz & Hr). unfold off_pt_list in Hy.
    apply in_flat_map in Hy as [from [Hf Hy]].
    apply (sq_list_in _ from (piece_word_lt b c pt)) in Hf. apply (piece_bit pt from Hnz) in Hf as [Hf Hat].
    apply (to_list_in from _ y (off_word_lt cap pt from)) in Hy as [to [Hb ->]].
    apply (testbit_lt64 _ _ (off_word_lt cap pt from)) in Hb.
    destruct (mk_code_fields from to Hf Hb) as [-> _]. rewrite Hat. apply mk_piece_type. lia.
Qed.

Lemma off_class cap x :
  In x (off_list cap) <-> In x (class_codes prom_nq p (if cap then 8 else 14)).
Proof.
  rewrite off_list_in, class_codes_in. split.
  - intros (pt & from & to & Ho & Hf & Hat & Ht & Hcap & ->).
    destruct (officer_lt pt Ho) as (H7 & Hnz & Hr).
    pose proof (spec_targets_lt _ _ _ _ Ht) as Hto.
    exists (mkmv from to NORMAL 3). split; [|split].
    + apply pseudo_of_shape. apply (ps_simple p from to pt); try assumption; [now left|].
      fold b c. rewrite free_or_enemy_iff. destruct cap; [now rewrite Hcap, orb_true_r|now rewrite Hcap].
    + rewrite (cls_simple prom_nq p from to pt) by (try assumption; now left).
      replace (pt =? KING) with false by (unfold KING; lia). fold b.
      destruct cap.
      * unfold enemy in Hcap. fold b in Hcap. destruct (at_ b to =? 0); [discriminate|reflexivity].
      * now rewrite Hcap.
    + symmetry. now apply mk_code_normal.
  - intros (m & Hm & Hcls & <-). apply (pseudo_shape p m Hw) in Hm.
    destruct Hm as [s t ty Hs Hty E Ht Hf|s m Hs E Hm|m Hm].
    + rewrite (cls_simple prom_nq p s t ty Hty E) in Hcls. fold b in Hcls, Ht, Hf, E. fold c in Hf, E.
      destruct (N.eqb_spec ty KING) as [Ek|Ek].
      { destruct (at_ b t =? 0), cap; discriminate. }
      assert (Ho : officer ty) by (unfold officer, KNIGHT, BISHOP, ROOK, QUEEN, KING in *; lia).
      pose proof (spec_targets_lt _ _ _ _ Ht) as Hto.
      exists ty, s, t. repeat split; try assumption.
      * rewrite free_or_enemy_iff in Hf. destruct (N.eqb_spec (at_ b t) 0) as [E0|E0], cap; try discriminate.
        -- exact E0.
        -- cbn [orb] in Hf. exact Hf.
      * symmetry. now apply mk_code_normal.
    + destruct (cls_pawn prom_nq p s m Hc Hs E Hm) as (_ & A & _ & _ & B).
      destruct cap; [change (N.of_nat 8) with 8 in Hcls|change (N.of_nat 14) with 14 in Hcls]; congruence.
    + rewrite (cls_castle prom_nq p m Hm) in Hcls. destruct cap; discriminate.
Qed.

Theorem gen_moves_exact_cap cap :
  exists l, gen_moves v (mode_of cap) false 0 = Some l /\
            Permutation l (class_codes prom_nq p (if cap then 8 else 14)) /\ NoDup l.
Proof.
  exists (off_list cap). split; [apply gen_moves_eq|]. split; [|apply off_list_nodup].
  apply NoDup_Permutation; [apply off_list_nodup|apply class_codes_nodup; exact Hw|apply off_class].
Qed.

(** ** king *)
Lemma king_count : count_piece b (mk_piece c KING) = 1%nat.
Proof.
  pose proof (legal_pos_inv p Hlegal) as (_ & _ & Hk1 & Hk2 & _).
  destruct (N.eq_dec c 0) as [E|E]; [rewrite E; exact Hk1|].
  assert (E1 : c = 1) by (pose proof Hc; lia). rewrite E1. exact Hk2.
Qed.

Lemma king_unique : exists k, k < 64 /\ at_ b k = mk_piece c KING /\
  (forall s, s < 64 -> at_ b s = mk_piece c KING -> s = k).
Proof. exact (count_single b (mk_piece c KING) king_count). Qed.

Lemma king_from k : k < 64 -> at_ b k = mk_piece c KING ->
  (forall s, s < 64 -> at_ b s = mk_piece c KING -> s = k) ->
  piece_word b c KING <> 0 /\ fst (pop_lsb (piece_word b c KING)) = k.
Proof.
  intros Hk Hat Hun.
  assert (Hbit : N.testbit (piece_word b c KING) k = true) by (apply piece_bit; [discriminate|now split]).
  assert (Hnz : piece_word b c KING <> 0) by (intros E; rewrite E, N.bits_0 in Hbit; discriminate).
  split; [exact Hnz|]. unfold pop_lsb. apply N.eqb_neq in Hnz. rewrite Hnz. cbn [fst]. apply N.eqb_neq in Hnz.
  apply lsb_single; [exact Hnz|]. intros t Ht. apply piece_bit in Ht as [Ht1 Ht2]; [|discriminate]. now apply Hun.
Qed.

Definition king_word (cap : bool) (from : N) : N :=
  if cap then N.land (bb_of (king_targets from)) (occ_word b (flip c))
  else N.ldiff (bb_of (king_targets from)) (occ_of b).

Lemma king_word_lt cap from : king_word cap from < W64.
Proof. unfold king_word. destruct cap; [apply land_lt|apply ldiff_lt]; apply bb_of_lt; apply king_targets_lt. Qed.

Lemma flat_map_o_single from l :
  flat_map_o (fun to => Some [mk_code from to NORMAL PT_NONE]) l = Some (map (fun to => mk_code from to NORMAL PT_NONE) l).
Proof.
  induction l as [|x l IH]; cbn [flat_map_o map bind]; [reflexivity|]. rewrite IH. reflexivity.
Qed.

Lemma gen_king_eq cap k : k < 64 -> at_ b k = mk_piece c KING ->
  (forall s, s < 64 -> at_ b s = mk_piece c KING -> s = k) ->
  gen_king_moves v (mode_of cap) false = Some (to_list k (king_word cap k)).
Proof.
  intros Hk Hat Hun. destruct (king_from k Hk Hat Hun) as [_ Hfrom].
  unfold gen_king_moves. change (vstm v) with c. rewrite (pbb_c KING) by reflexivity. cbn [bind].
  rewrite Hfrom. rewrite (gab_king k 0 Hk). cbn [bind]. rewrite Hoth.
  unfold mode_of, king_word, to_list. destruct cap.
  - replace (has_nq 1) with true by reflexivity. replace (has_q 1) with false by reflexivity.
    cbn [bind]. rewrite flat_map_o_single. cbn [bind]. now rewrite app_nil_r.
  - replace (has_nq 2) with false by reflexivity. replace (has_q 2) with true by reflexivity.
    cbn [bind]. rewrite flat_map_o_single. cbn [bind app]. now rewrite Hocc.
Qed.

Lemma king_class cap k x : k < 64 -> at_ b k = mk_piece c KING ->
  (forall s, s < 64 -> at_ b s = mk_piece c KING -> s = k) ->
  (In x (to_list k (king_word cap k)) <-> In x (class_codes prom_nq p (if cap then 7 else 13))).
Proof.
  intros Hk Hat Hun. rewrite (to_list_in k _ x (king_word_lt cap k)), class_codes_in. split.
  - intros [to [Hb ->]].
    assert (Hto : In to (king_targets k) /\ (if cap then enemy b c to = true else at_ b to = 0)).
    { unfold king_word in Hb. destruct cap.
      - rewrite N.land_spec in Hb. apply andb_true_iff in Hb as [Hb1 Hb2].
        rewrite bb_of_testbit in Hb1. apply existsb_eqb_In in Hb1. split; [exact Hb1|].
        apply king_targets_lt in Hb1. now rewrite enemy_bit in Hb2.
      - rewrite N.ldiff_spec in Hb. apply andb_true_iff in Hb as [Hb1 Hb2].
        rewrite bb_of_testbit in Hb1. apply existsb_eqb_In in Hb1. split; [exact Hb1|].
        apply king_targets_lt in Hb1. rewrite empty_bit in Hb2 by exact Hb1. now apply N.eqb_eq in Hb2. }
    destruct Hto as [Ht Hcap]. pose proof (king_targets_lt _ _ Ht) as Hto.
    exists (mkmv k to NORMAL 3). split; [|split].
    + apply pseudo_of_shape. apply (ps_simple p k to KING); [exact Hk|now right|exact Hat|exact Ht|].
      fold b c. rewrite free_or_enemy_iff. destruct cap; [now rewrite Hcap, orb_true_r|now rewrite Hcap].
    + rewrite (cls_simple prom_nq p k to KING) by (try assumption; now right).
      rewrite N.eqb_refl. fold b. destruct cap.
      * unfold enemy in Hcap. fold b in Hcap. destruct (at_ b to =? 0); [discriminate|reflexivity].
      * now rewrite Hcap.
    + symmetry. now apply mk_code_normal.
  - intros (m & Hm & Hcls & <-). apply (pseudo_shape p m Hw) in Hm.
    destruct Hm as [s t ty Hs Hty E Ht Hf|s m Hs E Hm|m Hm].
    + rewrite (cls_simple prom_nq p s t ty Hty E) in Hcls. fold b in Hcls, Ht, Hf, E. fold c in Hf, E.
      destruct (N.eqb_spec ty KING) as [Ek|Ek].
      2:{ destruct (at_ b t =? 0), cap; discriminate. }
      subst ty. assert (s = k) by now apply Hun. subst s.
      replace (spec_targets b KING k) with (king_targets k) in Ht by reflexivity.
      pose proof (king_targets_lt _ _ Ht) as Hto.
      exists t. split; [|symmetry; now apply mk_code_normal].
      unfold king_word. rewrite free_or_enemy_iff in Hf. destruct cap.
      * rewrite N.land_spec, bb_of_testbit, enemy_bit by exact Hto.
        apply andb_true_iff. split; [now apply existsb_eqb_In|].
        destruct (at_ b t =? 0); [discriminate|exact Hf].
      * rewrite N.ldiff_spec, bb_of_testbit, empty_bit by exact Hto.
        apply andb_true_iff. split; [now apply existsb_eqb_In|].
        destruct (at_ b t =? 0); [reflexivity|discriminate].
    + destruct (cls_pawn prom_nq p s m Hc Hs E Hm) as (A & _ & _ & B & _).
      destruct cap; [change (N.of_nat 7) with 7 in Hcls|change (N.of_nat 13) with 13 in Hcls]; congruence.
    + rewrite (cls_castle prom_nq p m Hm) in Hcls. destruct cap; discriminate.
Qed.

Theorem gen_king_moves_exact_cap cap :
  exists l, gen_king_moves v (mode_of cap) false = Some l /\
            Permutation l (class_codes prom_nq p (if cap then 7 else 13)) /\ NoDup l.
Proof.
  destruct king_unique as (k & Hk & Hat & Hun).
  exists (to_list k (king_word cap k)). split; [now apply gen_king_eq|].
  assert (Hnd : NoDup (to_list k (king_word cap k))) by (apply to_list_nodup; [exact Hk|apply king_word_lt]).
  split; [|exact Hnd].
  apply NoDup_Permutation; [exact Hnd|apply class_codes_nodup; exact Hw|].
  intros x. now apply king_class.
Qed.

(** ** castling *)
Lemma land_zero_empties l : (forall t, In t l -> t < 64) ->
  (N.land (bb_of l) (occ_of b) =? 0) = forallb (fun s => at_ b s =? 0) l.
Proof.
  intros Hl. pose proof (meets_bb_of_filter l (fun s => negb (at_ b s =? 0)) Hl) as H.
  unfold meets in H. apply (f_equal negb) in H. rewrite negb_involutive in H. unfold occ_of. rewrite H.
  clear. induction l as [|x l IH]; cbn [existsb forallb]; [reflexivity|].
  rewrite negb_orb, negb_involutive, IH. reflexivity.
Qed.

Lemma between_values :
  between 4 7 = bb_of [5; 6] /\ between 4 0 = bb_of [1; 2; 3] /\
  between 60 63 = bb_of [61; 62] /\ between 60 56 = bb_of [57; 58; 59].
Proof. vm_compute. repeat split. Qed.

Definition castle_one (bit kf kt : N) (empties : list N) : list N :=
  if cr_has (cr p) bit && forallb (fun s => at_ b s =? 0) empties then [mk_code kf kt CASTLING PT_NONE] else [].

Definition castle_list : list N :=
  if c =? 0 then castle_one 1 4 6 [5; 6] ++ castle_one 2 4 2 [1; 2; 3]
  else castle_one 4 60 62 [61; 62] ++ castle_one 8 60 58 [57; 58; 59].

Lemma gen_castling_eq : gen_castling v 2 = Some castle_list.
Proof.
  unfold gen_castling. replace (has_q 2) with true by reflexivity. cbn [andb].
  replace (vcr v) with (cr p) by reflexivity. replace (vstm v) with c by reflexivity.
  destruct between_values as (B1 & B2 & B3 & B4).
  assert (I1 : intermediate_bb 4 7 = Some (bb_of [5;6])) by (unfold intermediate_bb; cbn [N.ltb N.compare Pos.compare Pos.compare_cont andb]; rewrite <- B1; now apply (intermediate_exact 4 7)).
  assert (I2 : intermediate_bb 4 0 = Some (bb_of [1;2;3])) by (unfold intermediate_bb; cbn [N.ltb N.compare Pos.compare Pos.compare_cont andb]; rewrite <- B2; now apply (intermediate_exact 4 0)).
  assert (I3 : intermediate_bb 60 63 = Some (bb_of [61;62])) by (unfold intermediate_bb; cbn [N.ltb N.compare Pos.compare Pos.compare_cont andb]; rewrite <- B3; now apply (intermediate_exact 60 63)).
  assert (I4 : intermediate_bb 60 56 = Some (bb_of [57;58;59])) by (unfold intermediate_bb; cbn [N.ltb N.compare Pos.compare Pos.compare_cont andb]; rewrite <- B4; now apply (intermediate_exact 60 56)).
  rewrite I1, I2, I3, I4, Hocc. cbn [bind]. unfold castle_list, castle_one.
  rewrite !land_zero_empties by (intros t Ht; cbn [In] in Ht; lia).
  destruct (N.eqb_spec (cr p) 0) as [E0|E0]; cbn [negb].
  - unfold cr_has. rewrite E0. cbn [N.land N.eqb negb andb]. now destruct (c =? 0).
  - destruct (c =? 0);
      destruct (cr_has (cr p) 1), (cr_has (cr p) 2), (cr_has (cr p) 4), (cr_has (cr p) 8); cbn [bind andb];
      repeat match goal with |- context [forallb ?f ?l] => destruct (forallb f l) end; reflexivity.
Qed.

(* castling rights imply king and rook on their squares *)
Lemma rights_pieces : forall kf kt rf bit empties, In (kf, kt, rf, bit, empties) (castles c) ->
  cr_has (cr p) bit = true -> is_piece b kf c KING = true /\ is_piece b rf c ROOK = true.
Proof.
  pose proof (legal_pos_inv p Hlegal) as (_ & _ & _ & _ & _ & _ & _ & _ & Hr & _).
  unfold rights_ok in Hr. apply andb_true_iff in Hr as [Hr1 Hr2].
  rewrite forallb_forall in Hr1, Hr2.
  intros kf kt rf bit empties Hin Hhas. unfold cr_has in Hhas.
  pose proof Hc as Hc'. assert (E : c = 0 \/ c = 1) by lia. destruct E as [E|E]; rewrite E in *.
  - specialize (Hr1 _ Hin). cbv beta iota in Hr1. fold b in Hr1.
    destruct (N.land (cr p) bit =? 0); [discriminate|]. cbn [orb] in Hr1. now apply andb_true_iff in Hr1.
  - specialize (Hr2 _ Hin). cbv beta iota in Hr2. fold b in Hr2.
    destruct (N.land (cr p) bit =? 0); [discriminate|]. cbn [orb] in Hr2. now apply andb_true_iff in Hr2.
Qed.

Lemma castle_one_in bit kf kt rf empties x : In (kf, kt, rf, bit, empties) (castles c) ->
  (In x (castle_one bit kf kt empties) <->
   castle_ok p (kf, kt, rf, bit, empties) = true /\ x = code (mkmv kf kt CASTLING 3)).
Proof.
  intros Hin. unfold castle_one, castle_ok. fold b c.
  assert (Hcode : mk_code kf kt CASTLING PT_NONE = code (mkmv kf kt CASTLING 3)).
  { apply castles_in in Hin.
    decompose [or] Hin; match goal with H : (_, _, _, _, _) = _ |- _ => injection H as -> -> -> -> -> end;
      vm_compute; reflexivity. }
  rewrite Hcode. fold (cr_has (cr p) bit).
  destruct (cr_has (cr p) bit) eqn:Eh; cbn [andb].
  - destruct (rights_pieces _ _ _ _ _ Hin Eh) as [-> ->]. cbn [andb].
    destruct (forallb _ empties); cbn [In]; intuition congruence.
  - cbn [In]. intuition discriminate.
Qed.

Lemma castle_class x : In x castle_list <-> In x (class_codes prom_nq p 12).
Proof.
  rewrite class_codes_in. unfold castle_list.
  assert (Hcs : castles c = if c =? 0 then [(4, 6, 7, 1, [5; 6]); (4, 2, 0, 2, [1; 2; 3])]
                            else [(60, 62, 63, 4, [61; 62]); (60, 58, 56, 8, [57; 58; 59])]) by reflexivity.
  split.
  - intros H.
    assert (G : exists kf kt rf bit empties, In (kf, kt, rf, bit, empties) (castles c) /\ In x (castle_one bit kf kt empties)).
    { rewrite Hcs. destruct (c =? 0); apply in_app_or in H as [H|H].
      - exists 4, 6, 7, 1, [5;6]. split; [now left|exact H].
      - exists 4, 2, 0, 2, [1;2;3]. split; [right; now left|exact H].
      - exists 60, 62, 63, 4, [61;62]. split; [now left|exact H].
      - exists 60, 58, 56, 8, [57;58;59]. split; [right; now left|exact H]. }
    destruct G as (kf & kt & rf & bit & empties & Hin & Hx).
    apply (castle_one_in _ _ _ _ _ _ Hin) in Hx as [Hok ->].
    assert (Hm : In (mkmv kf kt CASTLING 3) (castle_moves p)).
    { apply castle_moves_in. exists kf, kt, rf, bit, empties. auto. }
    exists (mkmv kf kt CASTLING 3). split; [|split; [|reflexivity]].
    + apply pseudo_of_shape. now apply ps_castle.
    + now apply cls_castle.
  - intros (m & Hm & Hcls & <-). apply (pseudo_shape p m Hw) in Hm.
    destruct Hm as [s t ty Hs Hty E Ht Hf|s m Hs E Hm|m Hm].
    + rewrite (cls_simple prom_nq p s t ty Hty E) in Hcls.
      destruct (ty =? KING), (at_ (brd p) t =? 0); discriminate.
    + destruct (cls_pawn prom_nq p s m Hc Hs E Hm) as (_ & _ & A & _).
      change (N.of_nat 12) with 12 in Hcls. congruence.
    + apply castle_moves_in in Hm as (kf & kt & rf & bit & empties & Hin & Hok & ->).
      assert (Hx : In (code (mkmv kf kt CASTLING 3)) (castle_one bit kf kt empties))
        by (apply (castle_one_in _ _ _ rf); auto).
      fold c in Hin. rewrite Hcs in Hin. destruct (c =? 0); cbn [In] in Hin;
        destruct Hin as [Hin|[Hin|[]]]; injection Hin as <- <- <- <- <-; apply in_or_app; auto.
Qed.

Lemma castle_list_nodup : NoDup castle_list.
Proof.
  unfold castle_list, castle_one. destruct (c =? 0);
    repeat match goal with |- context [if ?x then _ else _] => destruct x end;
    cbn [app]; repeat constructor; cbn [In]; try tauto;
    intros [H|[]]; vm_compute in H; discriminate.
Qed.

Theorem gen_castling_exact :
  exists l, gen_castling v 2 = Some l /\ Permutation l (class_codes prom_nq p 12) /\ NoDup l.
Proof.
  exists castle_list. split; [apply gen_castling_eq|]. split; [|apply castle_list_nodup].
  apply NoDup_Permutation; [apply castle_list_nodup|apply class_codes_nodup; exact Hw|apply castle_class].
Qed.

End Pieces.

(** ** exported statements *)
Theorem gen_moves_exact prom_nq p : legal_pos p = true ->
  (exists l, gen_moves (view_of_spec p) 1 false 0 = Some l /\
             Permutation l (class_codes prom_nq p 8) /\ NoDup l) /\
  (exists l, gen_moves (view_of_spec p) 2 false 0 = Some l /\
             Permutation l (class_codes prom_nq p 14) /\ NoDup l).
Proof.
  intros H. split; [exact (gen_moves_exact_cap prom_nq p H true)|exact (gen_moves_exact_cap prom_nq p H false)].
Qed.

Theorem gen_king_moves_exact prom_nq p : legal_pos p = true ->
  (exists l, gen_king_moves (view_of_spec p) 1 false = Some l /\
             Permutation l (class_codes prom_nq p 7) /\ NoDup l) /\
  (exists l, gen_king_moves (view_of_spec p) 2 false = Some l /\
             Permutation l (class_codes prom_nq p 13) /\ NoDup l).
Proof.
  intros H. split; [exact (gen_king_moves_exact_cap prom_nq p H true)|exact (gen_king_moves_exact_cap prom_nq p H false)].
Qed.

Print Assumptions gen_moves_exact.
Print Assumptions gen_king_moves_exact.
Print Assumptions gen_castling_exact.
