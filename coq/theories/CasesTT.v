(** * CasesTT: evaluation helper for the C11 correspondence run. *)
From Coq Require Import NArith ZArith List Bool.
From FG Require Import TTImpl.
Import ListNotations.

Definition obs_eqb (a b : obs) : bool :=
  match a, b with
  | ONone, ONone => true
  | ONum x, ONum y => N.eqb x y
  | OEntry k1 m1 d1 a1 t1 b1, OEntry k2 m2 d2 a2 t2 b2 =>
      N.eqb k1 k2 && N.eqb m1 m2 && Z.eqb d1 d2 && Z.eqb a1 a2 && N.eqb t1 t2 && Bool.eqb b1 b2
  | _, _ => false
  end.

Fixpoint obs_list_eqb (a b : list obs) : bool :=
  match a, b with
  | [], [] => true
  | x :: a', y :: b' => obs_eqb x y && obs_list_eqb a' b'
  | _, _ => false
  end.

(* indices of the cases on which model and implementation disagree *)
Fixpoint tt_mismatches_from (i : nat) (cases : list (list op * list obs)) : list nat :=
  match cases with
  | [] => []
  | (ops, observed) :: r =>
      (if obs_list_eqb (run ops) observed then [] else [i]) ++ tt_mismatches_from (S i) r
  end.
Definition tt_mismatches := tt_mismatches_from 0.
