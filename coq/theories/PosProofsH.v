(** * PosProofsH: every pseudo-legal move of the rules specification satisfies [move_ok]
    (hence so does every legal move: [Rules.legal] filters [Rules.pseudo]). *)
From Coq Require Import NArith ZArith List Bool Lia ZifyN ZifyBool Btauto.
From FG Require Import Geom Rules FenSpec PosImpl PosProofsA PosProofsB PosProofsC PosProofsD.
Import ListNotations.
Open Scope N_scope.

Lemma in_squares64 s : In s squares64 <-> s < 64.
Proof.
  unfold squares64. rewrite in_map_iff. split.
  - intros (n & <- & Hn). apply in_seq in Hn. lia.
  - intro H. exists (N.to_nat s). split; [lia|]. apply in_seq. lia.
Qed.

Lemma forall_squares (P : N -> bool) : forallb P squares64 = true -> forall s, s < 64 -> P s = true.
Proof. intros H s Hs. rewrite forallb_forall in H. apply H. now apply in_squares64. Qed.

Lemma offset_lt s df dr x : offset s df dr = Some x -> x < 64.
Proof.
  unfold offset. set (f := (Z.of_N (file_of s) + df)%Z). set (r := (Z.of_N (rank_of s) + dr)%Z).
  cbv zeta. destruct (on_board f r) eqn:E; [|discriminate]. intro H.
  assert (Hx : x = Z.to_N (8 * r + f)) by congruence. rewrite Hx. clear H Hx.
  unfold on_board in E. repeat (apply andb_true_iff in E as [E ?]).
  apply Z.leb_le in E. repeat match goal with H : (_ <=? _)%Z = true |- _ => apply Z.leb_le in H end. lia.
Qed.
Lemma step_lt d s x : step d s = Some x -> x < 64.
Proof. unfold step. destruct (delta d). apply offset_lt. Qed.

Lemma somes_in {A} (l : list (option A)) x : In x (somes l) -> In (Some x) l.
Proof.
  unfold somes. rewrite in_flat_map. intros ([y|] & Hy & Hx); [|destruct Hx].
  destruct Hx as [<-|[]]. exact Hy.
Qed.

Lemma knight_targets_lt s x : In x (knight_targets s) -> x < 64.
Proof.
  intro H. apply somes_in in H. apply in_map_iff in H as ([df dr] & E & _). eapply offset_lt; eassumption.
Qed.
Lemma king_targets_lt s x : In x (king_targets s) -> x < 64.
Proof.
  intro H. apply somes_in in H. apply in_map_iff in H as (d & E & _). eapply step_lt; eassumption.
Qed.
Lemma walkb_lt b d : forall fuel s x, In x (walkb fuel b d s) -> x < 64.
Proof.
  induction fuel as [|k IH]; intros s x H; [destruct H|]. cbn [walkb] in H.
  destruct (step d s) as [y|] eqn:E; [|destruct H]. destruct H as [<-|H]; [eapply step_lt; eassumption|].
  destruct (at_ b y =? 0); [eapply IH; eassumption|destruct H].
Qed.
Lemma rays_lt b dirs s x : In x (rays_from b dirs s) -> x < 64.
Proof.
  unfold rays_from. intro H. apply in_concat in H as (l & Hl & Hx). apply in_map_iff in Hl as (d & <- & _).
  eapply walkb_lt; eassumption.
Qed.

(** geometry of pawn moves, checked on the 2 x 64 (colour, square) pairs *)
Definition geo_single (c s : N) : bool :=
  match step (pawn_dir c) s with
  | None => true
  | Some x => negb (sq_distance s x =? 2) && negb (zabs_diff (rank_of s) (rank_of x) =? 2)
  end.
Definition geo_double (c s : N) : bool :=
  match step (pawn_dir c) s with
  | Some x => match step (pawn_dir c) x with
      | Some u => if rank_of s =? start_rank c then
          (sq_distance s u =? 2) && (zabs_diff (rank_of s) (rank_of u) =? 2) &&
          (let e := sq_to u (pawn_dir (cflip c)) in
           (e <? 64) && (e =? mk_sq (file_of s) ((rank_of s + rank_of u) / 2)) &&
           (sq_to e (pawn_dir c) =? u) && negb (e =? u) && negb (e =? s) &&
           (rank_of e =? (if c =? 0 then 2 else 5)))
        else true
      | None => true end
  | None => true end.
Definition geo_cap (c s : N) : bool :=
  forallb (fun x =>
    negb (zabs_diff (rank_of s) (rank_of x) =? 2) &&
    (if rank_of x =? (if c =? 0 then 5 else 2) then
       let cs := sq_to x (pawn_dir (cflip c)) in
       (cs <? 64) && (cs =? mk_sq (file_of x) (rank_of s)) && negb (cs =? s) && negb (cs =? x) &&
       (castling_by_square s =? 0) && (castling_by_square x =? 0)
     else true)) (pawn_attack_targets c s).

Definition geo_ok (c s : N) : bool := geo_single c s && geo_double c s && geo_cap c s.
Lemma geo_white : forallb (geo_ok 0) squares64 = true. Proof. vm_compute. reflexivity. Qed.
Lemma geo_black : forallb (geo_ok 1) squares64 = true. Proof. vm_compute. reflexivity. Qed.

Lemma geo c s : c < 2 -> s < 64 -> geo_single c s = true /\ geo_double c s = true /\ geo_cap c s = true.
Proof.
  intros Hc Hs. assert (Hcc : c = 0 \/ c = 1) by lia.
  assert (G : geo_ok c s = true).
  { destruct Hcc as [-> | ->]; [apply (forall_squares _ geo_white s Hs)|apply (forall_squares _ geo_black s Hs)]. }
  unfold geo_ok in G. apply andb_true_iff in G as [G G3]. apply andb_true_iff in G as [G1 G2]. auto.
Qed.

Lemma fwd_pawn_dir c : fwd c = pawn_dir c.
Proof. reflexivity. Qed.

Section PM.
Variable t : tabs.
Variable p : ipos.
Hypothesis W : WF t p.

Lemma foe_tgt s x m : mfrom m = s -> mto m = x ->
  free_or_enemy (i_board p) (i_stm p) x = true -> tgt_ok p m.
Proof.
  intros Ef Et H. unfold tgt_ok. rewrite Et. unfold free_or_enemy, colour_of in H.
  destruct (N.eqb_spec (at_ (i_board p) x) 0) as [E|E]; [left; exact E|right]. split; [exact E|].
  cbn [orb] in H. apply negb_true_iff, N.eqb_neq in H. exact H.
Qed.

Lemma simple_ok s ts m : s < 64 -> at_ (i_board p) s <> 0 -> at_ (i_board p) s / 8 = i_stm p ->
  at_ (i_board p) s mod 8 <> PAWN -> (forall x, In x ts -> x < 64) ->
  In m (map (fun x => mkmv s x NORMAL 3) (filter (free_or_enemy (i_board p) (i_stm p)) ts)) -> move_ok p m.
Proof.
  intros Hs Hpc Hcol Hnp Hts Hin. apply in_map_iff in Hin as (x & <- & Hx). apply filter_In in Hx as [Hx Hfoe].
  split.
  - constructor; cbn [mfrom mto mprom]; auto; lia.
  - left. constructor; cbn [mfrom mto mtype]; try reflexivity; try (intro; contradiction).
    apply (foe_tgt s x); auto.
Qed.

Lemma pawn_code s : at_ (i_board p) s <> 0 -> at_ (i_board p) s / 8 = i_stm p -> at_ (i_board p) s mod 8 = PAWN ->
  at_ (i_board p) s = 8 * i_stm p + PAWN.
Proof.
  intros Hnz Hc Ht. pose proof (c_ok _ _ (w_coh _ _ W) s) as Ho. apply okpc_cases in Ho as [?|Ho]; [contradiction|].
  unfold PAWN in *. lia.
Qed.

(* single advances and captures, possibly promoting *)
Lemma adv_ok s x m : s < 64 -> x < 64 ->
  at_ (i_board p) s <> 0 -> at_ (i_board p) s / 8 = i_stm p -> at_ (i_board p) s mod 8 = PAWN ->
  (at_ (i_board p) x = 0 \/ (at_ (i_board p) x <> 0 /\ at_ (i_board p) x / 8 <> i_stm p)) ->
  zabs_diff (rank_of s) (rank_of x) <> 2 ->
  (at_ (i_board p) x = 0 -> sq_distance s x <> 2) ->
  In m (if rank_of x =? last_rank (i_stm p) then promos s x else [mkmv s x NORMAL 3]) -> move_ok p m.
Proof.
  intros Hs Hx Hpc Hcol Hpw Htgt Hr Hd Hin.
  destruct (rank_of x =? last_rank (i_stm p)).
  - assert (Hm : mfrom m = s /\ mto m = x /\ mtype m = PROMOTION /\ 3 <= mprom m <= 6).
    { unfold promos in Hin. cbn [In] in Hin.
      destruct Hin as [<-|[<-|[<-|[<-|[]]]]]; cbn [mfrom mto mtype mprom]; unfold QUEEN, ROOK, BISHOP, KNIGHT; repeat split; lia. }
    destruct Hm as (Ef & Et & Ety & Epr). split.
    + constructor; rewrite ?Ef, ?Et; auto.
    + right. left. constructor; unfold tgt_ok; rewrite ?Ef, ?Et; auto. apply pawn_code; auto.
  - destruct Hin as [<-|[]]. split.
    + constructor; cbn [mfrom mto mprom]; auto; lia.
    + left. constructor; unfold tgt_ok; cbn [mfrom mto mtype]; auto; try reflexivity.
      intros _ He Hd2. exfalso. apply (Hd He Hd2).
Qed.

Theorem pseudo_move_ok m : In m (pseudo (abs p)) -> move_ok p m.
Proof.
  pose proof (w_coh _ _ W) as C. pose proof (w_stm _ _ W) as Hstm.
  unfold pseudo. intro Hin. apply in_app_or in Hin as [Hin|Hin].
  - (* piece moves *)
    apply in_flat_map in Hin as (s & Hs & Hin). apply in_squares64 in Hs.
    unfold piece_moves in Hin. cbn [abs brd stm] in Hin.
    unfold colour_of, type_of in Hin.
    destruct (N.eqb_spec (at_ (i_board p) s) 0) as [Ez|Hpc]; [destruct Hin|]. cbn [orb] in Hin.
    destruct (N.eqb_spec (at_ (i_board p) s / 8) (i_stm p)) as [Hcol|]; [|destruct Hin]. cbn [negb] in Hin.
    destruct (N.eqb_spec (at_ (i_board p) s mod 8) PAWN) as [Hpw|Hnp].
    + (* pawn *)
      destruct (geo (i_stm p) s Hstm Hs) as (G1 & G2 & G3).
      unfold pawn_moves in Hin. cbn [abs brd stm ep] in Hin. rewrite fwd_pawn_dir in Hin.
      apply in_app_or in Hin as [Hin|Hin].
      * (* pushes *)
        unfold geo_single in G1. unfold geo_double in G2.
        destruct (step (pawn_dir (i_stm p)) s) as [x|] eqn:Ex; [|destruct Hin].
        pose proof (step_lt _ _ _ Ex) as Hx.
        destruct (N.eqb_spec (at_ (i_board p) x) 0) as [Ex0|]; [|destruct Hin].
        apply andb_true_iff in G1 as [G1a G1b]. apply negb_true_iff, N.eqb_neq in G1a, G1b.
        apply in_app_or in Hin as [Hin|Hin].
        -- apply (adv_ok s x); auto.
        -- destruct (rank_of s =? start_rank (i_stm p)); [|destruct Hin].
           destruct (step (pawn_dir (i_stm p)) x) as [u|] eqn:Eu; [|destruct Hin].
           pose proof (step_lt _ _ _ Eu) as Hu.
           destruct (N.eqb_spec (at_ (i_board p) u) 0) as [Eu0|]; [|destruct Hin].
           destruct Hin as [<-|[]].
           cbv zeta in G2. repeat match goal with H : _ && _ = true |- _ => apply andb_true_iff in H; destruct H end.
           repeat match goal with H : negb _ = true |- _ => apply negb_true_iff in H end.
           repeat match goal with H : (_ =? _) = true |- _ => apply N.eqb_eq in H
                                | H : (_ =? _) = false |- _ => apply N.eqb_neq in H
                                | H : (_ <? _) = true |- _ => apply N.ltb_lt in H end.
           split.
           ++ constructor; cbn [mfrom mto mprom]; auto; lia.
           ++ left. constructor; cbn [mfrom mto mtype]; try reflexivity.
              ** left. exact Eu0.
              ** intros _ Hc. contradiction.
              ** intros _ _ Hc. contradiction.
              ** intros _ _ _. cbv zeta. repeat split; assumption.
      * (* captures and en passant *)
        apply in_flat_map in Hin as (x & Hx & Hin).
        unfold geo_cap in G3. rewrite forallb_forall in G3. specialize (G3 x Hx).
        apply andb_true_iff in G3 as [G3a G3b]. apply negb_true_iff, N.eqb_neq in G3a.
        assert (Hxl : x < 64).
        { unfold pawn_attack_targets in Hx. destruct (i_stm p =? 0); apply somes_in in Hx;
          cbn [In] in Hx; destruct Hx as [E|[E|[]]]; eapply step_lt; eassumption. }
        unfold enemy, colour_of in Hin.
        destruct (N.eqb_spec (at_ (i_board p) x) 0) as [Ex0|Ex0]; cbn [negb andb] in Hin.
        -- (* en passant *)
           rewrite andb_true_r in Hin. destruct (N.eqb_spec x (i_ep p)) as [Eep|]; [|destruct Hin].
           destruct Hin as [<-|[]].
           destruct (w_ep _ _ W) as [E64|(Hep1 & Hep2 & Hep3 & Hep4)]; [lia|].
           rewrite <- Eep in Hep2. rewrite Hep2, N.eqb_refl in G3b.
           cbv zeta in G3b. repeat match goal with H : _ && _ = true |- _ => apply andb_true_iff in H; destruct H end.
           repeat match goal with H : negb _ = true |- _ => apply negb_true_iff in H end.
           repeat match goal with H : (_ =? _) = true |- _ => apply N.eqb_eq in H
                                | H : (_ =? _) = false |- _ => apply N.eqb_neq in H
                                | H : (_ <? _) = true |- _ => apply N.ltb_lt in H end.
           split.
           ++ constructor; cbn [mfrom mto mprom]; auto; lia.
           ++ right. right. left. constructor; cbn [mfrom mto mtype]; try reflexivity; auto.
              apply pawn_code; auto.
        -- rewrite andb_false_r in Hin.
           destruct (N.eqb_spec (at_ (i_board p) x / 8) (i_stm p)) as [|Hen]; cbn [negb] in Hin; [destruct Hin|].
           apply (adv_ok s x); auto.
    + (* officers *)
      destruct (at_ (i_board p) s mod 8 =? KNIGHT); [apply (simple_ok s (knight_targets s)); auto; apply knight_targets_lt|].
      destruct (at_ (i_board p) s mod 8 =? KING); [apply (simple_ok s (king_targets s)); auto; apply king_targets_lt|].
      destruct (at_ (i_board p) s mod 8 =? ROOK); [apply (simple_ok s (rays_from (i_board p) rook_dirs s)); auto; apply rays_lt|].
      destruct (at_ (i_board p) s mod 8 =? BISHOP); [apply (simple_ok s (rays_from (i_board p) bishop_dirs s)); auto; apply rays_lt|].
      destruct (at_ (i_board p) s mod 8 =? QUEEN); [apply (simple_ok s (rays_from (i_board p) all_dirs s)); auto; apply rays_lt|].
      destruct Hin.
  - (* castling *)
    unfold castle_moves in Hin. cbn [abs brd stm cr] in Hin. apply in_flat_map in Hin as (x & Hx & Hin).
    assert (Hcc : i_stm p = 0 \/ i_stm p = 1) by lia.
    unfold castles, is_piece, mk_piece, WHITE in Hx.
    assert (Hshape : exists kf kt rf rt e1 e2 bit, x = (kf, kt, rf, bit, e1 :: e2) /\ castle_shape kf kt rf rt (i_stm p) /\
              In rt (e1 :: e2) /\ In kt (e1 :: e2)).
    { destruct Hcc as [E|E]; rewrite E in Hx |- *; cbn [N.eqb Pos.eqb In] in Hx; destruct Hx as [<-|[<-|[]]].
      - exists 4, 6, 7, 5, 5, [6], 1. unfold castle_shape. cbn. auto 8.
      - exists 4, 2, 0, 3, 1, [2;3], 2. unfold castle_shape. cbn. auto 8.
      - exists 60, 62, 63, 61, 61, [62], 4. unfold castle_shape. cbn. auto 8.
      - exists 60, 58, 56, 59, 57, [58;59], 8. unfold castle_shape. cbn. auto 8. }
    destruct Hshape as (kf & kt & rf & rt & e1 & e2 & bit & -> & Hsh & Hrt & Hkt).
    unfold is_piece, mk_piece in Hin.
    destruct (negb (N.land (i_cr p) bit =? 0)); cbn [andb] in Hin; [|destruct Hin].
    destruct (N.eqb_spec (at_ (i_board p) kf) (8 * i_stm p + KING)) as [Ek|]; cbn [andb] in Hin; [|destruct Hin].
    destruct (N.eqb_spec (at_ (i_board p) rf) (8 * i_stm p + ROOK)) as [Er|]; cbn [andb] in Hin; [|destruct Hin].
    destruct (forallb (fun s => at_ (i_board p) s =? 0) (e1 :: e2)) eqn:Ef; [|destruct Hin].
    destruct Hin as [<-|[]].
    rewrite forallb_forall in Ef.
    pose proof (Ef rt Hrt) as Ert. pose proof (Ef kt Hkt) as Ekt. apply N.eqb_eq in Ert, Ekt.
    destruct (castle_info_shape _ _ _ _ _ Hsh) as (_ & _ & Hkf & Hktl & _).
    split.
    + constructor; cbn [mfrom mto mprom]; auto; try lia.
      * rewrite Ek. unfold KING. lia.
      * rewrite Ek. apply mk_div. unfold KING. lia.
    + right. right. right. constructor; cbn [mfrom mto mtype]; [reflexivity|].
      exists rf, rt. auto.
Qed.
End PM.
