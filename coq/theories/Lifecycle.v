(** * Lifecycle: small-step model of the search lifecycle of FrankyGo (properties C14 and C12-lifecycle)

    MODEL ONLY (definitions, executable).  Theorems are in LifecycleProofs.v / LifecycleProofs2.v.

    Models the code as of /repo commit a3b1d9c ("ponder and infinite searches answer only after stop/ponderhit"),
    i.e. including: per-search atomic stop token and reject-while-running (c009003), sendLock around
    UciHandler.send (23863b3), isRunning released BEFORE the result is sent (470afed), stopConditions without a
    store into the token and no timer for infinite searches (a3b1d9c).  Line numbers in the comments refer to
    search.go / uci.go of that period and are indicative; the statement transcribed is named next to them.

    Source transcribed: /repo/internal/search/search.go (NewSearch, NewGame, StartSearch, StopSearch,
    PonderHit, IsSearching, WaitWhileSearching, IsReady, ClearHash, ResizeCache, initialize, run,
    stopConditions, startTimer, setupSearchLimits, addExtraTime, sendResult), /repo/internal/uci/uci.go
    (send with its sendLock mutex, SendReadyOk, SendInfoString, SendResult, and the command handlers as the
    controller),
    bufio.Writer.WriteString/Flush (Go 1.23 src/bufio/bufio.go) for the OutIo writer.

    ------------------------------------------------------------------------------------------------
    CONCRETE SYNTAX for the correspondence run (a Go harness prints these terms):

      limits  ::= mkLimits <infinite:bool> <ponder:bool> <timecontrol:bool> <time:nat> <nodes:bool> <extra:bool>
                  e.g.  (mkLimits true false false 0 false false)      (* go infinite *)
                        (mkLimits false false true 2 false false)      (* go movetime ..   (2 abstract ticks) *)
                        (mkLimits false true true 2 false false)       (* go ponder wtime .. btime .. *)
                        (mkLimits false false false 0 false false)     (* go depth n *)
                        (mkLimits false false false 0 true false)      (* go nodes n *)
              time  = abstract time budget in clock ticks (any value > 0 behaves alike unless two timers compete);
              nodes = a node limit is set (Limits.Nodes > 0);
              extra = hadBookMove && TimeControl && MoveTime == 0 in iterativeDeepening (addExtraTime will run) -
                      a harness that disables the book prints false.
      call    ::= CStart <limits> | CStop | CWait | CIsSearching | CPonderHit | CNewGame | CClearHash
                | CResize | CIsReady
              (StartSearch, StopSearch, WaitWhileSearching, IsSearching, PonderHit, NewGame, ClearHash,
               ResizeCache, IsReady of search.Search, called from ONE controller goroutine)
      event   ::= EStartReturned <n:nat>   (* StartSearch returned and was accepted; n = 1,2,.. number of this accepted start *)
                | EStartRejected           (* StartSearch returned, "Search already running" *)
                | EStartDone               (* StartSearch returned, harness does not know which of the two (wildcard) *)
                | EResult <n:nat>          (* driver.SendResult called by the search goroutine of accepted start n
                                              (results of different searches may arrive in any order) *)
                | EStopReturned            (* StopSearch returned *)
                | EReadyOk                 (* driver.SendReadyOk called (inside IsReady) *)
                | EIsSearching <b:bool>    (* IsSearching returned b *)
                | ETimerFired <n:nat>      (* a timer of search n reached stop.Store(true) (end of startTimer) - OPTIONAL:
                                              the checker also accepts traces in which timer firings are not reported *)
                | EWaitReturned | ENewGameReturned | EPonderHitReturned
                | EClearHash <refused:bool>   (* ClearHash returned; refused = "Can't clear hash while searching." *)
                | EResizeHash <refused:bool>  (* ResizeCache returned; refused = "Can't resize hash while searching." *)
                | ECall <i:nat>            (* the controller is ABOUT TO issue call number i (0-based index into the call
                                              list), logged immediately BEFORE the call - OPTIONAL but recommended: without
                                              it a result that arrives before the stop was even issued cannot be told from
                                              one that arrives during the stop *)
      A trace is a Coq list of events in real-time order, oldest first:   [EStartReturned 1; EReadyOk; EStopReturned; ...]
      Events of controller calls may be logged by the harness at any time after the call returned and before the
      next call is issued (the model emits them in a separate "return" step); EResult / EReadyOk must be logged
      inside the driver callback.
      Checker:   accepts (cfgTT cfgBook cfgBookOk : bool) (calls : list call) (trace : list event) : bool
                 accepts_default calls trace := accepts true false false calls trace     (UseTT = true, UseBook = false)
    ------------------------------------------------------------------------------------------------

    Go variables IN the model (see [var]):  s.stopFlag (the pointer field), every stop token *util.Bool (atomic),
    s.timeLimit, s.extraTime (atomic accessors + the plain reads of addExtraTime), s.searchLimits (pointer field;
    the Limits object is immutable after StartSearch), s.currentPosition, s.hasResult, s.lastSearchResult,
    s.tt (pointer field), s.book (pointer field), s.history (pointer field), u.OutIo (the bufio.Writer of the
    UCI handler: buffer fill + sticky error), the semaphores s.isRunning and s.initSemaphore and the mutex
    u.sendLock (synchronisation objects, not data), config.Settings.Search.UseTT / UseBook (constants of a run).
    NOT modelled (shared accesses of the real code outside the model): go-logging loggers and back-ends
    (s.log / s.slog / uciLog, logging.GetLog re-configuration), s.statistics, s.nodesVisited (read by
    NodesVisited()/Statistics() getters), s.startTime, s.lastUciUpdateTime, s.mg, s.pv, s.rootMoves,
    s.hadBookMove, the CONTENTS of the transposition table, of the history tables and of the book (only the
    pointer fields are modelled), s.uciHandlerPtr (written once by SetUciHandler before any search),
    config.Settings written by setoption while a search reads it, u.myPosition/u.myPerft, rand.Seed,
    UciHandler.Command (test helper: swaps u.OutIo without taking sendLock),
    LastSearchResult() getter called from outside, more than one controller goroutine, panics inside run
    (the deferred Release would still run, sendResult would not).
*)
From Coq Require Import List Bool Arith PeanoNat Lia.
Import ListNotations.

Notation "x |> f" := (f x) (at level 65, left associativity, only parsing).

(** ** Calls, events *)

(* search.Limits (limits.go:38-60) abstracted to what the lifecycle looks at *)
Record limits := mkLimits {
  lInfinite : bool;      (* Limits.Infinite *)
  lPonder : bool;        (* Limits.Ponder *)
  lTimeControl : bool;   (* Limits.TimeControl *)
  lTime : nat;           (* result of setupTimeControl (search.go:649), in abstract ticks *)
  lNodes : bool;         (* Limits.Nodes > 0 *)
  lExtra : bool          (* search.go:466 condition: addExtraTime(2.0) will be executed *)
}.

Inductive call :=
| CStart (l : limits) | CStop | CWait | CIsSearching | CPonderHit | CNewGame | CClearHash | CResize | CIsReady.

Inductive event :=
| EStartReturned (n : nat) | EStartRejected | EStartDone | EResult (n : nat) | EStopReturned | EReadyOk
| EIsSearching (b : bool) | ETimerFired (n : nat)
| EWaitReturned | ENewGameReturned | EPonderHitReturned | EClearHash (refused : bool) | EResizeHash (refused : bool)
| ECall (i : nat).

(* lines handed to u.OutIo *)
Inductive line := LReady | LBest (n : nat) | LInfo.

(** ** Ghost data: why a stop token became true / why a search ended *)
Inductive creator := ByRun (n : nat) (* run of search n, search.go:300 *) | ByPonderHit (c : nat) (* call number c, search.go:183 *).
Inductive reason :=
| RSelf                                         (* iterativeDeepening returned by itself (depth, mate, single move) *)
| RNodes                                        (* own node limit reached, stopConditions search.go:616 (no store into the token) *)
| RTimer (k : nat) (tok : nat) (cr : creator)   (* timer k, holding token tok, search.go:732 *)
| RStop (c : nat)                               (* StopSearch (also inside NewGame), call number c, search.go:171 *)
| REnd.                                         (* clean-up store at the end of run, search.go:386 *)

(** ** Program counters *)
Inductive cpc :=
| CIdle                      (* between two calls; next step = dispatch (uci.go:204) *)
| CStTry                     (* search.go:147 TryAcquire isRunning *)
| CStAcqInit                 (* 152 Acquire init *)
| CStPos                     (* 154 write currentPosition *)
| CStLim                     (* 155 write searchLimits *)
| CStTok                     (* 158 stopFlag = NewBool(false) *)
| CStGo                      (* 160 go s.run *)
| CStWait                    (* 163 Acquire init *)
| CStRel                     (* 164 Release init *)
| CSpPtr                     (* 171 read s.stopFlag *)
| CSpStore (p : nat)         (* 171 .Store(true) *)
| CWAcq                      (* 202 Acquire isRunning *)
| CWRel                      (* 203 Release isRunning *)
| CNgTT                      (* 134 read s.tt (+ Clear) *)
| CNgHist                    (* 137 write s.history *)
| CIsTry                     (* 191 TryAcquire isRunning *)
| CIsRel                     (* 194 Release isRunning *)
| CPhLim                     (* 181 read s.searchLimits(.Ponder) *)
| CPhPtr                     (* 717 read s.stopFlag *)
| CPhGo (p : nat)            (* 718 go timer *)
| CInBook                    (* 562-563 read s.book *)
| CInBookW                   (* 564-575 write s.book *)
| CInTT                      (* 583-584 read s.tt *)
| CInTTW                     (* 589 write s.tt *)
| CChTT                      (* 241 read s.tt (+ Clear) *)
| CRzNil                     (* 257 s.tt = nil *)
| CRzTT                      (* 261 read s.tt *)
| CSend0 (ln : line) (ret : option event)            (* uci.go:655 sendLock.Lock() *)
| CSend1 (ln : line) (ret : option event)            (* uci.go:658 WriteString *)
| CSend2 (ret : option event)                        (* uci.go:659 Flush: Write(buf[0:n]) *)
| CSend3 (k : nat) (ret : option event)              (* Flush: n < b.n check, b.n = 0 *)
| CSend4 (ret : option event)                        (* uci.go:656 deferred sendLock.Unlock() *)
| CRet (ret : option event).                         (* return to the command loop *)

Inductive spc :=
| SHasRes0                   (* search.go:286 hasResult = false *)
| STL0                       (* 287 setTimeLimit(0) *)
| SET0                       (* 288 setExtraTime(0) *)
| SInBook | SInBookW | SInTT | SInTTW     (* 293 initialize(): 563, 564-575, 584, 589 *)
| SSetTL                     (* 621 setTimeLimit(setupTimeControl) *)
| SSetET                     (* 622 setExtraTime(0) *)
| SLimTimer                  (* 299 read s.searchLimits *)
| STimerPtr                  (* startTimer: read s.stopFlag *)
| STimerGo (p : nat)         (* 718 go timer *)
| SBook                      (* 305 read s.book *)
| STTAge                     (* 318 read s.tt *)
| SHist                      (* 331 read s.history *)
| SRelInit                   (* 339 Release init *)
| SLoop                      (* head of the search loop (iterativeDeepening / alpha-beta nodes) *)
| SPollPtr                   (* stopConditions 610 read s.stopFlag *)
| SPollTok (p : nat)         (* 610 .Load() *)
| SPollLim                   (* 616 read s.searchLimits(.Nodes) *)
| SNodeTT                    (* alphabeta.go:233 read s.tt *)
| SNodeHist                  (* alphabeta.go:688 read s.history *)
| SInfo0 | SInfo1 | SInfo2 | SInfo3 (k : nat) | SInfo4    (* uci.go:655-659 via SendIterationEndInfo etc. *)
| SExtra1                    (* 704 plain read s.timeLimit *)
| SExtra2 (tl : nat)         (* 705 plain read s.extraTime *)
| SExtra3 (v : nat)          (* 705 setExtraTime *)
| SWaitLim                   (* 356/359 read s.searchLimits (Ponder || Infinite) *)
| SWaitPtr                   (* 356/359 read s.stopFlag *)
| SWaitTok (p : nat)         (* 356/359 .Load() *)
| SLastRes                   (* 380 write lastSearchResult *)
| SHasRes1                   (* 381 hasResult = true *)
| SEndPtr                    (* 386 read s.stopFlag *)
| SEndStore (p : nat)        (* 386 .Store(true) *)
| SRelRun                    (* run, end: released = true; s.isRunning.Release(1)  (before the result is sent) *)
| SRes0 | SRes1 | SRes2 | SRes3 (k : nat) | SRes4.      (* sendResult -> uci.go:163-171, 655-659; then the goroutine ends *)

Inductive tpc :=
| TmStart                    (* 719 timerStart := time.Now() *)
| TmTL                       (* 723 time.Since(timerStart), loadTimeLimit *)
| TmET                       (* 723 loadExtraTime, comparison *)
| TmTok                      (* 723 !stop.Load(); 724 Sleep *)
| TmChk                      (* 726 stop.Load() *)
| TmStore.                   (* 732 stop.Store(true) *)

Record sthread := mkS {
  sid : nat;                 (* ghost: number of the accepted start that created this goroutine *)
  spcv : spc;
  slim : limits;             (* the parameter sl of run *)
  sreason : option reason;   (* ghost: setter of the token seen when the search loop was left *)
  sextra : bool              (* addExtraTime already done *)
}.

Record tthread := mkT {
  tmid : nat;                (* ghost: timer number *)
  ttok : nat;                (* captured token: `stop := s.stopFlag` *)
  tcreator : creator;        (* ghost *)
  tpcv : tpc;
  t0 : nat;                  (* timerStart *)
  tnow : nat;                (* time read at 723 *)
  ttl : nat                  (* loadTimeLimit() result *)
}.

(* goroutine identities *)
Inductive thr := ThCtl | ThSearch (n : nat) | ThTimer (k : nat) | ThClock.

(** ** The state (record and its field setters are generated text; no logic in this block)
   cfgTT, cfgBook, cfgBookOk : config.Settings.Search.UseTT / UseBook, and whether book loading succeeds (constants)
   calls / done              : remaining calls of the controller (head = call in progress) / ghost: completed calls, newest first
   cpcv, cidx                : controller pc / ghost: number of completed calls = index of the current call
   runFree, initFree, outFree: s.isRunning, s.initSemaphore (semaphore.Weighted, size 1) and u.sendLock are free
   outHolder                 : ghost: the goroutine that locked u.sendLock (None when free)
   panicked                  : a Release/Unlock of a free semaphore/mutex or a nil dereference happened (never, see Inv)
   toks, stopPtr             : heap of stop tokens (index = token id; None = false, Some r = true, first set by r) /
                               the pointer field s.stopFlag.  Token 0 is created by NewSearch; the token created by
                               the n-th accepted StartSearch has id n
   timeLimit, extraTime      : s.timeLimit, s.extraTime in clock ticks
   limitsVar, curPos         : s.searchLimits (None = nil) / s.currentPosition (id of the start that wrote it)
   hasResult, lastResult     : s.hasResult, s.lastSearchResult (id of the search that wrote it)
   tt, book, hist            : s.tt != nil, s.book != nil, generation counter of s.history
   outBuf, outErr, outLines  : bufio.Writer u.OutIo: buffered lines, sticky error / ghost: lines handed to the OS
   clock                     : abstract monotone time
   srch                      : search goroutines that still own isRunning (pcs SHasRes0 .. SRelRun)
   senders                   : search goroutines after their Release of isRunning, inside sendResult (pcs SRes0 .. SRes4);
                               the same goroutine record moves from srch to senders in its SRelRun step
   timers, ntimers           : live timer goroutines, number of timers created so far
   starts                    : ghost: accepted starts, newest first: (id, call index, limits)
   results                   : ghost: SendResult calls, newest first: (id of the search goroutine, why it ended)
   trace                     : ghost: observable events, newest first *)
Record state := mkState {
  cfgTT : bool;
  cfgBook : bool;
  cfgBookOk : bool;
  calls : list call;
  done : list call;
  cpcv : cpc;
  cidx : nat;
  runFree : bool;
  initFree : bool;
  panicked : bool;
  toks : list (option reason);
  stopPtr : nat;
  timeLimit : nat;
  extraTime : nat;
  limitsVar : option limits;
  curPos : nat;
  hasResult : bool;
  lastResult : nat;
  tt : bool;
  book : bool;
  hist : nat;
  outFree : bool;
  outHolder : option thr;
  outBuf : list line;
  outErr : bool;
  outLines : list line;
  clock : nat;
  srch : list sthread;
  senders : list sthread;
  timers : list tthread;
  ntimers : nat;
  starts : list (nat * nat * limits);
  results : list (nat * reason);
  trace : list event
}.

Definition set_cfgTT (v : bool) (s : state) : state :=
  {| cfgTT := v; cfgBook := cfgBook s; cfgBookOk := cfgBookOk s; calls := calls s; done := done s; cpcv := cpcv s; cidx := cidx s; runFree := runFree s; initFree := initFree s; panicked := panicked s; toks := toks s; stopPtr := stopPtr s; timeLimit := timeLimit s; extraTime := extraTime s; limitsVar := limitsVar s; curPos := curPos s; hasResult := hasResult s; lastResult := lastResult s; tt := tt s; book := book s; hist := hist s; outFree := outFree s; outHolder := outHolder s; outBuf := outBuf s; outErr := outErr s; outLines := outLines s; clock := clock s; srch := srch s; senders := senders s; timers := timers s; ntimers := ntimers s; starts := starts s; results := results s; trace := trace s |}.
Definition set_cfgBook (v : bool) (s : state) : state :=
  {| cfgTT := cfgTT s; cfgBook := v; cfgBookOk := cfgBookOk s; calls := calls s; done := done s; cpcv := cpcv s; cidx := cidx s; runFree := runFree s; initFree := initFree s; panicked := panicked s; toks := toks s; stopPtr := stopPtr s; timeLimit := timeLimit s; extraTime := extraTime s; limitsVar := limitsVar s; curPos := curPos s; hasResult := hasResult s; lastResult := lastResult s; tt := tt s; book := book s; hist := hist s; outFree := outFree s; outHolder := outHolder s; outBuf := outBuf s; outErr := outErr s; outLines := outLines s; clock := clock s; srch := srch s; senders := senders s; timers := timers s; ntimers := ntimers s; starts := starts s; results := results s; trace := trace s |}.
Definition set_cfgBookOk (v : bool) (s : state) : state :=
  {| cfgTT := cfgTT s; cfgBook := cfgBook s; cfgBookOk := v; calls := calls s; done := done s; cpcv := cpcv s; cidx := cidx s; runFree := runFree s; initFree := initFree s; panicked := panicked s; toks := toks s; stopPtr := stopPtr s; timeLimit := timeLimit s; extraTime := extraTime s; limitsVar := limitsVar s; curPos := curPos s; hasResult := hasResult s; lastResult := lastResult s; tt := tt s; book := book s; hist := hist s; outFree := outFree s; outHolder := outHolder s; outBuf := outBuf s; outErr := outErr s; outLines := outLines s; clock := clock s; srch := srch s; senders := senders s; timers := timers s; ntimers := ntimers s; starts := starts s; results := results s; trace := trace s |}.
Definition set_calls (v : list call) (s : state) : state :=
  {| cfgTT := cfgTT s; cfgBook := cfgBook s; cfgBookOk := cfgBookOk s; calls := v; done := done s; cpcv := cpcv s; cidx := cidx s; runFree := runFree s; initFree := initFree s; panicked := panicked s; toks := toks s; stopPtr := stopPtr s; timeLimit := timeLimit s; extraTime := extraTime s; limitsVar := limitsVar s; curPos := curPos s; hasResult := hasResult s; lastResult := lastResult s; tt := tt s; book := book s; hist := hist s; outFree := outFree s; outHolder := outHolder s; outBuf := outBuf s; outErr := outErr s; outLines := outLines s; clock := clock s; srch := srch s; senders := senders s; timers := timers s; ntimers := ntimers s; starts := starts s; results := results s; trace := trace s |}.
Definition set_done (v : list call) (s : state) : state :=
  {| cfgTT := cfgTT s; cfgBook := cfgBook s; cfgBookOk := cfgBookOk s; calls := calls s; done := v; cpcv := cpcv s; cidx := cidx s; runFree := runFree s; initFree := initFree s; panicked := panicked s; toks := toks s; stopPtr := stopPtr s; timeLimit := timeLimit s; extraTime := extraTime s; limitsVar := limitsVar s; curPos := curPos s; hasResult := hasResult s; lastResult := lastResult s; tt := tt s; book := book s; hist := hist s; outFree := outFree s; outHolder := outHolder s; outBuf := outBuf s; outErr := outErr s; outLines := outLines s; clock := clock s; srch := srch s; senders := senders s; timers := timers s; ntimers := ntimers s; starts := starts s; results := results s; trace := trace s |}.
Definition set_cpcv (v : cpc) (s : state) : state :=
  {| cfgTT := cfgTT s; cfgBook := cfgBook s; cfgBookOk := cfgBookOk s; calls := calls s; done := done s; cpcv := v; cidx := cidx s; runFree := runFree s; initFree := initFree s; panicked := panicked s; toks := toks s; stopPtr := stopPtr s; timeLimit := timeLimit s; extraTime := extraTime s; limitsVar := limitsVar s; curPos := curPos s; hasResult := hasResult s; lastResult := lastResult s; tt := tt s; book := book s; hist := hist s; outFree := outFree s; outHolder := outHolder s; outBuf := outBuf s; outErr := outErr s; outLines := outLines s; clock := clock s; srch := srch s; senders := senders s; timers := timers s; ntimers := ntimers s; starts := starts s; results := results s; trace := trace s |}.
Definition set_cidx (v : nat) (s : state) : state :=
  {| cfgTT := cfgTT s; cfgBook := cfgBook s; cfgBookOk := cfgBookOk s; calls := calls s; done := done s; cpcv := cpcv s; cidx := v; runFree := runFree s; initFree := initFree s; panicked := panicked s; toks := toks s; stopPtr := stopPtr s; timeLimit := timeLimit s; extraTime := extraTime s; limitsVar := limitsVar s; curPos := curPos s; hasResult := hasResult s; lastResult := lastResult s; tt := tt s; book := book s; hist := hist s; outFree := outFree s; outHolder := outHolder s; outBuf := outBuf s; outErr := outErr s; outLines := outLines s; clock := clock s; srch := srch s; senders := senders s; timers := timers s; ntimers := ntimers s; starts := starts s; results := results s; trace := trace s |}.
Definition set_runFree (v : bool) (s : state) : state :=
  {| cfgTT := cfgTT s; cfgBook := cfgBook s; cfgBookOk := cfgBookOk s; calls := calls s; done := done s; cpcv := cpcv s; cidx := cidx s; runFree := v; initFree := initFree s; panicked := panicked s; toks := toks s; stopPtr := stopPtr s; timeLimit := timeLimit s; extraTime := extraTime s; limitsVar := limitsVar s; curPos := curPos s; hasResult := hasResult s; lastResult := lastResult s; tt := tt s; book := book s; hist := hist s; outFree := outFree s; outHolder := outHolder s; outBuf := outBuf s; outErr := outErr s; outLines := outLines s; clock := clock s; srch := srch s; senders := senders s; timers := timers s; ntimers := ntimers s; starts := starts s; results := results s; trace := trace s |}.
Definition set_initFree (v : bool) (s : state) : state :=
  {| cfgTT := cfgTT s; cfgBook := cfgBook s; cfgBookOk := cfgBookOk s; calls := calls s; done := done s; cpcv := cpcv s; cidx := cidx s; runFree := runFree s; initFree := v; panicked := panicked s; toks := toks s; stopPtr := stopPtr s; timeLimit := timeLimit s; extraTime := extraTime s; limitsVar := limitsVar s; curPos := curPos s; hasResult := hasResult s; lastResult := lastResult s; tt := tt s; book := book s; hist := hist s; outFree := outFree s; outHolder := outHolder s; outBuf := outBuf s; outErr := outErr s; outLines := outLines s; clock := clock s; srch := srch s; senders := senders s; timers := timers s; ntimers := ntimers s; starts := starts s; results := results s; trace := trace s |}.
Definition set_panicked (v : bool) (s : state) : state :=
  {| cfgTT := cfgTT s; cfgBook := cfgBook s; cfgBookOk := cfgBookOk s; calls := calls s; done := done s; cpcv := cpcv s; cidx := cidx s; runFree := runFree s; initFree := initFree s; panicked := v; toks := toks s; stopPtr := stopPtr s; timeLimit := timeLimit s; extraTime := extraTime s; limitsVar := limitsVar s; curPos := curPos s; hasResult := hasResult s; lastResult := lastResult s; tt := tt s; book := book s; hist := hist s; outFree := outFree s; outHolder := outHolder s; outBuf := outBuf s; outErr := outErr s; outLines := outLines s; clock := clock s; srch := srch s; senders := senders s; timers := timers s; ntimers := ntimers s; starts := starts s; results := results s; trace := trace s |}.
Definition set_toks (v : list (option reason)) (s : state) : state :=
  {| cfgTT := cfgTT s; cfgBook := cfgBook s; cfgBookOk := cfgBookOk s; calls := calls s; done := done s; cpcv := cpcv s; cidx := cidx s; runFree := runFree s; initFree := initFree s; panicked := panicked s; toks := v; stopPtr := stopPtr s; timeLimit := timeLimit s; extraTime := extraTime s; limitsVar := limitsVar s; curPos := curPos s; hasResult := hasResult s; lastResult := lastResult s; tt := tt s; book := book s; hist := hist s; outFree := outFree s; outHolder := outHolder s; outBuf := outBuf s; outErr := outErr s; outLines := outLines s; clock := clock s; srch := srch s; senders := senders s; timers := timers s; ntimers := ntimers s; starts := starts s; results := results s; trace := trace s |}.
Definition set_stopPtr (v : nat) (s : state) : state :=
  {| cfgTT := cfgTT s; cfgBook := cfgBook s; cfgBookOk := cfgBookOk s; calls := calls s; done := done s; cpcv := cpcv s; cidx := cidx s; runFree := runFree s; initFree := initFree s; panicked := panicked s; toks := toks s; stopPtr := v; timeLimit := timeLimit s; extraTime := extraTime s; limitsVar := limitsVar s; curPos := curPos s; hasResult := hasResult s; lastResult := lastResult s; tt := tt s; book := book s; hist := hist s; outFree := outFree s; outHolder := outHolder s; outBuf := outBuf s; outErr := outErr s; outLines := outLines s; clock := clock s; srch := srch s; senders := senders s; timers := timers s; ntimers := ntimers s; starts := starts s; results := results s; trace := trace s |}.
Definition set_timeLimit (v : nat) (s : state) : state :=
  {| cfgTT := cfgTT s; cfgBook := cfgBook s; cfgBookOk := cfgBookOk s; calls := calls s; done := done s; cpcv := cpcv s; cidx := cidx s; runFree := runFree s; initFree := initFree s; panicked := panicked s; toks := toks s; stopPtr := stopPtr s; timeLimit := v; extraTime := extraTime s; limitsVar := limitsVar s; curPos := curPos s; hasResult := hasResult s; lastResult := lastResult s; tt := tt s; book := book s; hist := hist s; outFree := outFree s; outHolder := outHolder s; outBuf := outBuf s; outErr := outErr s; outLines := outLines s; clock := clock s; srch := srch s; senders := senders s; timers := timers s; ntimers := ntimers s; starts := starts s; results := results s; trace := trace s |}.
Definition set_extraTime (v : nat) (s : state) : state :=
  {| cfgTT := cfgTT s; cfgBook := cfgBook s; cfgBookOk := cfgBookOk s; calls := calls s; done := done s; cpcv := cpcv s; cidx := cidx s; runFree := runFree s; initFree := initFree s; panicked := panicked s; toks := toks s; stopPtr := stopPtr s; timeLimit := timeLimit s; extraTime := v; limitsVar := limitsVar s; curPos := curPos s; hasResult := hasResult s; lastResult := lastResult s; tt := tt s; book := book s; hist := hist s; outFree := outFree s; outHolder := outHolder s; outBuf := outBuf s; outErr := outErr s; outLines := outLines s; clock := clock s; srch := srch s; senders := senders s; timers := timers s; ntimers := ntimers s; starts := starts s; results := results s; trace := trace s |}.
Definition set_limitsVar (v : option limits) (s : state) : state :=
  {| cfgTT := cfgTT s; cfgBook := cfgBook s; cfgBookOk := cfgBookOk s; calls := calls s; done := done s; cpcv := cpcv s; cidx := cidx s; runFree := runFree s; initFree := initFree s; panicked := panicked s; toks := toks s; stopPtr := stopPtr s; timeLimit := timeLimit s; extraTime := extraTime s; limitsVar := v; curPos := curPos s; hasResult := hasResult s; lastResult := lastResult s; tt := tt s; book := book s; hist := hist s; outFree := outFree s; outHolder := outHolder s; outBuf := outBuf s; outErr := outErr s; outLines := outLines s; clock := clock s; srch := srch s; senders := senders s; timers := timers s; ntimers := ntimers s; starts := starts s; results := results s; trace := trace s |}.
Definition set_curPos (v : nat) (s : state) : state :=
  {| cfgTT := cfgTT s; cfgBook := cfgBook s; cfgBookOk := cfgBookOk s; calls := calls s; done := done s; cpcv := cpcv s; cidx := cidx s; runFree := runFree s; initFree := initFree s; panicked := panicked s; toks := toks s; stopPtr := stopPtr s; timeLimit := timeLimit s; extraTime := extraTime s; limitsVar := limitsVar s; curPos := v; hasResult := hasResult s; lastResult := lastResult s; tt := tt s; book := book s; hist := hist s; outFree := outFree s; outHolder := outHolder s; outBuf := outBuf s; outErr := outErr s; outLines := outLines s; clock := clock s; srch := srch s; senders := senders s; timers := timers s; ntimers := ntimers s; starts := starts s; results := results s; trace := trace s |}.
Definition set_hasResult (v : bool) (s : state) : state :=
  {| cfgTT := cfgTT s; cfgBook := cfgBook s; cfgBookOk := cfgBookOk s; calls := calls s; done := done s; cpcv := cpcv s; cidx := cidx s; runFree := runFree s; initFree := initFree s; panicked := panicked s; toks := toks s; stopPtr := stopPtr s; timeLimit := timeLimit s; extraTime := extraTime s; limitsVar := limitsVar s; curPos := curPos s; hasResult := v; lastResult := lastResult s; tt := tt s; book := book s; hist := hist s; outFree := outFree s; outHolder := outHolder s; outBuf := outBuf s; outErr := outErr s; outLines := outLines s; clock := clock s; srch := srch s; senders := senders s; timers := timers s; ntimers := ntimers s; starts := starts s; results := results s; trace := trace s |}.
Definition set_lastResult (v : nat) (s : state) : state :=
  {| cfgTT := cfgTT s; cfgBook := cfgBook s; cfgBookOk := cfgBookOk s; calls := calls s; done := done s; cpcv := cpcv s; cidx := cidx s; runFree := runFree s; initFree := initFree s; panicked := panicked s; toks := toks s; stopPtr := stopPtr s; timeLimit := timeLimit s; extraTime := extraTime s; limitsVar := limitsVar s; curPos := curPos s; hasResult := hasResult s; lastResult := v; tt := tt s; book := book s; hist := hist s; outFree := outFree s; outHolder := outHolder s; outBuf := outBuf s; outErr := outErr s; outLines := outLines s; clock := clock s; srch := srch s; senders := senders s; timers := timers s; ntimers := ntimers s; starts := starts s; results := results s; trace := trace s |}.
Definition set_tt (v : bool) (s : state) : state :=
  {| cfgTT := cfgTT s; cfgBook := cfgBook s; cfgBookOk := cfgBookOk s; calls := calls s; done := done s; cpcv := cpcv s; cidx := cidx s; runFree := runFree s; initFree := initFree s; panicked := panicked s; toks := toks s; stopPtr := stopPtr s; timeLimit := timeLimit s; extraTime := extraTime s; limitsVar := limitsVar s; curPos := curPos s; hasResult := hasResult s; lastResult := lastResult s; tt := v; book := book s; hist := hist s; outFree := outFree s; outHolder := outHolder s; outBuf := outBuf s; outErr := outErr s; outLines := outLines s; clock := clock s; srch := srch s; senders := senders s; timers := timers s; ntimers := ntimers s; starts := starts s; results := results s; trace := trace s |}.
Definition set_book (v : bool) (s : state) : state :=
  {| cfgTT := cfgTT s; cfgBook := cfgBook s; cfgBookOk := cfgBookOk s; calls := calls s; done := done s; cpcv := cpcv s; cidx := cidx s; runFree := runFree s; initFree := initFree s; panicked := panicked s; toks := toks s; stopPtr := stopPtr s; timeLimit := timeLimit s; extraTime := extraTime s; limitsVar := limitsVar s; curPos := curPos s; hasResult := hasResult s; lastResult := lastResult s; tt := tt s; book := v; hist := hist s; outFree := outFree s; outHolder := outHolder s; outBuf := outBuf s; outErr := outErr s; outLines := outLines s; clock := clock s; srch := srch s; senders := senders s; timers := timers s; ntimers := ntimers s; starts := starts s; results := results s; trace := trace s |}.
Definition set_hist (v : nat) (s : state) : state :=
  {| cfgTT := cfgTT s; cfgBook := cfgBook s; cfgBookOk := cfgBookOk s; calls := calls s; done := done s; cpcv := cpcv s; cidx := cidx s; runFree := runFree s; initFree := initFree s; panicked := panicked s; toks := toks s; stopPtr := stopPtr s; timeLimit := timeLimit s; extraTime := extraTime s; limitsVar := limitsVar s; curPos := curPos s; hasResult := hasResult s; lastResult := lastResult s; tt := tt s; book := book s; hist := v; outFree := outFree s; outHolder := outHolder s; outBuf := outBuf s; outErr := outErr s; outLines := outLines s; clock := clock s; srch := srch s; senders := senders s; timers := timers s; ntimers := ntimers s; starts := starts s; results := results s; trace := trace s |}.
Definition set_outFree (v : bool) (s : state) : state :=
  {| cfgTT := cfgTT s; cfgBook := cfgBook s; cfgBookOk := cfgBookOk s; calls := calls s; done := done s; cpcv := cpcv s; cidx := cidx s; runFree := runFree s; initFree := initFree s; panicked := panicked s; toks := toks s; stopPtr := stopPtr s; timeLimit := timeLimit s; extraTime := extraTime s; limitsVar := limitsVar s; curPos := curPos s; hasResult := hasResult s; lastResult := lastResult s; tt := tt s; book := book s; hist := hist s; outFree := v; outHolder := outHolder s; outBuf := outBuf s; outErr := outErr s; outLines := outLines s; clock := clock s; srch := srch s; senders := senders s; timers := timers s; ntimers := ntimers s; starts := starts s; results := results s; trace := trace s |}.
Definition set_outHolder (v : option thr) (s : state) : state :=
  {| cfgTT := cfgTT s; cfgBook := cfgBook s; cfgBookOk := cfgBookOk s; calls := calls s; done := done s; cpcv := cpcv s; cidx := cidx s; runFree := runFree s; initFree := initFree s; panicked := panicked s; toks := toks s; stopPtr := stopPtr s; timeLimit := timeLimit s; extraTime := extraTime s; limitsVar := limitsVar s; curPos := curPos s; hasResult := hasResult s; lastResult := lastResult s; tt := tt s; book := book s; hist := hist s; outFree := outFree s; outHolder := v; outBuf := outBuf s; outErr := outErr s; outLines := outLines s; clock := clock s; srch := srch s; senders := senders s; timers := timers s; ntimers := ntimers s; starts := starts s; results := results s; trace := trace s |}.
Definition set_outBuf (v : list line) (s : state) : state :=
  {| cfgTT := cfgTT s; cfgBook := cfgBook s; cfgBookOk := cfgBookOk s; calls := calls s; done := done s; cpcv := cpcv s; cidx := cidx s; runFree := runFree s; initFree := initFree s; panicked := panicked s; toks := toks s; stopPtr := stopPtr s; timeLimit := timeLimit s; extraTime := extraTime s; limitsVar := limitsVar s; curPos := curPos s; hasResult := hasResult s; lastResult := lastResult s; tt := tt s; book := book s; hist := hist s; outFree := outFree s; outHolder := outHolder s; outBuf := v; outErr := outErr s; outLines := outLines s; clock := clock s; srch := srch s; senders := senders s; timers := timers s; ntimers := ntimers s; starts := starts s; results := results s; trace := trace s |}.
Definition set_outErr (v : bool) (s : state) : state :=
  {| cfgTT := cfgTT s; cfgBook := cfgBook s; cfgBookOk := cfgBookOk s; calls := calls s; done := done s; cpcv := cpcv s; cidx := cidx s; runFree := runFree s; initFree := initFree s; panicked := panicked s; toks := toks s; stopPtr := stopPtr s; timeLimit := timeLimit s; extraTime := extraTime s; limitsVar := limitsVar s; curPos := curPos s; hasResult := hasResult s; lastResult := lastResult s; tt := tt s; book := book s; hist := hist s; outFree := outFree s; outHolder := outHolder s; outBuf := outBuf s; outErr := v; outLines := outLines s; clock := clock s; srch := srch s; senders := senders s; timers := timers s; ntimers := ntimers s; starts := starts s; results := results s; trace := trace s |}.
Definition set_outLines (v : list line) (s : state) : state :=
  {| cfgTT := cfgTT s; cfgBook := cfgBook s; cfgBookOk := cfgBookOk s; calls := calls s; done := done s; cpcv := cpcv s; cidx := cidx s; runFree := runFree s; initFree := initFree s; panicked := panicked s; toks := toks s; stopPtr := stopPtr s; timeLimit := timeLimit s; extraTime := extraTime s; limitsVar := limitsVar s; curPos := curPos s; hasResult := hasResult s; lastResult := lastResult s; tt := tt s; book := book s; hist := hist s; outFree := outFree s; outHolder := outHolder s; outBuf := outBuf s; outErr := outErr s; outLines := v; clock := clock s; srch := srch s; senders := senders s; timers := timers s; ntimers := ntimers s; starts := starts s; results := results s; trace := trace s |}.
Definition set_clock (v : nat) (s : state) : state :=
  {| cfgTT := cfgTT s; cfgBook := cfgBook s; cfgBookOk := cfgBookOk s; calls := calls s; done := done s; cpcv := cpcv s; cidx := cidx s; runFree := runFree s; initFree := initFree s; panicked := panicked s; toks := toks s; stopPtr := stopPtr s; timeLimit := timeLimit s; extraTime := extraTime s; limitsVar := limitsVar s; curPos := curPos s; hasResult := hasResult s; lastResult := lastResult s; tt := tt s; book := book s; hist := hist s; outFree := outFree s; outHolder := outHolder s; outBuf := outBuf s; outErr := outErr s; outLines := outLines s; clock := v; srch := srch s; senders := senders s; timers := timers s; ntimers := ntimers s; starts := starts s; results := results s; trace := trace s |}.
Definition set_srch (v : list sthread) (s : state) : state :=
  {| cfgTT := cfgTT s; cfgBook := cfgBook s; cfgBookOk := cfgBookOk s; calls := calls s; done := done s; cpcv := cpcv s; cidx := cidx s; runFree := runFree s; initFree := initFree s; panicked := panicked s; toks := toks s; stopPtr := stopPtr s; timeLimit := timeLimit s; extraTime := extraTime s; limitsVar := limitsVar s; curPos := curPos s; hasResult := hasResult s; lastResult := lastResult s; tt := tt s; book := book s; hist := hist s; outFree := outFree s; outHolder := outHolder s; outBuf := outBuf s; outErr := outErr s; outLines := outLines s; clock := clock s; srch := v; senders := senders s; timers := timers s; ntimers := ntimers s; starts := starts s; results := results s; trace := trace s |}.
Definition set_senders (v : list sthread) (s : state) : state :=
  {| cfgTT := cfgTT s; cfgBook := cfgBook s; cfgBookOk := cfgBookOk s; calls := calls s; done := done s; cpcv := cpcv s; cidx := cidx s; runFree := runFree s; initFree := initFree s; panicked := panicked s; toks := toks s; stopPtr := stopPtr s; timeLimit := timeLimit s; extraTime := extraTime s; limitsVar := limitsVar s; curPos := curPos s; hasResult := hasResult s; lastResult := lastResult s; tt := tt s; book := book s; hist := hist s; outFree := outFree s; outHolder := outHolder s; outBuf := outBuf s; outErr := outErr s; outLines := outLines s; clock := clock s; srch := srch s; senders := v; timers := timers s; ntimers := ntimers s; starts := starts s; results := results s; trace := trace s |}.
Definition set_timers (v : list tthread) (s : state) : state :=
  {| cfgTT := cfgTT s; cfgBook := cfgBook s; cfgBookOk := cfgBookOk s; calls := calls s; done := done s; cpcv := cpcv s; cidx := cidx s; runFree := runFree s; initFree := initFree s; panicked := panicked s; toks := toks s; stopPtr := stopPtr s; timeLimit := timeLimit s; extraTime := extraTime s; limitsVar := limitsVar s; curPos := curPos s; hasResult := hasResult s; lastResult := lastResult s; tt := tt s; book := book s; hist := hist s; outFree := outFree s; outHolder := outHolder s; outBuf := outBuf s; outErr := outErr s; outLines := outLines s; clock := clock s; srch := srch s; senders := senders s; timers := v; ntimers := ntimers s; starts := starts s; results := results s; trace := trace s |}.
Definition set_ntimers (v : nat) (s : state) : state :=
  {| cfgTT := cfgTT s; cfgBook := cfgBook s; cfgBookOk := cfgBookOk s; calls := calls s; done := done s; cpcv := cpcv s; cidx := cidx s; runFree := runFree s; initFree := initFree s; panicked := panicked s; toks := toks s; stopPtr := stopPtr s; timeLimit := timeLimit s; extraTime := extraTime s; limitsVar := limitsVar s; curPos := curPos s; hasResult := hasResult s; lastResult := lastResult s; tt := tt s; book := book s; hist := hist s; outFree := outFree s; outHolder := outHolder s; outBuf := outBuf s; outErr := outErr s; outLines := outLines s; clock := clock s; srch := srch s; senders := senders s; timers := timers s; ntimers := v; starts := starts s; results := results s; trace := trace s |}.
Definition set_starts (v : list (nat * nat * limits)) (s : state) : state :=
  {| cfgTT := cfgTT s; cfgBook := cfgBook s; cfgBookOk := cfgBookOk s; calls := calls s; done := done s; cpcv := cpcv s; cidx := cidx s; runFree := runFree s; initFree := initFree s; panicked := panicked s; toks := toks s; stopPtr := stopPtr s; timeLimit := timeLimit s; extraTime := extraTime s; limitsVar := limitsVar s; curPos := curPos s; hasResult := hasResult s; lastResult := lastResult s; tt := tt s; book := book s; hist := hist s; outFree := outFree s; outHolder := outHolder s; outBuf := outBuf s; outErr := outErr s; outLines := outLines s; clock := clock s; srch := srch s; senders := senders s; timers := timers s; ntimers := ntimers s; starts := v; results := results s; trace := trace s |}.
Definition set_results (v : list (nat * reason)) (s : state) : state :=
  {| cfgTT := cfgTT s; cfgBook := cfgBook s; cfgBookOk := cfgBookOk s; calls := calls s; done := done s; cpcv := cpcv s; cidx := cidx s; runFree := runFree s; initFree := initFree s; panicked := panicked s; toks := toks s; stopPtr := stopPtr s; timeLimit := timeLimit s; extraTime := extraTime s; limitsVar := limitsVar s; curPos := curPos s; hasResult := hasResult s; lastResult := lastResult s; tt := tt s; book := book s; hist := hist s; outFree := outFree s; outHolder := outHolder s; outBuf := outBuf s; outErr := outErr s; outLines := outLines s; clock := clock s; srch := srch s; senders := senders s; timers := timers s; ntimers := ntimers s; starts := starts s; results := v; trace := trace s |}.
Definition set_trace (v : list event) (s : state) : state :=
  {| cfgTT := cfgTT s; cfgBook := cfgBook s; cfgBookOk := cfgBookOk s; calls := calls s; done := done s; cpcv := cpcv s; cidx := cidx s; runFree := runFree s; initFree := initFree s; panicked := panicked s; toks := toks s; stopPtr := stopPtr s; timeLimit := timeLimit s; extraTime := extraTime s; limitsVar := limitsVar s; curPos := curPos s; hasResult := hasResult s; lastResult := lastResult s; tt := tt s; book := book s; hist := hist s; outFree := outFree s; outHolder := outHolder s; outBuf := outBuf s; outErr := outErr s; outLines := outLines s; clock := clock s; srch := srch s; senders := senders s; timers := timers s; ntimers := ntimers s; starts := starts s; results := results s; trace := v |}.

(** ** Helpers *)

(* stop tokens: index = token id; [None] = false, [Some r] = true, first set by r (ghost) *)
Definition tok_get (p : nat) (l : list (option reason)) : option reason :=
  match nth_error l p with Some x => x | None => None end.
Fixpoint tok_set (p : nat) (r : reason) (l : list (option reason)) : list (option reason) :=
  match l, p with
  | [], _ => []
  | x :: l', 0 => (match x with None => Some r | Some _ => x end) :: l'
  | x :: l', S p' => x :: tok_set p' r l'
  end.

Definition find_s (n : nat) (l : list sthread) : option sthread := find (fun x => sid x =? n) l.
Definition put_s (th : sthread) (l : list sthread) : list sthread :=
  map (fun x => if sid x =? sid th then th else x) l.
Definition del_s (n : nat) (l : list sthread) : list sthread := filter (fun x => negb (sid x =? n)) l.
Definition find_t (k : nat) (l : list tthread) : option tthread := find (fun x => tmid x =? k) l.
Definition put_t (th : tthread) (l : list tthread) : list tthread :=
  map (fun x => if tmid x =? tmid th then th else x) l.
Definition del_t (k : nat) (l : list tthread) : list tthread := filter (fun x => negb (tmid x =? k)) l.

Definition set_spc (pc : spc) (th : sthread) : sthread :=
  {| sid := sid th; spcv := pc; slim := slim th; sreason := sreason th; sextra := sextra th |}.
Definition set_sreason (r : option reason) (th : sthread) : sthread :=
  {| sid := sid th; spcv := spcv th; slim := slim th; sreason := r; sextra := sextra th |}.
Definition set_sextra (b : bool) (th : sthread) : sthread :=
  {| sid := sid th; spcv := spcv th; slim := slim th; sreason := sreason th; sextra := b |}.
Definition set_tpc (pc : tpc) (th : tthread) : tthread :=
  {| tmid := tmid th; ttok := ttok th; tcreator := tcreator th; tpcv := pc; t0 := t0 th; tnow := tnow th; ttl := ttl th |}.

Definition cur_call (s : state) : option call := hd_error (calls s).

(* semaphore.Weighted.Release (x/sync semaphore.go): panics when more is released than held *)
Definition rel_run (s : state) : state :=
  if runFree s then s |> set_panicked true else s |> set_runFree true.
Definition rel_init (s : state) : state :=
  if initFree s then s |> set_panicked true else s |> set_initFree true.

(* sync.Mutex.Unlock of an unlocked mutex is a fatal error *)
Definition rel_out (s : state) : state :=
  if outFree s then s |> set_panicked true else s |> set_outFree true |> set_outHolder None.
Definition acq_out (who : thr) (s : state) : state := s |> set_outFree false |> set_outHolder (Some who).

Definition new_timer (p : nat) (cr : creator) (s : state) : state :=
  s |> set_timers (mkT (ntimers s) p cr TmStart 0 0 0 :: timers s) |> set_ntimers (S (ntimers s)).

(* bufio.Writer, three stages of uci.go:658-659 (executed while holding sendLock) *)
Definition out_stage1 (ln : line) (s : state) : state :=      (* WriteString: if b.err != nil return; copy; b.n += len *)
  if outErr s then s else s |> set_outBuf (outBuf s ++ [ln]).
Definition out_stage2 (s : state) : state * nat :=            (* Flush: if b.err != nil return; if b.n == 0 return; wr.Write(buf[0:n]) *)
  if outErr s then (s, length (outBuf s))
  else (s |> set_outLines (outLines s ++ outBuf s), length (outBuf s)).
Definition out_stage3 (k : nat) (s : state) : state :=          (* if n < b.n -> ErrShortWrite sticky; else b.n = 0 *)
  if outErr s then s
  else if k <? length (outBuf s) then s |> set_outErr true |> set_outBuf (skipn k (outBuf s))
  else s |> set_outBuf [].

Definition emit (e : event) (s : state) : state := s |> set_trace (e :: trace s).
Definition emit_opt (e : option event) (s : state) : state :=
  match e with Some e => emit e s | None => s end.

(** ** Controller steps *)

(* pc after initialize() returned: IsReady -> SendReadyOk (226), ResizeCache -> 261 *)
Definition after_init_c (c : call) : cpc :=
  match c with
  | CResize => CRzTT
  | _ => CSend0 LReady None
  end.

Definition cstep (s : state) : option state :=
  match cur_call s with
  | None => None                                     (* all calls done *)
  | Some c =>
    match cpcv s with
    | CIdle =>                                       (* uci.go:204 dispatch; no shared access; ghost: ECall *)
        Some (s |> emit (ECall (cidx s))
                |> set_cpcv (match c with
                            | CStart _ => CStTry
                            | CStop | CNewGame => CSpPtr
                            | CWait => CWAcq
                            | CIsSearching | CPonderHit | CClearHash | CResize => CIsTry
                            | CIsReady => CInBook
                            end))
    | CStTry =>                                      (* search.go:147 *)
        match c with
        | CStart l =>
          if runFree s
          then Some (s |> set_runFree false |> set_starts ((S (stopPtr s), cidx s, l) :: starts s) |> set_cpcv CStAcqInit)
          else Some (s |> set_cpcv (CRet (Some EStartRejected)))       (* 148-149 *)
        | _ => None
        end
    | CStAcqInit =>                                  (* 152 *)
        if initFree s then Some (s |> set_initFree false |> set_cpcv CStPos) else None
    | CStPos =>                                      (* 154 *)
        Some (s |> set_curPos (S (stopPtr s)) |> set_cpcv CStLim)
    | CStLim =>                                      (* 155 *)
        match c with
        | CStart l => Some (s |> set_limitsVar (Some l) |> set_cpcv CStTok)
        | _ => None
        end
    | CStTok =>                                      (* 158 *)
        Some (s |> set_stopPtr (length (toks s)) |> set_toks (toks s ++ [None]) |> set_cpcv CStGo)
    | CStGo =>                                       (* 160 *)
        match c with
        | CStart l => Some (s |> set_srch (mkS (stopPtr s) SHasRes0 l None false :: srch s) |> set_cpcv CStWait)
        | _ => None
        end
    | CStWait =>                                     (* 163 *)
        if initFree s then Some (s |> set_initFree false |> set_cpcv CStRel) else None
    | CStRel =>                                      (* 164 *)
        Some (rel_init s |> set_cpcv (CRet (Some (EStartReturned (stopPtr s)))))
    | CSpPtr =>                                      (* 171 *)
        Some (s |> set_cpcv (CSpStore (stopPtr s)))
    | CSpStore p =>                                  (* 171 *)
        Some (s |> set_toks (tok_set p (RStop (cidx s)) (toks s)) |> set_cpcv CWAcq)
    | CWAcq =>                                       (* 202 *)
        if runFree s then Some (s |> set_runFree false |> set_cpcv CWRel) else None
    | CWRel =>                                       (* 203 *)
        Some (rel_run s |> set_cpcv (match c with
                                    | CNewGame => CNgTT
                                    | CWait => CRet (Some EWaitReturned)
                                    | _ => CRet (Some EStopReturned)
                                    end))
    | CNgTT =>                                       (* 134-136 *)
        Some (s |> set_cpcv CNgHist)
    | CNgHist =>                                     (* 137 *)
        Some (s |> set_hist (S (hist s)) |> set_cpcv (CRet (Some ENewGameReturned)))
    | CIsTry =>                                      (* 191 *)
        if runFree s then Some (s |> set_runFree false |> set_cpcv CIsRel)
        else Some (s |> set_cpcv (match c with                         (* 192: return true *)
                                 | CPonderHit => CPhLim                                  (* 181 *)
                                 | CClearHash => CSend0 LInfo (Some (EClearHash true))   (* 236-237 *)
                                 | CResize => CSend0 LInfo (Some (EResizeHash true))     (* 251-252 *)
                                 | _ => CRet (Some (EIsSearching true))
                                 end))
    | CIsRel =>                                      (* 194-195: return false *)
        Some (rel_run s |> set_cpcv (match c with
                                    | CPonderHit => CRet (Some EPonderHitReturned)       (* 186 *)
                                    | CClearHash => CChTT                                (* 241 *)
                                    | CResize => CRzNil                                  (* 257 *)
                                    | _ => CRet (Some (EIsSearching false))
                                    end))
    | CPhLim =>                                      (* 181 s.searchLimits.Ponder *)
        match limitsVar s with
        | None => Some (s |> set_panicked true)      (* nil dereference *)
        | Some l => Some (s |> set_cpcv (if lPonder l then CPhPtr else CRet (Some EPonderHitReturned)))
        end
    | CPhPtr =>                                      (* 717 *)
        Some (s |> set_cpcv (CPhGo (stopPtr s)))
    | CPhGo p =>                                     (* 718 *)
        Some (new_timer p (ByPonderHit (cidx s)) s |> set_cpcv (CRet (Some EPonderHitReturned)))
    | CInBook =>                                     (* 562-563 *)
        Some (s |> set_cpcv (if cfgBook s then (if book s then CInTT else CInBookW) else CInTT))
    | CInBookW =>                                    (* 564-575 *)
        Some (s |> set_book (cfgBookOk s) |> set_cpcv CInTT)
    | CInTT =>                                       (* 583-584 *)
        Some (s |> set_cpcv (if cfgTT s then (if tt s then after_init_c c else CInTTW) else after_init_c c))
    | CInTTW =>                                      (* 589 *)
        Some (s |> set_tt true |> set_cpcv (after_init_c c))
    | CChTT =>                                       (* 241-243 *)
        Some (s |> set_cpcv (if tt s then CSend0 LInfo (Some (EClearHash false)) else CRet (Some (EClearHash false))))
    | CRzNil =>                                      (* 257 *)
        Some (s |> set_tt false |> set_cpcv CInBook)
    | CRzTT =>                                       (* 261-262 *)
        Some (s |> set_cpcv (if tt s then CSend0 LInfo (Some (EResizeHash false)) else CRet (Some (EResizeHash false))))
    | CSend0 ln ret =>                               (* uci.go:655 Lock *)
        if outFree s then Some (acq_out ThCtl s |> set_cpcv (CSend1 ln ret)) else None
    | CSend1 ln ret =>                               (* uci.go:658; the line is handed over here *)
        Some (out_stage1 ln s |> (match ln with LReady => emit EReadyOk | _ => fun x => x end) |> set_cpcv (CSend2 ret))
    | CSend2 ret =>                                  (* uci.go:659 *)
        let (s', k) := out_stage2 s in Some (s' |> set_cpcv (CSend3 k ret))
    | CSend3 k ret =>
        Some (out_stage3 k s |> set_cpcv (CSend4 ret))
    | CSend4 ret =>                                  (* uci.go:656 Unlock *)
        Some (rel_out s |> set_cpcv (CRet ret))
    | CRet ret =>
        Some (emit_opt ret s |> set_calls (tl (calls s)) |> set_done (c :: done s) |> set_cidx (S (cidx s)) |> set_cpcv CIdle)
    end
  end.

(** ** Search goroutine steps *)

Inductive choice :=
| Go        (* the ordinary next statement *)
| Finish    (* at SLoop: iterativeDeepening returns by itself *)
| Nodes     (* at SPollLim: the node limit is found exceeded (stopConditions) *)
| Info      (* at SLoop: an info line is sent *)
| Extra.    (* at SLoop: addExtraTime (search.go:466-471), once *)

Definition upd_s (th : sthread) (s : state) : state := s |> set_srch (put_s th (srch s)).
Definition goto_s (pc : spc) (th : sthread) (s : state) : option state := Some (upd_s (set_spc pc th) s).

Definition after_init_s (th : sthread) : spc :=      (* setupSearchLimits 620 *)
  if lTimeControl (slim th) then SSetTL else SLimTimer.

Definition result_reason (th : sthread) : reason :=
  match sreason th with Some r => r | None => RSelf end.

Definition sstep (s : state) (th : sthread) (c : choice) : option state :=
  match spcv th, c with
  | SHasRes0, Go => goto_s STL0 th (s |> set_hasResult false)                    (* 286 *)
  | STL0, Go => goto_s SET0 th (s |> set_timeLimit 0)                            (* 287 *)
  | SET0, Go => goto_s SInBook th (s |> set_extraTime 0)                         (* 288 *)
  | SInBook, Go =>                                                               (* 562-563 *)
      goto_s (if cfgBook s then (if book s then SInTT else SInBookW) else SInTT) th s
  | SInBookW, Go => goto_s SInTT th (s |> set_book (cfgBookOk s))                (* 564-575 *)
  | SInTT, Go =>                                                                 (* 583-584 *)
      goto_s (if cfgTT s then (if tt s then after_init_s th else SInTTW) else after_init_s th) th s
  | SInTTW, Go => goto_s (after_init_s th) th (s |> set_tt true)                 (* 589 *)
  | SSetTL, Go => goto_s SSetET th (s |> set_timeLimit (lTime (slim th)))        (* 621 *)
  | SSetET, Go => goto_s SLimTimer th (s |> set_extraTime 0)                     (* 622 *)
  | SLimTimer, Go =>                                                             (* run: TimeControl && !Ponder && !Infinite *)
      match limitsVar s with
      | None => Some (s |> set_panicked true)
      | Some l => goto_s (if lTimeControl l && negb (lPonder l) && negb (lInfinite l) then STimerPtr else SBook) th s
      end
  | STimerPtr, Go => goto_s (STimerGo (stopPtr s)) th s                          (* 717 *)
  | STimerGo p, Go => goto_s SBook th (new_timer p (ByRun (sid th)) s)           (* 718 *)
  | SBook, Go => goto_s STTAge th s                                              (* 305 *)
  | STTAge, Go => goto_s SHist th s                                              (* 318-320 *)
  | SHist, Go => goto_s SRelInit th s                                            (* 331 *)
  | SRelInit, Go => goto_s SLoop th (rel_init s)                                 (* 339 *)
  | SLoop, Go => goto_s SPollPtr th s
  | SLoop, Finish => Some (upd_s (th |> set_sreason None |> set_spc SWaitLim) s)
  | SLoop, Info => goto_s SInfo0 th s
  | SLoop, Extra => if lExtra (slim th) && negb (sextra th) then goto_s SExtra1 th s else None
  | SPollPtr, Go => goto_s (SPollTok (stopPtr s)) th s                           (* 599 *)
  | SPollTok p, Go =>                                                            (* 599 *)
      match tok_get p (toks s) with
      | Some r => Some (upd_s (th |> set_sreason (Some r) |> set_spc SWaitLim) s)
      | None => goto_s SPollLim th s
      end
  | SPollLim, Go =>                                                              (* 616 false: stopConditions returns false *)
      match limitsVar s with
      | None => Some (s |> set_panicked true)
      | Some _ => goto_s SNodeTT th s
      end
  | SPollLim, Nodes =>                                                           (* 616 true: the search ends by its node limit *)
      match limitsVar s with
      | None => Some (s |> set_panicked true)
      | Some l => if lNodes l then Some (upd_s (th |> set_sreason (Some RNodes) |> set_spc SWaitLim) s) else None
      end
  | SNodeTT, Go => goto_s SNodeHist th s                                         (* alphabeta.go:233 *)
  | SNodeHist, Go => goto_s SLoop th s                                           (* alphabeta.go:688 *)
  | SInfo0, Go => if outFree s then goto_s SInfo1 th (acq_out (ThSearch (sid th)) s) else None   (* uci.go:655 Lock *)
  | SInfo1, Go => goto_s SInfo2 th (out_stage1 LInfo s)                          (* uci.go:658 *)
  | SInfo2, Go => let (s', k) := out_stage2 s in goto_s (SInfo3 k) th s'         (* uci.go:659 *)
  | SInfo3 k, Go => goto_s SInfo4 th (out_stage3 k s)
  | SInfo4, Go => goto_s SLoop th (rel_out s)                                    (* uci.go:656 Unlock *)
  | SExtra1, Go => goto_s (SExtra2 (timeLimit s)) th s                           (* 704 *)
  | SExtra2 tl, Go => goto_s (SExtra3 (extraTime s + tl)) th s                   (* 705 *)
  | SExtra3 v, Go => Some (upd_s (th |> set_sextra true |> set_spc SLoop) (s |> set_extraTime v))   (* 705 *)
  | SWaitLim, Go =>                                                              (* 356 / 359 *)
      match limitsVar s with
      | None => Some (s |> set_panicked true)
      | Some l => goto_s (if lPonder l || lInfinite l then SWaitPtr else SLastRes) th s
      end
  | SWaitPtr, Go => goto_s (SWaitTok (stopPtr s)) th s                           (* 356 / 359 *)
  | SWaitTok p, Go =>                                                            (* 356 / 359, 360 Sleep *)
      match tok_get p (toks s) with
      | Some r => Some (upd_s (th |> set_sreason (Some r) |> set_spc SLastRes) s)
      | None => goto_s SWaitLim th s
      end
  | SLastRes, Go => goto_s SHasRes1 th (s |> set_lastResult (sid th))            (* 380 *)
  | SHasRes1, Go => goto_s SEndPtr th (s |> set_hasResult true)                  (* 381 *)
  | SEndPtr, Go => goto_s (SEndStore (stopPtr s)) th s                           (* 386 *)
  | SEndStore p, Go => goto_s SRelRun th (s |> set_toks (tok_set p REnd (toks s))) (* stopFlag.Store(true) at the end of run *)
  | SRelRun, Go =>                                                               (* released = true; isRunning.Release(1) *)
      Some (rel_run s |> set_srch (del_s (sid th) (srch s)) |> set_senders (set_spc SRes0 th :: senders s))
  | _, _ => None
  end.

(** ** Search goroutine after its Release: sendResult (search.go sendResult, uci.go:163-171, send 655-659) *)

Definition upd_n (th : sthread) (s : state) : state := s |> set_senders (put_s th (senders s)).

Definition nstep (s : state) (th : sthread) : option state :=
  match spcv th with
  | SRes0 => if outFree s then Some (upd_n (set_spc SRes1 th) (acq_out (ThSearch (sid th)) s)) else None    (* uci.go:655 Lock *)
  | SRes1 =>                                                                     (* uci.go:658; the line is handed over here *)
      Some (upd_n (set_spc SRes2 th) (out_stage1 (LBest (sid th)) s
                                      |> set_results ((sid th, result_reason th) :: results s)
                                      |> emit (EResult (sid th))))
  | SRes2 => let (s', k) := out_stage2 s in Some (upd_n (set_spc (SRes3 k) th) s')    (* uci.go:659 *)
  | SRes3 k => Some (upd_n (set_spc SRes4 th) (out_stage3 k s))
  | SRes4 => Some (rel_out s |> set_senders (del_s (sid th) (senders s)))          (* uci.go:656 Unlock; goroutine ends *)
  | _ => None
  end.

(** ** Timer goroutine steps (search.go:718-734) *)

Definition upd_t (th : tthread) (s : state) : state := s |> set_timers (put_t th (timers s)).

Definition tstep (s : state) (th : tthread) : option state :=
  match tpcv th with
  | TmStart =>                                                                   (* 719 *)
      Some (upd_t {| tmid := tmid th; ttok := ttok th; tcreator := tcreator th; tpcv := TmTL;
                     t0 := clock s; tnow := tnow th; ttl := ttl th |} s)
  | TmTL =>                                                                      (* 723 *)
      Some (upd_t {| tmid := tmid th; ttok := ttok th; tcreator := tcreator th; tpcv := TmET;
                     t0 := t0 th; tnow := clock s; ttl := timeLimit s |} s)
  | TmET =>                                                                      (* 723 *)
      Some (upd_t (set_tpc (if tnow th - t0 th <? ttl th + extraTime s then TmTok else TmChk) th) s)
  | TmTok =>                                                                     (* 723 !stop.Load(), 724 *)
      Some (upd_t (set_tpc (match tok_get (ttok th) (toks s) with None => TmTL | Some _ => TmChk end) th) s)
  | TmChk =>                                                                     (* 726 *)
      match tok_get (ttok th) (toks s) with
      | Some _ => Some (s |> set_timers (del_t (tmid th) (timers s)))           (* 727: stopped early; goroutine ends *)
      | None => Some (upd_t (set_tpc TmStore th) s)
      end
  | TmStore =>                                                                   (* 732 *)
      Some (s |> set_toks (tok_set (ttok th) (RTimer (tmid th) (ttok th) (tcreator th)) (toks s))
              |> set_timers (del_t (tmid th) (timers s))
              |> emit (ETimerFired (ttok th)))
  end.

(** ** Scheduler *)

Inductive tid :=
| TCtl                               (* the controller goroutine *)
| TSearch (n : nat) (c : choice)     (* search goroutine of accepted start n, with the scheduler's choice *)
| TTimer (k : nat)                   (* timer goroutine number k *)
| TTick.                             (* the clock advances *)

Definition step (s : state) (t : tid) : option state :=
  if panicked s then None else
  match t with
  | TCtl => cstep s
  | TSearch n c =>
      match find_s n (srch s) with
      | Some th => sstep s th c
      | None => match find_s n (senders s), c with
                | Some th, Go => nstep s th
                | _, _ => None
                end
      end
  | TTimer k => match find_t k (timers s) with Some th => tstep s th | None => None end
  | TTick => Some (s |> set_clock (S (clock s)))
  end.

Fixpoint run_sched (s : state) (sched : list tid) : state :=
  match sched with
  | [] => s
  | t :: r => run_sched (match step s t with Some s' => s' | None => s end) r
  end.

(* NewSearch (search.go:100-128) + NewUciHandler: both semaphores free, token 0 = NewBool(false), nothing else set *)
Definition init (ctt cbook cbookok : bool) (cs : list call) : state :=
  {| cfgTT := ctt; cfgBook := cbook; cfgBookOk := cbookok;
     calls := cs; done := []; cpcv := CIdle; cidx := 0;
     runFree := true; initFree := true; panicked := false;
     toks := [None]; stopPtr := 0;
     timeLimit := 0; extraTime := 0;
     limitsVar := None; curPos := 0;
     hasResult := false; lastResult := 0;
     tt := false; book := false; hist := 0;
     outFree := true; outHolder := None; outBuf := []; outErr := false; outLines := [];
     clock := 0;
     srch := []; senders := []; timers := []; ntimers := 0;
     starts := []; results := []; trace := [] |}.

Definition is_init (s0 : state) : Prop := exists a b c cs, s0 = init a b c cs.
Definition reachable_from (s0 s : state) : Prop := exists sched, s = run_sched s0 sched.
Definition reachable (s : state) : Prop := exists s0, is_init s0 /\ reachable_from s0 s.

Definition controller_done (s : state) : bool :=
  match calls s with [] => true | _ => false end.

(** ** Memory accesses (for data races) *)

Inductive var :=
| VStopPtr | VTok (n : nat) | VTimeLimit | VExtraTime | VLimits | VCurPos | VHasResult | VLastResult
| VTT | VBook | VHistory | VOut.

Record access := mkA { avar : var; awrite : bool; aatomic : bool }.
Definition rd (v : var) := Some (mkA v false false).
Definition wr (v : var) := Some (mkA v true false).
Definition ard (v : var) := Some (mkA v false true).
Definition awr (v : var) := Some (mkA v true true).

Definition caccess (s : state) : option access :=
  match cpcv s with
  | CStPos => wr VCurPos | CStLim => wr VLimits | CStTok => wr VStopPtr
  | CSpPtr => rd VStopPtr | CSpStore p => awr (VTok p)
  | CNgTT => rd VTT | CNgHist => wr VHistory
  | CPhLim => rd VLimits | CPhPtr => rd VStopPtr
  | CInBook => if cfgBook s then rd VBook else None
  | CInBookW => wr VBook
  | CInTT => if cfgTT s then rd VTT else None
  | CInTTW => wr VTT
  | CChTT => rd VTT | CRzNil => wr VTT | CRzTT => rd VTT
  | CSend1 _ _ => wr VOut | CSend2 _ => rd VOut | CSend3 _ _ => wr VOut
  | _ => None         (* dispatch, semaphore operations, go statements, return *)
  end.

Definition saccess (s : state) (th : sthread) (c : choice) : option access :=
  match spcv th, c with
  | SHasRes0, Go => wr VHasResult | STL0, Go => awr VTimeLimit | SET0, Go => awr VExtraTime
  | SInBook, Go => if cfgBook s then rd VBook else None
  | SInBookW, Go => wr VBook
  | SInTT, Go => if cfgTT s then rd VTT else None
  | SInTTW, Go => wr VTT
  | SSetTL, Go => awr VTimeLimit | SSetET, Go => awr VExtraTime
  | SLimTimer, Go => rd VLimits | STimerPtr, Go => rd VStopPtr
  | SBook, Go => rd VBook | STTAge, Go => rd VTT | SHist, Go => rd VHistory
  | SPollPtr, Go => rd VStopPtr | SPollTok p, Go => ard (VTok p)
  | SPollLim, Go => rd VLimits | SPollLim, Nodes => rd VLimits
  | SNodeTT, Go => rd VTT | SNodeHist, Go => rd VHistory
  | SInfo1, Go => wr VOut | SInfo2, Go => rd VOut | SInfo3 _, Go => wr VOut
  | SExtra1, Go => rd VTimeLimit | SExtra2 _, Go => rd VExtraTime | SExtra3 _, Go => awr VExtraTime
  | SWaitLim, Go => rd VLimits | SWaitPtr, Go => rd VStopPtr | SWaitTok p, Go => ard (VTok p)
  | SLastRes, Go => wr VLastResult | SHasRes1, Go => wr VHasResult
  | SEndPtr, Go => rd VStopPtr | SEndStore p, Go => awr (VTok p)
  | SRes1, Go => wr VOut | SRes2, Go => rd VOut | SRes3 _, Go => wr VOut
  | _, _ => None
  end.

Definition taccess (th : tthread) : option access :=
  match tpcv th with
  | TmStart => None
  | TmTL => ard VTimeLimit | TmET => ard VExtraTime
  | TmTok => ard (VTok (ttok th)) | TmChk => ard (VTok (ttok th)) | TmStore => awr (VTok (ttok th))
  end.

(* the access the next step of thread t performs in state s *)
Definition access_of (s : state) (t : tid) : option access :=
  match t with
  | TCtl => caccess s
  | TSearch n c =>
      match find_s n (srch s) with
      | Some th => saccess s th c
      | None => match find_s n (senders s), c with
                | Some th, Go => saccess s th Go
                | _, _ => None
                end
      end
  | TTimer k => match find_t k (timers s) with Some th => taccess th | None => None end
  | TTick => None
  end.

(* goroutine identity: the scheduler's choice is not part of it *)
Definition thread_of (t : tid) : thr :=
  match t with TCtl => ThCtl | TSearch n _ => ThSearch n | TTimer k => ThTimer k | TTick => ThClock end.

Definition enabled (s : state) (t : tid) : bool :=
  match step s t with Some _ => true | None => false end.

Definition var_eqb (a b : var) : bool :=
  match a, b with
  | VStopPtr, VStopPtr | VTimeLimit, VTimeLimit | VExtraTime, VExtraTime | VLimits, VLimits
  | VCurPos, VCurPos | VHasResult, VHasResult | VLastResult, VLastResult | VTT, VTT | VBook, VBook
  | VHistory, VHistory | VOut, VOut => true
  | VTok n, VTok m => n =? m
  | _, _ => false
  end.

(* two enabled steps of different goroutines on the same variable, one a write, not both atomic *)
Definition conflict (a b : access) : bool :=
  var_eqb (avar a) (avar b) && (awrite a || awrite b) && negb (aatomic a && aatomic b).

Definition race_at (s : state) (t1 t2 : tid) (v : var) : Prop :=
  thread_of t1 <> thread_of t2 /\ enabled s t1 = true /\ enabled s t2 = true /\
  exists a b, access_of s t1 = Some a /\ access_of s t2 = Some b /\ conflict a b = true /\ avar a = v.

(** ** Executable checker for the correspondence run (validation, not a theorem)

    [accepts cfg.. calls trace] = true iff [trace] (events in real-time order, oldest first) is an observable
    behaviour of the model for [calls]: a breadth-first search over all schedules, with the set of model states
    compatible with the trace prefix read so far (states are identified by a key that omits ghost data and the
    OutIo buffer, which never influence events; local steps - see [c_local], [s_local] - are executed eagerly).  Bounds of the search: the clock only ticks while some timer
    still waits for its limit; [Info] steps (no event, OutIo only) are not scheduled; [fuel] bounds the number
    of states expanded (exhaustion => false).  [ETimerFired] and [ECall] events of the model that the
    trace does not mention at that point are treated as silent. *)
From Coq Require Import FSets.FSetPositive PArith.

Fixpoint unary (n : nat) (p : positive) : positive :=
  match n with 0 => xO p | S n' => xI (unary n' p) end.
Fixpoint enc (l : list nat) : positive :=
  match l with [] => xH | n :: r => unary n (enc r) end.

Definition b2n (b : bool) : nat := if b then 1 else 0.
Definition ev_code (e : event) : list nat :=
  match e with
  | EStartReturned n => [0; n] | EStartRejected => [1] | EStartDone => [2] | EResult n => [3; n]
  | EStopReturned => [4] | EReadyOk => [5] | EIsSearching b => [6; b2n b] | ETimerFired n => [7; n]
  | EWaitReturned => [8] | ENewGameReturned => [9] | EPonderHitReturned => [10]
  | EClearHash b => [11; b2n b] | EResizeHash b => [12; b2n b] | ECall i => [13; i]
  end.
Definition oev_code (e : option event) : list nat :=
  match e with None => [0] | Some e => 1 :: ev_code e end.
Definition line_code (l : line) : list nat :=
  match l with LReady => [0] | LBest n => [1; n] | LInfo => [2] end.
Definition lim_code (l : limits) : list nat :=
  [b2n (lInfinite l); b2n (lPonder l); b2n (lTimeControl l); lTime l; b2n (lNodes l); b2n (lExtra l)].
Definition cpc_code (p : cpc) : list nat :=
  match p with
  | CIdle => [0] | CStTry => [1] | CStAcqInit => [2] | CStPos => [3] | CStLim => [4] | CStTok => [5]
  | CStGo => [6] | CStWait => [7] | CStRel => [8] | CSpPtr => [9] | CSpStore p => [10; p] | CWAcq => [11]
  | CWRel => [12] | CNgTT => [13] | CNgHist => [14] | CIsTry => [15] | CIsRel => [16] | CPhLim => [17]
  | CPhPtr => [18] | CPhGo p => [19; p] | CInBook => [20] | CInBookW => [21] | CInTT => [22] | CInTTW => [23]
  | CChTT => [24] | CRzNil => [25] | CRzTT => [26]
  | CSend1 ln r => 27 :: line_code ln ++ oev_code r | CSend2 r => 28 :: oev_code r
  | CSend3 k r => 29 :: k :: oev_code r | CRet r => 30 :: oev_code r
  | CSend0 ln r => 31 :: line_code ln ++ oev_code r | CSend4 r => 32 :: oev_code r
  end.
Definition spc_code (p : spc) : list nat :=
  match p with
  | SHasRes0 => [0] | STL0 => [1] | SET0 => [2] | SInBook => [3] | SInBookW => [4] | SInTT => [5] | SInTTW => [6]
  | SSetTL => [7] | SSetET => [8] | SLimTimer => [9] | STimerPtr => [10] | STimerGo p => [11; p] | SBook => [12]
  | STTAge => [13] | SHist => [14] | SRelInit => [15] | SLoop => [16] | SPollPtr => [17] | SPollTok p => [18; p]
  | SPollLim => [19]
  | SNodeTT => [24] | SNodeHist => [25] | SInfo1 => [26] | SInfo2 => [27] | SInfo3 k => [28; k]
  | SExtra1 => [29] | SExtra2 t => [30; t] | SExtra3 v => [31; v] | SWaitLim => [32] | SWaitPtr => [33]
  | SWaitTok p => [34; p] | SLastRes => [35] | SHasRes1 => [36] | SEndPtr => [37] | SEndStore p => [38; p]
  | SRes1 => [39] | SRes2 => [40] | SRes3 k => [41; k] | SRelRun => [42]
  | SInfo0 => [43] | SInfo4 => [44] | SRes0 => [45] | SRes4 => [46]
  end.
Definition tpc_code (p : tpc) : nat :=
  match p with TmStart => 0 | TmTL => 1 | TmET => 2 | TmTok => 3 | TmChk => 4 | TmStore => 5 end.
Definition sth_code (th : sthread) : list nat :=
  sid th :: spc_code (spcv th) ++ lim_code (slim th) ++ [b2n (sextra th)].
Definition tth_code (th : tthread) : list nat :=
  [tmid th; ttok th; tpc_code (tpcv th); t0 th; tnow th; ttl th].

Definition key (s : state) : positive :=
  enc ([length (calls s)] ++ cpc_code (cpcv s)
       ++ [b2n (runFree s); b2n (initFree s); b2n (outFree s); b2n (panicked s); stopPtr s; timeLimit s; extraTime s;
           b2n (tt s); b2n (book s); clock s]
       ++ map (fun x => match x with None => 0 | Some _ => 1 end) (toks s)
       ++ [2] ++ match limitsVar s with None => [0] | Some l => 1 :: lim_code l end
       ++ [length (srch s)] ++ flat_map sth_code (srch s)
       ++ [length (senders s)] ++ flat_map sth_code (senders s)
       ++ [length (timers s)] ++ flat_map tth_code (timers s)).

(* the thread ids worth scheduling in [s] *)
Definition timer_waits (s : state) (th : tthread) : bool :=
  match tpcv th with
  | TmStart => false
  | _ => match tok_get (ttok th) (toks s) with
         | Some _ => false
         | None => clock s - t0 th <? timeLimit s + extraTime s
         end
  end.
Definition cand_tids (s : state) : list tid :=
  TCtl :: flat_map (fun th => [TSearch (sid th) Go; TSearch (sid th) Finish; TSearch (sid th) Nodes;
                               TSearch (sid th) Extra]) (srch s)
       ++ map (fun th => TSearch (sid th) Go) (senders s)
       ++ map (fun th => TTimer (tmid th)) (timers s)
       ++ (if existsb (timer_waits s) (timers s) then [TTick] else []).

Definition ev_match (observed model : event) : bool :=
  match observed, model with
  | EStartDone, EStartReturned _ | EStartDone, EStartRejected => true
  | _, _ => match list_eq_dec Nat.eq_dec (ev_code observed) (ev_code model) with left _ => true | right _ => false end
  end.
(* events of the model that a trace may omit *)
Definition is_timer_ev (e : event) : bool := match e with ETimerFired _ | ECall _ => true | _ => false end.

(* successors of [s]: silent ones and those emitting an event matching [expect] *)
Fixpoint succs (s : state) (expect : option event) (ts : list tid) (silent hit : list state)
  : list state * list state :=
  match ts with
  | [] => (silent, hit)
  | t :: r =>
    match step (s |> set_trace []) t with
    | None => succs s expect r silent hit
    | Some s' =>
      match trace s' with
      | [] => succs s expect r (s' :: silent) hit
      | e :: _ =>
        let s'' := s' |> set_trace [] in
        match expect with
        | Some x => if ev_match x e then succs s expect r silent (s'' :: hit)
                    else if is_timer_ev e then succs s expect r (s'' :: silent) hit
                    else succs s expect r silent hit
        | None => if is_timer_ev e then succs s expect r (s'' :: silent) hit else succs s expect r silent hit
        end
      end
    end
  end.

(* partial-order reduction used by the checker only: a step is "local" when it emits no event and commutes with
   every step of every other goroutine (plain accesses to variables nobody else can write at that point, steps
   inside the sendLock critical section, steps of a timer whose stop token is already true); local steps are
   executed eagerly *)
Definition c_local (p : cpc) : bool :=
  match p with
  | CStPos | CStLim | CStTok | CSpPtr | CNgTT | CNgHist | CPhLim | CPhPtr | CInBook | CInBookW | CInTT
  | CInTTW | CChTT | CRzNil | CRzTT | CSend2 _ | CSend3 _ _ => true
  | CSend1 LReady _ => false
  | CSend1 _ _ => true
  | _ => false
  end.
Definition s_local (p : spc) : bool :=
  match p with
  | SHasRes0 | SInBook | SInBookW | SInTT | SInTTW | SLimTimer | STimerPtr | SBook | STTAge | SHist | SPollPtr
  | SNodeTT | SNodeHist | SInfo1 | SInfo2 | SInfo3 _ | SExtra1 | SExtra2 _ | SWaitLim
  | SWaitPtr | SLastRes | SHasRes1 | SEndPtr | SRes2 | SRes3 _ => true
  | _ => false
  end.
Definition t_dead (s : state) (th : tthread) : bool :=     (* its token is already true: it will just exit *)
  match tpcv th with
  | TmStore => false
  | _ => match tok_get (ttok th) (toks s) with Some _ => true | None => false end
  end.
Definition local_tid (s : state) : option tid :=
  if match calls s with _ :: _ => c_local (cpcv s) | [] => false end then Some TCtl else
  match find (fun th => s_local (spcv th)) (srch s ++ senders s) with
  | Some th => Some (TSearch (sid th) Go)
  | None => match find (t_dead s) (timers s) with
            | Some th => Some (TTimer (tmid th))
            | None => None
            end
  end.
Fixpoint norm (fuel : nat) (s : state) : state :=
  match fuel with
  | 0 => s
  | S f => match local_tid s with
           | Some t => match step s t with Some s' => norm f s' | None => s end
           | None => s
           end
  end.

(* closure under silent steps (depth first, states identified by [key]); collects the states reached by
   the expected event.  None = fuel exhausted. *)
Fixpoint closure (expect : option event) (fuel : nat) (work : list state) (seen : PositiveSet.t)
         (hits : list state) : option (list state) :=
  match fuel with
  | 0 => match work with [] => Some hits | _ => None end
  | S fuel' =>
    match work with
    | [] => Some hits
    | s :: rest =>
      let k := key s in
      if PositiveSet.mem k seen then closure expect fuel' rest seen hits
      else let (sil, hit) := succs s expect (cand_tids s) [] [] in
           closure expect fuel' (map (norm 64) sil ++ rest) (PositiveSet.add k seen) (map (norm 64) hit ++ hits)
    end
  end.

Fixpoint accepts_from (fuel : nat) (front : list state) (tr : list event) : bool :=
  match tr with
  | [] => match front with [] => false | _ => true end
  | e :: r => match closure (Some e) fuel front PositiveSet.empty [] with
              | None | Some [] => false
              | Some hits => accepts_from fuel hits r
              end
  end.

Definition accepts_fuel (fuel : nat) (ctt cbook cbookok : bool) (cs : list call) (tr : list event) : bool :=
  accepts_from fuel [norm 64 (init ctt cbook cbookok cs)] tr.
Definition accepts (ctt cbook cbookok : bool) (cs : list call) (tr : list event) : bool :=
  accepts_fuel (300 * 1000) ctt cbook cbookok cs tr.
Definition accepts_default (cs : list call) (tr : list event) : bool := accepts true false false cs tr.

(* indices of the cases the model rejects (for the correspondence run) *)
Fixpoint lc_mismatches_from (i : nat) (cases : list (list call * list event)) : list nat :=
  match cases with
  | [] => []
  | (cs, tr) :: r => (if accepts_default cs tr then [] else [i]) ++ lc_mismatches_from (S i) r
  end.
Definition lc_mismatches := lc_mismatches_from 0.

(** ** Well-formed call sequences (for [no_deadlock])

    WaitWhileSearching on an infinite / ponder search that nobody stops blocks forever by design.  A call
    sequence is well formed when no CWait is issued while such a search may be running: [r] = "an infinite
    or ponder search may be running un-stopped"; it is set by every CStart of such a search (accepted or
    not - conservative), cleared only by CStop / CNewGame (a PonderHit is conservatively NOT counted as a
    stop).  Sequences without CWait - everything the UCI command loop can issue - are always well formed. *)
Fixpoint wfr (r : bool) (cs : list call) : bool :=
  match cs with
  | [] => true
  | CWait :: l => negb r && wfr false l
  | (CStop | CNewGame) :: l => wfr false l
  | CStart lim :: l => wfr (r || (lPonder lim || lInfinite lim)) l
  | _ :: l => wfr r l
  end.
Definition well_formed_calls (cs : list call) : bool := wfr false cs.
