(** Corollaries of the repetition-scan characterisation (C10): the answer is monotone in the number of
    repetitions asked for, needs at least two earlier plies per repetition, and is bounded by the
    half-move clock in histories made by moves only. *)
From Coq Require Import NArith ZArith List Bool Lia.
From FG Require Import Geom Rules FenSpec PosImpl PosTabs PosProofsJ PosProofs.
Import ListNotations.

Lemma matches_le_length key v : (matches key v <= Z.of_nat (length v))%Z.
Proof.
  unfold matches. apply inj_le. induction v as [|h r IH]; cbn [filter length]; [lia|].
  destruct (N.eqb key (h_key h)); cbn [length]; lia.
Qed.

Lemma matches_nonneg key v : (0 <= matches key v)%Z.
Proof. unfold matches. lia. Qed.

Lemma dec_prefix_length : forall v last, (length (dec_prefix last v) <= length v)%nat.
Proof.
  induction v as [|h r IH]; intro last; cbn [dec_prefix length]; [lia|].
  destruct (last <=? h_hmc h)%Z; cbn [length]; [lia|]. specialize (IH (h_hmc h)). lia.
Qed.

Lemma visited_length : forall l b,
  (2 * length (visited l b) <= length l + (if b then 1 else 0))%nat.
Proof.
  induction l as [|h r IH]; intro b; cbn [visited length]; [destruct b; lia|].
  destruct b; cbn [length]; [specialize (IH false)|specialize (IH true)]; cbn in IH; lia.
Qed.

(* asking for fewer repetitions can only turn the answer to true *)
Theorem repetition_monotone p m n : (1 <= m)%Z -> (m <= n)%Z ->
  check_repetitions p n = true -> check_repetitions p m = true.
Proof.
  intros Hm Hmn. rewrite !repetition_scan by lia. rewrite !Z.leb_le. lia.
Qed.

(* n repetitions are never reported with fewer than 2n earlier plies in the history *)
Theorem repetition_needs_history p n : (1 <= n)%Z ->
  check_repetitions p n = true -> (2 * n <= Z.of_nat (length (i_hist p)))%Z.
Proof.
  intros Hn. rewrite repetition_scan by lia. rewrite Z.leb_le. intro H.
  pose proof (matches_le_length (i_key p) (scanned p)) as H1.
  pose proof (dec_prefix_length (visited (i_hist p) false) (i_hmc p)) as H2.
  pose proof (visited_length (i_hist p) false) as H3. unfold scanned in *. cbn in H3. lia.
Qed.

(* empty history: never a repetition *)
Theorem repetition_fresh_position p n : (1 <= n)%Z -> i_hist p = [] -> check_repetitions p n = false.
Proof.
  intros Hn Hh. destruct (check_repetitions p n) eqn:E; [|reflexivity].
  apply repetition_needs_history in E; [|exact Hn]. rewrite Hh in E. cbn [length] in E. lia.
Qed.

(* in a history made by moves only, n repetitions need a half-move clock of at least 2(n-1) *)
Theorem repetition_clock_bound p n : (1 <= n)%Z -> (0 <= i_hmc p)%Z -> chain (i_hmc p) (i_hist p) ->
  check_repetitions p n = true -> (2 * (n - 1) <= i_hmc p)%Z.
Proof.
  intros Hn Hc Hch. rewrite repetition_scan by lia. rewrite Z.leb_le. intro H.
  pose proof (matches_le_length (i_key p) (scanned p)) as H1.
  pose proof (window_upper (length (i_hist p)) (i_hist p) (i_hmc p) (le_n _) Hc Hch) as H2.
  unfold scanned in *.
  assert (n <= i_hmc p / 2 + 1)%Z as H3 by lia.
  pose proof (Z.mul_div_le (i_hmc p) 2 ltac:(lia)). lia.
Qed.

(* non-vacuity: the hypotheses of [repetition_clock_bound] hold on a real game (Nf3 Nf6 Ng1 Ng8 played
   twice from the start position: two earlier occurrences, clock 8, move-only history) *)
Fixpoint chainb (c : Z) (l : list hstate) : bool :=
  match l with [] => true
  | h :: r => (0 <=? h_hmc h)%Z && ((c =? h_hmc h + 1)%Z || (c =? 0)%Z) && chainb (h_hmc h) r end.
Lemma chainb_chain : forall l c, chainb c l = true -> chain c l.
Proof.
  induction l as [|h r IH]; intros c H; cbn [chainb chain] in *; [exact I|].
  apply andb_prop in H. destruct H as [H H3]. apply andb_prop in H. destruct H as [H1 H2].
  apply Z.leb_le in H1. apply orb_prop in H2. split; [exact H1|]. split; [|apply IH; exact H3].
  destruct H2 as [H2|H2]; apply Z.eqb_eq in H2; [left|right]; exact H2.
Qed.
Definition shuffle8 : list op :=
  let g := [ODo (21 + 64 * 6); ODo (45 + 64 * 62); ODo (6 + 64 * 21); ODo (62 + 64 * 45)] in g ++ g.
Example repetition_clock_bound_applies :
  exists p, after_ops start_pos shuffle8 = Some p /\
    (0 <= i_hmc p)%Z /\ chain (i_hmc p) (i_hist p) /\
    check_repetitions p 2 = true /\ check_repetitions p 3 = false /\ i_hmc p = 8%Z.
Proof.
  destruct (after_ops start_pos shuffle8) as [p|] eqn:E; [|vm_compute in E; discriminate].
  exists p. split; [reflexivity|].
  assert (((0 <=? i_hmc p)%Z && chainb (i_hmc p) (i_hist p) && check_repetitions p 2 &&
           negb (check_repetitions p 3) && (i_hmc p =? 8)%Z) = true) as H.
  { revert E. vm_compute. intro E. injection E as <-. vm_compute. reflexivity. }
  repeat (apply andb_prop in H; destruct H as [H ?]).
  repeat split; try (apply Z.leb_le; assumption); try (apply chainb_chain; assumption);
    try assumption; try (apply negb_true_iff; assumption); apply Z.eqb_eq; assumption.
Qed.

Print Assumptions repetition_monotone.
Print Assumptions repetition_needs_history.
Print Assumptions repetition_clock_bound.
