(** * CasesAB: evaluation helper for the C06 correspondence run: on real game trees dumped
    by the harness, the executable search model under all 8 switch combinations and the
    minimax definition must both give the value the real engine (brute force / search) reported. *)
From Coq Require Import ZArith List Bool.
From FG Require Import GameTree AlphaBeta.
Import ListNotations.
Open Scope Z_scope.

Definition all_cfgs : list cfg :=
  flat_map (fun a => flat_map (fun b => map (fun c => Build_cfg a b c) [true; false]) [true; false]) [true; false].

Definition ab_case_ok (c : tree * Z) : bool :=
  let '(t, v) := c in
  boundedb t && (minimax 0 t =? v) && forallb (fun cf => fst (root_fn cf t) =? v) all_cfgs.

Fixpoint ab_mismatches_from (i : nat) (cases : list (tree * Z)) : list nat :=
  match cases with
  | [] => []
  | c :: r => (if ab_case_ok c then [] else [i]) ++ ab_mismatches_from (S i) r
  end.
Definition ab_mismatches := ab_mismatches_from 0.
