(** * MovegenProofsMain: GeneratePseudoLegalMoves = the pseudo-legal moves of the rules (C01, C08).

    PROVED (for every [legal_pos p], both settings of UsePromNonQuiet, non-evasion generation):
    - [gen_pseudo_modes]   the three generation modes return normally; the GenNonQuiet list
                           consists of the classes 0..8, the GenQuiet list of the classes 9..14,
                           and the GenAll list is literally their concatenation;
    - [pseudo_exact]       GenAll: a permutation of [map code (Rules.pseudo p)], no duplicates;
    - [modes_partition]    nonquiet ++ quiet = all (as lists, hence as multisets);
    - [mode_lists_spec]    the GenNonQuiet list is a permutation of the codes of the moves m of
                           [pseudo p] with [nonquiet_spec prom_nq p m] (captures, en passant
                           and, with UsePromNonQuiet, queen / knight promotions), the GenQuiet
                           list of the others;
    - [sorted_pseudo_exact] the list after updateSortValues + Sort (any sort values) is still a
                           permutation of the pseudo-legal moves. *)
From Coq Require Import NArith ZArith List Bool Lia ZifyN ZifyBool Permutation.
From FG Require Import Word64 Geom Tables TablesCorrect ShiftCorrect Rules BitView
                       AttacksImpl AttacksLemmas MoveEnc SqListFacts MovegenImpl MovegenLemmas MovegenSpec
                       MovegenProofsOD MovegenProofsPieces MovegenProofsPawns.
Import ListNotations.
Open Scope N_scope.

Section Main.
Variable prom_nq : bool.
Variable p : pos.
Hypothesis Hlegal : legal_pos p = true.
Let v := view_of_spec p.

Lemma Hwm : wfp p. Proof. now apply legal_wfp. Qed.

(* the non-quiet half and the quiet half of GeneratePseudoLegalMoves *)
Lemma nq_half : exists l,
  (do a <- gen_pawn_moves prom_nq v 1 false 0; do k <- gen_king_moves v 1 false; do c <- gen_moves v 1 false 0;
   Some (a ++ k ++ c)) = Some l /\ class_lists prom_nq p (seq 0 9) l.
Proof.
  destruct (gen_pawn_nonquiet_exact prom_nq p Hlegal) as (a & Ha & Ca).
  destruct (gen_king_moves_exact prom_nq p Hlegal) as [(k & Hk & Pk & Nk) _].
  destruct (gen_moves_exact prom_nq p Hlegal) as [(c & Hc & Pc & Nc) _].
  exists (a ++ k ++ c). fold v in Ha, Hk, Hc. rewrite Ha, Hk, Hc. split; [reflexivity|].
  apply (class_lists_app prom_nq p [0;1;2;3;4;5;6]%nat [7;8]%nat); [exact Ca|].
  apply (class_lists_app prom_nq p [7]%nat [8]%nat); now apply class_lists_one.
Qed.

Lemma q_half : exists l,
  (do a <- gen_pawn_moves prom_nq v 2 false 0; do cs <- gen_castling v 2; do k <- gen_king_moves v 2 false;
   do c <- gen_moves v 2 false 0; Some (a ++ cs ++ k ++ c)) = Some l /\ class_lists prom_nq p (seq 9 6) l.
Proof.
  destruct (gen_pawn_quiet_lists prom_nq p Hlegal) as (a & Ha & Ca).
  destruct (gen_castling_exact prom_nq p Hlegal) as (cs & Hcs & Pcs & Ncs).
  destruct (gen_king_moves_exact prom_nq p Hlegal) as [_ (k & Hk & Pk & Nk)].
  destruct (gen_moves_exact prom_nq p Hlegal) as [_ (c & Hc & Pc & Nc)].
  exists (a ++ cs ++ k ++ c). fold v in Ha, Hcs, Hk, Hc. rewrite Ha, Hcs, Hk, Hc. split; [reflexivity|].
  apply (class_lists_app prom_nq p [9;10;11]%nat [12;13;14]%nat); [exact Ca|].
  apply (class_lists_app prom_nq p [12]%nat [13;14]%nat); [now apply class_lists_one|].
  apply (class_lists_app prom_nq p [13]%nat [14]%nat); now apply class_lists_one.
Qed.

Theorem gen_pseudo_modes : exists nq q,
  gen_pseudo prom_nq v 1 false = Some nq /\
  gen_pseudo prom_nq v 2 false = Some q /\
  gen_pseudo prom_nq v 3 false = Some (nq ++ q) /\
  class_lists prom_nq p (seq 0 9) nq /\ class_lists prom_nq p (seq 9 6) q.
Proof.
  destruct nq_half as (nq & Hnq & Cnq). destruct q_half as (q & Hq & Cq).
  exists nq, q. unfold gen_pseudo. cbn [bind].
  replace (has_nq 1) with true by reflexivity. replace (has_q 1) with false by reflexivity.
  replace (has_nq 2) with false by reflexivity. replace (has_q 2) with true by reflexivity.
  replace (has_nq 3) with true by reflexivity. replace (has_q 3) with true by reflexivity.
  rewrite Hnq, Hq. cbn [bind app]. rewrite app_nil_r. auto.
Qed.

Theorem pseudo_exact : exists l,
  gen_pseudo prom_nq v 3 false = Some l /\ Permutation l (map code (pseudo p)) /\ NoDup l.
Proof.
  destruct gen_pseudo_modes as (nq & q & _ & _ & H3 & Cnq & Cq).
  exists (nq ++ q). split; [exact H3|].
  apply (class_lists_all prom_nq p _ Hwm).
  change (seq 0 NCLS) with (seq 0 9 ++ seq 9 6). now apply class_lists_app.
Qed.

Theorem modes_partition : exists nq q al,
  gen_pseudo prom_nq v 1 false = Some nq /\ gen_pseudo prom_nq v 2 false = Some q /\
  gen_pseudo prom_nq v 3 false = Some al /\ Permutation (nq ++ q) al /\ nq ++ q = al.
Proof.
  destruct gen_pseudo_modes as (nq & q & H1 & H2 & H3 & _). exists nq, q, (nq ++ q). auto.
Qed.

(* the classes of a range are the moves whose class number lies in the range *)
Lemma range_classes_perm (a n : nat) :
  Permutation (concat (map (class_codes prom_nq p) (seq a n)))
              (map code (filter (fun m => (N.of_nat a <=? cls prom_nq p m) && (cls prom_nq p m <? N.of_nat (a + n))) (pseudo p))).
Proof.
  revert a. induction n as [|n IH]; intros a.
  - cbn [seq map concat]. replace (a + 0)%nat with a by lia.
    assert (E : forall m, ((N.of_nat a <=? cls prom_nq p m) && (cls prom_nq p m <? N.of_nat a)) = (fun _ => false) m)
      by (intros m; cbv beta; lia).
    rewrite (filter_ext _ _ E).
    induction (pseudo p) as [|x l IHl]; cbn [filter map]; [reflexivity|exact IHl].
  - cbn [seq map concat]. rewrite (IH (S a)). unfold class_codes. rewrite <- map_app. apply Permutation_map.
    clear IH. induction (pseudo p) as [|x l IHl]; cbn [filter]; [reflexivity|].
    destruct (N.eqb_spec (cls prom_nq p x) (N.of_nat a)) as [E|E].
    + replace ((N.of_nat (S a) <=? cls prom_nq p x) && (cls prom_nq p x <? N.of_nat (S a + n))) with false by lia.
      replace ((N.of_nat a <=? cls prom_nq p x) && (cls prom_nq p x <? N.of_nat (a + S n))) with true by lia.
      cbn [app]. apply perm_skip. exact IHl.
    + replace ((N.of_nat (S a) <=? cls prom_nq p x) && (cls prom_nq p x <? N.of_nat (S a + n)))
        with ((N.of_nat a <=? cls prom_nq p x) && (cls prom_nq p x <? N.of_nat (a + S n))) by lia.
      destruct ((N.of_nat a <=? cls prom_nq p x) && (cls prom_nq p x <? N.of_nat (a + S n))).
      * etransitivity; [symmetry; apply Permutation_middle|]. apply perm_skip. exact IHl.
      * exact IHl.
Qed.

Theorem mode_lists_spec : exists nq q,
  gen_pseudo prom_nq v 1 false = Some nq /\ gen_pseudo prom_nq v 2 false = Some q /\
  Permutation nq (map code (filter (nonquiet_spec prom_nq p) (pseudo p))) /\
  Permutation q (map code (filter (fun m => negb (nonquiet_spec prom_nq p m)) (pseudo p))) /\
  NoDup nq /\ NoDup q.
Proof.
  destruct gen_pseudo_modes as (nq & q & H1 & H2 & H3 & Cnq & Cq).
  exists nq, q. split; [exact H1|]. split; [exact H2|].
  assert (Pn : Permutation nq (map code (filter (nonquiet_spec prom_nq p) (pseudo p)))).
  { rewrite (class_lists_perm _ _ _ _ Cnq), (range_classes_perm 0 9). apply Permutation_map.
    rewrite (filter_ext _ (nonquiet_spec prom_nq p)); [reflexivity|]. intros m. unfold nonquiet_spec.
    change (N.of_nat 0) with 0. change (N.of_nat (0 + 9)) with 9. lia. }
  assert (Pq : Permutation q (map code (filter (fun m => negb (nonquiet_spec prom_nq p m)) (pseudo p)))).
  { rewrite (class_lists_perm _ _ _ _ Cq), (range_classes_perm 9 6). apply Permutation_map.
    rewrite (filter_ext _ (fun m => negb (nonquiet_spec prom_nq p m))); [reflexivity|].
    intros m. unfold nonquiet_spec. pose proof (cls_lt prom_nq p m).
    change (N.of_nat 9) with 9. change (N.of_nat (9 + 6)) with 15. lia. }
  split; [exact Pn|]. split; [exact Pq|].
  split.
  - apply (Permutation_NoDup (Permutation_sym Pn)). apply nodup_filter_map. apply pseudo_codes_nodup. exact Hwm.
  - apply (Permutation_NoDup (Permutation_sym Pq)). apply nodup_filter_map. apply pseudo_codes_nodup. exact Hwm.
Qed.

(* movegen.go:167-175: updateSortValues, Sort, strip the values: with ANY sort values the
   returned list is a permutation of the pseudo-legal moves *)
Theorem sorted_pseudo_exact (val : N -> Z) : exists l,
  gen_pseudo prom_nq v 3 false = Some l /\
  Permutation (go_sort val l) (map code (pseudo p)) /\ NoDup (go_sort val l).
Proof.
  destruct pseudo_exact as (l & H & P & N). exists l. split; [exact H|]. split.
  - now rewrite go_sort_perm.
  - apply (Permutation_NoDup (Permutation_sym (go_sort_perm val l))). exact N.
Qed.

End Main.

Print Assumptions pseudo_exact.
Print Assumptions modes_partition.
Print Assumptions mode_lists_spec.
