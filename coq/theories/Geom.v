(** * Geom: board geometry defined by coordinates (no tables).
    This is the specification side of C18 and the base of the rules spec. *)
From Coq Require Import NArith ZArith List Bool Lia.
Import ListNotations.
Open Scope N_scope.

Definition file_of (s : N) : N := N.land s 7.
Definition rank_of (s : N) : N := N.shiftr s 3.
Definition mk_sq (f r : N) : N := 8 * r + f.

Inductive dir := DN | DE | DS | DW | DNE | DSE | DSW | DNW.
Definition all_dirs := [DN; DE; DS; DW; DNE; DSE; DSW; DNW].
Definition rook_dirs := [DN; DE; DS; DW].
Definition bishop_dirs := [DNE; DSE; DSW; DNW].

(* file delta, rank delta *)
Definition delta (d : dir) : Z * Z :=
  match d with
  | DN => (0, 1) | DE => (1, 0) | DS => (0, -1) | DW => (-1, 0)
  | DNE => (1, 1) | DSE => (1, -1) | DSW => (-1, -1) | DNW => (-1, 1)
  end%Z.

Definition on_board (f r : Z) : bool :=
  ((0 <=? f) && (f <=? 7) && (0 <=? r) && (r <=? 7))%Z.

(* the square reached from s by moving (df,dr), if still on the board *)
Definition offset (s : N) (df dr : Z) : option N :=
  let f := (Z.of_N (file_of s) + df)%Z in
  let r := (Z.of_N (rank_of s) + dr)%Z in
  if on_board f r then Some (Z.to_N (8 * r + f)) else None.

Definition step (d : dir) (s : N) : option N :=
  let '(df, dr) := delta d in offset s df dr.

Definition opp (d : dir) : dir :=
  match d with
  | DN => DS | DE => DW | DS => DN | DW => DE
  | DNE => DSW | DSE => DNW | DSW => DNE | DNW => DSE
  end.

(* walk along d from s until the board edge or the first occupied square (included) *)
Fixpoint walk (fuel : nat) (d : dir) (s : N) (occ : N) : list N :=
  match fuel with
  | O => []
  | S k => match step d s with
           | None => []
           | Some t => t :: (if N.testbit occ t then [] else walk k d t occ)
           end
  end.

(* the squares of the ray from s (exclusive) whose successor is still on the board *)
Fixpoint inner (fuel : nat) (d : dir) (s : N) : list N :=
  match fuel with
  | O => []
  | S k => match step d s with
           | None => []
           | Some t => match step d t with
                       | None => []
                       | Some _ => t :: inner k d t
                       end
           end
  end.

Definition bb_of (l : list N) : N := fold_right (fun s acc => N.lor (N.shiftl 1 s) acc) 0 l.

Definition slide (dirs : list dir) (s occ : N) : N :=
  bb_of (concat (map (fun d => walk 7 d s occ) dirs)).

Definition ray (d : dir) (s : N) : N := bb_of (walk 7 d s 0).

Definition somes {A} (l : list (option A)) : list A :=
  flat_map (fun o => match o with Some x => [x] | None => [] end) l.

Definition knight_deltas : list (Z * Z) :=
  [(1,2);(2,1);(2,-1);(1,-2);(-1,-2);(-2,-1);(-2,1);(-1,2)]%Z.
Definition knight_targets (s : N) : list N :=
  somes (map (fun '(df, dr) => offset s df dr) knight_deltas).
Definition king_targets (s : N) : list N := somes (map (fun d => step d s) all_dirs).

(* colour: 0 = White (moves north), 1 = Black *)
Definition pawn_attack_targets (c : N) (s : N) : list N :=
  if c =? 0 then somes [step DNW s; step DNE s] else somes [step DSW s; step DSE s].

Definition squares64 : list N := map N.of_nat (seq 0 64).

(* squares strictly between a and b when they share a line, else nothing *)
Definition between (a b : N) : N :=
  fold_right N.lor 0
    (map (fun d =>
            let w := walk 7 d a (N.shiftl 1 b) in
            if existsb (N.eqb b) w then bb_of (removelast w) else 0) all_dirs).

Definition zabs_diff (a b : N) : N := if a <=? b then b - a else a - b.
Definition sq_distance (a b : N) : N :=
  N.max (zabs_diff (file_of a) (file_of b)) (zabs_diff (rank_of a) (rank_of b)).

(* distance to the nearest of the four centre squares d4,e4,d5,e5 = 27,28,35,36 *)
Definition center_distance (s : N) : N :=
  N.min (N.min (sq_distance s 27) (sq_distance s 28)) (N.min (sq_distance s 35) (sq_distance s 36)).

Definition bb_filter (p : N -> bool) : N := bb_of (filter p squares64).

Definition files_west (s : N) := bb_filter (fun t => file_of t <? file_of s).
Definition files_east (s : N) := bb_filter (fun t => file_of s <? file_of t).
Definition file_west (s : N) := bb_filter (fun t => file_of t + 1 =? file_of s).
Definition file_east (s : N) := bb_filter (fun t => file_of t =? file_of s + 1).
Definition ranks_north (s : N) := bb_filter (fun t => rank_of s <? rank_of t).
Definition ranks_south (s : N) := bb_filter (fun t => rank_of t <? rank_of s).
Definition neighbour_files (s : N) := N.lor (file_west s) (file_east s).
(* passed pawn mask: squares ahead on the own and the adjacent files *)
Definition passed_mask (c s : N) :=
  bb_filter (fun t => (zabs_diff (file_of t) (file_of s) <=? 1) &&
                      (if c =? 0 then rank_of s <? rank_of t else rank_of t <? rank_of s)).
(* colour of squares: a1 is dark (= "Black" table), b1 light *)
Definition squares_of_colour (c : N) :=
  bb_filter (fun t => ((file_of t + rank_of t) mod 2 =? 0) && (c =? 1)
                   || ((file_of t + rank_of t) mod 2 =? 1) && (c =? 0)).

(* castling rights lost when a piece moves from / to this square:
   bit0 = white O-O, bit1 = white O-O-O, bit2 = black O-O, bit3 = black O-O-O *)
Definition castling_by_square (s : N) : N :=
  if s =? 4 then 3 else if s =? 0 then 2 else if s =? 7 then 1
  else if s =? 60 then 12 else if s =? 56 then 8 else if s =? 63 then 4 else 0.
