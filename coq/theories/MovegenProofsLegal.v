(** * MovegenProofsLegal: GenerateLegalMoves = the legal moves of the rules (C01).

    [gen_legal prom_nq is_legal v mode] is GenerateLegalMoves relative to a legality oracle
    on 16-bit move codes (movegen.go:184: FilterCopy with position.IsLegalMove).

    PROVED
    - [legal_moves_exact_oracle]  for every oracle that agrees with [Rules.is_legal] on the
                          pseudo-legal moves (hypothesis [Hagree]), the legal move list is a
                          permutation of [map code (Rules.legal p)], without duplicates;
    - [engine_legal_agrees]  the engine's IsLegalMove, i.e. AttacksImpl.is_legal_impl on the view
                          of the position and the view after DoMove, is such an oracle — this
                          is the other development's theorem AttacksLegalProofs.legal_pre_post_agree
                          (the view after DoMove is the view of [Rules.make p m]: position
                          refinement, proved elsewhere);
    - [legal_moves_exact]   hence GenerateLegalMoves with the engine's IsLegalMove is exact. *)
From Coq Require Import NArith ZArith List Bool Lia ZifyN ZifyBool Permutation.
From FG Require Import Word64 Geom Tables TablesCorrect ShiftCorrect Rules BitView
                       AttacksImpl AttacksLemmas AttacksProofs AttacksMoves AttacksCheckProofs AttacksLegalProofs
                       MoveEnc SqListFacts MovegenImpl MovegenLemmas MovegenSpec
                       MovegenProofsOD MovegenProofsPieces MovegenProofsPawns MovegenProofsMain.
Import ListNotations.
Open Scope N_scope.

(** ** decoding a move code *)
Definition decode (c : N) : mv := mkmv (From c) (To c) (MoveType c) (PromotionType c).

Lemma decode_code' m : valid_mv m -> decode (code m) = m.
Proof.
  intros H. destruct (code_fields m H) as (A & B & C & D). unfold decode. rewrite A, B, C, D. now destruct m.
Qed.

Lemma spec_legal_code_code p m : valid_mv m -> spec_legal_code p (code m) = is_legal p m.
Proof. intros H. unfold spec_legal_code. fold (decode (code m)). now rewrite decode_code'. Qed.

(** ** filters and permutations *)
Lemma perm_filter {A} (f : A -> bool) l l' : Permutation l l' -> Permutation (filter f l) (filter f l').
Proof.
  induction 1 as [|x l l' H IH|x y l|l l' l'' H1 IH1 H2 IH2]; cbn [filter].
  - reflexivity.
  - destruct (f x); [now constructor|exact IH].
  - destruct (f x), (f y); try reflexivity. apply perm_swap.
  - now transitivity (filter f l').
Qed.

Lemma filter_map_code (f : N -> bool) (l : list mv) :
  filter f (map code l) = map code (filter (fun m => f (code m)) l).
Proof.
  induction l as [|x l IH]; cbn [map filter]; [reflexivity|]. destruct (f (code x)); cbn [map]; now rewrite IH.
Qed.

Section Legal.
Variable prom_nq : bool.
Variable p : pos.
Hypothesis Hlegal : legal_pos p = true.
Let v := view_of_spec p.

(* the legality oracle: position.IsLegalMove on move codes *)
Variable is_legal_eng : N -> bool.
Hypothesis Hagree : forall m, In m (pseudo p) -> is_legal_eng (code m) = is_legal p m.

Theorem legal_moves_exact_oracle : exists l,
  gen_legal prom_nq is_legal_eng v 3 = Some l /\ Permutation l (map code (legal p)) /\ NoDup l.
Proof.
  destruct (pseudo_exact prom_nq p Hlegal) as (L & HL & PL & NL). fold v in HL.
  exists (filter is_legal_eng L). unfold gen_legal. rewrite HL. cbn [bind]. split; [reflexivity|]. split.
  - rewrite (perm_filter is_legal_eng _ _ PL), filter_map_code. unfold legal.
    rewrite (filter_ext_in _ (is_legal p)); [reflexivity|]. intros m Hm. now apply Hagree.
  - now apply NoDup_filter.
Qed.

End Legal.

(** ** the engine's IsLegalMove *)
(* IsLegalMove(code) on position p: the model of AttacksImpl on the view of p and on the view
   after DoMove, which the position refinement identifies with the view of [make p m] *)
Definition eng_legal (p : pos) (c : N) : bool :=
  match is_legal_impl (view_of_spec p) (view_of_spec (make p (decode c))) c with
  | Some x => x | None => false end.

Theorem engine_legal_agrees p m : legal_pos p = true -> In m (pseudo p) -> eng_legal p (code m) = is_legal p m.
Proof.
  intros Hl Hm. unfold eng_legal.
  rewrite decode_code' by (apply (pseudo_valid p m); [now apply legal_wfp|exact Hm]).
  destruct (legal_pre_post_agree p m Hl Hm) as [H _]. now rewrite H.
Qed.

Theorem legal_moves_exact prom_nq p : legal_pos p = true -> exists l,
  gen_legal prom_nq (eng_legal p) (view_of_spec p) 3 = Some l /\
  Permutation l (map code (legal p)) /\ NoDup l.
Proof.
  intros Hl. apply legal_moves_exact_oracle; [exact Hl|]. intros m Hm. now apply engine_legal_agrees.
Qed.

(* the same with the specification's own legality test as oracle *)
Theorem legal_moves_exact_spec prom_nq p : legal_pos p = true -> exists l,
  gen_legal prom_nq (spec_legal_code p) (view_of_spec p) 3 = Some l /\
  Permutation l (map code (legal p)) /\ NoDup l.
Proof.
  intros Hl. apply legal_moves_exact_oracle; [exact Hl|]. intros m Hm.
  apply spec_legal_code_code. apply (pseudo_valid p m); [now apply legal_wfp|exact Hm].
Qed.

Print Assumptions legal_moves_exact.
