(** * MovegenProofsLegal: GenerateLegalMoves = the legal moves of the rules (C01).

    [gen_legal prom_nq is_legal v mode] is GenerateLegalMoves relative to a legality oracle
    on 16-bit move codes (movegen.go:184: FilterCopy with position.IsLegalMove).

    PROVED
    - [legal_moves_exact_oracle]  for every oracle that agrees with [Rules.is_legal] on the
                          pseudo-legal moves (hypothesis [Hagree]), the legal move list is a
                          permutation of [map code (Rules.legal p)], without duplicates;
    - [engine_legal_agrees]  the engine's IsLegalMove, i.e. AttacksImpl.is_legal_impl on the view
                          of the position and the view after DoMove, is such an oracle — this
                          is the other development's theorem AttacksLegalProofs.legal_pre_post_agree
                          (the view after DoMove is the view of [Rules.make p m]: position
                          refinement, proved elsewhere);
    - [legal_moves_exact]   hence GenerateLegalMoves with the engine's IsLegalMove is exact;
    - [perft_exact]         the node count obtained by recursively generating legal moves with the
                            engine's generator and making them ([perft_gen]) equals the
                            rule-defined [Rules.perft], for every legal position and depth
                            (uses MovegenMakeLegal.make_preserves_legal_pos; the successor
                            position of a move is [Rules.make], which the position refinement
                            identifies with DoMove). *)
From Coq Require Import NArith ZArith List Bool Lia ZifyN ZifyBool Permutation.
From FG Require Import Word64 Geom Tables TablesCorrect ShiftCorrect Rules BitView
                       AttacksImpl AttacksLemmas AttacksProofs AttacksMoves AttacksCheckProofs AttacksLegalProofs
                       MoveEnc SqListFacts MovegenImpl MovegenLemmas MovegenSpec
                       MovegenProofsOD MovegenProofsPieces MovegenProofsPawns MovegenProofsMain MovegenMakeLegal.
Import ListNotations.
Open Scope N_scope.

(** ** decoding a move code *)
Definition decode (c : N) : mv := mkmv (From c) (To c) (MoveType c) (PromotionType c).

Lemma decode_code' m : valid_mv m -> decode (code m) = m.
Proof.
  intros H. destruct (code_fields m H) as (A & B & C & D). unfold decode. rewrite A, B, C, D. now destruct m.
Qed.

Lemma spec_legal_code_code p m : valid_mv m -> spec_legal_code p (code m) = is_legal p m.
Proof. intros H. unfold spec_legal_code. fold (decode (code m)). now rewrite decode_code'. Qed.

(** ** filters and permutations *)
Lemma perm_filter {A} (f : A -> bool) l l' : Permutation l l' -> Permutation (filter f l) (filter f l').
Proof.
  induction 1 as [|x l l' H IH|x y l|l l' l'' H1 IH1 H2 IH2]; cbn [filter].
  - reflexivity.
  - destruct (f x); [now constructor|exact IH].
  - destruct (f x), (f y); try reflexivity. apply perm_swap.
  - now transitivity (filter f l').
Qed.

Lemma filter_map_code (f : N -> bool) (l : list mv) :
  filter f (map code l) = map code (filter (fun m => f (code m)) l).
Proof.
  induction l as [|x l IH]; cbn [map filter]; [reflexivity|]. destruct (f (code x)); cbn [map]; now rewrite IH.
Qed.

Section Legal.
Variable prom_nq : bool.
Variable p : pos.
Hypothesis Hlegal : legal_pos p = true.
Let v := view_of_spec p.

(* the legality oracle: position.IsLegalMove on move codes *)
Variable is_legal_eng : N -> bool.
Hypothesis Hagree : forall m, In m (pseudo p) -> is_legal_eng (code m) = is_legal p m.

Theorem legal_moves_exact_oracle : exists l,
  gen_legal prom_nq is_legal_eng v 3 = Some l /\ Permutation l (map code (legal p)) /\ NoDup l.
Proof.
  destruct (pseudo_exact prom_nq p Hlegal) as (L & HL & PL & NL). fold v in HL.
  exists (filter is_legal_eng L). unfold gen_legal. rewrite HL. cbn [bind]. split; [reflexivity|]. split.
  - rewrite (perm_filter is_legal_eng _ _ PL), filter_map_code. unfold legal.
    rewrite (filter_ext_in _ (is_legal p)); [reflexivity|]. intros m Hm. now apply Hagree.
  - now apply NoDup_filter.
Qed.

End Legal.

(** ** the engine's IsLegalMove *)
(* IsLegalMove(code) on position p: the model of AttacksImpl on the view of p and on the view
   after DoMove, which the position refinement identifies with the view of [make p m] *)
Definition eng_legal (p : pos) (c : N) : bool :=
  match is_legal_impl (view_of_spec p) (view_of_spec (make p (decode c))) c with
  | Some x => x | None => false end.

Theorem engine_legal_agrees p m : legal_pos p = true -> In m (pseudo p) -> eng_legal p (code m) = is_legal p m.
Proof.
  intros Hl Hm. unfold eng_legal.
  rewrite decode_code' by (apply (pseudo_valid p m); [now apply legal_wfp|exact Hm]).
  destruct (legal_pre_post_agree p m Hl Hm) as [H _]. now rewrite H.
Qed.

Theorem legal_moves_exact prom_nq p : legal_pos p = true -> exists l,
  gen_legal prom_nq (eng_legal p) (view_of_spec p) 3 = Some l /\
  Permutation l (map code (legal p)) /\ NoDup l.
Proof.
  intros Hl. apply legal_moves_exact_oracle; [exact Hl|]. intros m Hm. now apply engine_legal_agrees.
Qed.

(* the same with the specification's own legality test as oracle *)
Theorem legal_moves_exact_spec prom_nq p : legal_pos p = true -> exists l,
  gen_legal prom_nq (spec_legal_code p) (view_of_spec p) 3 = Some l /\
  Permutation l (map code (legal p)) /\ NoDup l.
Proof.
  intros Hl. apply legal_moves_exact_oracle; [exact Hl|]. intros m Hm.
  apply spec_legal_code_code. apply (pseudo_valid p m); [now apply legal_wfp|exact Hm].
Qed.


(** ** perft *)
Fixpoint perft_gen (prom_nq : bool) (d : nat) (p : pos) : option N :=
  match d with
  | O => Some 1
  | S k => do l <- gen_legal prom_nq (eng_legal p) (view_of_spec p) 3;
           fold_right (fun c acc => do a <- perft_gen prom_nq k (make p (decode c)); do s <- acc; Some (a + s))
                      (Some 0) l
  end.

Lemma fold_some (g : N -> option N) (h : N -> N) l : (forall c, In c l -> g c = Some (h c)) ->
  fold_right (fun c acc => do a <- g c; do s <- acc; Some (a + s)) (Some 0) l =
  Some (fold_right (fun c acc => h c + acc) 0 l).
Proof.
  induction l as [|x l IH]; intros H; cbn [fold_right]; [reflexivity|].
  rewrite (H x (or_introl eq_refl)), IH by (intros c Hc; apply H; now right). reflexivity.
Qed.

Lemma sum_perm (h : N -> N) l l' : Permutation l l' ->
  fold_right (fun c acc => h c + acc) 0 l = fold_right (fun c acc => h c + acc) 0 l'.
Proof.
  induction 1 as [|x l l' H IH|x y l|l l' l'' H1 IH1 H2 IH2]; cbn [fold_right]; [reflexivity|lia|lia|congruence].
Qed.

Theorem perft_exact prom_nq d : forall p, legal_pos p = true -> perft_gen prom_nq d p = Some (perft d p).
Proof.
  induction d as [|k IH]; intros p Hl; [reflexivity|].
  cbn [perft_gen perft]. destruct (legal_moves_exact prom_nq p Hl) as (l & Hg & Pl & _). rewrite Hg. cbn [bind].
  assert (Hw : wfp p) by now apply legal_wfp.
  assert (Hdec : forall m, In m (legal p) -> decode (code m) = m).
  { intros m Hm. apply decode_code'. apply (pseudo_valid p m Hw). unfold legal in Hm. now apply filter_In in Hm. }
  rewrite (fold_some _ (fun c => perft k (make p (decode c)))).
  - f_equal. rewrite (sum_perm _ _ _ Pl). clear - Hdec.
    induction (legal p) as [|m r IHr]; cbn [map fold_right]; [reflexivity|].
    rewrite (Hdec m (or_introl eq_refl)). f_equal. apply IHr. intros x Hx. apply Hdec. now right.
  - intros c Hc. apply (Permutation_in _ Pl) in Hc. apply in_map_iff in Hc as [m [<- Hm]].
    rewrite (Hdec m Hm). apply IH. now apply make_preserves_legal_pos.
Qed.

Print Assumptions legal_moves_exact.
Print Assumptions perft_exact.
