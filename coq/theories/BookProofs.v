(** * BookProofs — theorems about BookModel (property C19)

    Part B (first in this file, plain Coq lists): the three readers
      [tokens_simple_render], [tokens_san_words], [tokens_san_render], [rav_loop_fuel_enough],
      [rav_loop_strip], [pgn_clean_words], [tokens_pgn_render], [pgn_slices_render].
    Part A (std++ finite maps): the book under concurrent construction
      [schedule_counts_general], [book_schedule_independent], [book_positions_counts_schedule_free],
      [game_steps_state_free], [seq_build_is_a_schedule], [parallel_equals_sequential],
      [prefix_only], [book_edges_sound], [book_moves_legal_once],
      [edge_parent_depends_on_schedule] (Example).
    Part C: whole files and format independence
      [file_games_simple], [file_games_san], [file_games_pgn], [formats_agree],
      the findings [finding_*] (texts on which the readers disagree), [book_case_ok_sound].

    Section hypothesis (allowed by the task): [resolve_legal] in Section Legal only.

    CLEAN TOKENS.  The reader theorems state more than "the right moves are found": the token list
    handed to processSingleMove is EXACTLY the list of move strings that were rendered — no move
    number, dot, NAG, bracket or blank stays glued to a move.  This matters for the current engine,
    whose GetMoveFromUci/GetMoveFromSan match the whole token (a token such as "3.e4", "e4," or
    "e2e4x" is unreadable and ends the line there).  The renderers produce "3.e4" only in the
    form number-glued-to-move, which the number pass of processSanLine separates ([N_num]). *)

From Coq Require Import NArith List Bool Arith Lia ZifyN ZifyBool Permutation.
From FG Require Import BookModel.
Import ListNotations.

Local Open Scope N_scope.

(* ========================================================================= *)
(** * Part B — the three readers                                              *)
(* ========================================================================= *)

(** ** Generic facts about the replace-all scanner *)
Section RaLemmas.
  Variable m : str -> option nat.
  Variable r : str.

  Lemma ra_skip_len x : forall b, ra m r (length x) (x ++ b) = ra m r 0 b.
  Proof. induction x as [|c x IH]; intros b; simpl; [reflexivity | apply IH]. Qed.

  Lemma ra_hit c x b :
    m ((c :: x) ++ b) = Some (length (c :: x)) -> ra m r 0 ((c :: x) ++ b) = r ++ ra m r 0 b.
  Proof. intros H. simpl in *. rewrite H. now rewrite ra_skip_len. Qed.

  (** no match starts inside a (with b behind it) *)
  Definition nomatch_in (a b : str) : Prop :=
    forall a1 c a2, a = a1 ++ c :: a2 -> m (c :: a2 ++ b) = None.

  Lemma ra_pass a : forall b, nomatch_in a b -> ra m r 0 (a ++ b) = a ++ ra m r 0 b.
  Proof.
    induction a as [|c a IH]; intros b H; [reflexivity|].
    simpl. rewrite (H [] c a eq_refl). f_equal. apply IH.
    intros a1 c' a2 ->. apply (H (c :: a1) c' a2 eq_refl).
  Qed.

  Lemma nomatch_in_app a1 a2 b :
    nomatch_in a1 (a2 ++ b) -> nomatch_in a2 b -> nomatch_in (a1 ++ a2) b.
  Proof.
    intros H1 H2 x c y Heq.
    revert x Heq. induction a1 as [|d a1 IH]; intros x Heq.
    - simpl in Heq. eapply H2; eauto.
    - destruct x as [|d' x]; simpl in Heq; injection Heq as Hd Heq.
      + subst c. rewrite <- Heq, <- app_assoc. apply (H1 [] d a1 eq_refl).
      + subst d'. apply IH with (x := x); [|exact Heq].
        intros z1 c' z2 Hz. subst a1. apply (H1 (d :: z1) c' z2 eq_refl).
  Qed.

  Lemma ra_id a : nomatch_in a [] -> ra m r 0 a = a.
  Proof. intros H. rewrite <- (app_nil_r a) at 1. rewrite ra_pass by exact H. simpl. now rewrite app_nil_r. Qed.

  Lemma has_match_false a : nomatch_in a [] -> has_match m a = false.
  Proof.
    induction a as [|c a IH]; intros H; [reflexivity|]. simpl.
    pose proof (H [] c a eq_refl) as H0. rewrite app_nil_r in H0. rewrite H0.
    apply IH. intros a1 c' a2 ->. apply (H (c :: a1) c' a2 eq_refl).
  Qed.
End RaLemmas.

(** matchers with a fixed first character *)
Definition starts_only (m : str -> option nat) (c0 : N) : Prop :=
  forall c t, c <> c0 -> m (c :: t) = None.

Lemma nomatch_no_start m c0 a b : starts_only m c0 -> ~ In c0 a -> nomatch_in m a b.
Proof.
  intros Hs Hn a1 c a2 ->. apply Hs. intros ->. apply Hn. apply in_or_app. right. now left.
Qed.

Lemma m_nag_starts : starts_only m_nag 36.
Proof. intros c t Hc. simpl. destruct (N.eqb_spec c 36); [congruence | reflexivity]. Qed.
Lemma m_delim_starts op cl : starts_only (m_delim op cl) op.
Proof. intros c t Hc. simpl. destruct (N.eqb_spec c op); [congruence | reflexivity]. Qed.

(** ** strings.TrimSpace *)

(** trim_right computed from the left *)
Fixpoint tr (s : str) : str :=
  match s with
  | [] => []
  | c :: t => match tr t with
              | [] => if is_space_trim c then [] else [c]
              | t' => c :: t'
              end
  end.

Lemma trim_left_snoc a c :
  trim_left (a ++ [c]) =
  match trim_left a with
  | [] => if is_space_trim c then [] else [c]
  | a' => a' ++ [c]
  end.
Proof.
  induction a as [|d a IH]; simpl; [reflexivity|].
  destruct (is_space_trim d); [exact IH | reflexivity].
Qed.

Lemma trim_right_tr s : trim_right s = tr s.
Proof.
  unfold trim_right. induction s as [|c s IH]; [reflexivity|].
  simpl. rewrite trim_left_snoc. rewrite <- IH.
  destruct (trim_left (rev s)) as [|d l]; simpl.
  - destruct (is_space_trim c); reflexivity.
  - rewrite rev_app_distr. simpl. destruct (rev l ++ [d]) eqn:E; [destruct (rev l); discriminate | reflexivity].
Qed.

Definition last_nonspace (s : str) : Prop := exists a c, s = a ++ [c] /\ is_space_trim c = false.

Lemma tr_nonspace_end s : last_nonspace s -> tr s = s.
Proof.
  intros (a & c & -> & Hc). induction a as [|d a IH]; simpl.
  - now rewrite Hc.
  - rewrite IH. destruct (a ++ [c]) eqn:E; [destruct a; discriminate | reflexivity].
Qed.

Lemma tr_app_nonspace_end a b : last_nonspace a -> tr (a ++ b) = a ++ tr b.
Proof.
  intros (x & c & -> & Hc). induction x as [|d x IH]; simpl.
  - destruct (tr b) as [|n l]; [now rewrite Hc | reflexivity].
  - rewrite IH. destruct (tr b) as [|n l]; simpl.
    + destruct ((x ++ [c]) ++ []) eqn:E; [destruct x; discriminate | reflexivity].
    + destruct ((x ++ [c]) ++ n :: l) eqn:E; [destruct x; discriminate | reflexivity].
Qed.

Lemma tr_spaces n : tr (repeat 32 n) = [].
Proof. induction n as [|n IH]; simpl; [reflexivity | now rewrite IH]. Qed.

Lemma trim_left_nonspace c t : is_space_trim c = false -> trim_left (c :: t) = c :: t.
Proof. intros H. simpl. now rewrite H. Qed.

Lemma trim_space_id c a d :
  is_space_trim c = false -> is_space_trim d = false -> trim_space (c :: a ++ [d]) = c :: a ++ [d].
Proof.
  intros Hc Hd. unfold trim_space. rewrite trim_left_nonspace by exact Hc. rewrite trim_right_tr.
  apply tr_nonspace_end. exists (c :: a), d. auto.
Qed.

Lemma trim_space_id1 c : is_space_trim c = false -> trim_space [c] = [c].
Proof. intros Hc. unfold trim_space. rewrite trim_left_nonspace by exact Hc. rewrite trim_right_tr. simpl. now rewrite Hc. Qed.

(** a string whose first and last characters are not white space is not changed *)
Lemma trim_space_id_gen s c t :
  s = c :: t -> is_space_trim c = false -> last_nonspace s -> trim_space s = s.
Proof.
  intros -> Hc Hl. unfold trim_space. rewrite trim_left_nonspace by exact Hc. rewrite trim_right_tr.
  now apply tr_nonspace_end.
Qed.

(* ========================================================================= *)
(** ** Simple format *)

Lemma is_file_not_rank c : is_file c = true -> is_rank c = false.
Proof. unfold is_file, is_rank, in_range. lia. Qed.
Lemma is_file_not_space c : is_file c = true -> is_space_trim c = false.
Proof. unfold is_file, is_space_trim, in_range. lia. Qed.
Lemma is_rank_not_space c : is_rank c = true -> is_space_trim c = false.
Proof. unfold is_rank, is_space_trim, in_range. lia. Qed.
Lemma is_promo_not_space c : is_promo_letter c = true -> is_space_trim c = false.
Proof. unfold is_promo_letter, is_space_trim, in_range. lia. Qed.

Definition stail (rest : list (bool * str)) : str :=
  concat (map (fun su : bool * str => (if fst su then [32] else []) ++ snd su) rest).

Lemma stail_cons sp u rest : stail ((sp, u) :: rest) = (if sp then [32] else []) ++ u ++ stail rest.
Proof. unfold stail. simpl. now rewrite <- app_assoc. Qed.

(** what can follow a move in a rendered line: nothing, a blank, or the next move *)
Inductive follow : str -> Prop :=
| fo_nil : follow []
| fo_sp t : follow (32 :: t)
| fo_mv a b t : is_file a = true -> is_rank b = true -> follow (a :: b :: t).

Lemma stail_follow rest : Forall (fun su => uci_ok (snd su) = true) rest -> follow (stail rest).
Proof.
  intros H. destruct rest as [|[sp u] rest]; [constructor|].
  apply Forall_inv in H. simpl in H. rewrite stail_cons.
  destruct sp; simpl; [constructor|].
  destruct u as [|a [|b [|c [|d u]]]]; try discriminate.
  unfold is_move4 in H.
  assert (is_file a = true /\ is_rank b = true) as [Ha Hb].
  { destruct u as [|p [|]]; try discriminate; simpl in H; unfold is_move4 in H; split; lia. }
  now constructor.
Qed.

Lemma simple_promo_follow R : follow R -> simple_promo R = [].
Proof.
  intros [|t|a b t Ha Hb]; [reflexivity|reflexivity|].
  unfold simple_promo.
  assert (E1 : (a =? 110) || (a =? 114) || (a =? 113) || (a =? 78) || (a =? 82) || (a =? 81) = false)
    by (unfold is_file, in_range in Ha; lia).
  rewrite E1. rewrite Hb. simpl. now rewrite andb_false_r.
Qed.

Lemma simple_promo_letter p R : is_promo_letter p = true -> follow R -> simple_promo (p :: R) = [p].
Proof.
  intros Hp HR. unfold simple_promo.
  destruct ((p =? 110) || (p =? 114) || (p =? 113) || (p =? 78) || (p =? 82) || (p =? 81)) eqn:E1; [reflexivity|].
  assert (E2 : (p =? 98) || (p =? 66) = true) by (unfold is_promo_letter in Hp; lia).
  rewrite E2. simpl.
  destruct HR as [|t|a b t Ha Hb]; [reflexivity | reflexivity |].
  now rewrite (is_file_not_rank a Ha).
Qed.

(** scanning over the promotion letter / a blank finds nothing *)
Lemma simple_scan_skip1 c R :
  (is_file c = false \/ follow R) -> (is_file c = true -> follow R) ->
  simple_scan 0 (c :: R) = simple_scan 0 R.
Proof.
  intros _ H. simpl.
  destruct R as [|b [|c2 [|d R]]]; try reflexivity.
  destruct (is_move4 c b c2 d) eqn:E; [|reflexivity].
  exfalso. unfold is_move4 in E.
  assert (Hc : is_file c = true) by (destruct (is_file c); [reflexivity | discriminate]).
  specialize (H Hc). inversion H as [| |a' b' t' Ha' Hb']; subst.
  - unfold is_rank, in_range in E. simpl in E. rewrite Hc in E. discriminate.
  - rewrite (is_file_not_rank _ Ha') in E. rewrite Hc in E. discriminate.
Qed.

Lemma simple_scan_move u R :
  uci_ok u = true -> follow R -> simple_scan 0 (u ++ R) = u :: simple_scan 0 R.
Proof.
  intros Hu HR.
  destruct u as [|a [|b [|c [|d [|p [|]]]]]]; try discriminate; simpl in Hu.
  - (* four characters *)
    change ([a; b; c; d] ++ R) with (a :: b :: c :: d :: R).
    cbn [simple_scan]. rewrite Hu. rewrite (simple_promo_follow R HR). reflexivity.
  - apply andb_prop in Hu as [Hm Hp].
    change ([a; b; c; d; p] ++ R) with (a :: b :: c :: d :: p :: R).
    cbn [simple_scan]. rewrite Hm. rewrite (simple_promo_letter p R Hp HR). f_equal.
    apply simple_scan_skip1; auto.
Qed.

Lemma simple_scan_stail rest :
  Forall (fun su => uci_ok (snd su) = true) rest ->
  simple_scan 0 (stail rest) = map snd rest.
Proof.
  induction rest as [|[sp u] rest IH]; intros H; [reflexivity|].
  pose proof (Forall_inv H) as Hu. apply Forall_inv_tail in H. simpl in Hu.
  rewrite stail_cons.
  simpl map.
  assert (Hm : simple_scan 0 (u ++ stail rest) = u :: map snd rest).
  { rewrite simple_scan_move; [now rewrite IH | exact Hu | now apply stail_follow]. }
  destruct sp; [|exact Hm].
  change ([32] ++ u ++ stail rest) with (32 :: (u ++ stail rest)).
  rewrite simple_scan_skip1; [exact Hm | left; reflexivity | discriminate].
Qed.

Lemma uci_ok_ends u : uci_ok u = true ->
  (exists c t, u = c :: t /\ is_space_trim c = false) /\ last_nonspace u.
Proof.
  intros Hu. destruct u as [|a [|b [|c [|d [|p [|]]]]]]; try discriminate; simpl in Hu.
  - unfold is_move4 in Hu. split; [exists a, [b;c;d]; split; [reflexivity|apply is_file_not_space; lia]|].
    exists [a;b;c], d. split; [reflexivity | apply is_rank_not_space; lia].
  - apply andb_prop in Hu as [Hm Hp]. unfold is_move4 in Hm.
    split; [exists a, [b;c;d;p]; split; [reflexivity|apply is_file_not_space; lia]|].
    exists [a;b;c;d], p. split; [reflexivity | now apply is_promo_not_space].
Qed.

Lemma last_nonspace_app a b : last_nonspace b -> last_nonspace (a ++ b).
Proof. intros (x & c & -> & Hc). exists (a ++ x), c. now rewrite app_assoc. Qed.

Lemma stail_last rest :
  rest <> [] -> Forall (fun su => uci_ok (snd su) = true) rest -> last_nonspace (stail rest).
Proof.
  induction rest as [|[sp u] rest IH]; intros Hne H; [congruence|].
  pose proof (Forall_inv H) as Hu. apply Forall_inv_tail in H. simpl in Hu.
  rewrite stail_cons.
  apply last_nonspace_app.
  destruct rest as [|x rest].
  - unfold stail. simpl. rewrite app_nil_r. now apply uci_ok_ends.
  - apply last_nonspace_app. apply IH; [discriminate | exact H].
Qed.

(** C19 / Simple reader: a line of coordinate moves, separated by blanks or not, with promotion
    letters, is read as exactly these moves *)
Theorem tokens_simple_render u rest :
  uci_ok u = true -> Forall (fun su => uci_ok (snd su) = true) rest ->
  tokens_simple (render_simple u rest) = Some (u :: map snd rest).
Proof.
  intros Hu Hr. unfold tokens_simple, render_simple. fold (stail rest).
  destruct (uci_ok_ends u Hu) as ((c & t & -> & Hc) & Hl).
  assert (Htrim : trim_space ((c :: t) ++ stail rest) = (c :: t) ++ stail rest).
  { eapply trim_space_id_gen; [reflexivity | exact Hc |].
    destruct rest as [|x rest]; [unfold stail; simpl; now rewrite app_nil_r|].
    apply last_nonspace_app. apply stail_last; [discriminate | exact Hr]. }
  rewrite Htrim. rewrite simple_scan_move; [|exact Hu | now apply stail_follow].
  now rewrite simple_scan_stail.
Qed.
(* ========================================================================= *)
(** ** processSanLine on a cleaned line *)

Definition spaced (Z : str) : Prop := Z = [] \/ exists Z', Z = 32 :: Z'.
Definition tokstr (s : str) : Prop :=
  s <> [] /\ forall c, In c s -> is_space_re c = false /\ is_space_trim c = false.

(** *** span *)
Lemma span_app p a r :
  forallb p a = true -> (r = [] \/ exists c r', r = c :: r' /\ p c = false) ->
  span p (a ++ r) = (length a, r).
Proof.
  intros Ha Hr. induction a as [|c a IH]; simpl in *.
  - destruct Hr as [->|(c & r' & -> & Hc)]; simpl; [reflexivity | now rewrite Hc].
  - apply andb_prop in Ha as [Hc Ha]. rewrite Hc, (IH Ha). reflexivity.
Qed.

Lemma span_spec p s :
  exists a r, s = a ++ r /\ span p s = (length a, r) /\ forallb p a = true /\
              (r = [] \/ exists c r', r = c :: r' /\ p c = false).
Proof.
  induction s as [|c s (a & r & -> & Hs & Ha & Hr)].
  - exists [], []. simpl. auto.
  - simpl. destruct (p c) eqn:Hc.
    + exists (c :: a), r. rewrite Hs. simpl. rewrite Hc, Ha. auto.
    + exists [], (c :: a ++ r). simpl. repeat split; auto. right. eauto.
Qed.

(** *** the move-number pattern *)
Lemma m_num_some x n : m_num x = Some n ->
  exists ds rest, x = ds ++ 46 :: rest /\ ds <> [] /\ forallb is_digit ds = true.
Proof.
  unfold m_num. destruct (span_spec is_digit x) as (a & r & -> & Hs & Ha & Hr). rewrite Hs.
  destruct a as [|d a]; [discriminate|]. simpl length. cbn [Nat.eqb].
  destruct r as [|c r]; [simpl; discriminate|].
  cbn [span]. destruct (N.eqb_spec 46 c) as [<-|Hne].
  - intros _. exists (d :: a), r. repeat split; auto; discriminate.
  - cbn. discriminate.
Qed.

Lemma app_eq_split (a Y ds rest : str) :
  a ++ Y = ds ++ 46 :: rest -> ~ In 46 a -> ~ In 46 ds ->
  exists ds', ds = a ++ ds' /\ Y = ds' ++ 46 :: rest.
Proof.
  revert ds. induction a as [|c a IH]; intros ds Heq Ha Hds.
  - exists ds. auto.
  - destruct ds as [|d ds]; simpl in Heq; injection Heq as Hc Heq.
    + exfalso. apply Ha. left. exact Hc.
    + subst d. destruct (IH ds Heq) as (ds' & -> & ->).
      * intros H. apply Ha. now right.
      * intros H. apply Hds. now right.
      * exists ds'. auto.
Qed.

Lemma digits_no_dot ds : forallb is_digit ds = true -> ~ In 46 ds.
Proof.
  intros H Hin. rewrite forallb_forall in H. specialize (H 46 Hin). discriminate.
Qed.

Definition num_safe (Y : str) : Prop :=
  Y = [] \/ exists c Y', Y = c :: Y' /\ is_digit c = false /\ c <> 46.

Lemma m_num_none a Y : ~ In 46 a -> num_safe Y -> m_num (a ++ Y) = None.
Proof.
  intros Ha HY. destruct (m_num (a ++ Y)) as [n|] eqn:E; [|reflexivity]. exfalso.
  destruct (m_num_some _ _ E) as (ds & rest & Heq & Hne & Hds).
  destruct (app_eq_split _ _ _ _ Heq Ha (digits_no_dot _ Hds)) as (ds' & -> & HYeq).
  destruct HY as [->|(c & Y' & -> & Hc & Hc46)].
  - destruct ds'; discriminate.
  - destruct ds' as [|d ds']; simpl in HYeq; injection HYeq as -> _; [congruence|].
    rewrite forallb_app in Hds. simpl in Hds. rewrite Hc in Hds. lia.
Qed.

Lemma nomatch_num s Y : ~ In 46 s -> num_safe Y -> nomatch_in m_num s Y.
Proof.
  intros Hs HY a1 c a2 ->. change (c :: a2 ++ Y) with ((c :: a2) ++ Y). apply m_num_none; [|exact HY].
  intros H. apply Hs. apply in_or_app. now right.
Qed.

Lemma spaced_num_safe Y : spaced Y -> num_safe Y.
Proof. intros [->|(Z & ->)]; [now left | right; exists 32, Z; repeat split; auto; discriminate]. Qed.

Lemma span_dots nd X :
  (X = [] \/ exists c X', X = c :: X' /\ c <> 46) -> span (N.eqb 46) (repeat 46 nd ++ X) = (nd, X).
Proof.
  intros HX. rewrite span_app.
  - now rewrite repeat_length.
  - induction nd; simpl; auto.
  - destruct HX as [->|(c & X' & -> & Hc)]; [now left | right; exists c, X'; split; auto].
    destruct (N.eqb_spec 46 c); congruence.
Qed.

Lemma skipn_repeat_app {A} (x : A) n l : skipn n (repeat x n ++ l) = l.
Proof. induction n; simpl; auto. Qed.

(** the pattern matches a move number exactly, plus one following blank *)
Lemma m_num_hit ds nd X :
  digits_ok ds 1000 = true -> (1 <= nd <= 3)%nat ->
  (X = [] \/ exists c X', X = c :: X' /\ c <> 46) ->
  m_num (ds ++ repeat 46 nd ++ X) =
  Some (length ds + nd + match X with c :: _ => if (c =? 32)%N then 1 else 0 | [] => 0 end)%nat.
Proof.
  intros Hds Hnd HX. unfold digits_ok in Hds. destruct ds as [|d ds]; [discriminate|].
  apply andb_prop in Hds as [Hds _].
  unfold m_num. rewrite span_app; [|exact Hds|].
  2:{ right. destruct nd as [|nd]; [lia|]. exists 46, (repeat 46 nd ++ X). auto. }
  simpl length. cbn [Nat.eqb]. rewrite (span_dots nd X HX). cbn [fst].
  replace (Nat.min 3 nd) with nd by lia.
  destruct nd as [|nd]; [lia|]. cbn [Nat.eqb].
  rewrite skipn_repeat_app. reflexivity.
Qed.

Definition N_ := ra m_num [] 0.
Definition R_ := ra m_res [] 0.

Lemma N_space Z : N_ (32 :: Z) = 32 :: N_ Z.
Proof. reflexivity. Qed.
Lemma N_spaces n Z : N_ (repeat 32 n ++ Z) = repeat 32 n ++ N_ Z.
Proof. induction n as [|n IH]; [reflexivity|]. simpl repeat. simpl app. now rewrite N_space, IH. Qed.

Lemma N_pass s Y : ~ In 46 s -> num_safe Y -> N_ (s ++ Y) = s ++ N_ Y.
Proof. intros Hs HY. unfold N_. apply ra_pass. now apply nomatch_num. Qed.

Lemma N_num ds nd X :
  digits_ok ds 1000 = true -> (1 <= nd <= 3)%nat ->
  (X = [] \/ exists c X', X = c :: X' /\ c <> 46) ->
  N_ (ds ++ repeat 46 nd ++ X) = N_ (match X with c :: X' => if c =? 32 then X' else X | [] => [] end).
Proof.
  intros Hds Hnd HX. pose proof (m_num_hit ds nd X Hds Hnd HX) as Hm.
  assert (Hne : exists d ds', ds = d :: ds') by (destruct ds; [discriminate | eauto]).
  destruct Hne as (d & ds' & ->).
  destruct X as [|c X'].
  - rewrite app_nil_r in *. simpl in Hm.
    change ((d :: ds') ++ repeat 46 nd) with (d :: (ds' ++ repeat 46 nd)) in *.
    pose proof (ra_hit m_num [] d (ds' ++ repeat 46 nd) []) as H. rewrite !app_nil_r in H.
    unfold N_. rewrite H; [reflexivity|]. rewrite Hm. f_equal. simpl. rewrite !app_length, repeat_length. lia.
  - destruct (N.eqb_spec c 32) as [->|Hc].
    + replace ((d :: ds') ++ repeat 46 nd ++ 32 :: X') with ((d :: (ds' ++ repeat 46 nd ++ [32])) ++ X')
        by (simpl; now rewrite <- !app_assoc).
      unfold N_. rewrite ra_hit; [reflexivity|].
      replace ((d :: ds' ++ repeat 46 nd ++ [32]) ++ X') with ((d :: ds') ++ repeat 46 nd ++ 32 :: X')
        by (simpl; now rewrite <- !app_assoc).
      rewrite Hm. f_equal. simpl. rewrite !app_length, repeat_length. simpl. lia.
    + replace ((d :: ds') ++ repeat 46 nd ++ c :: X') with ((d :: (ds' ++ repeat 46 nd)) ++ c :: X')
        by (simpl; now rewrite <- !app_assoc).
      unfold N_. rewrite ra_hit; [reflexivity|].
      replace ((d :: ds' ++ repeat 46 nd) ++ c :: X') with ((d :: ds') ++ repeat 46 nd ++ c :: X')
        by (simpl; now rewrite <- !app_assoc).
      rewrite Hm. f_equal. simpl. rewrite !app_length, repeat_length. lia.
Qed.

(** *** the result pattern *)
Lemma m_res_some x n : m_res x = Some n ->
  (exists t, x = 48 :: t) \/ (exists c t, x = 49 :: c :: t /\ (c = 45 \/ c = 47)).
Proof.
  unfold m_res. destruct x as [|c1 t]; [discriminate|].
  unfold m_res_grp at 1.
  destruct (N.eqb_spec c1 49) as [->|H49].
  - destruct t as [|c2 [|c3 t]].
    + simpl. discriminate.
    + simpl. destruct (N.eqb_spec c2 45) as [->|]; [|discriminate]. intros _. right. exists 45, []. auto.
    + destruct ((c2 =? 47) && (c3 =? 50)) eqn:E.
      * intros _. right. exists c2, (c3 :: t). split; [reflexivity|]. right. lia.
      * cbn [skipn]. destruct (N.eqb_spec c2 45) as [->|]; [|discriminate]. intros _. right. exists 45, (c3 :: t). auto.
  - destruct (N.eqb_spec c1 48) as [->|H48]; [|discriminate]. intros _. left. eauto.
Qed.

Lemma san_char_facts c : san_char c = true ->
  c <> 46 /\ c <> 48 /\ c <> 47 /\ c <> 32 /\ is_space_re c = false /\ is_space_trim c = false /\
  c <> 36 /\ c <> 123 /\ c <> 125 /\ c <> 60 /\ c <> 62 /\ c <> 40 /\ c <> 41 /\ c <> 59 /\ c <> 34 /\ c <> 37 /\ c <> 42.
Proof.
  unfold san_char, is_space_re, is_space_trim, is_file, is_rank, in_range. intros H. repeat split; lia.
Qed.

Lemma dash_ok_inside a1 : forall p c a2, dash_ok p (a1 ++ c :: 45 :: a2) = true -> c = 79.
Proof.
  induction a1 as [|d a1 IH]; intros p c a2 H; simpl in H.
  - apply andb_prop in H as [_ H]. apply andb_prop in H as [H _]. lia.
  - apply andb_prop in H as [_ H]. eapply IH; eauto.
Qed.

Lemma san_ok_chars s : san_ok s = true -> s <> [] /\ forallb san_char s = true /\ dash_ok 0 s = true.
Proof. unfold san_ok. destruct s; [discriminate|]. intros H. apply andb_prop in H as [H1 H2]. repeat split; auto; discriminate. Qed.

Lemma nomatch_res_tok s Y : san_ok s = true -> spaced Y -> nomatch_in m_res s Y.
Proof.
  intros Hs HY a1 c a2 Heq. destruct (san_ok_chars s Hs) as (_ & Hch & Hd).
  destruct (m_res (c :: a2 ++ Y)) as [n|] eqn:E; [|reflexivity]. exfalso.
  rewrite forallb_forall in Hch.
  assert (Hc : san_char c = true) by (apply Hch; subst s; apply in_or_app; right; now left).
  destruct (m_res_some _ _ E) as [(t & Ht)|(c2 & t & Ht & Hc2)].
  - injection Ht as -> _. apply san_char_facts in Hc. tauto.
  - injection Ht as -> Ht.
    destruct a2 as [|d a2].
    + simpl in Ht. destruct HY as [->|(Z & ->)]; [discriminate|]. injection Ht as <- _. lia.
    + simpl in Ht. injection Ht as -> _.
      assert (Hd2 : san_char c2 = true) by (apply Hch; subst s; apply in_or_app; right; right; now left).
      destruct Hc2 as [->| ->]; [|apply san_char_facts in Hd2; tauto].
      subst s. apply dash_ok_inside in Hd. discriminate.
Qed.

Lemma R_space Z : R_ (32 :: Z) = 32 :: R_ Z.
Proof. reflexivity. Qed.

Lemma R_tok s Y : san_ok s = true -> spaced Y -> R_ (s ++ Y) = s ++ R_ Y.
Proof. intros Hs HY. unfold R_. apply ra_pass. now apply nomatch_res_tok. Qed.

Lemma is_result_cases r : is_result r = true -> r = s_10 \/ r = s_01 \/ r = s_draw.
Proof.
  assert (Heq : forall a b, str_eqb a b = true -> a = b).
  { induction a as [|x a IH]; destruct b as [|y b]; simpl; try discriminate; auto.
    intros H. apply andb_prop in H as [H1 H2]. f_equal; [lia | auto]. }
  unfold is_result. intros H.
  destruct (str_eqb r s_10) eqn:E1; [left; auto|].
  destruct (str_eqb r s_01) eqn:E2; [right; left; auto|].
  right; right. apply Heq. exact H.
Qed.

Lemma R_result r Y : is_result r = true -> spaced Y -> R_ (r ++ Y) = R_ Y.
Proof.
  intros Hr HY. apply is_result_cases in Hr.
  destruct HY as [->|([|c Z] & ->)]; destruct Hr as [->|[->| ->]]; reflexivity.
Qed.

Lemma result_no_dot r : is_result r = true -> ~ In 46 r.
Proof.
  intros Hr. apply is_result_cases in Hr. destruct Hr as [->|[->| ->]]; simpl; intros H;
    repeat (destruct H as [H|H]; [discriminate|]); exact H.
Qed.

(** *** shape of a line after the number pass / after the result pass *)
Inductive nsh : str -> list str -> Prop :=
| nsh_nil : nsh [] []
| nsh_sp Z ts : nsh Z ts -> nsh (32 :: Z) ts
| nsh_tok s Z ts : san_ok s = true -> spaced Z -> nsh Z ts -> nsh (s ++ Z) (s :: ts)
| nsh_res r Z ts : is_result r = true -> spaced Z -> nsh Z ts -> nsh (r ++ Z) ts.

Inductive shaped : str -> list str -> Prop :=
| sh_nil : shaped [] []
| sh_sp Z ts : shaped Z ts -> shaped (32 :: Z) ts
| sh_tok s Z ts : tokstr s -> spaced Z -> shaped Z ts -> shaped (s ++ Z) (s :: ts).

Lemma san_ok_tokstr s : san_ok s = true -> tokstr s.
Proof.
  intros Hs. destruct (san_ok_chars s Hs) as (Hne & Hch & _). split; [exact Hne|].
  intros c Hc. rewrite forallb_forall in Hch. apply Hch, san_char_facts in Hc. tauto.
Qed.

Lemma R_spaced Z : spaced Z -> spaced (R_ Z).
Proof. intros [->|(Z' & ->)]; [now left | right; rewrite R_space; eauto]. Qed.

Lemma R_nsh Z ts : nsh Z ts -> shaped (R_ Z) ts.
Proof.
  induction 1 as [|Z ts _ IH|s Z ts Hs HZ _ IH|r Z ts Hr HZ _ IH].
  - constructor.
  - rewrite R_space. now constructor.
  - rewrite R_tok by assumption. constructor; [now apply san_ok_tokstr | now apply R_spaced | exact IH].
  - now rewrite R_result.
Qed.

(** *** regexp.Split on a shaped line *)
Lemma split_tok s : forall cur inws rest,
  (forall c, In c s -> is_space_re c = false) -> s <> [] ->
  split_ws cur inws (s ++ rest) = split_ws (rev s ++ cur) false rest.
Proof.
  induction s as [|c s IH]; intros cur inws rest Hs Hne; [congruence|].
  simpl. rewrite (Hs c) by now left.
  destruct s as [|d s].
  - reflexivity.
  - rewrite IH; [|intros x Hx; apply Hs; now right | discriminate].
    simpl. now rewrite <- !app_assoc.
Qed.

Lemma tr_cons_space Z : tr (32 :: Z) = match tr Z with [] => [] | t => 32 :: t end.
Proof. reflexivity. Qed.

Lemma tokstr_last s : tokstr s -> last_nonspace s.
Proof.
  intros [Hne Hs]. destruct (exists_last Hne) as (a & c & ->). exists a, c. split; [reflexivity|].
  apply Hs. apply in_or_app. right. now left.
Qed.

Lemma shaped_tr_nil Z ts : shaped Z ts -> tr Z = [] -> ts = [].
Proof.
  induction 1 as [|Z ts _ IH|s Z ts Hs HZ _ IH]; intros Ht; [reflexivity| |].
  - rewrite tr_cons_space in Ht. destruct (tr Z); [auto | discriminate].
  - rewrite (tr_app_nonspace_end s Z (tokstr_last s Hs)) in Ht.
    destruct Hs as [Hne _]. destruct s; [congruence | discriminate].
Qed.

Lemma split_shaped_aux Z ts : shaped Z ts ->
  (forall s, tokstr s -> spaced Z -> split_ws (rev s) false (tr Z) = s :: ts) /\
  (tr Z <> [] -> split_ws [] true (tr Z) = ts).
Proof.
  induction 1 as [|Z ts Hsh [IH1 IH2]|s Z ts Hs HZ Hsh [IH1 IH2]].
  - split; [|simpl; congruence]. intros s _ _. simpl. now rewrite rev_involutive.
  - split.
    + intros s Hs _. rewrite tr_cons_space. destruct (tr Z) as [|c t] eqn:E.
      * rewrite (shaped_tr_nil _ _ Hsh E). simpl. now rewrite rev_involutive.
      * cbn [split_ws]. cbn [is_space_re N.eqb orb]. simpl. rewrite rev_involutive. f_equal.
        apply IH2. discriminate.
    + rewrite tr_cons_space. destruct (tr Z) as [|c t] eqn:E; [congruence|]. intros _.
      cbn [split_ws]. simpl. apply IH2. discriminate.
  - pose proof (tr_app_nonspace_end s Z (tokstr_last s Hs)) as Htr.
    split.
    + intros s' _ [Hc|(Z' & Hc)].
      * destruct Hs as [Hne _]. destruct s; [congruence | discriminate].
      * exfalso. destruct Hs as [Hne Hs]. destruct s as [|c s]; [congruence|].
        injection Hc as -> _. specialize (Hs 32 (or_introl eq_refl)). destruct Hs; discriminate.
    + intros _. rewrite Htr. destruct Hs as [Hne Hs0].
      rewrite split_tok; [|intros c Hc; now apply Hs0 | exact Hne].
      rewrite app_nil_r. apply IH1; [split; assumption | exact HZ].
Qed.

Lemma trim_left_shaped Z ts : shaped Z ts -> ts <> [] ->
  exists s Z1 ts1, trim_left Z = s ++ Z1 /\ tokstr s /\ spaced Z1 /\ shaped Z1 ts1 /\ ts = s :: ts1.
Proof.
  induction 1 as [|Z ts _ IH|s Z ts Hs HZ Hsh _]; intros Hne; [congruence| |].
  - simpl. apply IH, Hne.
  - exists s, Z, ts. split; [|split; [exact Hs|split; [exact HZ|split; [exact Hsh|reflexivity]]]].
    destruct Hs as [Hn Hs]. destruct s as [|c s]; [congruence|].
    simpl. destruct (Hs c (or_introl eq_refl)) as [_ ->]. reflexivity.
Qed.

Lemma split_shaped Z ts : shaped Z ts -> ts <> [] -> split_ws [] false (trim_space Z) = ts.
Proof.
  intros Hsh Hne. destruct (trim_left_shaped Z ts Hsh Hne) as (s & Z1 & ts1 & Htl & Hs & HZ1 & Hsh1 & ->).
  unfold trim_space. rewrite Htl, trim_right_tr. rewrite (tr_app_nonspace_end s Z1 (tokstr_last s Hs)).
  destruct Hs as [Hn Hs0]. rewrite split_tok; [|intros c Hc; now apply Hs0 | exact Hn].
  rewrite app_nil_r. apply (split_shaped_aux Z1 ts1 Hsh1); [split; assumption | exact HZ1].
Qed.
(** *** word lists at the SAN stage: moves, move numbers, blanks, a result *)
Definition sword_ok (w : word) : bool :=
  match w with
  | WTok s => san_ok s
  | WNum ds nd => digits_ok ds 1000 && (1 <=? nd)%nat && (nd <=? 3)%nat
  | WBlank _ => true
  | WResult r => is_result r
  | _ => false
  end.
Definition sglue_ok (prev : word) (gw : gword) : bool :=
  negb (fst gw) || match prev, snd gw with WNum _ _, WTok _ => true | _, _ => false end.
Fixpoint sstage_ok (prev : word) (ws : list gword) : bool :=
  match ws with
  | [] => true
  | gw :: t => sword_ok (snd gw) && sglue_ok prev gw && sstage_ok (snd gw) t
  end.
Fixpoint stoks (ws : list gword) : list str :=
  match ws with
  | [] => []
  | (_, WTok s) :: t => s :: stoks t
  | _ :: t => stoks t
  end.

Lemma rline_cons g w t : rline ((g, w) :: t) = sep g ++ rw w ++ rline t.
Proof. unfold rline. simpl. now rewrite <- app_assoc. Qed.
Lemma rline_app a b : rline (a ++ b) = rline a ++ rline b.
Proof. unfold rline. now rewrite map_app, concat_app. Qed.

Lemma nsh_spaces n Z ts : nsh Z ts -> nsh (repeat 32 n ++ Z) ts.
Proof. intros H. induction n; simpl; [exact H | now constructor]. Qed.

Lemma san_ok_no_dot s : san_ok s = true -> ~ In 46 s.
Proof.
  intros Hs Hin. destruct (san_ok_chars s Hs) as (_ & Hch & _). rewrite forallb_forall in Hch.
  apply Hch, san_char_facts in Hin. tauto.
Qed.

Lemma num_ok_parts ds nd : sword_ok (WNum ds nd) = true -> digits_ok ds 1000 = true /\ (1 <= nd <= 3)%nat.
Proof.
  cbn [sword_ok]. intros H. apply andb_prop in H as [H H3]. apply andb_prop in H as [H1 H2].
  split; [exact H1|]. apply Nat.leb_le in H2, H3. lia.
Qed.

(** the number pass on a line of words (the first word without its blank) *)
Lemma N_words t : forall w,
  sword_ok w = true -> sstage_ok w t = true ->
  nsh (N_ (rw w ++ rline t)) (stoks ((false, w) :: t)).
Proof.
  induction t as [|[g' w'] t' IH]; intros w Hw Ht.
  - (* last word *)
    unfold rline. simpl concat.
    destruct w as [s|ds nd| | | | | |n|r]; try discriminate; cbn [sword_ok] in Hw; cbn [rw stoks].
    + rewrite N_pass; [|now apply san_ok_no_dot | now left].
      apply nsh_tok; [exact Hw | now left | constructor].
    + destruct (num_ok_parts ds nd Hw) as [Hds Hnd].
      rewrite <- app_assoc. rewrite N_num by auto. constructor.
    + rewrite N_spaces. apply nsh_spaces. constructor.
    + rewrite N_pass; [|now apply result_no_dot | now left].
      apply nsh_res; [exact Hw | now left | constructor].
  - cbn [sstage_ok] in Ht. apply andb_prop in Ht as [Ht Ht']. apply andb_prop in Ht as [Hw' Hg].
    cbn [snd] in *. specialize (IH w' Hw' Ht').
    rewrite rline_cons.
    assert (Hst : stoks ((false, w') :: t') = stoks ((g', w') :: t')) by reflexivity.
    destruct w as [s|ds nd| | | | | |n|r]; try discriminate; cbn [sword_ok] in Hw; cbn [rw].
    + (* a move: the next word carries no glue *)
      assert (g' = false) as -> by (unfold sglue_ok in Hg; simpl in Hg; destruct g'; [discriminate | reflexivity]).
      cbn [sep]. rewrite N_pass; [|now apply san_ok_no_dot | apply spaced_num_safe; right; eauto].
      change ([32] ++ rw w' ++ rline t') with (32 :: (rw w' ++ rline t')). rewrite N_space.
      cbn [stoks]. apply nsh_tok; [exact Hw | right; eauto | constructor; exact IH].
    + (* a move number: it disappears together with one following blank *)
      destruct (num_ok_parts ds nd Hw) as [Hds Hnd].
      change (stoks ((false, WNum ds nd) :: (g', w') :: t')) with (stoks ((false, w') :: t')).
      destruct g'.
      * (* glued move *)
        destruct w' as [s| | | | | | | |]; try (unfold sglue_ok in Hg; simpl in Hg; discriminate).
        cbn [sep rw app]. simpl in Hw'.
        destruct (san_ok_chars s Hw') as (Hne & Hch & _). destruct s as [|c s]; [congruence|].
        assert (Hc : san_char c = true) by (simpl in Hch; lia).
        apply san_char_facts in Hc.
        rewrite <- app_assoc.
        rewrite N_num; [|exact Hds|exact Hnd|right; exists c, (s ++ rline t'); split; [reflexivity|tauto]].
        change ((c :: s) ++ rline t') with (c :: (s ++ rline t')). cbv iota beta.
        destruct (N.eqb_spec c 32) as [->|_]; [tauto|]. exact IH.
      * cbn [sep]. change ([32] ++ rw w' ++ rline t') with (32 :: (rw w' ++ rline t')).
        rewrite <- app_assoc.
        rewrite N_num; [|exact Hds|exact Hnd|right; exists 32, (rw w' ++ rline t'); split; [reflexivity|discriminate]].
        cbv iota beta. rewrite N.eqb_refl. exact IH.
    + (* blanks *)
      assert (g' = false) as -> by (unfold sglue_ok in Hg; simpl in Hg; destruct g'; [discriminate | reflexivity]).
      rewrite N_spaces. cbn [sep]. change ([32] ++ rw w' ++ rline t') with (32 :: (rw w' ++ rline t')).
      rewrite N_space. cbn [stoks]. fold (stoks ((false, w') :: t')).
      apply nsh_spaces. constructor. exact IH.
    + (* a result *)
      assert (g' = false) as -> by (unfold sglue_ok in Hg; simpl in Hg; destruct g'; [discriminate | reflexivity]).
      cbn [sep]. rewrite N_pass; [|now apply result_no_dot | apply spaced_num_safe; right; eauto].
      change ([32] ++ rw w' ++ rline t') with (32 :: (rw w' ++ rline t')). rewrite N_space.
      cbn [stoks]. fold (stoks ((false, w') :: t')).
      apply nsh_res; [exact Hw | right; eauto | constructor; exact IH].
Qed.

(** *** trailing blanks *)
Definition is_blank (w : word) : bool := match w with WBlank _ => true | _ => false end.

Lemma split_trailing_blanks (t : list gword) :
  exists t' B, t = t' ++ B /\ Forall (fun gw => is_blank (snd gw) = true) B /\
               (t' = [] \/ exists t'' gw, t' = t'' ++ [gw] /\ is_blank (snd gw) = false).
Proof.
  induction t as [|gw t IH] using rev_ind.
  - exists [], []. auto.
  - destruct (is_blank (snd gw)) eqn:E.
    + destruct IH as (t' & B & -> & HB & Ht'). exists t', (B ++ [gw]). rewrite app_assoc.
      split; [reflexivity|]. split; [|exact Ht']. apply Forall_app. auto.
    + exists (t ++ [gw]), []. rewrite app_nil_r. split; [reflexivity|]. split; [constructor|]. right. eauto.
Qed.

Lemma sstage_ok_app p a b : sstage_ok p (a ++ b) = true -> sstage_ok p a = true.
Proof.
  revert p. induction a as [|gw a IH]; intros p H; [reflexivity|].
  simpl in *. apply andb_prop in H as [H1 H2]. rewrite H1. simpl. eauto.
Qed.

Lemma stoks_app a b : stoks (a ++ b) = stoks a ++ stoks b.
Proof.
  induction a as [|[g w] a IH]; [reflexivity|]. simpl. destruct w; simpl; now rewrite ?IH.
Qed.

Lemma stoks_blanks B : Forall (fun gw => is_blank (snd gw) = true) B -> stoks B = [].
Proof. induction 1 as [|[g w] B Hb _ IH]; [reflexivity|]. destruct w; try discriminate. exact IH. Qed.

Lemma all_space_tr s : (forall c, In c s -> c = 32) -> tr s = [].
Proof.
  induction s as [|c s IH]; intros H; [reflexivity|]. simpl. rewrite IH by (intros; apply H; now right).
  now rewrite (H c (or_introl eq_refl)).
Qed.

Lemma rline_blanks_spaces B : Forall (fun gw => is_blank (snd gw) = true) B -> forall c, In c (rline B) -> c = 32.
Proof.
  induction 1 as [|[g w] B Hb _ IH]; intros c Hc; [destruct Hc|].
  rewrite rline_cons in Hc. destruct w; try discriminate. simpl in Hc.
  apply in_app_or in Hc as [Hc|Hc]; [destruct g; simpl in Hc; [tauto | destruct Hc; [auto | tauto]]|].
  apply in_app_or in Hc as [Hc|Hc]; [now apply repeat_spec in Hc | now apply IH].
Qed.

Lemma tr_app_spaces a b : (forall c, In c b -> c = 32) -> tr (a ++ b) = tr a.
Proof.
  intros Hb. induction a as [|c a IH]; simpl; [now apply all_space_tr | now rewrite IH].
Qed.

Lemma sword_last_nonspace w : sword_ok w = true -> is_blank w = false -> last_nonspace (rw w).
Proof.
  destruct w as [s|ds nd| | | | | |n|r]; try discriminate; simpl; intros Hw _.
  - now apply tokstr_last, san_ok_tokstr.
  - destruct nd as [|nd]; [lia|]. exists (ds ++ repeat 46 nd), 46. split; [|reflexivity].
    rewrite <- app_assoc. f_equal. clear. induction nd; simpl; [reflexivity | now f_equal].
  - apply is_result_cases in Hw. destruct Hw as [->|[->| ->]].
    + exists [49;45], 48. auto.
    + exists [48;45], 49. auto.
    + exists [49;47;50;45;49;47], 50. auto.
Qed.

Lemma sstage_ok_in p t gw : sstage_ok p t = true -> In gw t -> sword_ok (snd gw) = true.
Proof.
  revert p. induction t as [|x t IH]; intros p H Hin; [destruct Hin|].
  simpl in H. apply andb_prop in H as [H1 H2]. apply andb_prop in H1 as [H1 _].
  destruct Hin as [->|Hin]; [exact H1 | eauto].
Qed.

Lemma trim_left_spaces k X : trim_left (repeat 32 k ++ X) = trim_left X.
Proof. induction k; simpl; auto. Qed.

Lemma digits_head ds : digits_ok ds 1000 = true ->
  exists d ds', ds = d :: ds' /\ is_digit d = true /\ forallb is_digit ds' = true.
Proof.
  unfold digits_ok. destruct ds as [|d ds]; [discriminate|]. simpl. intros H. exists d, ds. repeat split; lia.
Qed.

Lemma is_digit_not_space d : is_digit d = true -> is_space_trim d = false.
Proof. unfold is_digit, is_space_trim, in_range. lia. Qed.

(** C19 / SAN reader on a cleaned line: blanks, then a move number, then moves, move numbers,
    blanks and possibly a result, in any order — the tokens are exactly the moves *)
Theorem tokens_san_words k ds nd t :
  sword_ok (WNum ds nd) = true -> sstage_ok (WNum ds nd) t = true -> stoks t <> [] ->
  tokens_san (repeat 32 k ++ ds ++ repeat 46 nd ++ rline t) = Some (stoks t).
Proof.
  intros Hn Ht Hne.
  destruct (num_ok_parts ds nd Hn) as [Hds Hnd].
  destruct (digits_head ds Hds) as (d & ds' & -> & Hd & Hds').
  destruct (split_trailing_blanks t) as (t' & B & -> & HB & Hlast).
  assert (Ht' : sstage_ok (WNum (d :: ds') nd) t' = true) by (eapply sstage_ok_app; eauto).
  assert (Hst : stoks (t' ++ B) = stoks t') by (now rewrite stoks_app, (stoks_blanks B HB), app_nil_r).
  rewrite Hst in *.
  (* the first TrimSpace *)
  assert (Htrim : trim_space (repeat 32 k ++ (d :: ds') ++ repeat 46 nd ++ rline (t' ++ B))
                  = (d :: ds') ++ repeat 46 nd ++ rline t').
  { unfold trim_space. rewrite trim_left_spaces.
    change ((d :: ds') ++ repeat 46 nd ++ rline (t' ++ B)) with (d :: (ds' ++ repeat 46 nd ++ rline (t' ++ B))).
    rewrite trim_left_nonspace by now apply is_digit_not_space.
    rewrite trim_right_tr, rline_app.
    replace (d :: ds' ++ repeat 46 nd ++ rline t' ++ rline B)
      with (((d :: ds') ++ repeat 46 nd ++ rline t') ++ rline B)
      by (simpl; rewrite <- !app_assoc; reflexivity).
    rewrite tr_app_spaces by now apply rline_blanks_spaces.
    apply tr_nonspace_end.
    destruct Hlast as [->|(t'' & gw & -> & Hgw)].
    - unfold rline. simpl concat. rewrite app_nil_r.
      apply (sword_last_nonspace (WNum (d :: ds') nd)); [exact Hn | reflexivity].
    - rewrite rline_app. rewrite !app_assoc. apply last_nonspace_app.
      destruct gw as [g w]. rewrite rline_cons. unfold rline at 1. simpl concat. rewrite app_nil_r.
      apply last_nonspace_app. apply sword_last_nonspace; [|exact Hgw].
      eapply (sstage_ok_in _ _ (g, w) Ht'). apply in_or_app. right. now left. }
  unfold tokens_san. rewrite Htrim.
  assert (Hstart : san_line_start ((d :: ds') ++ repeat 46 nd ++ rline t') = true).
  { unfold san_line_start. destruct nd as [|nd]; [lia|].
    rewrite span_app; [reflexivity | simpl; lia |].
    right. exists 46, (repeat 46 nd ++ rline t'). auto. }
  rewrite Hstart. f_equal.
  pose proof (N_words t' (WNum (d :: ds') nd) Hn Ht') as HN.
  cbn [rw stoks] in HN. rewrite <- app_assoc in HN. fold (stoks t') in HN.
  apply R_nsh in HN. now apply split_shaped.
Qed.

(** *** SAN format *)
Lemma dec_digits_ok fuel : forall n acc,
  forallb is_digit acc = true -> forallb is_digit (dec_digits fuel n acc) = true /\
  (length (dec_digits fuel n acc) <= fuel + length acc)%nat /\
  (fuel <> O -> dec_digits fuel n acc <> []).
Proof.
  induction fuel as [|f IH]; intros n acc Hacc; simpl.
  - repeat split; auto; lia.
  - assert (Hd : is_digit (48 + n mod 10) = true).
    { unfold is_digit, in_range. pose proof (N.mod_lt n 10). lia. }
    destruct (n / 10 =? 0).
    + simpl. rewrite Hd, Hacc. split; [reflexivity|]. split; [lia | discriminate].
    + destruct (IH (n / 10) ((48 + n mod 10) :: acc)) as (H1 & H2 & H3); [simpl; now rewrite Hd, Hacc|].
      split; [exact H1|]. split; [simpl in H2; lia|].
      intros _. destruct f; [simpl; discriminate | now apply H3].
Qed.

Lemma decimal_ok n : digits_ok (decimal n) 1000 = true.
Proof.
  unfold decimal. destruct (dec_digits_ok 40 n [] eq_refl) as (H1 & H2 & H3).
  unfold digits_ok. destruct (dec_digits 40 n []) eqn:E; [now specialize (H3 ltac:(lia))|].
  rewrite H1. simpl in H2. simpl length. apply andb_true_intro. split; [reflexivity|]. apply Nat.leb_le. lia.
Qed.

Lemma san_words_ok glue g : forall no white prev,
  Forall (fun s => san_ok s = true) g ->
  (white = false -> match prev with WTok _ => True | _ => False end) ->
  (white = true -> match prev with WNum _ _ => False | _ => True end) ->
  sstage_ok prev (san_words glue no white g) = true /\ stoks (san_words glue no white g) = g.
Proof.
  induction g as [|s g IH]; intros no white prev Hg Hb Hw; [split; reflexivity|].
  pose proof (Forall_inv Hg) as Hs. apply Forall_inv_tail in Hg.
  destruct white; cbn [san_words].
  - destruct (IH no false (WTok s) Hg) as [IH1 IH2]; [auto | discriminate|].
    split; [|cbn [stoks]; now rewrite IH2].
    cbn [sstage_ok snd fst sword_ok]. rewrite (decimal_ok no), Hs, IH1.
    unfold sglue_ok. cbn [fst snd negb]. destruct glue; simpl; reflexivity.
  - destruct (IH (no + 1) true (WTok s) Hg) as [IH1 IH2]; [discriminate | auto|].
    split; [|cbn [stoks]; now rewrite IH2].
    cbn [sstage_ok snd fst sword_ok]. rewrite Hs, IH1. reflexivity.
Qed.

(** C19 / SAN reader: [1. e4 e5 2. Nf3 ...] or [1.e4 e5 2.Nf3 ...], optionally followed by
    1-0, 0-1 or 1/2-1/2, is read as exactly its moves *)
Theorem tokens_san_render glue g res :
  g <> [] -> Forall (fun s => san_ok s = true) g ->
  match res with Some r => is_result r = true | None => True end ->
  tokens_san (render_san glue g res) = Some g.
Proof.
  intros Hne Hg Hres. unfold render_san.
  destruct g as [|s g]; [congruence|]. cbn [san_words app rline0 rw].
  set (t := (glue, WTok s) :: san_words glue 1 false g ++
            match res with Some r => [(false, WResult r)] | None => [] end).
  pose proof (Forall_inv Hg) as Hs. apply Forall_inv_tail in Hg.
  destruct (san_words_ok glue g 1 false (WTok s) Hg) as [H1 H2]; [auto | discriminate|].
  assert (Hstok : stoks t = s :: g).
  { unfold t. cbn [stoks]. rewrite stoks_app, H2. destruct res; simpl; now rewrite app_nil_r. }
  assert (Hok : sstage_ok (WNum (decimal 1) 1) t = true).
  { unfold t. cbn [sstage_ok snd fst sword_ok]. rewrite Hs.
    assert (Hgl : sglue_ok (WNum (decimal 1) 1) (glue, WTok s) = true) by (unfold sglue_ok; simpl; destruct glue; reflexivity).
    rewrite Hgl. simpl andb.
    clear Hstok t. revert H1. generalize (WTok s) as p. generalize (san_words glue 1 false g) as l.
    induction l as [|x l IHl]; intros p Hp.
    - destruct res as [r|]; simpl; [|reflexivity]. simpl in Hres. now rewrite Hres.
    - simpl in *. apply andb_prop in Hp as [Hp1 Hp2]. rewrite Hp1. simpl. now apply IHl. }
  pose proof (tokens_san_words 0 (decimal 1) 1 t eq_refl Hok) as HT.
  rewrite Hstok in HT. apply HT. discriminate.
Qed.

(** non-vacuity: 1.e4 e5 2.Nf3 1/2-1/2 *)
Example tokens_san_render_ex :
  render_san true [[101;52];[101;53];[78;102;51]] (Some s_draw)
  = [49;46;101;52;32;101;53;32;50;46;78;102;51;32;49;47;50;45;49;47;50] /\
  tokens_san (render_san true [[101;52];[101;53];[78;102;51]] (Some s_draw)) = Some [[101;52];[101;53];[78;102;51]].
Proof. split; vm_compute; reflexivity. Qed.
(* ========================================================================= *)
(** ** processPgnGame: the three replace passes $n, {..}, <..> on a line of words *)

Section Pass.
  Variable m : str -> option nat.
  Variable c0 : N.
  Variable target : word -> bool.
  Variable Rok : str -> Prop.
  Hypothesis m_starts : starts_only m c0.
  Hypothesis c0_not_space : c0 <> 32.
  Hypothesis m_target : forall w R, target w = true -> word_ok w = true -> Rok R ->
      exists c x, rw w = c :: x /\ m (rw w ++ R) = Some (length (rw w)).

  Definition blank_target (gw : gword) : gword :=
    if target (snd gw) then (fst gw, WBlank 1) else gw.

  Fixpoint pass_pre (ws : list gword) : Prop :=
    match ws with
    | [] => True
    | (g, w) :: t => (if target w then word_ok w = true /\ Rok (rline t) else ~ In c0 (rw w)) /\ pass_pre t
    end.

  Lemma sep_no_c0 g : ~ In c0 (sep g).
  Proof. destruct g; simpl; [tauto|]. intros [H|[]]. congruence. Qed.

  Lemma pass_words ws : pass_pre ws -> ra m [32] 0 (rline ws) = rline (map blank_target ws).
  Proof.
    induction ws as [|[g w] t IH]; intros Hpre; [reflexivity|].
    destruct Hpre as [Hw Ht]. specialize (IH Ht).
    cbn [map]. unfold blank_target at 1. cbn [fst snd].
    rewrite rline_cons.
    rewrite (ra_pass m [32] (sep g)); [|apply (nomatch_no_start m c0); [exact m_starts | apply sep_no_c0]].
    destruct (target w) eqn:Etw.
    - destruct Hw as [Hwok HR]. destruct (m_target w (rline t) Etw Hwok HR) as (c & x & Hrw & Hm).
      rewrite rline_cons. cbn [rw repeat]. rewrite Hrw in *.
      rewrite ra_hit by exact Hm. now rewrite IH.
    - rewrite rline_cons.
      rewrite (ra_pass m [32] (rw w)); [|apply (nomatch_no_start m c0); [exact m_starts | exact Hw]].
      now rewrite IH.
  Qed.
End Pass.

(** characters of the words *)
Definition special (c : N) : Prop := c = 36 \/ c = 123 \/ c = 125 \/ c = 60 \/ c = 62 \/ c = 40 \/ c = 41 \/ c = 59 \/ c = 34.

Lemma san_ok_no_special s c : san_ok s = true -> In c s -> ~ special c.
Proof.
  intros Hs Hin. destruct (san_ok_chars s Hs) as (_ & Hch & _). rewrite forallb_forall in Hch.
  apply Hch, san_char_facts in Hin. unfold special. intuition congruence.
Qed.

Lemma digits_chars ds k c : digits_ok ds k = true -> In c ds -> is_digit c = true.
Proof.
  unfold digits_ok. destruct ds as [|d ds]; [discriminate|]. intros H Hin.
  apply andb_prop in H as [H _]. rewrite forallb_forall in H. now apply H.
Qed.

Lemma num_chars ds nd c : word_ok (WNum ds nd) = true -> In c (rw (WNum ds nd)) -> is_digit c = true \/ c = 46.
Proof.
  cbn [word_ok rw]. intros H Hin. apply andb_prop in H as [H _]. apply andb_prop in H as [H _].
  apply in_app_or in Hin as [Hin|Hin]; [left; eapply digits_chars; eauto | right; now apply repeat_spec in Hin].
Qed.

Lemma digit_not_special c : is_digit c = true \/ c = 46 -> ~ special c /\ c <> 32.
Proof. unfold is_digit, in_range, special. intros H. split; lia. Qed.

(** *** $n *)
Definition is_nag (w : word) : bool := match w with WNag _ => true | _ => false end.
Definition nondigit_start (R : str) : Prop := R = [] \/ exists c R', R = c :: R' /\ is_digit c = false.

Lemma m_nag_hit w R : is_nag w = true -> word_ok w = true -> nondigit_start R ->
  exists c x, rw w = c :: x /\ m_nag (rw w ++ R) = Some (length (rw w)).
Proof.
  destruct w as [| |ds| | | | | |]; try discriminate. intros _ Hw HR. cbn [word_ok] in Hw.
  exists 36, ds. split; [reflexivity|]. cbn [rw]. unfold m_nag. cbn [app N.eqb Pos.eqb].
  unfold digits_ok in Hw. destruct ds as [|d ds]; [discriminate|]. apply andb_prop in Hw as [Hd Hl].
  rewrite span_app; [|exact Hd|exact HR]. cbn [fst]. apply Nat.leb_le in Hl.
  replace (Nat.min 3 (length (d :: ds))) with (length (d :: ds)) by lia. reflexivity.
Qed.

(** *** {..} and <..> *)
Lemma scan_delim_body op cl body R :
  ~ In op body -> ~ In cl body -> scan_delim op cl (body ++ cl :: R) = Some (S (length body)).
Proof.
  induction body as [|c body IH]; intros Ho Hc; simpl.
  - now rewrite N.eqb_refl.
  - destruct (N.eqb_spec c cl) as [->|_]; [exfalso; apply Hc; now left|].
    destruct (N.eqb_spec c op) as [->|_]; [exfalso; apply Ho; now left|].
    rewrite IH; [reflexivity | intros H; apply Ho; now right | intros H; apply Hc; now right].
Qed.

Definition is_com (w : word) : bool := match w with WCom _ => true | _ => false end.
Definition is_ang (w : word) : bool := match w with WAng _ => true | _ => false end.

Lemma com_body_chars body c : forallb com_char body = true -> In c body ->
  c <> 123 /\ c <> 125 /\ c <> 59 /\ c <> 34 /\ c <> 36.
Proof. intros H Hin. rewrite forallb_forall in H. apply H in Hin. unfold com_char in Hin. lia. Qed.
Lemma ang_body_chars body c : forallb ang_char body = true -> In c body ->
  c <> 123 /\ c <> 125 /\ c <> 59 /\ c <> 34 /\ c <> 36 /\ c <> 60 /\ c <> 62.
Proof. intros H Hin. rewrite forallb_forall in H. apply H in Hin. unfold ang_char, com_char in Hin. lia. Qed.

Lemma m_brace_hit w R : is_com w = true -> word_ok w = true -> True ->
  exists c x, rw w = c :: x /\ m_brace (rw w ++ R) = Some (length (rw w)).
Proof.
  destruct w as [| | |body| | | | |]; try discriminate. intros _ Hw _. cbn [word_ok] in Hw.
  exists 123, (body ++ [125]). split; [reflexivity|]. cbn [rw]. unfold m_brace, m_delim.
  cbn [app N.eqb Pos.eqb]. rewrite <- app_assoc. cbn [app].
  rewrite scan_delim_body.
  - cbn [option_map length]. now rewrite app_length, Nat.add_1_r.
  - intros H. apply (com_body_chars body 123 Hw) in H. tauto.
  - intros H. apply (com_body_chars body 125 Hw) in H. tauto.
Qed.

Lemma m_angle_hit w R : is_ang w = true -> word_ok w = true -> True ->
  exists c x, rw w = c :: x /\ m_angle (rw w ++ R) = Some (length (rw w)).
Proof.
  destruct w as [| | | |body| | | |]; try discriminate. intros _ Hw _. cbn [word_ok] in Hw.
  exists 60, (body ++ [62]). split; [reflexivity|]. cbn [rw]. unfold m_angle, m_delim.
  cbn [app N.eqb Pos.eqb]. rewrite <- app_assoc. cbn [app].
  rewrite scan_delim_body.
  - cbn [option_map length]. now rewrite app_length, Nat.add_1_r.
  - intros H. apply (ang_body_chars body 60 Hw) in H. tauto.
  - intros H. apply (ang_body_chars body 62 Hw) in H. tauto.
Qed.

(** *** which words may occur at which stage *)
Definition pword_ok (w : word) : bool := word_ok w || is_blank w.

(** the three passes in sequence *)
Definition pass1 (ws : list gword) := map (blank_target is_nag) ws.
Definition pass2 (ws : list gword) := map (blank_target is_com) ws.
Definition pass3 (ws : list gword) := map (blank_target is_ang) ws.

Lemma rw_no_char w c0 : pword_ok w = true ->
  (c0 = 36 -> is_nag w = false) ->
  (c0 = 123 -> is_com w = false) ->
  (c0 = 60 -> is_ang w = false /\ is_com w = false) ->
  (c0 = 36 \/ c0 = 123 \/ c0 = 60) -> ~ In c0 (rw w).
Proof.
  intros Hw H36 H123 H60 Hc0 Hin. unfold pword_ok in Hw.
  destruct w as [s|ds nd|ds|body|body| | |n|r]; cbn [word_ok is_blank orb rw] in *; rewrite ?orb_false_r in Hw; try discriminate.
  - apply (san_ok_no_special s c0 Hw Hin). unfold special. lia.
  - apply (num_chars ds nd c0 Hw) in Hin. apply digit_not_special in Hin. unfold special in Hin. lia.
  - destruct Hin as [<-|Hin]; [specialize (H36 eq_refl); discriminate|].
    apply (digits_chars ds 3 c0 Hw) in Hin. unfold is_digit, in_range in Hin. lia.
  - destruct Hin as [<-|Hin]; [specialize (H123 eq_refl); discriminate|].
    apply in_app_or in Hin as [Hin|[<-|[]]].
    + apply (com_body_chars body c0 Hw) in Hin. destruct Hc0 as [->|[->| ->]]; try lia.
      destruct (H60 eq_refl); discriminate.
    + lia.
  - destruct Hin as [<-|Hin]; [destruct (H60 eq_refl); discriminate|].
    apply in_app_or in Hin as [Hin|[<-|[]]].
    + apply (ang_body_chars body c0 Hw) in Hin. lia.
    + lia.
  - destruct Hin as [<-|[]]. lia.
  - destruct Hin as [<-|[]]. lia.
  - apply repeat_spec in Hin. lia.
Qed.
(* ========================================================================= *)
(** ** The RAV loop: for regexRavVariants.MatchString(line) { ReplaceAllString(line, " ") } *)

(** what the loop computes on a balanced line, in one pass: everything inside parentheses is
    dropped, every top-level group becomes one blank *)
Fixpoint strip (d : nat) (s : str) : str :=
  match s with
  | [] => []
  | c :: t =>
    if c =? 40 then strip (S d) t
    else if c =? 41 then
      match d with
      | O => 41 :: strip 0 t
      | S O => 32 :: strip 0 t
      | S d' => strip d' t
      end
    else match d with O => c :: strip 0 t | _ => strip d t end
  end.

Fixpoint bal (d : nat) (s : str) : bool :=
  match s with
  | [] => (d =? 0)%nat
  | c :: t =>
    if c =? 40 then bal (S d) t
    else if c =? 41 then match d with O => false | S d' => bal d' t end
    else bal d t
  end.

Lemma scan_delim_spec op cl t n : scan_delim op cl t = Some n ->
  exists body rest, t = body ++ cl :: rest /\ n = S (length body) /\ ~ In op body /\ ~ In cl body.
Proof.
  revert n. induction t as [|c t IH]; intros n H; simpl in H; [discriminate|].
  destruct (N.eqb_spec c cl) as [->|Hcl].
  - injection H as <-. exists [], t. simpl. auto.
  - destruct (N.eqb_spec c op) as [->|Hop]; [discriminate|].
    destruct (scan_delim op cl t) as [k|] eqn:E; [|discriminate]. injection H as <-.
    destruct (IH k eq_refl) as (body & rest & -> & -> & Ho & Hc).
    exists (c :: body), rest. simpl. repeat split; auto; intros [?|?]; auto.
Qed.

Lemma m_paren_spec s n : m_paren s = Some n ->
  exists body rest, s = 40 :: body ++ 41 :: rest /\ n = S (S (length body)) /\ ~ In 40 body /\ ~ In 41 body.
Proof.
  unfold m_paren, m_delim. destruct s as [|c t]; [discriminate|].
  destruct (N.eqb_spec c 40) as [->|]; [|discriminate].
  destruct (scan_delim 40 41 t) as [k|] eqn:E; [|discriminate]. intros [= <-].
  destruct (scan_delim_spec _ _ _ _ E) as (body & rest & -> & -> & Ho & Hc). eauto 7.
Qed.

Lemma strip_inside d body R : ~ In 40 body -> ~ In 41 body -> strip (S d) (body ++ R) = strip (S d) R.
Proof.
  induction body as [|c body IH]; intros Ho Hc; [reflexivity|]. simpl.
  destruct (N.eqb_spec c 40) as [->|_]; [exfalso; apply Ho; now left|].
  destruct (N.eqb_spec c 41) as [->|_]; [exfalso; apply Hc; now left|].
  apply IH; intros H; [apply Ho | apply Hc]; now right.
Qed.
Lemma bal_inside d body R : ~ In 40 body -> ~ In 41 body -> bal d (body ++ R) = bal d R.
Proof.
  induction body as [|c body IH]; intros Ho Hc; [reflexivity|]. simpl.
  destruct (N.eqb_spec c 40) as [->|_]; [exfalso; apply Ho; now left|].
  destruct (N.eqb_spec c 41) as [->|_]; [exfalso; apply Hc; now left|].
  apply IH; intros H; [apply Ho | apply Hc]; now right.
Qed.

Definition P_ := ra m_paren [32] 0.

(** one pass changes neither the final answer nor the balance, and never lengthens the line *)
Lemma paren_pass_inv : forall n s, (length s <= n)%nat ->
  (forall d, strip d (P_ s) = strip d s) /\ (forall d, bal d (P_ s) = bal d s) /\
  (length (P_ s) <= length s)%nat /\
  (has_match m_paren s = true -> length (P_ s) < length s)%nat.
Proof.
  induction n as [|n IH]; intros s Hlen.
  - destruct s; [|simpl in Hlen; lia]. simpl. repeat split; auto; discriminate.
  - destruct s as [|c t]; [simpl; repeat split; auto; discriminate|].
    unfold P_. cbn [ra has_match]. destruct (m_paren (c :: t)) as [[|k]|] eqn:Em.
    + (* a match of length 0 is impossible *)
      destruct (m_paren_spec _ _ Em) as (? & ? & _ & ? & _). discriminate.
    + destruct (m_paren_spec _ _ Em) as (body & rest & Heq & Hk & Ho & Hc).
      injection Heq as -> ->. injection Hk as ->.
      replace (body ++ 41 :: rest) with ((body ++ [41]) ++ rest) by (now rewrite <- app_assoc).
      replace (S (length body)) with (length (body ++ [41])) by (rewrite app_length; simpl; lia).
      rewrite ra_skip_len. fold (P_ rest).
      assert (Hr : (length rest <= n)%nat) by (simpl in Hlen; rewrite app_length in Hlen; simpl in Hlen; lia).
      destruct (IH rest Hr) as (Hs & Hb & Hl & _).
      rewrite <- app_assoc. cbn [app].
      repeat split.
      * intros d. cbn [strip N.eqb Pos.eqb app]. rewrite (strip_inside d body (41 :: rest) Ho Hc).
        cbn [strip N.eqb Pos.eqb]. destruct d as [|d]; [now rewrite Hs | apply Hs].
      * intros d. cbn [bal N.eqb Pos.eqb app]. rewrite (bal_inside (S d) body (41 :: rest) Ho Hc).
        cbn [bal N.eqb Pos.eqb]. apply Hb.
      * cbn [length app]. rewrite app_length. simpl. lia.
      * intros _. cbn [length app]. rewrite app_length. simpl. lia.
    + assert (Hr : (length t <= n)%nat) by (simpl in Hlen; lia).
      destruct (IH t Hr) as (Hs & Hb & Hl & Hm). fold (P_ t).
      repeat split.
      * intros d. cbn [strip]. destruct (c =? 40); [apply Hs|]. destruct (c =? 41).
        -- destruct d as [|[|d]]; [now rewrite Hs | now rewrite Hs | apply Hs].
        -- destruct d; [now rewrite Hs | apply Hs].
      * intros d. cbn [bal]. destruct (c =? 40); [apply Hb|]. destruct (c =? 41); [|apply Hb].
        destruct d; [reflexivity | apply Hb].
      * simpl. lia.
      * intros H. specialize (Hm H). simpl. lia.
Qed.

(** termination of the real loop: every iteration that finds a match shortens the line, so the
    loop has ended after at most [length line] iterations — for EVERY line, balanced or not *)
Theorem rav_loop_fuel_enough : forall fuel s, (length s <= fuel)%nat ->
  has_match m_paren (rav_loop fuel s) = false.
Proof.
  induction fuel as [|f IH]; intros s Hlen.
  - destruct s; [reflexivity | simpl in Hlen; lia].
  - simpl. destruct (has_match m_paren s) eqn:E; [|exact E].
    apply IH. destruct (paren_pass_inv (length s) s (le_n _)) as (_ & _ & _ & Hlt).
    specialize (Hlt E). unfold P_ in Hlt. lia.
Qed.

Lemma scan_delim_some op cl t : ~ In op t -> In cl t -> exists n, scan_delim op cl t = Some n.
Proof.
  induction t as [|c t IH]; intros Ho Hc; [destruct Hc|]. simpl.
  destruct (N.eqb_spec c cl) as [->|Hne]; [eauto|].
  destruct (N.eqb_spec c op) as [->|_]; [exfalso; apply Ho; now left|].
  destruct IH as (n & ->); [intros H; apply Ho; now right | destruct Hc; [congruence | assumption] | eauto].
Qed.

Lemma bal_no_open_has_close t : forall d, bal (S d) t = true -> ~ In 40 t -> In 41 t.
Proof.
  induction t as [|c t IH]; intros d Hb Ho; [discriminate|]. simpl in Hb.
  destruct (N.eqb_spec c 40) as [->|_]; [exfalso; apply Ho; now left|].
  destruct (N.eqb_spec c 41) as [->|_]; [now left|].
  right. eapply IH; eauto. intros H; apply Ho; now right.
Qed.

Lemma nomatch_no_open s : forall d, bal d s = true -> has_match m_paren s = false -> ~ In 40 s.
Proof.
  induction s as [|c t IH]; intros d Hb Hm; [tauto|]. cbn [has_match] in Hm.
  destruct (m_paren (c :: t)) as [[|k]|] eqn:Em; try discriminate.
  - destruct (m_paren_spec _ _ Em) as (? & ? & _ & ? & _). discriminate.
  - cbn [bal] in Hb. destruct (N.eqb_spec c 40) as [->|Hc].
    + exfalso. pose proof (IH _ Hb Hm) as Hno.
      pose proof (bal_no_open_has_close t d Hb Hno) as Hcl.
      destruct (scan_delim_some 40 41 t Hno Hcl) as (n & Hn).
      unfold m_paren, m_delim in Em. cbn [N.eqb Pos.eqb] in Em. rewrite Hn in Em. discriminate.
    + intros [H|H]; [congruence|]. destruct (c =? 41).
      * destruct d; [discriminate | eapply IH; eauto].
      * eapply IH; eauto.
Qed.

Lemma bal0_no_open_no_close s : bal 0 s = true -> ~ In 40 s -> ~ In 41 s.
Proof.
  induction s as [|c t IH]; intros Hb Ho; [tauto|]. cbn [bal] in Hb.
  destruct (N.eqb_spec c 40) as [->|_]; [exfalso; apply Ho; now left|].
  destruct (N.eqb_spec c 41) as [->|Hc]; [discriminate|].
  intros [H|H]; [congruence|]. apply IH; auto. intros H'; apply Ho; now right.
Qed.

Lemma strip0_noparen s : ~ In 40 s -> ~ In 41 s -> strip 0 s = s.
Proof.
  induction s as [|c t IH]; intros Ho Hc; [reflexivity|]. cbn [strip].
  destruct (N.eqb_spec c 40) as [->|_]; [exfalso; apply Ho; now left|].
  destruct (N.eqb_spec c 41) as [->|_]; [exfalso; apply Hc; now left|].
  f_equal. apply IH; intros H; [apply Ho | apply Hc]; now right.
Qed.

(** on a balanced line the loop computes [strip 0] *)
Theorem rav_loop_strip : forall fuel s, (length s <= fuel)%nat -> bal 0 s = true ->
  rav_loop fuel s = strip 0 s.
Proof.
  induction fuel as [|f IH]; intros s Hlen Hb.
  - destruct s; [reflexivity | simpl in Hlen; lia].
  - simpl. destruct (paren_pass_inv (length s) s (le_n _)) as (Hs & Hbal & _ & Hlt).
    destruct (has_match m_paren s) eqn:E.
    + fold (P_ s). rewrite IH; [apply Hs | specialize (Hlt eq_refl); lia | now rewrite Hbal].
    + pose proof (nomatch_no_open s 0 Hb E) as Ho.
      symmetry. apply strip0_noparen; [exact Ho | now apply bal0_no_open_no_close].
Qed.

(** *** strip on a line of words *)
Definition is_paren (w : word) : bool := match w with WOpen | WClose => true | _ => false end.

Fixpoint wstrip (d : nat) (ws : list gword) : list gword :=
  match ws with
  | [] => []
  | (g, WOpen) :: t => (match d with O => [(g, WBlank 0)] | _ => [] end) ++ wstrip (S d) t
  | (g, WClose) :: t =>
    match d with
    | O => (g, WClose) :: wstrip 0 t
    | S O => (false, WBlank 0) :: wstrip 0 t
    | S d' => wstrip d' t
    end
  | gw :: t => (match d with O => [gw] | _ => [] end) ++ wstrip d t
  end.

Lemma strip_noparen a : ~ In 40 a -> ~ In 41 a -> forall d R,
  strip d (a ++ R) = (match d with O => a | _ => [] end) ++ strip d R.
Proof.
  induction a as [|c a IH]; intros Ho Hc d R; [destruct d; reflexivity|]. cbn [app strip].
  destruct (N.eqb_spec c 40) as [->|_]; [exfalso; apply Ho; now left|].
  destruct (N.eqb_spec c 41) as [->|_]; [exfalso; apply Hc; now left|].
  destruct d; (rewrite IH; [reflexivity | intros H; apply Ho; now right | intros H; apply Hc; now right]).
Qed.

Lemma sep_noparen g : ~ In 40 (sep g) /\ ~ In 41 (sep g).
Proof. destruct g; simpl; split; intros H; try tauto; destruct H as [H|[]]; discriminate. Qed.

(** words that remain after the three replace passes *)
Definition rword_ok (w : word) : bool :=
  match w with
  | WTok s => san_ok s
  | WNum ds nd => word_ok (WNum ds nd)
  | WOpen | WClose | WBlank _ => true
  | _ => false
  end.

Lemma rword_noparen w : rword_ok w = true -> is_paren w = false -> ~ In 40 (rw w) /\ ~ In 41 (rw w).
Proof.
  destruct w as [s|ds nd| | | | | |n|]; try discriminate; cbn [rword_ok rw]; intros Hw _.
  - split; intros H; apply (san_ok_no_special s _ Hw) in H; apply H; unfold special; lia.
  - split; intros H; apply (num_chars ds nd _ Hw), digit_not_special in H; unfold special in H; lia.
  - split; intros H; apply repeat_spec in H; discriminate.
Qed.

Lemma strip_words ws : forall d, forallb (fun gw => rword_ok (snd gw)) ws = true ->
  strip d (rline ws) = rline (wstrip d ws).
Proof.
  induction ws as [|[g w] t IH]; intros d Hok; [destruct d; reflexivity|].
  cbn [forallb snd] in Hok. apply andb_prop in Hok as [Hw Ht].
  rewrite rline_cons. destruct (sep_noparen g) as [Hs1 Hs2].
  rewrite (strip_noparen (sep g) Hs1 Hs2).
  destruct (is_paren w) eqn:Ep.
  - destruct w; try discriminate; cbn [rw app strip N.eqb Pos.eqb wstrip].
    + rewrite IH by exact Ht. destruct d; [|reflexivity].
      change ([(g, WBlank 0)] ++ wstrip 1 t) with ((g, WBlank 0) :: wstrip 1 t).
      now rewrite rline_cons.
    + destruct d as [|[|d]].
      * rewrite IH by exact Ht. now rewrite rline_cons.
      * rewrite IH by exact Ht. now rewrite rline_cons.
      * now rewrite IH by exact Ht.
  - destruct (rword_noparen w Hw Ep) as [Hr1 Hr2].
    rewrite (strip_noparen (rw w) Hr1 Hr2). rewrite IH by exact Ht.
    assert (Hws : wstrip d ((g, w) :: t) = (match d with O => [(g, w)] | _ => [] end) ++ wstrip d t)
      by (destruct w; try discriminate; reflexivity).
    rewrite Hws. destruct d; [|reflexivity].
    change ([(g, w)] ++ wstrip 0 t) with ((g, w) :: wstrip 0 t). now rewrite rline_cons.
Qed.

Lemma bal_words_bal ws : forall d, forallb (fun gw => rword_ok (snd gw)) ws = true ->
  bal d (rline ws) = bal_words d ws.
Proof.
  induction ws as [|[g w] t IH]; intros d Hok; [reflexivity|].
  cbn [forallb snd] in Hok. apply andb_prop in Hok as [Hw Ht].
  rewrite rline_cons. destruct (sep_noparen g) as [Hs1 Hs2].
  rewrite (bal_inside d (sep g) _ Hs1 Hs2).
  destruct (is_paren w) eqn:Ep.
  - destruct w; try discriminate; cbn [rw app bal N.eqb Pos.eqb bal_words].
    + now apply IH.
    + destruct d; [reflexivity | now apply IH].
  - destruct (rword_noparen w Hw Ep) as [Hr1 Hr2].
    rewrite (bal_inside d (rw w) _ Hr1 Hr2). rewrite IH by exact Ht.
    destruct w; try discriminate; reflexivity.
Qed.
(* ========================================================================= *)
(** ** the whole cleaning of a PGN move line, on words *)

Definition is_deco (w : word) : bool := is_nag w || is_com w || is_ang w.

Section Blanking.
  Variable tgt : word -> bool.
  Hypothesis tgt_deco : forall w, tgt w = true -> is_deco w = true.

  Definition img (w : word) : word := if tgt w then WBlank 1 else w.

  Lemma blank_target_img gw : blank_target tgt gw = (fst gw, img (snd gw)).
  Proof. unfold blank_target, img. destruct gw as [g w]. simpl. destruct (tgt w); reflexivity. Qed.

  Lemma glue_ok_img prev gw : glue_ok prev gw = true -> glue_ok (img prev) (blank_target tgt gw) = true.
  Proof.
    rewrite blank_target_img. destruct gw as [g w]. unfold glue_ok, img. cbn [fst snd].
    destruct g; [|reflexivity]. cbn [negb orb].
    pose proof (tgt_deco prev) as Hp. pose proof (tgt_deco w) as Hw.
    destruct (tgt prev) eqn:Ep, (tgt w) eqn:Ew;
      try specialize (Hp eq_refl); try specialize (Hw eq_refl);
      destruct prev; try discriminate; destruct w; try discriminate; auto.
  Qed.

  Lemma glues_ok_img ws : forall prev, glues_ok prev ws = true ->
    glues_ok (img prev) (map (blank_target tgt) ws) = true.
  Proof.
    induction ws as [|gw t IH]; intros prev H; [reflexivity|].
    cbn [glues_ok map] in *. apply andb_prop in H as [H1 H2].
    rewrite (glue_ok_img prev gw H1). rewrite blank_target_img at 1. cbn [snd andb]. now apply IH.
  Qed.

  Lemma bal_words_img ws : forall d, bal_words d (map (blank_target tgt) ws) = bal_words d ws.
  Proof.
    induction ws as [|[g w] t IH]; intros d; [reflexivity|]. cbn [map]. rewrite blank_target_img. cbn [fst snd].
    unfold img. pose proof (tgt_deco w) as Hw.
    destruct (tgt w); [specialize (Hw eq_refl); destruct w; try discriminate; cbn [bal_words]; apply IH|].
    destruct w; cbn [bal_words]; try apply IH. destruct d; [reflexivity | apply IH].
  Qed.

  Lemma top_toks_img ws : forall d, top_toks d (map (blank_target tgt) ws) = top_toks d ws.
  Proof.
    induction ws as [|[g w] t IH]; intros d; [reflexivity|]. cbn [map]. rewrite blank_target_img. cbn [fst snd].
    unfold img. pose proof (tgt_deco w) as Hw.
    destruct (tgt w); [specialize (Hw eq_refl); destruct w; try discriminate; cbn [top_toks]; apply IH|].
    destruct w; cbn [top_toks]; rewrite ?IH; reflexivity.
  Qed.

  Lemma starts_with_num_img ws : forall d, starts_with_num d (map (blank_target tgt) ws) = starts_with_num d ws.
  Proof.
    induction ws as [|[g w] t IH]; intros d; [reflexivity|]. cbn [map]. rewrite blank_target_img. cbn [fst snd].
    unfold img. pose proof (tgt_deco w) as Hw.
    destruct (tgt w); [specialize (Hw eq_refl); destruct w; try discriminate; cbn [starts_with_num]; apply IH|].
    destruct w; cbn [starts_with_num]; rewrite ?IH; reflexivity.
  Qed.
End Blanking.

Lemma img_blank tgt n : (forall w, tgt w = true -> is_deco w = true) -> img tgt (WBlank n) = WBlank n.
Proof. intros H. unfold img. destruct (tgt (WBlank n)) eqn:E; [apply H in E; discriminate | reflexivity]. Qed.

(** kinds of words present after each pass *)
Definition k1 (w : word) : bool := pword_ok w && negb (is_nag w).
Definition k2 (w : word) : bool := k1 w && negb (is_com w).
Definition k3 (w : word) : bool := k2 w && negb (is_ang w).

Lemma forallb_map_impl {A} (p q : A -> bool) (f : A -> A) l :
  (forall x, p x = true -> q (f x) = true) -> forallb p l = true -> forallb q (map f l) = true.
Proof.
  intros H. induction l as [|x l IH]; [reflexivity|]. simpl. intros Hp. apply andb_prop in Hp as [H1 H2].
  now rewrite (H x H1), IH.
Qed.

Lemma k0_k1 ws : forallb (fun gw : gword => word_ok (snd gw)) ws = true ->
  forallb (fun gw : gword => k1 (snd gw)) (pass1 ws) = true.
Proof.
  apply forallb_map_impl. intros [g w] H. cbn [snd] in *. unfold blank_target. cbn [snd fst].
  destruct (is_nag w) eqn:E; [reflexivity|]. cbn [snd]. unfold k1, pword_ok. now rewrite H, E.
Qed.
Lemma k1_k2 ws : forallb (fun gw : gword => k1 (snd gw)) ws = true ->
  forallb (fun gw : gword => k2 (snd gw)) (pass2 ws) = true.
Proof.
  apply forallb_map_impl. intros [g w] H. cbn [snd] in *. unfold blank_target. cbn [snd fst].
  destruct (is_com w) eqn:E; [reflexivity|]. cbn [snd]. unfold k2. now rewrite H, E.
Qed.
Lemma k2_k3 ws : forallb (fun gw : gword => k2 (snd gw)) ws = true ->
  forallb (fun gw : gword => k3 (snd gw)) (pass3 ws) = true.
Proof.
  apply forallb_map_impl. intros [g w] H. cbn [snd] in *. unfold blank_target. cbn [snd fst].
  destruct (is_ang w) eqn:E; [reflexivity|]. cbn [snd]. unfold k3. now rewrite H, E.
Qed.

Lemma k3_rword w : k3 w = true -> rword_ok w = true.
Proof.
  unfold k3, k2, k1, pword_ok. destruct w; cbn [word_ok is_blank is_nag is_com is_ang rword_ok negb orb andb];
    rewrite ?orb_false_r, ?andb_true_r, ?andb_false_r; auto.
Qed.

(** preconditions of the three passes *)
Lemma pass1_pre ws : forall prev,
  forallb (fun gw : gword => word_ok (snd gw)) ws = true -> glues_ok prev ws = true ->
  pass_pre 36 is_nag nondigit_start ws.
Proof.
  induction ws as [|[g w] t IH]; intros prev Hok Hgl; [exact I|].
  cbn [forallb snd] in Hok. apply andb_prop in Hok as [Hw Ht].
  cbn [glues_ok snd] in Hgl. apply andb_prop in Hgl as [_ Hgl].
  cbn [pass_pre]. split; [|eapply IH; eauto].
  destruct (is_nag w) eqn:E.
  - split; [exact Hw|]. destruct t as [|[g' w'] t']; [now left|].
    cbn [glues_ok] in Hgl. apply andb_prop in Hgl as [Hg _]. right.
    rewrite rline_cons. destruct g'.
    + destruct w; try discriminate. unfold glue_ok in Hg. cbn [fst snd negb orb] in Hg.
      destruct w'; try discriminate. exists 41, (rline t'). auto.
    + exists 32, (rw w' ++ rline t'). auto.
  - apply rw_no_char; try discriminate; auto. unfold pword_ok. now rewrite Hw.
Qed.

Lemma pass2_pre ws : forallb (fun gw : gword => k1 (snd gw)) ws = true ->
  pass_pre 123 is_com (fun _ => True) ws.
Proof.
  induction ws as [|[g w] t IH]; intros Hok; [exact I|].
  cbn [forallb snd] in Hok. apply andb_prop in Hok as [Hw Ht].
  cbn [pass_pre]. split; [|now apply IH]. unfold k1 in Hw. apply andb_prop in Hw as [Hw Hn].
  destruct (is_com w) eqn:E.
  - split; [|exact I]. destruct w; try discriminate. unfold pword_ok in Hw. cbn [is_blank] in Hw. now rewrite orb_false_r in Hw.
  - apply rw_no_char; try discriminate; auto.
Qed.

Lemma pass3_pre ws : forallb (fun gw : gword => k2 (snd gw)) ws = true ->
  pass_pre 60 is_ang (fun _ => True) ws.
Proof.
  induction ws as [|[g w] t IH]; intros Hok; [exact I|].
  cbn [forallb snd] in Hok. apply andb_prop in Hok as [Hw Ht].
  cbn [pass_pre]. split; [|now apply IH]. unfold k2, k1 in Hw.
  apply andb_prop in Hw as [Hw Hc]. apply andb_prop in Hw as [Hw Hn].
  destruct (is_ang w) eqn:E.
  - split; [|exact I]. destruct w; try discriminate. unfold pword_ok in Hw. cbn [is_blank] in Hw. now rewrite orb_false_r in Hw.
  - apply rw_no_char; try discriminate; auto. intros _. split; [exact E|]. destruct (is_com w); [discriminate|reflexivity].
Qed.

(** *** the words that survive, at the SAN stage *)
Definition grel (prev prev' : word) : Prop :=
  prev <> WOpen /\ (prev' = prev \/ (prev = WClose /\ prev' = WBlank 0)).

Lemma rword_sword w : rword_ok w = true -> is_paren w = false -> sword_ok w = true.
Proof. destruct w; try discriminate; auto. Qed.

Lemma grel_glue prev prev' g w :
  grel prev prev' -> is_paren w = false -> glue_ok prev (g, w) = true -> sglue_ok prev' (g, w) = true.
Proof.
  intros [Hno Hr] Hp Hg; unfold glue_ok, sglue_ok in *; cbn [fst snd] in *.
  destruct g; auto; cbn [negb orb] in *.
  destruct Hr as [->|[-> ->]].
  - destruct prev; try congruence; destruct w; try discriminate; auto.
  - destruct w; try discriminate; auto.
Qed.

Lemma wstrip_sstage ws : forall d prev prev',
  forallb (fun gw : gword => rword_ok (snd gw)) ws = true ->
  glues_ok prev ws = true -> bal_words d ws = true ->
  (d = O -> grel prev prev') ->
  sstage_ok prev' (wstrip d ws) = true.
Proof.
  induction ws as [|[g w] t IH]; intros d prev prev' Hok Hgl Hbal Hrel; [reflexivity|].
  cbn [forallb snd] in Hok. apply andb_prop in Hok as [Hw Ht].
  cbn [glues_ok snd] in Hgl. apply andb_prop in Hgl as [Hg Hgl].
  destruct (is_paren w) eqn:Ep.
  - destruct w; try discriminate; cbn [wstrip bal_words] in *.
    + (* ( *)
      destruct d as [|d].
      * destruct (Hrel eq_refl) as [Hno _].
        assert (g = false) as ->.
        { unfold glue_ok in Hg. cbn [fst snd] in Hg. destruct g; [|reflexivity]. destruct prev; try discriminate. congruence. }
        cbn [app sstage_ok snd sword_ok]. unfold sglue_ok. cbn [fst negb orb andb].
        eapply IH; eauto. discriminate.
      * cbn [app]. eapply IH; eauto. discriminate.
    + (* ) *)
      destruct d as [|[|d]]; [discriminate| |].
      * cbn [sstage_ok snd sword_ok]. unfold sglue_ok. cbn [fst negb orb andb].
        eapply IH; eauto. intros _. split; [discriminate | right; auto].
      * eapply IH; eauto. discriminate.
  - assert (Hws : wstrip d ((g, w) :: t) = (match d with O => [(g, w)] | _ => [] end) ++ wstrip d t)
      by (destruct w; try discriminate; reflexivity).
    assert (Hb : bal_words d t = true) by (destruct w; try discriminate; exact Hbal).
    change (sstage_ok prev' (wstrip d ((g, w) :: t)) = true).
    rewrite Hws. destruct d as [|d].
    + cbn [app sstage_ok snd]. rewrite (rword_sword w Hw Ep).
      rewrite (grel_glue prev prev' g w (Hrel eq_refl) Ep Hg). cbn [andb].
      eapply IH; eauto. intros _. split; [destruct w; discriminate | now left].
    + cbn [app]. eapply IH; eauto. discriminate.
Qed.

Lemma wstrip_stoks ws : forall d, bal_words d ws = true -> stoks (wstrip d ws) = top_toks d ws.
Proof.
  induction ws as [|[g w] t IH]; intros d Hb; [reflexivity|].
  destruct w; cbn [wstrip top_toks bal_words] in *;
    try (destruct d; cbn [app stoks Nat.eqb]; now rewrite IH).
  destruct d as [|[|d]]; [discriminate| |]; cbn [stoks pred]; now apply IH.
Qed.

Lemma wstrip_starts ws : forall d,
  forallb (fun gw : gword => rword_ok (snd gw)) ws = true ->
  bal_words d ws = true -> starts_with_num d ws = true ->
  exists pre g0 ds nd t, wstrip d ws = pre ++ (g0, WNum ds nd) :: t /\
                         Forall (fun gw => is_blank (snd gw) = true) pre.
Proof.
  induction ws as [|[g w] t IH]; intros d Hok Hb Hs; [discriminate|].
  cbn [forallb snd] in Hok. apply andb_prop in Hok as [Hw Ht].
  destruct w as [s|ds nd|ds|body|body| | |n|r]; try discriminate;
    cbn [wstrip starts_with_num bal_words] in *.
  - destruct d; [discriminate|]. cbn [Nat.eqb app] in *. now apply IH.
  - destruct d; cbn [Nat.eqb app] in *.
    + exists [], g, ds, nd, (wstrip 0 t). split; [reflexivity | constructor].
    + now apply IH.
  - destruct (IH (S d) Ht Hb Hs) as (pre & g0 & ds' & nd & t' & -> & Hpre).
    destruct d; cbn [app]; [|eauto 8].
    exists ((g, WBlank 0) :: pre), g0, ds', nd, t'. split; [reflexivity | constructor; auto].
  - destruct d as [|[|d]]; [discriminate| |]; cbn [pred] in Hs.
    + destruct (IH 0%nat Ht Hb Hs) as (pre & g0 & ds' & nd & t' & -> & Hpre).
      exists ((false, WBlank 0) :: pre), g0, ds', nd, t'. split; [reflexivity | constructor; auto].
    + now apply IH.
  - destruct (IH d Ht Hb Hs) as (pre & g0 & ds' & nd & t' & -> & Hpre).
    destruct d; cbn [app]; [|eauto 8].
    exists ((g, WBlank n) :: pre), g0, ds', nd, t'. split; [reflexivity | constructor; auto].
Qed.
Lemma nag_deco w : is_nag w = true -> is_deco w = true.
Proof. unfold is_deco. now intros ->. Qed.
Lemma com_deco w : is_com w = true -> is_deco w = true.
Proof. unfold is_deco. intros ->. now rewrite orb_true_r. Qed.
Lemma ang_deco w : is_ang w = true -> is_deco w = true.
Proof. unfold is_deco. intros ->. now rewrite orb_true_r. Qed.

Lemma sstage_split p a gw t : sstage_ok p (a ++ gw :: t) = true ->
  sword_ok (snd gw) = true /\ sstage_ok (snd gw) t = true.
Proof.
  revert p. induction a as [|x a IH]; intros p H; cbn [app sstage_ok] in H.
  - apply andb_prop in H as [H1 H2]. apply andb_prop in H1 as [H1 _]. auto.
  - apply andb_prop in H as [_ H]. eauto.
Qed.

Lemma all_spaces_repeat s : (forall c, In c s -> c = 32) -> s = repeat 32 (length s).
Proof.
  induction s as [|c s IH]; intros H; [reflexivity|]. simpl.
  rewrite (H c (or_introl eq_refl)). f_equal. apply IH. intros; apply H; now right.
Qed.

(** C19 / PGN reader, cleaning of the concatenated move line.  [ws] is any sequence of moves,
    move numbers, $n, {..}, <..> and (nested) parenthesised variations with the stated glue
    discipline; the tokens handed to processSingleMove are exactly the moves outside all
    parentheses. *)
Theorem pgn_clean_words ws :
  forallb (fun gw : gword => word_ok (snd gw)) ws = true ->
  glues_ok (WBlank 0) ws = true ->
  bal_words 0 ws = true ->
  starts_with_num 0 ws = true ->
  top_toks 0 ws <> [] ->
  tokens_san (pgn_clean (rline ws)) = Some (top_toks 0 ws).
Proof.
  intros Hok Hgl Hbal Hstart Hne. unfold pgn_clean.
  (* $n *)
  rewrite (pass_words m_nag 36 is_nag nondigit_start m_nag_starts ltac:(discriminate) m_nag_hit ws
             (pass1_pre ws _ Hok Hgl)).
  fold (pass1 ws). set (ws1 := pass1 ws).
  pose proof (k0_k1 ws Hok) as Hk1. fold ws1 in Hk1.
  (* {..} *)
  rewrite (pass_words m_brace 123 is_com (fun _ => True) (m_delim_starts 123 125) ltac:(discriminate)
             m_brace_hit ws1 (pass2_pre ws1 Hk1)).
  fold (pass2 ws1). set (ws2 := pass2 ws1).
  pose proof (k1_k2 ws1 Hk1) as Hk2. fold ws2 in Hk2.
  (* <..> *)
  rewrite (pass_words m_angle 60 is_ang (fun _ => True) (m_delim_starts 60 62) ltac:(discriminate)
             m_angle_hit ws2 (pass3_pre ws2 Hk2)).
  fold (pass3 ws2). set (ws3 := pass3 ws2).
  pose proof (k2_k3 ws2 Hk2) as Hk3. fold ws3 in Hk3.
  assert (Hr3 : forallb (fun gw : gword => rword_ok (snd gw)) ws3 = true).
  { rewrite forallb_forall in *. intros gw Hin. apply k3_rword. now apply Hk3. }
  (* what the passes preserve *)
  assert (Hgl3 : glues_ok (WBlank 0) ws3 = true).
  { pose proof (glues_ok_img is_nag nag_deco ws _ Hgl) as H1. rewrite (img_blank _ _ nag_deco) in H1.
    pose proof (glues_ok_img is_com com_deco _ _ H1) as H2. rewrite (img_blank _ _ com_deco) in H2.
    pose proof (glues_ok_img is_ang ang_deco _ _ H2) as H3. now rewrite (img_blank _ _ ang_deco) in H3. }
  assert (Hbal3 : bal_words 0 ws3 = true).
  { unfold ws3, ws2, ws1, pass3, pass2, pass1.
    now rewrite (bal_words_img _ ang_deco), (bal_words_img _ com_deco), (bal_words_img _ nag_deco). }
  assert (Htop3 : top_toks 0 ws3 = top_toks 0 ws).
  { unfold ws3, ws2, ws1, pass3, pass2, pass1.
    now rewrite (top_toks_img _ ang_deco), (top_toks_img _ com_deco), (top_toks_img _ nag_deco). }
  assert (Hst3 : starts_with_num 0 ws3 = true).
  { unfold ws3, ws2, ws1, pass3, pass2, pass1.
    now rewrite (starts_with_num_img _ ang_deco), (starts_with_num_img _ com_deco), (starts_with_num_img _ nag_deco). }
  (* the loop *)
  clearbody ws3. clear Hk3 Hk2 Hk1. clearbody ws2. clearbody ws1.
  rewrite rav_loop_strip; [|apply le_n | rewrite bal_words_bal; [exact Hbal3 | exact Hr3]].
  rewrite strip_words by exact Hr3.
  assert (Hgr : grel (WBlank 0) (WBlank 0)) by (split; [discriminate | now left]).
  pose proof (wstrip_sstage ws3 0 (WBlank 0) (WBlank 0) Hr3 Hgl3 Hbal3 (fun _ => Hgr)) as Hss.
  pose proof (wstrip_stoks ws3 0 Hbal3) as Hstk. rewrite Htop3 in Hstk.
  destruct (wstrip_starts ws3 0 Hr3 Hbal3 Hst3) as (pre & g0 & ds & nd & t & Hw & Hpre).
  rewrite Hw in Hss, Hstk |- *. destruct (sstage_split _ _ _ _ Hss) as [Hn Ht]. cbn [snd] in Hn, Ht.
  rewrite stoks_app, (stoks_blanks pre Hpre) in Hstk. cbn [app stoks] in Hstk.
  rewrite rline_app, rline_cons. cbn [rw].
  assert (Hsp : forall c, In c (rline pre ++ sep g0) -> c = 32).
  { intros c Hc. apply in_app_or in Hc as [Hc|Hc]; [now apply (rline_blanks_spaces pre Hpre)|].
    destruct g0; simpl in Hc; [tauto | destruct Hc; [auto | tauto]]. }
  replace (rline pre ++ sep g0 ++ (ds ++ repeat 46 nd) ++ rline t)
    with ((rline pre ++ sep g0) ++ ds ++ repeat 46 nd ++ rline t) by (now rewrite <- !app_assoc).
  rewrite (all_spaces_repeat _ Hsp).
  rewrite <- Hstk. apply tokens_san_words; [exact Hn | exact Ht | now rewrite Hstk].
Qed.
(* ========================================================================= *)
(** ** processPgnGame: the per-line cleaning, and processPgn: the slicing into games *)

Lemma str_eqb_eq a : forall b, str_eqb a b = true -> a = b.
Proof.
  induction a as [|x a IH]; destruct b as [|y b]; simpl; try discriminate; auto.
  intros H. apply andb_prop in H as [H1 H2]. f_equal; [lia | auto].
Qed.
Lemma str_eqb_refl a : str_eqb a a = true.
Proof. induction a; simpl; [reflexivity|]. now rewrite N.eqb_refl. Qed.

Lemma ends_with_inv s suf : ends_with s suf = true -> exists a, s = a ++ suf.
Proof.
  unfold ends_with. intros H. apply andb_prop in H as [_ H]. apply str_eqb_eq in H.
  exists (firstn (length s - length suf) s).
  pose proof (firstn_skipn (length s - length suf) s) as E. rewrite H in E. now symmetry.
Qed.
Lemma ends_with_app a b : ends_with (a ++ b) b = true.
Proof.
  unfold ends_with. rewrite app_length. apply andb_true_intro. split; [apply Nat.leb_le; lia|].
  replace (length a + length b - length b)%nat with (length a) by lia.
  rewrite skipn_app, skipn_all, Nat.sub_diag. simpl. apply str_eqb_refl.
Qed.

Lemma ends_with_last_ne s c suf0 suf d :
  s = (firstn (length s - 1) s) ++ [c] -> suf0 = suf ++ [d] -> c <> d -> ends_with s suf0 = false.
Proof.
  intros Hs -> Hcd. destruct (ends_with s (suf ++ [d])) eqn:E; [|reflexivity]. exfalso.
  apply ends_with_inv in E as (a & Ha). rewrite Ha in Hs at 1. rewrite app_assoc in Hs.
  apply app_inj_tail in Hs as [_ Hs]. congruence.
Qed.

Lemma last_split (s : str) c a : s = a ++ [c] -> s = firstn (length s - 1) s ++ [c].
Proof.
  intros ->. rewrite app_length. simpl. replace (length a + 1 - 1)%nat with (length a) by lia.
  now rewrite firstn_app, firstn_all, Nat.sub_diag, app_nil_r.
Qed.

(** a line whose last character is none of 0 1 2 and the asterisk does not end with a result marker *)
Lemma no_result_last a c : c <> 48 -> c <> 49 -> c <> 50 -> c <> 42 -> has_result (a ++ [c]) = false.
Proof.
  intros H0 H1 H2 H3. pose proof (last_split (a ++ [c]) c a eq_refl) as Hs.
  unfold has_result, result_len.
  rewrite (ends_with_last_ne _ c s_draw [49;47;50;45;49;47] 50 Hs eq_refl H2).
  rewrite (ends_with_last_ne _ c s_10 [49;45] 48 Hs eq_refl H0).
  rewrite (ends_with_last_ne _ c s_01 [48;45] 49 Hs eq_refl H1).
  rewrite (ends_with_last_ne _ c s_star [] 42 Hs eq_refl H3). reflexivity.
Qed.

Lemma result_len_app Y res : pgn_result_ok res = true -> result_len (Y ++ res) = length res.
Proof.
  intros Hres. unfold pgn_result_ok in Hres. apply orb_prop in Hres as [Hres|Hres].
  - apply is_result_cases in Hres. unfold result_len. destruct Hres as [->|[->| ->]].
    + rewrite (ends_with_last_ne _ 48 s_draw [49;47;50;45;49;47] 50); [|eapply last_split; change s_10 with ([49;45]++[48]); now rewrite app_assoc | reflexivity | discriminate].
      now rewrite ends_with_app.
    + rewrite (ends_with_last_ne _ 49 s_draw [49;47;50;45;49;47] 50); [|eapply last_split; change s_01 with ([48;45]++[49]); now rewrite app_assoc | reflexivity | discriminate].
      rewrite (ends_with_last_ne _ 49 s_10 [49;45] 48); [|eapply last_split; change s_01 with ([48;45]++[49]); now rewrite app_assoc | reflexivity | discriminate].
      now rewrite ends_with_app.
    + now rewrite ends_with_app.
  - apply str_eqb_eq in Hres as ->. unfold result_len.
    assert (Hl : Y ++ s_star = firstn (length (Y ++ s_star) - 1) (Y ++ s_star) ++ [42]) by (eapply last_split; reflexivity).
    rewrite (ends_with_last_ne _ 42 s_draw [49;47;50;45;49;47] 50 Hl eq_refl) by discriminate.
    rewrite (ends_with_last_ne _ 42 s_10 [49;45] 48 Hl eq_refl) by discriminate.
    rewrite (ends_with_last_ne _ 42 s_01 [48;45] 49 Hl eq_refl) by discriminate.
    now rewrite ends_with_app.
Qed.

Lemma result_nonempty res : pgn_result_ok res = true -> (0 < length res)%nat /\
  exists c x, res = c :: x /\ is_space_trim c = false /\ c <> 37 /\ last_nonspace res /\ ~ In 34 res /\ ~ In 59 res.
Proof.
  intros Hres. unfold pgn_result_ok in Hres. apply orb_prop in Hres as [Hres|Hres].
  - apply is_result_cases in Hres. destruct Hres as [->|[->| ->]]; (split; [simpl; lia|]); eexists _, _;
      (split; [reflexivity|]); (split; [reflexivity|]); (split; [discriminate|]); (split; [|split; simpl; intuition discriminate]).
    + exists [49;45], 48. auto.
    + exists [48;45], 49. auto.
    + exists [49;47;50;45;49;47], 50. auto.
  - apply str_eqb_eq in Hres as ->. split; [simpl; lia|]. exists 42, []. repeat split; try discriminate.
    + exists [], 42. auto.
    + simpl; intuition discriminate.
    + simpl; intuition discriminate.
Qed.

Lemma strip_result_app Y res : pgn_result_ok res = true -> strip_result (Y ++ res) = Y.
Proof.
  intros H. unfold strip_result. rewrite (result_len_app Y res H), app_length.
  replace (length Y + length res - length res)%nat with (length Y) by lia.
  now rewrite firstn_app, firstn_all, Nat.sub_diag, app_nil_r.
Qed.

Lemma has_result_app Y res : pgn_result_ok res = true -> has_result (Y ++ res) = true.
Proof.
  intros H. unfold has_result. rewrite (result_len_app Y res H).
  destruct (result_nonempty res H) as [Hl _]. destruct (length res); [lia | reflexivity].
Qed.

Lemma strip_result_id s : has_result s = false -> strip_result s = s.
Proof.
  unfold has_result, strip_result. intros H. destruct (result_len s); [|discriminate].
  now rewrite Nat.sub_0_r, firstn_all.
Qed.

Lemma strip_semi_id s : ~ In 59 s -> strip_semi s = s.
Proof.
  induction s as [|c s IH]; intros H; [reflexivity|]. simpl.
  destruct (N.eqb_spec c 59) as [->|_]; [exfalso; apply H; now left|].
  f_equal. apply IH. intros H'; apply H; now right.
Qed.

Lemma m_tag_needs_quote s n : m_tag s = Some n -> In 34 s.
Proof.
  unfold m_tag. destruct s as [|c t]; [discriminate|].
  destruct (c =? 91); [|discriminate].
  destruct (span_spec is_word t) as (a & r & -> & Hs & _ & _). rewrite Hs.
  destruct (length a =? 0)%nat; [discriminate|].
  destruct (span_spec (N.eqb 32) r) as (a' & r' & -> & Hs' & _ & _). rewrite Hs'.
  destruct (length a' =? 0)%nat; [discriminate|].
  destruct r' as [|q t3]; [discriminate|]. destruct (N.eqb_spec q 34) as [->|]; [|discriminate].
  intros _. right. apply in_or_app. right. apply in_or_app. right. now left.
Qed.

Lemma tag_pass_id s : ~ In 34 s -> ra m_tag [] 0 s = s.
Proof.
  intros H. apply ra_id. intros a1 c a2 ->. rewrite app_nil_r.
  destruct (m_tag (c :: a2)) eqn:E; [|reflexivity]. exfalso. apply m_tag_needs_quote in E.
  apply H. apply in_or_app. now right.
Qed.

(** characters of the rendered words *)
Lemma word_first_last w : word_ok w = true ->
  (exists c x, rw w = c :: x /\ is_space_trim c = false /\ c <> 37) /\ last_nonspace (rw w) /\
  ~ In 34 (rw w) /\ ~ In 59 (rw w).
Proof.
  intros Hw.
  assert (Hq : forall c, In c (rw w) -> c <> 34 /\ c <> 59).
  { intros c Hc. destruct w as [s|ds nd|ds|body|body| | |n|r]; cbn [word_ok rw] in *; try discriminate.
    - pose proof (san_ok_no_special s c Hw Hc) as H. unfold special in H. lia.
    - apply (num_chars ds nd c Hw), digit_not_special in Hc. unfold special in Hc. lia.
    - destruct Hc as [<-|Hc]; [lia|]. apply (digits_chars ds 3 c Hw) in Hc. unfold is_digit, in_range in Hc. lia.
    - destruct Hc as [<-|Hc]; [lia|]. apply in_app_or in Hc as [Hc|[<-|[]]]; [|lia].
      apply (com_body_chars body c Hw) in Hc. lia.
    - destruct Hc as [<-|Hc]; [lia|]. apply in_app_or in Hc as [Hc|[<-|[]]]; [|lia].
      apply (ang_body_chars body c Hw) in Hc. lia.
    - destruct Hc as [<-|[]]. lia.
    - destruct Hc as [<-|[]]. lia. }
  split; [|split; [|split; intros H; apply Hq in H; lia]].
  - destruct w as [s|ds nd|ds|body|body| | |n|r]; cbn [word_ok rw] in *; try discriminate.
    + destruct (san_ok_chars s Hw) as (Hne & Hch & _). destruct s as [|c s]; [congruence|].
      exists c, s. split; [reflexivity|]. assert (Hc : san_char c = true) by (simpl in Hch; lia).
      apply san_char_facts in Hc. tauto.
    + apply andb_prop in Hw as [Hw _]. apply andb_prop in Hw as [Hw _].
      destruct (digits_head ds Hw) as (d & ds' & -> & Hd & _). exists d, (ds' ++ repeat 46 nd).
      split; [reflexivity|]. unfold is_digit, is_space_trim, in_range in *. split; lia.
    + exists 36, ds. repeat split; discriminate.
    + exists 123, (body ++ [125]). repeat split; discriminate.
    + exists 60, (body ++ [62]). repeat split; discriminate.
    + exists 40, []. repeat split; discriminate.
    + exists 41, []. repeat split; discriminate.
  - destruct w as [s|ds nd|ds|body|body| | |n|r]; cbn [word_ok rw] in *; try discriminate.
    + now apply tokstr_last, san_ok_tokstr.
    + apply (sword_last_nonspace (WNum ds nd)); [exact Hw | reflexivity].
    + unfold digits_ok in Hw. destruct ds as [|d ds]; [discriminate|]. apply andb_prop in Hw as [Hw _].
      destruct (exists_last (l := d :: ds) ltac:(discriminate)) as (a & c & Heq). rewrite Heq in *.
      exists (36 :: a), c. split; [reflexivity|]. rewrite forallb_app in Hw. simpl in Hw.
      unfold is_digit, is_space_trim, in_range in *. lia.
    + exists (123 :: body), 125. auto.
    + exists (60 :: body), 62. auto.
    + exists [], 40. auto.
    + exists [], 41. auto.
Qed.

Lemma rline_no_quote_semi ws : forallb (fun gw : gword => word_ok (snd gw)) ws = true ->
  ~ In 34 (rline ws) /\ ~ In 59 (rline ws).
Proof.
  induction ws as [|[g w] t IH]; intros H; [simpl; tauto|].
  cbn [forallb snd] in H. apply andb_prop in H as [Hw Ht]. destruct (IH Ht) as [I1 I2].
  destruct (word_first_last w Hw) as (_ & _ & Q1 & Q2). rewrite rline_cons.
  split; intros Hin; (apply in_app_or in Hin as [Hin|Hin]; [destruct g; simpl in Hin; [tauto | destruct Hin as [Hin|[]]; discriminate]|]);
    apply in_app_or in Hin as [Hin|Hin]; tauto.
Qed.

Lemma rline_last_nonspace ws : ws <> [] -> forallb (fun gw : gword => word_ok (snd gw)) ws = true ->
  last_nonspace (rline ws).
Proof.
  intros Hne H. destruct (exists_last Hne) as (a & [g w] & ->). rewrite rline_app.
  apply last_nonspace_app. rewrite rline_cons. apply last_nonspace_app.
  unfold rline. simpl. rewrite app_nil_r.
  rewrite forallb_app in H. apply andb_prop in H as [_ H]. cbn [forallb snd] in H.
  apply andb_prop in H as [H _]. now apply word_first_last.
Qed.

(** a movetext line *)
Definition mline_ok (l : list gword) : Prop :=
  line_ok l = true /\ forallb (fun gw : gword => word_ok (snd gw)) l = true.

Lemma render_line_rline l : line_ok l = true -> rline l = 32 :: render_line l.
Proof. destruct l as [|[g w] t]; [discriminate|]. simpl. destruct g; [discriminate|]. intros _. now rewrite rline_cons. Qed.

Lemma mline_facts l : mline_ok l ->
  (exists c x, render_line l = c :: x /\ is_space_trim c = false /\ c <> 37) /\
  last_nonspace (render_line l) /\ ~ In 34 (render_line l) /\ ~ In 59 (render_line l).
Proof.
  intros [Hl Hok]. destruct l as [|[g w] t]; [discriminate|].
  cbn [forallb snd] in Hok. apply andb_prop in Hok as [Hw Ht].
  destruct (word_first_last w Hw) as ((c & x & Hrw & Hc & Hc37) & Hlast & Q1 & Q2).
  destruct (rline_no_quote_semi t Ht) as [R1 R2].
  unfold render_line, rline0. split; [|split; [|split]].
  - exists c, (x ++ rline t). rewrite Hrw. auto.
  - destruct t as [|y t]; [unfold rline; simpl; now rewrite app_nil_r|].
    apply last_nonspace_app. apply rline_last_nonspace; [discriminate | exact Ht].
  - intros H. apply in_app_or in H. tauto.
  - intros H. apply in_app_or in H. tauto.
Qed.

Lemma clean_generic s c x :
  s = c :: x -> is_space_trim c = false -> c <> 37 -> last_nonspace s -> ~ In 34 s -> ~ In 59 s ->
  has_result s = false -> clean_pgn_line s = Some s.
Proof.
  intros Hs Hc H37 Hl Hq Hsemi Hres. unfold clean_pgn_line.
  rewrite (trim_space_id_gen s c x Hs Hc Hl). rewrite Hs at 1.
  destruct (N.eqb_spec c 37) as [|_]; [congruence|].
  rewrite (tag_pass_id s Hq), (strip_result_id s Hres), (strip_semi_id s Hsemi).
  rewrite (trim_space_id_gen s c x Hs Hc Hl). now rewrite Hs.
Qed.

Lemma clean_mline l : mline_ok l -> has_result (render_line l) = false ->
  clean_pgn_line (render_line l) = Some (render_line l).
Proof.
  intros Hl Hres. destruct (mline_facts l Hl) as ((c & x & Hs & Hc & H37) & Hlast & Hq & Hsemi).
  eapply clean_generic; eauto.
Qed.

Lemma trim_space_app_space s c x : s = c :: x -> is_space_trim c = false -> last_nonspace s ->
  trim_space (s ++ [32]) = s.
Proof.
  intros Hs Hc Hl. unfold trim_space. rewrite Hs. cbn [app]. rewrite trim_left_nonspace by exact Hc.
  rewrite trim_right_tr. change (c :: x ++ [32]) with ((c :: x) ++ [32]). rewrite <- Hs.
  rewrite tr_app_spaces; [now apply tr_nonspace_end | intros d [<-|[]]; reflexivity].
Qed.

(** the last line: moves followed by the result *)
Lemma clean_last_line l res : mline_ok l -> pgn_result_ok res = true ->
  clean_pgn_line (render_line l ++ 32 :: res) = Some (render_line l).
Proof.
  intros Hl Hres. destruct (mline_facts l Hl) as ((c & x & Hs & Hc & H37) & Hlast & Hq & Hsemi).
  destruct (result_nonempty res Hres) as (_ & c' & x' & Hr & _ & _ & Hrl & Hrq & Hrs).
  unfold clean_pgn_line.
  assert (Hfull : last_nonspace (render_line l ++ 32 :: res)).
  { change (32 :: res) with ([32] ++ res). rewrite app_assoc. now apply last_nonspace_app. }
  rewrite (trim_space_id_gen _ c (x ++ 32 :: res)); [|now rewrite Hs | exact Hc | exact Hfull].
  rewrite Hs at 1. cbn [app]. destruct (N.eqb_spec c 37) as [|_]; [congruence|].
  rewrite tag_pass_id.
  2:{ intros H. apply in_app_or in H as [H|[H|H]]; [tauto | discriminate | tauto]. }
  change (32 :: res) with ([32] ++ res). rewrite app_assoc.
  rewrite (strip_result_app _ res Hres).
  rewrite strip_semi_id.
  2:{ intros H. apply in_app_or in H as [H|[H|[]]]; [tauto | discriminate]. }
  rewrite (trim_space_app_space _ c x Hs Hc Hlast). now rewrite Hs.
Qed.

Lemma clean_result_only res : pgn_result_ok res = true -> clean_pgn_line res = None.
Proof.
  intros Hres. destruct (result_nonempty res Hres) as (_ & c & x & Hr & Hc & H37 & Hrl & Hrq & Hrs).
  unfold clean_pgn_line. rewrite (trim_space_id_gen res c x Hr Hc Hrl). rewrite Hr at 1.
  destruct (N.eqb_spec c 37) as [|_]; [congruence|].
  rewrite (tag_pass_id res Hrq). rewrite <- (app_nil_l res) at 1. rewrite (strip_result_app [] res Hres). reflexivity.
Qed.

(** tag pair lines *)
Lemma find_quote_bracket_value v : forallb (fun c => negb (c =? 34) && negb (c =? 10)) v = true ->
  find_quote_bracket (v ++ [34; 93]) = Some (length v + 2)%nat.
Proof.
  induction v as [|c v IH]; intros H; [reflexivity|].
  cbn [forallb] in H. apply andb_prop in H as [Hc Hv]. cbn [app find_quote_bracket].
  destruct (N.eqb_spec c 10) as [|_]; [lia|].
  specialize (IH Hv). destruct (v ++ [34; 93]) as [|b l] eqn:E; [destruct v; discriminate|].
  destruct (N.eqb_spec c 34) as [|_]; [lia|]. cbn [andb]. rewrite IH. reflexivity.
Qed.

Lemma clean_tag nv : tag_ok nv = true -> clean_pgn_line (render_tag (fst nv) (snd nv)) = None.
Proof.
  destruct nv as [name v]. unfold tag_ok. cbn [fst snd]. intros H. apply andb_prop in H as [Hn Hv].
  destruct name as [|n0 name]; [discriminate|].
  unfold clean_pgn_line, render_tag.
  assert (Htrim : trim_space (91 :: (n0 :: name) ++ 32 :: 34 :: v ++ [34; 93]) = 91 :: (n0 :: name) ++ 32 :: 34 :: v ++ [34; 93]).
  { eapply trim_space_id_gen; [reflexivity | reflexivity |].
    exists (91 :: (n0 :: name) ++ 32 :: 34 :: v ++ [34]), 93. split; [|reflexivity].
    simpl. f_equal. f_equal. rewrite <- !app_assoc. simpl. now rewrite <- app_assoc. }
  rewrite Htrim. cbn [N.eqb Pos.eqb].
  set (tag := 91 :: (n0 :: name) ++ 32 :: 34 :: v ++ [34; 93]).
  assert (Hm : m_tag (tag ++ []) = Some (length tag)).
  { rewrite app_nil_r. unfold tag, m_tag. cbn [N.eqb Pos.eqb].
    rewrite span_app; [|exact Hn | right; exists 32, (34 :: v ++ [34;93]); auto].
    cbn [length Nat.eqb].
    change (32 :: 34 :: v ++ [34; 93]) with ([32] ++ 34 :: v ++ [34;93]).
    rewrite span_app; [|reflexivity | right; exists 34, (v ++ [34;93]); auto].
    cbn [length Nat.eqb N.eqb Pos.eqb]. rewrite (find_quote_bracket_value v Hv).
    f_equal. simpl. rewrite !app_length. simpl. rewrite app_length. simpl. lia. }
  unfold tag in Hm at 1. rewrite <- (app_nil_r tag). unfold tag at 1.
  rewrite (ra_hit m_tag [] 91 ((n0 :: name) ++ 32 :: 34 :: v ++ [34; 93]) [] Hm). reflexivity.
Qed.

Lemma clean_empty : clean_pgn_line [] = None.
Proof. reflexivity. Qed.

Lemma tag_no_result nv : tag_ok nv = true -> has_result (trim_space (render_tag (fst nv) (snd nv))) = false.
Proof.
  destruct nv as [name v]. cbn [fst snd]. intros _. unfold render_tag.
  assert (Heq : 91 :: name ++ 32 :: 34 :: v ++ [34; 93] = (91 :: name ++ 32 :: 34 :: v ++ [34]) ++ [93]).
  { simpl. f_equal. rewrite <- app_assoc. simpl. do 2 f_equal. now rewrite <- app_assoc. }
  rewrite (trim_space_id_gen _ 91 (name ++ 32 :: 34 :: v ++ [34; 93]) eq_refl eq_refl).
  - rewrite Heq. apply no_result_last; discriminate.
  - eexists _, 93. split; [exact Heq | reflexivity].
Qed.

(** *** slicing *)
Lemma pgn_slices_app init : forall acc last rest,
  Forall (fun l => has_result (trim_space l) = false) init -> has_result (trim_space last) = true ->
  pgn_slices acc (init ++ last :: rest) = (rev acc ++ init ++ [last]) :: pgn_slices [] rest.
Proof.
  induction init as [|l init IH]; intros acc last rest Hi Hl.
  - cbn [app pgn_slices]. rewrite Hl. reflexivity.
  - cbn [app pgn_slices]. rewrite (Forall_inv Hi). rewrite IH; [|exact (Forall_inv_tail Hi) | exact Hl].
    cbn [rev]. now rewrite <- app_assoc.
Qed.

(** *** a rendered PGN game *)
Record pgame := PGame { pg_tags : list (str * str); pg_lines : list (list gword);
                        pg_last : list gword; pg_res : str }.
Definition pg_words (p : pgame) : list gword := concat (pg_lines p) ++ pg_last p.
Definition pg_render (p : pgame) : list str := render_pgn (pg_tags p) (pg_lines p) (pg_last p) (pg_res p).
Definition pg_moves (p : pgame) : list str := top_toks 0 (pg_words p).

Record pgame_ok (p : pgame) : Prop := {
  pgo_tags : Forall (fun nv => tag_ok nv = true) (pg_tags p);
  pgo_lines : Forall mline_ok (pg_lines p);
  (* no movetext line other than the last ends with a result marker *)
  pgo_nores : Forall (fun l => has_result (render_line l) = false) (pg_lines p);
  pgo_last : pg_last p = [] \/ mline_ok (pg_last p);
  pgo_res : pgn_result_ok (pg_res p) = true;
  pgo_glue : glues_ok (WBlank 0) (pg_words p) = true;
  pgo_bal : bal_words 0 (pg_words p) = true;
  pgo_start : starts_with_num 0 (pg_words p) = true;
  pgo_moves : pg_moves p <> []
}.

Definition fline (l : str) : str := match clean_pgn_line l with Some x => 32 :: x | None => [] end.

Lemma pgn_move_line_app a b : pgn_move_line (a ++ b) = pgn_move_line a ++ pgn_move_line b.
Proof. unfold pgn_move_line. now rewrite map_app, concat_app. Qed.

Lemma pgn_move_line_tags tags : Forall (fun nv => tag_ok nv = true) tags ->
  pgn_move_line (map (fun nv : str * str => render_tag (fst nv) (snd nv)) tags) = [].
Proof.
  induction 1 as [|nv tags Hnv _ IH]; [reflexivity|].
  unfold pgn_move_line in *. cbn [map concat]. rewrite (clean_tag nv Hnv). exact IH.
Qed.

Lemma pgn_move_line_lines lines : Forall mline_ok lines ->
  Forall (fun l => has_result (render_line l) = false) lines ->
  pgn_move_line (map render_line lines) = rline (concat lines).
Proof.
  induction 1 as [|l lines Hl _ IH]; intros Hr; [reflexivity|].
  unfold pgn_move_line in *. cbn [map concat]. rewrite (clean_mline l Hl (Forall_inv Hr)).
  rewrite rline_app. rewrite (IH (Forall_inv_tail Hr)). destruct Hl as [Hl _].
  now rewrite (render_line_rline l Hl).
Qed.

Lemma words_ok_all p : pgame_ok p -> forallb (fun gw : gword => word_ok (snd gw)) (pg_words p) = true.
Proof.
  intros H. unfold pg_words. rewrite forallb_app. apply andb_true_intro. split.
  - pose proof (pgo_lines p H) as Hl. induction Hl as [|l ls [_ Hl] _ IH]; [reflexivity|].
    cbn [concat]. rewrite forallb_app. now rewrite Hl, IH.
  - destruct (pgo_last p H) as [->|[_ Hl]]; [reflexivity | exact Hl].
Qed.

(** C19 / PGN reader: a game with tag pairs, comments, NAGs, reserved <..> text and nested
    variations, spread over lines, is read as exactly its main-line moves *)
Theorem tokens_pgn_render p : pgame_ok p -> tokens_pgn (pg_render p) = Some (pg_moves p).
Proof.
  intros H. unfold tokens_pgn, pg_render, render_pgn.
  rewrite !pgn_move_line_app.
  rewrite (pgn_move_line_tags _ (pgo_tags p H)).
  rewrite (pgn_move_line_lines _ (pgo_lines p H) (pgo_nores p H)).
  assert (Hlast : pgn_move_line [match pg_last p with [] => pg_res p | _ :: _ => render_line (pg_last p) ++ 32 :: pg_res p end]
                  = rline (pg_last p)).
  { unfold pgn_move_line. cbn [map concat]. rewrite app_nil_r.
    destruct (pgo_last p H) as [E|Hl].
    - rewrite E. now rewrite (clean_result_only _ (pgo_res p H)).
    - destruct (pg_last p) as [|gw t] eqn:E; [destruct Hl; discriminate|].
      rewrite (clean_last_line _ _ Hl (pgo_res p H)). destruct Hl as [Hl _]. now rewrite (render_line_rline _ Hl). }
  rewrite Hlast. change (pgn_move_line [[]]) with (@nil N). cbn [app].
  rewrite <- rline_app. fold (pg_words p).
  apply pgn_clean_words; [now apply words_ok_all | apply (pgo_glue p H) | apply (pgo_bal p H) | apply (pgo_start p H) | apply (pgo_moves p H)].
Qed.

Lemma mline_trim l : mline_ok l -> trim_space (render_line l) = render_line l.
Proof.
  intros Hl. destruct (mline_facts l Hl) as ((c & x & Hs & Hc & _) & Hlast & _).
  eapply trim_space_id_gen; eauto.
Qed.

(** processPgn cuts the file into exactly the rendered games *)
Theorem pgn_slices_render p rest : pgame_ok p ->
  pgn_slices [] (pg_render p ++ rest) = pg_render p :: pgn_slices [] rest.
Proof.
  intros H. unfold pg_render, render_pgn.
  set (last := match pg_last p with [] => pg_res p | _ :: _ => render_line (pg_last p) ++ 32 :: pg_res p end).
  set (init := map (fun nv : str * str => render_tag (fst nv) (snd nv)) (pg_tags p) ++ [[]] ++ map render_line (pg_lines p)).
  replace ((map (fun nv : str * str => render_tag (fst nv) (snd nv)) (pg_tags p) ++ [[]] ++ map render_line (pg_lines p) ++ [last]) ++ rest)
    with (init ++ last :: rest) by (unfold init; now rewrite <- !app_assoc).
  replace (map (fun nv : str * str => render_tag (fst nv) (snd nv)) (pg_tags p) ++ [[]] ++ map render_line (pg_lines p) ++ [last])
    with ([] ++ init ++ [last]) by (unfold init; now rewrite <- !app_assoc).
  apply (pgn_slices_app init [] last rest).
  - unfold init. apply Forall_app. split; [|apply Forall_app; split].
    + apply Forall_forall. intros l Hl. apply in_map_iff in Hl as (nv & <- & Hnv).
      apply tag_no_result. pose proof (pgo_tags p H) as Ht. rewrite Forall_forall in Ht. auto.
    + constructor; [reflexivity | constructor].
    + apply Forall_forall. intros l Hl. apply in_map_iff in Hl as (ml & <- & Hml).
      pose proof (pgo_lines p H) as H1. pose proof (pgo_nores p H) as H2. rewrite Forall_forall in H1, H2.
      rewrite (mline_trim ml (H1 ml Hml)). auto.
  - unfold last. destruct (result_nonempty _ (pgo_res p H)) as (_ & c' & x' & Hr & Hc' & _ & Hrl & _).
    destruct (pgo_last p H) as [E|Hl].
    + rewrite E. rewrite (trim_space_id_gen _ c' x' Hr Hc' Hrl).
      rewrite <- (app_nil_l (pg_res p)). apply has_result_app, (pgo_res p H).
    + destruct (pg_last p) as [|gw t] eqn:E; [destruct Hl; discriminate|]. rewrite <- E in *.
      destruct (mline_facts _ Hl) as ((c & x & Hs & Hc & _) & _).
      rewrite (trim_space_id_gen _ c (x ++ 32 :: pg_res p)); [|now rewrite Hs | exact Hc|].
      * change (32 :: pg_res p) with ([32] ++ pg_res p). rewrite app_assoc. apply has_result_app, (pgo_res p H).
      * change (32 :: pg_res p) with ([32] ++ pg_res p). rewrite app_assoc. now apply last_nonspace_app.
Qed.

(* ========================================================================= *)
From stdpp Require Import base option fin_maps nmap.
Local Open Scope N_scope.

(* ========================================================================= *)
(** * Part A                                                                  *)
(* ========================================================================= *)

(** ** Schedules: interleavings of the per-goroutine step lists *)

Inductive Interleave : list (list step) -> list step -> Prop :=
| il_done ls : Forall (fun l => l = []) ls -> Interleave ls []
| il_step ls1 s l ls2 sched :
    Interleave (ls1 ++ l :: ls2) sched ->
    Interleave (ls1 ++ (s :: l) :: ls2) (s :: sched).

Lemma concat_all_nil (ls : list (list step)) : Forall (fun l => l = []) ls -> concat ls = [].
Proof. induction 1 as [|l ls Hl _ IH]; [reflexivity|]. simpl. now rewrite Hl, IH. Qed.

Lemma interleave_perm ls sched : Interleave ls sched -> Permutation sched (concat ls).
Proof.
  induction 1 as [ls Hnil | ls1 s l ls2 sched _ IH].
  - now rewrite concat_all_nil.
  - rewrite concat_app in *. simpl in *.
    now apply Permutation_cons_app.
Qed.

Lemma interleave_nil_cons ls sched : Interleave ls sched -> Interleave ([] :: ls) sched.
Proof.
  induction 1 as [ls Hnil | ls1 s l ls2 sched _ IH].
  - apply il_done. now constructor.
  - apply (il_step ([] :: ls1)). exact IH.
Qed.

(** running the goroutines one after the other is one particular schedule *)
Lemma interleave_concat ls : Interleave ls (concat ls).
Proof.
  induction ls as [|l ls IH]; [apply il_done; constructor|].
  simpl. induction l as [|s l IHl].
  - simpl. now apply interleave_nil_cons.
  - simpl. apply (il_step [] s l ls). exact IHl.
Qed.

(** ** Counting *)

Lemma occ_app root k l1 l2 : occ root k (l1 ++ l2) = occ root k l1 + occ root k l2.
Proof. induction l1 as [|s l1 IH]; simpl; [reflexivity|]. rewrite IH. lia. Qed.

Lemma occ_perm root k l1 l2 : Permutation l1 l2 -> occ root k l1 = occ root k l2.
Proof. induction 1; simpl; lia. Qed.

Definition add_occ (o : option N) (n : N) : option N :=
  match o with
  | Some c => Some (c + n)
  | None => if n =? 0 then None else Some n
  end.

Lemma add_occ_0 o : add_occ o 0 = o.
Proof. destruct o; simpl; [f_equal; lia | reflexivity]. Qed.

Lemma add_occ_add o a b : add_occ (add_occ o a) b = add_occ o (a + b).
Proof.
  destruct o as [c|]; simpl.
  - f_equal. lia.
  - destruct (N.eqb_spec a 0) as [->|Ha]; simpl.
    + reflexivity.
    + destruct (N.eqb_spec (a + b) 0); [lia | reflexivity].
Qed.

Lemma cview_insert (b : book) i x k :
  cview (<[i := x]> b) k = if k =? i then Some (cnt x) else cview b k.
Proof.
  unfold cview. destruct (N.eqb_spec k i) as [->|Hne].
  - now rewrite lookup_insert.
  - now rewrite lookup_insert_ne by congruence.
Qed.

(** ** The schedule never takes the error branch "current position not in book" *)

Fixpoint sched_ok (root : N) (D : N -> Prop) (l : list step) : Prop :=
  match l with
  | [] => True
  | SRoot :: t => D root /\ sched_ok root D t
  | SAdd c n _ :: t => D c /\ sched_ok root (fun k => D k \/ k = n) t
  end.

Lemma sched_ok_mono root l : forall (D D' : N -> Prop),
  (forall k, D k -> D' k) -> sched_ok root D l -> sched_ok root D' l.
Proof.
  induction l as [|[|c n m] l IH]; intros D D' HD H; simpl in *; [exact I| |].
  - destruct H as [H1 H2]. split; [now apply HD | now apply (IH D D')].
  - destruct H as [H1 H2]. split; [now apply HD|].
    apply (IH (fun k => D k \/ k = n)); [|exact H2]. intros k [Hk|Hk]; [left; now apply HD | now right].
Qed.

Lemma interleave_ok root ls sched :
  Interleave ls sched -> forall D, Forall (sched_ok root D) ls -> sched_ok root D sched.
Proof.
  induction 1 as [ls Hnil | ls1 s l ls2 sched _ IH]; intros D HF; [exact I|].
  apply Forall_app in HF as [HF1 HF2]. apply Forall_cons_iff in HF2 as [Hsl HF2].
  destruct s as [|c n m]; simpl in *.
  - destruct Hsl as [Hr Hl]. split; [exact Hr|].
    apply IH. apply Forall_app. split; [exact HF1|]. constructor; assumption.
  - destruct Hsl as [Hc Hl]. split; [exact Hc|].
    apply IH. apply Forall_app. split.
    + eapply Forall_impl; [exact HF1|]. intros a Ha. eapply sched_ok_mono; [|exact Ha]. intros; now left.
    + constructor; [exact Hl|].
      eapply Forall_impl; [exact HF2|]. intros a Ha. eapply sched_ok_mono; [|exact Ha]. intros; now left.
Qed.

Section WithResolve.
  Variable resolve : N -> str -> option (N * N).
  Variable root : N.

  Lemma walk_ok toks : forall k (D : N -> Prop), D k -> sched_ok root D (walk resolve k toks).
  Proof.
    induction toks as [|t ts IH]; intros k D Hk; simpl; [exact I|].
    destruct (resolve k t) as [[mv nk]|]; simpl; [|exact I].
    split; [exact Hk|]. apply IH. now right.
  Qed.

  Lemma game_steps_ok g (D : N -> Prop) : D root -> sched_ok root D (game_steps resolve root g).
  Proof.
    intros Hr. destruct g as [toks|]; simpl; [|exact I]. split; [exact Hr|]. now apply walk_ok.
  Qed.
End WithResolve.

(** ** Effect of one step on the counter view *)

Lemma apply_step_counts root b s :
  sched_ok root (fun k => is_Some (b !! k)) [s] ->
  exists b', apply_step root b s = Some b' /\
             (forall k, cview b' k = add_occ (cview b k) (hits root k s)) /\
             (forall k, is_Some (b !! k) -> is_Some (b' !! k)) /\
             (forall c n m, s = SAdd c n m -> is_Some (b' !! n)).
Proof.
  destruct s as [|c n m]; simpl.
  - intros [[e He] _]. unfold root_step. rewrite He. eexists; split; [reflexivity|]. split; [|split].
    + intros k. rewrite cview_insert. unfold cview.
      destruct (N.eqb_spec k root) as [->|Hne]; [rewrite He|]; simpl.
      * reflexivity.
      * now rewrite add_occ_0.
    + intros k Hk. destruct (N.eq_dec k root) as [->|Hne];
        [rewrite lookup_insert; eauto | now rewrite lookup_insert_ne by congruence].
    + discriminate.
  - intros [[ce Hce] _]. unfold add_step. rewrite Hce.
    destruct (b !! n) as [ne|] eqn:Hn.
    + eexists; split; [reflexivity|]. split; [|split].
      * intros k. rewrite cview_insert. unfold cview.
        destruct (N.eqb_spec k n) as [->|Hne]; [rewrite Hn|]; simpl.
        -- reflexivity.
        -- now rewrite add_occ_0.
      * intros k Hk. destruct (N.eq_dec k n) as [->|Hne];
          [rewrite lookup_insert; eauto | now rewrite lookup_insert_ne by congruence].
      * intros c' n' m' [= -> -> ->]. rewrite lookup_insert; eauto.
    + assert (Hcn : c <> n) by (intros ->; congruence).
      eexists; split; [reflexivity|]. split; [|split].
      * intros k. rewrite !cview_insert. unfold cview. simpl.
        destruct (N.eqb_spec k c) as [->|Hkc].
        -- rewrite Hce. simpl. destruct (N.eqb_spec c n); [congruence|]. simpl. f_equal. lia.
        -- destruct (N.eqb_spec k n) as [->|Hkn]; [rewrite Hn; reflexivity | now rewrite add_occ_0].
      * intros k Hk. destruct (N.eq_dec k c) as [->|Hkc]; [rewrite lookup_insert; eauto|].
        rewrite lookup_insert_ne by congruence.
        destruct (N.eq_dec k n) as [->|Hkn];
          [rewrite lookup_insert; eauto | now rewrite lookup_insert_ne by congruence].
      * intros c' n' m' [= -> -> ->]. rewrite lookup_insert_ne by congruence.
        rewrite lookup_insert; eauto.
Qed.

Lemma run_counts root sched : forall b,
  sched_ok root (fun k => is_Some (b !! k)) sched ->
  exists b', run root sched b = Some b' /\
             forall k, cview b' k = add_occ (cview b k) (occ root k sched).
Proof.
  induction sched as [|s t IH]; intros b Hok.
  - exists b. split; [reflexivity|]. intros k. simpl. now rewrite add_occ_0.
  - assert (H1 : sched_ok root (fun k => is_Some (b !! k)) [s]).
    { destruct s; simpl in *; tauto. }
    destruct (apply_step_counts root b s H1) as (b1 & Hb1 & Hc1 & Hdom & Hnew).
    assert (Hok1 : sched_ok root (fun k => is_Some (b1 !! k)) t).
    { destruct s as [|c n m]; simpl in Hok.
      - eapply sched_ok_mono; [|apply Hok]. exact Hdom.
      - eapply sched_ok_mono; [|apply Hok]. intros k [Hk| ->]; [now apply Hdom | now eapply Hnew]. }
    destruct (IH b1 Hok1) as (b' & Hrun & Hc).
    exists b'. split; [simpl; now rewrite Hb1|].
    intros k. rewrite Hc, Hc1, add_occ_add. reflexivity.
Qed.

Lemma cview_init root k : cview (init_book root) k = if k =? root then Some 0 else None.
Proof.
  unfold cview, init_book. destruct (N.eqb_spec k root) as [->|Hne].
  - now rewrite lookup_singleton.
  - now rewrite lookup_singleton_ne by congruence.
Qed.

(** ** C19, schedule independence of positions and visit counts

    For ANY interleaving of the per-line critical sections the build neither panics nor takes the
    error branch, and the resulting key set and counters are [spec_counts]: the root plus every key
    reached by a move of some line; counter = number of moves (over all lines, with multiplicity)
    reaching the key, plus for the root the number of lines that passed the line filter. *)
Theorem schedule_counts_general root (ls : list (list step)) sched :
  Forall (sched_ok root (fun k => k = root)) ls ->
  Interleave ls sched ->
  exists b, run root sched (init_book root) = Some b /\
            forall k, cview b k = spec_counts root ls k.
Proof.
  intros Hls Hil.
  assert (Hok : sched_ok root (fun k => is_Some (init_book root !! k)) sched).
  { eapply interleave_ok; [exact Hil|]. eapply Forall_impl; [exact Hls|]. intros l Hl.
    eapply sched_ok_mono; [|exact Hl]. intros k ->. unfold init_book. rewrite lookup_singleton. eauto. }
  destruct (run_counts root sched _ Hok) as (b & Hrun & Hc).
  exists b. split; [exact Hrun|]. intros k.
  rewrite Hc, cview_init. unfold spec_counts.
  rewrite <- (occ_perm root k _ _ (interleave_perm _ _ Hil)).
  destruct (N.eqb_spec k root); simpl.
  - reflexivity.
  - destruct (occ root k sched =? 0); reflexivity.
Qed.

Theorem book_schedule_independent resolve root (games : list (option (list str))) sched :
  Interleave (map (game_steps resolve root) games) sched ->
  exists b, run root sched (init_book root) = Some b /\
            forall k, cview b k = spec_counts root (map (game_steps resolve root) games) k.
Proof.
  apply schedule_counts_general. apply List.Forall_forall. intros l Hl.
  apply in_map_iff in Hl as (g & <- & _). now apply game_steps_ok.
Qed.

(** two schedules of the same lines: same positions, same counters *)
Corollary book_positions_counts_schedule_free resolve root games sched1 sched2 :
  Interleave (map (game_steps resolve root) games) sched1 ->
  Interleave (map (game_steps resolve root) games) sched2 ->
  exists b1 b2, run root sched1 (init_book root) = Some b1 /\
                run root sched2 (init_book root) = Some b2 /\
                (forall k, is_Some (b1 !! k) <-> is_Some (b2 !! k)) /\
                (forall k, cview b1 k = cview b2 k).
Proof.
  intros H1 H2.
  destruct (book_schedule_independent _ _ _ _ H1) as (b1 & Hr1 & Hc1).
  destruct (book_schedule_independent _ _ _ _ H2) as (b2 & Hr2 & Hc2).
  exists b1, b2. split; [exact Hr1|]. split; [exact Hr2|].
  assert (Hcv : forall k, cview b1 k = cview b2 k) by (intros k; now rewrite Hc1, Hc2).
  split; [|exact Hcv].
  intros k. specialize (Hcv k). unfold cview in Hcv.
  destruct (b1 !! k), (b2 !! k); simpl in Hcv; try discriminate; split; intros [? ?]; eauto; discriminate.
Qed.

(** ** The step list of a line does not depend on the book: running the goroutine body with the
    book threaded through (as the Go code does) is the same as applying its step list *)
Lemma run_app root l1 l2 b :
  run root (l1 ++ l2) b = match run root l1 b with Some b' => run root l2 b' | None => None end.
Proof.
  revert b. induction l1 as [|s l1 IH]; intros b; simpl; [reflexivity|].
  destruct (apply_step root b s); [apply IH | reflexivity].
Qed.

Lemma run_walk resolve root toks : forall k b,
  run root (walk resolve k toks) b = Some (seq_moves resolve k toks b).
Proof.
  induction toks as [|t ts IH]; intros k b; simpl; [reflexivity|].
  destruct (resolve k t) as [[mv nk]|]; simpl; [apply IH | reflexivity].
Qed.

Theorem game_steps_state_free resolve root g b :
  seq_game resolve root g b = run root (game_steps resolve root g) b.
Proof.
  destruct g as [toks|]; simpl; [|reflexivity].
  destruct (root_step root b); [now rewrite run_walk | reflexivity].
Qed.

Theorem seq_build_is_a_schedule resolve root games : forall b,
  seq_build resolve root games b = run root (concat (map (game_steps resolve root) games)) b.
Proof.
  induction games as [|g gs IH]; intros b; simpl; [reflexivity|].
  rewrite run_app, <- game_steps_state_free.
  destruct (seq_game resolve root g b); [apply IH | reflexivity].
Qed.

(** hence: every parallel build yields the positions and counters of the sequential build *)
Corollary parallel_equals_sequential resolve root games sched :
  Interleave (map (game_steps resolve root) games) sched ->
  exists b bs, run root sched (init_book root) = Some b /\
               seq_build resolve root games (init_book root) = Some bs /\
               forall k, cview b k = cview bs k.
Proof.
  intros H.
  destruct (book_positions_counts_schedule_free resolve root games sched _ H (interleave_concat _))
    as (b1 & b2 & H1 & H2 & _ & Hc).
  exists b1, b2. split; [exact H1|]. split; [now rewrite seq_build_is_a_schedule | exact Hc].
Qed.

(** ** prefix_only: a line contributes exactly the moves of its longest resolvable prefix *)

(** key reached after playing all of [pre] from k; None if some token of pre does not resolve *)
Fixpoint reach (resolve : N -> str -> option (N * N)) (k : N) (pre : list str) : option N :=
  match pre with
  | [] => Some k
  | t :: ts => match resolve k t with Some (_, nk) => reach resolve nk ts | None => None end
  end.

Theorem prefix_only resolve k toks :
  exists pre rest kend,
    toks = pre ++ rest /\
    reach resolve k pre = Some kend /\                       (* every token of pre resolves *)
    (rest = [] \/ exists t r, rest = t :: r /\ resolve kend t = None) /\  (* and pre is maximal *)
    walk resolve k toks = walk resolve k pre /\              (* the line contributes pre, nothing else *)
    length (walk resolve k pre) = length pre.
Proof.
  revert k. induction toks as [|t ts IH]; intros k.
  - exists [], [], k. simpl. repeat split; auto.
  - simpl. destruct (resolve k t) as [[mv nk]|] eqn:Hr.
    + destruct (IH nk) as (pre & rest & kend & -> & Hre & Hmax & Hw & Hlen).
      exists (t :: pre), rest, kend. simpl. rewrite Hr. repeat split; auto.
      * now rewrite Hw.
      * simpl. now rewrite Hlen.
    + exists [], (t :: ts), k. simpl. repeat split; auto. right. eauto.
Qed.

(** ** Edges *)

Definition all_keys_present (b : book) : Prop :=
  forall k e m nk, b !! k = Some e -> In (m, nk) (succs e) -> is_Some (b !! nk).

Record EdgeInv (root : N) (L : list step) (b : book) : Prop := {
  ei_root : is_Some (b !! root);
  (* every stored edge was produced by an executed addToBook call with exactly these arguments,
     its target is a book key and not the root *)
  ei_src : forall k e m nk, b !! k = Some e -> In (m, nk) (succs e) ->
             In (SAdd k nk m) L /\ is_Some (b !! nk) /\ nk <> root;
  (* a key occurs at most once as a successor in the whole book *)
  ei_uniq : forall k1 e1 k2 e2 (i1 i2 : nat) m1 m2 nk,
             b !! k1 = Some e1 -> b !! k2 = Some e2 ->
             nth_error (succs e1) i1 = Some (m1, nk) -> nth_error (succs e2) i2 = Some (m2, nk) ->
             k1 = k2 /\ i1 = i2;
  (* every book key except the root has a parent offering it *)
  ei_parent : forall k, is_Some (b !! k) -> k <> root ->
             exists p e m, b !! p = Some e /\ In (m, k) (succs e)
}.

Lemma EdgeInv_weaken root L L' b :
  (forall s, In s L -> In s L') -> EdgeInv root L b -> EdgeInv root L' b.
Proof.
  intros HL [H1 H2 H3 H4]. split; auto.
  intros k e m nk Hk Hin. destruct (H2 k e m nk Hk Hin) as (Ha & Hb & Hc). auto.
Qed.

Lemma nth_error_app_last {A} (l : list A) x i y :
  nth_error (l ++ [x]) i = Some y -> nth_error l i = Some y \/ (i = length l /\ y = x).
Proof.
  intros H. destruct (Nat.lt_ge_cases i (length l)) as [Hlt|Hge].
  - left. now rewrite nth_error_app1 in H.
  - right. rewrite nth_error_app2 in H by exact Hge.
    destruct (i - length l)%nat as [|j] eqn:Hj; simpl in H.
    + split; [lia | congruence].
    + destruct j; discriminate.
Qed.

Ltac last_case H :=
  apply nth_error_app_last in H; destruct H as [H|[? H]]; [|injection H; intros; subst].

Lemma edge_step root L b s b' :
  EdgeInv root L b -> apply_step root b s = Some b' -> EdgeInv root (L ++ [s]) b'.
Proof.
  intros Hinv Hs.
  assert (Hinv' : EdgeInv root (L ++ [s]) b).
  { eapply EdgeInv_weaken; [|exact Hinv]. intros; apply in_or_app; now left. }
  clear Hinv. destruct Hinv' as [Hroot Hsrc Huniq Hpar].
  destruct s as [|c n m]; simpl in Hs.
  - (* root counter++ : succs unchanged everywhere *)
    unfold root_step in Hs. destruct (b !! root) as [re|] eqn:Hre; [|discriminate].
    injection Hs as <-.
    assert (Hlk : forall k e, <[root := bump re]> b !! k = Some e ->
                   exists e0, b !! k = Some e0 /\ succs e0 = succs e).
    { intros k e. destruct (N.eq_dec k root) as [->|Hne].
      - rewrite lookup_insert. intros [= <-]. eauto.
      - rewrite lookup_insert_ne by congruence. eauto. }
    assert (Hdom : forall k, is_Some (b !! k) <-> is_Some (<[root := bump re]> b !! k)).
    { intros k. destruct (N.eq_dec k root) as [->|Hne].
      - rewrite lookup_insert, Hre. split; eauto.
      - now rewrite lookup_insert_ne by congruence. }
    split.
    + apply Hdom. eauto.
    + intros k e m nk Hk Hin. destruct (Hlk k e Hk) as (e0 & Hk0 & Hs0). rewrite <- Hs0 in Hin.
      destruct (Hsrc k e0 m nk Hk0 Hin) as (Ha & Hb & Hc). split; [exact Ha|]. split; [now apply Hdom | exact Hc].
    + intros k1 e1 k2 e2 i1 i2 m1 m2 nk Hk1 Hk2 Hn1 Hn2.
      destruct (Hlk k1 e1 Hk1) as (e10 & Hk10 & Hs10). destruct (Hlk k2 e2 Hk2) as (e20 & Hk20 & Hs20).
      rewrite <- Hs10 in Hn1. rewrite <- Hs20 in Hn2. eapply Huniq; eauto.
    + intros k Hk Hne. apply Hdom in Hk. destruct (Hpar k Hk Hne) as (p & e & m & Hp & Hin).
      destruct (N.eq_dec p root) as [->|Hpr].
      * exists root, (bump re), m. rewrite lookup_insert. split; [reflexivity|].
        rewrite Hre in Hp. injection Hp as <-. exact Hin.
      * exists p, e, m. now rewrite lookup_insert_ne by congruence.
  - injection Hs as <-. unfold add_step.
    destruct (b !! c) as [ce|] eqn:Hce; [|now split].
    destruct (b !! n) as [ne|] eqn:Hn.
    + (* counter++ on an existing entry: succs unchanged everywhere *)
      assert (Hlk : forall k e, <[n := bump ne]> b !! k = Some e ->
                     exists e0, b !! k = Some e0 /\ succs e0 = succs e).
      { intros k e. destruct (N.eq_dec k n) as [->|Hne].
        - rewrite lookup_insert. intros [= <-]. eauto.
        - rewrite lookup_insert_ne by congruence. eauto. }
      assert (Hdom : forall k, is_Some (b !! k) <-> is_Some (<[n := bump ne]> b !! k)).
      { intros k. destruct (N.eq_dec k n) as [->|Hne].
        - rewrite lookup_insert, Hn. split; eauto.
        - now rewrite lookup_insert_ne by congruence. }
      split.
      * now apply Hdom.
      * intros k e m' nk Hk Hin. destruct (Hlk k e Hk) as (e0 & Hk0 & Hs0). rewrite <- Hs0 in Hin.
        destruct (Hsrc k e0 m' nk Hk0 Hin) as (Ha & Hb & Hc). split; [exact Ha|]. split; [now apply Hdom | exact Hc].
      * intros k1 e1 k2 e2 i1 i2 m1 m2 nk Hk1 Hk2 Hn1 Hn2.
        destruct (Hlk k1 e1 Hk1) as (e10 & Hk10 & Hs10). destruct (Hlk k2 e2 Hk2) as (e20 & Hk20 & Hs20).
        rewrite <- Hs10 in Hn1. rewrite <- Hs20 in Hn2. eapply Huniq; eauto.
      * intros k Hk Hne. apply Hdom in Hk. destruct (Hpar k Hk Hne) as (p & e & m' & Hp & Hin).
        destruct (N.eq_dec p n) as [->|Hpn].
        -- exists n, (bump ne), m'. rewrite lookup_insert. split; [reflexivity|].
           rewrite Hn in Hp. injection Hp as <-. exact Hin.
        -- exists p, e, m'. now rewrite lookup_insert_ne by congruence.
    + (* new entry n, edge c -> n appended *)
      assert (Hcn : c <> n) by (intros ->; congruence).
      assert (Hnr : n <> root) by (intros ->; rewrite Hn in Hroot; destruct Hroot; discriminate).
      set (b' := <[c := Entry (cnt ce) (succs ce ++ [(m, n)])]> (<[n := Entry 1 []]> b)).
      assert (Hlk : forall k e, b' !! k = Some e ->
                (k = c /\ e = Entry (cnt ce) (succs ce ++ [(m, n)])) \/
                (k = n /\ e = Entry 1 []) \/
                (k <> c /\ k <> n /\ b !! k = Some e)).
      { intros k e. unfold b'. destruct (N.eq_dec k c) as [->|Hkc].
        - rewrite lookup_insert. intros [= <-]. now left.
        - rewrite lookup_insert_ne by congruence. destruct (N.eq_dec k n) as [->|Hkn].
          + rewrite lookup_insert. intros [= <-]. right; now left.
          + rewrite lookup_insert_ne by congruence. intros H. right; right. auto. }
      assert (Hdom : forall k, is_Some (b !! k) -> is_Some (b' !! k)).
      { intros k Hk. unfold b'. destruct (N.eq_dec k c) as [->|Hkc]; [rewrite lookup_insert; eauto|].
        rewrite lookup_insert_ne by congruence.
        destruct (N.eq_dec k n) as [->|Hkn]; [rewrite lookup_insert; eauto|].
        now rewrite lookup_insert_ne by congruence. }
      assert (Hnew : is_Some (b' !! n)).
      { unfold b'. rewrite lookup_insert_ne by congruence. rewrite lookup_insert. eauto. }
      assert (Hold : forall k e m' nk, b !! k = Some e -> In (m', nk) (succs e) -> nk <> n).
      { intros k e m' nk Hk Hin ->. destruct (Hsrc k e m' n Hk Hin) as (_ & [x Hx] & _). congruence. }
      split.
      * now apply Hdom.
      * intros k e m' nk Hk Hin. destruct (Hlk k e Hk) as [[-> ->]|[[-> ->]|(Hkc & Hkn & Hk0)]].
        -- simpl in Hin. apply in_app_or in Hin as [Hin|Hin].
           ++ destruct (Hsrc c ce m' nk Hce Hin) as (Ha & Hb & Hc). auto.
           ++ destruct Hin as [[= <- <-]|[]]. split; [apply in_or_app; right; now left|]. auto.
        -- destruct Hin.
        -- destruct (Hsrc k e m' nk Hk0 Hin) as (Ha & Hb & Hc). auto.
      * intros k1 e1 k2 e2 i1 i2 m1 m2 nk Hk1 Hk2 Hn1 Hn2.
        destruct (Hlk k1 e1 Hk1) as [[-> ->]|[[-> ->]|(Hk1c & Hk1n & Hk10)]];
        destruct (Hlk k2 e2 Hk2) as [[-> ->]|[[-> ->]|(Hk2c & Hk2n & Hk20)]]; simpl in *;
          try (destruct i1; discriminate); try (destruct i2; discriminate).
        -- last_case Hn1; last_case Hn2.
           ++ eapply Huniq; eauto.
           ++ exfalso. eapply (Hold c ce m1 n Hce); [eapply nth_error_In; eauto | reflexivity].
           ++ exfalso. eapply (Hold c ce m2 n Hce); [eapply nth_error_In; eauto | reflexivity].
           ++ auto.
        -- last_case Hn1.
           ++ eapply (Huniq c ce k2 e2); eauto.
           ++ exfalso. eapply (Hold k2 e2 m2 n Hk20); [eapply nth_error_In; eauto | reflexivity].
        -- last_case Hn2.
           ++ eapply (Huniq k1 e1 c ce); eauto.
           ++ exfalso. eapply (Hold k1 e1 m1 n Hk10); [eapply nth_error_In; eauto | reflexivity].
        -- eapply Huniq; eauto.
      * intros k Hk Hne. destruct (N.eq_dec k n) as [->|Hkn].
        -- exists c, (Entry (cnt ce) (succs ce ++ [(m, n)])), m. unfold b'. rewrite lookup_insert.
           split; [reflexivity|]. simpl. apply in_or_app. right. now left.
        -- assert (Hk0 : is_Some (b !! k)).
           { destruct Hk as [e He]. destruct (Hlk k e He) as [[-> ->]|[[-> ->]|(_ & _ & H0)]]; eauto. congruence. }
           destruct (Hpar k Hk0 Hne) as (p & e & m' & Hp & Hin).
           destruct (N.eq_dec p c) as [->|Hpc].
           ++ exists c, (Entry (cnt ce) (succs ce ++ [(m, n)])), m'. unfold b'. rewrite lookup_insert.
              split; [reflexivity|]. simpl. apply in_or_app. left. rewrite Hce in Hp. now injection Hp as <-.
           ++ exists p, e, m'. unfold b'. rewrite lookup_insert_ne by congruence.
              destruct (N.eq_dec p n) as [->|Hpn]; [congruence|].
              now rewrite lookup_insert_ne by congruence.
Qed.

Lemma edge_run root sched : forall L b b',
  EdgeInv root L b -> run root sched b = Some b' -> EdgeInv root (L ++ sched) b'.
Proof.
  induction sched as [|s t IH]; intros L b b' Hinv Hrun; simpl in Hrun.
  - injection Hrun as <-. now rewrite app_nil_r.
  - destruct (apply_step root b s) as [b1|] eqn:Hs; [|discriminate].
    replace (L ++ s :: t) with ((L ++ [s]) ++ t) by (now rewrite <- app_assoc).
    eapply IH; [|exact Hrun]. eapply edge_step; eauto.
Qed.

Lemma EdgeInv_init root : EdgeInv root [] (init_book root).
Proof.
  unfold init_book. split.
  - rewrite lookup_singleton. eauto.
  - intros k e m nk Hk Hin. apply lookup_singleton_Some in Hk as [_ <-]. destruct Hin.
  - intros k1 e1 k2 e2 i1 i2 m1 m2 nk Hk1 _ Hn1 _.
    apply lookup_singleton_Some in Hk1 as [_ <-]. destruct i1; discriminate.
  - intros k [e Hk] Hne. apply lookup_singleton_Some in Hk as [<- _]. congruence.
Qed.

Lemma walk_in_resolve resolve c n m toks : forall k,
  In (SAdd c n m) (walk resolve k toks) -> exists t, resolve c t = Some (m, n).
Proof.
  induction toks as [|t ts IH]; intros k Hin; simpl in Hin; [destruct Hin|].
  destruct (resolve k t) as [[mv nk]|] eqn:Hr; [|destruct Hin].
  destruct Hin as [[= -> -> ->]|Hin]; [eauto | eapply IH; eauto].
Qed.

(** ** C19, soundness of the offered moves.
    After ANY schedule, for every edge (mv, nk) stored at entry k:
    (1) some line of the input made the move mv (token t) in position k and it led to nk;
    (2) nk is a book position and is not the root;
    (3) nk occurs nowhere else as a successor: not at another entry, not at another index;
    (4) every book position except the root is offered by exactly one entry (existence here,
        uniqueness by (3)) — so every book position is reachable from the root. *)
Theorem book_edges_sound resolve root (games : list (option (list str))) sched b :
  Interleave (map (game_steps resolve root) games) sched ->
  run root sched (init_book root) = Some b ->
  (forall k e mv nk, b !! k = Some e -> In (mv, nk) (succs e) ->
      (exists g t, In g games /\ In (SAdd k nk mv) (game_steps resolve root g) /\
                   resolve k t = Some (mv, nk)) /\
      is_Some (b !! nk) /\ nk <> root) /\
  (forall k1 e1 k2 e2 i1 i2 m1 m2 nk,
      b !! k1 = Some e1 -> b !! k2 = Some e2 ->
      nth_error (succs e1) i1 = Some (m1, nk) -> nth_error (succs e2) i2 = Some (m2, nk) ->
      k1 = k2 /\ i1 = i2) /\
  (forall k, is_Some (b !! k) -> k <> root ->
      exists p e mv, b !! p = Some e /\ In (mv, k) (succs e)).
Proof.
  intros Hil Hrun.
  pose proof (edge_run root sched [] _ _ (EdgeInv_init root) Hrun) as [_ Hsrc Huniq Hpar].
  simpl in Hsrc. split; [|split; [exact Huniq | exact Hpar]].
  intros k e mv nk Hk Hin. destruct (Hsrc k e mv nk Hk Hin) as (Hs & Hb & Hc).
  split; [|auto].
  apply (Permutation_in _ (interleave_perm _ _ Hil)) in Hs.
  apply in_concat in Hs as (l & Hl & Hs). apply in_map_iff in Hl as (g & <- & Hg).
  destruct g as [toks|]; simpl in Hs; [|destruct Hs].
  destruct Hs as [Hs|Hs]; [discriminate|].
  destruct (walk_in_resolve _ _ _ _ _ _ Hs) as (t & Ht).
  exists (Some toks), t. split; [exact Hg|]. split; [simpl; now right | exact Ht].
Qed.

(** Legality.  Section hypothesis [resolve_legal] (allowed by the task; discharged by the C01/C17
    agents): GetMoveFromUci / GetMoveFromSan return only members of the legal move list of the
    position, and DoMove leads to the successor position of that move. *)
Section Legal.
  Variable resolve : N -> str -> option (N * N).
  Variable legal : N -> N -> Prop.          (* legal k mv *)
  Variable succ_of : N -> N -> N.           (* key after DoMove *)
  Hypothesis resolve_legal : forall k t mv nk,
    resolve k t = Some (mv, nk) -> legal k mv /\ nk = succ_of k mv.

  (** every offered move is legal where it is offered, leads to the linked entry, and is
      offered only once by that entry *)
  Theorem book_moves_legal_once root (games : list (option (list str))) sched b :
    Interleave (map (game_steps resolve root) games) sched ->
    run root sched (init_book root) = Some b ->
    forall k e, b !! k = Some e ->
      (forall mv nk, In (mv, nk) (succs e) ->
         legal k mv /\ nk = succ_of k mv /\ is_Some (b !! nk)) /\
      (forall i j mv n1 n2, nth_error (succs e) i = Some (mv, n1) ->
                            nth_error (succs e) j = Some (mv, n2) -> i = j).
  Proof.
    intros Hil Hrun k e Hk.
    destruct (book_edges_sound resolve root games sched b Hil Hrun) as (Hsrc & Huniq & _).
    assert (H1 : forall mv nk, In (mv, nk) (succs e) ->
               legal k mv /\ nk = succ_of k mv /\ is_Some (b !! nk)).
    { intros mv nk Hin. destruct (Hsrc k e mv nk Hk Hin) as ((g & t & _ & _ & Ht) & Hb & _).
      destruct (resolve_legal _ _ _ _ Ht). auto. }
    split; [exact H1|].
    intros i j mv n1 n2 Hi Hj.
    destruct (H1 mv n1 (nth_error_In _ _ Hi)) as (_ & -> & _).
    destruct (H1 mv n2 (nth_error_In _ _ Hj)) as (_ & -> & _).
    now destruct (Huniq k e k e i j mv mv _ Hk Hk Hi Hj).
  Qed.
End Legal.

(** non-vacuity of [book_moves_legal_once]: a one-move book *)
Definition ex2_resolve (k : N) (t : str) : option (N * N) :=
  if (k =? 1) && str_eqb t [97] then Some (10, 2) else None.
Example book_moves_legal_once_ex :
  exists b e, run 1 [SRoot; SAdd 1 2 10] (init_book 1) = Some b /\ b !! 1 = Some e /\
    forall mv nk, In (mv, nk) (succs e) -> (mv = 10 /\ 1 = 1) /\ nk = 2 /\ is_Some (b !! nk).
Proof.
  assert (Hil : Interleave (map (game_steps ex2_resolve 1) [Some [[97]]]) [SRoot; SAdd 1 2 10])
    by apply (interleave_concat [[SRoot; SAdd 1 2 10]]).
  destruct (book_schedule_independent ex2_resolve 1 [Some [[97]]] _ Hil) as (b & Hrun & Hc).
  assert (H1 : is_Some (b !! 1)).
  { specialize (Hc 1). unfold cview in Hc. destruct (b !! 1); [eauto | discriminate]. }
  destruct H1 as [e He]. exists b, e. split; [exact Hrun|]. split; [exact He|].
  intros mv nk Hin.
  refine (proj1 (book_moves_legal_once ex2_resolve (fun k mv => mv = 10 /\ k = 1) (fun _ _ => 2) _
            1 [Some [[97]]] _ b Hil Hrun 1 e He) mv nk Hin).
  intros k t mv' nk' H. unfold ex2_resolve in H.
  destruct ((k =? 1) && str_eqb t [97]) eqn:E; [|discriminate]. injection H as <- <-.
  apply andb_prop in E as [E _]. apply N.eqb_eq in E. auto.
Qed.

(** ** Which parent offers a transposed position DOES depend on the schedule.
    Two lines a-b and b-a reaching the same position 4 via 2 resp. 3: *)
Definition ex_resolve (k : N) (t : str) : option (N * N) :=
  match k, t with
  | 1, [97] => Some (10, 2) | 1, [98] => Some (11, 3)
  | 2, [98] => Some (12, 4) | 3, [97] => Some (13, 4)
  | _, _ => None
  end.
Definition ex_games : list (option (list str)) := [Some [[97];[98]]; Some [[98];[97]]].
Definition ex_sched1 := concat (map (game_steps ex_resolve 1) ex_games).
Definition ex_sched2 := concat (map (game_steps ex_resolve 1) (rev ex_games)).

Example ex_scheds_are_interleavings :
  Interleave (map (game_steps ex_resolve 1) ex_games) ex_sched1 /\
  Interleave (map (game_steps ex_resolve 1) ex_games) ex_sched2.
Proof.
  split; [apply interleave_concat|].
  vm_compute.
  apply (il_step [[SRoot; SAdd 1 2 10; SAdd 2 4 12]] SRoot _ []).
  apply (il_step [[SRoot; SAdd 1 2 10; SAdd 2 4 12]] _ _ []).
  apply (il_step [[SRoot; SAdd 1 2 10; SAdd 2 4 12]] _ _ []).
  apply (il_step [] _ _ [[]]). apply (il_step [] _ _ [[]]). apply (il_step [] _ _ [[]]).
  apply il_done. repeat constructor.
Qed.

Definition edges_of (ob : option book) (k : N) : option (list (N * N)) :=
  match ob with Some b => succs <$> (b !! k) | None => None end.

Definition cview_of (ob : option book) (k : N) : option N :=
  match ob with Some b => cview b k | None => None end.

Example edge_parent_depends_on_schedule :
  (* same positions and counters ... *)
  (forall k, In k [1;2;3;4;5] ->
     cview_of (run 1 ex_sched1 (init_book 1)) k = cview_of (run 1 ex_sched2 (init_book 1)) k) /\
  (* ... but the edge to the transposed position 4 hangs under 2 in one book and under 3 in the other *)
  edges_of (run 1 ex_sched1 (init_book 1)) 2 = Some [(12, 4)] /\
  edges_of (run 1 ex_sched1 (init_book 1)) 3 = Some [] /\
  edges_of (run 1 ex_sched2 (init_book 1)) 2 = Some [] /\
  edges_of (run 1 ex_sched2 (init_book 1)) 3 = Some [(13, 4)].
Proof.
  split; [|vm_compute; auto].
  intros k Hk. simpl in Hk. repeat (destruct Hk as [<-|Hk]; [vm_compute; reflexivity|]). destruct Hk.
Qed.

(** non-vacuity of the main theorems on this example *)
Example ex_counts :
  cview_of (run 1 ex_sched1 (init_book 1)) 4 = Some 2 /\
  cview_of (run 1 ex_sched1 (init_book 1)) 1 = Some 2 /\
  spec_counts 1 (map (game_steps ex_resolve 1) ex_games) 4 = Some 2 /\
  spec_counts 1 (map (game_steps ex_resolve 1) ex_games) 7 = None.
Proof. vm_compute. auto. Qed.

(** a line with an unresolvable token in the middle contributes its prefix only *)
Example ex_prefix :
  game_steps ex_resolve 1 (Some [[97];[120];[98]]) = [SRoot; SAdd 1 2 10].
Proof. reflexivity. Qed.

(* ========================================================================= *)
(** * Part C — whole files, format independence, findings, checker soundness  *)
(* ========================================================================= *)

(** *** executable well-formedness check of a PGN game *)
Definition mline_okb (l : list gword) : bool :=
  line_ok l && forallb (fun gw : gword => word_ok (snd gw)) l.
Definition pgame_okb (p : pgame) : bool :=
  forallb tag_ok (pg_tags p) &&
  forallb mline_okb (pg_lines p) &&
  forallb (fun l => negb (has_result (render_line l))) (pg_lines p) &&
  match pg_last p with [] => true | l => mline_okb l end &&
  pgn_result_ok (pg_res p) &&
  glues_ok (WBlank 0) (pg_words p) &&
  bal_words 0 (pg_words p) &&
  starts_with_num 0 (pg_words p) &&
  match pg_moves p with [] => false | _ => true end.

Lemma mline_okb_sound l : mline_okb l = true -> mline_ok l.
Proof. unfold mline_okb, mline_ok. intros H. apply andb_prop in H. exact H. Qed.

Lemma pgame_okb_sound p : pgame_okb p = true -> pgame_ok p.
Proof.
  unfold pgame_okb. intros H.
  apply andb_prop in H as [H H9]. apply andb_prop in H as [H H8]. apply andb_prop in H as [H H7].
  apply andb_prop in H as [H H6]. apply andb_prop in H as [H H5]. apply andb_prop in H as [H H4].
  apply andb_prop in H as [H H3]. apply andb_prop in H as [H1 H2].
  split; try assumption.
  - apply List.Forall_forall. intros x Hx. rewrite forallb_forall in H1. auto.
  - apply List.Forall_forall. intros x Hx. apply mline_okb_sound. rewrite forallb_forall in H2. auto.
  - apply List.Forall_forall. intros x Hx. rewrite forallb_forall in H3. specialize (H3 x Hx).
    destruct (has_result (render_line x)); [discriminate | reflexivity].
  - destruct (pg_last p) eqn:E; [now left | right; now apply mline_okb_sound].
  - destruct (pg_moves p); [discriminate | discriminate].
Qed.

(** *** whole files *)
Theorem file_games_simple (gs : list (str * list (bool * str))) :
  Forall (fun g => uci_ok (fst g) = true /\ Forall (fun su => uci_ok (snd su) = true) (snd g)) gs ->
  file_games Simple (map (fun g => render_simple (fst g) (snd g)) gs)
  = map (fun g => Some (fst g :: map snd (snd g))) gs.
Proof.
  induction 1 as [|g gs [H1 H2] _ IH]; [reflexivity|]. cbn [map file_games] in *.
  now rewrite tokens_simple_render, IH.
Qed.

Theorem file_games_san (gs : list (bool * list str * option str)) :
  Forall (fun g => snd (fst g) <> [] /\ Forall (fun s => san_ok s = true) (snd (fst g)) /\
                   match snd g with Some r => is_result r = true | None => True end) gs ->
  file_games San (map (fun g => render_san (fst (fst g)) (snd (fst g)) (snd g)) gs)
  = map (fun g => Some (snd (fst g))) gs.
Proof.
  induction 1 as [|g gs (H1 & H2 & H3) _ IH]; [reflexivity|]. cbn [map file_games] in *.
  now rewrite tokens_san_render, IH.
Qed.

Theorem file_games_pgn (ps : list pgame) :
  Forall pgame_ok ps ->
  file_games Pgn (concat (map pg_render ps)) = map (fun p => Some (pg_moves p)) ps.
Proof.
  induction 1 as [|p ps Hp _ IH]; [reflexivity|]. cbn [map concat file_games] in *.
  rewrite (pgn_slices_render p _ Hp). cbn [map]. now rewrite (tokens_pgn_render p Hp), IH.
Qed.

(** *** format independence of the book *)
Lemma walk_agree resolve (g : list (str * str)) : forall k,
  (forall k' m, In m g -> resolve k' (fst m) = resolve k' (snd m)) ->
  walk resolve k (map fst g) = walk resolve k (map snd g).
Proof.
  induction g as [|m g IH]; intros k H; [reflexivity|]. cbn [map walk].
  rewrite (H k m (or_introl eq_refl)). destruct (resolve k (snd m)) as [[mv nk]|]; [|reflexivity].
  f_equal. apply IH. intros k' m' Hm'. apply H. now right.
Qed.

(** C19, format independence.  [games]: every game as the list of its moves, each move given in
    coordinate form (fst) and in SAN (snd).  If the files in two formats are read as these games
    (which [file_games_simple], [file_games_san], [file_games_pgn] establish for rendered files)
    and coordinate and SAN form of a move resolve alike (C17: GetMoveFromUci/GetMoveFromSan find
    the same legal move), then whatever the goroutine schedules of the two builds, both books have
    the same positions with the same counters. *)
Theorem formats_agree resolve root (games : list (list (str * str))) f1 file1 f2 file2 sched1 sched2 :
  (forall g k m, In g games -> In m g -> resolve k (fst m) = resolve k (snd m)) ->
  (file_games f1 file1 = map (fun g => Some (map fst g)) games \/
   file_games f1 file1 = map (fun g => Some (map snd g)) games) ->
  (file_games f2 file2 = map (fun g => Some (map fst g)) games \/
   file_games f2 file2 = map (fun g => Some (map snd g)) games) ->
  Interleave (map (game_steps resolve root) (file_games f1 file1)) sched1 ->
  Interleave (map (game_steps resolve root) (file_games f2 file2)) sched2 ->
  exists b1 b2, run root sched1 (init_book root) = Some b1 /\
                run root sched2 (init_book root) = Some b2 /\
                (forall k, is_Some (b1 !! k) <-> is_Some (b2 !! k)) /\
                (forall k, cview b1 k = cview b2 k).
Proof.
  intros Hres H1 H2 I1 I2.
  assert (Hsteps : forall f file,
     (file_games f file = map (fun g => Some (map fst g)) games \/
      file_games f file = map (fun g => Some (map snd g)) games) ->
     map (game_steps resolve root) (file_games f file)
     = map (game_steps resolve root) (map (fun g => Some (map snd g)) games)).
  { intros f file [->| ->]; [|reflexivity]. rewrite !map_map. apply map_ext_in. intros g Hg.
    cbn [game_steps]. f_equal. apply walk_agree. intros k' m Hm. now apply (Hres g). }
  rewrite (Hsteps f1 file1 H1) in I1. rewrite (Hsteps f2 file2 H2) in I2.
  exact (book_positions_counts_schedule_free resolve root _ sched1 sched2 I1 I2).
Qed.

(** *** non-vacuity: one concrete game in the three formats (the same text was fed to the real
    engine: 8 positions in each format, equal counters) *)
Definition ex_pgame : pgame :=
  PGame [([69;118;101;110;116], [69;120;97;109;112;108;101;59;32;119;105;116;104;32;40;112;97;114;101;110;41;32;97;110;100;32;123;98;114;97;99;101;125]); ([82;101;115;117;108;116], [49;45;48])]
    [[(false, WCom [115;116;97;114;116]);
      (false, WNum [49] 1);
      (true, WTok [101;52]);
      (false, WNag [49]);
      (false, WCom [98;101;115;116;32;98;121;32;116;101;115;116;32;91;37;99;108;107;32;48;58;48;53;58;48;48;93]);
      (false, WTok [101;53]);
      (false, WOpen);
      (true, WNum [49] 3);
      (false, WTok [99;53]);
      (false, WNum [50] 1);
      (false, WTok [78;102;51]);
      (false, WOpen);
      (true, WNum [50] 1);
      (false, WTok [99;51]);
      (false, WTok [100;53]);
      (true, WClose);
      (false, WNum [50] 3);
      (false, WTok [100;54]);
      (true, WClose)];
     [(false, WNum [50] 1);
      (false, WTok [78;102;51]);
      (false, WAng [114;101;115;101;114;118;101;100]);
      (false, WTok [78;99;54]);
      (false, WNum [51] 1);
      (false, WTok [66;98;53]);
      (false, WNag [49;52]);
      (false, WTok [97;54])]]
    [(false, WNum [52] 1);
     (false, WTok [66;97;52]);
     (false, WCom [114;101;116;114;101;97;116])]
    s_10.
Definition ex_moves_san : list str := [[101;52];[101;53];[78;102;51];[78;99;54];[66;98;53];[97;54];[66;97;52]].
Definition ex_moves_uci : list str := [[101;50;101;52];[101;55;101;53];[103;49;102;51];[98;56;99;54];[102;49;98;53];[97;55;97;54];[98;53;97;52]].
Definition ex_pgn_lines : list str := [[91;69;118;101;110;116;32;34;69;120;97;109;112;108;101;59;32;119;105;116;104;32;40;112;97;114;101;110;41;32;97;110;100;32;123;98;114;97;99;101;125;34;93];[91;82;101;115;117;108;116;32;34;49;45;48;34;93];[];[123;115;116;97;114;116;125;32;49;46;101;52;32;36;49;32;123;98;101;115;116;32;98;121;32;116;101;115;116;32;91;37;99;108;107;32;48;58;48;53;58;48;48;93;125;32;101;53;32;40;49;46;46;46;32;99;53;32;50;46;32;78;102;51;32;40;50;46;32;99;51;32;100;53;41;32;50;46;46;46;32;100;54;41];[50;46;32;78;102;51;32;60;114;101;115;101;114;118;101;100;62;32;78;99;54;32;51;46;32;66;98;53;32;36;49;52;32;97;54];[52;46;32;66;97;52;32;123;114;101;116;114;101;97;116;125;32;49;45;48]].

Example ex_pgame_is_ok : pgame_ok ex_pgame.
Proof. apply pgame_okb_sound. vm_compute. reflexivity. Qed.

Example ex_pgame_text : pg_render ex_pgame = ex_pgn_lines /\ pg_moves ex_pgame = ex_moves_san.
Proof. split; vm_compute; reflexivity. Qed.

Example ex_three_formats :
  (* PGN, by the theorem and by computation *)
  tokens_pgn ex_pgn_lines = Some ex_moves_san /\
  (* Simple: e2e4e7e5 g1f3 b8c6f1b5 a7a6 b5a4 *)
  render_simple [101;50;101;52] [(false,[101;55;101;53]);(true,[103;49;102;51]);(true,[98;56;99;54]);(false,[102;49;98;53]);(true,[97;55;97;54]);(true,[98;53;97;52])]
    = [101;50;101;52;101;55;101;53;32;103;49;102;51;32;98;56;99;54;102;49;98;53;32;97;55;97;54;32;98;53;97;52] /\
  tokens_simple [101;50;101;52;101;55;101;53;32;103;49;102;51;32;98;56;99;54;102;49;98;53;32;97;55;97;54;32;98;53;97;52] = Some ex_moves_uci /\
  (* SAN: 1.e4 e5 2.Nf3 Nc6 3.Bb5 a6 4.Ba4 1-0 *)
  render_san true ex_moves_san (Some s_10)
    = [49;46;101;52;32;101;53;32;50;46;78;102;51;32;78;99;54;32;51;46;66;98;53;32;97;54;32;52;46;66;97;52;32;49;45;48] /\
  tokens_san (render_san true ex_moves_san (Some s_10)) = Some ex_moves_san.
Proof.
  destruct ex_pgame_text as [<- <-]. split; [exact (tokens_pgn_render ex_pgame ex_pgame_is_ok)|].
  repeat split; vm_compute; reflexivity.
Qed.

(** *** Findings: texts outside the grammar on which the readers disagree (each reproduced on the
    real engine; see the report).  The reference game is 1.e4 e5 2.Nf3 Nc6. *)
Definition ref_san : list str := [[101;52];[101;53];[78;102;51];[78;99;54]].

(* a semicolon inside a brace comment cuts the line there (";.*$" runs before "{[^{}]*}"):
   1. e4 {a; b} e5 2. Nf3 Nc6 1-0   is read as  e4, "{a"  *)
Example finding_semicolon_in_comment :
  tokens_pgn [[49;46;32;101;52;32;123;97;59;32;98;125;32;101;53;32;50;46;32;78;102;51;32;78;99;54;32;49;45;48]]
  = Some [[101;52];[123;97]].
Proof. vm_compute. reflexivity. Qed.

(* a rest-of-line comment that ends with a result marker ends the game for processPgn; the rest
   of the game is then read as a NEW game from the start position:
   1. e4 e5 ; heading for 1-0 / 2. Nf3 Nc6 1-0  gives two games  [e4,e5] and [Nf3,Nc6] *)
Example finding_result_in_line_comment :
  file_games Pgn [[49;46;32;101;52;32;101;53;32;59;32;104;101;97;100;105;110;103;32;102;111;114;32;49;45;48];
                  [50;46;32;78;102;51;32;78;99;54;32;49;45;48]]
  = [Some [[101;52];[101;53]]; Some [[78;102;51];[78;99;54]]].
Proof. vm_compute. reflexivity. Qed.

(* castling written with zeros is deleted by the result pattern (1/2|1|0)-(1/2|1|0):
   1. e4 e5 2. 0-0 Nf3  is read as e4 e5 Nf3 *)
Example finding_zero_castling :
  tokens_san [49;46;32;101;52;32;101;53;32;50;46;32;48;45;48;32;78;102;51] = Some [[101;52];[101;53];[78;102;51]].
Proof. vm_compute. reflexivity. Qed.

(* Simple format: text that is not a coordinate move is invisible, the line goes on behind it;
   SAN/PGN stop at the unreadable token:  e2e4 zz e7e5  vs  1. e4 zz e5 *)
Example finding_simple_skips_unreadable :
  tokens_simple [101;50;101;52;32;122;122;32;101;55;101;53] = Some [[101;50;101;52];[101;55;101;53]] /\
  tokens_san [49;46;32;101;52;32;122;122;32;101;53] = Some [[101;52];[122;122];[101;53]].
Proof. split; vm_compute; reflexivity. Qed.

(* a fully disambiguated SAN move contains a coordinate pair and is therefore routed to the UCI
   parser (openingbook.go:561), which since it matches whole strings rejects it:
   1. e4 e5 2. Ng1f3 Nb8c6  contributes e4 e5 only (real engine: 3 positions instead of 5) *)
Example finding_overspecified_san_routed_to_uci :
  uci_pattern_in [78;103;49;102;51] = true /\ san_ok [78;103;49;102;51] = true /\
  uci_pattern_in [78;102;51] = false.
Proof. repeat split; vm_compute; reflexivity. Qed.

(* the root counter counts lines that pass the line filter, and the filters differ:
   SAN "1." is a line (root counter + 1, token list [""]), Simple "hello" is not *)
Example finding_root_counter_filters :
  tokens_san [49;46] = Some [[]] /\ tokens_simple [104;101;108;108;111] = None.
Proof. split; vm_compute; reflexivity. Qed.

(** *** soundness of the checker used in the correspondence run *)
Lemma chained_ok root g : forall k (D : N -> Prop), D k -> chained k g = true ->
  sched_ok root D (map to_step g).
Proof.
  induction g as [|[[c n] m] g IH]; intros k D Hk Hc; [exact I|].
  cbn [chained] in Hc. apply andb_prop in Hc as [H1 H2]. apply N.eqb_eq in H1 as ->.
  cbn [map to_step sched_ok]. split; [exact Hk|]. apply (IH n); [now right | exact H2].
Qed.

Lemma occ_pos root k l : occ root k l <> 0 -> k = root \/ exists c m, In (SAdd c k m) l.
Proof.
  induction l as [|s l IH]; intros H; [simpl in H; congruence|]. cbn [occ] in H.
  destruct s as [|c n m]; cbn [hits] in H.
  - destruct (N.eqb_spec k root); [now left|]. destruct IH as [?|(c & m & Hin)]; [lia | auto | right; exists c, m; now right].
  - destruct (N.eqb_spec k n) as [->|Hne]; [right; exists c, m; now left|].
    destruct IH as [?|(c' & m' & Hin)]; [lia | auto | right; exists c', m'; now right].
Qed.

Lemma existsb_eqb_In k l : existsb (N.eqb k) l = true -> In k l.
Proof. intros H. apply existsb_exists in H as (x & Hx & E). apply N.eqb_eq in E. now subst. Qed.

(** if the checker accepts, then for EVERY schedule of the observed games the model book has
    exactly the observed keys with exactly the observed counters *)
Theorem book_case_ok_sound root games observed sched :
  book_case_ok root games observed = true ->
  Interleave (map game_of games) sched ->
  exists b, run root sched (init_book root) = Some b /\
            (forall e, In e observed -> cview b (okey e) = Some (snd (fst e))) /\
            (forall k, is_Some (b !! k) -> In k (map okey observed)).
Proof.
  unfold book_case_ok. intros H Hil.
  apply andb_prop in H as [H _]. apply andb_prop in H as [H _]. apply andb_prop in H as [H _].
  apply andb_prop in H as [H _]. apply andb_prop in H as [H _]. apply andb_prop in H as [H Hsteps].
  apply andb_prop in H as [H Hroot]. apply andb_prop in H as [H Hcnt]. apply andb_prop in H as [Hch Hnd].
  assert (Hok : Forall (sched_ok root (fun k => k = root)) (map game_of games)).
  { apply List.Forall_forall. intros l Hl. apply in_map_iff in Hl as (g & <- & Hg).
    rewrite forallb_forall in Hch. unfold game_of. cbn [sched_ok]. split; [reflexivity|].
    apply (chained_ok root g root); [reflexivity | auto]. }
  destruct (schedule_counts_general root _ sched Hok Hil) as (b & Hrun & Hc).
  exists b. split; [exact Hrun|]. split.
  - intros e He. rewrite Hc. rewrite forallb_forall in Hcnt. specialize (Hcnt e He).
    destruct (spec_counts root (map game_of games) (okey e)) as [n|]; [|discriminate].
    apply N.eqb_eq in Hcnt. now subst.
  - intros k [e Hk]. assert (Hcv : cview b k = Some (cnt e)) by (unfold cview; now rewrite Hk).
    rewrite Hc in Hcv. unfold spec_counts in Hcv.
    destruct (N.eqb_spec k root) as [->|Hne]; cbn [orb] in Hcv.
    + now apply existsb_eqb_In.
    + destruct (occ root k (concat (map game_of games)) =? 0) eqn:E; [discriminate|].
      apply N.eqb_neq in E. destruct (occ_pos _ _ _ E) as [?|(c & m & Hin)]; [congruence|].
      apply in_concat in Hin as (l & Hl & Hin). apply in_map_iff in Hl as (g & <- & Hg).
      unfold game_of in Hin. destruct Hin as [Hin|Hin]; [discriminate|].
      apply in_map_iff in Hin as ([[c' n'] m'] & Heq & Hin'). injection Heq as -> -> ->.
      rewrite forallb_forall in Hsteps.
      assert (Hin2 : In (c, k, m) (concat games)) by (apply in_concat; eauto).
      specialize (Hsteps _ Hin2). cbn [fst snd] in Hsteps. now apply existsb_eqb_In.
Qed.

(** the checker is not trivially true: a wrong counter is rejected *)
Example book_case_ok_rejects :
  book_case_ok 1 [[(1,2,10);(2,4,12)];[(1,3,11);(3,4,13)]] [(1,2,[(10,2);(11,3)]);(2,1,[(12,4)]);(3,1,[]);(4,2,[])] = true /\
  book_case_ok 1 [[(1,2,10);(2,4,12)];[(1,3,11);(3,4,13)]] [(1,2,[(10,2);(11,3)]);(2,1,[(12,4)]);(3,1,[]);(4,1,[])] = false /\
  book_case_ok 1 [[(1,2,10);(2,4,12)];[(1,3,11);(3,4,13)]] [(1,2,[(10,2);(11,3)]);(2,1,[(12,4)]);(3,1,[(13,4)]);(4,2,[])] = false.
Proof. repeat split; vm_compute; reflexivity. Qed.

(* ========================================================================= *)
(** * Assumptions *)
Print Assumptions tokens_simple_render.
Print Assumptions tokens_san_render.
Print Assumptions rav_loop_fuel_enough.
Print Assumptions tokens_pgn_render.
Print Assumptions pgn_slices_render.
Print Assumptions file_games_pgn.
Print Assumptions book_schedule_independent.
Print Assumptions book_positions_counts_schedule_free.
Print Assumptions parallel_equals_sequential.
Print Assumptions prefix_only.
Print Assumptions book_edges_sound.
Print Assumptions book_moves_legal_once.
Print Assumptions formats_agree.
Print Assumptions book_case_ok_sound.
