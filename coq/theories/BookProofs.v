(** * BookProofs — theorems about BookModel (property C19)

    Part A: the book under concurrent construction
      [book_schedule_independent], [book_positions_counts_schedule_free], [seq_build_is_a_schedule],
      [book_edges_sound], [book_moves_legal_once], [edge_parent_depends_on_schedule] (Example),
      [prefix_only], [game_steps_state_free], [book_case_ok_sound].
    Part B: the three readers (see the header of Part B below). *)

From Coq Require Import NArith List Bool Arith Lia Permutation ZifyN ZifyBool.
From stdpp Require Import base option fin_maps nmap.
From FG Require Import BookModel.
Import ListNotations.

Local Open Scope N_scope.

(* ========================================================================= *)
(** * Part A                                                                  *)
(* ========================================================================= *)

(** ** Schedules: interleavings of the per-goroutine step lists *)

Inductive Interleave : list (list step) -> list step -> Prop :=
| il_done ls : Forall (fun l => l = []) ls -> Interleave ls []
| il_step ls1 s l ls2 sched :
    Interleave (ls1 ++ l :: ls2) sched ->
    Interleave (ls1 ++ (s :: l) :: ls2) (s :: sched).

Lemma concat_all_nil (ls : list (list step)) : Forall (fun l => l = []) ls -> concat ls = [].
Proof. induction 1 as [|l ls Hl _ IH]; [reflexivity|]. simpl. now rewrite Hl, IH. Qed.

Lemma interleave_perm ls sched : Interleave ls sched -> Permutation sched (concat ls).
Proof.
  induction 1 as [ls Hnil | ls1 s l ls2 sched _ IH].
  - now rewrite concat_all_nil.
  - rewrite concat_app in *. simpl in *.
    now apply Permutation_cons_app.
Qed.

Lemma interleave_nil_cons ls sched : Interleave ls sched -> Interleave ([] :: ls) sched.
Proof.
  induction 1 as [ls Hnil | ls1 s l ls2 sched _ IH].
  - apply il_done. now constructor.
  - apply (il_step ([] :: ls1)). exact IH.
Qed.

(** running the goroutines one after the other is one particular schedule *)
Lemma interleave_concat ls : Interleave ls (concat ls).
Proof.
  induction ls as [|l ls IH]; [apply il_done; constructor|].
  simpl. induction l as [|s l IHl].
  - simpl. now apply interleave_nil_cons.
  - simpl. apply (il_step [] s l ls). exact IHl.
Qed.

(** ** Counting *)

Lemma occ_app root k l1 l2 : occ root k (l1 ++ l2) = occ root k l1 + occ root k l2.
Proof. induction l1 as [|s l1 IH]; simpl; [reflexivity|]. rewrite IH. lia. Qed.

Lemma occ_perm root k l1 l2 : Permutation l1 l2 -> occ root k l1 = occ root k l2.
Proof. induction 1; simpl; lia. Qed.

Definition add_occ (o : option N) (n : N) : option N :=
  match o with
  | Some c => Some (c + n)
  | None => if n =? 0 then None else Some n
  end.

Lemma add_occ_0 o : add_occ o 0 = o.
Proof. destruct o; simpl; [f_equal; lia | reflexivity]. Qed.

Lemma add_occ_add o a b : add_occ (add_occ o a) b = add_occ o (a + b).
Proof.
  destruct o as [c|]; simpl.
  - f_equal. lia.
  - destruct (N.eqb_spec a 0) as [->|Ha]; simpl.
    + reflexivity.
    + destruct (N.eqb_spec (a + b) 0); [lia | reflexivity].
Qed.

Lemma cview_insert (b : book) i x k :
  cview (<[i := x]> b) k = if k =? i then Some (cnt x) else cview b k.
Proof.
  unfold cview. destruct (N.eqb_spec k i) as [->|Hne].
  - now rewrite lookup_insert.
  - now rewrite lookup_insert_ne by congruence.
Qed.

(** ** The schedule never takes the error branch "current position not in book" *)

Fixpoint sched_ok (root : N) (D : N -> Prop) (l : list step) : Prop :=
  match l with
  | [] => True
  | SRoot :: t => D root /\ sched_ok root D t
  | SAdd c n _ :: t => D c /\ sched_ok root (fun k => D k \/ k = n) t
  end.

Lemma sched_ok_mono root l : forall (D D' : N -> Prop),
  (forall k, D k -> D' k) -> sched_ok root D l -> sched_ok root D' l.
Proof.
  induction l as [|[|c n m] l IH]; intros D D' HD H; simpl in *; [exact I| |].
  - destruct H as [H1 H2]. split; [now apply HD | now apply (IH D D')].
  - destruct H as [H1 H2]. split; [now apply HD|].
    apply (IH (fun k => D k \/ k = n)); [|exact H2]. intros k [Hk|Hk]; [left; now apply HD | now right].
Qed.

Lemma interleave_ok root ls sched :
  Interleave ls sched -> forall D, Forall (sched_ok root D) ls -> sched_ok root D sched.
Proof.
  induction 1 as [ls Hnil | ls1 s l ls2 sched _ IH]; intros D HF; [exact I|].
  apply Forall_app in HF as [HF1 HF2]. apply Forall_cons_iff in HF2 as [Hsl HF2].
  destruct s as [|c n m]; simpl in *.
  - destruct Hsl as [Hr Hl]. split; [exact Hr|].
    apply IH. apply Forall_app. split; [exact HF1|]. constructor; assumption.
  - destruct Hsl as [Hc Hl]. split; [exact Hc|].
    apply IH. apply Forall_app. split.
    + eapply Forall_impl; [exact HF1|]. intros a Ha. eapply sched_ok_mono; [|exact Ha]. intros; now left.
    + constructor; [exact Hl|].
      eapply Forall_impl; [exact HF2|]. intros a Ha. eapply sched_ok_mono; [|exact Ha]. intros; now left.
Qed.

Section WithResolve.
  Variable resolve : N -> str -> option (N * N).
  Variable root : N.

  Lemma walk_ok toks : forall k (D : N -> Prop), D k -> sched_ok root D (walk resolve k toks).
  Proof.
    induction toks as [|t ts IH]; intros k D Hk; simpl; [exact I|].
    destruct (resolve k t) as [[mv nk]|]; simpl; [|exact I].
    split; [exact Hk|]. apply IH. now right.
  Qed.

  Lemma game_steps_ok g (D : N -> Prop) : D root -> sched_ok root D (game_steps resolve root g).
  Proof.
    intros Hr. destruct g as [toks|]; simpl; [|exact I]. split; [exact Hr|]. now apply walk_ok.
  Qed.
End WithResolve.

(** ** Effect of one step on the counter view *)

Lemma apply_step_counts root b s :
  sched_ok root (fun k => is_Some (b !! k)) [s] ->
  exists b', apply_step root b s = Some b' /\
             (forall k, cview b' k = add_occ (cview b k) (hits root k s)) /\
             (forall k, is_Some (b !! k) -> is_Some (b' !! k)) /\
             (forall c n m, s = SAdd c n m -> is_Some (b' !! n)).
Proof.
  destruct s as [|c n m]; simpl.
  - intros [[e He] _]. unfold root_step. rewrite He. eexists; split; [reflexivity|]. split; [|split].
    + intros k. rewrite cview_insert. unfold cview.
      destruct (N.eqb_spec k root) as [->|Hne]; [rewrite He|]; simpl.
      * reflexivity.
      * now rewrite add_occ_0.
    + intros k Hk. destruct (N.eq_dec k root) as [->|Hne];
        [rewrite lookup_insert; eauto | now rewrite lookup_insert_ne by congruence].
    + discriminate.
  - intros [[ce Hce] _]. unfold add_step. rewrite Hce.
    destruct (b !! n) as [ne|] eqn:Hn.
    + eexists; split; [reflexivity|]. split; [|split].
      * intros k. rewrite cview_insert. unfold cview.
        destruct (N.eqb_spec k n) as [->|Hne]; [rewrite Hn|]; simpl.
        -- reflexivity.
        -- now rewrite add_occ_0.
      * intros k Hk. destruct (N.eq_dec k n) as [->|Hne];
          [rewrite lookup_insert; eauto | now rewrite lookup_insert_ne by congruence].
      * intros c' n' m' [= -> -> ->]. rewrite lookup_insert; eauto.
    + assert (Hcn : c <> n) by (intros ->; congruence).
      eexists; split; [reflexivity|]. split; [|split].
      * intros k. rewrite !cview_insert. unfold cview. simpl.
        destruct (N.eqb_spec k c) as [->|Hkc].
        -- rewrite Hce. simpl. destruct (N.eqb_spec c n); [congruence|]. simpl. f_equal. lia.
        -- destruct (N.eqb_spec k n) as [->|Hkn]; [rewrite Hn; reflexivity | now rewrite add_occ_0].
      * intros k Hk. destruct (N.eq_dec k c) as [->|Hkc]; [rewrite lookup_insert; eauto|].
        rewrite lookup_insert_ne by congruence.
        destruct (N.eq_dec k n) as [->|Hkn];
          [rewrite lookup_insert; eauto | now rewrite lookup_insert_ne by congruence].
      * intros c' n' m' [= -> -> ->]. rewrite lookup_insert_ne by congruence.
        rewrite lookup_insert; eauto.
Qed.

Lemma run_counts root sched : forall b,
  sched_ok root (fun k => is_Some (b !! k)) sched ->
  exists b', run root sched b = Some b' /\
             forall k, cview b' k = add_occ (cview b k) (occ root k sched).
Proof.
  induction sched as [|s t IH]; intros b Hok.
  - exists b. split; [reflexivity|]. intros k. simpl. now rewrite add_occ_0.
  - assert (H1 : sched_ok root (fun k => is_Some (b !! k)) [s]).
    { destruct s; simpl in *; tauto. }
    destruct (apply_step_counts root b s H1) as (b1 & Hb1 & Hc1 & Hdom & Hnew).
    assert (Hok1 : sched_ok root (fun k => is_Some (b1 !! k)) t).
    { destruct s as [|c n m]; simpl in Hok.
      - eapply sched_ok_mono; [|apply Hok]. exact Hdom.
      - eapply sched_ok_mono; [|apply Hok]. intros k [Hk| ->]; [now apply Hdom | now eapply Hnew]. }
    destruct (IH b1 Hok1) as (b' & Hrun & Hc).
    exists b'. split; [simpl; now rewrite Hb1|].
    intros k. rewrite Hc, Hc1, add_occ_add. reflexivity.
Qed.

Lemma cview_init root k : cview (init_book root) k = if k =? root then Some 0 else None.
Proof.
  unfold cview, init_book. destruct (N.eqb_spec k root) as [->|Hne].
  - now rewrite lookup_singleton.
  - now rewrite lookup_singleton_ne by congruence.
Qed.

(** ** C19, schedule independence of positions and visit counts

    For ANY interleaving of the per-line critical sections the build neither panics nor takes the
    error branch, and the resulting key set and counters are [spec_counts]: the root plus every key
    reached by a move of some line; counter = number of moves (over all lines, with multiplicity)
    reaching the key, plus for the root the number of lines that passed the line filter. *)
Theorem book_schedule_independent resolve root (games : list (option (list str))) sched :
  Interleave (map (game_steps resolve root) games) sched ->
  exists b, run root sched (init_book root) = Some b /\
            forall k, cview b k = spec_counts root (map (game_steps resolve root) games) k.
Proof.
  intros Hil.
  assert (Hok : sched_ok root (fun k => is_Some (init_book root !! k)) sched).
  { eapply interleave_ok; [exact Hil|]. apply List.Forall_forall. intros l Hl.
    apply in_map_iff in Hl as (g & <- & _). apply game_steps_ok.
    unfold init_book. rewrite lookup_singleton. eauto. }
  destruct (run_counts root sched _ Hok) as (b & Hrun & Hc).
  exists b. split; [exact Hrun|]. intros k.
  rewrite Hc, cview_init. unfold spec_counts.
  rewrite <- (occ_perm root k _ _ (interleave_perm _ _ Hil)).
  destruct (N.eqb_spec k root); simpl.
  - reflexivity.
  - destruct (occ root k sched =? 0); reflexivity.
Qed.

(** two schedules of the same lines: same positions, same counters *)
Corollary book_positions_counts_schedule_free resolve root games sched1 sched2 :
  Interleave (map (game_steps resolve root) games) sched1 ->
  Interleave (map (game_steps resolve root) games) sched2 ->
  exists b1 b2, run root sched1 (init_book root) = Some b1 /\
                run root sched2 (init_book root) = Some b2 /\
                (forall k, is_Some (b1 !! k) <-> is_Some (b2 !! k)) /\
                (forall k, cview b1 k = cview b2 k).
Proof.
  intros H1 H2.
  destruct (book_schedule_independent _ _ _ _ H1) as (b1 & Hr1 & Hc1).
  destruct (book_schedule_independent _ _ _ _ H2) as (b2 & Hr2 & Hc2).
  exists b1, b2. split; [exact Hr1|]. split; [exact Hr2|].
  assert (Hcv : forall k, cview b1 k = cview b2 k) by (intros k; now rewrite Hc1, Hc2).
  split; [|exact Hcv].
  intros k. specialize (Hcv k). unfold cview in Hcv.
  destruct (b1 !! k), (b2 !! k); simpl in Hcv; try discriminate; split; intros [? ?]; eauto; discriminate.
Qed.

(** ** The step list of a line does not depend on the book: running the goroutine body with the
    book threaded through (as the Go code does) is the same as applying its step list *)
Lemma run_app root l1 l2 b :
  run root (l1 ++ l2) b = match run root l1 b with Some b' => run root l2 b' | None => None end.
Proof.
  revert b. induction l1 as [|s l1 IH]; intros b; simpl; [reflexivity|].
  destruct (apply_step root b s); [apply IH | reflexivity].
Qed.

Lemma run_walk resolve root toks : forall k b,
  run root (walk resolve k toks) b = Some (seq_moves resolve k toks b).
Proof.
  induction toks as [|t ts IH]; intros k b; simpl; [reflexivity|].
  destruct (resolve k t) as [[mv nk]|]; simpl; [apply IH | reflexivity].
Qed.

Theorem game_steps_state_free resolve root g b :
  seq_game resolve root g b = run root (game_steps resolve root g) b.
Proof.
  destruct g as [toks|]; simpl; [|reflexivity].
  destruct (root_step root b); [now rewrite run_walk | reflexivity].
Qed.

Theorem seq_build_is_a_schedule resolve root games : forall b,
  seq_build resolve root games b = run root (concat (map (game_steps resolve root) games)) b.
Proof.
  induction games as [|g gs IH]; intros b; simpl; [reflexivity|].
  rewrite run_app, <- game_steps_state_free.
  destruct (seq_game resolve root g b); [apply IH | reflexivity].
Qed.

(** hence: every parallel build yields the positions and counters of the sequential build *)
Corollary parallel_equals_sequential resolve root games sched :
  Interleave (map (game_steps resolve root) games) sched ->
  exists b bs, run root sched (init_book root) = Some b /\
               seq_build resolve root games (init_book root) = Some bs /\
               forall k, cview b k = cview bs k.
Proof.
  intros H.
  destruct (book_positions_counts_schedule_free resolve root games sched _ H (interleave_concat _))
    as (b1 & b2 & H1 & H2 & _ & Hc).
  exists b1, b2. split; [exact H1|]. split; [now rewrite seq_build_is_a_schedule | exact Hc].
Qed.

(** ** prefix_only: a line contributes exactly the moves of its longest resolvable prefix *)

(** key reached after playing all of [pre] from k; None if some token of pre does not resolve *)
Fixpoint reach (resolve : N -> str -> option (N * N)) (k : N) (pre : list str) : option N :=
  match pre with
  | [] => Some k
  | t :: ts => match resolve k t with Some (_, nk) => reach resolve nk ts | None => None end
  end.

Theorem prefix_only resolve k toks :
  exists pre rest kend,
    toks = pre ++ rest /\
    reach resolve k pre = Some kend /\                       (* every token of pre resolves *)
    (rest = [] \/ exists t r, rest = t :: r /\ resolve kend t = None) /\  (* and pre is maximal *)
    walk resolve k toks = walk resolve k pre /\              (* the line contributes pre, nothing else *)
    length (walk resolve k pre) = length pre.
Proof.
  revert k. induction toks as [|t ts IH]; intros k.
  - exists [], [], k. simpl. repeat split; auto.
  - simpl. destruct (resolve k t) as [[mv nk]|] eqn:Hr.
    + destruct (IH nk) as (pre & rest & kend & -> & Hre & Hmax & Hw & Hlen).
      exists (t :: pre), rest, kend. simpl. rewrite Hr. repeat split; auto.
      * now rewrite Hw.
      * simpl. now rewrite Hlen.
    + exists [], (t :: ts), k. simpl. repeat split; auto. right. eauto.
Qed.

(** ** Edges *)

Definition all_keys_present (b : book) : Prop :=
  forall k e m nk, b !! k = Some e -> In (m, nk) (succs e) -> is_Some (b !! nk).

Record EdgeInv (root : N) (L : list step) (b : book) : Prop := {
  ei_root : is_Some (b !! root);
  (* every stored edge was produced by an executed addToBook call with exactly these arguments,
     its target is a book key and not the root *)
  ei_src : forall k e m nk, b !! k = Some e -> In (m, nk) (succs e) ->
             In (SAdd k nk m) L /\ is_Some (b !! nk) /\ nk <> root;
  (* a key occurs at most once as a successor in the whole book *)
  ei_uniq : forall k1 e1 k2 e2 (i1 i2 : nat) m1 m2 nk,
             b !! k1 = Some e1 -> b !! k2 = Some e2 ->
             nth_error (succs e1) i1 = Some (m1, nk) -> nth_error (succs e2) i2 = Some (m2, nk) ->
             k1 = k2 /\ i1 = i2;
  (* every book key except the root has a parent offering it *)
  ei_parent : forall k, is_Some (b !! k) -> k <> root ->
             exists p e m, b !! p = Some e /\ In (m, k) (succs e)
}.

Lemma EdgeInv_weaken root L L' b :
  (forall s, In s L -> In s L') -> EdgeInv root L b -> EdgeInv root L' b.
Proof.
  intros HL [H1 H2 H3 H4]. split; auto.
  intros k e m nk Hk Hin. destruct (H2 k e m nk Hk Hin) as (Ha & Hb & Hc). auto.
Qed.

Lemma nth_error_app_last {A} (l : list A) x i y :
  nth_error (l ++ [x]) i = Some y -> nth_error l i = Some y \/ (i = length l /\ y = x).
Proof.
  intros H. destruct (Nat.lt_ge_cases i (length l)) as [Hlt|Hge].
  - left. now rewrite nth_error_app1 in H.
  - right. rewrite nth_error_app2 in H by exact Hge.
    destruct (i - length l)%nat as [|j] eqn:Hj; simpl in H.
    + split; [lia | congruence].
    + destruct j; discriminate.
Qed.

Ltac last_case H :=
  apply nth_error_app_last in H; destruct H as [H|[? H]]; [|injection H; intros; subst].

Lemma edge_step root L b s b' :
  EdgeInv root L b -> apply_step root b s = Some b' -> EdgeInv root (L ++ [s]) b'.
Proof.
  intros Hinv Hs.
  assert (Hinv' : EdgeInv root (L ++ [s]) b).
  { eapply EdgeInv_weaken; [|exact Hinv]. intros; apply in_or_app; now left. }
  clear Hinv. destruct Hinv' as [Hroot Hsrc Huniq Hpar].
  destruct s as [|c n m]; simpl in Hs.
  - (* root counter++ : succs unchanged everywhere *)
    unfold root_step in Hs. destruct (b !! root) as [re|] eqn:Hre; [|discriminate].
    injection Hs as <-.
    assert (Hlk : forall k e, <[root := bump re]> b !! k = Some e ->
                   exists e0, b !! k = Some e0 /\ succs e0 = succs e).
    { intros k e. destruct (N.eq_dec k root) as [->|Hne].
      - rewrite lookup_insert. intros [= <-]. eauto.
      - rewrite lookup_insert_ne by congruence. eauto. }
    assert (Hdom : forall k, is_Some (b !! k) <-> is_Some (<[root := bump re]> b !! k)).
    { intros k. destruct (N.eq_dec k root) as [->|Hne].
      - rewrite lookup_insert, Hre. split; eauto.
      - now rewrite lookup_insert_ne by congruence. }
    split.
    + apply Hdom. eauto.
    + intros k e m nk Hk Hin. destruct (Hlk k e Hk) as (e0 & Hk0 & Hs0). rewrite <- Hs0 in Hin.
      destruct (Hsrc k e0 m nk Hk0 Hin) as (Ha & Hb & Hc). split; [exact Ha|]. split; [now apply Hdom | exact Hc].
    + intros k1 e1 k2 e2 i1 i2 m1 m2 nk Hk1 Hk2 Hn1 Hn2.
      destruct (Hlk k1 e1 Hk1) as (e10 & Hk10 & Hs10). destruct (Hlk k2 e2 Hk2) as (e20 & Hk20 & Hs20).
      rewrite <- Hs10 in Hn1. rewrite <- Hs20 in Hn2. eapply Huniq; eauto.
    + intros k Hk Hne. apply Hdom in Hk. destruct (Hpar k Hk Hne) as (p & e & m & Hp & Hin).
      destruct (N.eq_dec p root) as [->|Hpr].
      * exists root, (bump re), m. rewrite lookup_insert. split; [reflexivity|].
        rewrite Hre in Hp. injection Hp as <-. exact Hin.
      * exists p, e, m. now rewrite lookup_insert_ne by congruence.
  - injection Hs as <-. unfold add_step.
    destruct (b !! c) as [ce|] eqn:Hce; [|now split].
    destruct (b !! n) as [ne|] eqn:Hn.
    + (* counter++ on an existing entry: succs unchanged everywhere *)
      assert (Hlk : forall k e, <[n := bump ne]> b !! k = Some e ->
                     exists e0, b !! k = Some e0 /\ succs e0 = succs e).
      { intros k e. destruct (N.eq_dec k n) as [->|Hne].
        - rewrite lookup_insert. intros [= <-]. eauto.
        - rewrite lookup_insert_ne by congruence. eauto. }
      assert (Hdom : forall k, is_Some (b !! k) <-> is_Some (<[n := bump ne]> b !! k)).
      { intros k. destruct (N.eq_dec k n) as [->|Hne].
        - rewrite lookup_insert, Hn. split; eauto.
        - now rewrite lookup_insert_ne by congruence. }
      split.
      * now apply Hdom.
      * intros k e m' nk Hk Hin. destruct (Hlk k e Hk) as (e0 & Hk0 & Hs0). rewrite <- Hs0 in Hin.
        destruct (Hsrc k e0 m' nk Hk0 Hin) as (Ha & Hb & Hc). split; [exact Ha|]. split; [now apply Hdom | exact Hc].
      * intros k1 e1 k2 e2 i1 i2 m1 m2 nk Hk1 Hk2 Hn1 Hn2.
        destruct (Hlk k1 e1 Hk1) as (e10 & Hk10 & Hs10). destruct (Hlk k2 e2 Hk2) as (e20 & Hk20 & Hs20).
        rewrite <- Hs10 in Hn1. rewrite <- Hs20 in Hn2. eapply Huniq; eauto.
      * intros k Hk Hne. apply Hdom in Hk. destruct (Hpar k Hk Hne) as (p & e & m' & Hp & Hin).
        destruct (N.eq_dec p n) as [->|Hpn].
        -- exists n, (bump ne), m'. rewrite lookup_insert. split; [reflexivity|].
           rewrite Hn in Hp. injection Hp as <-. exact Hin.
        -- exists p, e, m'. now rewrite lookup_insert_ne by congruence.
    + (* new entry n, edge c -> n appended *)
      assert (Hcn : c <> n) by (intros ->; congruence).
      assert (Hnr : n <> root) by (intros ->; rewrite Hn in Hroot; destruct Hroot; discriminate).
      set (b' := <[c := Entry (cnt ce) (succs ce ++ [(m, n)])]> (<[n := Entry 1 []]> b)).
      assert (Hlk : forall k e, b' !! k = Some e ->
                (k = c /\ e = Entry (cnt ce) (succs ce ++ [(m, n)])) \/
                (k = n /\ e = Entry 1 []) \/
                (k <> c /\ k <> n /\ b !! k = Some e)).
      { intros k e. unfold b'. destruct (N.eq_dec k c) as [->|Hkc].
        - rewrite lookup_insert. intros [= <-]. now left.
        - rewrite lookup_insert_ne by congruence. destruct (N.eq_dec k n) as [->|Hkn].
          + rewrite lookup_insert. intros [= <-]. right; now left.
          + rewrite lookup_insert_ne by congruence. intros H. right; right. auto. }
      assert (Hdom : forall k, is_Some (b !! k) -> is_Some (b' !! k)).
      { intros k Hk. unfold b'. destruct (N.eq_dec k c) as [->|Hkc]; [rewrite lookup_insert; eauto|].
        rewrite lookup_insert_ne by congruence.
        destruct (N.eq_dec k n) as [->|Hkn]; [rewrite lookup_insert; eauto|].
        now rewrite lookup_insert_ne by congruence. }
      assert (Hnew : is_Some (b' !! n)).
      { unfold b'. rewrite lookup_insert_ne by congruence. rewrite lookup_insert. eauto. }
      assert (Hold : forall k e m' nk, b !! k = Some e -> In (m', nk) (succs e) -> nk <> n).
      { intros k e m' nk Hk Hin ->. destruct (Hsrc k e m' n Hk Hin) as (_ & [x Hx] & _). congruence. }
      split.
      * now apply Hdom.
      * intros k e m' nk Hk Hin. destruct (Hlk k e Hk) as [[-> ->]|[[-> ->]|(Hkc & Hkn & Hk0)]].
        -- simpl in Hin. apply in_app_or in Hin as [Hin|Hin].
           ++ destruct (Hsrc c ce m' nk Hce Hin) as (Ha & Hb & Hc). auto.
           ++ destruct Hin as [[= <- <-]|[]]. split; [apply in_or_app; right; now left|]. auto.
        -- destruct Hin.
        -- destruct (Hsrc k e m' nk Hk0 Hin) as (Ha & Hb & Hc). auto.
      * intros k1 e1 k2 e2 i1 i2 m1 m2 nk Hk1 Hk2 Hn1 Hn2.
        destruct (Hlk k1 e1 Hk1) as [[-> ->]|[[-> ->]|(Hk1c & Hk1n & Hk10)]];
        destruct (Hlk k2 e2 Hk2) as [[-> ->]|[[-> ->]|(Hk2c & Hk2n & Hk20)]]; simpl in *;
          try (destruct i1; discriminate); try (destruct i2; discriminate).
        -- last_case Hn1; last_case Hn2.
           ++ eapply Huniq; eauto.
           ++ exfalso. eapply (Hold c ce m1 n Hce); [eapply nth_error_In; eauto | reflexivity].
           ++ exfalso. eapply (Hold c ce m2 n Hce); [eapply nth_error_In; eauto | reflexivity].
           ++ auto.
        -- last_case Hn1.
           ++ eapply (Huniq c ce k2 e2); eauto.
           ++ exfalso. eapply (Hold k2 e2 m2 n Hk20); [eapply nth_error_In; eauto | reflexivity].
        -- last_case Hn2.
           ++ eapply (Huniq k1 e1 c ce); eauto.
           ++ exfalso. eapply (Hold k1 e1 m1 n Hk10); [eapply nth_error_In; eauto | reflexivity].
        -- eapply Huniq; eauto.
      * intros k Hk Hne. destruct (N.eq_dec k n) as [->|Hkn].
        -- exists c, (Entry (cnt ce) (succs ce ++ [(m, n)])), m. unfold b'. rewrite lookup_insert.
           split; [reflexivity|]. simpl. apply in_or_app. right. now left.
        -- assert (Hk0 : is_Some (b !! k)).
           { destruct Hk as [e He]. destruct (Hlk k e He) as [[-> ->]|[[-> ->]|(_ & _ & H0)]]; eauto. congruence. }
           destruct (Hpar k Hk0 Hne) as (p & e & m' & Hp & Hin).
           destruct (N.eq_dec p c) as [->|Hpc].
           ++ exists c, (Entry (cnt ce) (succs ce ++ [(m, n)])), m'. unfold b'. rewrite lookup_insert.
              split; [reflexivity|]. simpl. apply in_or_app. left. rewrite Hce in Hp. now injection Hp as <-.
           ++ exists p, e, m'. unfold b'. rewrite lookup_insert_ne by congruence.
              destruct (N.eq_dec p n) as [->|Hpn]; [congruence|].
              now rewrite lookup_insert_ne by congruence.
Qed.

Lemma edge_run root sched : forall L b b',
  EdgeInv root L b -> run root sched b = Some b' -> EdgeInv root (L ++ sched) b'.
Proof.
  induction sched as [|s t IH]; intros L b b' Hinv Hrun; simpl in Hrun.
  - injection Hrun as <-. now rewrite app_nil_r.
  - destruct (apply_step root b s) as [b1|] eqn:Hs; [|discriminate].
    replace (L ++ s :: t) with ((L ++ [s]) ++ t) by (now rewrite <- app_assoc).
    eapply IH; [|exact Hrun]. eapply edge_step; eauto.
Qed.

Lemma EdgeInv_init root : EdgeInv root [] (init_book root).
Proof.
  unfold init_book. split.
  - rewrite lookup_singleton. eauto.
  - intros k e m nk Hk Hin. apply lookup_singleton_Some in Hk as [_ <-]. destruct Hin.
  - intros k1 e1 k2 e2 i1 i2 m1 m2 nk Hk1 _ Hn1 _.
    apply lookup_singleton_Some in Hk1 as [_ <-]. destruct i1; discriminate.
  - intros k [e Hk] Hne. apply lookup_singleton_Some in Hk as [<- _]. congruence.
Qed.

Lemma walk_in_resolve resolve c n m toks : forall k,
  In (SAdd c n m) (walk resolve k toks) -> exists t, resolve c t = Some (m, n).
Proof.
  induction toks as [|t ts IH]; intros k Hin; simpl in Hin; [destruct Hin|].
  destruct (resolve k t) as [[mv nk]|] eqn:Hr; [|destruct Hin].
  destruct Hin as [[= -> -> ->]|Hin]; [eauto | eapply IH; eauto].
Qed.

(** ** C19, soundness of the offered moves.
    After ANY schedule, for every edge (mv, nk) stored at entry k:
    (1) some line of the input made the move mv (token t) in position k and it led to nk;
    (2) nk is a book position and is not the root;
    (3) nk occurs nowhere else as a successor: not at another entry, not at another index;
    (4) every book position except the root is offered by exactly one entry (existence here,
        uniqueness by (3)) — so every book position is reachable from the root. *)
Theorem book_edges_sound resolve root (games : list (option (list str))) sched b :
  Interleave (map (game_steps resolve root) games) sched ->
  run root sched (init_book root) = Some b ->
  (forall k e mv nk, b !! k = Some e -> In (mv, nk) (succs e) ->
      (exists g t, In g games /\ In (SAdd k nk mv) (game_steps resolve root g) /\
                   resolve k t = Some (mv, nk)) /\
      is_Some (b !! nk) /\ nk <> root) /\
  (forall k1 e1 k2 e2 i1 i2 m1 m2 nk,
      b !! k1 = Some e1 -> b !! k2 = Some e2 ->
      nth_error (succs e1) i1 = Some (m1, nk) -> nth_error (succs e2) i2 = Some (m2, nk) ->
      k1 = k2 /\ i1 = i2) /\
  (forall k, is_Some (b !! k) -> k <> root ->
      exists p e mv, b !! p = Some e /\ In (mv, k) (succs e)).
Proof.
  intros Hil Hrun.
  pose proof (edge_run root sched [] _ _ (EdgeInv_init root) Hrun) as [_ Hsrc Huniq Hpar].
  simpl in Hsrc. split; [|split; [exact Huniq | exact Hpar]].
  intros k e mv nk Hk Hin. destruct (Hsrc k e mv nk Hk Hin) as (Hs & Hb & Hc).
  split; [|auto].
  apply (Permutation_in _ (interleave_perm _ _ Hil)) in Hs.
  apply in_concat in Hs as (l & Hl & Hs). apply in_map_iff in Hl as (g & <- & Hg).
  destruct g as [toks|]; simpl in Hs; [|destruct Hs].
  destruct Hs as [Hs|Hs]; [discriminate|].
  destruct (walk_in_resolve _ _ _ _ _ _ Hs) as (t & Ht).
  exists (Some toks), t. split; [exact Hg|]. split; [simpl; now right | exact Ht].
Qed.

(** Legality.  Section hypothesis [resolve_legal] (allowed by the task; discharged by the C01/C17
    agents): GetMoveFromUci / GetMoveFromSan return only members of the legal move list of the
    position, and DoMove leads to the successor position of that move. *)
Section Legal.
  Variable resolve : N -> str -> option (N * N).
  Variable legal : N -> N -> Prop.          (* legal k mv *)
  Variable succ_of : N -> N -> N.           (* key after DoMove *)
  Hypothesis resolve_legal : forall k t mv nk,
    resolve k t = Some (mv, nk) -> legal k mv /\ nk = succ_of k mv.

  (** every offered move is legal where it is offered, leads to the linked entry, and is
      offered only once by that entry *)
  Theorem book_moves_legal_once root (games : list (option (list str))) sched b :
    Interleave (map (game_steps resolve root) games) sched ->
    run root sched (init_book root) = Some b ->
    forall k e, b !! k = Some e ->
      (forall mv nk, In (mv, nk) (succs e) ->
         legal k mv /\ nk = succ_of k mv /\ is_Some (b !! nk)) /\
      (forall i j mv n1 n2, nth_error (succs e) i = Some (mv, n1) ->
                            nth_error (succs e) j = Some (mv, n2) -> i = j).
  Proof.
    intros Hil Hrun k e Hk.
    destruct (book_edges_sound resolve root games sched b Hil Hrun) as (Hsrc & Huniq & _).
    assert (H1 : forall mv nk, In (mv, nk) (succs e) ->
               legal k mv /\ nk = succ_of k mv /\ is_Some (b !! nk)).
    { intros mv nk Hin. destruct (Hsrc k e mv nk Hk Hin) as ((g & t & _ & _ & Ht) & Hb & _).
      destruct (resolve_legal _ _ _ _ Ht). auto. }
    split; [exact H1|].
    intros i j mv n1 n2 Hi Hj.
    destruct (H1 mv n1 (nth_error_In _ _ Hi)) as (_ & -> & _).
    destruct (H1 mv n2 (nth_error_In _ _ Hj)) as (_ & -> & _).
    now destruct (Huniq k e k e i j mv mv _ Hk Hk Hi Hj).
  Qed.
End Legal.

(** ** Which parent offers a transposed position DOES depend on the schedule.
    Two lines a-b and b-a reaching the same position 4 via 2 resp. 3: *)
Definition ex_resolve (k : N) (t : str) : option (N * N) :=
  match k, t with
  | 1, [97] => Some (10, 2) | 1, [98] => Some (11, 3)
  | 2, [98] => Some (12, 4) | 3, [97] => Some (13, 4)
  | _, _ => None
  end.
Definition ex_games : list (option (list str)) := [Some [[97];[98]]; Some [[98];[97]]].
Definition ex_sched1 := concat (map (game_steps ex_resolve 1) ex_games).
Definition ex_sched2 := concat (map (game_steps ex_resolve 1) (rev ex_games)).

Example ex_scheds_are_interleavings :
  Interleave (map (game_steps ex_resolve 1) ex_games) ex_sched1 /\
  Interleave (map (game_steps ex_resolve 1) ex_games) ex_sched2.
Proof.
  split; [apply interleave_concat|].
  vm_compute.
  apply (il_step [[SRoot; SAdd 1 2 10; SAdd 2 4 12]] SRoot _ []).
  apply (il_step [[SRoot; SAdd 1 2 10; SAdd 2 4 12]] _ _ []).
  apply (il_step [[SRoot; SAdd 1 2 10; SAdd 2 4 12]] _ _ []).
  apply (il_step [] _ _ [[]]). apply (il_step [] _ _ [[]]). apply (il_step [] _ _ [[]]).
  apply il_done. repeat constructor.
Qed.

Definition edges_of (ob : option book) (k : N) : option (list (N * N)) :=
  match ob with Some b => succs <$> (b !! k) | None => None end.

Definition cview_of (ob : option book) (k : N) : option N :=
  match ob with Some b => cview b k | None => None end.

Example edge_parent_depends_on_schedule :
  (* same positions and counters ... *)
  (forall k, In k [1;2;3;4;5] ->
     cview_of (run 1 ex_sched1 (init_book 1)) k = cview_of (run 1 ex_sched2 (init_book 1)) k) /\
  (* ... but the edge to the transposed position 4 hangs under 2 in one book and under 3 in the other *)
  edges_of (run 1 ex_sched1 (init_book 1)) 2 = Some [(12, 4)] /\
  edges_of (run 1 ex_sched1 (init_book 1)) 3 = Some [] /\
  edges_of (run 1 ex_sched2 (init_book 1)) 2 = Some [] /\
  edges_of (run 1 ex_sched2 (init_book 1)) 3 = Some [(13, 4)].
Proof.
  split; [|vm_compute; auto].
  intros k Hk. simpl in Hk. repeat (destruct Hk as [<-|Hk]; [vm_compute; reflexivity|]). destruct Hk.
Qed.

(** non-vacuity of the main theorems on this example *)
Example ex_counts :
  cview_of (run 1 ex_sched1 (init_book 1)) 4 = Some 2 /\
  cview_of (run 1 ex_sched1 (init_book 1)) 1 = Some 2 /\
  spec_counts 1 (map (game_steps ex_resolve 1) ex_games) 4 = Some 2 /\
  spec_counts 1 (map (game_steps ex_resolve 1) ex_games) 7 = None.
Proof. vm_compute. auto. Qed.

(** a line with an unresolvable token in the middle contributes its prefix only *)
Example ex_prefix :
  game_steps ex_resolve 1 (Some [[97];[120];[98]]) = [SRoot; SAdd 1 2 10].
Proof. reflexivity. Qed.
