(** * MoveEnc: the packed 32-bit move encoding of internal/types/move.go (C17, encoding half).

    The model uses the shift / mask constants of [FG.gen.Tables_gen], which the Go
    harness dumps from the running engine on every run: a change of the bit layout in the
    Go source changes the constants and therefore reaches the theorems below.

    Go types:  Move = uint32, Value = int16, Square = uint8, MoveType = uint, PieceType = int8.
    Model:     a Move is an [N] (kept below 2^32 by [u32] after every shift),
               a Value is a [Z] in the int16 range (int16 arithmetic = [wrap16]),
               squares / move types / piece types are [N].                                *)
From Coq Require Import NArith ZArith List Bool Lia ZifyN ZifyBool.
From FG Require Import Geom Rules.
From FG.gen Require Import Tables_gen.
Import ListNotations.
Open Scope N_scope.

(** ** Machine arithmetic *)
(* uint32 truncation *)
Definition u32 (n : N) : N := N.land n 4294967295.
(* result of an int16 operation whose mathematical result is z (wrap around) *)
Definition wrap16 (z : Z) : Z := ((z + 32768) mod 65536 - 32768)%Z.
(* Go conversion Move(x) of an int16 x: sign extension to 32 bits *)
Definition i16_to_u32 (z : Z) : N := Z.to_N (z mod 4294967296).
(* Go conversion Value(x) of a uint32 x: truncation to the low 16 bits, read as signed *)
Definition u32_to_i16 (n : N) : Z := wrap16 (Z.of_N n).
(* x << k on uint32 *)
Definition shl32 (a k : N) : N := u32 (N.shiftl a k).

Definition in_i16 (v : Z) : Prop := (-32768 <= v <= 32767)%Z.

(** ** move.go *)

(* move.go:47-49 / 67-69   if promType < Knight { promType = Knight } *)
Definition clamp_prom (pt : N) : N := if pt <? KNIGHT then KNIGHT else pt.

(* move.go:59-62   Move(to) | Move(from)<<fromShift | Move(promType-Knight)<<promTypeShift | Move(t)<<typeShift *)
Definition CreateMove (from to ty prom : N) : N :=
  N.lor (N.lor (N.lor to (shl32 from c_from_shift))
               (shl32 (clamp_prom prom - KNIGHT) c_prom_type_shift))
        (shl32 ty c_type_shift).

(* move.go:79 / 131   Move(value-ValueNA)<<valueShift :
   int16 subtraction (wraps), conversion to uint32 (sign extends), shift (drops the high half) *)
Definition value_bits (v : Z) : N :=
  shl32 (i16_to_u32 (wrap16 (v - c_value_na))) c_value_shift.

(* move.go:79-83 *)
Definition CreateMoveValue (from to ty prom : N) (v : Z) : N :=
  N.lor (N.lor (N.lor (N.lor (value_bits v) to) (shl32 from c_from_shift))
               (shl32 (clamp_prom prom - KNIGHT) c_prom_type_shift))
        (shl32 ty c_type_shift).

(* generic "(m & mask) >> shift" *)
Definition fld (mask shift m : N) : N := N.shiftr (N.land m mask) shift.

(* move.go:89   MoveType((m & moveTypeMask) >> typeShift) *)
Definition MoveType (m : N) : N := fld c_move_type_mask c_type_shift m.
(* move.go:96   PieceType((m&promTypeMask)>>promTypeShift) + Knight *)
Definition PromotionType (m : N) : N := fld c_prom_type_mask c_prom_type_shift m + KNIGHT.
(* move.go:101  Square(m & toMask)        (toMask = squareMask) *)
Definition To (m : N) : N := N.land m c_square_mask.
(* move.go:106  Square((m & fromMask) >> fromShift) *)
Definition From (m : N) : N := fld c_from_mask c_from_shift m.
(* move.go:111  m & moveMask *)
Definition MoveOf (m : N) : N := N.land m c_move_mask.
(* move.go:116  Value((m&valueMask)>>valueShift) + ValueNA   (int16 addition, wraps) *)
Definition ValueOf (m : N) : Z :=
  wrap16 (u32_to_i16 (fld c_value_mask c_value_shift m) + c_value_na).
(* move.go:125-132  if *m == MoveNone { return *m };  *m = *m&moveMask | Move(v-ValueNA)<<valueShift *)
Definition SetValue (m : N) (v : Z) : N :=
  if m =? 0 then 0 else N.lor (N.land m c_move_mask) (value_bits v).

(* value.go:53  v >= ValueMin && v <= ValueMax *)
Definition value_is_valid (v : Z) : bool := ((c_value_min <=? v) && (v <=? c_value_max))%Z.
(* move.go:137-144 *)
Definition IsValid (m : N) : bool :=
  negb (m =? 0) && (From m <? 64) && (To m <? 64)
  && (let pt := PromotionType m in (0 <? pt) && (pt <? 7))
  && (MoveType m <? 4)
  && ((ValueOf m =? c_value_na)%Z || value_is_valid (ValueOf m)).

(** ** Checkers for the correspondence run (a Go harness feeds real observations).
    Conventions: every Move is passed as the uint32 value, every Value as the signed
    int16 value (a [Z]); squares 0..63, move type 0..3, piece type 0..6.
    - [enc_create_ok from to ty prom v got_cm got_cmv]: [got_cm] is the engine's
      [CreateMove(from,to,ty,prom)], [got_cmv] its [CreateMoveValue(from,to,ty,prom,v)].
    - [enc_get_ok m32 from to ty prom v moveof valid]: the engine's [m.From()], [m.To()],
      [m.MoveType()], [m.PromotionType()], [m.ValueOf()], [m.MoveOf()], [m.IsValid()] for the
      raw word [m32].
    - [enc_set_ok m32 v got]: [got] is the engine's [m.SetValue(v)] for [m := Move(m32)]. *)
Definition enc_create_ok (from to ty prom : N) (v : Z) (got_cm got_cmv : N) : bool :=
  (CreateMove from to ty prom =? got_cm) && (CreateMoveValue from to ty prom v =? got_cmv).
Definition enc_get_ok (m32 from to ty prom : N) (v : Z) (moveof : N) (valid : bool) : bool :=
  (From m32 =? from) && (To m32 =? to) && (MoveType m32 =? ty) && (PromotionType m32 =? prom)
  && (ValueOf m32 =? v)%Z && (MoveOf m32 =? moveof) && Bool.eqb (IsValid m32) valid.
Definition enc_set_ok (m32 : N) (v : Z) (got : N) : bool := SetValue m32 v =? got.

(** ** Theorems *)

(* every field extractor is "linear" over bitwise or *)
Lemma fld_lor mask sh a b : fld mask sh (N.lor a b) = N.lor (fld mask sh a) (fld mask sh b).
Proof. unfold fld. rewrite N.land_lor_distr_l, N.shiftr_lor. reflexivity. Qed.
Lemma land_lor_l a b c : N.land (N.lor a b) c = N.lor (N.land a c) (N.land b c).
Proof. apply N.land_lor_distr_l. Qed.

(* ranges as lists *)
Lemma in_nrange n k : n < N.of_nat k -> In n (map N.of_nat (seq 0 k)).
Proof.
  intros Hn. apply in_map_iff. exists (N.to_nat n). split; [apply N2Nat.id|].
  apply in_seq. lia.
Qed.
(* binary counter (a unary [seq] of 65536 elements makes [Z.of_nat] quadratic) *)
Fixpoint zrange (fuel : nat) (a : Z) : list Z :=
  match fuel with O => [] | S k => a :: zrange k (Z.succ a) end.
Lemma in_zrange fuel : forall a v, (a <= v < a + Z.of_nat fuel)%Z -> In v (zrange fuel a).
Proof.
  induction fuel as [|k IH]; intros a v Hv; [lia|].
  cbn [zrange]. destruct (Z.eq_dec a v) as [->|Hne]; [left; reflexivity|right; apply IH; lia].
Qed.
Definition i16_all : list Z := zrange (Z.to_nat 65536) (-32768).
Lemma in_i16_all v : in_i16 v -> In v i16_all.
Proof. intros Hv. unfold in_i16 in Hv. apply in_zrange. lia. Qed.

(* the move part alone: all 64 x 64 x 4 x 7 argument combinations (prom 0..6, so the clamp is covered) *)
Definition move_part_ok (f t ty pr : N) : bool :=
  let m := CreateMove f t ty pr in
  (From m =? f) && (To m =? t) && (MoveType m =? ty) && (PromotionType m =? clamp_prom pr)
  && (fld c_value_mask c_value_shift m =? 0) && (MoveOf m =? m)
  && (code (mkmv f t ty (clamp_prom pr)) =? m).
Definition n64 := map N.of_nat (seq 0 64).
Definition n4 := map N.of_nat (seq 0 4).
Definition n7 := map N.of_nat (seq 0 7).
Lemma move_sweep :
  forallb (fun f => forallb (fun t => forallb (fun ty => forallb (fun pr => move_part_ok f t ty pr) n7) n4) n64) n64 = true.
Proof. Time vm_compute. reflexivity. Qed.
Lemma move_part f t ty pr : f < 64 -> t < 64 -> ty < 4 -> pr <= 6 -> move_part_ok f t ty pr = true.
Proof.
  intros Hf Ht Hty Hpr. pose proof move_sweep as H.
  rewrite forallb_forall in H. specialize (H f (in_nrange f 64 ltac:(lia))).
  rewrite forallb_forall in H. specialize (H t (in_nrange t 64 ltac:(lia))).
  rewrite forallb_forall in H. specialize (H ty (in_nrange ty 4 ltac:(lia))).
  rewrite forallb_forall in H. exact (H pr (in_nrange pr 7 ltac:(lia))).
Qed.

(* the value part alone: a complete sweep of all 65,536 int16 values *)
Definition value_part_ok (v : Z) : bool :=
  let m := value_bits v in
  (From m =? 0) && (To m =? 0) && (MoveType m =? 0) && (fld c_prom_type_mask c_prom_type_shift m =? 0)
  && (MoveOf m =? 0) && (ValueOf m =? v)%Z.
Lemma value_sweep : forallb value_part_ok i16_all = true.
Proof. Time vm_compute. reflexivity. Qed.
Lemma value_part v : in_i16 v -> value_part_ok v = true.
Proof. intros Hv. pose proof value_sweep as H. rewrite forallb_forall in H. exact (H v (in_i16_all v Hv)). Qed.

Lemma masks_disjoint : N.land c_move_mask c_value_mask = 0.
Proof. vm_compute. reflexivity. Qed.
Lemma move_mask_idem m : N.land (N.land m c_move_mask) c_move_mask = N.land m c_move_mask.
Proof. rewrite <- N.land_assoc, N.land_diag. reflexivity. Qed.

Lemma CreateMoveValue_split f t ty pr v :
  CreateMoveValue f t ty pr v = N.lor (value_bits v) (CreateMove f t ty pr).
Proof. unfold CreateMoveValue, CreateMove. rewrite !N.lor_assoc. reflexivity. Qed.

(** encode_fields, part 1: CreateMoveValue.  [pr] ranges over 0..6: for pr < Knight the
    engine stores Knight (the clamp); v ranges over the whole of int16, i.e. over EVERY value
    of the Go type [Value] (this includes ValueNA, ValueMin..ValueMax, +-ValueInf). *)
Theorem encode_fields :
  forall f t ty pr v, f < 64 -> t < 64 -> ty < 4 -> pr <= 6 -> in_i16 v ->
    let m := CreateMoveValue f t ty pr v in
    From m = f /\ To m = t /\ MoveType m = ty /\ PromotionType m = clamp_prom pr /\
    ValueOf m = v /\ MoveOf m = CreateMove f t ty pr.
Proof.
  intros f t ty pr v Hf Ht Hty Hpr Hv m.
  pose proof (move_part f t ty pr Hf Ht Hty Hpr) as HM. unfold move_part_ok in HM; cbv zeta in HM.
  pose proof (value_part v Hv) as HV. unfold value_part_ok in HV; cbv zeta in HV.
  repeat rewrite andb_true_iff in HM. repeat rewrite andb_true_iff in HV.
  destruct HM as ((((((MF & MT) & MY) & MP) & MV) & MM) & MC).
  destruct HV as (((((VF & VT) & VY) & VP) & VM) & VV).
  apply N.eqb_eq in MF, MT, MY, MP, MV, MM, MC, VF, VT, VY, VP, VM. apply Z.eqb_eq in VV.
  subst m. rewrite CreateMoveValue_split.
  repeat split.
  - unfold From in *. rewrite fld_lor, VF, MF. reflexivity.
  - unfold To in *. rewrite land_lor_l, VT, MT. reflexivity.
  - unfold MoveType in *. rewrite fld_lor, VY, MY. reflexivity.
  - unfold PromotionType in *. rewrite fld_lor, VP. cbn [N.lor]. exact MP.
  - unfold ValueOf in *. rewrite fld_lor, MV, N.lor_0_r. exact VV.
  - unfold MoveOf in *. rewrite land_lor_l, VM. cbn [N.lor]. exact MM.
Qed.

(** encode_fields, part 2: CreateMove (no value): the value reads back as ValueNA. *)
Theorem encode_fields_novalue :
  forall f t ty pr, f < 64 -> t < 64 -> ty < 4 -> pr <= 6 ->
    let m := CreateMove f t ty pr in
    From m = f /\ To m = t /\ MoveType m = ty /\ PromotionType m = clamp_prom pr /\
    ValueOf m = c_value_na /\ MoveOf m = m.
Proof.
  intros f t ty pr Hf Ht Hty Hpr m.
  pose proof (move_part f t ty pr Hf Ht Hty Hpr) as HM. unfold move_part_ok in HM; cbv zeta in HM.
  repeat rewrite andb_true_iff in HM.
  destruct HM as ((((((MF & MT) & MY) & MP) & MV) & MM) & MC).
  apply N.eqb_eq in MF, MT, MY, MP, MV, MM, MC.
  subst m. repeat split; try assumption.
  unfold ValueOf. rewrite MV. vm_compute. reflexivity.
Qed.

(** the 16-bit packing used by the rules specification is the engine's move part *)
Theorem code_is_MoveOf :
  forall m, mfrom m < 64 -> mto m < 64 -> mtype m < 4 -> 3 <= mprom m <= 6 ->
    code m = MoveOf (CreateMove (mfrom m) (mto m) (mtype m) (mprom m))
    /\ forall v, in_i16 v -> code m = MoveOf (CreateMoveValue (mfrom m) (mto m) (mtype m) (mprom m) v).
Proof.
  intros [f t ty pr] Hf Ht Hty Hpr. cbn [mfrom mto mtype mprom] in *.
  pose proof (move_part f t ty pr Hf Ht Hty ltac:(lia)) as HM. unfold move_part_ok in HM; cbv zeta in HM.
  repeat rewrite andb_true_iff in HM.
  destruct HM as ((((((MF & MT) & MY) & MP) & MV) & MM) & MC).
  apply N.eqb_eq in MM, MC.
  assert (Hc : clamp_prom pr = pr) by (unfold clamp_prom, KNIGHT; destruct (N.ltb_spec pr 3); lia).
  rewrite Hc in MC. split.
  - rewrite MM. exact MC.
  - intros v Hv. destruct (encode_fields f t ty pr v Hf Ht Hty ltac:(lia) Hv) as (_ & _ & _ & _ & _ & HMo).
    rewrite HMo. exact MC.
Qed.

(** SetValue: never alters the move part; the value reads back; MoveNone stays MoveNone.
    [m] is ANY word (in particular any uint32), [v] any int16. *)
(* value_bits lies in the high half, whatever v (bit argument, no sweep needed) *)
Lemma value_bits_high v : N.land (value_bits v) c_move_mask = 0.
Proof.
  unfold value_bits, shl32, u32. rewrite <- N.land_assoc.
  replace (N.land 4294967295 c_move_mask) with c_move_mask by (vm_compute; reflexivity).
  apply N.bits_inj. intro n. rewrite N.land_spec, N.bits_0.
  destruct (N.ltb_spec n c_value_shift) as [Hn|Hn].
  - rewrite N.shiftl_spec_low by exact Hn. reflexivity.
  - replace (N.testbit c_move_mask n) with false; [apply andb_false_r|].
    symmetry. apply N.bits_above_log2.
    apply N.lt_le_trans with c_value_shift; [vm_compute; reflexivity|exact Hn].
Qed.

Theorem set_value_move_part : forall m v, MoveOf (SetValue m v) = MoveOf m.
Proof.
  intros m v. unfold SetValue. destruct (N.eqb_spec m 0) as [->|Hm]; [reflexivity|].
  unfold MoveOf. rewrite land_lor_l, move_mask_idem, value_bits_high, N.lor_0_r. reflexivity.
Qed.

Theorem set_value_value : forall m v, m <> 0 -> in_i16 v -> ValueOf (SetValue m v) = v.
Proof.
  intros m v Hm Hv. unfold SetValue. destruct (N.eqb_spec m 0) as [E|_]; [contradiction|].
  pose proof (value_part v Hv) as HV. unfold value_part_ok in HV; cbv zeta in HV.
  repeat rewrite andb_true_iff in HV. destruct HV as (_ & VV). apply Z.eqb_eq in VV.
  unfold ValueOf in *. rewrite fld_lor.
  assert (Hz : fld c_value_mask c_value_shift (N.land m c_move_mask) = 0).
  { unfold fld. rewrite <- N.land_assoc, masks_disjoint, N.land_0_r. apply N.shiftr_0_l. }
  rewrite Hz. cbn [N.lor]. exact VV.
Qed.

Theorem set_value_none : forall v, SetValue 0 v = 0.
Proof. reflexivity. Qed.

(** What happens outside int16: a Go caller cannot pass such a value (the parameter type is
    int16); a wider integer converted to [Value] first wraps, and the round trip returns the
    wrapped value.  So "storable range" = all of int16 = [ValueNA-17767, ValueNA+47768];
    for v in [ValueNA, 32767] the 16 stored bits are the plain offset v-ValueNA (0..47768),
    for v in [-32768, ValueNA-1] the int16 subtraction does NOT overflow but is negative and the
    stored bits are 65536+(v-ValueNA) (47769..65535) - still decoded correctly. *)
Lemma wrap16_idem z : wrap16 (wrap16 z) = wrap16 z.
Proof. unfold wrap16. rewrite Z.sub_add. rewrite Z.mod_mod by lia. reflexivity. Qed.
Lemma wrap16_small z : in_i16 z -> wrap16 z = z.
Proof. unfold in_i16, wrap16. intros H. rewrite Z.mod_small by lia. lia. Qed.
Lemma wrap16_range z : in_i16 (wrap16 z).
Proof. unfold in_i16, wrap16. pose proof (Z.mod_pos_bound (z + 32768) 65536 ltac:(lia)). lia. Qed.
Lemma value_bits_wrap v : value_bits (wrap16 v) = value_bits v.
Proof.
  unfold value_bits. f_equal. f_equal. unfold wrap16.
  replace ((v + 32768) mod 65536 - 32768 - c_value_na + 32768)%Z
    with ((v + 32768) mod 65536 + (- c_value_na))%Z by lia.
  rewrite Z.add_mod_idemp_l by lia.
  replace (v + 32768 + - c_value_na)%Z with (v - c_value_na + 32768)%Z by lia. reflexivity.
Qed.
Theorem value_roundtrip_any_integer :
  forall f t ty pr (v : Z), f < 64 -> t < 64 -> ty < 4 -> pr <= 6 ->
    ValueOf (CreateMoveValue f t ty pr v) = wrap16 v.
Proof.
  intros f t ty pr v Hf Ht Hty Hpr.
  assert (E : CreateMoveValue f t ty pr v = CreateMoveValue f t ty pr (wrap16 v)).
  { rewrite !CreateMoveValue_split, value_bits_wrap. reflexivity. }
  rewrite E. destruct (encode_fields f t ty pr (wrap16 v) Hf Ht Hty Hpr (wrap16_range v)) as (_ & _ & _ & _ & H & _).
  exact H.
Qed.
(* outside int16 the literal round trip is false (witness: 32768 comes back as -32768) *)
Theorem value_roundtrip_outside_int16_refuted :
  ~ (forall v : Z, ValueOf (CreateMoveValue 12 28 0 3 v) = v).
Proof. intros H. specialize (H 32768%Z). vm_compute in H. discriminate H. Qed.

(* the raw stored offset: plain for v >= ValueNA, wrapped for v < ValueNA *)
Definition stored_offset (m : N) : N := fld c_value_mask c_value_shift m.
Lemma stored_offset_sweep :
  forallb (fun v => stored_offset (value_bits v) =?
                    (if (c_value_na <=? v)%Z then Z.to_N (v - c_value_na) else Z.to_N (65536 + (v - c_value_na)))) i16_all = true.
Proof. vm_compute. reflexivity. Qed.

(* every value the engine calls valid, and ValueNA itself, is storable (they are int16) *)
Lemma engine_values_storable v : (v = c_value_na \/ (c_value_min <= v <= c_value_max))%Z -> in_i16 v.
Proof. unfold in_i16. intros [->|H]; [vm_compute; split; discriminate|]. revert H. unfold c_value_min, c_value_max. lia. Qed.

(* MoveNone coincides with the encoding of the (never legal) move a1a1 *)
Lemma move_none_is_a1a1 : CreateMove 0 0 0 3 = 0.
Proof. vm_compute. reflexivity. Qed.

(** Summary of the encoding half of C17 *)
Theorem C17_encoding :
  (forall f t ty pr v, f < 64 -> t < 64 -> ty < 4 -> pr <= 6 -> in_i16 v ->
     let m := CreateMoveValue f t ty pr v in
     From m = f /\ To m = t /\ MoveType m = ty /\ PromotionType m = clamp_prom pr /\
     ValueOf m = v /\ MoveOf m = CreateMove f t ty pr) /\
  (forall f t ty pr, f < 64 -> t < 64 -> ty < 4 -> pr <= 6 ->
     let m := CreateMove f t ty pr in
     From m = f /\ To m = t /\ MoveType m = ty /\ PromotionType m = clamp_prom pr /\
     ValueOf m = c_value_na /\ MoveOf m = m) /\
  (forall m v, MoveOf (SetValue m v) = MoveOf m) /\
  (forall m v, m <> 0 -> in_i16 v -> ValueOf (SetValue m v) = v) /\
  (forall v, SetValue 0 v = 0).
Proof.
  split; [exact encode_fields|]. split; [exact encode_fields_novalue|].
  split; [exact set_value_move_part|]. split; [exact set_value_value|exact set_value_none].
Qed.

Print Assumptions C17_encoding.
Print Assumptions encode_fields.
Print Assumptions encode_fields_novalue.
Print Assumptions code_is_MoveOf.
Print Assumptions set_value_move_part.
Print Assumptions set_value_value.
Print Assumptions value_roundtrip_any_integer.
