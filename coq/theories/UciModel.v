(** * UciModel: executable model of the UCI command dispatcher (C16 second half, parts of C12)
      /repo/internal/uci/uci.go        handleReceivedCommand, setOptionCommand, positionCommand,
                                       goCommand / readSearchLimits, perftCommand, ...
      /repo/internal/uci/ucioption.go  the option table and its handlers
    Definitions only (theorems: UciProofs.v).  Strings are lists of byte codes.

    What is modelled
      - the split of a line into tokens (strings.TrimSpace, then regexp "\\s+" Split), the command switch;
      - the engine's current position as [FenImpl.fpos] plus the length of its undo history
        (historyCounter; DoMove writes history[historyCounter], an array of MaxMoves = 512);
      - config.Settings as a function from the fields an option can write ([field]) to values;
      - for "go": the parsing, the accept / reject decision and the Limits record.
    What is abstract
      - the search itself (StartSearch / StopSearch / NewGame / PonderHit / ResizeCache /
        ClearHash / perft run in the search package; their only effect on the state modelled
        here is none), the exact text of info strings (an [OInfo] carries a reason code);
      - DoMove is modelled by [Rules.make] on the observable fields ([fdo]; the agreement of
        position.DoMove with Rules.make is the subject of PosProofs / C02);
      - GetMoveFromUci is the Section parameter [from_uci] on the rules position
        ([NotationImpl.from_uci] is the intended instance).  Its only modelled failure is the
        run-time panic of GenerateLegalMoves when the side to move has no king
        (PiecesBb(us, King).Lsb() = 64 indexes a 64-entry table: observed on the engine
        before setupBoard rejected positions with a capturable king).
    Any out-of-range token access, DoMove on a full history, fen() on a board with an invalid
    piece code and a nil position are the [UPanic] outcome. *)
From Coq Require Import NArith ZArith List Bool String Ascii.
From FG Require Import Geom Rules FenSpec Oracle FenImpl.
Import ListNotations.
Open Scope N_scope.

(** ** byte strings from literals *)
Definition b (s : string) : str := map N_of_ascii (list_ascii_of_string s).

(** ** tokens: regexWhiteSpace = "\\s+" (uci.go:210), RE2 \s = [\t\n\f\r ] (no \v, ASCII only).
    uci.go:219  tokens := regexWhiteSpace.Split(strings.TrimSpace(cmd), -1)
    strings.TrimSpace removes leading and trailing UNICODE white space (\v, U+0085, U+00A0,
    U+2000.. as well: [FenImpl.trim_space], the model validated for setupBoard); then
    Regexp.Split(s, -1): the pieces between maximal runs of \s; the empty string gives [""].
    Every \s byte is Unicode white space, so after trimming no leading / trailing run of \s is
    left: the first and the last token are non-empty unless the whole line was white space
    (then there is one empty token).  Never the empty list.
    (Before commit "fix: leading white space does not hide a UCI command" the line was split
    untrimmed and a leading blank made tokens[0] the empty string.) *)
Definition is_ws (c : N) : bool := (c =? 9) || (c =? 10) || (c =? 12) || (c =? 13) || (c =? 32).
Fixpoint split_ws (s cur : str) (inws : bool) : list str :=
  match s with
  | [] => [rev cur]
  | c :: r => if is_ws c then (if inws then split_ws r cur true else rev cur :: split_ws r [] true)
              else split_ws r (c :: cur) false
  end.
Definition tokens (cmd : str) : list str := split_ws (trim_space cmd) [] false.

(** ** config.Settings: the fields an option handler assigns (ucioption.go:237-406) *)
Inductive field :=
  | UseTT | TTSize | UseBook | UsePonder | UseQuiescence | UseQSTT | UseSEE | UsePromNonQuiet
  | UsePVS | UseAspiration | UseMTDf | UseIID | UseKiller | UseHistoryCounter | UseCounterMoves
  | UseRFP | UseNullMove | UseMDP | UseFP | UseLmr | UseLmp
  | UseExt | UseExtAddDepth | UseCheckExt | UseThreatExt
  | EvalUseLazyEval | EvalUseMobility | EvalUseAdvancedPieceEval.
Definition field_eqb (x y : field) : bool :=
  match x, y with
  | UseTT, UseTT | TTSize, TTSize | UseBook, UseBook | UsePonder, UsePonder
  | UseQuiescence, UseQuiescence | UseQSTT, UseQSTT | UseSEE, UseSEE | UsePromNonQuiet, UsePromNonQuiet
  | UsePVS, UsePVS | UseAspiration, UseAspiration | UseMTDf, UseMTDf | UseIID, UseIID
  | UseKiller, UseKiller | UseHistoryCounter, UseHistoryCounter | UseCounterMoves, UseCounterMoves
  | UseRFP, UseRFP | UseNullMove, UseNullMove | UseMDP, UseMDP | UseFP, UseFP | UseLmr, UseLmr
  | UseLmp, UseLmp | UseExt, UseExt | UseExtAddDepth, UseExtAddDepth | UseCheckExt, UseCheckExt
  | UseThreatExt, UseThreatExt | EvalUseLazyEval, EvalUseLazyEval | EvalUseMobility, EvalUseMobility
  | EvalUseAdvancedPieceEval, EvalUseAdvancedPieceEval => true
  | _, _ => false
  end.
(* bool fields hold 0 / 1, TTSize holds the int *)
Definition cfg := field -> Z.
Definition cfg_set (c : cfg) (f : field) (v : Z) : cfg := fun g => if field_eqb g f then v else c g.

(** the option table, ucioption.go:40-79: name, handler.  [HBool f]: v,_ := ParseBool(value);
    Settings.f = v.  [HHash]: cacheSize.  [HButton]: printConfig / clearCache (no Settings field). *)
Inductive handler := HBool (f : field) | HHash | HButton (which : N).
Definition option_table : list (str * handler) :=
  [ (b "Print Config", HButton 0); (b "Clear Hash", HButton 1);
    (b "Use_Hash", HBool UseTT); (b "Hash", HHash);
    (b "Use_Book", HBool UseBook); (b "Ponder", HBool UsePonder);
    (b "Quiescence", HBool UseQuiescence); (b "Use_QHash", HBool UseQSTT);
    (b "Use_SEE", HBool UseSEE); (b "Use_PromNonQuiet", HBool UsePromNonQuiet);
    (b "Use_PVS", HBool UsePVS); (b "Use_ASP", HBool UseAspiration); (b "Use_MTDf", HBool UseMTDf);
    (b "Use_IID", HBool UseIID); (b "Use_Killer", HBool UseKiller);
    (b "Use_HistCount", HBool UseHistoryCounter); (b "Use_CounterMove", HBool UseCounterMoves);
    (b "Use_Rfp", HBool UseRFP); (b "Use_NullMove", HBool UseNullMove); (b "Use_Mdp", HBool UseMDP);
    (b "Use_Fp", HBool UseFP); (b "Use_Lmr", HBool UseLmr); (b "Use_Lmp", HBool UseLmp);
    (b "Use_Ext", HBool UseExt); (b "Use_ExtAddDepth", HBool UseExtAddDepth);
    (b "Use_CheckExt", HBool UseCheckExt); (b "Use_ThreatExt", HBool UseThreatExt);
    (b "Eval_Lazy", HBool EvalUseLazyEval); (b "Eval_Mobility", HBool EvalUseMobility);
    (b "Eval_AdvPiece", HBool EvalUseAdvancedPieceEval) ].

Fixpoint lookup (name : str) (t : list (str * handler)) : option handler :=
  match t with
  | [] => None
  | (n, h) :: r => if str_eqb n name then Some h else lookup name r
  end.

(* strconv.ParseBool: "1","t","T","TRUE","true","True" -> true; anything else (including the
   six spellings of false and every error) leaves v = false *)
Definition parse_bool (v : str) : bool :=
  existsb (str_eqb v) [b "1"; b "t"; b "T"; b "TRUE"; b "true"; b "True"].

(* cacheSize (ucioption.go:243-250): v,_ := Atoi(value) (0 on error); negative -> 0 *)
Definition hash_value (v : str) : Z :=
  match atoi v with Some z => if (z <? 0)%Z then 0%Z else z | None => 0%Z end.

(* the Settings field a handler assigns, and the value it assigns *)
Definition handler_field (h : handler) : option field :=
  match h with HBool f => Some f | HHash => Some TTSize | HButton _ => None end.
Definition handler_value (h : handler) (value : str) : Z :=
  match h with HBool _ => if parse_bool value then 1%Z else 0%Z | HHash => hash_value value | HButton _ => 0%Z end.

Definition apply_handler (h : handler) (value : str) (c : cfg) : cfg :=
  match h with
  | HBool f => cfg_set c f (if parse_bool value then 1%Z else 0%Z)
  | HHash => cfg_set c TTSize (hash_value value)
  | HButton _ => c
  end.

(** ** state, outputs *)
Record ustate := mkust {
  u_pos  : fpos;      (* *u.myPosition: the observable fields *)
  u_hist : nat;       (* u.myPosition.historyCounter *)
  u_cfg  : cfg        (* config.Settings *)
}.

(* search.Limits (search/limits.go) as filled by readSearchLimits *)
Record limits := mklimits {
  l_infinite : bool; l_ponder : bool; l_depth : Z; l_nodes : Z (* uint64 *); l_mate : Z;
  l_movetime : Z; l_wtime : Z; l_btime : Z; l_winc : Z; l_binc : Z; l_movestogo : Z;
  l_timecontrol : bool; l_moves : list mv
}.
Definition no_limits : limits := mklimits false false 0 0 0 0 0 0 0 0 0 false [].

Inductive out_line :=
  | OReadyOk                 (* "readyok" *)
  | OUci                     (* id lines, option lines, "uciok" *)
  | OInfo (reason : N)       (* an "info string ..." reporting a problem, see the codes below *)
  | OConfig                  (* the lines of Print Config *)
  | OSearch (l : limits)     (* StartSearch has been called with these limits *)
  | OOther (what : N).       (* calls into the search package: 1 NewGame 2 StopSearch+perft Stop
                                3 PonderHit 4 perft started 5 ResizeCache 6 ClearHash *)
(** reason codes of [OInfo]:
    1 setoption malformed      2 setoption: no such option
    10 position malformed (missing / unknown sub command / empty fen)   11 invalid fen
    12 invalid move in the move list   13 "moves" keyword expected   14 too many moves (rebase failed)
    20 go: value missing   21 go: value not a number   22 go: invalid subcommand
    23 go: no effective limits   24 go: zero time for the side to move
    30 register / debug not implemented *)
Inductive status := Continue | Quit.
Inductive outcome := Done (st : ustate) (out : list out_line) (q : status) | UPanic.

(** ** the position *)
Definition start_fen : str := Eval vm_compute in b "rnbqkbnr/pppppppp/8/8/8/8/PPPPPPPP/RNBQKBNR w KQkq - 0 1".

(* DoMove (position.go:187-247) on the observable fields, via the rules specification.
   halfMoveClock: reset by captures and pawn moves, else ++ (Go int: wraps); nextHalfMoveNumber++ *)
Definition fdo (p : fpos) (m : mv) : fpos :=
  let q := make (abs p) m in
  mkfpos (brd q) (stm q) (cr q) (ep q)
         (if hmc q =? 0 then 0%Z else wrap64 (f_hmc p + 1))
         (wrap64 (f_nhm p + 1)).

Definition MaxMoves : nat := 512.            (* types.go:57 *)
Definition RebaseAt : nat := 382.            (* MaxMoves - MaxDepth - 2 = 512 - 128 - 2, uci.go:406 *)

Section WithMoveParser.
Variable from_uci : pos -> str -> option mv.

(* GetMoveFromUci(u.myPosition, tok): None = panic (no king of the side to move) *)
Definition get_move (p : fpos) (tok : str) : option (option mv) :=
  if Nat.eqb (count_code (f_board p) (8 * f_side p + 1)) 0 then None
  else Some (from_uci (abs p) tok).

Inductive mres := MDone (p : fpos) (hist : nat) (out : list out_line) | MPanic.

(* uci.go:398-425: the loop over the move tokens; [made] = movesMade *)
Fixpoint move_loop (toks : list str) (p : fpos) (hist made : nat) : mres :=
  match toks with
  | [] => MDone p hist []
  | tk :: r =>
      if str_eqb tk (b "moves") then MDone p hist []               (* :398 loop condition *)
      else match get_move p tk with
           | None => MPanic
           | Some None => MDone p hist [OInfo 12]                   (* :420-424 *)
           | Some (Some m) =>
               (* :406-416 the rebase *)
               let rb := if Nat.leb RebaseAt made then
                           match fen_of_opt p with
                           | None => None                           (* fen() panics *)
                           | Some f => match setup f with
                                       | Ok p' => Some (inr (p', O, O))
                                       | Err _ => Some (inl tt)
                                       | Panic => None
                                       end
                           end
                         else Some (inr (p, hist, made)) in
               match rb with
               | None => MPanic
               | Some (inl _) => MDone p hist [OInfo 14]
               | Some (inr (p1, h1, made1)) =>
                   if Nat.leb MaxMoves h1 then MPanic               (* history[512] *)
                   else move_loop r (fdo p1 m) (S h1) (S made1)      (* :417-418 *)
               end
           end
  end.

(* fenb: every token followed by a blank (uci.go:366-370) *)
Definition join_sp (l : list str) : str := List.concat (map (fun t => t ++ [32]) l).
Fixpoint span_moves (l : list str) : list str * list str :=
  match l with
  | [] => ([], [])
  | t :: r => if str_eqb t (b "moves") then ([], l) else let '(x, y) := span_moves r in (t :: x, y)
  end.

(* uci.go:360-382: the FEN to set up and the tokens after it.  None = malformed *)
Definition position_base (t1 : str) (rest : list str) : option (str * list str) :=
  if str_eqb t1 (b "startpos") then Some (start_fen, rest)
  else if str_eqb t1 (b "fen") then
    let '(ft, rem) := span_moves rest in
    let fen := trim_space (join_sp ft) in
    match fen with [] => None | _ => Some (fen, rem) end
  else None.

(* positionCommand (uci.go:350-428); [toks] = all tokens, toks[0] = "position" *)
Definition position_cmd (st : ustate) (toks : list str) : outcome :=
  let reject code := Done st [OInfo code] Continue in
  match toks with
  | _ :: t1 :: rest =>
      match position_base t1 rest with
      | None => reject 10
      | Some (fen, rem) =>
          match setup fen with                                      (* :384 NewPositionFen *)
          | Panic => UPanic
          | Err _ => reject 11                                      (* :385-390 position untouched *)
          | Ok p0 =>
              match rem with
              | [] => Done (mkust p0 O (u_cfg st)) [] Continue
              | k :: ms =>
                  if str_eqb k (b "moves") then
                    match move_loop ms p0 O O with
                    | MPanic => UPanic
                    | MDone p h out => Done (mkust p h (u_cfg st)) out Continue
                    end
                  else Done (mkust p0 O (u_cfg st)) [OInfo 13] Continue   (* :426-431 *)
              end
          end
      end
  | _ => reject 10                                                  (* :354-359 len(tokens) < 2 *)
  end.

(** ** setoption (uci.go:268-297) *)
Fixpoint name_tokens (l : list str) : list str * list str :=       (* up to "value" *)
  match l with
  | [] => ([], [])
  | t :: r => if str_eqb t (b "value") then ([], l) else let '(x, y) := name_tokens r in (t :: x, y)
  end.
(* name and value read from the tokens; None = malformed *)
Definition setoption_parse (toks : list str) : option (str * str) :=
  match toks with
  | _ :: t1 :: rest =>
      if str_eqb t1 (b "name") then
        let '(nt, rem) := name_tokens rest in
        let name := trim_space (join_sp nt) in                      (* :274-277 *)
        let value := match rem with _ :: v :: _ => v | _ => [] end in   (* :278-280 *)
        Some (name, value)
      else None
  | _ => None
  end.
Definition setoption_cmd (st : ustate) (toks : list str) : outcome :=
  match setoption_parse toks with
  | None => Done st [OInfo 1] Continue
  | Some (name, value) =>
      match lookup name option_table with
      | Some h =>
          Done (mkust (u_pos st) (u_hist st) (apply_handler h value (u_cfg st)))
               (match h with HButton 0 => [OConfig] | HButton _ => [OOther 6] | HHash => [OOther 5] | HBool _ => [] end)
               Continue
      | None => Done st [OInfo 2] Continue
      end
  end.

(** ** go (uci.go:340-347, 451-622) *)
(* strconv.ParseInt(s, 10, 64) accepts exactly what Atoi accepts *)
Definition is_value_kw (t : str) : bool :=
  existsb (str_eqb t) [b "depth"; b "nodes"; b "mate"; b "movetime"; b "moveTime"; b "wtime"; b "btime";
                       b "winc"; b "binc"; b "movestogo"].
Definition ms_to_ns (z : Z) : Z := wrap64 (z * 1000000).          (* time.Duration(parseInt * 1_000_000) *)

Inductive gres := GOk (l : limits) | GRej (code : N) | GPanic.

(* :472-484 the inner loop of searchmoves: valid moves are consumed, the first other token stays *)
Fixpoint take_moves (p : fpos) (toks : list str) (acc : list mv) : option (list mv * list str) :=
  match toks with
  | [] => Some (acc, [])
  | t :: r => match get_move p t with
              | None => None
              | Some (Some m) => take_moves p r (acc ++ [m])
              | Some None => Some (acc, toks)
              end
  end.

Definition set_num (l : limits) (kw : str) (z : Z) : limits :=
  if str_eqb kw (b "depth") then
    mklimits (l_infinite l) (l_ponder l) z (l_nodes l) (l_mate l) (l_movetime l) (l_wtime l) (l_btime l) (l_winc l) (l_binc l) (l_movestogo l) (l_timecontrol l) (l_moves l)
  else if str_eqb kw (b "nodes") then
    mklimits (l_infinite l) (l_ponder l) (l_depth l) (z mod two64)%Z (l_mate l) (l_movetime l) (l_wtime l) (l_btime l) (l_winc l) (l_binc l) (l_movestogo l) (l_timecontrol l) (l_moves l)
  else if str_eqb kw (b "mate") then
    mklimits (l_infinite l) (l_ponder l) (l_depth l) (l_nodes l) z (l_movetime l) (l_wtime l) (l_btime l) (l_winc l) (l_binc l) (l_movestogo l) (l_timecontrol l) (l_moves l)
  else if str_eqb kw (b "movetime") || str_eqb kw (b "moveTime") then
    mklimits (l_infinite l) (l_ponder l) (l_depth l) (l_nodes l) (l_mate l) (ms_to_ns z) (l_wtime l) (l_btime l) (l_winc l) (l_binc l) (l_movestogo l) true (l_moves l)
  else if str_eqb kw (b "wtime") then
    mklimits (l_infinite l) (l_ponder l) (l_depth l) (l_nodes l) (l_mate l) (l_movetime l) (ms_to_ns z) (l_btime l) (l_winc l) (l_binc l) (l_movestogo l) true (l_moves l)
  else if str_eqb kw (b "btime") then
    mklimits (l_infinite l) (l_ponder l) (l_depth l) (l_nodes l) (l_mate l) (l_movetime l) (l_wtime l) (ms_to_ns z) (l_winc l) (l_binc l) (l_movestogo l) true (l_moves l)
  else if str_eqb kw (b "winc") then
    mklimits (l_infinite l) (l_ponder l) (l_depth l) (l_nodes l) (l_mate l) (l_movetime l) (l_wtime l) (l_btime l) (ms_to_ns z) (l_binc l) (l_movestogo l) (l_timecontrol l) (l_moves l)
  else if str_eqb kw (b "binc") then
    mklimits (l_infinite l) (l_ponder l) (l_depth l) (l_nodes l) (l_mate l) (l_movetime l) (l_wtime l) (l_btime l) (l_winc l) (ms_to_ns z) (l_movestogo l) (l_timecontrol l) (l_moves l)
  else (* movestogo *)
    mklimits (l_infinite l) (l_ponder l) (l_depth l) (l_nodes l) (l_mate l) (l_movetime l) (l_wtime l) (l_btime l) (l_winc l) (l_binc l) z (l_timecontrol l) (l_moves l).

(* the loop :454-593 over tokens[i:]; [toks] = the tokens not yet read *)
Fixpoint go_loop (fuel : nat) (p : fpos) (toks : list str) (l : limits) : gres :=
  match fuel with
  | O => GOk l
  | S k =>
      match toks with
      | [] => GOk l
      | t :: r =>
          if is_value_kw t then
            match r with
            | [] => GRej 20                                         (* :457-465 value missing *)
            | v :: r' =>
                (* i++ ; tokens[i] : in range because of the test above ([nth_error] never fails) *)
                match nth_error toks 1 with
                | None => GPanic
                | Some v' => match atoi v' with
                             | None => GRej 21
                             | Some z => go_loop k p r' (set_num l t z)
                             end
                end
            end
          else if str_eqb t (b "searchmoves") || str_eqb t (b "moves") then
            match take_moves p r (l_moves l) with
            | None => GPanic
            | Some (ms, r') =>
                go_loop k p r' (mklimits (l_infinite l) (l_ponder l) (l_depth l) (l_nodes l) (l_mate l) (l_movetime l) (l_wtime l) (l_btime l) (l_winc l) (l_binc l) (l_movestogo l) (l_timecontrol l) ms)
            end
          else if str_eqb t (b "infinite") then
            go_loop k p r (mklimits true (l_ponder l) (l_depth l) (l_nodes l) (l_mate l) (l_movetime l) (l_wtime l) (l_btime l) (l_winc l) (l_binc l) (l_movestogo l) (l_timecontrol l) (l_moves l))
          else if str_eqb t (b "ponder") then
            go_loop k p r (mklimits (l_infinite l) true (l_depth l) (l_nodes l) (l_mate l) (l_movetime l) (l_wtime l) (l_btime l) (l_winc l) (l_binc l) (l_movestogo l) (l_timecontrol l) (l_moves l))
          else GRej 22                                              (* :587-592 *)
      end
  end.

Definition read_limits (p : fpos) (toks : list str) : gres :=
  match toks with
  | [] => GPanic                                                    (* tokens is never empty *)
  | _ :: r =>
      match go_loop (S (List.length r)) p r no_limits with
      | GOk l =>
          (* :595-606 *)
          if negb (l_infinite l || l_ponder l || (0 <? l_depth l)%Z || (0 <? l_nodes l)%Z || (0 <? l_mate l)%Z || l_timecontrol l)
          then GRej 23
          (* :608-620 *)
          else if l_timecontrol l && (l_movetime l =? 0)%Z &&
                  (((f_side p =? 0) && (l_wtime l =? 0)%Z) || ((f_side p =? 1) && (l_btime l =? 0)%Z))
          then GRej 24
          else GOk l
      | r => r
      end
  end.

Definition go_cmd (st : ustate) (toks : list str) : outcome :=
  match read_limits (u_pos st) toks with
  | GPanic => UPanic
  | GRej c => Done st [OInfo c] Continue
  | GOk l => Done st [OSearch l] Continue                           (* StartSearch(position, limits) *)
  end.

(** ** handleReceivedCommand (uci.go:210-251) *)
Definition handle (st : ustate) (cmd : str) : outcome :=
  match cmd with
  | [] => Done st [] Continue                                       (* :211 len(cmd) == 0 *)
  | _ =>
      let toks := tokens cmd in
      match toks with
      | [] => UPanic                                                (* tokens[0] *)
      | t0 :: _ =>
          if str_eqb t0 (b "quit") then Done st [] Quit
          else if str_eqb t0 (b "uci") then Done st [OUci] Continue
          else if str_eqb t0 (b "setoption") then setoption_cmd st toks
          else if str_eqb t0 (b "isready") then Done st [OReadyOk] Continue
          else if str_eqb t0 (b "ucinewgame") then
            match setup start_fen with                              (* NewPosition() *)
            | Ok p => Done (mkust p O (u_cfg st)) [OOther 1] Continue
            | _ => UPanic                                           (* nil position *)
            end
          else if str_eqb t0 (b "position") then position_cmd st toks
          else if str_eqb t0 (b "go") then go_cmd st toks
          else if str_eqb t0 (b "stop") then Done st [OOther 2] Continue
          else if str_eqb t0 (b "ponderhit") then Done st [OOther 3] Continue
          else if str_eqb t0 (b "register") then Done st [OInfo 30] Continue
          else if str_eqb t0 (b "debug") then Done st [OInfo 30] Continue
          else if str_eqb t0 (b "perft") then Done st [OOther 4] Continue   (* tokens[1], tokens[2] guarded by len *)
          else Done st [] Continue                                  (* "noop", unknown command *)
      end
  end.

(** a session: lines handled one after the other until quit *)
Fixpoint run (st : ustate) (lines : list str) : outcome :=
  match lines with
  | [] => Done st [] Continue
  | l :: r => match handle st l with
              | UPanic => UPanic
              | Done st' out Quit => Done st' out Quit
              | Done st' out Continue =>
                  match run st' r with
                  | UPanic => UPanic
                  | Done st'' out' q => Done st'' (out ++ out') q
                  end
              end
  end.

End WithMoveParser.

(** the handler created by NewUciHandler: start position, the default Settings *)
Definition init_state (c : cfg) : option ustate :=
  match setup start_fen with Ok p => Some (mkust p O c) | _ => None end.

(** ** executable checkers for the correspondence run *)
(* [go_case_ok line white_to_move observed_accept]: [line] is a complete "go ..." line given to
   an engine whose position is "4k3/8/8/8/8/8/8/4K3 w - - 0 1" (white_to_move) or the same
   with "b"; tokens after searchmoves are judged by [from_uci] on that position;
   [observed_accept] = no "info string UCI command go ..." was printed (for a line whose first
   token is "go": a search was started). *)
Definition kings_fen (w : bool) : str :=
  if w then b "4k3/8/8/8/8/8/8/4K3 w - - 0 1" else b "4k3/8/8/8/8/8/8/4K3 b - - 0 1".
Definition is_go_info (o : out_line) : bool :=
  match o with OInfo c => (20 <=? c) && (c <=? 24) | _ => false end.
Definition go_case_ok (from_uci : pos -> str -> option mv) (line : str) (white_to_move : bool) (observed_accept : bool) : bool :=
  match setup (kings_fen white_to_move) with
  | Ok p => match handle from_uci (mkust p O (fun _ => 0%Z)) line with
            | Done _ out _ => Bool.eqb observed_accept (negb (existsb is_go_info out))
            | UPanic => false
            end
  | _ => false
  end.

(* [position_case_ok lines observed_fen]: the lines are given to a fresh handler one after the
   other; [observed_fen] is StringFen() of the handler's position afterwards *)
Definition position_case_ok (from_uci : pos -> str -> option mv) (lines : list str) (observed_fen : str) : bool :=
  match init_state (fun _ => 0%Z) with
  | Some st => match run from_uci st lines with
               | Done st' _ _ => str_eqb (fen_of (u_pos st')) observed_fen
               | UPanic => false
               end
  | None => false
  end.

(* observation used for validating the model: the reason codes printed and the final fen *)
Definition info_codes (out : list out_line) : list N :=
  flat_map (fun o => match o with OInfo c => [c] | _ => [] end) out.
