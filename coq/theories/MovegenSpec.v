(** * MovegenSpec: facts about the rules specification [Rules.pseudo] needed to compare it
      with the bitboard generator (C01, C08).  Nothing here mentions the engine model.

    - [pseudo_shape] / [pseudo_of_shape]: what the elements of [pseudo p] look like;
    - [pseudo_valid]: every pseudo-legal move has squares < 64, a move type < 4 and a
      promotion piece 3..6, so [Rules.code] is injective on them ([pseudo_codes_nodup]);
    - [pseudo_nodup]: the specification lists no move twice;
    - [cls]: the eleven classes of moves in the order in which the engine generates them. *)
From Coq Require Import NArith ZArith List Bool Lia ZifyN ZifyBool Permutation.
From FG Require Import Word64 Geom Tables TablesCorrect ShiftCorrect Rules BitView
                       AttacksImpl AttacksLemmas MoveEnc SqListFacts MovegenImpl MovegenLemmas.
Import ListNotations.
Open Scope N_scope.

(** ** targets of the non-pawn pieces *)
Definition spec_targets (b : list N) (ty s : N) : list N :=
  if ty =? KNIGHT then knight_targets s
  else if ty =? KING then king_targets s
  else if ty =? ROOK then rays_from b rook_dirs s
  else if ty =? BISHOP then rays_from b bishop_dirs s
  else if ty =? QUEEN then rays_from b all_dirs s
  else [].

Definition simple_moves (b : list N) (c s : N) (ts : list N) : list mv :=
  map (fun t => mkmv s t NORMAL 3) (filter (free_or_enemy b c) ts).

Lemma piece_moves_other p s : at_ (brd p) s = 0 \/ colour_of (at_ (brd p) s) <> stm p -> piece_moves p s = [].
Proof.
  intros H. unfold piece_moves.
  destruct (N.eqb_spec (at_ (brd p) s) 0) as [E|E]; cbn [orb]; [reflexivity|].
  destruct H as [H|H]; [congruence|]. apply N.eqb_neq in H. now rewrite H.
Qed.

Lemma piece_moves_own p s ty : 1 <= ty <= 6 -> at_ (brd p) s = mk_piece (stm p) ty ->
  piece_moves p s = if ty =? PAWN then pawn_moves p s else simple_moves (brd p) (stm p) s (spec_targets (brd p) ty s).
Proof.
  intros Hty E. unfold piece_moves. rewrite E.
  rewrite mk_piece_colour, mk_piece_type by lia. rewrite N.eqb_refl.
  replace (mk_piece (stm p) ty =? 0) with false by (unfold mk_piece; lia). cbn [orb negb].
  unfold spec_targets, simple_moves.
  assert (H : ty = 1 \/ ty = 2 \/ ty = 3 \/ ty = 4 \/ ty = 5 \/ ty = 6) by lia.
  decompose [or] H; subst ty; reflexivity.
Qed.

(** ** finite facts about target lists *)
Fixpoint nodupb (l : list N) : bool :=
  match l with [] => true | x :: r => negb (existsb (N.eqb x) r) && nodupb r end.
Lemma nodupb_sound l : nodupb l = true -> NoDup l.
Proof.
  induction l as [|x l IH]; cbn [nodupb]; intros H; [constructor|].
  apply andb_true_iff in H as [H1 H2]. constructor; [|now apply IH].
  intros Hi. apply existsb_eqb_In in Hi. now rewrite Hi in H1.
Qed.

Lemma knight_targets_nodup s : s < 64 -> NoDup (knight_targets s).
Proof.
  intros Hs. apply nodupb_sound.
  assert (H : forallb (fun s => nodupb (knight_targets s)) squares64 = true) by (vm_compute; reflexivity).
  exact (forall_squares _ H s Hs).
Qed.
Lemma king_targets_nodup s : s < 64 -> NoDup (king_targets s).
Proof.
  intros Hs. apply nodupb_sound.
  assert (H : forallb (fun s => nodupb (king_targets s)) squares64 = true) by (vm_compute; reflexivity).
  exact (forall_squares _ H s Hs).
Qed.
Lemma pawn_targets_nodup c s : c < 2 -> s < 64 -> NoDup (pawn_attack_targets c s).
Proof.
  intros Hc Hs. apply nodupb_sound.
  assert (H : forallb (fun c => forallb (fun s => nodupb (pawn_attack_targets c s)) squares64) [0;1] = true)
    by (vm_compute; reflexivity).
  rewrite forallb_forall in H. assert (Hin : In c [0;1]) by (cbn; lia).
  exact (forall_squares _ (H c Hin) s Hs).
Qed.

(* rays on the empty board *)
Lemma empty_rays_nodup dirs s : (dirs = rook_dirs \/ dirs = bishop_dirs \/ dirs = all_dirs) -> s < 64 ->
  NoDup (concat (map (fun d => walk 7 d s 0) dirs)).
Proof.
  intros Hd Hs. apply nodupb_sound.
  assert (H : forallb (fun dirs => forallb (fun s => nodupb (concat (map (fun d => walk 7 d s 0) dirs))) squares64)
                      [rook_dirs; bishop_dirs; all_dirs] = true) by (vm_compute; reflexivity).
  rewrite forallb_forall in H.
  assert (Hin : In dirs [rook_dirs; bishop_dirs; all_dirs]) by (destruct Hd as [->|[->| ->]]; cbn [In]; auto).
  exact (forall_squares _ (H dirs Hin) s Hs).
Qed.

Lemma walk_prefix occ d : forall k s, exists r, walk k d s 0 = walk k d s occ ++ r.
Proof.
  induction k as [|k IH]; intros s; cbn [walk]; [now exists []|].
  destruct (step d s) as [t|]; [|now exists []].
  rewrite N.bits_0. destruct (N.testbit occ t).
  - exists (walk k d t 0). reflexivity.
  - destruct (IH t) as [r Hr]. exists r. cbn [app]. now rewrite Hr.
Qed.

Lemma nodup_concat_prefixes {A} (f g : A -> list N) (l : list A) :
  (forall d, exists r, g d = f d ++ r) -> NoDup (concat (map g l)) -> NoDup (concat (map f l)).
Proof.
  intros Hp. induction l as [|d l IH]; cbn [map concat]; intros H; [constructor|].
  apply nodup_app_inv in H as (H1 & H2 & H3). destruct (Hp d) as [r Hr].
  assert (Hincl : forall x, In x (concat (map f l)) -> In x (concat (map g l))).
  { intros x Hx. apply in_concat in Hx as [L [HL Hx]]. apply in_map_iff in HL as [e [<- He]].
    apply in_concat. exists (g e). split; [apply in_map_iff; now exists e|].
    destruct (Hp e) as [r' Hr']. rewrite Hr'. apply in_or_app. now left. }
  apply nodup_app.
  - rewrite Hr in H1. now apply nodup_app_inv in H1.
  - now apply IH.
  - intros x Hx1 Hx2. apply (H3 x); [rewrite Hr; apply in_or_app; now left|now apply Hincl].
Qed.

Lemma rays_nodup b dirs s : (dirs = rook_dirs \/ dirs = bishop_dirs \/ dirs = all_dirs) -> s < 64 ->
  NoDup (rays_from b dirs s).
Proof.
  intros Hd Hs. unfold rays_from.
  apply (nodup_concat_prefixes (fun d => walkb 7 b d s) (fun d => walk 7 d s 0)).
  - intros d. rewrite <- walk_walkb. apply walk_prefix.
  - now apply empty_rays_nodup.
Qed.

Lemma spec_targets_nodup b ty s : s < 64 -> NoDup (spec_targets b ty s).
Proof.
  intros Hs. unfold spec_targets.
  destruct (ty =? KNIGHT); [now apply knight_targets_nodup|].
  destruct (ty =? KING); [now apply king_targets_nodup|].
  destruct (ty =? ROOK); [apply rays_nodup; auto|].
  destruct (ty =? BISHOP); [apply rays_nodup; auto|].
  destruct (ty =? QUEEN); [apply rays_nodup; auto|constructor].
Qed.

Lemma spec_targets_lt b ty s t : In t (spec_targets b ty s) -> t < 64.
Proof.
  unfold spec_targets.
  destruct (ty =? KNIGHT); [apply knight_targets_lt|].
  destruct (ty =? KING); [apply king_targets_lt|].
  destruct (ty =? ROOK); [apply rays_from_lt|].
  destruct (ty =? BISHOP); [apply rays_from_lt|].
  destruct (ty =? QUEEN); [apply rays_from_lt|intros []].
Qed.

(** ** pawn moves *)
(* finite facts about pawn geometry; [fwd c] is north for White, south for Black *)
Definition pawn_geom_ok (c s : N) : bool :=
  match step (fwd c) s with
  | Some t => (file_of t =? file_of s) && negb (t =? s) &&
              (zabs_diff (rank_of s) (rank_of t) =? 1) &&
              match step (fwd c) t with
              | Some u => (file_of u =? file_of s) && negb (u =? t) && (zabs_diff (rank_of s) (rank_of u) =? 2)
              | None => true end
  | None => true end &&
  forallb (fun t => negb (file_of t =? file_of s)) (pawn_attack_targets c s).

Lemma pawn_geom_all : forallb (fun c => forallb (pawn_geom_ok c) squares64) [0; 1] = true.
Proof. vm_compute. reflexivity. Qed.

Lemma pawn_geom c s : c < 2 -> s < 64 -> pawn_geom_ok c s = true.
Proof.
  intros Hc Hs. pose proof pawn_geom_all as H. rewrite forallb_forall in H.
  assert (Hin : In c [0;1]) by (cbn; lia). exact (forall_squares _ (H c Hin) s Hs).
Qed.

Lemma push_geom c s t : c < 2 -> s < 64 -> step (fwd c) s = Some t ->
  file_of t = file_of s /\ t <> s /\ zabs_diff (rank_of s) (rank_of t) = 1.
Proof.
  intros Hc Hs E. pose proof (pawn_geom c s Hc Hs) as H. unfold pawn_geom_ok in H. rewrite E in H.
  apply andb_true_iff in H as [H _]. destruct (step (fwd c) t);
    repeat (apply andb_true_iff in H as [H ?]); repeat split; lia.
Qed.

Lemma double_geom c s t u : c < 2 -> s < 64 -> step (fwd c) s = Some t -> step (fwd c) t = Some u ->
  file_of u = file_of s /\ u <> t /\ zabs_diff (rank_of s) (rank_of u) = 2.
Proof.
  intros Hc Hs E E2. pose proof (pawn_geom c s Hc Hs) as H. unfold pawn_geom_ok in H. rewrite E, E2 in H.
  apply andb_true_iff in H as [H _]. repeat (apply andb_true_iff in H as [H ?]). repeat split; lia.
Qed.

Lemma capture_geom c s t : c < 2 -> s < 64 -> In t (pawn_attack_targets c s) -> file_of t <> file_of s.
Proof.
  intros Hc Hs Hin. pose proof (pawn_geom c s Hc Hs) as H. unfold pawn_geom_ok in H.
  apply andb_true_iff in H as [_ H]. rewrite forallb_forall in H. specialize (H t Hin). lia.
Qed.

(* the moves of a pawn arriving on t *)
Definition adv (c s t : N) : list mv :=
  if rank_of t =? last_rank c then promos s t else [mkmv s t NORMAL 3].

Lemma adv_in c s t m : In m (adv c s t) ->
  mfrom m = s /\ mto m = t /\
  ((rank_of t = last_rank c /\ mtype m = PROMOTION /\ 3 <= mprom m <= 6) \/
   (rank_of t <> last_rank c /\ mtype m = NORMAL /\ mprom m = 3)).
Proof.
  unfold adv. destruct (N.eqb_spec (rank_of t) (last_rank c)) as [E|E].
  - unfold promos. cbn [In]. intros [<-|[<-|[<-|[<-|[]]]]]; cbn [mfrom mto mtype mprom];
      (split; [reflexivity|split; [reflexivity|left; unfold QUEEN, ROOK, BISHOP, KNIGHT;
        split; [exact E|split; [reflexivity|lia]]]]).
  - cbn [In]. intros [<-|[]]. cbn [mfrom mto mtype mprom].
    split; [reflexivity|split; [reflexivity|right; auto]].
Qed.

Lemma adv_nodup c s t : NoDup (adv c s t).
Proof.
  unfold adv. destruct (rank_of t =? last_rank c).
  - unfold promos. repeat constructor; cbn; intuition discriminate.
  - repeat constructor. intros [].
Qed.

(* the push part and the capture part of [Rules.pawn_moves] *)
Definition pawn_pushes (p : pos) (s : N) : list mv :=
  let b := brd p in let c := stm p in
  match step (fwd c) s with
  | Some t => if at_ b t =? 0 then
                adv c s t ++
                (if rank_of s =? start_rank c then
                   match step (fwd c) t with
                   | Some u => if at_ b u =? 0 then [mkmv s u NORMAL 3] else []
                   | None => [] end
                 else [])
              else []
  | None => [] end.

Definition pawn_capture_at (p : pos) (s t : N) : list mv :=
  if enemy (brd p) (stm p) t then adv (stm p) s t
  else if (t =? ep p) && (at_ (brd p) t =? 0) then [mkmv s t ENPASSANT 3] else [].

Lemma pawn_moves_split p s :
  pawn_moves p s = pawn_pushes p s ++ flat_map (pawn_capture_at p s) (pawn_attack_targets (stm p) s).
Proof. reflexivity. Qed.

Lemma pawn_pushes_in p s m : stm p < 2 -> s < 64 -> In m (pawn_pushes p s) ->
  mfrom m = s /\ file_of (mto m) = file_of s /\ mto m < 64 /\ mtype m < 2 /\ 3 <= mprom m <= 6.
Proof.
  intros Hc Hs. unfold pawn_pushes.
  destruct (step (fwd (stm p)) s) as [t|] eqn:E; [|intros []].
  destruct (push_geom _ _ _ Hc Hs E) as (G1 & G2 & G3).
  assert (Ht : t < 64) by now apply step_lt in E.
  destruct (at_ (brd p) t =? 0); [|intros []].
  intros H. apply in_app_or in H as [H|H].
  - apply adv_in in H as (A1 & A2 & A3). rewrite A1, A2. repeat split; try assumption;
      destruct A3 as [(_ & B1 & B2)|(_ & B1 & B2)]; rewrite ?B1, ?B2; unfold PROMOTION, NORMAL; lia.
  - destruct (rank_of s =? start_rank (stm p)); [|destruct H].
    destruct (step (fwd (stm p)) t) as [u|] eqn:E2; [|destruct H].
    destruct (double_geom _ _ _ _ Hc Hs E E2) as (D1 & D2 & D3).
    assert (Hu : u < 64) by now apply step_lt in E2.
    destruct (at_ (brd p) u =? 0); [|destruct H]. destruct H as [<-|[]]. cbn.
    repeat split; try assumption; unfold NORMAL; lia.
Qed.

Lemma pawn_pushes_nodup p s : stm p < 2 -> s < 64 -> NoDup (pawn_pushes p s).
Proof.
  intros Hc Hs. unfold pawn_pushes.
  destruct (step (fwd (stm p)) s) as [t|] eqn:E; [|constructor].
  destruct (at_ (brd p) t =? 0); [|constructor].
  apply nodup_app; [apply adv_nodup| |].
  - destruct (rank_of s =? start_rank (stm p)); [|constructor].
    destruct (step (fwd (stm p)) t) as [u|]; [|constructor].
    destruct (at_ (brd p) u =? 0); repeat constructor. intros [].
  - intros m H1 H2. apply adv_in in H1 as (_ & A2 & _).
    destruct (rank_of s =? start_rank (stm p)); [|destruct H2].
    destruct (step (fwd (stm p)) t) as [u|] eqn:E2; [|destruct H2].
    destruct (double_geom _ _ _ _ Hc Hs E E2) as (_ & D2 & _).
    destruct (at_ (brd p) u =? 0); [|destruct H2]. destruct H2 as [<-|[]]. cbn in A2. congruence.
Qed.

Lemma pawn_capture_at_in p s t m : In m (pawn_capture_at p s t) ->
  mfrom m = s /\ mto m = t /\ mtype m < 3 /\ 3 <= mprom m <= 6.
Proof.
  unfold pawn_capture_at. destruct (enemy (brd p) (stm p) t).
  - intros H. apply adv_in in H as (A1 & A2 & A3). repeat split; try assumption;
      destruct A3 as [(_ & B1 & B2)|(_ & B1 & B2)]; rewrite ?B1, ?B2; unfold PROMOTION, NORMAL; lia.
  - destruct ((t =? ep p) && (at_ (brd p) t =? 0)); [|intros []].
    intros [<-|[]]. cbn. unfold ENPASSANT. repeat split; lia.
Qed.

Lemma pawn_capture_at_nodup p s t : NoDup (pawn_capture_at p s t).
Proof.
  unfold pawn_capture_at. destruct (enemy (brd p) (stm p) t); [apply adv_nodup|].
  destruct ((t =? ep p) && (at_ (brd p) t =? 0)); repeat constructor. intros [].
Qed.

Lemma pawn_moves_nodup p s : stm p < 2 -> s < 64 -> NoDup (pawn_moves p s).
Proof.
  intros Hc Hs. rewrite pawn_moves_split. apply nodup_app.
  - now apply pawn_pushes_nodup.
  - apply (nodup_flat_map_key mto).
    + now apply pawn_targets_nodup.
    + intros t _. apply pawn_capture_at_nodup.
    + intros t m _ Hm. now apply pawn_capture_at_in in Hm.
  - intros m H1 H2. apply (pawn_pushes_in p s m Hc Hs) in H1 as (_ & F & _).
    apply in_flat_map in H2 as [t [Ht H2]]. apply pawn_capture_at_in in H2 as (_ & A2 & _).
    apply (capture_geom _ _ _ Hc Hs) in Ht. congruence.
Qed.

Lemma pawn_moves_in p s m : stm p < 2 -> s < 64 -> In m (pawn_moves p s) ->
  mfrom m = s /\ mto m < 64 /\ mtype m < 3 /\ 3 <= mprom m <= 6.
Proof.
  intros Hc Hs. rewrite pawn_moves_split. intros H. apply in_app_or in H as [H|H].
  - apply (pawn_pushes_in p s m Hc Hs) in H as (A & _ & B & C & D). repeat split; try assumption; lia.
  - apply in_flat_map in H as [t [Ht H]]. apply pawn_capture_at_in in H as (A1 & A2 & A3 & A4).
    apply pawn_targets_lt in Ht. rewrite A2. repeat split; assumption.
Qed.

(** ** castling *)
Definition castle_ok (p : pos) (x : N * N * N * N * list N) : bool :=
  let '(kf, kt, rf, bit, empties) := x in
  negb (N.land (cr p) bit =? 0) && is_piece (brd p) kf (stm p) KING && is_piece (brd p) rf (stm p) ROOK
  && forallb (fun s => at_ (brd p) s =? 0) empties.

Lemma castle_moves_in p m : In m (castle_moves p) <->
  exists kf kt rf bit empties, In (kf, kt, rf, bit, empties) (castles (stm p)) /\
    castle_ok p (kf, kt, rf, bit, empties) = true /\ m = mkmv kf kt CASTLING 3.
Proof.
  unfold castle_moves. rewrite in_flat_map. split.
  - intros [[[[[kf kt] rf] bit] empties] [Hin H]]. exists kf, kt, rf, bit, empties.
    unfold castle_ok. destruct (_ && _ && _ && _); [|destruct H]. destruct H as [<-|[]]. auto.
  - intros (kf & kt & rf & bit & empties & Hin & Hok & ->). exists (kf, kt, rf, bit, empties).
    split; [exact Hin|]. unfold castle_ok in Hok. rewrite Hok. now left.
Qed.

Lemma castles_in c x : In x (castles c) ->
  x = (4, 6, 7, 1, [5; 6]) \/ x = (4, 2, 0, 2, [1; 2; 3]) \/
  x = (60, 62, 63, 4, [61; 62]) \/ x = (60, 58, 56, 8, [57; 58; 59]).
Proof. unfold castles. destruct (c =? WHITE); cbn [In]; intuition. Qed.

Lemma castle_moves_valid p m : In m (castle_moves p) -> valid_mv m /\ mtype m = CASTLING.
Proof.
  intros H. apply castle_moves_in in H as (kf & kt & rf & bit & empties & Hin & _ & ->).
  apply castles_in in Hin. unfold valid_mv. cbn [mfrom mto mtype mprom].
  decompose [or] Hin; match goal with H : (_, _, _, _, _) = _ |- _ => injection H as -> -> -> -> -> end;
    unfold CASTLING; repeat split; lia.
Qed.

Lemma castle_moves_nodup p : NoDup (castle_moves p).
Proof.
  unfold castle_moves, castles. destruct (stm p =? WHITE); cbn [flat_map]; rewrite app_nil_r;
    repeat match goal with |- context [if ?c then _ else _] => destruct c end;
    cbn [app]; repeat constructor; cbn [In]; intuition discriminate.
Qed.

(** ** the shape of pseudo-legal moves *)
Lemma in_pseudo p m : In m (pseudo p) <-> (exists s, s < 64 /\ In m (piece_moves p s)) \/ In m (castle_moves p).
Proof.
  unfold pseudo. rewrite in_app_iff, in_flat_map. split; intros [H|H]; auto; left.
  - destruct H as [s [Hs H]]. exists s. split; [now apply in_squares64|exact H].
  - destruct H as [s [Hs H]]. exists s. split; [now apply in_squares64|exact H].
Qed.

(* a non-empty [piece_moves p s] means an own piece on s *)
Lemma piece_moves_owner p s m : wfp p -> In m (piece_moves p s) ->
  exists ty, 1 <= ty <= 6 /\ at_ (brd p) s = mk_piece (stm p) ty.
Proof.
  intros Hw Hm.
  destruct (N.eqb_spec (at_ (brd p) s) 0) as [E|E].
  { rewrite piece_moves_other in Hm by now left. destruct Hm. }
  destruct (N.eq_dec (colour_of (at_ (brd p) s)) (stm p)) as [Ec|Ec].
  2:{ rewrite piece_moves_other in Hm by now right. destruct Hm. }
  destruct (piece_split _ (wf_codes p Hw s) E) as (Hsp & _ & Hty).
  exists (type_of (at_ (brd p) s)). split; [exact Hty|]. now rewrite <- Ec.
Qed.

Inductive pshape (p : pos) : mv -> Prop :=
| ps_simple s t ty : s < 64 -> 3 <= ty <= 6 \/ ty = KING -> at_ (brd p) s = mk_piece (stm p) ty ->
    In t (spec_targets (brd p) ty s) -> free_or_enemy (brd p) (stm p) t = true ->
    pshape p (mkmv s t NORMAL 3)
| ps_pawn s m : s < 64 -> at_ (brd p) s = mk_piece (stm p) PAWN -> In m (pawn_moves p s) -> pshape p m
| ps_castle m : In m (castle_moves p) -> pshape p m.

Lemma pseudo_shape p m : wfp p -> In m (pseudo p) -> pshape p m.
Proof.
  intros Hw H. apply in_pseudo in H as [[s [Hs H]]|H]; [|now apply ps_castle].
  destruct (piece_moves_owner p s m Hw H) as [ty [Hty E]].
  rewrite (piece_moves_own p s ty Hty E) in H.
  destruct (N.eqb_spec ty PAWN) as [->|Hp].
  - now apply (ps_pawn p s).
  - unfold simple_moves in H. apply in_map_iff in H as [t [<- Ht]]. apply filter_In in Ht as [Ht1 Ht2].
    apply (ps_simple p s t ty); try assumption. unfold PAWN, KING in *. lia.
Qed.

Lemma pseudo_of_shape p m : pshape p m -> In m (pseudo p).
Proof.
  intros H. apply in_pseudo. destruct H as [s t ty Hs Hty E Ht Hf|s m Hs E Hm|m Hm]; [left|left|now right].
  - exists s. split; [exact Hs|]. rewrite (piece_moves_own p s ty) by (unfold KING in *; lia || exact E).
    replace (ty =? PAWN) with false by (unfold PAWN, KING in *; lia).
    unfold simple_moves. apply in_map_iff. exists t. split; [reflexivity|]. now apply filter_In.
  - exists s. split; [exact Hs|]. rewrite (piece_moves_own p s PAWN) by (unfold PAWN; lia || exact E).
    exact Hm.
Qed.

Lemma pseudo_valid p m : wfp p -> In m (pseudo p) -> valid_mv m.
Proof.
  intros Hw H. apply (pseudo_shape p m Hw) in H.
  destruct H as [s t ty Hs Hty E Ht Hf|s m Hs E Hm|m Hm].
  - apply spec_targets_lt in Ht. unfold valid_mv, NORMAL. cbn. lia.
  - destruct (pawn_moves_in p s m (wf_stm p Hw) Hs Hm) as (A & B & C & D).
    unfold valid_mv. rewrite A. repeat split; try assumption; lia.
  - now apply castle_moves_valid in Hm.
Qed.

Lemma piece_moves_from p s m : wfp p -> s < 64 -> In m (piece_moves p s) -> mfrom m = s /\ mtype m <> CASTLING.
Proof.
  intros Hw Hs H. destruct (piece_moves_owner p s m Hw H) as [ty [Hty E]].
  rewrite (piece_moves_own p s ty Hty E) in H.
  destruct (ty =? PAWN).
  - destruct (pawn_moves_in p s m (wf_stm p Hw) Hs H) as (A & _ & C & _). split; [exact A|]. unfold CASTLING. lia.
  - unfold simple_moves in H. apply in_map_iff in H as [t [<- _]]. cbn. split; [reflexivity|discriminate].
Qed.

Lemma piece_moves_nodup p s : wfp p -> s < 64 -> NoDup (piece_moves p s).
Proof.
  intros Hw Hs.
  destruct (N.eqb_spec (at_ (brd p) s) 0) as [E|E].
  { rewrite piece_moves_other by now left. constructor. }
  destruct (N.eq_dec (colour_of (at_ (brd p) s)) (stm p)) as [Ec|Ec].
  2:{ rewrite piece_moves_other by now right. constructor. }
  destruct (piece_split _ (wf_codes p Hw s) E) as (Hsp & _ & Hty).
  rewrite Ec in Hsp. rewrite (piece_moves_own p s _ Hty Hsp).
  destruct (type_of (at_ (brd p) s) =? PAWN).
  - apply pawn_moves_nodup; [exact (wf_stm p Hw)|exact Hs].
  - unfold simple_moves. apply nodup_map_inj.
    + intros x y _ _ H. now injection H.
    + apply NoDup_filter. now apply spec_targets_nodup.
Qed.

Lemma squares64_nodup : NoDup squares64.
Proof. apply nodupb_sound. vm_compute. reflexivity. Qed.

Theorem pseudo_nodup p : wfp p -> NoDup (pseudo p).
Proof.
  intros Hw. unfold pseudo. apply nodup_app.
  - apply (nodup_flat_map_key mfrom).
    + exact squares64_nodup.
    + intros s Hs. apply piece_moves_nodup; [exact Hw|now apply in_squares64].
    + intros s m Hs Hm. apply in_squares64 in Hs. now apply (piece_moves_from p s m Hw Hs).
  - apply castle_moves_nodup.
  - intros m H1 H2. apply in_flat_map in H1 as [s [Hs H1]]. apply in_squares64 in Hs.
    apply (piece_moves_from p s m Hw Hs) in H1 as [_ H1]. apply castle_moves_valid in H2 as [_ H2]. congruence.
Qed.

Theorem pseudo_codes_nodup p : wfp p -> NoDup (map code (pseudo p)).
Proof.
  intros Hw. apply nodup_map_inj; [|now apply pseudo_nodup].
  intros x y Hx Hy. apply code_inj; now apply (pseudo_valid p).
Qed.

(** ** the classes of moves, in the engine's generation order
    0 pawn captures (with promotion captures)   1 en passant
    2 queen/knight push promotions when UsePromNonQuiet
    3 king captures   4 officer captures
    5 the other push promotions   6 pawn double steps   7 pawn single steps
    8 castling   9 king non captures   10 officer non captures *)
Definition mover (p : pos) (m : mv) : N := type_of (piece_at p (mfrom m)).

Definition cls (prom_nq : bool) (p : pos) (m : mv) : N :=
  if mtype m =? CASTLING then 8 else if mtype m =? ENPASSANT then 1 else
  if mover p m =? PAWN then
    if file_of (mfrom m) =? file_of (mto m) then
      if mtype m =? PROMOTION then
        (if prom_nq && ((mprom m =? QUEEN) || (mprom m =? KNIGHT)) then 2 else 5)
      else if zabs_diff (rank_of (mfrom m)) (rank_of (mto m)) =? 2 then 6 else 7
    else 0
  else if mover p m =? KING then (if piece_at p (mto m) =? 0 then 9 else 3)
  else (if piece_at p (mto m) =? 0 then 10 else 4).

Lemma cls_lt prom_nq p m : cls prom_nq p m < 11.
Proof. unfold cls. repeat match goal with |- context [if ?c then _ else _] => destruct c end; lia. Qed.

Definition class_codes (prom_nq : bool) (p : pos) (k : nat) : list N :=
  map code (filter (fun m => cls prom_nq p m =? N.of_nat k) (pseudo p)).

Theorem pseudo_classes_perm prom_nq p :
  Permutation (map code (pseudo p)) (concat (map (class_codes prom_nq p) (seq 0 11))).
Proof.
  unfold class_codes. rewrite <- (classes_map_concat (cls prom_nq p) code 11 (pseudo p)).
  apply Permutation_map. apply classes_perm. intros m _. apply cls_lt.
Qed.

Lemma class_codes_nodup prom_nq p k : wfp p -> NoDup (class_codes prom_nq p k).
Proof. intros Hw. unfold class_codes. apply nodup_filter_map. now apply pseudo_codes_nodup. Qed.

Lemma class_codes_in prom_nq p k c :
  In c (class_codes prom_nq p k) <-> exists m, In m (pseudo p) /\ cls prom_nq p m = N.of_nat k /\ code m = c.
Proof.
  unfold class_codes. rewrite in_map_filter. split; intros [m [H1 [H2 H3]]]; exists m; repeat split; auto.
  - now apply N.eqb_eq in H2.
  - now apply N.eqb_eq.
Qed.

(* non-quiet = classes 0..4, as a predicate on specification moves
   (captures, en passant, and the queen/knight push promotions with UsePromNonQuiet) *)
Definition nonquiet_spec (prom_nq : bool) (p : pos) (m : mv) : bool := cls prom_nq p m <? 5.
