(** * MovegenSpec: facts about the rules specification [Rules.pseudo] needed to compare it
      with the bitboard generator (C01, C08).  Nothing here mentions the engine model.

    - [pseudo_shape] / [pseudo_of_shape]: what the elements of [pseudo p] look like;
    - [pseudo_valid]: every pseudo-legal move has squares < 64, a move type < 4 and a
      promotion piece 3..6, so [Rules.code] is injective on them ([pseudo_codes_nodup]);
    - [pseudo_nodup]: the specification lists no move twice;
    - [cls]: the eleven classes of moves in the order in which the engine generates them. *)
From Coq Require Import NArith ZArith List Bool Lia ZifyN ZifyBool Permutation.
From FG Require Import Word64 Geom Tables TablesCorrect ShiftCorrect Rules BitView
                       AttacksImpl AttacksLemmas MoveEnc SqListFacts MovegenImpl MovegenLemmas.
Import ListNotations.
Open Scope N_scope.

(** ** targets of the non-pawn pieces *)
Definition spec_targets (b : list N) (ty s : N) : list N :=
  if ty =? KNIGHT then knight_targets s
  else if ty =? KING then king_targets s
  else if ty =? ROOK then rays_from b rook_dirs s
  else if ty =? BISHOP then rays_from b bishop_dirs s
  else if ty =? QUEEN then rays_from b all_dirs s
  else [].

Definition simple_moves (b : list N) (c s : N) (ts : list N) : list mv :=
  map (fun t => mkmv s t NORMAL 3) (filter (free_or_enemy b c) ts).

Lemma piece_moves_other p s : at_ (brd p) s = 0 \/ colour_of (at_ (brd p) s) <> stm p -> piece_moves p s = [].
Proof.
  intros H. unfold piece_moves.
  destruct (N.eqb_spec (at_ (brd p) s) 0) as [E|E]; cbn [orb]; [reflexivity|].
  destruct H as [H|H]; [congruence|]. apply N.eqb_neq in H. now rewrite H.
Qed.

Lemma piece_moves_own p s ty : 1 <= ty <= 6 -> at_ (brd p) s = mk_piece (stm p) ty ->
  piece_moves p s = if ty =? PAWN then pawn_moves p s else simple_moves (brd p) (stm p) s (spec_targets (brd p) ty s).
Proof.
  intros Hty E. unfold piece_moves. rewrite E.
  rewrite mk_piece_colour, mk_piece_type by lia. rewrite N.eqb_refl.
  replace (mk_piece (stm p) ty =? 0) with false by (unfold mk_piece; lia). cbn [orb negb].
  unfold spec_targets, simple_moves.
  assert (H : ty = 1 \/ ty = 2 \/ ty = 3 \/ ty = 4 \/ ty = 5 \/ ty = 6) by lia.
  decompose [or] H; subst ty; reflexivity.
Qed.

(** ** finite facts about target lists *)
Fixpoint nodupb (l : list N) : bool :=
  match l with [] => true | x :: r => negb (existsb (N.eqb x) r) && nodupb r end.
Lemma nodupb_sound l : nodupb l = true -> NoDup l.
Proof.
  induction l as [|x l IH]; cbn [nodupb]; intros H; [constructor|].
  apply andb_true_iff in H as [H1 H2]. constructor; [|now apply IH].
  intros Hi. apply existsb_eqb_In in Hi. now rewrite Hi in H1.
Qed.

Lemma knight_targets_nodup s : s < 64 -> NoDup (knight_targets s).
Proof.
  intros Hs. apply nodupb_sound.
  assert (H : forallb (fun s => nodupb (knight_targets s)) squares64 = true) by (vm_compute; reflexivity).
  exact (forall_squares _ H s Hs).
Qed.
Lemma king_targets_nodup s : s < 64 -> NoDup (king_targets s).
Proof.
  intros Hs. apply nodupb_sound.
  assert (H : forallb (fun s => nodupb (king_targets s)) squares64 = true) by (vm_compute; reflexivity).
  exact (forall_squares _ H s Hs).
Qed.
Lemma pawn_targets_nodup c s : c < 2 -> s < 64 -> NoDup (pawn_attack_targets c s).
Proof.
  intros Hc Hs. apply nodupb_sound.
  assert (H : forallb (fun c => forallb (fun s => nodupb (pawn_attack_targets c s)) squares64) [0;1] = true)
    by (vm_compute; reflexivity).
  rewrite forallb_forall in H. assert (Hin : In c [0;1]) by (cbn; lia).
  exact (forall_squares _ (H c Hin) s Hs).
Qed.

(* rays on the empty board *)
Lemma empty_rays_nodup dirs s : (dirs = rook_dirs \/ dirs = bishop_dirs \/ dirs = all_dirs) -> s < 64 ->
  NoDup (concat (map (fun d => walk 7 d s 0) dirs)).
Proof.
  intros Hd Hs. apply nodupb_sound.
  assert (H : forallb (fun dirs => forallb (fun s => nodupb (concat (map (fun d => walk 7 d s 0) dirs))) squares64)
                      [rook_dirs; bishop_dirs; all_dirs] = true) by (vm_compute; reflexivity).
  rewrite forallb_forall in H.
  assert (Hin : In dirs [rook_dirs; bishop_dirs; all_dirs]) by (destruct Hd as [->|[->| ->]]; cbn [In]; auto).
  exact (forall_squares _ (H dirs Hin) s Hs).
Qed.

Lemma walk_prefix occ d : forall k s, exists r, walk k d s 0 = walk k d s occ ++ r.
Proof.
  induction k as [|k IH]; intros s; cbn [walk]; [now exists []|].
  destruct (step d s) as [t|]; [|now exists []].
  rewrite N.bits_0. destruct (N.testbit occ t).
  - exists (walk k d t 0). reflexivity.
  - destruct (IH t) as [r Hr]. exists r. cbn [app]. now rewrite Hr.
Qed.

Lemma nodup_concat_prefixes {A} (f g : A -> list N) (l : list A) :
  (forall d, exists r, g d = f d ++ r) -> NoDup (concat (map g l)) -> NoDup (concat (map f l)).
Proof.
  intros Hp. induction l as [|d l IH]; cbn [map concat]; intros H; [constructor|].
  apply nodup_app_inv in H as (H1 & H2 & H3). destruct (Hp d) as [r Hr].
  assert (Hincl : forall x, In x (concat (map f l)) -> In x (concat (map g l))).
  { intros x Hx. apply in_concat in Hx as [L [HL Hx]]. apply in_map_iff in HL as [e [<- He]].
    apply in_concat. exists (g e). split; [apply in_map_iff; now exists e|].
    destruct (Hp e) as [r' Hr']. rewrite Hr'. apply in_or_app. now left. }
  apply nodup_app.
  - rewrite Hr in H1. now apply nodup_app_inv in H1.
  - now apply IH.
  - intros x Hx1 Hx2. apply (H3 x); [rewrite Hr; apply in_or_app; now left|now apply Hincl].
Qed.

Lemma rays_nodup b dirs s : (dirs = rook_dirs \/ dirs = bishop_dirs \/ dirs = all_dirs) -> s < 64 ->
  NoDup (rays_from b dirs s).
Proof.
  intros Hd Hs. unfold rays_from.
  apply (nodup_concat_prefixes (fun d => walkb 7 b d s) (fun d => walk 7 d s 0)).
  - intros d. rewrite <- walk_walkb. apply walk_prefix.
  - now apply empty_rays_nodup.
Qed.

Lemma spec_targets_nodup b ty s : s < 64 -> NoDup (spec_targets b ty s).
Proof.
  intros Hs. unfold spec_targets.
  destruct (ty =? KNIGHT); [now apply knight_targets_nodup|].
  destruct (ty =? KING); [now apply king_targets_nodup|].
  destruct (ty =? ROOK); [apply rays_nodup; auto|].
  destruct (ty =? BISHOP); [apply rays_nodup; auto|].
  destruct (ty =? QUEEN); [apply rays_nodup; auto|constructor].
Qed.

Lemma spec_targets_lt b ty s t : In t (spec_targets b ty s) -> t < 64.
Proof.
  unfold spec_targets.
  destruct (ty =? KNIGHT); [apply knight_targets_lt|].
  destruct (ty =? KING); [apply king_targets_lt|].
  destruct (ty =? ROOK); [apply rays_from_lt|].
  destruct (ty =? BISHOP); [apply rays_from_lt|].
  destruct (ty =? QUEEN); [apply rays_from_lt|intros []].
Qed.

(** ** pawn moves *)
(* finite facts about pawn geometry; [fwd c] is north for White, south for Black *)
Definition pawn_geom_ok (c s : N) : bool :=
  match step (fwd c) s with
  | Some t => (file_of t =? file_of s) && negb (t =? s) &&
              (zabs_diff (rank_of s) (rank_of t) =? 1) &&
              match step (fwd c) t with
              | Some u => (file_of u =? file_of s) && negb (u =? t) && (zabs_diff (rank_of s) (rank_of u) =? 2)
              | None => true end
  | None => true end &&
  forallb (fun t => negb (file_of t =? file_of s)) (pawn_attack_targets c s).

Lemma pawn_geom_all : forallb (fun c => forallb (pawn_geom_ok c) squares64) [0; 1] = true.
Proof. vm_compute. reflexivity. Qed.

Lemma pawn_geom c s : c < 2 -> s < 64 -> pawn_geom_ok c s = true.
Proof.
  intros Hc Hs. pose proof pawn_geom_all as H. rewrite forallb_forall in H.
  assert (Hin : In c [0;1]) by (cbn; lia). exact (forall_squares _ (H c Hin) s Hs).
Qed.

Lemma push_geom c s t : c < 2 -> s < 64 -> step (fwd c) s = Some t ->
  file_of t = file_of s /\ t <> s /\ zabs_diff (rank_of s) (rank_of t) = 1.
Proof.
  intros Hc Hs E. pose proof (pawn_geom c s Hc Hs) as H. unfold pawn_geom_ok in H. rewrite E in H.
  apply andb_true_iff in H as [H _]. destruct (step (fwd c) t);
    repeat (apply andb_true_iff in H as [H ?]); repeat split; lia.
Qed.

Lemma double_geom c s t u : c < 2 -> s < 64 -> step (fwd c) s = Some t -> step (fwd c) t = Some u ->
  file_of u = file_of s /\ u <> t /\ zabs_diff (rank_of s) (rank_of u) = 2.
Proof.
  intros Hc Hs E E2. pose proof (pawn_geom c s Hc Hs) as H. unfold pawn_geom_ok in H. rewrite E, E2 in H.
  apply andb_true_iff in H as [H _]. repeat (apply andb_true_iff in H as [H ?]). repeat split; lia.
Qed.

Lemma capture_geom c s t : c < 2 -> s < 64 -> In t (pawn_attack_targets c s) -> file_of t <> file_of s.
Proof.
  intros Hc Hs Hin. pose proof (pawn_geom c s Hc Hs) as H. unfold pawn_geom_ok in H.
  apply andb_true_iff in H as [_ H]. rewrite forallb_forall in H. specialize (H t Hin). lia.
Qed.

(* the moves of a pawn arriving on t *)
Definition adv (c s t : N) : list mv :=
  if rank_of t =? last_rank c then promos s t else [mkmv s t NORMAL 3].

Lemma adv_in c s t m : In m (adv c s t) ->
  mfrom m = s /\ mto m = t /\
  ((rank_of t = last_rank c /\ mtype m = PROMOTION /\ 3 <= mprom m <= 6) \/
   (rank_of t <> last_rank c /\ mtype m = NORMAL /\ mprom m = 3)).
Proof.
  unfold adv. destruct (N.eqb_spec (rank_of t) (last_rank c)) as [E|E].
  - unfold promos. cbn [In]. intros [<-|[<-|[<-|[<-|[]]]]]; cbn [mfrom mto mtype mprom];
      (split; [reflexivity|split; [reflexivity|left; unfold QUEEN, ROOK, BISHOP, KNIGHT;
        split; [exact E|split; [reflexivity|lia]]]]).
  - cbn [In]. intros [<-|[]]. cbn [mfrom mto mtype mprom].
    split; [reflexivity|split; [reflexivity|right; auto]].
Qed.

Lemma adv_nodup c s t : NoDup (adv c s t).
Proof.
  unfold adv. destruct (rank_of t =? last_rank c).
  - unfold promos. repeat constructor; cbn; intuition discriminate.
  - repeat constructor. intros [].
Qed.

(* the push part and the capture part of [Rules.pawn_moves] *)
Definition pawn_pushes (p : pos) (s : N) : list mv :=
  let b := brd p in let c := stm p in
  match step (fwd c) s with
  | Some t => if at_ b t =? 0 then
                adv c s t ++
                (if rank_of s =? start_rank c then
                   match step (fwd c) t with
                   | Some u => if at_ b u =? 0 then [mkmv s u NORMAL 3] else []
                   | None => [] end
                 else [])
              else []
  | None => [] end.

Definition pawn_capture_at (p : pos) (s t : N) : list mv :=
  if enemy (brd p) (stm p) t then adv (stm p) s t
  else if (t =? ep p) && (at_ (brd p) t =? 0) then [mkmv s t ENPASSANT 3] else [].

Lemma pawn_moves_split p s :
  pawn_moves p s = pawn_pushes p s ++ flat_map (pawn_capture_at p s) (pawn_attack_targets (stm p) s).
Proof. reflexivity. Qed.

Lemma pawn_pushes_in p s m : stm p < 2 -> s < 64 -> In m (pawn_pushes p s) ->
  mfrom m = s /\ file_of (mto m) = file_of s /\ mto m < 64 /\ mtype m < 2 /\ 3 <= mprom m <= 6.
Proof.
  intros Hc Hs. unfold pawn_pushes.
  destruct (step (fwd (stm p)) s) as [t|] eqn:E; [|intros []].
  destruct (push_geom _ _ _ Hc Hs E) as (G1 & G2 & G3).
  assert (Ht : t < 64) by now apply step_lt in E.
  destruct (at_ (brd p) t =? 0); [|intros []].
  intros H. apply in_app_or in H as [H|H].
  - apply adv_in in H as (A1 & A2 & A3). rewrite A1, A2. repeat split; try assumption;
      destruct A3 as [(_ & B1 & B2)|(_ & B1 & B2)]; rewrite ?B1, ?B2; unfold PROMOTION, NORMAL; lia.
  - destruct (rank_of s =? start_rank (stm p)); [|destruct H].
    destruct (step (fwd (stm p)) t) as [u|] eqn:E2; [|destruct H].
    destruct (double_geom _ _ _ _ Hc Hs E E2) as (D1 & D2 & D3).
    assert (Hu : u < 64) by now apply step_lt in E2.
    destruct (at_ (brd p) u =? 0); [|destruct H]. destruct H as [<-|[]]. cbn.
    repeat split; try assumption; unfold NORMAL; lia.
Qed.

Lemma pawn_pushes_nodup p s : stm p < 2 -> s < 64 -> NoDup (pawn_pushes p s).
Proof.
  intros Hc Hs. unfold pawn_pushes.
  destruct (step (fwd (stm p)) s) as [t|] eqn:E; [|constructor].
  destruct (at_ (brd p) t =? 0); [|constructor].
  apply nodup_app; [apply adv_nodup| |].
  - destruct (rank_of s =? start_rank (stm p)); [|constructor].
    destruct (step (fwd (stm p)) t) as [u|]; [|constructor].
    destruct (at_ (brd p) u =? 0); repeat constructor. intros [].
  - intros m H1 H2. apply adv_in in H1 as (_ & A2 & _).
    destruct (rank_of s =? start_rank (stm p)); [|destruct H2].
    destruct (step (fwd (stm p)) t) as [u|] eqn:E2; [|destruct H2].
    destruct (double_geom _ _ _ _ Hc Hs E E2) as (_ & D2 & _).
    destruct (at_ (brd p) u =? 0); [|destruct H2]. destruct H2 as [<-|[]]. cbn in A2. congruence.
Qed.

Lemma pawn_capture_at_in p s t m : In m (pawn_capture_at p s t) ->
  mfrom m = s /\ mto m = t /\ mtype m < 3 /\ 3 <= mprom m <= 6.
Proof.
  unfold pawn_capture_at. destruct (enemy (brd p) (stm p) t).
  - intros H. apply adv_in in H as (A1 & A2 & A3). repeat split; try assumption;
      destruct A3 as [(_ & B1 & B2)|(_ & B1 & B2)]; rewrite ?B1, ?B2; unfold PROMOTION, NORMAL; lia.
  - destruct ((t =? ep p) && (at_ (brd p) t =? 0)); [|intros []].
    intros [<-|[]]. cbn. unfold ENPASSANT. repeat split; lia.
Qed.

Lemma pawn_capture_at_nodup p s t : NoDup (pawn_capture_at p s t).
Proof.
  unfold pawn_capture_at. destruct (enemy (brd p) (stm p) t); [apply adv_nodup|].
  destruct ((t =? ep p) && (at_ (brd p) t =? 0)); repeat constructor. intros [].
Qed.

Lemma pawn_moves_nodup p s : stm p < 2 -> s < 64 -> NoDup (pawn_moves p s).
Proof.
  intros Hc Hs. rewrite pawn_moves_split. apply nodup_app.
  - now apply pawn_pushes_nodup.
  - apply (nodup_flat_map_key mto).
    + now apply pawn_targets_nodup.
    + intros t _. apply pawn_capture_at_nodup.
    + intros t m _ Hm. now apply pawn_capture_at_in in Hm.
  - intros m H1 H2. apply (pawn_pushes_in p s m Hc Hs) in H1 as (_ & F & _).
    apply in_flat_map in H2 as [t [Ht H2]]. apply pawn_capture_at_in in H2 as (_ & A2 & _).
    apply (capture_geom _ _ _ Hc Hs) in Ht. congruence.
Qed.

Lemma pawn_moves_in p s m : stm p < 2 -> s < 64 -> In m (pawn_moves p s) ->
  mfrom m = s /\ mto m < 64 /\ mtype m < 3 /\ 3 <= mprom m <= 6.
Proof.
  intros Hc Hs. rewrite pawn_moves_split. intros H. apply in_app_or in H as [H|H].
  - apply (pawn_pushes_in p s m Hc Hs) in H as (A & _ & B & C & D). repeat split; try assumption; lia.
  - apply in_flat_map in H as [t [Ht H]]. apply pawn_capture_at_in in H as (A1 & A2 & A3 & A4).
    apply pawn_targets_lt in Ht. rewrite A2. repeat split; try assumption; lia.
Qed.

(** ** castling *)
Definition castle_ok (p : pos) (x : N * N * N * N * list N) : bool :=
  let '(kf, kt, rf, bit, empties) := x in
  negb (N.land (cr p) bit =? 0) && is_piece (brd p) kf (stm p) KING && is_piece (brd p) rf (stm p) ROOK
  && forallb (fun s => at_ (brd p) s =? 0) empties.

Lemma castle_moves_in p m : In m (castle_moves p) <->
  exists kf kt rf bit empties, In (kf, kt, rf, bit, empties) (castles (stm p)) /\
    castle_ok p (kf, kt, rf, bit, empties) = true /\ m = mkmv kf kt CASTLING 3.
Proof.
  unfold castle_moves. rewrite in_flat_map. split.
  - intros [[[[[kf kt] rf] bit] empties] [Hin H]]. exists kf, kt, rf, bit, empties.
    unfold castle_ok. destruct (_ && _ && _ && _); [|destruct H]. destruct H as [<-|[]]. auto.
  - intros (kf & kt & rf & bit & empties & Hin & Hok & ->). exists (kf, kt, rf, bit, empties).
    split; [exact Hin|]. unfold castle_ok in Hok. rewrite Hok. now left.
Qed.

Lemma castles_in c x : In x (castles c) ->
  x = (4, 6, 7, 1, [5; 6]) \/ x = (4, 2, 0, 2, [1; 2; 3]) \/
  x = (60, 62, 63, 4, [61; 62]) \/ x = (60, 58, 56, 8, [57; 58; 59]).
Proof. unfold castles. destruct (c =? WHITE); cbn [In]; intuition. Qed.

Lemma castle_moves_valid p m : In m (castle_moves p) -> valid_mv m /\ mtype m = CASTLING.
Proof.
  intros H. apply castle_moves_in in H as (kf & kt & rf & bit & empties & Hin & _ & ->).
  apply castles_in in Hin. unfold valid_mv. cbn [mfrom mto mtype mprom].
  decompose [or] Hin; match goal with H : (_, _, _, _, _) = _ |- _ => injection H as -> -> -> -> -> end;
    unfold CASTLING; repeat split; lia.
Qed.

Lemma castle_moves_nodup p : NoDup (castle_moves p).
Proof.
  unfold castle_moves, castles. destruct (stm p =? WHITE); cbn [flat_map]; rewrite app_nil_r;
    repeat match goal with |- context [if ?c then _ else _] => destruct c end;
    cbn [app]; repeat constructor; cbn [In]; intuition discriminate.
Qed.

(** ** the shape of pseudo-legal moves *)
Lemma in_pseudo p m : In m (pseudo p) <-> (exists s, s < 64 /\ In m (piece_moves p s)) \/ In m (castle_moves p).
Proof.
  unfold pseudo. rewrite in_app_iff, in_flat_map. split; intros [H|H]; auto; left.
  - destruct H as [s [Hs H]]. exists s. split; [now apply in_squares64|exact H].
  - destruct H as [s [Hs H]]. exists s. split; [now apply in_squares64|exact H].
Qed.

(* a non-empty [piece_moves p s] means an own piece on s *)
Lemma piece_moves_owner p s m : wfp p -> In m (piece_moves p s) ->
  exists ty, 1 <= ty <= 6 /\ at_ (brd p) s = mk_piece (stm p) ty.
Proof.
  intros Hw Hm.
  destruct (N.eqb_spec (at_ (brd p) s) 0) as [E|E].
  { rewrite piece_moves_other in Hm by now left. destruct Hm. }
  destruct (N.eq_dec (colour_of (at_ (brd p) s)) (stm p)) as [Ec|Ec].
  2:{ rewrite piece_moves_other in Hm by now right. destruct Hm. }
  destruct (piece_split _ (wf_codes p Hw s) E) as (Hsp & _ & Hty).
  exists (type_of (at_ (brd p) s)). split; [exact Hty|]. now rewrite <- Ec.
Qed.

Inductive pshape (p : pos) : mv -> Prop :=
| ps_simple s t ty : s < 64 -> 3 <= ty <= 6 \/ ty = KING -> at_ (brd p) s = mk_piece (stm p) ty ->
    In t (spec_targets (brd p) ty s) -> free_or_enemy (brd p) (stm p) t = true ->
    pshape p (mkmv s t NORMAL 3)
| ps_pawn s m : s < 64 -> at_ (brd p) s = mk_piece (stm p) PAWN -> In m (pawn_moves p s) -> pshape p m
| ps_castle m : In m (castle_moves p) -> pshape p m.

Lemma pseudo_shape p m : wfp p -> In m (pseudo p) -> pshape p m.
Proof.
  intros Hw H. apply in_pseudo in H as [[s [Hs H]]|H]; [|now apply ps_castle].
  destruct (piece_moves_owner p s m Hw H) as [ty [Hty E]].
  rewrite (piece_moves_own p s ty Hty E) in H.
  destruct (N.eqb_spec ty PAWN) as [Ep|Hp].
  - rewrite Ep in E. now apply (ps_pawn p s).
  - unfold simple_moves in H. apply in_map_iff in H as [t [<- Ht]]. apply filter_In in Ht as [Ht1 Ht2].
    apply (ps_simple p s t ty); try assumption. unfold PAWN, KING in *. lia.
Qed.

Lemma pseudo_of_shape p m : pshape p m -> In m (pseudo p).
Proof.
  intros H. apply in_pseudo. destruct H as [s t ty Hs Hty E Ht Hf|s m Hs E Hm|m Hm]; [left|left|now right].
  - exists s. split; [exact Hs|]. rewrite (piece_moves_own p s ty) by (unfold KING in *; lia || exact E).
    replace (ty =? PAWN) with false by (unfold PAWN, KING in *; lia).
    unfold simple_moves. apply in_map_iff. exists t. split; [reflexivity|]. now apply filter_In.
  - exists s. split; [exact Hs|]. rewrite (piece_moves_own p s PAWN) by (unfold PAWN; lia || exact E).
    exact Hm.
Qed.

Lemma pseudo_valid p m : wfp p -> In m (pseudo p) -> valid_mv m.
Proof.
  intros Hw H. apply (pseudo_shape p m Hw) in H.
  destruct H as [s t ty Hs Hty E Ht Hf|s m Hs E Hm|m Hm].
  - apply spec_targets_lt in Ht. unfold valid_mv, NORMAL. cbn. lia.
  - destruct (pawn_moves_in p s m (wf_stm p Hw) Hs Hm) as (A & B & C & D).
    unfold valid_mv. rewrite A. repeat split; try assumption; lia.
  - now apply castle_moves_valid in Hm.
Qed.

Lemma piece_moves_from p s m : wfp p -> s < 64 -> In m (piece_moves p s) -> mfrom m = s /\ mtype m <> CASTLING.
Proof.
  intros Hw Hs H. destruct (piece_moves_owner p s m Hw H) as [ty [Hty E]].
  rewrite (piece_moves_own p s ty Hty E) in H.
  destruct (ty =? PAWN).
  - destruct (pawn_moves_in p s m (wf_stm p Hw) Hs H) as (A & _ & C & _). split; [exact A|]. unfold CASTLING. lia.
  - unfold simple_moves in H. apply in_map_iff in H as [t [<- _]]. cbn. split; [reflexivity|discriminate].
Qed.

Lemma piece_moves_nodup p s : wfp p -> s < 64 -> NoDup (piece_moves p s).
Proof.
  intros Hw Hs.
  destruct (N.eqb_spec (at_ (brd p) s) 0) as [E|E].
  { rewrite piece_moves_other by now left. constructor. }
  destruct (N.eq_dec (colour_of (at_ (brd p) s)) (stm p)) as [Ec|Ec].
  2:{ rewrite piece_moves_other by now right. constructor. }
  destruct (piece_split _ (wf_codes p Hw s) E) as (Hsp & _ & Hty).
  rewrite Ec in Hsp. rewrite (piece_moves_own p s _ Hty Hsp).
  destruct (type_of (at_ (brd p) s) =? PAWN).
  - apply pawn_moves_nodup; [exact (wf_stm p Hw)|exact Hs].
  - unfold simple_moves. apply nodup_map_inj.
    + intros x y _ _ H. now injection H.
    + apply NoDup_filter. now apply spec_targets_nodup.
Qed.

Lemma squares64_nodup : NoDup squares64.
Proof. apply nodupb_sound. vm_compute. reflexivity. Qed.

Theorem pseudo_nodup p : wfp p -> NoDup (pseudo p).
Proof.
  intros Hw. unfold pseudo. apply nodup_app.
  - apply (nodup_flat_map_key mfrom).
    + exact squares64_nodup.
    + intros s Hs. apply piece_moves_nodup; [exact Hw|now apply in_squares64].
    + intros s m Hs Hm. apply in_squares64 in Hs. now apply (piece_moves_from p s m Hw Hs).
  - apply castle_moves_nodup.
  - intros m H1 H2. apply in_flat_map in H1 as [s [Hs H1]]. apply in_squares64 in Hs.
    apply (piece_moves_from p s m Hw Hs) in H1 as [_ H1]. apply castle_moves_valid in H2 as [_ H2]. congruence.
Qed.

Theorem pseudo_codes_nodup p : wfp p -> NoDup (map code (pseudo p)).
Proof.
  intros Hw. apply nodup_map_inj; [|now apply pseudo_nodup].
  intros x y Hx Hy. apply code_inj; now apply (pseudo_valid p).
Qed.

(** ** the classes of moves, in the engine's generation order
    0 pawn promotion captures towards the a-file   1 other pawn captures towards the a-file
    2 pawn promotion captures towards the h-file   3 other pawn captures towards the h-file
    4 en passant from the west neighbour (first iteration of the engine's loop)   5 from the east
    6 queen/knight push promotions when UsePromNonQuiet
    7 king captures   8 officer captures
    9 the other push promotions   10 pawn double steps   11 pawn single steps
    12 castling   13 king non captures   14 officer non captures *)
Definition mover (p : pos) (m : mv) : N := type_of (piece_at p (mfrom m)).

Definition cls (prom_nq : bool) (p : pos) (m : mv) : N :=
  if mtype m =? CASTLING then 12 else
  if mtype m =? ENPASSANT then (if file_of (mfrom m) <? file_of (mto m) then 4 else 5) else
  if mover p m =? PAWN then
    if file_of (mfrom m) =? file_of (mto m) then
      if mtype m =? PROMOTION then
        (if prom_nq && ((mprom m =? QUEEN) || (mprom m =? KNIGHT)) then 6 else 9)
      else if zabs_diff (rank_of (mfrom m)) (rank_of (mto m)) =? 2 then 10 else 11
    else if file_of (mto m) <? file_of (mfrom m) then (if mtype m =? PROMOTION then 0 else 1)
    else (if mtype m =? PROMOTION then 2 else 3)
  else if mover p m =? KING then (if piece_at p (mto m) =? 0 then 13 else 7)
  else (if piece_at p (mto m) =? 0 then 14 else 8).

Definition NCLS : nat := 15.

Lemma cls_lt prom_nq p m : cls prom_nq p m < 15.
Proof. unfold cls. repeat match goal with |- context [if ?c then _ else _] => destruct c end; lia. Qed.

Definition class_codes (prom_nq : bool) (p : pos) (k : nat) : list N :=
  map code (filter (fun m => cls prom_nq p m =? N.of_nat k) (pseudo p)).

Theorem pseudo_classes_perm prom_nq p :
  Permutation (map code (pseudo p)) (concat (map (class_codes prom_nq p) (seq 0 NCLS))).
Proof.
  unfold class_codes. unfold NCLS. rewrite <- (classes_map_concat (cls prom_nq p) code 15 (pseudo p)).
  apply Permutation_map. apply classes_perm. intros m _. apply cls_lt.
Qed.

Lemma class_codes_nodup prom_nq p k : wfp p -> NoDup (class_codes prom_nq p k).
Proof. intros Hw. unfold class_codes. apply nodup_filter_map. now apply pseudo_codes_nodup. Qed.

Lemma class_codes_in prom_nq p k c :
  In c (class_codes prom_nq p k) <-> exists m, In m (pseudo p) /\ cls prom_nq p m = N.of_nat k /\ code m = c.
Proof.
  unfold class_codes. rewrite in_map_filter. split; intros [m [H1 [H2 H3]]]; exists m; repeat split; auto.
  - now apply N.eqb_eq in H2.
  - now apply N.eqb_eq.
Qed.

(* non-quiet = classes 0..8, as a predicate on specification moves
   (captures, en passant, and the queen/knight push promotions with UsePromNonQuiet) *)
Definition nonquiet_spec (prom_nq : bool) (p : pos) (m : mv) : bool := cls prom_nq p m <? 9.

(** ** the class of a move of each shape *)
Lemma cls_simple prom_nq p s t ty : 3 <= ty <= 6 \/ ty = KING -> at_ (brd p) s = mk_piece (stm p) ty ->
  cls prom_nq p (mkmv s t NORMAL 3) =
  if ty =? KING then (if at_ (brd p) t =? 0 then 13 else 7) else (if at_ (brd p) t =? 0 then 14 else 8).
Proof.
  intros Hty E. unfold cls, mover, piece_at. cbn [mtype mfrom mto]. rewrite E.
  rewrite mk_piece_type by (unfold KING in *; lia).
  replace (NORMAL =? CASTLING) with false by reflexivity. replace (NORMAL =? ENPASSANT) with false by reflexivity.
  replace (ty =? PAWN) with false by (unfold PAWN, KING in *; lia). reflexivity.
Qed.

Lemma cls_castle prom_nq p m : In m (castle_moves p) -> cls prom_nq p m = 12.
Proof. intros H. apply castle_moves_valid in H as [_ H]. unfold cls. now rewrite H. Qed.

Lemma mover_pawn p s m : stm p < 2 -> s < 64 -> at_ (brd p) s = mk_piece (stm p) PAWN -> In m (pawn_moves p s) ->
  mover p m = PAWN /\ mtype m <> CASTLING.
Proof.
  intros Hc Hs E Hm. destruct (pawn_moves_in p s m Hc Hs Hm) as (A & _ & C & _).
  unfold mover, piece_at. rewrite A, E. split; [apply mk_piece_type; unfold PAWN; lia|unfold CASTLING; lia].
Qed.

Lemma cls_pawn prom_nq p s m : stm p < 2 -> s < 64 -> at_ (brd p) s = mk_piece (stm p) PAWN -> In m (pawn_moves p s) ->
  cls prom_nq p m <> 7 /\ cls prom_nq p m <> 8 /\ cls prom_nq p m <> 12 /\ cls prom_nq p m <> 13 /\ cls prom_nq p m <> 14.
Proof.
  intros Hc Hs E Hm. destruct (mover_pawn p s m Hc Hs E Hm) as [Hmv Hty].
  unfold cls. rewrite Hmv. apply N.eqb_neq in Hty. rewrite Hty. rewrite N.eqb_refl.
  repeat match goal with |- context [if ?c then _ else _] => destruct c end; repeat split; discriminate.
Qed.

(** ** pawn moves, one constructor per kind, with the class of each *)
Definition prom_piece (pr : N) : Prop := pr = QUEEN \/ pr = ROOK \/ pr = BISHOP \/ pr = KNIGHT.
Definition is_qn (pr : N) : bool := (pr =? QUEEN) || (pr =? KNIGHT).

Lemma adv_iff c s t m : In m (adv c s t) <->
  (rank_of t = last_rank c /\ exists pr, prom_piece pr /\ m = mkmv s t PROMOTION pr) \/
  (rank_of t <> last_rank c /\ m = mkmv s t NORMAL 3).
Proof.
  unfold adv, promos, prom_piece. destruct (N.eqb_spec (rank_of t) (last_rank c)) as [E|E]; cbn [In]; split.
  - intros [<-|[<-|[<-|[<-|[]]]]]; left; (split; [exact E|]); eexists; (split; [|reflexivity]); auto.
  - intros [[_ [pr [[->|[->|[->| ->]]] ->]]]|[H _]]; try congruence; auto.
  - intros [<-|[]]. right. auto.
  - intros [[H _]|[_ ->]]; [congruence|now left].
Qed.

Section PawnKinds.
Variable prom_nq : bool.
Variable p : pos.
Let b := brd p.
Let c := stm p.

Definition promo_cls (pr : N) : N := if prom_nq && is_qn pr then 6 else 9.

Inductive pmove (s : N) : mv -> N -> Prop :=
| pm_single t : step (fwd c) s = Some t -> at_ b t = 0 -> rank_of t <> last_rank c ->
    pmove s (mkmv s t NORMAL 3) 11
| pm_promo t pr : step (fwd c) s = Some t -> at_ b t = 0 -> rank_of t = last_rank c -> prom_piece pr ->
    pmove s (mkmv s t PROMOTION pr) (promo_cls pr)
| pm_double t u : step (fwd c) s = Some t -> at_ b t = 0 -> rank_of s = start_rank c ->
    step (fwd c) t = Some u -> at_ b u = 0 -> pmove s (mkmv s u NORMAL 3) 10
| pm_cap t : In t (pawn_attack_targets c s) -> enemy b c t = true -> rank_of t <> last_rank c ->
    pmove s (mkmv s t NORMAL 3) (if file_of t <? file_of s then 1 else 3)
| pm_cappromo t pr : In t (pawn_attack_targets c s) -> enemy b c t = true -> rank_of t = last_rank c ->
    prom_piece pr -> pmove s (mkmv s t PROMOTION pr) (if file_of t <? file_of s then 0 else 2)
| pm_ep t : In t (pawn_attack_targets c s) -> enemy b c t = false -> t = ep p -> at_ b t = 0 ->
    pmove s (mkmv s t ENPASSANT 3) (if file_of s <? file_of t then 4 else 5).

Lemma pawn_moves_pmove s m : In m (pawn_moves p s) <-> exists k, pmove s m k.
Proof.
  rewrite pawn_moves_split, in_app_iff, in_flat_map. unfold pawn_pushes, pawn_capture_at. fold b c. split.
  - intros [H|[t [Ht H]]].
    + destruct (step (fwd c) s) as [t|] eqn:E; [|destruct H].
      destruct (N.eqb_spec (at_ b t) 0) as [E0|E0]; [|destruct H].
      apply in_app_or in H as [H|H].
      * apply adv_iff in H as [[Hr [pr [Hpr ->]]]|[Hr ->]]; eexists; [now apply (pm_promo s t)|now apply (pm_single s t)].
      * destruct (N.eqb_spec (rank_of s) (start_rank c)) as [Es|Es]; [|destruct H].
        destruct (step (fwd c) t) as [u|] eqn:E2; [|destruct H].
        destruct (N.eqb_spec (at_ b u) 0) as [Eu|Eu]; [|destruct H]. destruct H as [<-|[]].
        eexists. now apply (pm_double s t u).
    + destruct (enemy b c t) eqn:Een.
      * apply adv_iff in H as [[Hr [pr [Hpr ->]]]|[Hr ->]]; eexists; [now apply (pm_cappromo s t)|now apply (pm_cap s t)].
      * destruct (N.eqb_spec t (ep p)) as [Ee|Ee]; cbn [andb] in H; [|destruct H].
        destruct (N.eqb_spec (at_ b t) 0) as [E0|E0]; [|destruct H]. destruct H as [<-|[]].
        eexists. now apply (pm_ep s t).
  - intros [k H]. destruct H as [t E E0 Hr|t pr E E0 Hr Hpr|t u E E0 Es E2 Eu|t Ht Een Hr|t pr Ht Een Hr Hpr|t Ht Een Ee E0].
    + left. rewrite E, E0. cbn [N.eqb]. apply in_or_app. left. apply adv_iff. right. auto.
    + left. rewrite E, E0. cbn [N.eqb]. apply in_or_app. left. apply adv_iff. left. split; [exact Hr|]. now exists pr.
    + left. rewrite E, E0. cbn [N.eqb]. apply in_or_app. right. rewrite Es, N.eqb_refl, E2, Eu. now left.
    + right. exists t. split; [exact Ht|]. rewrite Een. apply adv_iff. right. auto.
    + right. exists t. split; [exact Ht|]. rewrite Een. apply adv_iff. left. split; [exact Hr|]. now exists pr.
    + right. exists t. split; [exact Ht|]. rewrite Een, <- Ee, N.eqb_refl, E0. now left.
Qed.

Lemma pmove_cls s m k : c < 2 -> s < 64 -> at_ b s = mk_piece c PAWN -> pmove s m k -> cls prom_nq p m = k.
Proof.
  intros Hc Hs Hat H.
  assert (Hmv : forall t ty pr, mover p (mkmv s t ty pr) = PAWN).
  { intros. unfold mover, piece_at. cbn [mfrom]. fold b. rewrite Hat. apply mk_piece_type. unfold PAWN. lia. }
  destruct H as [t E E0 Hr|t pr E E0 Hr Hpr|t u E E0 Es E2 Eu|t Ht Een Hr|t pr Ht Een Hr Hpr|t Ht Een Ee E0];
    unfold cls; rewrite Hmv; cbn [mtype mfrom mto mprom]; rewrite N.eqb_refl.
  - destruct (push_geom c s t Hc Hs E) as (G1 & G2 & G3). rewrite G1, N.eqb_refl, G3. reflexivity.
  - destruct (push_geom c s t Hc Hs E) as (G1 & G2 & G3). rewrite G1, N.eqb_refl. reflexivity.
  - destruct (double_geom c s t u Hc Hs E E2) as (G1 & G2 & G3). rewrite G1, N.eqb_refl, G3. reflexivity.
  - pose proof (capture_geom c s t Hc Hs Ht) as G. replace (file_of s =? file_of t) with false by lia. reflexivity.
  - pose proof (capture_geom c s t Hc Hs Ht) as G. replace (file_of s =? file_of t) with false by lia. reflexivity.
  - reflexivity.
Qed.

(* the pawn classes of [pseudo p] *)
Lemma pawn_class_in k x : wfp p -> k <> 7%nat -> k <> 8%nat -> k <> 12%nat -> k <> 13%nat -> k <> 14%nat ->
  (In x (class_codes prom_nq p k) <->
   exists s m, s < 64 /\ at_ b s = mk_piece c PAWN /\ pmove s m (N.of_nat k) /\ code m = x).
Proof.
  intros Hw K7 K8 K12 K13 K14. rewrite class_codes_in. split.
  - intros (m & Hm & Hcls & <-). apply (pseudo_shape p m Hw) in Hm.
    destruct Hm as [s t ty Hs Hty E Ht Hf|s m Hs E Hm|m Hm].
    + rewrite (cls_simple prom_nq p s t ty Hty E) in Hcls.
      destruct (ty =? KING), (at_ (brd p) t =? 0); lia.
    + exists s, m. apply pawn_moves_pmove in Hm as [k' Hk'].
      pose proof (pmove_cls s m k' (wf_stm p Hw) Hs E Hk') as Hc'. rewrite Hcls in Hc'. subst k'. auto.
    + rewrite (cls_castle prom_nq p m Hm) in Hcls. lia.
  - intros (s & m & Hs & E & Hk & <-). exists m. split; [|split; [|reflexivity]].
    + apply pseudo_of_shape. apply (ps_pawn p s m Hs E). apply pawn_moves_pmove. now exists (N.of_nat k).
    + now apply (pmove_cls s m _ (wf_stm p Hw) Hs E).
Qed.

End PawnKinds.

(** ** lists made of whole classes *)
Definition class_lists (prom_nq : bool) (p : pos) (ks : list nat) (l : list N) : Prop :=
  exists Ls, l = concat Ls /\
             Forall2 (fun k L => Permutation L (class_codes prom_nq p k) /\ NoDup L) ks Ls.

Lemma class_lists_one prom_nq p k l : Permutation l (class_codes prom_nq p k) -> NoDup l ->
  class_lists prom_nq p [k] l.
Proof. intros H1 H2. exists [l]. cbn [concat]. rewrite app_nil_r. split; [reflexivity|]. repeat constructor; assumption. Qed.

Lemma class_lists_nil prom_nq p : class_lists prom_nq p [] [].
Proof. exists []. split; [reflexivity|constructor]. Qed.

Lemma class_lists_app prom_nq p ks1 ks2 l1 l2 :
  class_lists prom_nq p ks1 l1 -> class_lists prom_nq p ks2 l2 -> class_lists prom_nq p (ks1 ++ ks2) (l1 ++ l2).
Proof.
  intros [L1 [-> H1]] [L2 [-> H2]]. exists (L1 ++ L2). split; [now rewrite concat_app|].
  induction H1; cbn [app]; [exact H2|now constructor].
Qed.

Lemma class_lists_perm prom_nq p ks l : class_lists prom_nq p ks l ->
  Permutation l (concat (map (class_codes prom_nq p) ks)).
Proof.
  intros [Ls [-> H]]. induction H as [|k L ks Ls [HL _] _ IH]; cbn [map concat]; [reflexivity|].
  now apply Permutation_app.
Qed.

Theorem class_lists_all prom_nq p l : wfp p -> class_lists prom_nq p (seq 0 NCLS) l ->
  Permutation l (map code (pseudo p)) /\ NoDup l.
Proof.
  intros Hw H. apply class_lists_perm in H.
  assert (P : Permutation l (map code (pseudo p))) by (rewrite H; symmetry; apply pseudo_classes_perm).
  split; [exact P|]. apply (Permutation_NoDup (l := map code (pseudo p))); [now symmetry|now apply pseudo_codes_nodup].
Qed.
