(** * CasesModels: evaluation helpers for the correspondence runs of the implementation models
    (attacks C09, evaluation C15).  FENs arrive as Coq [string] literals. *)
From Coq Require Import ZArith NArith List Bool String.
From FG Require Import CasesLib AttacksImpl EvalImpl.
Import ListNotations.

(* (fen, attw, attb, attackers samples, in-check, gives-check per move, legality samples) *)
Definition att_case (c : string * list bool * list bool * list (N*N*N) * bool * list (N*bool)
                         * list (string * N * bool * bool)) : bool :=
  let '(fen, aw, ab, atts, chk, gcs, legs) := c in
  let f := str_of_string fen in
  att_case_ok f aw ab atts chk gcs &&
  forallb (fun '(after, code, pre, post) => legal_case f (str_of_string after) code pre post) legs.

Fixpoint mism_from {A} (ok : A -> bool) (i : nat) (l : list A) : list nat :=
  match l with
  | [] => []
  | c :: r => (if ok c then [] else [i]) ++ mism_from ok (S i) r
  end.
Definition att_mismatches := mism_from att_case 0.

Definition eval_case (c : string * Z * bool * bool * Z) : bool :=
  let '(fen, gp, lz, adv, obs) := c in eval_case_ok (str_of_string fen) gp lz adv obs.
Definition eval_mismatches := mism_from eval_case 0.
