(** * CasesModels: evaluation helpers for the correspondence runs of the implementation models
    (attacks C09, evaluation C15).  FENs arrive as Coq [string] literals. *)
From Coq Require Import ZArith NArith List Bool String Lia.
From FG Require Import Geom Rules CasesLib AttacksImpl EvalImpl EvalProofsA.
Import ListNotations.

(* (fen, attw, attb, attackers samples, in-check, gives-check per move, legality samples) *)
Definition att_case (c : string * list bool * list bool * list (N*N*N) * bool * list (N*bool)
                         * list (string * N * bool * bool)) : bool :=
  let '(fen, aw, ab, atts, chk, gcs, legs) := c in
  let f := str_of_string fen in
  att_case_ok f aw ab atts chk gcs &&
  forallb (fun '(after, code, pre, post) => legal_case f (str_of_string after) code pre post) legs.

Fixpoint mism_from {A} (ok : A -> bool) (i : nat) (l : list A) : list nat :=
  match l with
  | [] => []
  | c :: r => (if ok c then [] else [i]) ++ mism_from ok (S i) r
  end.
Definition att_mismatches := mism_from att_case 0.

(** ** C15: a tabulated form of the evaluation model, for speed only.
    [EvalImpl.av_of] and [EvalImpl.ring] are functions that recompute the attack rays / the king
    square at every call (about 0.85 s per evaluation with UseAttacksInEval under vm_compute).
    [av_tab] / [rg_tab] hold the same values in lists, computed once per position and shared by
    all switch vectors; [eval_core_tab_eq] shows that nothing else changed:
    [evaluate_tab cfg p gp = evaluate cfg p gp]. *)
Definition tab64 (f : N -> bool) : N -> bool :=
  let l := map f squares64 in fun t => nth (N.to_nat t) l false.
Definition by_colour {A} (w b : A) (c : N) : A := if (c =? WHITE)%N then w else b.

Definition av_tab (p : pos) : aview :=
  let b := brd p in
  let tg := map (piece_targets b) squares64 in
  let tgof := fun s => nth (N.to_nat s) tg [] in
  let own := fun c => filter (own_nonpawn b c) squares64 in
  let ow := own WHITE in let ob := own BLACK in
  let aw := tab64 (fun t => existsb (fun s => mem t (tgof s)) ow) in
  let ab := tab64 (fun t => existsb (fun s => mem t (tgof s)) ob) in
  let occ := fun c => tab64 (fun t => is_col (at_ b t) c) in
  let occw := occ WHITE in let occb := occ BLACK in
  let mobc := fun (o : list N) (oc : N -> bool) =>
    fold_right (fun s acc => (let l := tgof s in popcnt (fun t => mem t l && negb (oc t))) + acc)%Z 0%Z o in
  let mw := mobc ow occw in let mb := mobc ob occb in
  mkav (fun c sq => if own_nonpawn b c sq then (let l := tgof sq in fun t => mem t l) else fun _ => false)
       (by_colour aw ab) (by_colour mw mb).
Definition rg_tab (b : list N) : N -> N -> bool :=
  let rw := tab64 (ring b WHITE) in let rb := tab64 (ring b BLACK) in by_colour rw rb.

Local Open Scope Z_scope.

(* EvalImpl.eval_core_av with the king ring as an argument (convertible: [eval_core_rg_ring]) *)
Definition eval_core_rg (cfg : eval_cfg) (av : aview) (rg : N -> N -> bool) (p : pos) (gp : Z) : Z :=
  if insufficient_material p then 0 else
  let dir := if (stm p =? WHITE)%N then 1 else -1 in
  let g := gpf gp in
  let mat := material p WHITE - material p BLACK in
  let mid0 := mat + (psq_mid p WHITE - psq_mid p BLACK) in
  let end0 := mat + (psq_end p WHITE - psq_end p BLACK) in
  let v0 := interp mid0 end0 g in
  if use_lazy cfg && (Z.abs v0 >? threshold cfg gp) then v0 * dir else
  let mid1 := if use_adv cfg then mid0 + (adv_mid cfg av p WHITE - adv_mid cfg av p BLACK) else mid0 in
  let end1 := if use_adv cfg then end0 + (adv_end cfg p WHITE - adv_end cfg p BLACK) else end0 in
  let mob := use_attacks cfg && use_mobility cfg in
  let mid2 := if mob then mid1 + (av_mob av WHITE - av_mob av BLACK) * mobility_bonus cfg else mid1 in
  let end2 := if mob then end1 + mid2 else end1 in
  let kw := king_term cfg av rg WHITE in let kb := king_term cfg av rg BLACK in
  let mid3 := if use_king cfg then mid2 + fst kw - fst kb else mid2 in
  let end3 := if use_king cfg then end2 + snd kw - snd kb else end2 in
  let mid4 := mid3 + tempo cfg * dir in
  interp mid4 end3 g * dir.
Lemma eval_core_rg_ring cfg av p gp : eval_core_rg cfg av (ring (brd p)) p gp = eval_core_av cfg av p gp.
Proof. reflexivity. Qed.

(* the position is checked once, the tables are built once, then one value per settings record *)
Definition evaluate_tab_with (av : aview) (rg : N -> N -> bool) (cfg : eval_cfg) (p : pos) (gp : Z) : option Z :=
  if negb (pos_ok p) then None
  else if negb ((0 <=? gp) && (gp <=? Tables_gen.c_game_phase_max)) then None
  else Some (eval_core_rg cfg av rg p gp).
Definition evaluate_tab (cfg : eval_cfg) (p : pos) (gp : Z) : option Z :=
  evaluate_tab_with (av_tab p) (rg_tab (brd p)) cfg p gp.

(* agreement on the domain the evaluation reads: colours 0/1, squares 0..63 *)
Definition av_agree (a1 a2 : aview) : Prop :=
  (forall c sq t, (c < 2)%N -> (sq < 64)%N -> (t < 64)%N -> av_from a1 c sq t = av_from a2 c sq t) /\
  (forall c t, (c < 2)%N -> (t < 64)%N -> av_all a1 c t = av_all a2 c t) /\
  (forall c, (c < 2)%N -> av_mob a1 c = av_mob a2 c).
Definition rg_agree (r1 r2 : N -> N -> bool) : Prop :=
  forall c t, (c < 2)%N -> (t < 64)%N -> r1 c t = r2 c t.

Lemma nth_map_sq64 {A} (f : N -> A) (d : A) s : (s < 64)%N -> nth (N.to_nat s) (map f squares64) d = f s.
Proof.
  intros Hs. rewrite (nth_indep _ d (f 0%N)) by (rewrite map_length; cbn; lia).
  rewrite map_nth, nth_sq64 by exact Hs. reflexivity.
Qed.
Lemma tab64_spec f t : (t < 64)%N -> tab64 f t = f t.
Proof. intros Ht. unfold tab64. apply nth_map_sq64, Ht. Qed.
Lemma colour_cases c : (c < 2)%N -> c = WHITE \/ c = BLACK.
Proof. unfold WHITE, BLACK. lia. Qed.
Lemma by_colour_spec {A} (f : N -> A) c : (c < 2)%N -> by_colour (f WHITE) (f BLACK) c = f c.
Proof. intros Hc. destruct (colour_cases c Hc) as [-> | ->]; reflexivity. Qed.

Lemma existsb_filter {A} (f g : A -> bool) l : existsb f (filter g l) = existsb (fun x => g x && f x) l.
Proof.
  induction l as [|a l IH]; [reflexivity|]. cbn [filter existsb]. destruct (g a); cbn [existsb andb orb]; rewrite IH; reflexivity.
Qed.
Lemma sum_filter (h : N -> Z) (g : N -> bool) l :
  fold_right (fun s acc => h s + acc) 0 (filter g l) = fold_right (fun s acc => (if g s then h s else 0) + acc) 0 l.
Proof.
  induction l as [|a l IH]; [reflexivity|]. cbn [filter fold_right]. destruct (g a); cbn [fold_right]; rewrite IH; reflexivity.
Qed.
Lemma bbnum_sum64 f : bbnum f = sum64 (fun t => if f t then 2 ^ Z.of_N t else 0).
Proof. reflexivity. Qed.
Lemma bbnum_ext64 f g : (forall t, (t < 64)%N -> f t = g t) -> bbnum f = bbnum g.
Proof. intros H. rewrite !bbnum_sum64. apply sum64_ext. intros t Ht. rewrite H by exact Ht. reflexivity. Qed.

Lemma rg_tab_agree b : rg_agree (rg_tab b) (ring b).
Proof.
  intros c t Hc Ht. unfold rg_tab. cbv zeta.
  rewrite (by_colour_spec (fun c => tab64 (ring b c)) c Hc). apply tab64_spec, Ht.
Qed.

Lemma av_tab_agree p : av_agree (av_tab p) (av_of p).
Proof.
  unfold av_tab, av_of, av_compute, av_empty. cbv zeta. repeat split.
  - intros c sq t Hc Hsq Ht. cbv beta iota delta [av_from]. rewrite nth_map_sq64 by exact Hsq. destruct (own_nonpawn (brd p) c sq); reflexivity.
  - intros c t Hc Ht. cbv beta iota delta [av_all].
    rewrite (by_colour_spec (fun c => tab64 (fun t => existsb (fun s => mem t (nth (N.to_nat s) (map (piece_targets (brd p)) squares64) []))
                                                            (filter (own_nonpawn (brd p) c) squares64))) c Hc).
    rewrite tab64_spec by exact Ht. cbn [orb]. unfold all_att. rewrite existsb_filter.
    apply existsb_sq_ext. intros s Hs. rewrite nth_map_sq64 by exact Hs. reflexivity.
  - intros c Hc. cbv beta iota delta [av_mob].
    rewrite (by_colour_spec (fun c => fold_right (fun s acc => popcnt (fun t => mem t (nth (N.to_nat s) (map (piece_targets (brd p)) squares64) [])
                                                                              && negb (tab64 (fun t => is_col (at_ (brd p) t) c) t)) + acc) 0
                                                 (filter (own_nonpawn (brd p) c) squares64)) c Hc).
    rewrite (sum_filter (fun s => popcnt (fun t => mem t (nth (N.to_nat s) (map (piece_targets (brd p)) squares64) [])
                                                   && negb (tab64 (fun t => is_col (at_ (brd p) t) c) t)))).
    rewrite Z.add_0_l. unfold mobility. rewrite bsum_sum64. apply sum64_ext. intros s Hs.
    destruct (own_nonpawn (brd p) c s); [|reflexivity]. apply popcnt_ext. intros t Ht.
    rewrite nth_map_sq64 by exact Hs. rewrite tab64_spec by exact Ht. reflexivity.
Qed.

Lemma flip_lt2 c : (c < 2)%N -> (flip c < 2)%N.
Proof. unfold flip. lia. Qed.

Lemma king_term_agree cfg a1 a2 r1 r2 c : av_agree a1 a2 -> rg_agree r1 r2 -> (c < 2)%N ->
  king_term cfg a1 r1 c = king_term cfg a2 r2 c.
Proof.
  intros (_ & Hall & _) Hr Hc. pose proof (flip_lt2 c Hc) as Hf.
  unfold king_term. destruct (use_attacks cfg); [|reflexivity]. cbv zeta.
  rewrite (popcnt_ext (fun t => r1 c t && av_all a1 (flip c) t) (fun t => r2 c t && av_all a2 (flip c) t))
    by (intros t Ht; rewrite Hr, Hall by assumption; reflexivity).
  rewrite (popcnt_ext (fun t => r1 c t && av_all a1 c t) (fun t => r2 c t && av_all a2 c t))
    by (intros t Ht; rewrite Hr, Hall by assumption; reflexivity).
  rewrite (bbnum_ext64 (fun t => r1 c t && av_all a1 (flip c) t) (fun t => r2 c t && av_all a2 (flip c) t))
    by (intros t Ht; rewrite Hr, Hall by assumption; reflexivity).
  rewrite (bbnum_ext64 (fun t => r1 c t && av_all a1 c t) (fun t => r2 c t && av_all a2 c t))
    by (intros t Ht; rewrite Hr, Hall by assumption; reflexivity).
  rewrite (popcnt_ext (fun t => av_all a1 c t && r1 (flip c) t) (fun t => av_all a2 c t && r2 (flip c) t))
    by (intros t Ht; rewrite Hr, Hall by assumption; reflexivity).
  reflexivity.
Qed.

Lemma adv_mid_agree cfg a1 a2 p c : pos_ok p = true -> av_agree a1 a2 -> (c < 2)%N ->
  adv_mid cfg a1 p c = adv_mid cfg a2 p c.
Proof.
  intros Hp (Hfrom & _ & _) Hc. unfold adv_mid. f_equal. apply bsum_ext; [exact Hp|]. intros pc s _ Hs.
  unfold adv_mid_term.
  assert (E : rook_trapped cfg a1 p c s = rook_trapped cfg a2 p c s).
  { unfold rook_trapped. rewrite (popcnt_ext (av_from a1 c s) (av_from a2 c s)) by (intros t Ht; apply Hfrom; assumption). reflexivity. }
  rewrite E. reflexivity.
Qed.

Lemma eval_core_rg_agree cfg a1 a2 r1 r2 p gp : pos_ok p = true -> av_agree a1 a2 -> rg_agree r1 r2 ->
  eval_core_rg cfg a1 r1 p gp = eval_core_rg cfg a2 r2 p gp.
Proof.
  intros Hp Ha Hr. unfold eval_core_rg.
  assert (HW : (WHITE < 2)%N) by (unfold WHITE; lia). assert (HB : (BLACK < 2)%N) by (unfold BLACK; lia).
  rewrite (adv_mid_agree cfg a1 a2 p WHITE Hp Ha HW), (adv_mid_agree cfg a1 a2 p BLACK Hp Ha HB).
  rewrite (king_term_agree cfg a1 a2 r1 r2 WHITE Ha Hr HW), (king_term_agree cfg a1 a2 r1 r2 BLACK Ha Hr HB).
  destruct Ha as (_ & _ & Hmob). rewrite (Hmob WHITE HW), (Hmob BLACK HB). reflexivity.
Qed.

Theorem evaluate_tab_eq cfg p gp : evaluate_tab cfg p gp = evaluate cfg p gp.
Proof.
  unfold evaluate_tab, evaluate_tab_with, evaluate. destruct (pos_ok p) eqn:Hp; cbn [negb]; cbv iota; [|reflexivity].
  destruct ((0 <=? gp) && (gp <=? Tables_gen.c_game_phase_max)); cbn [negb]; cbv iota; [|reflexivity]. apply f_equal. unfold eval_core.
  transitivity (eval_core_rg cfg (av_of p) (ring (brd p)) p gp); [|apply eval_core_rg_ring].
  apply eval_core_rg_agree; [exact Hp|apply av_tab_agree|apply rg_tab_agree].
Qed.

(** ** C15: evaluation.
    A case = one position with the values the engine returned under a list of switch vectors.
    [sw] numbers the five switches like harness/cmd_models.go evalSwitches: bit 0 UseLazyEval,
    bit 1 UseAdvancedPieceEval, bit 2 UseAttacksInEval, bit 3 UseMobility, bit 4 UseKingEval;
    every other field keeps the value of [EvalImpl.default_cfg]. *)
Definition cfg_of_sw (sw : N) : eval_cfg :=
  cfg_switches default_cfg (N.testbit sw 0%N) (N.testbit sw 1%N) (N.testbit sw 2%N) (N.testbit sw 3%N) (N.testbit sw 4%N).
Definition eval_case_sw (f : FenSpec.str) (gp : Z) (c : N * Z) : bool :=
  let '(sw, obs) := c in
  eval_case_full f gp (N.testbit sw 0%N) (N.testbit sw 1%N) (N.testbit sw 2%N) (N.testbit sw 3%N) (N.testbit sw 4%N) obs.
(* the switch vectors of the case on which model and engine differ: [eval_case_full] on every listed vector *)
Definition eval_case_spec (c : string * Z * list (N * Z)) : list N :=
  let '(fen, gp, l) := c in
  let f := str_of_string fen in
  map fst (filter (fun x => negb (eval_case_sw f gp x)) l).
(* the same list as it is computed: FEN parsed once, attack tables built once ([eval_case_eq]) *)
Definition eval_case (c : string * Z * list (N * Z)) : list N :=
  let '(fen, gp, l) := c in
  match FenSpec.parse (str_of_string fen) with
  | Some p =>
      let av := av_tab p in let rg := rg_tab (brd p) in
      map fst (filter (fun x => negb (match evaluate_tab_with av rg (cfg_of_sw (fst x)) p gp with
                                      | Some v => v =? snd x | None => false end)) l)
  | None => map fst l
  end.
Lemma eval_case_eq c : eval_case c = eval_case_spec c.
Proof.
  destruct c as [[fen gp] l]. unfold eval_case, eval_case_spec. cbv zeta.
  destruct (FenSpec.parse (str_of_string fen)) as [p|] eqn:Ep.
  - f_equal. apply filter_ext. intros [sw obs]. cbn [fst snd]. unfold eval_case_sw, eval_case_full. rewrite Ep.
    pose proof (evaluate_tab_eq (cfg_of_sw sw) p gp) as E. unfold evaluate_tab in E. rewrite E.
    unfold cfg_of_sw. reflexivity.
  - f_equal. induction l as [|[sw obs] l IH]; [reflexivity|]. cbn [filter].
    unfold eval_case_sw at 1, eval_case_full. rewrite Ep. cbn [negb]. f_equal. exact IH.
Qed.
(* (case number, failing switch vectors) *)
Fixpoint eval_mism_from (i : nat) (l : list (string * Z * list (N * Z))) : list (nat * list N) :=
  match l with
  | [] => []
  | c :: r => (match eval_case c with [] => [] | bad => [(i, bad)] end) ++ eval_mism_from (S i) r
  end.
Definition eval_mismatches := eval_mism_from O.

(** The engine's evaluation configuration at start-up, every field of config.Settings.Eval in
    declaration order (evalconfig.go:29-58), booleans as 0/1.  The first two fields (UsePawnCache,
    PawnCacheSize, "not implemented yet") are read by no code of the engine and are not part of
    [eval_cfg]; their defaults are compared all the same. *)
Definition zb (b : bool) : Z := if b then 1 else 0.
Definition cfg_fields (c : eval_cfg) : list Z :=
  [ zb (use_lazy c); lazy_threshold c; tempo c; zb (use_attacks c); zb (use_mobility c); mobility_bonus c;
    zb (use_adv c); bishop_pair_bonus c; minor_behind_pawn_bonus c; bishop_pawn_malus c;
    bishop_center_aim_bonus c; bishop_blocked_malus c; rook_on_queen_file_bonus c; rook_on_open_file_bonus c;
    rook_trapped_malus c; king_ring_attacks_bonus c; zb (use_king c); king_danger_malus c; king_defender_bonus c ].
Definition pawn_cache_defaults : list Z := [0; 64].
Definition engine_fields (c : eval_cfg) : list Z := pawn_cache_defaults ++ cfg_fields c.

(* (field number, engine, model) of the fields that differ; a missing field is None *)
Fixpoint fields_mism (i : nat) (eng model : list Z) {struct eng} : list (nat * option Z * option Z) :=
  match eng with
  | [] => map (fun m => (i, None, Some m)) model
  | e :: er =>
      match model with
      | [] => (i, Some e, None) :: fields_mism (S i) er []
      | m :: mr => (if e =? m then [] else [(i, Some e, Some m)]) ++ fields_mism (S i) er mr
      end
  end.
Definition eval_defaults_mismatches (engine : list Z) := fields_mism O engine (engine_fields default_cfg).

(** the checkers mean what they say *)
Lemma fields_mism_nil : forall eng model i, fields_mism i eng model = [] -> eng = model.
Proof.
  induction eng as [|e er IH]; intros [|m mr] i H; cbn in H; try discriminate; [reflexivity|].
  destruct (e =? m) eqn:E; [|discriminate]. apply Z.eqb_eq in E. subst. f_equal. exact (IH _ _ H).
Qed.

Lemma eval_defaults_check_sound d : eval_defaults_mismatches d = [] -> d = engine_fields default_cfg.
Proof. apply fields_mism_nil. Qed.

(* the field list determines the settings record: no field of the model is left out of the comparison *)
Lemma zb_inj a b : zb a = zb b -> a = b.
Proof. destruct a, b; cbn; intros H; try reflexivity; discriminate. Qed.
Lemma cfg_fields_inj c1 c2 : cfg_fields c1 = cfg_fields c2 -> c1 = c2.
Proof.
  destruct c1, c2. unfold cfg_fields. cbn. intros H. injection H as H1 H2 H3 H4 H5 H6 H7 H8 H9 H10 H11 H12 H13 H14 H15 H16 H17 H18 H19.
  apply zb_inj in H1, H4, H5, H7, H17. subst. reflexivity.
Qed.

Lemma eval_case_full_sound fen gp lz adv att mob kng obs :
  eval_case_full fen gp lz adv att mob kng obs = true ->
  exists p, FenSpec.parse fen = Some p /\ evaluate (cfg_switches default_cfg lz adv att mob kng) p gp = Some obs.
Proof.
  unfold eval_case_full. destruct (FenSpec.parse fen) as [p|]; [|discriminate].
  destruct (evaluate _ p gp) as [v|] eqn:Ev; [|discriminate]. intros H. apply Z.eqb_eq in H. subst. exists p. split; [reflexivity|exact Ev].
Qed.

Lemma eval_mism_from_nil l : forall i, eval_mism_from i l = [] -> forall c, In c l -> eval_case c = [].
Proof.
  induction l as [|c r IH]; intros i H c0 Hc; [destruct Hc|]. cbn [eval_mism_from] in H.
  apply app_eq_nil in H as [H1 H2]. destruct Hc as [<-|Hc]; [|exact (IH _ H2 _ Hc)].
  destruct (eval_case c); [reflexivity|discriminate].
Qed.

(* an empty mismatch list: on every listed position, under every listed switch vector, the model
   [evaluate] returns exactly the value the engine returned *)
Theorem eval_cases_check_sound cases :
  eval_mismatches cases = [] ->
  forall fen gp l sw obs, In (fen, gp, l) cases -> In (sw, obs) l ->
  exists p, FenSpec.parse (str_of_string fen) = Some p /\ evaluate (cfg_of_sw sw) p gp = Some obs.
Proof.
  intros H fen gp l sw obs Hc Hl. pose proof (eval_mism_from_nil _ _ H _ Hc) as E. rewrite eval_case_eq in E. cbn [eval_case_spec] in E.
  apply map_eq_nil in E.
  assert (Hok : eval_case_sw (str_of_string fen) gp (sw, obs) = true).
  { destruct (eval_case_sw (str_of_string fen) gp (sw, obs)) eqn:Eo; [reflexivity|exfalso].
    assert (Hin : In (sw, obs) (filter (fun x => negb (eval_case_sw (str_of_string fen) gp x)) l))
      by (apply filter_In; split; [exact Hl|cbv beta; rewrite Eo; reflexivity]).
    rewrite E in Hin. destruct Hin. }
  exact (eval_case_full_sound _ _ _ _ _ _ _ _ Hok).
Qed.

(* the 32 switch vectors reach every combination of the five switches *)
Lemma cfg_of_sw_all lz adv att mob kng :
  exists sw, (sw < 32)%N /\ cfg_of_sw sw = cfg_switches default_cfg lz adv att mob kng.
Proof.
  exists (N.b2n lz + 2 * N.b2n adv + 4 * N.b2n att + 8 * N.b2n mob + 16 * N.b2n kng)%N.
  destruct lz, adv, att, mob, kng; (split; [reflexivity|reflexivity]).
Qed.

(** ** Assumptions *)
Print Assumptions evaluate_tab_eq.
Print Assumptions eval_case_eq.
Print Assumptions eval_cases_check_sound.
Print Assumptions eval_defaults_check_sound.
Print Assumptions cfg_fields_inj.
Print Assumptions cfg_of_sw_all.
