(** * San: SPECIFICATION printers for move notation (C17).
    Written from the UCI protocol description and the FIDE / PGN definition of standard
    algebraic notation; shares nothing with the engine's printers or parsers.
    Strings are [FenSpec.str] = lists of byte codes.  No proofs in this file. *)
From Coq Require Import NArith List Bool.
From FG Require Import Geom Rules FenSpec.
Import ListNotations.
Open Scope N_scope.

(* upper-case piece letter of a piece type: K P N B R Q *)
Definition pt_letter (ty : N) : N :=
  if ty =? KING then 75 else if ty =? KNIGHT then 78 else if ty =? BISHOP then 66
  else if ty =? ROOK then 82 else if ty =? QUEEN then 81 else 80.

Definition file_ch (s : N) : N := 97 + file_of s.   (* 'a' + file *)
Definition rank_ch (s : N) : N := 49 + rank_of s.   (* '1' + rank *)
Definition sq_name (s : N) : str := [file_ch s; rank_ch s].

(** ** UCI long algebraic: from-square, to-square, lower-case promotion letter (UCI protocol:
    "e7e8q"); castling is the king's move (e1g1). *)
Definition uci_str (m : mv) : str :=
  sq_name (mfrom m) ++ sq_name (mto m) ++
  (if mtype m =? PROMOTION then [pt_letter (mprom m) + 32] else []).

(** ** SAN *)
Definition is_capture (p : pos) (m : mv) : bool :=
  negb (piece_at p (mto m) =? 0) || (mtype m =? ENPASSANT).

Definition mover_type (p : pos) (m : mv) : N := type_of (piece_at p (mfrom m)).

(* the other legal moves of a piece of the same kind, from another square, to the same square *)
Definition rivals (p : pos) (m : mv) : list mv :=
  filter (fun m' => (mto m' =? mto m) && (mover_type p m' =? mover_type p m)
                    && negb (mfrom m' =? mfrom m)) (legal p).

(* minimal disambiguation: nothing; else the file if it is unique; else the rank if it is
   unique; else both *)
Definition disamb (p : pos) (m : mv) : str :=
  let r := rivals p m in
  match r with
  | [] => []
  | _ => if negb (existsb (fun m' => file_of (mfrom m') =? file_of (mfrom m)) r) then [file_ch (mfrom m)]
         else if negb (existsb (fun m' => rank_of (mfrom m') =? rank_of (mfrom m)) r) then [rank_ch (mfrom m)]
         else sq_name (mfrom m)
  end.

(* the move without check / mate / annotation suffix.
   [usex]: write the capture sign "x" (standard) or leave it out ("ed5", "Nf3" for Nxf3);
   [useeq]: write "=" before the promotion piece (standard) or leave it out ("e8Q"). *)
Definition san_body (usex useeq : bool) (p : pos) (m : mv) : str :=
  if mtype m =? CASTLING then
    (if file_of (mto m) =? 6 then [79;45;79] else [79;45;79;45;79])     (* O-O / O-O-O *)
  else
    let cap := is_capture p m in
    let x := if cap && usex then [120] else [] in
    if mover_type p m =? PAWN then
      (if cap then [file_ch (mfrom m)] else []) ++ x ++ sq_name (mto m) ++
      (if mtype m =? PROMOTION then (if useeq then [61] else []) ++ [pt_letter (mprom m)] else [])
    else
      [pt_letter (mover_type p m)] ++ disamb p m ++ x ++ sq_name (mto m).

Definition san_str_nodeco (p : pos) (m : mv) : str := san_body true true p m.

(* "+" check, "#" checkmate *)
Definition san_suffix (p : pos) (m : mv) : str :=
  if gives_check p m then (match legal (make p m) with [] => [35] | _ => [43] end) else [].

Definition san_str (p : pos) (m : mv) : str := san_str_nodeco p m ++ san_suffix p m.

(* strings made of the decoration characters ! ? + # only *)
Definition is_deco_ch (c : N) : bool := (c =? 33) || (c =? 63) || (c =? 43) || (c =? 35).
Definition deco_str (d : str) : bool := forallb is_deco_ch d.
