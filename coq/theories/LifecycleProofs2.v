(** * LifecycleProofs2: race freedom and deadlock freedom of the lifecycle model [Lifecycle.v] *)
From Coq Require Import List Bool Arith PeanoNat Lia.
Import ListNotations.
Set Warnings "-unused-intro-pattern".
From FG Require Import Lifecycle LifecycleProofs.

(** * race_free *)

Lemma var_eqb_sym : forall a b, var_eqb a b = var_eqb b a.
Proof. destruct a, b; simpl; auto. apply Nat.eqb_sym. Qed.
Lemma conflict_sym : forall a b, conflict a b = conflict b a.
Proof.
  intros [v1 w1 a1] [v2 w2 a2]. unfold conflict; simpl. rewrite var_eqb_sym.
  destruct (var_eqb v2 v1), w1, w2, a1, a2; reflexivity.
Qed.

Ltac conflict_false :=
  unfold conflict; simpl;
  repeat match goal with |- context [?p =? ?q] => destruct (p =? q) end; reflexivity.

Lemma timer_search_noconflict : forall s tm th c a b,
  taccess tm = Some a -> saccess s th c = Some b -> conflict a b = false.
Proof.
  intros s tm th c a b Ha Hb. unfold taccess in Ha. unfold saccess in Hb.
  destruct (tpcv tm); inversion Ha; subst; clear Ha;
  destruct (spcv th), c; try destruct (cfgBook s); try destruct (cfgTT s); inversion Hb; subst; conflict_false.
Qed.
Lemma timer_ctl_noconflict : forall s tm a b,
  taccess tm = Some a -> caccess s = Some b -> conflict a b = false.
Proof.
  intros s tm a b Ha Hb. unfold taccess in Ha. unfold caccess in Hb.
  destruct (tpcv tm); inversion Ha; subst; clear Ha;
  destruct (cpcv s); try destruct (cfgBook s); try destruct (cfgTT s); inversion Hb; subst; conflict_false.
Qed.
Lemma timer_timer_noconflict : forall tm tm' a b,
  taccess tm = Some a -> taccess tm' = Some b -> conflict a b = false.
Proof.
  intros tm tm' a b Ha Hb. unfold taccess in *.
  destruct (tpcv tm); inversion Ha; subst; clear Ha; destruct (tpcv tm'); inversion Hb; subst; conflict_false.
Qed.

Lemma var_eqb_eq : forall a b, var_eqb a b = true -> a = b.
Proof. destruct a, b; simpl; intros; try discriminate; auto. apply Nat.eqb_eq in H. subst; auto. Qed.

Definition zone_u (p : cpc) : bool :=
  match p with CNgTT | CNgHist | CChTT | CRzNil | CRzTT => true | _ => false end.

Lemma saccess_char : forall s th c b, saccess s th c = Some b ->
  match avar b with
  | VStopPtr | VLimits | VHistory => awrite b = false
  | VTok _ => aatomic b = true
  | VTimeLimit | VExtraTime => aatomic b = true \/ awrite b = false
  | VCurPos => False
  | VHasResult | VLastResult => True
  | VBook => in_init (spcv th) = true
  | VTT => in_init (spcv th) = true \/ (awrite b = false /\ before_tt (spcv th) = false)
  | VOut => s_send (spcv th) = true
  end.
Proof.
  intros s th c b H. unfold saccess in H.
  destruct (spcv th), c; try destruct (cfgBook s); try destruct (cfgTT s); inversion H; subst; simpl; auto.
Qed.

Lemma caccess_char : forall s a, caccess s = Some a ->
  match avar a with
  | VStopPtr | VLimits => awrite a = true -> holds_run (cpcv s) = true
  | VHistory => zone_u (cpcv s) = true
  | VTok _ => aatomic a = true
  | VTimeLimit | VExtraTime | VHasResult | VLastResult => False
  | VCurPos => True
  | VBook => cpcv s <> CStWait
  | VTT => cpcv s <> CStWait /\ (awrite a = true -> cpcv s = CInTTW \/ zone_u (cpcv s) = true)
  | VOut => c_send (cpcv s) = true
  end.
Proof.
  intros s a H. unfold caccess in H.
  destruct (cpcv s); try destruct (cfgBook s); try destruct (cfgTT s); inversion H; subst; simpl; auto;
    try discriminate; try (split; [discriminate | auto]); try (split; [discriminate | discriminate]).
Qed.

Lemma ctl_search_noconflict : forall s n c a b, InvA s ->
  caccess s = Some a -> access_of s (TSearch n c) = Some b -> conflict a b = false.
Proof.
  intros s n c a b I Ha Hb. simpl in Hb.
  destruct (find_s n (srch s)) as [th|] eqn:F; try discriminate.
  destruct (srch_single _ _ _ (A_one _ I) F) as [Es En]. clear F.
  apply caccess_char in Ha. apply saccess_char in Hb.
  destruct I as [Ipan Ione Irun Iexcl Iinit Iphase Icall Izone Itt Ittw Itoks Isid Icp Iph Iout Ioutx Ibuf0 Ierr Icbuf Isbuf Ilim].
  unfold srch_init, srch_send in *. rewrite Es in *. simpl in *.
  specialize (Itt th (or_introl eq_refl)).
  assert (Hrun : holds_run (cpcv s) = false).
  { destruct (holds_run (cpcv s)) eqn:E; auto. specialize (Iexcl eq_refl). discriminate. }
  assert (Hz : zone_u (cpcv s) = true -> False).
  { intro E. assert (zone (cpcv s) (cur_call s) = true).
    { unfold zone. destruct (cpcv s); simpl in *; try discriminate; rewrite ?orb_true_r; auto. }
    specialize (Izone H). discriminate. }
  rewrite orb_false_r in *.
  destruct (conflict a b) eqn:Ec; auto. exfalso.
  destruct a as [va wa aa], b as [vb wb ab]. unfold conflict in Ec. simpl in *.
  apply andb_prop in Ec. destruct Ec as [Ec E3]. apply andb_prop in Ec. destruct Ec as [E1 E2].
  apply var_eqb_eq in E1. subst vb.
  destruct va; simpl in *; try contradiction.
  all: try (subst; rewrite orb_false_r in E2; subst; specialize (Ha eq_refl); congruence).
  all: try (subst; discriminate).
  all: try (apply Ha; auto; fail).
  all: try (specialize (Ioutx Ha); congruence).
  all: try (apply Hz; auto; fail).
  (* VTT *)
  destruct Ha as [Hw Ha]. destruct Hb as [Hb|[Hb1 Hb2]].
  - apply Hw. auto.
  - subst. rewrite orb_false_r in E2. subst. destruct (Ha eq_refl) as [X|X]; auto.
    destruct (Ittw X) as [Y Z]. specialize (Itt Hb2 Z). congruence.
Qed.

Lemma find_s_two : forall s n m th th', length (srch s) <= 1 ->
  find_s n (srch s) = Some th -> find_s m (srch s) = Some th' -> n = m.
Proof.
  intros. destruct (srch_single _ _ _ H H0). destruct (srch_single _ _ _ H H1). congruence.
Qed.

(* no two conflicting accesses of different goroutines are ever pending together (enabledness is not even needed) *)
Lemma no_conflict : forall s t1 t2 a b, InvA s -> thread_of t1 <> thread_of t2 ->
  access_of s t1 = Some a -> access_of s t2 = Some b -> conflict a b = false.
Proof.
  intros s t1 t2 a b I Hne Ha Hb.
  destruct t1 as [|n1 c1|k1|], t2 as [|n2 c2|k2|]; simpl in Hne; try congruence; try discriminate.
  - eapply ctl_search_noconflict; eauto.
  - simpl in Ha, Hb. destruct (find_t k2 (timers s)); try discriminate. rewrite conflict_sym. eapply timer_ctl_noconflict; eauto.
  - rewrite conflict_sym. eapply ctl_search_noconflict; eauto.
  - simpl in Ha, Hb. destruct (find_s n1 (srch s)) eqn:F1; try discriminate. destruct (find_s n2 (srch s)) eqn:F2; try discriminate.
    exfalso. apply Hne. f_equal. eapply find_s_two; eauto. apply (A_one _ I).
  - simpl in Ha, Hb. destruct (find_s n1 (srch s)); try discriminate. destruct (find_t k2 (timers s)); try discriminate.
    rewrite conflict_sym. eapply timer_search_noconflict; eauto.
  - simpl in Ha, Hb. destruct (find_t k1 (timers s)); try discriminate. eapply timer_ctl_noconflict; eauto.
  - simpl in Ha, Hb. destruct (find_s n2 (srch s)); try discriminate. destruct (find_t k1 (timers s)); try discriminate.
    eapply timer_search_noconflict; eauto.
  - simpl in Ha, Hb. destruct (find_t k1 (timers s)); try discriminate. destruct (find_t k2 (timers s)); try discriminate.
    eapply timer_timer_noconflict; eauto.
Qed.

Theorem race_free : forall s t1 t2 v, reachable s -> ~ race_at s t1 t2 v.
Proof.
  intros s t1 t2 v R [Hne [_ [_ [a [b [Ha [Hb [Hc _]]]]]]]].
  rewrite (no_conflict s t1 t2 a b (proj1 (inv_reachable s R)) Hne Ha Hb) in Hc. discriminate.
Qed.

(* non-vacuity: two goroutines with pending accesses to the same variable, both enabled, in a reachable state -
   the controller inside IsReady's send (holding sendLock, about to write OutIo) while the search goroutine
   waits for the lock in SendResult; and a timer storing into the token the search is about to load *)
Example race_free_nonvacuous :
  let s := run_sched (init true false false [CStart (mkLimits false false true 0 false false); CIsReady])
             (repeat TCtl 12 ++ repeat (TSearch 1 Go) 17 ++ repeat TCtl 4 ++ repeat (TTimer 0) 4) in
  (enabled s (TTimer 0), enabled s (TSearch 1 Go), access_of s (TTimer 0), access_of s (TSearch 1 Go)) =
  (true, true, awr (VTok 1), ard (VTok 1)).
Proof. vm_compute. reflexivity. Qed.

(** * Liveness invariant J *)

Definition tok_unset (s : state) : bool :=
  match tok_get (stopPtr s) (toks s) with None => true | Some _ => false end.
Definition th_risky (s : state) (th : sthread) : bool :=
  (lPonder (slim th) || lInfinite (slim th)) && tok_unset s.
Definition srch_risky (s : state) : bool := existsb (th_risky s) (srch s).
Definition after_stop_pc (p : cpc) (c : option call) : bool :=
  match p, c with
  | (CWRel | CNgTT | CNgHist), _ => true
  | CRet _, Some (CStop | CNewGame | CWait) => true
  | _, _ => false
  end.
Definition stop_wait_pc (p : cpc) (c : option call) : bool :=
  match p, c with (CWAcq | CWRel), Some (CStop | CNewGame) => true | _, _ => false end.
Definition wait_pc_ok (p : spc) (l : limits) : Prop :=
  match p with SWaitPtr | SWaitTok _ => lPonder l || lInfinite l = true | _ => True end.

Record InvJ (s : state) : Prop := {
  J_tok : stop_wait_pc (cpcv s) (cur_call s) = true -> tok_unset s = false;
  J_wf : wfr (srch_risky s) (calls s) = true;
  J_after : after_stop_pc (cpcv s) (cur_call s) = true -> srch s = [];
  J_wait : forall th, In th (srch s) -> wait_pc_ok (spcv th) (slim th)
}.

Lemma wfr_le : forall cs r1 r2, (r1 = true -> r2 = true) -> wfr r2 cs = true -> wfr r1 cs = true.
Proof.
  induction cs as [|c cs IH]; simpl; intros r1 r2 H H0; auto.
  destruct c; eauto.
  - eapply IH; [|eauto]. destruct r1, r2; simpl; auto. specialize (H eq_refl); discriminate.
  - apply andb_prop in H0. destruct H0 as [H0 H1]. rewrite H1. destruct r1, r2; simpl in *; auto; try (specialize (H eq_refl); discriminate).
Qed.

Lemma tok_set_keeps : forall l p q r x, tok_get q l = Some x -> tok_get q (tok_set p r l) = Some x.
Proof.
  intros. destruct (Nat.eq_dec p q).
  - subst. rewrite tok_get_set_same by (eapply tok_get_lt; eauto). rewrite H. reflexivity.
  - rewrite tok_get_set_other by auto. auto.
Qed.
Lemma tok_unset_set : forall s p r, stopPtr s = stopPtr s ->
  (match tok_get (stopPtr s) (tok_set p r (toks s)) with None => true | Some _ => false end) = true -> tok_unset s = true.
Proof.
  intros s p r _ H. unfold tok_unset. destruct (tok_get (stopPtr s) (toks s)) eqn:E; auto.
  rewrite (tok_set_keeps _ p _ r _ E) in H. discriminate.
Qed.

Lemma invJ_init : forall a b c cs, well_formed_calls cs = true -> InvJ (init a b c cs).
Proof. intros. constructor; simpl; auto; try discriminate. intros; contradiction. Qed.

Lemma invJ_tick : forall s, InvJ s -> InvJ (set_clock (S (clock s)) s).
Proof. intros s [ ]; constructor; simpl; auto. Qed.

Lemma srch_risky_set : forall s s' p r, srch s' = srch s -> stopPtr s' = stopPtr s -> toks s' = tok_set p r (toks s) ->
  srch_risky s' = true -> srch_risky s = true.
Proof.
  intros s s' p r Hs Hp Ht H. unfold srch_risky in *. rewrite Hs in H. apply existsb_exists in H.
  destruct H as [th [Hin Hr]]. apply existsb_exists. exists th. split; auto.
  unfold th_risky in *. apply andb_prop in Hr. destruct Hr as [H1 H2]. rewrite H1. simpl.
  unfold tok_unset in H2. rewrite Hp, Ht in H2. eapply tok_unset_set; eauto.
Qed.

Lemma invJ_timer : forall s k s', InvA s -> InvJ s -> step s (TTimer k) = Some s' -> InvJ s'.
Proof.
  intros s k s' IA I H. unfold step in H. rewrite (A_pan _ IA) in H.
  destruct (find_t k (timers s)) as [th|] eqn:F; try discriminate.
  unfold tstep in H. destruct I as [Jtok Jwf Jafter Jwait].
  destruct (tpcv th); try destruct (tok_get (ttok th) (toks s)) eqn:Etok; inv_some;
    constructor; unfold upd_t, cur_call in *; simpl; auto.
  all: try (intros Hp; specialize (Jtok Hp); unfold tok_unset, emit in *; simpl;
            destruct (tok_get (stopPtr s) (toks s)) eqn:E; try discriminate;
            rewrite (tok_set_keeps _ _ _ _ _ E); reflexivity).
  all: try (eapply wfr_le; [|exact Jwf]; intro Hr;
            eapply (srch_risky_set s _ (ttok th) (RTimer (tmid th) (ttok th) (tcreator th))); [| | |exact Hr]; reflexivity).
Qed.

Lemma invJ_search : forall s n c s', InvA s -> InvJ s -> step s (TSearch n c) = Some s' -> InvJ s'.
Proof.
  intros s n c s' IA I H. unfold step in H. rewrite (A_pan _ IA) in H.
  destruct (find_s n (srch s)) as [th|] eqn:F; try discriminate.
  destruct (srch_single _ _ _ (A_one _ IA) F) as [Es En]. clear F.
  assert (Herr := A_err _ IA).
  destruct (A_sid _ IA th) as [Esid [Elim Epar]]. { rewrite Es; simpl; auto. }
  destruct I as [Jtok Jwf Jafter Jwait].
  assert (Haft : after_stop_pc (cpcv s) (cur_call s) = false).
  { destruct (after_stop_pc (cpcv s) (cur_call s)); auto. specialize (Jafter eq_refl). congruence. }
  unfold cur_call in Haft.
  specialize (Jwait th). rewrite Es in Jwait. specialize (Jwait (or_introl eq_refl)).
  unfold srch_risky, th_risky, tok_unset in Jwf. rewrite Es in Jwf. simpl in Jwf.
  unfold sstep, goto_s, upd_s, out_stage1, out_stage2, out_stage3 in H. rewrite Elim, Es, ?Herr in H.
  destruct (spcv th) eqn:Epc; destruct c; try discriminate;
  repeat match goal with
  | H : (if ?b then _ else _) = Some _ |- _ => destruct b eqn:?; try discriminate
  | H : match tok_get ?p ?l with _ => _ end = Some _ |- _ => destruct (tok_get p l) eqn:?
  end;
  try inv_some.
  all: simpl in *; subst.
  all: unfold rel_init, rel_run, rel_out, new_timer, emit, after_init_s.
  all: simpl; rewrite ?Es; simpl; rewrite ?Nat.eqb_refl; simpl.
  all: repeat match goal with |- context [if ?b then _ else _] => destruct b eqn:? end.
  all: simpl; rewrite ?Es; simpl; rewrite ?Nat.eqb_refl; simpl.
  all: constructor; unfold cur_call, srch_risky, th_risky, tok_unset in *; simpl; rewrite ?Es; simpl; rewrite ?Haft; auto; try discriminate.
  all: try (intros; dest_in; simpl in *; auto; try discriminate; try congruence; fail).
  all: try (intros; contradiction).
  all: rewrite ?tok_get_set_same by (rewrite (A_toks _ IA); lia); simpl; rewrite ?andb_false_r; simpl; auto.
  all: try (eapply wfr_le; [|exact Jwf]; discriminate).
  all: try (eapply wfr_le; [|exact Jwf]; repeat match goal with H : tok_get _ _ = _ |- _ => rewrite H end; auto; fail).
  all: try (rewrite Heqb; exact Jwf).
Qed.

Lemma invJ_ctl : forall s s', InvA s -> InvJ s -> step s TCtl = Some s' -> InvJ s'.
Proof.
  intros s s' IA I H. unfold step in H. rewrite (A_pan _ IA) in H.
  assert (Herr := A_err _ IA). assert (Hone := A_one _ IA). assert (Hcall := A_call _ IA).
  assert (Hcp := A_cparam _ IA). assert (Hexcl := A_excl _ IA). assert (Htoks := A_toks _ IA).
  assert (Hrun := A_run _ IA).
  destruct I as [Jtok Jwf Jafter Jwait].
  unfold cstep, cur_call, cparam_ok in *.
  unfold out_stage1, out_stage2, out_stage3 in H. rewrite ?Herr in H.
  destruct (calls s) as [|c cs] eqn:Ec; simpl in *; try discriminate.
  destruct (cpcv s) eqn:Epc; simpl in *; destruct c; try discriminate;
    repeat match goal with
    | H : (if ?b then _ else _) = Some _ |- _ => destruct b eqn:?; try discriminate
    | H : match limitsVar ?s with _ => _ end = Some _ |- _ => destruct (limitsVar s) eqn:?
    end; try inv_some; try discriminate.
  all: simpl in *.
  all: unfold rel_init, rel_run, rel_out, new_timer, emit_opt, emit, after_init_c.
  all: repeat match goal with |- context [if ?b then _ else _] => destruct b eqn:? end.
  all: repeat match goal with |- context [match ?b with Some _ => _ | None => _ end] => destruct b eqn:? end.
  all: repeat match goal with |- context [match ?b with LReady => _ | _ => _ end] => destruct b eqn:? end.
  all: simpl.
  all: constructor; unfold cur_call in *; simpl; rewrite ?Ec, ?Epc; simpl; auto; try discriminate; try congruence.
  all: try (assert (Hnil : srch s = []) by (first [apply Hexcl; reflexivity | apply Jafter; reflexivity]); rewrite ?Hnil in * ).
  all: unfold srch_risky, th_risky, tok_unset in *; simpl in *; rewrite ?Hnil in *; simpl in *; auto.
  all: rewrite ?tok_get_set_same by (rewrite Htoks; lia); simpl; auto.
  all: try (apply andb_prop in Jwf; destruct Jwf as [_ Jwf]; exact Jwf).
  all: try (eapply wfr_le; [|exact Jwf]; intro X; rewrite ?orb_false_r in X; rewrite ?X; auto; try (apply andb_prop in X; destruct X as [X _]; rewrite X; reflexivity); fail).
  all: try (intros th0 [E|[]]; subst; simpl; auto; fail).
  all: try (eapply wfr_le; [|exact Jwf]; intro X; destruct (lPonder l || lInfinite l); simpl in *; auto; fail).
  all: try (intros _; destruct (srch s); auto; discriminate).
Qed.

Lemma invJ_step : forall s t s', InvA s -> InvJ s -> step s t = Some s' -> InvJ s'.
Proof.
  intros s t s' IA I H. destruct t.
  - eapply invJ_ctl; eauto.
  - eapply invJ_search; eauto.
  - eapply invJ_timer; eauto.
  - unfold step in H. rewrite (A_pan _ IA) in H. inv_some. apply invJ_tick; auto.
Qed.

(** * no_deadlock *)

(** ** local statement: a blocked controller is never alone *)

Definition ctl_blocked (s : state) : Prop := controller_done s = false /\ step s TCtl = None.

Lemma search_go_enabled : forall s th, panicked s = false -> In th (srch s) -> length (srch s) <= 1 ->
  (match spcv th with SInfo0 | SRes0 => outFree s = true | _ => True end) ->
  exists c, step s (TSearch (sid th) c) <> None.
Proof.
  intros s th Hp Hin Hone Hl.
  assert (F : find_s (sid th) (srch s) = Some th).
  { destruct (srch s) as [|x [|y r]]; simpl in *; try lia; try contradiction. destruct Hin as [E|[]]; subst.
    unfold find_s; simpl. rewrite Nat.eqb_refl. reflexivity. }
  exists Go. unfold step. rewrite Hp, F. unfold sstep, goto_s.
  destruct (spcv th); try rewrite Hl; try discriminate;
    try (destruct (limitsVar s); discriminate); try (destruct (tok_get _ _); discriminate);
    try (destruct (out_stage2 s); discriminate).
Qed.

Theorem no_deadlock_local : forall s, reachable s -> ctl_blocked s ->
  exists t, thread_of t <> ThCtl /\ thread_of t <> ThClock /\ step s t <> None.
Proof.
  intros s R [Hd Hb]. destruct (inv_reachable s R) as [IA IB].
  pose proof (A_pan _ IA) as Hp. pose proof (A_one _ IA) as Hone.
  unfold step in Hb. rewrite Hp in Hb. unfold cstep, controller_done in *.
  unfold cur_call in Hb. destruct (calls s) as [|c cs] eqn:Ec; try discriminate. simpl in Hb.
  pose proof (A_run _ IA) as Hrun. pose proof (A_init _ IA) as Hinit. pose proof (A_out _ IA) as Hout.
  pose proof (A_phase _ IA) as Hph. pose proof (A_call _ IA) as Hcall. pose proof (A_ph _ IA) as Hphl.
  unfold cur_call in Hcall. rewrite Ec in Hcall. simpl in Hcall.
  assert (X : exists th, In th (srch s) /\ (match spcv th with SInfo0 | SRes0 => outFree s = true | _ => True end)).
  { unfold srch_init, srch_send in *.
    destruct (cpcv s) eqn:Epc; simpl in *; destruct c; try discriminate;
    repeat match goal with
    | H : (if ?b then _ else _) = None |- _ => destruct b eqn:?; try discriminate
    | H : match limitsVar ?s with _ => _ end = None |- _ => destruct (limitsVar s) eqn:?; try discriminate
    | H : (let (_, _) := out_stage2 ?s in _) = None |- _ => destruct (out_stage2 s); discriminate
    end; try discriminate.
    all: destruct (srch s) as [|th [|th2 r]] eqn:Es; simpl in *; try lia; try discriminate.
    all: try (exists th; split; [auto|]; destruct (spcv th); simpl in *; auto; try discriminate; fail).
    all: try (exfalso; apply Hphl; auto; fail). }
  destruct X as [th [Hin Hl]].
  destruct (search_go_enabled s th Hp Hin Hone Hl) as [ch Hs].
  exists (TSearch (sid th) ch). simpl. repeat split; auto; discriminate.
Qed.

(** ** global statement: a schedule that completes all controller calls exists from every reachable state *)

Definition crank (p : cpc) : nat :=
  match p with
  | CIdle => 40
  | CStTry => 30 | CStAcqInit => 29 | CStPos => 28 | CStLim => 27 | CStTok => 26 | CStGo => 25 | CStWait => 24 | CStRel => 23
  | CSpPtr => 35 | CSpStore _ => 34 | CWAcq => 33 | CWRel => 32 | CNgTT => 31 | CNgHist => 30
  | CIsTry => 35 | CIsRel => 34 | CPhLim => 33 | CPhPtr => 32 | CPhGo _ => 31
  | CChTT => 33 | CRzNil => 33
  | CInBook => 25 | CInBookW => 24 | CInTT => 23 | CInTTW => 22 | CRzTT => 21
  | CSend0 _ _ => 10 | CSend1 _ _ => 9 | CSend2 _ => 8 | CSend3 _ _ => 7 | CSend4 _ => 6
  | CRet _ => 1
  end.
Definition srank (p : spc) : nat :=
  match p with
  | SHasRes0 => 500 | STL0 => 490 | SET0 => 480 | SInBook => 470 | SInBookW => 460 | SInTT => 450 | SInTTW => 440
  | SSetTL => 430 | SSetET => 420 | SLimTimer => 410 | STimerPtr => 400 | STimerGo _ => 390 | SBook => 380
  | STTAge => 370 | SHist => 360 | SRelInit => 350
  | SNodesPtr => 157 | SNodesStore _ => 156 | SPollPtr => 155 | SPollTok _ => 154 | SPollLim => 153
  | SPoll2Ptr => 152 | SPoll2Tok _ => 151 | SNodeTT => 150 | SNodeHist => 149
  | SInfo0 => 148 | SInfo1 => 147 | SInfo2 => 146 | SInfo3 _ => 145 | SInfo4 => 144
  | SExtra1 => 143 | SExtra2 _ => 142 | SExtra3 _ => 141 | SLoop => 140
  | SWaitLim => 130 | SWaitPtr => 129 | SWaitTok _ => 128
  | SLastRes => 120 | SHasRes1 => 119 | SEndPtr => 118 | SEndStore _ => 117
  | SRes0 => 116 | SRes1 => 115 | SRes2 => 114 | SRes3 _ => 113 | SRes4 => 112 | SRelRun => 111
  end.
Definition ctl_rank (s : state) : nat := length (calls s) * 41 + crank (cpcv s).
Definition srch_rank (s : state) : nat := list_sum (map (fun th => srank (spcv th)) (srch s)).
Definition measure (s : state) : nat := ctl_rank s * 1000 + srch_rank s.

Lemma ctl_progress : forall s s', InvA s -> cstep s = Some s' ->
  ctl_rank s' < ctl_rank s /\ srch_rank s' <= srch_rank s + 500.
Proof.
  intros s s' IA H. assert (Hcall := A_call _ IA). assert (Herr := A_err _ IA).
  unfold cstep, cur_call in *.
  unfold out_stage1, out_stage2, out_stage3 in H. rewrite ?Herr in H.
  destruct (calls s) as [|c cs] eqn:Ec; simpl in H, Hcall; try discriminate.
  destruct (cpcv s) eqn:Epc; simpl in H, Hcall; destruct c; try discriminate;
    repeat match goal with
    | H : (if ?b then _ else _) = Some _ |- _ => destruct b eqn:?; try discriminate
    | H : match limitsVar ?s with _ => _ end = Some _ |- _ => destruct (limitsVar s) eqn:?
    end; try inv_some; try discriminate.
  all: unfold rel_init, rel_run, rel_out, new_timer, emit_opt, emit, after_init_c.
  all: repeat match goal with |- context [if ?b then _ else _] => destruct b eqn:? end.
  all: repeat match goal with |- context [match ?b with Some _ => _ | None => _ end] => destruct b eqn:? end.
  all: repeat match goal with |- context [match ?b with LReady => _ | _ => _ end] => destruct b eqn:? end.
  all: unfold ctl_rank, srch_rank; cbn -[Nat.mul Nat.add]; rewrite ?Ec, ?Epc; cbn -[Nat.mul Nat.add]; try lia.
  all: try (split; [lia | unfold list_sum; cbn -[Nat.mul Nat.add]; lia]).
  exfalso. apply (A_ph _ IA); [rewrite Epc; reflexivity | assumption].
Qed.

Lemma search_progress : forall s th, InvA s -> srch s = [th] ->
  (match spcv th with SInfo0 | SRes0 => outFree s = true | SWaitTok _ => tok_unset s = false | _ => True end) ->
  exists c s', step s (TSearch (sid th) c) = Some s' /\ srch_rank s' < srch_rank s /\ ctl_rank s' = ctl_rank s.
Proof.
  intros s th IA Es Hc.
  assert (Hp := A_pan _ IA). assert (Herr := A_err _ IA).
  destruct (A_sid _ IA th) as [Esid [Elim Epar]]. { rewrite Es; simpl; auto. }
  exists (match spcv th with SLoop => Finish | _ => Go end).
  unfold step. rewrite Hp. unfold find_s. rewrite Es. simpl. rewrite Nat.eqb_refl.
  unfold sstep, goto_s, upd_s, out_stage1, out_stage2, out_stage3. rewrite Elim, Es, ?Herr.
  unfold tok_unset in Hc.
  destruct (spcv th) eqn:Epc; simpl in Epar; subst;
    try rewrite Hc;
    repeat match goal with
    | |- context [match tok_get ?p ?l with _ => _ end] => destruct (tok_get p l) eqn:?; try discriminate
    | |- context [if ?b then _ else _] => destruct b eqn:?
    end;
    eexists; (split; [reflexivity|]);
    unfold srch_rank, ctl_rank, rel_init, rel_run, rel_out, new_timer, emit;
    repeat match goal with |- context [if ?b then _ else _] => destruct b eqn:? end;
    unfold list_sum; cbn -[Nat.mul Nat.add]; rewrite ?Es; cbn -[Nat.mul Nat.add]; rewrite ?Nat.eqb_refl; cbn -[Nat.mul Nat.add]; rewrite ?Epc; cbn -[Nat.mul Nat.add]; try (split; lia).
  all: unfold after_init_s; destruct (lTimeControl (slim th)); cbn -[Nat.mul Nat.add]; split; lia.
Qed.

Lemma blocked_search_cond : forall s, InvA s -> InvJ s -> controller_done s = false -> cstep s = None ->
  exists th, srch s = [th] /\
      (match spcv th with SInfo0 | SRes0 => outFree s = true | SWaitTok _ => tok_unset s = false | _ => True end).
Proof.
  intros s IA IJ Hd Hc.
  pose proof (A_one _ IA) as Hone. pose proof (A_run _ IA) as Hrun. pose proof (A_init _ IA) as Hinit.
  pose proof (A_out _ IA) as Hout. pose proof (A_call _ IA) as Hcall. pose proof (A_ph _ IA) as Hphl.
  pose proof (J_tok _ IJ) as Jtok. pose proof (J_wf _ IJ) as Jwf. pose proof (J_wait _ IJ) as Jwait.
  unfold cstep, controller_done, cur_call, srch_init, srch_send, srch_risky, th_risky in *.
  destruct (calls s) as [|c cs] eqn:Ec; try discriminate. simpl in Hc, Hcall, Jtok.
  destruct (cpcv s) eqn:Epc; simpl in *; destruct c; try discriminate;
  repeat match goal with
  | H : (if ?b then _ else _) = None |- _ => destruct b eqn:?; try discriminate
  | H : match limitsVar ?s with _ => _ end = None |- _ => destruct (limitsVar s) eqn:?; try discriminate
  | H : (let (_, _) := out_stage2 ?s in _) = None |- _ => destruct (out_stage2 s); discriminate
  end; try discriminate.
  all: destruct (srch s) as [|th [|th2 r]] eqn:Es; simpl in *; try lia; try discriminate.
  all: try (exfalso; apply Hphl; auto; fail).
  all: exists th; split; [reflexivity|]; specialize (Jwait th (or_introl eq_refl)).
  all: destruct (spcv th); simpl in *; auto; try discriminate.
  all: try (rewrite Jwait in Jwf; simpl in Jwf; rewrite orb_false_r in Jwf;
            destruct (tok_unset s); simpl in Jwf; auto; discriminate).
Qed.

Lemma progress : forall s, InvA s -> InvJ s -> controller_done s = false ->
  exists t s', step s t = Some s' /\ measure s' < measure s.
Proof.
  intros s IA IJ Hd. pose proof (A_pan _ IA) as Hp.
  destruct (cstep s) as [s'|] eqn:Hc.
  - exists TCtl, s'. split. { unfold step. rewrite Hp. exact Hc. }
    destruct (ctl_progress s s' IA Hc). unfold measure. lia.
  - destruct (blocked_search_cond s IA IJ Hd Hc) as [th [Es Hcond]].
    destruct (search_progress s th IA Es Hcond) as [c [s' [Hs [H1 H2]]]].
    exists (TSearch (sid th) c), s'. split; auto. unfold measure. lia.
Qed.

(* a blocked controller is released by the search goroutine ALONE, within a bounded number of its steps
   (bound: srch_rank <= 500; <= 157 once the search is past its initialisation, i.e. for StopSearch /
   WaitWhileSearching / the sendLock): StartSearch returns, stop ends the search promptly, readyok is prompt *)
Definition is_search_tid (t : tid) : bool := match t with TSearch _ _ => true | _ => false end.

Lemma search_step_keeps_ctl : forall s n c s', step s (TSearch n c) = Some s' ->
  panicked s' = false -> calls s' = calls s /\ cpcv s' = cpcv s.
Proof.
  intros s n c s' H Hp. unfold step in H. destruct (panicked s); try discriminate.
  destruct (find_s n (srch s)) as [th|]; try discriminate.
  unfold sstep, goto_s, upd_s, out_stage1, out_stage2, out_stage3, rel_init, rel_run, rel_out, new_timer, emit in H.
  destruct (spcv th), c; try discriminate;
  repeat match goal with
  | H : context [if ?b then _ else _] |- _ => destruct b eqn:?; try discriminate
  | H : context [match tok_get ?p ?l with _ => _ end] |- _ => destruct (tok_get p l) eqn:?
  | H : context [match limitsVar ?s with _ => _ end] |- _ => destruct (limitsVar s) eqn:?
  end; inv_some; simpl in *; auto; try discriminate.
Qed.

Theorem blocked_controller_released : forall k s, srch_rank s < k -> Inv s -> InvJ s -> ctl_blocked s ->
  exists sched, forallb is_search_tid sched = true /\ length sched < k /\
                cstep (run_sched s sched) <> None /\ calls (run_sched s sched) = calls s.
Proof.
  induction k; intros s Hk I J [Hd Hb]; try lia.
  pose proof (A_pan _ (proj1 I)) as Hp. unfold step in Hb. rewrite Hp in Hb.
  destruct (blocked_search_cond s (proj1 I) J Hd Hb) as [th [Es Hcond]].
  destruct (search_progress s th (proj1 I) Es Hcond) as [c [s' [Hs [H1 H2]]]].
  assert (I' : Inv s') by (eapply inv_step; eauto).
  assert (J' : InvJ s') by (eapply invJ_step; eauto; apply I).
  destruct (search_step_keeps_ctl _ _ _ _ Hs (A_pan _ (proj1 I'))) as [Ecalls Epc].
  destruct (cstep s') eqn:Hc'.
  - exists [TSearch (sid th) c]. simpl. rewrite Hs. repeat split; auto; try lia. congruence.
  - destruct (IHk s') as [sched [F [L [C E]]]]; try lia; auto.
    { split. { unfold controller_done in *. rewrite Ecalls. auto. } unfold step. rewrite (A_pan _ (proj1 I')). auto. }
    exists (TSearch (sid th) c :: sched). simpl. rewrite Hs. repeat split; auto; try lia. congruence.
Qed.
Lemma invJ_sched : forall sched s, Inv s -> InvJ s -> InvJ (run_sched s sched).
Proof.
  induction sched; simpl; intros; auto.
  destruct (step s a) eqn:E; auto. apply IHsched; [eapply inv_step | eapply invJ_step]; eauto. apply H.
Qed.

Lemma completes : forall n s, measure s < n -> Inv s -> InvJ s -> exists sched, controller_done (run_sched s sched) = true.
Proof.
  induction n; intros s Hm I J; try lia.
  destruct (controller_done s) eqn:Hd.
  - exists []. simpl. auto.
  - destruct (progress s (proj1 I) J Hd) as [t [s' [Hs Hlt]]].
    destruct (IHn s') as [sched Hdone]; try lia.
    + eapply inv_step; eauto.
    + eapply invJ_step; eauto. apply I.
    + exists (t :: sched). simpl. rewrite Hs. auto.
Qed.

(* every call sequence of the UCI command loop (no WaitWhileSearching) is well formed *)
Lemma no_wait_well_formed : forall cs r, (forall c, In c cs -> c <> CWait) -> wfr r cs = true.
Proof.
  induction cs as [|c cs IH]; simpl; intros; auto.
  destruct c; try (apply IH; intros; apply H; auto).
  exfalso. apply (H CWait); auto.
Qed.

Theorem no_deadlock : forall a b c cs s,
  well_formed_calls cs = true -> reachable_from (init a b c cs) s ->
  exists sched, controller_done (run_sched s sched) = true.
Proof.
  intros a b c cs s Hwf [sched0 R]. subst.
  apply (completes (S (measure (run_sched (init a b c cs) sched0)))); try lia.
  - apply inv_sched. split; [apply invA_init | apply invB_init].
  - apply invJ_sched. { split; [apply invA_init | apply invB_init]. } apply invJ_init; auto.
Qed.

Lemma srank_le : forall p, srank p <= 500.
Proof. destruct p; simpl; lia. Qed.
Lemma srch_rank_le : forall s, InvA s -> srch_rank s <= 500.
Proof.
  intros s IA. pose proof (A_one _ IA). unfold srch_rank. destruct (srch s) as [|th [|th2 r]]; simpl in *; try lia.
  pose proof (srank_le (spcv th)). lia.
Qed.

Corollary blocked_controller_released_bound : forall s, reachable s -> InvJ s -> ctl_blocked s ->
  exists sched, forallb is_search_tid sched = true /\ length sched <= 500 /\ cstep (run_sched s sched) <> None.
Proof.
  intros s R J Hb. pose proof (inv_reachable s R) as I.
  destruct (blocked_controller_released 501 s) as [sched [F [L [C _]]]]; auto.
  - pose proof (srch_rank_le s (proj1 I)). lia.
  - exists sched. repeat split; auto. lia.
Qed.

(* non-vacuity: well-formed call list, reachable state with the controller blocked in StopSearch on an infinite search *)
Example no_deadlock_nonvacuous :
  let cs := [CStart (mkLimits true false false 0 false false); CIsReady; CStop; CStart (mkLimits false true true 1 false false); CPonderHit; CNewGame] in
  let s := run_sched (init true false false cs) (repeat TCtl 12 ++ repeat (TSearch 1 Go) 15 ++ repeat TCtl 20) in
  (well_formed_calls cs, controller_done s, enabled s TCtl, cpcv s, enabled s (TSearch 1 Go)) = (true, false, false, CWAcq, true).
Proof. vm_compute. reflexivity. Qed.

(* ... and a complete run of that session *)
Example no_deadlock_run :
  let cs := [CStart (mkLimits true false false 0 false false); CIsReady; CStop; CStart (mkLimits false true true 1 false false); CPonderHit; CNewGame] in
  let s := run_sched (init true false false cs)
             (repeat TCtl 12 ++ repeat (TSearch 1 Go) 15 ++ repeat TCtl 20 ++ repeat (TSearch 1 Go) 40 ++ repeat TCtl 20
              ++ repeat (TSearch 2 Go) 15 ++ repeat TCtl 20 ++ repeat (TSearch 2 Go) 40 ++ repeat TCtl 20) in
  (controller_done s, rev (trace s), results s) =
  (true, [EStartReturned 1; EReadyOk; EResult 1; EStopReturned; EStartReturned 2; EPonderHitReturned; EResult 2; ENewGameReturned],
   [(2, RStop 5); (1, RStop 2)]).
Proof. vm_compute. reflexivity. Qed.

(** * The OutIo writer *)

(* with sendLock the sticky bufio error is unreachable: the engine is never muted by its own output *)
Theorem output_never_muted : forall s, reachable s -> outErr s = false.
Proof. intros s R. apply (A_err _ (proj1 (inv_reachable s R))). Qed.

(* documentation of the defect repaired by sendLock (uci.go before "output of the UCI handler is serialised"):
   WITHOUT the lock the three bufio stages of two goroutines interleave; if goroutine B's WriteString falls
   between goroutine A's Write(buf[0:n]) and A's `n < b.n` check, A records io.ErrShortWrite in the writer and
   every later line (readyok, bestmove) is silently dropped.  Confirmed on the engine before the repair:
   `position fen 8/8/4k3/8/8/4K3/4P3/8 w - - 0 1`, `go infinite`, 3000 x `isready`, `stop`: 4 of 8 runs mute. *)
Lemma bufio_unlocked_interleaving_mutes : forall s a b,
  outErr s = false -> outBuf s = [] ->
  let sA1 := out_stage1 a s in                 (* A: WriteString *)
  let (sA2, k) := out_stage2 sA1 in            (* A: Flush, Write(buf[0:n]) *)
  let sB1 := out_stage1 b sA2 in               (* B: WriteString in between *)
  let sA3 := out_stage3 k sB1 in               (* A: n < b.n  ->  sticky error *)
  outErr sA3 = true /\
  forall c, outLines (fst (out_stage2 (out_stage1 c sA3))) = outLines sA3.   (* nothing is ever written again *)
Proof.
  intros s a b He Hb. unfold out_stage1, out_stage2, out_stage3. rewrite He. simpl. rewrite He, Hb. simpl.
  rewrite He. simpl. rewrite He. simpl. split; auto.
Qed.


(** * Assumptions *)
Print Assumptions race_free.
Print Assumptions no_deadlock_local.
Print Assumptions no_deadlock.
Print Assumptions blocked_controller_released.
Print Assumptions blocked_controller_released_bound.
Print Assumptions output_never_muted.
