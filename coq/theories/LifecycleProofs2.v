(** * LifecycleProofs2: the theorems about the lifecycle model [Lifecycle.v] (properties C14, C12-lifecycle),
    from the invariant of LifecycleProofs.v.  All theorems quantify over ALL schedules (lists of thread ids,
    [reachable]) and all call sequences. *)
From Coq Require Import List Bool Arith PeanoNat Lia.
Import ListNotations.
Set Warnings "-unused-intro-pattern".
From FG Require Import Lifecycle LifecycleProofs.

(** * start_while_running_rejected *)

(* the state components a rejected start must not touch *)
Definition same_search_state (s s' : state) : Prop :=
  curPos s' = curPos s /\ limitsVar s' = limitsVar s /\ stopPtr s' = stopPtr s /\ toks s' = toks s /\
  srch s' = srch s /\ timers s' = timers s /\ ntimers s' = ntimers s /\ starts s' = starts s /\
  runFree s' = runFree s /\ initFree s' = initFree s /\ timeLimit s' = timeLimit s /\ extraTime s' = extraTime s /\
  results s' = results s.

Lemma ctl_dispatch_start : forall s l, panicked s = false -> cpcv s = CIdle -> cur_call s = Some (CStart l) ->
  step s TCtl = Some (set_cpcv CStTry (emit (ECall (cidx s)) s)).
Proof. intros s l Hp Hpc Hc. unfold step, cstep. rewrite Hp, Hc, Hpc. reflexivity. Qed.
Lemma ctl_try_rejected : forall s l, panicked s = false -> cpcv s = CStTry -> cur_call s = Some (CStart l) -> runFree s = false ->
  step s TCtl = Some (set_cpcv (CRet (Some EStartRejected)) s).
Proof. intros s l Hp Hpc Hc Hr. unfold step, cstep. rewrite Hp, Hc, Hpc, Hr. reflexivity. Qed.
Lemma ctl_return : forall s r c, panicked s = false -> cpcv s = CRet r -> cur_call s = Some c ->
  step s TCtl = Some (set_cpcv CIdle (set_cidx (S (cidx s)) (set_done (c :: done s) (set_calls (tl (calls s)) (emit_opt r s))))).
Proof. intros s r c Hp Hpc Hc. unfold step, cstep. rewrite Hp, Hc, Hpc. reflexivity. Qed.

Theorem start_while_running_rejected : forall s l,
  panicked s = false -> cpcv s = CIdle -> cur_call s = Some (CStart l) -> runFree s = false ->
  let s3 := run_sched s [TCtl; TCtl; TCtl] in
  same_search_state s s3 /\ cpcv s3 = CIdle /\ calls s3 = tl (calls s) /\ cidx s3 = S (cidx s) /\
  trace s3 = EStartRejected :: ECall (cidx s) :: trace s.
Proof.
  intros s l Hp Hpc Hc Hr. cbv zeta. unfold run_sched.
  rewrite (ctl_dispatch_start s l Hp Hpc Hc).
  rewrite (ctl_try_rejected (set_cpcv CStTry (emit (ECall (cidx s)) s)) l Hp eq_refl Hc Hr).
  rewrite (ctl_return (set_cpcv (CRet (Some EStartRejected)) (set_cpcv CStTry (emit (ECall (cidx s)) s))) (Some EStartRejected) (CStart l) Hp eq_refl Hc).
  unfold same_search_state. cbn. repeat split; reflexivity.
Qed.

(* the decision itself, for an arbitrary interleaving: whenever the TryAcquire of a StartSearch is executed
   while isRunning is held, the call is rejected in that step, nothing of the running search changes, no
   goroutine is created, and the remaining controller step (return) is never blocked *)
Theorem start_rejected_step : forall s l,
  panicked s = false -> cpcv s = CStTry -> cur_call s = Some (CStart l) -> runFree s = false ->
  exists s', step s TCtl = Some s' /\ cpcv s' = CRet (Some EStartRejected) /\ same_search_state s s' /\
             trace s' = trace s /\ calls s' = calls s.
Proof.
  intros s l Hp Hpc Hc Hr. unfold step, cstep. rewrite Hp, Hc, Hpc, Hr. eexists; split; [reflexivity|].
  unfold same_search_state; simpl; repeat split; auto.
Qed.

(* the controller steps of a rejected StartSearch (dispatch, TryAcquire, return) are enabled in every state *)
Theorem start_rejected_never_blocks : forall s,
  panicked s = false -> cur_call s <> None ->
  (cpcv s = CIdle \/ (cpcv s = CStTry /\ exists l, cur_call s = Some (CStart l)) \/ exists r, cpcv s = CRet r) ->
  step s TCtl <> None.
Proof.
  intros s Hp Hc H. unfold step, cstep. rewrite Hp. destruct (cur_call s) as [c|]; try congruence.
  destruct H as [H|[[H [l Hl]]|[r H]]]; rewrite H; try discriminate.
  inversion Hl; subst. destruct (runFree s); discriminate.
Qed.

Example start_while_running_rejected_nonvacuous :
  let s := run_sched (init true false false [CStart (mkLimits true false false 0 false false); CStart (mkLimits false false false 0 false false)])
                     [TCtl; TCtl; TCtl; TCtl; TCtl; TCtl; TCtl; TSearch 1 Go; TSearch 1 Go; TSearch 1 Go; TSearch 1 Go; TSearch 1 Go; TSearch 1 Go; TSearch 1 Go;
                      TSearch 1 Go; TSearch 1 Go; TSearch 1 Go; TSearch 1 Go; TCtl; TCtl; TCtl] in
  (panicked s, cpcv s, cur_call s, runFree s, map sid (srch s)) =
  (false, CIdle, Some (CStart (mkLimits false false false 0 false false)), false, [1]).
Proof. vm_compute. reflexivity. Qed.

(** * one_result_per_start, result_belongs_to_start *)

Definition start_pending (p : cpc) : bool :=     (* accepted, goroutine not yet created *)
  match p with CStAcqInit | CStPos | CStLim | CStTok | CStGo => true | _ => false end.
Definition finished (s : state) (n : nat) : Prop :=
  In n (start_ids (starts s)) /\ ~ In n (map sid (srch s ++ senders s)) /\ ~ (n = nacc s /\ start_pending (cpcv s) = true).

Lemma NoDup_rev_seq : forall k, NoDup (rev (seq 1 k)).
Proof. intros. apply NoDup_rev. apply seq_NoDup. Qed.
Lemma in_rev_seq : forall k n, In n (rev (seq 1 k)) <-> 1 <= n <= k.
Proof. intros. rewrite <- in_rev. rewrite in_seq. lia. Qed.

(* accepted start n has finished: its goroutine has been created and has ended (also its sendResult) *)
Theorem one_result_per_start : forall s, reachable s ->
  length (results s) <= length (starts s) /\
  NoDup (map fst (results s)) /\
  (forall n, In n (map fst (results s)) -> In n (start_ids (starts s))) /\
  (forall n, finished s n -> count_occ Nat.eq_dec (map fst (results s)) n = 1).
Proof.
  intros s R. pose proof (inv_reachable s R) as I. destruct I as [IA IB].
  pose proof (B_resin s IB) as Hr. pose proof (B_resnd s IB) as Hnd. pose proof (B_ids s IB) as Hi.
  assert (Hle : stopPtr s <= nacc s). { unfold nacc. destruct (cpcv s); lia. }
  assert (Hsub : forall n, In n (map fst (results s)) -> In n (start_ids (starts s))).
  { intros n Hn. apply Hr in Hn. rewrite Hi. apply in_rev_seq. lia. }
  repeat split; auto.
  - rewrite <- (map_length fst (results s)). unfold start_ids in *.
    rewrite <- (map_length (fun x => fst (fst x)) (starts s)). apply NoDup_incl_length; auto.
  - intros n [F1 [F2 F3]]. apply NoDup_count_occ'; auto. apply Hr.
    rewrite Hi in F1. apply in_rev_seq in F1. unfold nacc, unsent_ids in *.
    rewrite map_app, in_app_iff in F2.
    split.
    + destruct (cpcv s); simpl in *; try lia; assert (n <> S (stopPtr s)) by (intro; apply F3; auto); lia.
    + rewrite !in_app_iff. intros [X|[X|X]].
      * apply F2. left. exact X.
      * apply F2. right. apply in_map_iff in X. destruct X as [t [E Ht]]. apply filter_In in Ht.
        apply in_map_iff. exists t. tauto.
      * destruct (cpcv s); simpl in *; try contradiction. destruct X as [X|[]]. apply F3. auto.
Qed.

Theorem result_belongs_to_start : forall s n r, reachable s -> In (n, r) (results s) ->
  exists c l, In (n, c, l) (starts s).
Proof.
  intros s n r R Hin. destruct (one_result_per_start s R) as [_ [_ [H _]]].
  assert (In n (map fst (results s))). { apply in_map_iff. exists (n, r). auto. }
  apply H in H0. unfold start_ids in H0. apply in_map_iff in H0. destruct H0 as [[[n' c] l] [E Hx]].
  simpl in E. subst. eauto.
Qed.

(* schedule fragment that lets search goroutine n return from iterativeDeepening as soon as it is in the search
   loop, and run on (disabled picks are skipped by run_sched) *)
Definition drive (n k : nat) : list tid := flat_map (fun _ => [TSearch n Finish; TSearch n Go]) (seq 0 k).

Example one_result_nonvacuous :
  let s := run_sched (init true false false [CStart (mkLimits false false false 0 false false); CWait; CStart (mkLimits false false false 0 false false); CWait])
             (repeat TCtl 12 ++ drive 1 40 ++ repeat TCtl 20 ++ drive 2 40 ++ repeat TCtl 12) in
  (results s, start_ids (starts s), map sid (srch s), cpcv s, calls s) = ([(2, RSelf); (1, RSelf)], [2; 1], [], CIdle, []).
Proof. vm_compute. reflexivity. Qed.

(** * no_foreign_stop *)

(* uniqueness of the start entry of an id *)
Lemma start_unique : forall s n c l c' l', Inv s -> In (n, c, l) (starts s) -> In (n, c', l') (starts s) -> c = c' /\ l = l'.
Proof.
  intros s n c l c' l' [IA IB] H1 H2. pose proof (B_ids s IB) as Hi. unfold start_ids in Hi.
  assert (ND : NoDup (map (fun x => fst (fst x)) (starts s))). { rewrite Hi. apply NoDup_rev_seq. }
  clear Hi. induction (starts s) as [|x st IH]; simpl in *; try contradiction.
  inversion ND; subst. destruct H1 as [H1|H1], H2 as [H2|H2]; subst.
  - inversion H2; auto.
  - exfalso. apply H3. apply in_map_iff. exists (n, c', l'). auto.
  - exfalso. apply H3. apply in_map_iff. exists (n, c, l). auto.
  - auto.
Qed.

(* Why search n ended ([r] is recorded with its result):
   RSelf  : iterativeDeepening returned by itself (only for searches that are neither infinite nor ponder);
   RNodes : its own node limit (only for searches that are neither infinite nor ponder - see
            infinite_not_before_stop);
   RTimer k tok cr : timer k - then the timer holds token n (= was started for search n): by run n itself,
            or by a PonderHit call issued after the StartSearch call of n;
   RStop c : StopSearch / NewGame call number c, issued after the StartSearch call of n;
   never REnd, never anything belonging to another search. *)
Theorem no_foreign_stop : forall s n r, reachable s -> In (n, r) (results s) ->
  exists cs l, In (n, cs, l) (starts s) /\
  match r with
  | RSelf => lPonder l || lInfinite l = false
  | RNodes => lNodes l = true /\ lPonder l || lInfinite l = false
  | RTimer k tok (ByRun m) => tok = n /\ m = n /\ lTimeControl l && negb (lPonder l) && negb (lInfinite l) = true
  | RTimer k tok (ByPonderHit c) => tok = n /\ cs < c <= cidx s /\ nth_error (allcalls s) c = Some CPonderHit /\ lPonder l = true
  | RStop c => cs < c <= cidx s /\ (nth_error (allcalls s) c = Some CStop \/ nth_error (allcalls s) c = Some CNewGame)
  | REnd => False
  end.
Proof.
  intros s n r R Hin. pose proof (inv_reachable s R) as I.
  destruct (result_belongs_to_start s n r R Hin) as [cs [l Hst]]. exists cs, l. split; auto.
  assert (U : forall c' l', In (n, c', l') (starts s) -> cs = c' /\ l = l') by (intros; eapply start_unique; eauto).
  destruct I as [IA IB]. destruct (B_res s IB n r Hin) as [Hok _].
  destruct r; simpl in Hok.
  - destruct Hok as [c' [l' [H1 H2]]]. destruct (U _ _ H1); subst; auto.
  - destruct Hok as [c' [l' [H1 H2]]]. destruct (U _ _ H1); subst; auto.
  - destruct Hok as [E Hc]. destruct cr; simpl in Hc.
    + destruct Hc as [E2 [c' [l' [H1 H2]]]]. destruct (U _ _ H1); subst; auto.
    + destruct Hc as [H1 [H2 [H3 [c' [l' [H4 H5]]]]]]. destruct (U _ _ H4); subst. specialize (H3 _ _ Hst). repeat split; auto.
  - destruct Hok as [H1 [H2 H3]]. specialize (H3 _ _ Hst). repeat split; auto.
  - contradiction.
Qed.

(* direct corollaries in the wording of the property *)
Corollary no_stale_timer : forall s n k tok cr, reachable s -> In (n, RTimer k tok cr) (results s) -> tok = n.
Proof. intros. destruct (no_foreign_stop _ _ _ H H0) as [cs [l [_ X]]]. destruct cr; tauto. Qed.
Corollary no_stale_stop : forall s n c cs l, reachable s -> In (n, RStop c) (results s) -> In (n, cs, l) (starts s) -> cs < c.
Proof.
  intros. destruct (no_foreign_stop _ _ _ H H0) as [cs' [l' [Hst X]]].
  destruct (start_unique s n cs l cs' l' (inv_reachable s H) H1 Hst); subst. lia.
Qed.

(** * infinite_not_before_stop *)

(* An infinite or ponder search answers only after a stop request issued after its start (StopSearch, or the
   StopSearch inside NewGame), or after a PonderHit issued after its start followed by the expiry of that
   PonderHit's timer.  (Holds for the code after "ponder and infinite searches answer only after
   stop/ponderhit"; before that repair `go infinite movetime ..`, `go infinite nodes ..` and `go ponder nodes ..`
   answered by themselves: run() started a timer for every time controlled non-ponder search, and
   stopConditions stored true into the stop token when the node limit was reached - both confirmed on the
   engine then: bestmove after 282 ms resp. 37 ms without any stop.) *)
Theorem infinite_not_before_stop : forall s n r cs l, reachable s ->
  In (n, r) (results s) -> In (n, cs, l) (starts s) -> lPonder l || lInfinite l = true ->
  (exists c, r = RStop c /\ cs < c <= cidx s /\ (nth_error (allcalls s) c = Some CStop \/ nth_error (allcalls s) c = Some CNewGame)) \/
  (exists k c, r = RTimer k n (ByPonderHit c) /\ cs < c <= cidx s /\ nth_error (allcalls s) c = Some CPonderHit).
Proof.
  intros s n r cs l R Hin Hst Hw. destruct (no_foreign_stop _ _ _ R Hin) as [cs' [l' [Hst' X]]].
  destruct (start_unique s n cs l cs' l' (inv_reachable s R) Hst Hst'); subst.
  destruct r; try congruence; try contradiction.
  - (* RNodes: excluded by the wait loop *)
    destruct X as [_ X]. congruence.
  - destruct cr.
    + destruct X as [_ [_ X]]. exfalso. destruct (lPonder l'), (lInfinite l'), (lTimeControl l'); simpl in *; discriminate.
    + destruct X as [E [X1 [X2 X3]]]. subst. right. eauto.
  - left. eauto.
Qed.

Example infinite_not_before_stop_nonvacuous :
  let s := run_sched (init true false false [CStart (mkLimits true false false 0 false false); CStop])
             (repeat TCtl 12 ++ repeat (TSearch 1 Go) 15 ++ repeat TCtl 12 ++ repeat (TSearch 1 Go) 30 ++ repeat TCtl 12) in
  (results s, starts s, calls s) = ([(1, RStop 1)], [(1, 0, mkLimits true false false 0 false false)], []).
Proof. vm_compute. reflexivity. Qed.

(* the formerly refuted cases: `go infinite nodes ..` (node limit reached: Nodes choice) and `go infinite movetime ..`
   now wait for the stop (result reason RStop 1, no timer was started) *)
Example infinite_nodes_waits_for_stop :
  let s1 := run_sched (init true false false [CStart (mkLimits true false true 0 true false); CStop])
              (repeat TCtl 12 ++ repeat (TSearch 1 Go) 16 ++ [TSearch 1 Nodes]) in
  let s := run_sched s1 (repeat (TSearch 1 Go) 40 ++ repeat TCtl 12 ++ repeat (TSearch 1 Go) 40 ++ repeat TCtl 12) in
  (map spcv (srch s1), map sreason (srch s1), results s, ntimers s, calls s) =
  ([SWaitLim], [Some RNodes], [(1, RStop 1)], 0, []).
Proof. vm_compute. reflexivity. Qed.

(* non-vacuity of no_foreign_stop.  (a) the scenario of the repaired defect: the timer of search 1 (token 1) is
   still alive when the infinite search 2 runs, and fires (ETimerFired 1) - search 2 is not affected and ends
   only with the later StopSearch (call 4).  (b) a ponder search ended by the timer of a PonderHit (call 1). *)
Example no_foreign_stop_nonvacuous_stale_timer :
  let s := run_sched (init true false false [CStart (mkLimits false false true 0 false false); CWait;
                                              CStart (mkLimits true false false 0 false false); CIsSearching; CStop])
    (repeat TCtl 12 ++ repeat (TSearch 1 Go) 15 ++ repeat (TTimer 0) 4 ++ drive 1 40 ++ repeat TCtl 30
     ++ repeat (TSearch 2 Go) 15 ++ repeat TCtl 3 ++ [TTimer 0] ++ repeat (TSearch 2 Go) 20 ++ repeat TCtl 30
     ++ repeat (TSearch 2 Go) 40 ++ repeat TCtl 10) in
  (rev (trace s), results s) =
  ([ECall 0; EResult 1; EStartReturned 1; ECall 1; EWaitReturned; ECall 2; EStartReturned 2; ETimerFired 1; ECall 3;
    EIsSearching true; ECall 4; EResult 2; EStopReturned],
   [(2, RStop 4); (1, RSelf)]).
Proof. vm_compute. reflexivity. Qed.
Example no_foreign_stop_nonvacuous_ponderhit :
  let s := run_sched (init true false false [CStart (mkLimits false true true 1 false false); CPonderHit])
    (repeat TCtl 12 ++ repeat (TSearch 1 Go) 15 ++ repeat TCtl 12
     ++ [TTimer 0; TTick; TTimer 0; TTimer 0; TTimer 0; TTimer 0; TTimer 0] ++ drive 1 40) in
  (rev (trace s), results s) =
  ([ECall 0; EStartReturned 1; ECall 1; EPonderHitReturned; ETimerFired 1; EResult 1], [(1, RTimer 0 1 (ByPonderHit 1))]).
Proof. vm_compute. reflexivity. Qed.

(** * go_after_bestmove_accepted (run() releases isRunning BEFORE it sends the result) *)

(* a result is recorded (and its EResult event emitted, in the same step) only by a goroutine that has already
   released isRunning: it sits in [senders], at the WriteString of its bestmove line *)
Lemma result_step : forall s t s', step s t = Some s' ->
  results s' = results s \/
  exists n th, t = TSearch n Go /\ find_s n (srch s) = None /\ find_s n (senders s) = Some th /\ spcv th = SRes1 /\
               results s' = (n, result_reason th) :: results s /\ trace s' = EResult n :: trace s.
Proof.
  intros s t s' H. unfold step in H. destruct (panicked s); try discriminate. destruct t.
  - left. unfold cstep in H. destruct (cur_call s) as [c|]; try discriminate.
    unfold out_stage1, out_stage2, out_stage3, rel_init, rel_run, rel_out, acq_out, new_timer, emit_opt, emit, after_init_c in H.
    destruct (cpcv s); try destruct c; try discriminate;
    repeat match goal with
    | H : context [if ?b then _ else _] |- _ => destruct b eqn:?; try discriminate
    | H : context [match limitsVar ?s with _ => _ end] |- _ => destruct (limitsVar s) eqn:?
    | H : context [match ?r with Some _ => _ | None => _ end] |- _ => destruct r eqn:?
    | H : context [match ?r with LReady => _ | _ => _ end] |- _ => destruct r eqn:?
    end; inversion H; subst; simpl; auto.
  - destruct (find_s n (srch s)) as [th|] eqn:F.
    + left. unfold sstep, goto_s, upd_s, out_stage1, out_stage2, out_stage3, rel_init, rel_run, rel_out, acq_out, new_timer, emit in H.
      destruct (spcv th), c; try discriminate;
      repeat match goal with
      | H : context [if ?b then _ else _] |- _ => destruct b eqn:?; try discriminate
      | H : context [match tok_get ?p ?l with _ => _ end] |- _ => destruct (tok_get p l) eqn:?
      | H : context [match limitsVar ?s with _ => _ end] |- _ => destruct (limitsVar s) eqn:?
      end; inversion H; subst; simpl; auto.
    + destruct (find_s n (senders s)) as [th|] eqn:F2; try discriminate. destruct c; try discriminate.
      destruct (find_s_in _ _ _ F2) as [_ En].
      unfold nstep, upd_n, out_stage1, out_stage2, out_stage3, rel_out, acq_out, emit in H.
      destruct (spcv th) eqn:Epc; try discriminate;
      repeat match goal with
      | H : context [if ?b then _ else _] |- _ => destruct b eqn:?; try discriminate
      end; inversion H; subst; simpl; auto.
      all: right; exists (sid th), th; repeat split; auto.
  - left. destruct (find_t k (timers s)) as [th|]; try discriminate. unfold tstep, upd_t, emit in H.
    destruct (tpcv th); try destruct (tok_get (ttok th) (toks s)); inversion H; subst; simpl; auto.
  - left. inversion H; subst; simpl; auto.
Qed.

Lemma run_sched_snoc : forall l x t,
  run_sched x (l ++ [t]) = match step (run_sched x l) t with Some y => y | None => run_sched x l end.
Proof. induction l; simpl; intros; auto. Qed.

Lemma reachable_step : forall s t s', reachable s -> step s t = Some s' -> reachable s'.
Proof.
  intros s t s' [s0 [I0 [sched Hs]]] H. exists s0. split; auto. exists (sched ++ [t]). subst.
  rewrite run_sched_snoc, H. reflexivity.
Qed.

(* at the moment the bestmove of search n goes out, isRunning is not held by search n; it is free, or held by
   the controller itself, or by a LATER search *)
Theorem result_sent_after_release : forall s t s' n r, reachable s -> step s t = Some s' ->
  results s' = (n, r) :: results s ->
  trace s' = EResult n :: trace s /\
  (forall th, In th (srch s') -> sid th <> n) /\
  (runFree s' = true \/ holds_run (cpcv s') = true \/ exists th, In th (srch s') /\ n < sid th).
Proof.
  intros s t s' n r R H Hres. destruct (result_step s t s' H) as [E|[n' [th [Et [F1 [F2 [Epc [E1 E2]]]]]]]].
  - exfalso. rewrite E in Hres. clear - Hres. induction (results s); [discriminate | inversion Hres; auto].
  - rewrite Hres in E1. inversion E1; subst. split; auto.
    assert (R' : reachable s') by (eapply reachable_step; eauto).
    destruct (inv_reachable s' R') as [IA IB].
    assert (Hin : In n' (map fst (results s'))) by (rewrite Hres; simpl; auto).
    apply (B_resin s' IB) in Hin. destruct Hin as [Hr Hu]. unfold unsent_ids in Hu. rewrite !in_app_iff in Hu.
    split.
    + intros t Ht E. apply Hu. left. apply in_map_iff. exists t. auto.
    + pose proof (A_run s' IA) as Hrun. pose proof (A_one s' IA) as Hone. pose proof (A_sid s' IA) as Hsid.
      destruct (srch s') as [|t [|t2 l]] eqn:Es; simpl in *; try lia.
      * destruct (holds_run (cpcv s')); simpl in Hrun; auto.
      * right. right. exists t. split; auto. destruct (Hsid t (or_introl eq_refl)) as [E _].
        assert (sid t <> n') by (intro; apply Hu; left; left; auto). lia.
Qed.

(* a StartSearch issued after the bestmove of the latest accepted search n has gone out is accepted: its
   TryAcquire succeeds (before the repair "a new search can be started as soon as the result of the previous
   one is out" run() sent the result while still holding isRunning, and such a go was rejected) *)
Theorem go_after_bestmove_accepted : forall s n l, reachable s ->
  In n (map fst (results s)) -> stopPtr s = n ->
  cpcv s = CStTry -> cur_call s = Some (CStart l) ->
  exists s', step s TCtl = Some s' /\ cpcv s' = CStAcqInit /\ starts s' = (S n, cidx s, l) :: starts s.
Proof.
  intros s n l R Hin Hp Hpc Hc. destruct (inv_reachable s R) as [IA IB].
  assert (Hfree : runFree s = true).
  { pose proof (A_run s IA) as Hrun. rewrite Hpc in Hrun. simpl in Hrun. rewrite Hrun.
    destruct (srch s) as [|t r] eqn:Es; auto. exfalso.
    apply (B_resin s IB) in Hin. destruct Hin as [_ Hu]. apply Hu. unfold unsent_ids. rewrite Es. simpl. left.
    destruct (A_sid s IA t) as [E _]. { rewrite Es. simpl. auto. } congruence. }
  unfold step, cstep. rewrite (A_pan s IA), Hc, Hpc, Hfree. eexists. split; [reflexivity|]. simpl. rewrite Hp. auto.
Qed.

Example go_after_bestmove_nonvacuous :
  let s := run_sched (init true false false [CStart (mkLimits false false true 0 false false); CStart (mkLimits true false false 0 false false)])
             (repeat TCtl 12 ++ drive 1 40 ++ repeat TCtl 4) in
  (map fst (results s), stopPtr s, cpcv s, cur_call s, map spcv (senders s)) =
  ([1], 1, CStTry, Some (CStart (mkLimits true false false 0 false false)), []).
Proof. vm_compute. reflexivity. Qed.

(* FINDING (allowed by the current code, consequence of releasing before sending): the bestmove lines of two
   consecutive searches can go out in swapped order - search 1 has released isRunning and is about to lock
   sendLock; a second go is accepted, search 2 runs to its end and sends first.  Each line still carries the
   data of its own search ([result_belongs_to_start]) and each accepted go gets exactly one line. *)
Theorem results_can_swap : exists cs sched,
  let s := run_sched (init true false false cs) sched in
  outLines s = [LBest 2; LBest 1] /\ results s = [(1, RSelf); (2, RSelf)] /\ calls s = [].
Proof.
  exists [CStart (mkLimits false false false 0 false false); CStart (mkLimits false false false 0 false false)].
  exists (repeat TCtl 12 ++ repeat (TSearch 1 Go) 11 ++ [TSearch 1 Finish] ++ repeat (TSearch 1 Go) 6 ++ repeat TCtl 14
          ++ drive 2 40 ++ repeat TCtl 6 ++ repeat (TSearch 1 Go) 8).
  vm_compute. auto.
Qed.

(** * race_free *)

Lemma var_eqb_sym : forall a b, var_eqb a b = var_eqb b a.
Proof. destruct a, b; simpl; auto. apply Nat.eqb_sym. Qed.
Lemma conflict_sym : forall a b, conflict a b = conflict b a.
Proof.
  intros [v1 w1 a1] [v2 w2 a2]. unfold conflict; simpl. rewrite var_eqb_sym.
  destruct (var_eqb v2 v1), w1, w2, a1, a2; reflexivity.
Qed.

Ltac conflict_false :=
  unfold conflict; simpl;
  repeat match goal with |- context [?p =? ?q] => destruct (p =? q) end; reflexivity.

Lemma timer_search_noconflict : forall s tm th c a b,
  taccess tm = Some a -> saccess s th c = Some b -> conflict a b = false.
Proof.
  intros s tm th c a b Ha Hb. unfold taccess in Ha. unfold saccess in Hb.
  destruct (tpcv tm); inversion Ha; subst; clear Ha;
  destruct (spcv th), c; try destruct (cfgBook s); try destruct (cfgTT s); inversion Hb; subst; conflict_false.
Qed.
Lemma timer_ctl_noconflict : forall s tm a b,
  taccess tm = Some a -> caccess s = Some b -> conflict a b = false.
Proof.
  intros s tm a b Ha Hb. unfold taccess in Ha. unfold caccess in Hb.
  destruct (tpcv tm); inversion Ha; subst; clear Ha;
  destruct (cpcv s); try destruct (cfgBook s); try destruct (cfgTT s); inversion Hb; subst; conflict_false.
Qed.
Lemma timer_timer_noconflict : forall tm tm' a b,
  taccess tm = Some a -> taccess tm' = Some b -> conflict a b = false.
Proof.
  intros tm tm' a b Ha Hb. unfold taccess in *.
  destruct (tpcv tm); inversion Ha; subst; clear Ha; destruct (tpcv tm'); inversion Hb; subst; conflict_false.
Qed.

Lemma var_eqb_eq : forall a b, var_eqb a b = true -> a = b.
Proof. destruct a, b; simpl; intros; try discriminate; auto. apply Nat.eqb_eq in H. subst; auto. Qed.

Definition zone_u (p : cpc) : bool :=
  match p with CNgTT | CNgHist | CChTT | CRzNil | CRzTT => true | _ => false end.

Lemma saccess_char : forall s th c b, saccess s th c = Some b ->
  match avar b with
  | VStopPtr | VLimits | VHistory => awrite b = false
  | VTok _ => aatomic b = true
  | VTimeLimit | VExtraTime => aatomic b = true \/ awrite b = false
  | VCurPos => False
  | VHasResult | VLastResult => True
  | VBook => in_init (spcv th) = true
  | VTT => in_init (spcv th) = true \/ (awrite b = false /\ before_tt (spcv th) = false)
  | VOut => s_send (spcv th) = true
  end.
Proof.
  intros s th c b H. unfold saccess in H.
  destruct (spcv th), c; try destruct (cfgBook s); try destruct (cfgTT s); inversion H; subst; simpl; auto.
Qed.

Lemma caccess_char : forall s a, caccess s = Some a ->
  match avar a with
  | VStopPtr | VLimits => awrite a = true -> holds_run (cpcv s) = true
  | VHistory => zone_u (cpcv s) = true
  | VTok _ => aatomic a = true
  | VTimeLimit | VExtraTime | VHasResult | VLastResult => False
  | VCurPos => True
  | VBook => cpcv s <> CStWait
  | VTT => cpcv s <> CStWait /\ (awrite a = true -> cpcv s = CInTTW \/ zone_u (cpcv s) = true)
  | VOut => c_send (cpcv s) = true
  end.
Proof.
  intros s a H. unfold caccess in H.
  destruct (cpcv s); try destruct (cfgBook s); try destruct (cfgTT s); inversion H; subst; simpl; auto;
    try discriminate; try (split; [discriminate | auto]); try (split; [discriminate | discriminate]).
Qed.

Lemma find_s_two_aux : forall s n m th th', length (srch s) <= 1 ->
  find_s n (srch s) = Some th -> find_s m (srch s) = Some th' -> n = m.
Proof.
  intros. destruct (srch_single _ _ _ H H0). destruct (srch_single _ _ _ H H1). congruence.
Qed.

Lemma sender_access : forall s th c b, snd_pc (spcv th) = true -> saccess s th c = Some b ->
  avar b = VOut /\ s_send (spcv th) = true.
Proof.
  intros s th c b Hp H. unfold saccess in H. destruct (spcv th), c; simpl in Hp; try discriminate; inversion H; subst; auto.
Qed.

Lemma holder_two : forall s a b, holder_is s a = true -> holder_is s b = true -> a = b.
Proof.
  unfold holder_is. intros s a b Ha Hb. destruct (outHolder s) as [x|]; try discriminate.
  destruct x, a; simpl in Ha; try discriminate; destruct b; simpl in Hb; try discriminate; auto;
    apply Nat.eqb_eq in Ha; apply Nat.eqb_eq in Hb; congruence.
Qed.

Lemma ctl_search_noconflict : forall s n c a b, InvA s ->
  caccess s = Some a -> access_of s (TSearch n c) = Some b -> conflict a b = false.
Proof.
  intros s n c a b I Ha Hb. simpl in Hb.
  destruct (find_s n (srch s)) as [th|] eqn:F.
  - destruct (srch_single _ _ _ (A_one _ I) F) as [Es En]. clear F.
    apply caccess_char in Ha. apply saccess_char in Hb.
    destruct I as [Ipan Ione Irun Iexcl Iinit Iphase Icall Izone Itt Ittw Itoks Isid Icp Iph Ihfree Ihctl Ihsrch Ihsnd Ibuf0 Ierr Icbuf Isbuf Inbuf Isrun Isnd Isndnd Ihex Ihkind Ilim].
    unfold srch_init, srch_send in *. rewrite Es in *. simpl in *.
    specialize (Itt th (or_introl eq_refl)). specialize (Ihsrch th (or_introl eq_refl)).
    assert (Hrun : holds_run (cpcv s) = false).
    { destruct (holds_run (cpcv s)) eqn:E; auto. specialize (Iexcl eq_refl). discriminate. }
    assert (Hz : zone_u (cpcv s) = true -> False).
    { intro E. assert (zone (cpcv s) (cur_call s) = true).
      { unfold zone. destruct (cpcv s); simpl in *; try discriminate; rewrite ?orb_true_r; auto. }
      specialize (Izone H). discriminate. }
    rewrite orb_false_r in *.
    destruct (conflict a b) eqn:Ec; auto. exfalso.
    destruct a as [va wa aa], b as [vb wb ab]. unfold conflict in Ec. simpl in *.
    apply andb_prop in Ec. destruct Ec as [Ec E3]. apply andb_prop in Ec. destruct Ec as [E1 E2].
    apply var_eqb_eq in E1. subst vb.
    destruct va; simpl in *; try contradiction.
    all: try (subst; rewrite orb_false_r in E2; subst; specialize (Ha eq_refl); congruence).
    all: try (subst; discriminate).
    all: try (apply Ha; auto; fail).
    all: try (rewrite Ihctl in Ha; rewrite Ihsrch in Hb; pose proof (holder_two _ _ _ Ha Hb); discriminate).
    all: try (apply Hz; auto; fail).
    (* VTT *)
    destruct Ha as [Hw Ha]. destruct Hb as [Hb|[Hb1 Hb2]].
    + apply Hw. auto.
    + subst. rewrite orb_false_r in E2. subst. destruct (Ha eq_refl) as [X|X]; auto.
      destruct (Ittw X) as [Y Z]. specialize (Itt Hb2 Z). congruence.
  - destruct (find_s n (senders s)) as [th|] eqn:F2; try discriminate. destruct c; try discriminate.
    destruct (find_s_in _ _ _ F2) as [Hin _].
    destruct (A_snd _ I th Hin) as [Hpc _].
    destruct (sender_access s th Go b Hpc Hb) as [Ev Hs].
    apply caccess_char in Ha.
    destruct (conflict a b) eqn:Ec; auto. exfalso.
    destruct a as [va wa aa], b as [vb wb ab]. unfold conflict in Ec. simpl in *.
    apply andb_prop in Ec. destruct Ec as [Ec E3]. apply andb_prop in Ec. destruct Ec as [E1 E2].
    apply var_eqb_eq in E1. subst. simpl in Ha.
    rewrite (A_hctl _ I) in Ha. rewrite (A_hsnd _ I th Hin) in Hs. pose proof (holder_two _ _ _ Ha Hs). discriminate.
Qed.

(* two different search goroutines (one may still own isRunning, any number may be in sendResult) *)
Lemma search_search_noconflict : forall s n1 c1 n2 c2 a b, InvA s -> n1 <> n2 ->
  access_of s (TSearch n1 c1) = Some a -> access_of s (TSearch n2 c2) = Some b -> conflict a b = false.
Proof.
  intros s n1 c1 n2 c2 a b I Hne Ha Hb. simpl in Ha, Hb.
  assert (Key : forall n c x th, (find_s n (srch s) = Some th \/ (find_s n (srch s) = None /\ find_s n (senders s) = Some th)) ->
                 saccess s th c = Some x -> avar x = VOut -> holder_is s (ThSearch n) = true).
  { intros n c x th [F|[_ F]] Hx Ev; destruct (find_s_in _ _ _ F) as [Hin En]; subst n.
    - apply saccess_char in Hx. rewrite Ev in Hx. rewrite <- (A_hsrch _ I th Hin). auto.
    - destruct (A_snd _ I th Hin) as [Hpc _]. destruct (sender_access s th c x Hpc Hx) as [_ Hs].
      rewrite <- (A_hsnd _ I th Hin). auto. }
  destruct (find_s n1 (srch s)) as [t1|] eqn:F1; destruct (find_s n2 (srch s)) as [t2|] eqn:F2.
  - exfalso. apply Hne. eapply find_s_two_aux; eauto. apply (A_one _ I).
  - destruct (find_s n2 (senders s)) as [t2|] eqn:G2; try discriminate. destruct c2; try discriminate.
    destruct (find_s_in _ _ _ G2) as [Hin2 _]. destruct (A_snd _ I t2 Hin2) as [Hpc2 _].
    destruct (sender_access s t2 Go b Hpc2 Hb) as [Ev2 _].
    destruct (conflict a b) eqn:Ec; auto. exfalso. unfold conflict in Ec.
    apply andb_prop in Ec. destruct Ec as [Ec _]. apply andb_prop in Ec. destruct Ec as [E1 _].
    apply var_eqb_eq in E1.
    pose proof (Key n1 c1 a t1 (or_introl F1) Ha ltac:(congruence)) as H1.
    pose proof (Key n2 Go b t2 (or_intror (conj F2 G2)) Hb Ev2) as H2.
    pose proof (holder_two _ _ _ H1 H2) as X. inversion X. contradiction.
  - destruct (find_s n1 (senders s)) as [t1|] eqn:G1; try discriminate. destruct c1; try discriminate.
    destruct (find_s_in _ _ _ G1) as [Hin1 _]. destruct (A_snd _ I t1 Hin1) as [Hpc1 _].
    destruct (sender_access s t1 Go a Hpc1 Ha) as [Ev1 _].
    destruct (conflict a b) eqn:Ec; auto. exfalso. unfold conflict in Ec.
    apply andb_prop in Ec. destruct Ec as [Ec _]. apply andb_prop in Ec. destruct Ec as [E1 _].
    apply var_eqb_eq in E1.
    pose proof (Key n1 Go a t1 (or_intror (conj F1 G1)) Ha Ev1) as H1.
    pose proof (Key n2 c2 b t2 (or_introl F2) Hb ltac:(congruence)) as H2.
    pose proof (holder_two _ _ _ H1 H2) as X. inversion X. contradiction.
  - destruct (find_s n1 (senders s)) as [t1|] eqn:G1; try discriminate. destruct c1; try discriminate.
    destruct (find_s n2 (senders s)) as [t2|] eqn:G2; try discriminate. destruct c2; try discriminate.
    destruct (find_s_in _ _ _ G1) as [Hin1 _]. destruct (A_snd _ I t1 Hin1) as [Hpc1 _].
    destruct (find_s_in _ _ _ G2) as [Hin2 _]. destruct (A_snd _ I t2 Hin2) as [Hpc2 _].
    destruct (sender_access s t1 Go a Hpc1 Ha) as [Ev1 _]. destruct (sender_access s t2 Go b Hpc2 Hb) as [Ev2 _].
    pose proof (Key n1 Go a t1 (or_intror (conj F1 G1)) Ha Ev1) as H1.
    pose proof (Key n2 Go b t2 (or_intror (conj F2 G2)) Hb Ev2) as H2.
    pose proof (holder_two _ _ _ H1 H2) as X. inversion X. contradiction.
Qed.

Lemma no_conflict : forall s t1 t2 a b, InvA s -> thread_of t1 <> thread_of t2 ->
  access_of s t1 = Some a -> access_of s t2 = Some b -> conflict a b = false.
Proof.
  intros s t1 t2 a b I Hne Ha Hb.
  destruct t1 as [|n1 c1|k1|], t2 as [|n2 c2|k2|]; simpl in Hne; try congruence; try discriminate.
  - eapply ctl_search_noconflict; eauto.
  - simpl in Ha, Hb. destruct (find_t k2 (timers s)); try discriminate. rewrite conflict_sym. eapply timer_ctl_noconflict; eauto.
  - rewrite conflict_sym. eapply ctl_search_noconflict; eauto.
  - eapply (search_search_noconflict s n1 c1 n2 c2); eauto; intro; apply Hne; congruence.
  - simpl in Ha, Hb. destruct (find_t k2 (timers s)); try discriminate. rewrite conflict_sym.
    destruct (find_s n1 (srch s)); [eapply timer_search_noconflict; eauto|].
    destruct (find_s n1 (senders s)); try discriminate. destruct c1; try discriminate. eapply timer_search_noconflict; eauto.
  - simpl in Ha, Hb. destruct (find_t k1 (timers s)); try discriminate. eapply timer_ctl_noconflict; eauto.
  - simpl in Ha, Hb. destruct (find_t k1 (timers s)); try discriminate.
    destruct (find_s n2 (srch s)); [eapply timer_search_noconflict; eauto|].
    destruct (find_s n2 (senders s)); try discriminate. destruct c2; try discriminate. eapply timer_search_noconflict; eauto.
  - simpl in Ha, Hb. destruct (find_t k1 (timers s)); try discriminate. destruct (find_t k2 (timers s)); try discriminate.
    eapply timer_timer_noconflict; eauto.
Qed.

Theorem race_free : forall s t1 t2 v, reachable s -> ~ race_at s t1 t2 v.
Proof.
  intros s t1 t2 v R [Hne [_ [_ [a [b [Ha [Hb [Hc _]]]]]]]].
  rewrite (no_conflict s t1 t2 a b (proj1 (inv_reachable s R)) Hne Ha Hb) in Hc. discriminate.
Qed.

(* non-vacuity: two goroutines with pending accesses to the same variable, both enabled, in a reachable state -
   the controller inside IsReady's send (holding sendLock, about to write OutIo) while the search goroutine
   waits for the lock in SendResult; and a timer storing into the token the search is about to load *)
Example race_free_nonvacuous :
  let s := run_sched (init true false false [CStart (mkLimits false false true 0 false false); CIsReady])
             (repeat TCtl 12 ++ repeat (TSearch 1 Go) 17 ++ repeat TCtl 4 ++ repeat (TTimer 0) 4) in
  (enabled s (TTimer 0), enabled s (TSearch 1 Go), access_of s (TTimer 0), access_of s (TSearch 1 Go)) =
  (true, true, awr (VTok 1), ard (VTok 1)).
Proof. vm_compute. reflexivity. Qed.

(** * Liveness invariant J *)

Definition tok_unset (s : state) : bool :=
  match tok_get (stopPtr s) (toks s) with None => true | Some _ => false end.
Definition th_risky (s : state) (th : sthread) : bool :=
  (lPonder (slim th) || lInfinite (slim th)) && tok_unset s.
Definition srch_risky (s : state) : bool := existsb (th_risky s) (srch s).
Definition after_stop_pc (p : cpc) (c : option call) : bool :=
  match p, c with
  | (CWRel | CNgTT | CNgHist), _ => true
  | CRet _, Some (CStop | CNewGame | CWait) => true
  | _, _ => false
  end.
Definition stop_wait_pc (p : cpc) (c : option call) : bool :=
  match p, c with (CWAcq | CWRel), Some (CStop | CNewGame) => true | _, _ => false end.
Definition wait_pc_ok (p : spc) (l : limits) : Prop :=
  match p with SWaitPtr | SWaitTok _ => lPonder l || lInfinite l = true | _ => True end.

Record InvJ (s : state) : Prop := {
  J_tok : stop_wait_pc (cpcv s) (cur_call s) = true -> tok_unset s = false;
  J_wf : wfr (srch_risky s) (calls s) = true;
  J_after : after_stop_pc (cpcv s) (cur_call s) = true -> srch s = [];
  J_wait : forall th, In th (srch s) -> wait_pc_ok (spcv th) (slim th)
}.

Lemma wfr_le : forall cs r1 r2, (r1 = true -> r2 = true) -> wfr r2 cs = true -> wfr r1 cs = true.
Proof.
  induction cs as [|c cs IH]; simpl; intros r1 r2 H H0; auto.
  destruct c; eauto.
  - eapply IH; [|eauto]. destruct r1, r2; simpl; auto. specialize (H eq_refl); discriminate.
  - apply andb_prop in H0. destruct H0 as [H0 H1]. rewrite H1. destruct r1, r2; simpl in *; auto; try (specialize (H eq_refl); discriminate).
Qed.

Lemma tok_set_keeps : forall l p q r x, tok_get q l = Some x -> tok_get q (tok_set p r l) = Some x.
Proof.
  intros. destruct (Nat.eq_dec p q).
  - subst. rewrite tok_get_set_same by (eapply tok_get_lt; eauto). rewrite H. reflexivity.
  - rewrite tok_get_set_other by auto. auto.
Qed.
Lemma tok_unset_set : forall s p r, stopPtr s = stopPtr s ->
  (match tok_get (stopPtr s) (tok_set p r (toks s)) with None => true | Some _ => false end) = true -> tok_unset s = true.
Proof.
  intros s p r _ H. unfold tok_unset. destruct (tok_get (stopPtr s) (toks s)) eqn:E; auto.
  rewrite (tok_set_keeps _ p _ r _ E) in H. discriminate.
Qed.

Lemma invJ_init : forall a b c cs, well_formed_calls cs = true -> InvJ (init a b c cs).
Proof. intros. constructor; simpl; auto; try discriminate. intros; contradiction. Qed.

Lemma invJ_tick : forall s, InvJ s -> InvJ (set_clock (S (clock s)) s).
Proof. intros s [ ]; constructor; simpl; auto. Qed.

Lemma srch_risky_set : forall s s' p r, srch s' = srch s -> stopPtr s' = stopPtr s -> toks s' = tok_set p r (toks s) ->
  srch_risky s' = true -> srch_risky s = true.
Proof.
  intros s s' p r Hs Hp Ht H. unfold srch_risky in *. rewrite Hs in H. apply existsb_exists in H.
  destruct H as [th [Hin Hr]]. apply existsb_exists. exists th. split; auto.
  unfold th_risky in *. apply andb_prop in Hr. destruct Hr as [H1 H2]. rewrite H1. simpl.
  unfold tok_unset in H2. rewrite Hp, Ht in H2. eapply tok_unset_set; eauto.
Qed.

Lemma invJ_timer : forall s k s', InvA s -> InvJ s -> step s (TTimer k) = Some s' -> InvJ s'.
Proof.
  intros s k s' IA I H. unfold step in H. rewrite (A_pan _ IA) in H.
  destruct (find_t k (timers s)) as [th|] eqn:F; try discriminate.
  unfold tstep in H. destruct I as [Jtok Jwf Jafter Jwait].
  destruct (tpcv th); try destruct (tok_get (ttok th) (toks s)) eqn:Etok; inv_some;
    constructor; unfold upd_t, cur_call in *; simpl; auto.
  all: try (intros Hp; specialize (Jtok Hp); unfold tok_unset, emit in *; simpl;
            destruct (tok_get (stopPtr s) (toks s)) eqn:E; try discriminate;
            rewrite (tok_set_keeps _ _ _ _ _ E); reflexivity).
  all: try (eapply wfr_le; [|exact Jwf]; intro Hr;
            eapply (srch_risky_set s _ (ttok th) (RTimer (tmid th) (ttok th) (tcreator th))); [| | |exact Hr]; reflexivity).
Qed.

Lemma invJ_search : forall s n c s' th, InvA s -> InvJ s -> find_s n (srch s) = Some th -> sstep s th c = Some s' -> InvJ s'.
Proof.
  intros s n c s' th IA I F H.
  destruct (srch_single _ _ _ (A_one _ IA) F) as [Es En]. clear F.
  assert (Herr := A_err _ IA).
  destruct (A_sid _ IA th) as [Esid [Elim Epar]]. { rewrite Es; simpl; auto. }
  destruct I as [Jtok Jwf Jafter Jwait].
  assert (Haft : after_stop_pc (cpcv s) (cur_call s) = false).
  { destruct (after_stop_pc (cpcv s) (cur_call s)); auto. specialize (Jafter eq_refl). congruence. }
  unfold cur_call in Haft.
  specialize (Jwait th). rewrite Es in Jwait. specialize (Jwait (or_introl eq_refl)).
  unfold srch_risky, th_risky, tok_unset in Jwf. rewrite Es in Jwf. simpl in Jwf.
  unfold sstep, goto_s, upd_s, out_stage1, out_stage2, out_stage3 in H. rewrite Elim, Es, ?Herr in H.
  destruct (spcv th) eqn:Epc; destruct c; try discriminate;
  repeat match goal with
  | H : (if ?b then _ else _) = Some _ |- _ => destruct b eqn:?; try discriminate
  | H : match tok_get ?p ?l with _ => _ end = Some _ |- _ => destruct (tok_get p l) eqn:?
  end;
  try inv_some.
  all: simpl in *; subst.
  all: unfold rel_init, rel_run, rel_out, new_timer, emit, after_init_s, acq_out.
  all: simpl; rewrite ?Es; simpl; rewrite ?Nat.eqb_refl; simpl.
  all: repeat match goal with |- context [if ?b then _ else _] => destruct b eqn:? end.
  all: simpl; rewrite ?Es; simpl; rewrite ?Nat.eqb_refl; simpl.
  all: constructor; unfold cur_call, srch_risky, th_risky, tok_unset in *; simpl; rewrite ?Es; simpl; rewrite ?Haft; auto; try discriminate.
  all: try (intros; dest_in; simpl in *; auto; try discriminate; try congruence; fail).
  all: try (intros; contradiction).
  all: rewrite ?tok_get_set_same by (rewrite (A_toks _ IA); lia); simpl; rewrite ?andb_false_r; simpl; auto.
  all: try (eapply wfr_le; [|exact Jwf]; discriminate).
  all: try (eapply wfr_le; [|exact Jwf]; repeat match goal with H : tok_get _ _ = _ |- _ => rewrite H end; auto; fail).
  all: try (rewrite Heqb; exact Jwf).
Qed.

Lemma invJ_ctl : forall s s', InvA s -> InvJ s -> step s TCtl = Some s' -> InvJ s'.
Proof.
  intros s s' IA I H. unfold step in H. rewrite (A_pan _ IA) in H.
  assert (Herr := A_err _ IA). assert (Hone := A_one _ IA). assert (Hcall := A_call _ IA).
  assert (Hcp := A_cparam _ IA). assert (Hexcl := A_excl _ IA). assert (Htoks := A_toks _ IA).
  assert (Hrun := A_run _ IA).
  destruct I as [Jtok Jwf Jafter Jwait].
  unfold cstep, cur_call, cparam_ok in *.
  unfold out_stage1, out_stage2, out_stage3 in H. rewrite ?Herr in H.
  destruct (calls s) as [|c cs] eqn:Ec; simpl in *; try discriminate.
  destruct (cpcv s) eqn:Epc; simpl in *; destruct c; try discriminate;
    repeat match goal with
    | H : (if ?b then _ else _) = Some _ |- _ => destruct b eqn:?; try discriminate
    | H : match limitsVar ?s with _ => _ end = Some _ |- _ => destruct (limitsVar s) eqn:?
    end; try inv_some; try discriminate.
  all: simpl in *.
  all: unfold rel_init, rel_run, rel_out, new_timer, emit_opt, emit, after_init_c.
  all: repeat match goal with |- context [if ?b then _ else _] => destruct b eqn:? end.
  all: repeat match goal with |- context [match ?b with Some _ => _ | None => _ end] => destruct b eqn:? end.
  all: repeat match goal with |- context [match ?b with LReady => _ | _ => _ end] => destruct b eqn:? end.
  all: simpl.
  all: constructor; unfold cur_call in *; simpl; rewrite ?Ec, ?Epc; simpl; auto; try discriminate; try congruence.
  all: try (assert (Hnil : srch s = []) by (first [apply Hexcl; reflexivity | apply Jafter; reflexivity]); rewrite ?Hnil in * ).
  all: unfold srch_risky, th_risky, tok_unset in *; simpl in *; rewrite ?Hnil in *; simpl in *; auto.
  all: rewrite ?tok_get_set_same by (rewrite Htoks; lia); simpl; auto.
  all: try (apply andb_prop in Jwf; destruct Jwf as [_ Jwf]; exact Jwf).
  all: try (eapply wfr_le; [|exact Jwf]; intro X; rewrite ?orb_false_r in X; rewrite ?X; auto; try (apply andb_prop in X; destruct X as [X _]; rewrite X; reflexivity); fail).
  all: try (intros th0 [E|[]]; subst; simpl; auto; fail).
  all: try (eapply wfr_le; [|exact Jwf]; intro X; destruct (lPonder l || lInfinite l); simpl in *; auto; fail).
  all: try (intros _; destruct (srch s); auto; discriminate).
Qed.

Lemma invJ_sender : forall s s' th, InvJ s -> nstep s th = Some s' -> InvJ s'.
Proof.
  intros s s' th I H. destruct I as [Jtok Jwf Jafter Jwait].
  unfold nstep, upd_n, out_stage1, out_stage2, out_stage3, rel_out, acq_out, emit in H.
  destruct (spcv th); try discriminate;
  repeat match goal with
  | H : context [if ?b then _ else _] |- _ => destruct b eqn:?; try discriminate
  end; inversion H; subst; constructor; auto.
Qed.

Lemma invJ_step : forall s t s', InvA s -> InvJ s -> step s t = Some s' -> InvJ s'.
Proof.
  intros s t s' IA I H. destruct t.
  - eapply invJ_ctl; eauto.
  - unfold step in H. rewrite (A_pan _ IA) in H.
    destruct (find_s n (srch s)) as [th|] eqn:F.
    + eapply invJ_search; eauto.
    + destruct (find_s n (senders s)) as [th|] eqn:F2; try discriminate. destruct c; try discriminate.
      eapply invJ_sender; eauto.
  - eapply invJ_timer; eauto.
  - unfold step in H. rewrite (A_pan _ IA) in H. inv_some. apply invJ_tick; auto.
Qed.

(** * no_deadlock *)

Definition ctl_blocked (s : state) : Prop := controller_done s = false /\ step s TCtl = None.

(** ** ranks: every step chosen by the scheduling strategy lowers the measure *)

Definition crank (p : cpc) : nat :=
  match p with
  | CIdle => 40
  | CStTry => 30 | CStAcqInit => 29 | CStPos => 28 | CStLim => 27 | CStTok => 26 | CStGo => 25 | CStWait => 24 | CStRel => 23
  | CSpPtr => 35 | CSpStore _ => 34 | CWAcq => 33 | CWRel => 32 | CNgTT => 31 | CNgHist => 30
  | CIsTry => 35 | CIsRel => 34 | CPhLim => 33 | CPhPtr => 32 | CPhGo _ => 31
  | CChTT => 33 | CRzNil => 33
  | CInBook => 25 | CInBookW => 24 | CInTT => 23 | CInTTW => 22 | CRzTT => 21
  | CSend0 _ _ => 10 | CSend1 _ _ => 9 | CSend2 _ => 8 | CSend3 _ _ => 7 | CSend4 _ => 6
  | CRet _ => 1
  end.
Definition srank (p : spc) : nat :=
  match p with
  | SHasRes0 => 500 | STL0 => 490 | SET0 => 480 | SInBook => 470 | SInBookW => 460 | SInTT => 450 | SInTTW => 440
  | SSetTL => 430 | SSetET => 420 | SLimTimer => 410 | STimerPtr => 400 | STimerGo _ => 390 | SBook => 380
  | STTAge => 370 | SHist => 360 | SRelInit => 350
  | SPollPtr => 155 | SPollTok _ => 154 | SPollLim => 153 | SNodeTT => 150 | SNodeHist => 149
  | SInfo0 => 148 | SInfo1 => 147 | SInfo2 => 146 | SInfo3 _ => 145 | SInfo4 => 144
  | SExtra1 => 143 | SExtra2 _ => 142 | SExtra3 _ => 141 | SLoop => 140
  | SWaitLim => 130 | SWaitPtr => 129 | SWaitTok _ => 128
  | SLastRes => 120 | SHasRes1 => 119 | SEndPtr => 118 | SEndStore _ => 117
  | SRelRun => 116 | SRes0 => 115 | SRes1 => 114 | SRes2 => 113 | SRes3 _ => 112 | SRes4 => 111
  end.
Definition ctl_rank (s : state) : nat := length (calls s) * 41 + crank (cpcv s).
Definition rk (th : sthread) : nat := srank (spcv th).
Definition srch_rank (s : state) : nat := list_sum (map rk (srch s)) + list_sum (map rk (senders s)).
Definition measure (s : state) : nat := ctl_rank s * 1000 + srch_rank s.

Lemma ctl_progress : forall s s', InvA s -> cstep s = Some s' ->
  ctl_rank s' < ctl_rank s /\ srch_rank s' <= srch_rank s + 500.
Proof.
  intros s s' IA H. assert (Hcall := A_call _ IA). assert (Herr := A_err _ IA).
  unfold cstep, cur_call in *.
  unfold out_stage1, out_stage2, out_stage3 in H. rewrite ?Herr in H.
  destruct (calls s) as [|c cs] eqn:Ec; simpl in H, Hcall; try discriminate.
  destruct (cpcv s) eqn:Epc; simpl in H, Hcall; destruct c; try discriminate;
    repeat match goal with
    | H : (if ?b then _ else _) = Some _ |- _ => destruct b eqn:?; try discriminate
    | H : match limitsVar ?s with _ => _ end = Some _ |- _ => destruct (limitsVar s) eqn:?
    end; try inv_some; try discriminate.
  all: unfold rel_init, rel_run, rel_out, new_timer, emit_opt, emit, after_init_c, acq_out.
  all: repeat match goal with |- context [if ?b then _ else _] => destruct b eqn:? end.
  all: repeat match goal with |- context [match ?b with Some _ => _ | None => _ end] => destruct b eqn:? end.
  all: repeat match goal with |- context [match ?b with LReady => _ | _ => _ end] => destruct b eqn:? end.
  all: unfold ctl_rank, srch_rank; cbn -[Nat.mul Nat.add]; rewrite ?Ec, ?Epc; cbn -[Nat.mul Nat.add]; try lia.
  all: try (split; [lia | unfold list_sum, rk; cbn -[Nat.mul Nat.add]; lia]).
  exfalso. apply (A_ph _ IA); [rewrite Epc; reflexivity | assumption].
Qed.


Lemma search_progress : forall s th, InvA s -> srch s = [th] ->
  (match spcv th with SInfo0 => outFree s = true | SWaitTok _ => tok_unset s = false | _ => True end) ->
  exists c s', step s (TSearch (sid th) c) = Some s' /\ srch_rank s' < srch_rank s /\ ctl_rank s' = ctl_rank s.
Proof.
  intros s th IA Es Hc.
  assert (Hp := A_pan _ IA). assert (Herr := A_err _ IA). assert (Hsr := A_srun _ IA th).
  destruct (A_sid _ IA th) as [Esid [Elim Epar]]. { rewrite Es; simpl; auto. }
  exists (match spcv th with SLoop => Finish | _ => Go end).
  unfold step. rewrite Hp. unfold find_s. rewrite Es. simpl. rewrite Nat.eqb_refl.
  unfold sstep, goto_s, upd_s, out_stage1, out_stage2, out_stage3. rewrite Elim, Es, ?Herr.
  unfold tok_unset in Hc. rewrite Es in Hsr. specialize (Hsr (or_introl eq_refl)).
  destruct (spcv th) eqn:Epc; simpl in Epar, Hsr; subst; try discriminate;
    try rewrite Hc;
    repeat match goal with
    | |- context [match tok_get ?p ?l with _ => _ end] => destruct (tok_get p l) eqn:?; try discriminate
    | |- context [if ?b then _ else _] => destruct b eqn:?
    end;
    eexists; (split; [reflexivity|]);
    unfold srch_rank, ctl_rank, rel_init, rel_run, rel_out, new_timer, emit, acq_out;
    repeat match goal with |- context [if ?b then _ else _] => destruct b eqn:? end;
    unfold list_sum, rk; cbn -[Nat.mul Nat.add]; rewrite ?Es; cbn -[Nat.mul Nat.add]; rewrite ?Nat.eqb_refl; cbn -[Nat.mul Nat.add]; rewrite ?Epc; cbn -[Nat.mul Nat.add]; try (split; lia).
  all: unfold after_init_s; destruct (lTimeControl (slim th)); cbn -[Nat.mul Nat.add]; split; lia.
Qed.

Lemma rank_put : forall l th th', NoDup (map sid l) -> In th l -> sid th' = sid th ->
  list_sum (map rk (put_s th' l)) + rk th = list_sum (map rk l) + rk th'.
Proof.
  induction l as [|a l IH]; simpl; intros th th' ND Hin E; try contradiction. inversion ND; subst.
  destruct Hin as [Ea|Hin].
  - subst a. rewrite E, Nat.eqb_refl.
    assert (X : put_s th' l = l).
    { unfold put_s. rewrite <- (map_id l) at 2. apply map_ext_in. intros x Hx.
      destruct (Nat.eqb_spec (sid x) (sid th')); auto. exfalso. apply H1. apply in_map_iff. exists x. split; auto. congruence. }
    fold (put_s th' l). rewrite X. lia.
  - assert (sid a <> sid th'). { intro X. apply H1. apply in_map_iff. exists th. split; auto. congruence. }
    apply Nat.eqb_neq in H. rewrite H. fold (put_s th' l). specialize (IH th th' H2 Hin E). lia.
Qed.
Lemma rank_del : forall l th, NoDup (map sid l) -> In th l ->
  list_sum (map rk (del_s (sid th) l)) + rk th = list_sum (map rk l).
Proof.
  induction l as [|a l IH]; simpl; intros th ND Hin; try contradiction. inversion ND; subst.
  destruct Hin as [Ea|Hin].
  - subst a. rewrite Nat.eqb_refl. simpl.
    assert (X : del_s (sid th) l = l).
    { unfold del_s. clear - H1. induction l as [|x l IH]; simpl; auto.
      destruct (Nat.eqb_spec (sid x) (sid th)); simpl.
      - exfalso. apply H1. simpl. auto.
      - f_equal. apply IH. intro X. apply H1. simpl. auto. }
    fold (del_s (sid th) l). rewrite X. lia.
  - assert (sid a <> sid th). { intro X. apply H1. apply in_map_iff. exists th. split; auto. }
    apply Nat.eqb_neq in H. rewrite H. simpl. fold (del_s (sid th) l). specialize (IH th H2 Hin). lia.
Qed.

Lemma sender_progress : forall s th, InvA s -> In th (senders s) ->
  (spcv th = SRes0 -> outFree s = true) ->
  exists s', step s (TSearch (sid th) Go) = Some s' /\ srch_rank s' < srch_rank s /\ ctl_rank s' = ctl_rank s.
Proof.
  intros s th IA Hin Hc.
  assert (Hp := A_pan _ IA). assert (Herr := A_err _ IA). assert (Hnd := A_sndnd _ IA).
  destruct (A_snd _ IA th Hin) as [Hpc [Hle Hlt]].
  assert (F1 : find_s (sid th) (srch s) = None).
  { destruct (find_s (sid th) (srch s)) as [t|] eqn:F; auto. destruct (find_s_in _ _ _ F) as [Ht E].
    destruct (A_sid _ IA t Ht) as [E2 _]. assert (sid th < stopPtr s). { apply Hlt. left. intro X. rewrite X in Ht. contradiction. } lia. }
  assert (F2 : find_s (sid th) (senders s) = Some th).
  { destruct (find_s (sid th) (senders s)) as [t|] eqn:F.
    - destruct (find_s_in _ _ _ F) as [Ht E]. f_equal. eapply sid_unique; eauto.
    - exfalso. unfold find_s in F. apply (find_none _ _ F) in Hin. rewrite Nat.eqb_refl in Hin. discriminate. }
  unfold step. rewrite Hp, F1, F2. unfold nstep, upd_n, out_stage1, out_stage2, out_stage3. rewrite ?Herr.
  destruct (spcv th) eqn:Epc; simpl in Hpc; try discriminate; try rewrite (Hc eq_refl);
    eexists; (split; [reflexivity|]);
    unfold srch_rank, ctl_rank, rel_out, emit, acq_out;
    repeat match goal with |- context [if ?b then _ else _] => destruct b eqn:? end;
    cbn -[Nat.mul Nat.add list_sum put_s del_s]; (split; [|reflexivity]).
  all: assert (E1 : rk th = srank (spcv th)) by reflexivity; rewrite Epc in E1; cbn [srank] in E1.
  all: try (match goal with |- context [put_s (set_spc ?p ?t) _] =>
              pose proof (rank_put (senders s) t (set_spc p t) Hnd Hin eq_refl) as X;
              change (rk (set_spc p t)) with (srank p) in X; cbn [srank] in X end; lia).
  all: pose proof (rank_del (senders s) th Hnd Hin) as X; lia.
Qed.

(* the goroutine holding sendLock (not the controller) can always run, and lowers the rank *)
Lemma holder_progress : forall s, InvA s -> outFree s = false -> c_send (cpcv s) = false ->
  exists n c s', step s (TSearch n c) = Some s' /\ srch_rank s' < srch_rank s /\ ctl_rank s' = ctl_rank s.
Proof.
  intros s IA Hf Hc.
  pose proof (A_hfree _ IA) as H1. pose proof (A_hctl _ IA) as H2. pose proof (A_hkind _ IA) as H3.
  unfold holder_is in *. rewrite Hf, Hc in *.
  destruct (outHolder s) as [[| k | |]|] eqn:Eh; simpl in *; try discriminate; try contradiction.
  destruct (A_hex _ IA k Eh) as [th [[Hin|Hin] E]]; subst k.
  - pose proof (A_hsrch _ IA th Hin) as Hs. unfold holder_is in Hs. rewrite Eh in Hs. simpl in Hs. rewrite Nat.eqb_refl in Hs.
    pose proof (A_one _ IA) as Hone. destruct (srch s) as [|t [|t2 r]] eqn:Es; simpl in *; try lia; try contradiction.
    destruct Hin as [E|[]]. subst t.
    destruct (search_progress s th IA Es) as [c [s' Hx]].
    { destruct (spcv th); simpl in Hs; try discriminate; auto. }
    exists (sid th), c, s'. auto.
  - pose proof (A_hsnd _ IA th Hin) as Hs. unfold holder_is in Hs. rewrite Eh in Hs. simpl in Hs. rewrite Nat.eqb_refl in Hs.
    destruct (sender_progress s th IA Hin) as [s' Hx].
    { intro X. rewrite X in Hs. discriminate. }
    exists (sid th), Go, s'. auto.
Qed.

Lemma blocked_progress : forall s, InvA s -> InvJ s -> controller_done s = false -> cstep s = None ->
  exists n c s', step s (TSearch n c) = Some s' /\ srch_rank s' < srch_rank s /\ ctl_rank s' = ctl_rank s.
Proof.
  intros s IA IJ Hd Hc.
  pose proof (A_one _ IA) as Hone. pose proof (A_run _ IA) as Hrun. pose proof (A_init _ IA) as Hinit.
  pose proof (A_call _ IA) as Hcall. pose proof (A_ph _ IA) as Hphl. pose proof (A_hctl _ IA) as Hctl.
  pose proof (J_tok _ IJ) as Jtok. pose proof (J_wf _ IJ) as Jwf. pose proof (J_wait _ IJ) as Jwait.
  unfold cstep, controller_done, cur_call, srch_init, srch_risky, th_risky in *.
  destruct (calls s) as [|c cs] eqn:Ec; try discriminate. simpl in Hc, Hcall, Jtok.
  destruct (cpcv s) eqn:Epc; simpl in *; destruct c; try discriminate;
  repeat match goal with
  | H : (if ?b then _ else _) = None |- _ => destruct b eqn:?; try discriminate
  | H : match limitsVar ?s with _ => _ end = None |- _ => destruct (limitsVar s) eqn:?; try discriminate
  | H : (let (_, _) := out_stage2 ?s in _) = None |- _ => destruct (out_stage2 s); discriminate
  end; try discriminate.
  all: try (exfalso; apply Hphl; auto; fail).
  (* blocked on sendLock *)
  all: try (apply holder_progress; auto; rewrite Epc; reflexivity).
  (* blocked on a semaphore held by the search goroutine *)
  all: destruct (srch s) as [|th [|th2 r]] eqn:Es; simpl in *; try lia; try discriminate.
  all: specialize (Jwait th (or_introl eq_refl)).
  all: destruct (match spcv th with SInfo0 => outFree s | _ => true end) eqn:Elock.
  all: try (destruct (search_progress s th IA Es) as [c0 [s' Hx]];
            [ destruct (spcv th); simpl in *; auto; try discriminate;
              try (rewrite Jwait in Jwf; simpl in Jwf; rewrite orb_false_r in Jwf; destruct (tok_unset s); simpl in Jwf; auto; discriminate)
            | exists (sid th), c0, s'; exact Hx ]; fail).
  all: try (apply holder_progress; auto; [destruct (spcv th); auto; discriminate | rewrite Epc; reflexivity]).
Qed.

Lemma progress : forall s, InvA s -> InvJ s -> controller_done s = false ->
  exists t s', step s t = Some s' /\ measure s' < measure s.
Proof.
  intros s IA IJ Hd. pose proof (A_pan _ IA) as Hp.
  destruct (cstep s) as [s'|] eqn:Hc.
  - exists TCtl, s'. split. { unfold step. rewrite Hp. exact Hc. }
    destruct (ctl_progress s s' IA Hc). unfold measure. lia.
  - destruct (blocked_progress s IA IJ Hd Hc) as [n [c [s' [Hs [H1 H2]]]]].
    exists (TSearch n c), s'. split; auto. unfold measure. lia.
Qed.

Lemma invJ_sched : forall sched s, Inv s -> InvJ s -> InvJ (run_sched s sched).
Proof.
  induction sched; simpl; intros; auto.
  destruct (step s a) eqn:E; auto. apply IHsched; [eapply inv_step | eapply invJ_step]; eauto. apply H.
Qed.

Lemma completes : forall n s, measure s < n -> Inv s -> InvJ s -> exists sched, controller_done (run_sched s sched) = true.
Proof.
  induction n; intros s Hm I J; try lia.
  destruct (controller_done s) eqn:Hd.
  - exists []. simpl. auto.
  - destruct (progress s (proj1 I) J Hd) as [t [s' [Hs Hlt]]].
    destruct (IHn s') as [sched Hdone]; try lia.
    + eapply inv_step; eauto.
    + eapply invJ_step; eauto. apply I.
    + exists (t :: sched). simpl. rewrite Hs. auto.
Qed.

(* every call sequence of the UCI command loop (no WaitWhileSearching) is well formed *)
Lemma no_wait_well_formed : forall cs r, (forall c, In c cs -> c <> CWait) -> wfr r cs = true.
Proof.
  induction cs as [|c cs IH]; simpl; intros; auto.
  destruct c; try (apply IH; intros; apply H; auto).
  exfalso. apply (H CWait); auto.
Qed.

Theorem no_deadlock : forall a b c cs s,
  well_formed_calls cs = true -> reachable_from (init a b c cs) s ->
  exists sched, controller_done (run_sched s sched) = true.
Proof.
  intros a b c cs s Hwf [sched0 R]. subst.
  apply (completes (S (measure (run_sched (init a b c cs) sched0)))); try lia.
  - apply inv_sched. split; [apply invA_init | apply invB_init].
  - apply invJ_sched. { split; [apply invA_init | apply invB_init]. } apply invJ_init; auto.
Qed.

(** ** local statement: a blocked controller is never alone (no well-formedness needed) *)
Theorem no_deadlock_local : forall s, reachable s -> ctl_blocked s ->
  exists t, thread_of t <> ThCtl /\ thread_of t <> ThClock /\ step s t <> None.
Proof.
  intros s R [Hd Hb]. destruct (inv_reachable s R) as [IA IB].
  pose proof (A_pan _ IA) as Hp. pose proof (A_one _ IA) as Hone.
  unfold step in Hb. rewrite Hp in Hb.
  assert (X : exists n c, step s (TSearch n c) <> None).
  { pose proof (A_run _ IA) as Hrun. pose proof (A_init _ IA) as Hinit. pose proof (A_call _ IA) as Hcall.
    pose proof (A_ph _ IA) as Hphl.
    assert (Hold : outFree s = false -> c_send (cpcv s) = false -> exists n c, step s (TSearch n c) <> None).
    { intros H1 H2. destruct (holder_progress s IA H1 H2) as [n [c [s' [Hs _]]]]. exists n, c. congruence. }
    unfold cstep, controller_done, cur_call, srch_init in *.
    destruct (calls s) as [|c cs] eqn:Ec; try discriminate. simpl in Hb, Hcall.
    destruct (cpcv s) eqn:Epc; simpl in *; destruct c; try discriminate;
    repeat match goal with
    | H : (if ?b then _ else _) = None |- _ => destruct b eqn:?; try discriminate
    | H : match limitsVar ?s with _ => _ end = None |- _ => destruct (limitsVar s) eqn:?; try discriminate
    | H : (let (_, _) := out_stage2 ?s in _) = None |- _ => destruct (out_stage2 s); discriminate
    end; try discriminate.
    all: try (exfalso; apply Hphl; auto; fail).
    all: try (apply Hold; auto; fail).
    all: destruct (srch s) as [|th [|th2 r]] eqn:Es; simpl in *; try lia; try discriminate.
    all: destruct (match spcv th with SInfo0 => outFree s | _ => true end) eqn:Elock.
    all: try (apply Hold; auto; destruct (spcv th); auto; discriminate).
    all: exists (sid th), (match spcv th with SLoop => Finish | _ => Go end);
         unfold step; rewrite Hp; unfold find_s; rewrite Es; simpl; rewrite Nat.eqb_refl;
         pose proof (A_srun _ IA th) as Hsr; rewrite Es in Hsr; specialize (Hsr (or_introl eq_refl));
         unfold sstep, goto_s; destruct (spcv th); simpl in Hsr; try discriminate; try rewrite Elock; try discriminate;
         try (destruct (limitsVar s); discriminate); try (destruct (tok_get _ _); discriminate);
         try (destruct (out_stage2 s); discriminate). }
  destruct X as [n [c Hs]]. exists (TSearch n c). simpl. repeat split; auto; discriminate.
Qed.

(* a blocked controller is released by the search goroutines ALONE, within a bounded number of their steps
   (bound: the rank of the live search goroutines; <= 500 for the one that owns isRunning, <= 115 for each
   goroutine still inside sendResult): StartSearch returns, stop ends the search promptly, readyok is prompt *)
Definition is_search_tid (t : tid) : bool := match t with TSearch _ _ => true | _ => false end.

Lemma search_step_keeps_ctl : forall s n c s', step s (TSearch n c) = Some s' ->
  panicked s' = false -> calls s' = calls s /\ cpcv s' = cpcv s.
Proof.
  intros s n c s' H Hp. unfold step in H. destruct (panicked s); try discriminate.
  destruct (find_s n (srch s)) as [th|].
  - unfold sstep, goto_s, upd_s, out_stage1, out_stage2, out_stage3, rel_init, rel_run, rel_out, acq_out, new_timer, emit in H.
    destruct (spcv th), c; try discriminate;
    repeat match goal with
    | H : context [if ?b then _ else _] |- _ => destruct b eqn:?; try discriminate
    | H : context [match tok_get ?p ?l with _ => _ end] |- _ => destruct (tok_get p l) eqn:?
    | H : context [match limitsVar ?s with _ => _ end] |- _ => destruct (limitsVar s) eqn:?
    end; inv_some; simpl in *; auto; try discriminate.
  - destruct (find_s n (senders s)) as [th|]; try discriminate. destruct c; try discriminate.
    unfold nstep, upd_n, out_stage1, out_stage2, out_stage3, rel_out, acq_out, emit in H.
    destruct (spcv th); try discriminate;
    repeat match goal with
    | H : context [if ?b then _ else _] |- _ => destruct b eqn:?; try discriminate
    end; inv_some; simpl in *; auto; try discriminate.
Qed.

Theorem blocked_controller_released : forall k s, srch_rank s < k -> Inv s -> InvJ s -> ctl_blocked s ->
  exists sched, forallb is_search_tid sched = true /\ length sched < k /\
                cstep (run_sched s sched) <> None /\ calls (run_sched s sched) = calls s.
Proof.
  induction k; intros s Hk I J [Hd Hb]; try lia.
  pose proof (A_pan _ (proj1 I)) as Hp. unfold step in Hb. rewrite Hp in Hb.
  destruct (blocked_progress s (proj1 I) J Hd Hb) as [n [c [s' [Hs [H1 H2]]]]].
  assert (I' : Inv s') by (eapply inv_step; eauto).
  assert (J' : InvJ s') by (eapply invJ_step; eauto; apply I).
  destruct (search_step_keeps_ctl _ _ _ _ Hs (A_pan _ (proj1 I'))) as [Ecalls Epc].
  destruct (cstep s') eqn:Hc'.
  - exists [TSearch n c]. simpl. rewrite Hs. repeat split; auto; try lia. congruence.
  - destruct (IHk s') as [sched [F [L [C E]]]]; try lia; auto.
    { split. { unfold controller_done in *. rewrite Ecalls. auto. } unfold step. rewrite (A_pan _ (proj1 I')). auto. }
    exists (TSearch n c :: sched). simpl. rewrite Hs. repeat split; auto; try lia. congruence.
Qed.

Lemma srank_le : forall p, srank p <= 500.
Proof. destruct p; simpl; lia. Qed.
Lemma srch_rank_le : forall s, InvA s -> srch_rank s <= 500 + 115 * length (senders s).
Proof.
  intros s IA. pose proof (A_one _ IA) as H1. pose proof (A_snd _ IA) as H2. unfold srch_rank.
  assert (X : list_sum (map rk (srch s)) <= 500).
  { destruct (srch s) as [|th [|th2 r]]; simpl in *; try lia. pose proof (srank_le (spcv th)). unfold rk. lia. }
  assert (Y : list_sum (map rk (senders s)) <= 115 * length (senders s)).
  { induction (senders s) as [|a l IH]; simpl; try lia.
    assert (rk a <= 115). { destruct (H2 a (or_introl eq_refl)) as [P _]. unfold rk. destruct (spcv a); simpl in *; try discriminate; lia. }
    assert (list_sum (map rk l) <= 115 * length l). { apply IH. intros t Ht. apply H2. right. auto. }
    lia. }
  lia.
Qed.

Corollary blocked_controller_released_bound : forall s, reachable s -> InvJ s -> ctl_blocked s ->
  exists sched, forallb is_search_tid sched = true /\ length sched <= 500 + 115 * length (senders s) /\
                cstep (run_sched s sched) <> None.
Proof.
  intros s R J Hb. pose proof (inv_reachable s R) as I.
  destruct (blocked_controller_released (S (srch_rank s)) s) as [sched [F [L [C _]]]]; auto.
  exists sched. repeat split; auto. pose proof (srch_rank_le s (proj1 I)). lia.
Qed.

(* non-vacuity: well-formed call list, reachable state with the controller blocked in StopSearch on an infinite search *)
Example no_deadlock_nonvacuous :
  let cs := [CStart (mkLimits true false false 0 false false); CIsReady; CStop; CStart (mkLimits false true true 1 false false); CPonderHit; CNewGame] in
  let s := run_sched (init true false false cs) (repeat TCtl 12 ++ repeat (TSearch 1 Go) 15 ++ repeat TCtl 20) in
  (well_formed_calls cs, controller_done s, enabled s TCtl, cpcv s, enabled s (TSearch 1 Go)) = (true, false, false, CWAcq, true).
Proof. vm_compute. reflexivity. Qed.

(* ... and a complete run of that session *)
Example no_deadlock_run :
  let cs := [CStart (mkLimits true false false 0 false false); CIsReady; CStop; CStart (mkLimits false true true 1 false false); CPonderHit; CNewGame] in
  let s := run_sched (init true false false cs)
             (repeat TCtl 12 ++ repeat (TSearch 1 Go) 15 ++ repeat TCtl 20 ++ repeat (TSearch 1 Go) 40 ++ repeat TCtl 20
              ++ repeat (TSearch 2 Go) 15 ++ repeat TCtl 20 ++ repeat (TSearch 2 Go) 40 ++ repeat TCtl 20) in
  (controller_done s, rev (trace s), results s) =
  (true, [ECall 0; EStartReturned 1; ECall 1; EReadyOk; ECall 2; EResult 1; EStopReturned; ECall 3; EStartReturned 2; ECall 4;
          EPonderHitReturned; ECall 5; EResult 2; ENewGameReturned],
   [(2, RStop 5); (1, RStop 2)]).
Proof. vm_compute. reflexivity. Qed.

(** * The OutIo writer *)

(* with sendLock the sticky bufio error is unreachable: the engine is never muted by its own output *)
Theorem output_never_muted : forall s, reachable s -> outErr s = false.
Proof. intros s R. apply (A_err _ (proj1 (inv_reachable s R))). Qed.

(* documentation of the defect repaired by sendLock (uci.go before "output of the UCI handler is serialised"):
   WITHOUT the lock the three bufio stages of two goroutines interleave; if goroutine B's WriteString falls
   between goroutine A's Write(buf[0:n]) and A's `n < b.n` check, A records io.ErrShortWrite in the writer and
   every later line (readyok, bestmove) is silently dropped.  Confirmed on the engine before the repair:
   `position fen 8/8/4k3/8/8/4K3/4P3/8 w - - 0 1`, `go infinite`, 3000 x `isready`, `stop`: 4 of 8 runs mute. *)
Lemma bufio_unlocked_interleaving_mutes : forall s a b,
  outErr s = false -> outBuf s = [] ->
  let sA1 := out_stage1 a s in                 (* A: WriteString *)
  let (sA2, k) := out_stage2 sA1 in            (* A: Flush, Write(buf[0:n]) *)
  let sB1 := out_stage1 b sA2 in               (* B: WriteString in between *)
  let sA3 := out_stage3 k sB1 in               (* A: n < b.n  ->  sticky error *)
  outErr sA3 = true /\
  forall c, outLines (fst (out_stage2 (out_stage1 c sA3))) = outLines sA3.   (* nothing is ever written again *)
Proof.
  intros s a b He Hb. unfold out_stage1, out_stage2, out_stage3. rewrite He. simpl. rewrite He, Hb. simpl.
  rewrite He. simpl. rewrite He. simpl. split; auto.
Qed.


(** * Assumptions *)
Print Assumptions start_while_running_rejected.
Print Assumptions start_rejected_step.
Print Assumptions start_rejected_never_blocks.
Print Assumptions one_result_per_start.
Print Assumptions result_belongs_to_start.
Print Assumptions no_foreign_stop.
Print Assumptions infinite_not_before_stop.
Print Assumptions result_sent_after_release.
Print Assumptions go_after_bestmove_accepted.
Print Assumptions results_can_swap.
Print Assumptions race_free.
Print Assumptions no_deadlock_local.
Print Assumptions no_deadlock.
Print Assumptions blocked_controller_released.
Print Assumptions blocked_controller_released_bound.
Print Assumptions output_never_muted.
